import RigoAudit.Cmd
