/-
  `#audit_module M` prints, for every theorem declared in module `M`, the axioms it depends on
  (one `AUDIT` line per theorem).  Used by bin/check on every run.
-/
import Lean
open Lean Elab Command

elab "#audit_module " m:ident : command => do
  let env ← getEnv
  let mod := m.getId
  let some idx := env.getModuleIdx? mod | throwError "no such module {mod}"
  let names := env.header.moduleData[idx.toNat]!.constNames
  for n in names do
    match env.find? n with
    | some (.thmInfo _) =>
      if n.isInternal then continue
      let axs ← liftCoreM (collectAxioms n)
      let l := axs.toList.map toString
      IO.println s!"AUDIT {mod} {n} [{", ".intercalate l}]"
    | _ => pure ()
