import RigoDriver.Util
import RigoDriver.Ledger
