/-
  C04 — Exactly-once, in-order execution by nonce.

  "A transaction succeeds only if its nonce equals the sender's current nonce, every successful
   transaction raises that nonce by exactly one, and failed transactions leave it unchanged.
   Consequently a given signed transaction can take effect at most once, within a block or across
   blocks, no matter how often it is re-submitted."

  Property theorems only; helper lemmas live in RigoProofs/{TxBasic,TxCommon,TxSteps,C04Nonce}.lean.

  Vocabulary.  `nonceOf s a` is the nonce of address `a` in the consensus (DeliverTx) view, 0 for an
  unknown address.  Accounts are identified by their ledger key (`ledgerKey`, the 32-byte padded
  address under which the account ledger stores them).  "Succeeds" = the DeliverTx response carries
  code 0.  The EVM is a parameter of the model (`TxIn.evm` = what go-ethereum did); transactions
  executed by it need the oracle hypothesis `EvmNonceOK` (sender's nonce + 1, other nonces only grow
  — `ApplyMessage`'s contract, validated against the real runs by C17); native transaction types
  (transfer to a non-contract, staking, unstaking, withdraw, proposal, voting, setdoc) need none.
-/
import RigoProofs.C04Nonce
open Std

namespace Rigo.C04

/-- **nonce_success.**  A delivery that answers code 0 carried exactly the sender's current nonce
    (and a valid signature), raised the sender's nonce by exactly one and lowered no nonce;
    for a native transaction no other account's nonce changed at all.
    ("A transaction succeeds only if its nonce equals the sender's current nonce, every successful
    transaction raises that nonce by exactly one".) -/
theorem nonce_success {g : Genesis} {s : St} (hr : Reachable g s) (tx : TxIn) (o : TxOut)
    (ho : (deliverTx s tx).2.tx = some o) (hc : o.code = 0) (hE : EvmNonceOK s tx) :
    tx.nonce = nonceOf s tx.from_ ∧
    nonceOf (deliverTx s tx).1 tx.from_ = nonceOf s tx.from_ + 1 ∧
    (∀ a, nonceOf s a ≤ nonceOf (deliverTx s tx).1 a) ∧
    (¬ viaEvm tx (recvOf s tx) → ∀ a, ledgerKey a ≠ ledgerKey tx.from_ → nonceOf (deliverTx s tx).1 a = nonceOf s a) := by
  have hA := (AcctInv_reachable hr).1
  obtain ⟨b, hb, hc'⟩ := deliverTx_ok_inv ho hc
  obtain ⟨h1, h2⟩ := deliver_success hA hc' hE
  refine ⟨h1, by rw [deliverTx_nonceOf tx hb]; exact h2, fun a => ?_, fun hn a ha => ?_⟩
  · rw [deliverTx_nonceOf tx hb]; exact (handleTx_mono hA hE).1 a
  · rw [deliverTx_nonceOf tx hb]; exact (deliver_success_native hA hc' hn).2.2.1 a ha

/-- **nonce_success** for the native transaction types: no hypothesis about the EVM. -/
theorem nonce_success_native {g : Genesis} {s : St} (hr : Reachable g s) (tx : TxIn) (o : TxOut)
    (ho : (deliverTx s tx).2.tx = some o) (hc : o.code = 0) (hn : ¬ viaEvm tx (recvOf s tx)) :
    tx.nonce = nonceOf s tx.from_ ∧
    nonceOf (deliverTx s tx).1 tx.from_ = nonceOf s tx.from_ + 1 ∧
    (∀ a, ledgerKey a ≠ ledgerKey tx.from_ → nonceOf (deliverTx s tx).1 a = nonceOf s a) := by
  have hA := (AcctInv_reachable hr).1
  obtain ⟨b, hb, hc'⟩ := deliverTx_ok_inv ho hc
  obtain ⟨h1, h2, h3, _⟩ := deliver_success_native hA hc' hn
  exact ⟨h1, by rw [deliverTx_nonceOf tx hb]; exact h2, fun a ha => by rw [deliverTx_nonceOf tx hb]; exact h3 a ha⟩

/-- **nonce_failure.**  A delivery that does not answer code 0 (any failure reason, any transaction
    type, also a call outside a block; any state, no hypothesis) leaves every nonce as it was.
    ("failed transactions leave it unchanged".) -/
theorem nonce_failure (s : St) (tx : TxIn) (hf : ∀ o, (deliverTx s tx).2.tx = some o → o.code ≠ 0) :
    ∀ a, nonceOf (deliverTx s tx).1 a = nonceOf s a := by
  intro a
  rcases deliverTx_fail_inv hf with e | ⟨b, _, hc, e⟩
  · rw [e]
  · rw [e]; exact (deliver_failure hc).1 a

/-- **nonce_monotone**, one operation.  In a history that respects the ABCI phase discipline
    (BeginBlock, DeliverTx*, EndBlock, Commit; CheckTx anywhere; restart only between blocks) no
    operation ever lowers a nonce: BeginBlock, EndBlock, Commit, CheckTx and restart keep every
    consensus nonce, DeliverTx only raises. `PInv p s` is the invariant of such histories
    (`phase_invariant` below). -/
theorem nonce_monotone_step {p p' : Phase} {s : St} {op : Op} (hph : phaseStep p op = some p') (hP : PInv p s)
    (hE : OpOracleOK s op) : ∀ a, nonceOf s a ≤ nonceOf (step s op).1 a :=
  (PInv_step hph hP hE).2

/-- the invariant used by `nonce_monotone_step` holds after every well-phased history from genesis
    (no hypothesis about the EVM is needed for the invariant itself) -/
theorem phase_invariant (g : Genesis) (ops : List Op) (p : Phase) (hph : phaseRun .idle ops = some p) :
    PInv p (exec (initChain g) ops) :=
  phaseRun_PInv ops .idle p _ hph (PInv_init g)

/-- **nonce_monotone**, whole histories: along a well-phased history `pre ++ post` from genesis no
    nonce is lower after `pre ++ post` than after `pre`. -/
theorem nonce_monotone (g : Genesis) (pre post : List Op) (hph : (phaseRun .idle (pre ++ post)).isSome)
    (hE : RunOracleOK (initChain g) (pre ++ post)) :
    ∀ a, nonceOf (exec (initChain g) pre) a ≤ nonceOf (exec (initChain g) (pre ++ post)) a := by
  rw [phaseRun_append] at hph
  cases h1 : phaseRun .idle pre with
  | none => rw [h1] at hph; simp at hph
  | some p1 =>
    rw [h1] at hph
    simp only [Option.bind_some] at hph
    cases h2 : phaseRun p1 post with
    | none => rw [h2] at hph; simp at hph
    | some p2 =>
      rw [exec_append]
      exact (phaseRun_mono post p1 p2 _ h2 (phase_invariant g pre p1 h1) ((RunOracleOK_append pre post _).mp hE).2).2

/-- Without the phase discipline monotonicity is false in the model: a restart in the middle of a
    block (`Reachable` allows any order) reopens the ledger on the last committed version and thereby
    forgets the uncommitted nonce increment.  This is the expected crash behaviour (Tendermint replays
    the block), not a defect; it is why the theorems above are stated for well-phased histories. -/
def gW : Genesis :=
  { chainId := "t", params := { (default : Params) with gasPrice := 10, minTrxGas := 1 },
    holders := [("aa00000000000000000000000000000000000001", 1000000)], vals := [] }
def txW : TxIn :=
  { sigOk := true, from_ := "aa00000000000000000000000000000000000001", to := "bb00000000000000000000000000000000000002",
    amount := 5, gas := 2, price := 10, type := TRX_TRANSFER }

theorem restart_mid_block_forgets :
    nonceOf (exec (initChain gW) [.begin_ { height := 1 }, .deliver txW]) txW.from_ = 1 ∧
    nonceOf (exec (initChain gW) [.begin_ { height := 1 }, .deliver txW, .restart]) txW.from_ = 0 := by
  decide

/-- **at_most_once.**  In any well-phased history from genesis, two deliveries carrying the same
    sender (ledger key) and the same nonce cannot both succeed — within one block or across blocks,
    with anything in between (other transactions, CheckTx calls, block boundaries, restarts).
    ("a given signed transaction can take effect at most once … no matter how often it is re-submitted":
    a re-submission of the same signed bytes has the same `from_` and `nonce`.) -/
theorem at_most_once (g : Genesis) (ops : List Op) (hph : (phaseRun .idle ops).isSome)
    (hE : RunOracleOK (initChain g) ops) (i j : Nat) (hij : i < j) (tx1 tx2 : TxIn)
    (h1 : ops[i]? = some (.deliver tx1)) (h2 : ops[j]? = some (.deliver tx2))
    (ok1 : DeliveredOK (initChain g) ops i) (ok2 : DeliveredOK (initChain g) ops j)
    (hk : ledgerKey tx1.from_ = ledgerKey tx2.from_) (hn : tx1.nonce = tx2.nonce) : False :=
  at_most_once_from ops .idle _ i j tx1 tx2 hph (PInv_init g) hE hij h1 h2 ok1 ok2 hk hn

/-- the same transaction delivered twice: at most one of the two deliveries succeeds -/
theorem replay_fails (g : Genesis) (ops : List Op) (hph : (phaseRun .idle ops).isSome)
    (hE : RunOracleOK (initChain g) ops) (i j : Nat) (hij : i < j) (tx : TxIn)
    (h1 : ops[i]? = some (.deliver tx)) (h2 : ops[j]? = some (.deliver tx))
    (ok1 : DeliveredOK (initChain g) ops i) : ¬ DeliveredOK (initChain g) ops j :=
  fun ok2 => at_most_once g ops hph hE i j hij tx tx h1 h2 ok1 ok2 rfl rfl

/-! ### non-vacuity -/

/-- a concrete history: the transfer succeeds, its replay in the same block and its replay in the
    next block both fail (code 5, "nonce") -/
def opsW : List Op :=
  [.begin_ { height := 1 }, .deliver txW, .deliver txW, .end_, .commit, .begin_ { height := 2 }, .deliver txW]

example : (phaseRun .idle opsW).isSome := by decide
example : RunOracleOK (initChain gW) opsW := by
  simp [opsW, RunOracleOK, OpOracleOK, EvmNonceOK, txW]
example : ((run (initChain gW) opsW).2.map fun o => o.tx.map fun t => (t.code, t.kind)) =
    [none, some (0, "ok"), some (5, "nonce"), none, none, none, some (5, "nonce")] := by decide
example : DeliveredOK (initChain gW) opsW 1 :=
  ⟨{ code := 0, kind := "ok", gasUsed := 2, gasWanted := 2 }, by decide, rfl⟩

/-- the oracle hypothesis is satisfiable: a successful contract call that bumps the sender's nonce -/
def txC : TxIn :=
  { txW with type := TRX_CONTRACT, gas := 30000, amount := 0,
             evm := some { ok := true, gasUsed := 21000, accessed := [txW.from_, txW.to],
                           synced := [(txW.from_, 790000, 1), (txW.to, 0, 0)] } }

example : EvmNonceOK (initChain gW) txC := by
  intro o ho _
  simp [txC] at ho; subst ho
  decide

example : viaEvm txC (recvOf (initChain gW) txC) := Or.inl rfl

end Rigo.C04
