/-
  C08 — Crash recovery. Property theorems over the commit-log model (Rigo/CommitLog.lean).
  The FULL statement (`crash_safe_full_statement`) is false for the code as it is: the stores are
  saved one after another with no rollback on open. `crash_unsafe_witness` proves it for every
  crash point strictly inside the commit; `crash_safe_partial` is what does hold.
-/
import Rigo.CommitLog

namespace Rigo.C08
open Rigo.CommitLog Rigo.CommitLog.Store

/-- tie to the source: the model's write order is the order extracted from /repo on this run -/
theorem commitOrder_matches : (writes true).map Store.name = Rigo.Generated.commitOrder := by decide

/-- the only conditional write is the reward-hash record (every 10th version); the validator-set record
    sits in an error-handling `if … else if` chain and is written unless JSON marshalling fails -/
theorem commitOrder_conditional :
    Rigo.Generated.commitOrderConditional = [Store.name rewardHash, Store.name lastValidators] := by decide

/-- no durable write happens outside Commit (extracted call-graph fact), so a crash anywhere in
    BeginBlock / DeliverTx / EndBlock / CheckTx / Query leaves the disk of block H-1: `k = 0` -/
theorem no_durable_write_outside_commit : Rigo.Generated.durableWritesOutsideCommit = 0 := by decide

/-- the property at full strength: every crash point is recoverable -/
def crash_safe_full_statement : Prop :=
  ∀ (rh : Bool) (k : Nat), k ≤ (writes rh).length → crashOutcome rh k = .okReplay ∨ crashOutcome rh k = .okAhead

/-- what holds: a crash before the first write (in particular anywhere outside Commit) is recovered
    by replaying the block; a crash after the block-context record is written reports the new block -/
theorem blockCtx_written (rh : Bool) (k : Nat) (h : (writes rh).length - 1 ≤ k) :
    blockCtx ∈ (writes rh).take k := by
  rw [List.mem_take_iff_getElem]
  cases rh
  · have hk : 12 ≤ k := by simpa [writes] using h
    exact ⟨11, by simp [writes]; omega, by simp [writes]⟩
  · have hk : 13 ≤ k := by simpa [writes] using h
    exact ⟨12, by simp [writes]; omega, by simp [writes]⟩

theorem crash_safe_partial (rh : Bool) (k : Nat) :
    (k = 0 → crashOutcome rh k = .okReplay) ∧
    ((writes rh).length - 1 ≤ k → crashOutcome rh k = .okAhead) := by
  constructor
  · intro h; subst h; cases rh <;> decide
  · intro h
    have := blockCtx_written rh k h
    unfold crashOutcome recover infoAtH crashAfter
    simp [this]

def isPanic : Outcome → Bool
  | .panic _ => true
  | _ => false

theorem isPanic_exists {o : Outcome} (h : isPanic o = true) : ∃ why, o = .panic why := by
  cases o <;> simp_all [isPanic]

/-- every crash point strictly inside the commit (after the first ledger save, before the
    block-context record) leaves a disk from which the interrupted block cannot be replayed -/
theorem crash_unsafe_witness (rh : Bool) (k : Nat) (h1 : 1 ≤ k) (h2 : k + 2 ≤ (writes rh).length) :
    ∃ why, crashOutcome rh k = .panic why := by
  apply isPanic_exists
  cases rh
  · have hk : k < 12 := by have : k + 2 ≤ 13 := by simpa [writes] using h2
                           omega
    have key : ∀ k, k < 12 → 1 ≤ k → isPanic (crashOutcome false k) = true := by decide
    exact key k hk h1
  · have hk : k < 13 := by have : k + 2 ≤ 14 := by simpa [writes] using h2
                           omega
    have key : ∀ k, k < 13 → 1 ≤ k → isPanic (crashOutcome true k) = true := by decide
    exact key k hk h1

/-- hence the full statement is false -/
theorem crash_safe_full_false : ¬ crash_safe_full_statement := by
  intro h
  have := h false 1 (by decide)
  revert this; decide

def outcomeTag : Outcome → String
  | .okReplay => "ok-replay"
  | .okAhead => "ok-ahead"
  | .panic _ => "panic"

/-- the driver's label-based reading agrees with the store-based model on the real label sequences -/
theorem labels_agree (k : Nat) (hk : k < 14) :
    outcomeOfLabels ["ledger", "ledger", "ledger", "ledger", "ledger", "ledger", "ledger", "meta:lv",
      "evm:state", "evm:trie", "evm:root", "meta:bc", "meta:bh"] k = outcomeTag (crashOutcome false k) := by
  have key : ∀ k, k < 14 → outcomeOfLabels ["ledger", "ledger", "ledger", "ledger", "ledger", "ledger", "ledger", "meta:lv",
      "evm:state", "evm:trie", "evm:root", "meta:bc", "meta:bh"] k = outcomeTag (crashOutcome false k) := by decide
  exact key k hk

theorem labels_agree_rh (k : Nat) (hk : k < 15) :
    outcomeOfLabels ["ledger", "ledger", "ledger", "ledger", "ledger", "ledger", "ledger", "meta:rh", "meta:lv",
      "evm:state", "evm:trie", "evm:root", "meta:bc", "meta:bh"] k = outcomeTag (crashOutcome true k) := by
  have key : ∀ k, k < 15 → outcomeOfLabels ["ledger", "ledger", "ledger", "ledger", "ledger", "ledger", "ledger", "meta:rh", "meta:lv",
      "evm:state", "evm:trie", "evm:root", "meta:bc", "meta:bh"] k = outcomeTag (crashOutcome true k) := by decide
  exact key k hk

/-! non-vacuity: concrete crash points -/
example : crashOutcome false 0 = .okReplay := by decide
example : crashOutcome true 4 = .panic "Commit: ledger versions disagree / block executed on a newer ledger" := by decide
example : crashOutcome false 11 = .panic "EVMCtrler.BeginBlock: wrong block height" := by decide
example : crashOutcome false 12 = .okAhead := by decide

end Rigo.C08
