/-
  C01 — Replica determinism.

  "Any two nodes that start from the same genesis and are fed the same sequence of blocks return
   identical per-transaction results, identical validator-set updates at every block end, and an
   identical application hash at every commit.  Nothing node-local influences these outputs."

  The model's `step` is a function (`model_deterministic`).  The content of the property for the Go
  implementation is that every place where it iterates in a node-local order (Go map ranges are
  randomised) or sorts computes a value that does not depend on that order.  One theorem per class
  of the reviewed inventory /verif/expect/nondeterminism.json; the model fragments (iteration order
  as an explicit permutation parameter, `sort.Sort` as "any inversion-free permutation") are in
  Rigo/Determinism.lean, helper lemmas in RigoProofs/C01{Sort,Maps,Misc}.lean.

  REMAINING RUNTIME ASSUMPTION (not a theorem, see `majorOption_votes_determined`):
  "Go's sort.Sort is a deterministic function of its input slice" — needed only for
  `updateMajorOption`, whose comparator has ties.
-/
import RigoProofs.C01Misc
open Std

namespace Rigo.C01
open Rigo.Determinism Rigo.Ledger

/-! ## The model is a function of the history -/

/-- "identical per-transaction results, validator updates, … at every commit": two runs of the model
    on the same operations from the same state give the same outputs and the same final state. -/
theorem model_deterministic (s : St) (ops : List Op) (r₁ r₂ : St × List Out)
    (h₁ : run s ops = r₁) (h₂ : run s ops = r₂) : r₁ = r₂ := h₁.symm.trans h₂

/-- "… and an identical application hash at every commit": the outputs of every call and the
    committed contents of all ledgers (what the app hash is computed from) are determined by the
    genesis and the operation sequence alone — no other input exists in `run`. Definitional; kept as
    the statement the inventory tie and the theorems below support for the implementation. -/
theorem hashInputs_function_of_history (g₁ g₂ : Genesis) (ops₁ ops₂ : List Op) (hg : g₁ = g₂) (ho : ops₁ = ops₂) :
    (run (initChain g₁) ops₁).2 = (run (initChain g₂) ops₂).2 ∧
    hashInputs (run (initChain g₁) ops₁).1 = hashInputs (run (initChain g₂) ops₂).1 := by
  subst hg; subst ho; exact ⟨rfl, rfl⟩

/-! ## `sort.Sort` with a strict total comparator -/

/-- Inventory class `sort_unique`: under a comparator that is a strict total order on the elements,
    any two admissible results of `sort.Sort` (inversion-free permutations of the input) are equal —
    the output is determined by the multiset of inputs, whatever algorithm and whatever input order. -/
theorem sort_unique {α : Type} {lt : α → α → Bool} {l a b : List α} (h : StrictTotalOn lt l)
    (ha : Sorted lt a) (hb : Sorted lt b) (pa : a.Perm l) (pb : b.Perm l) : a = b :=
  sorted_perm_unique h.total ha hb pa pb

/-- … and such a result exists (the hypotheses of `sort_unique` are satisfiable for every input). -/
theorem sort_exists {α : Type} [BEq α] [LawfulBEq α] {lt : α → α → Bool} {l : List α} (h : StrictTotalOn lt l) :
    ∃ out, IsSortOf lt l out := ⟨_, isSortOf_mergeSort h⟩

/-- Inventory class `powerOrder_strictTotal`: `PowerOrderDelegatees.Less` (total power desc, number
    of stakes desc, address desc) is a strict total order on delegatees with pairwise distinct
    addresses (they are stored one per address). -/
theorem powerOrder_strictTotal {ds : List Delegatee} (nd : DistinctAddr ds) : StrictTotalOn powerLess ds :=
  powerLess_strictTotal nd

/-- the limiter's `orderedPowerObj.Less` (power desc, address desc) on distinct addresses -/
theorem limiterOrder_strictTotal {os : List (Hex × Int)} (nd : DistinctObjAddr os) :
    StrictTotalOn Limiter.objLess os := objLess_strictTotal nd

/-- `AddressOrderDelegatees.Less` (address ascending) on distinct addresses -/
theorem addressOrder_strictTotal {ds : List Delegatee} (nd : DistinctAddr ds) : StrictTotalOn addrLess ds :=
  addrLess_strictTotal nd

/-- `LedgerKeyList.Less` (bytes descending) on any list of 32-byte keys -/
theorem ledgerKeyOrder_strictTotal (ks : List Key) : StrictTotalOn keyDescLess ks := keyDesc_strictTotal ks

/-- whatever `sort.Sort(PowerOrderDelegatees(ds))` returns, it is the model's `sortByPower ds` -/
theorem goSort_eq_sortByPower {ds out : List Delegatee} (nd : DistinctAddr ds) (h : IsSortOf powerLess ds out) :
    out = sortByPower ds :=
  sort_unique (powerOrder_strictTotal nd) h.2 (sortByPower_isSort nd).2 h.1 (sortByPower_isSort nd).1

/-- whatever `sort.Sort(AddressOrderDelegatees(ds))` returns, it is the model's `sortByAddr ds` -/
theorem goSort_eq_sortByAddr {ds out : List Delegatee} (nd : DistinctAddr ds) (h : IsSortOf addrLess ds out) :
    out = sortByAddr ds :=
  sort_unique (addressOrder_strictTotal nd) h.2 (sortByAddr_isSort ds).2 h.1 (sortByAddr_isSort ds).1

/-- whatever `sort.Sort(orderedPowerObj(os))` returns, it is the model's re-sort in `Limiter.check` -/
theorem goSort_eq_sortObjs {os out : List (Hex × Int)} (nd : DistinctObjAddr os) (h : IsSortOf Limiter.objLess os out) :
    out = sortObjs os :=
  sort_unique (limiterOrder_strictTotal nd) h.2 (sortObjs_isSort nd).2 h.1 (sortObjs_isSort nd).1

/-- corollary: the sorted delegatee array depends on the set of delegatees only -/
theorem sortByPower_perm_invariant {l₁ l₂ : List Delegatee} (p : l₁.Perm l₂) (nd : DistinctAddr l₁) :
    sortByPower l₁ = sortByPower l₂ := sortByPower_perm_eq p nd

theorem sortByAddr_perm_invariant {l₁ l₂ : List Delegatee} (p : l₁.Perm l₂) (nd : DistinctAddr l₁) :
    sortByAddr l₁ = sortByAddr l₂ := sortByAddr_perm_eq p nd

theorem sortObjs_perm_invariant {l₁ l₂ : List (Hex × Int)} (p : l₁.Perm l₂) (nd : DistinctObjAddr l₁) :
    sortObjs l₁ = sortObjs l₂ := sortObjs_perm_eq p nd

/-- Inventory class `validatorUpdates_canonical` ("identical validator-set updates at every block
    end"): `updateValidators` sorts both arrays by address before the merge-diff, so the update list
    depends only on the SETS of last and new validators, not on the order they were held in. -/
theorem validatorUpdates_canonical {old₁ old₂ new₁ new₂ : List Delegatee}
    (po : old₁.Perm old₂) (pn : new₁.Perm new₂) (ndo : DistinctAddr old₁) (ndn : DistinctAddr new₁) :
    validatorUpdates (sortByAddr old₁) (sortByAddr new₁) = validatorUpdates (sortByAddr old₂) (sortByAddr new₂) := by
  rw [sortByAddr_perm_invariant po ndo, sortByAddr_perm_invariant pn ndn]

/-- the same on the application model's `updateValidators` (Rigo/Block.lean): the order in which
    `lastValidators` is held in memory (it was left power-sorted by the previous block, and is empty
    after a restart) does not influence the validator updates or the next state. -/
theorem updateValidators_lastVals_order_irrelevant (s : St) {vals : List Delegatee}
    (p : vals.Perm s.lastVals) (nd : DistinctAddr vals) :
    updateValidators { s with lastVals := vals } = updateValidators s := by
  unfold updateValidators
  simp only [sortByAddr_perm_invariant p nd]

/-! ## `FinalityLedger.Commit` -/

/-- Inventory class `commitWrites_perm` ("identical application hash at every commit"): for two
    visiting orders `l₁ ~ l₂` of the entries of `updatedItems` (map keys are distinct) the ordered
    sequence of `tree.Set` calls is THE SAME LIST — hence the whole ordered call sequence issued to
    IAVL (removes, then sets) and the resulting tree content are the same. -/
theorem commitWrites_perm {l₁ l₂ : List (Key × Val)} (p : l₁.Perm l₂) (nd : NodupKeys l₁)
    (tree : Map) (removed : List Key) :
    sortedWrites l₁ = sortedWrites l₂ ∧
    commitOps removed l₁ = commitOps removed l₂ ∧
    commitWrites tree removed l₁ = commitWrites tree removed l₂ := by
  have h := sortedWrites_perm_eq p nd
  refine ⟨h, ?_, ?_⟩
  · unfold commitOps; rw [h]
  · unfold commitWrites commitOps; rw [h]

/-- the write sequence is complete and canonical: every entry of the map is written exactly once,
    in strictly descending key order -/
theorem commitWrites_canonical {l : List (Key × Val)} (nd : NodupKeys l) :
    (sortedWrites l).Perm l ∧ Sorted keyDescLess ((sortedWrites l).map (·.1)) := by
  refine ⟨sortedWrites_perm_self nd, ?_⟩
  rw [map_fst_sortedWrites nd]; exact sortedKeys_sorted l

/-- tie to the C18 ledger model: for every visiting order of `fin.updated`, the fragment produces
    the tree `Impl.commit` (Rigo/Ledger/Impl.lean) produces -/
theorem commitWrites_eq_impl_commit (l : Impl) {order : List (Key × Val)} (p : order.Perm l.fin.updated.toList) :
    commitWrites l.tree l.fin.removed order = l.commit.tree := by
  have nd : NodupKeys l.fin.updated.toList := by
    unfold NodupKeys
    rw [List.Nodup, List.pairwise_map]
    exact (ExtTreeMap.distinct_keys_toList (t := l.fin.updated)).imp
      fun h e => h (LawfulEqCmp.compare_eq_iff_eq.mpr e)
  have ndo : NodupKeys order :=
    show (order.map (·.1)).Nodup from (p.map (·.1)).nodup_iff.mpr (show (l.fin.updated.toList.map (·.1)).Nodup from nd)
  rw [commitWrites_eq]
  exact foldl_insert_toList_eq_union _ _ ((sortedWrites_perm_self ndo).trans p)

/-! ## `memItems.refresh` -/

/-- Inventory class `refresh_perm`: copying the updated items into the got cache writes distinct
    map keys; the resulting cache is the same for every visiting order. -/
theorem refresh_perm {l₁ l₂ : List (Key × Val)} (p : l₁.Perm l₂) (nd : NodupKeys l₁) (got : Map) :
    refreshFold got l₁ = refreshFold got l₂ := foldl_insert_perm p nd got

/-- tie to the C18 ledger model: it is the cache `MemItems.refresh` produces -/
theorem refresh_eq_impl_refresh (m : MemItems) {order : List (Key × Val)} (p : order.Perm m.updated.toList) :
    refreshFold m.got order = m.refresh.got := foldl_insert_toList_eq_union _ _ p

/-! ## `StateDBWrapper.Finish` -/

/-- Inventory class `finish_syncOut_perm` ("identical application hash"): writing the EVM's
    balance/nonce of every accessed address into the native account ledger (find-or-create) gives
    the same account map for every visiting order of `accessedObjAddrs`; the addresses are distinct
    map keys and map to distinct ledger keys. -/
theorem finish_syncOut_perm (evm : EvmView) (accts : KMap Account) {o₁ o₂ : List Hex} (p : o₁.Perm o₂)
    (nd : (o₁.map ledgerKey).Nodup) : finishSync evm accts o₁ = finishSync evm accts o₂ := by
  rw [finishSync_eq, finishSync_eq]
  refine foldl_syncStep_perm (p.map _) ?_ accts
  rw [List.map_map]; exact nd

/-- the same for the loop as the application model executes it (`execEvm`): the model's result does
    not depend on the order in which the observed oracle lists the synced addresses (that order is
    the order Go's range took on the observed node). `AcctsKeyed`: accounts are stored under the
    ledger key of their own address. -/
theorem modelSyncOut_perm (s : St) (hk : AcctsKeyed s.accts.fin) {l₁ l₂ : List (Hex × Nat × Nat)}
    (p : l₁.Perm l₂) (nd : (l₁.map fun x => ledgerKey x.1).Nodup) :
    modelSyncOut s l₁ = modelSyncOut s l₂ := by
  rw [modelSyncOut_eq s hk, modelSyncOut_eq s hk, foldl_syncStep_perm p nd]

/-- distinct 20-byte addresses (40 hex digits) have distinct ledger keys -/
theorem ledgerKey_distinct_of_addresses {o : List Hex} (hl : ∀ a ∈ o, a.length = 40) (nd : o.Nodup) :
    (o.map ledgerKey).Nodup := by
  rw [List.Nodup, List.pairwise_map]
  refine List.Pairwise.imp_of_mem ?_ nd
  intro a b ha hb hne e
  exact hne (ledgerKey_inj_of_length (n := 40) (by omega) (hl a ha) (hl b hb) e)

/-! ## `StateDBWrapper.revertAccessedObjAddr` -/

/-- Inventory class `revertAccessed_perm`: the set of reverted addresses (tag > snapshot) and the
    accessed map after deleting them do not depend on the visiting order. -/
theorem revertAccessed_perm (m : Accessed) {l₁ l₂ : List (Hex × Int)} (p : l₁.Perm l₂) (snapshot : Int) :
    (revertAddrs l₁ snapshot).Perm (revertAddrs l₂ snapshot) ∧
    (∀ a, a ∈ revertAddrs l₁ snapshot ↔ a ∈ revertAddrs l₂ snapshot) ∧
    revertAccessed m l₁ snapshot = revertAccessed m l₂ snapshot :=
  ⟨revertAddrs_perm p snapshot, fun _ => (revertAddrs_perm p snapshot).mem_iff, revertAccessed_perm_eq m p snapshot⟩

/-- … and it is what the loop is meant to compute: exactly the entries tagged `≤ snapshot` remain -/
theorem revertAccessed_spec (m : Accessed) {order : List (Hex × Int)} (p : order.Perm m.toList) (snapshot : Int) (a : Hex) :
    (revertAccessed m order snapshot)[a]? = (m[a]?).filter (fun v => decide (v ≤ snapshot)) :=
  getElem?_revertAccessed m p snapshot a

/-! ## `GovCtrler.doPunish` -/

/-- Inventory class `punishTargets_perm`: whether a proposal becomes a punish target is the
    existential test "some voter has the byzantine address" — invariant under the visiting order of
    the `Voters` map; hence the list of target keys is the same for any two nodes' visiting orders. -/
theorem punishTargets_perm {ps qs : List (String × List Voter)} (h : VoterOrderEquiv ps qs) (target : Hex) :
    punishTargets ps target = punishTargets qs target := punishTargets_congr h target

theorem punishTarget_test_perm {vs₁ vs₂ : List Voter} (p : vs₁.Perm vs₂) (target : Hex) :
    voterLoop target vs₁ = voterLoop target vs₂ ∧ voterLoop target vs₁ = vs₁.any (·.addr == target) :=
  ⟨voterLoop_perm p target, voterLoop_eq_any target vs₁⟩

/-- the model's `govPunish` (Rigo/Block.lean) selects exactly these targets, and they come in
    committed-key order (ordered IAVL iteration, not a map range), each key at most once -/
theorem punishTargets_model (props : KMap Proposal) (addr : Hex) :
    ((props.toList.filter fun (_, p) => p.voters.any (·.addr == addr)).map (·.1))
      = punishTargets (props.toList.map fun kp => (kp.1, kp.2.voters)) addr ∧
    (punishTargets (props.toList.map fun kp => (kp.1, kp.2.voters)) addr).Pairwise (fun a b => compare a b = .lt) :=
  ⟨govPunish_targets_eq props addr, punishTargets_ordered props addr⟩

/-! ## `GovProposal.updateMajorOption` — comparator WITH TIES -/

/-- `powerOrderVoteOptions.Less` compares votes only; it is not total on distinct options, so
    order-independence is NOT claimed. What is determined for ANY admissible result of `sort.Sort`
    (stable or not, any input order): the votes of the first element — the maximum — hence the whole
    descending vote profile and the decision "frozen with a major option" (`top.votes ≥ majority`).

    NOT determined by the multiset: WHICH option is first among options tied at the maximum (see
    `majorOption_winner_not_determined_by_multiset`). It is determined by Go's sorting algorithm
    applied to the option slice, whose order is persisted (a JSON array in the proposal ledger, a
    function of the history). REMAINING RUNTIME ASSUMPTION of C01: "Go's sort.Sort is a
    deterministic function of its input slice" (true of pdqsort, which uses no randomness; replicas
    built with Go releases that implement `sort.Sort` differently could break ties differently for
    more than 12 options — below that both old and new implementations are insertion sorts). -/
theorem majorOption_votes_determined {os s₁ s₂ : List VoteOpt}
    (h₁ : IsSortOf optionLess os s₁) (h₂ : IsSortOf optionLess os s₂) :
    s₁.head?.map (·.votes) = s₂.head?.map (·.votes) ∧
    s₁.map (·.votes) = s₂.map (·.votes) ∧
    (∀ majority, freezeDecision s₁ majority = freezeDecision s₂ majority) ∧
    (∀ top rest, s₁ = top :: rest → ∀ o ∈ os, o.votes ≤ top.votes) := by
  have h := sorted_votes_eq h₁ h₂
  refine ⟨?_, h, fun m => freezeDecision_eq h₁ h₂ m, fun top rest hs => head_votes_max h₁ hs⟩
  have := congrArg List.head? h
  rwa [List.head?_map, List.head?_map] at this

/-- the model's `sortOptions` (a stable merge sort, Rigo/Block.lean) is one admissible result -/
theorem sortOptions_admissible (os : List VoteOpt) : IsSortOf optionLess os (sortOptions os) :=
  sortOptions_isSort os

/-- the part carried by the runtime assumption: the sort is a function of the (persisted) slice -/
theorem sortOptions_function_of_input (os₁ os₂ : List VoteOpt) (h : os₁ = os₂) :
    sortOptions os₁ = sortOptions os₂ := by rw [h]

/-- witness that the winner is not determined by the multiset of options: two options tied at the
    maximum, both orders are admissible results of `sort.Sort` -/
theorem majorOption_winner_not_determined_by_multiset :
    ∃ os s₁ s₂ : List VoteOpt, IsSortOf optionLess os s₁ ∧ IsSortOf optionLess os s₂ ∧ s₁.head? ≠ s₂.head? := by
  let a : VoteOpt := { raw := "aa", parsedV := none, parsedA := none, votes := 5 }
  let b : VoteOpt := { raw := "bb", parsedV := none, parsedA := none, votes := 5 }
  refine ⟨[a, b], [a, b], [b, a], ⟨List.Perm.refl _, by decide⟩, ⟨List.Perm.swap _ _ _, by decide⟩, by decide⟩

/-! ## Non-vacuity: the hypotheses hold on concrete, non-trivial inputs -/

section examples

private def dA : Delegatee := { addr := "aa", pub := "pa", total := 7, stakes := [] }
private def dB : Delegatee := { addr := "bb", pub := "pb", total := 7, stakes := [] }
private def dC : Delegatee := { addr := "cc", pub := "pc", total := 9, stakes := [] }

-- three delegatees, two of them tied in power and stake count: the address breaks the tie
example : DistinctAddr [dA, dB, dC] := by decide
example : [dA, dB, dC].Perm [dC, dA, dB] := by decide
example : IsSortOf powerLess [dA, dB, dC] [dC, dB, dA] := ⟨by decide, by decide⟩
example : sortByPower [dA, dB, dC] = [dC, dB, dA] :=
  (goSort_eq_sortByPower (by decide) ⟨by decide, by decide⟩).symm
example : sortByPower [dB, dC, dA] = [dC, dB, dA] :=
  (goSort_eq_sortByPower (by decide) ⟨by decide, by decide⟩).symm
example : sortByAddr [dC, dA, dB] = [dA, dB, dC] :=
  (goSort_eq_sortByAddr (by decide) ⟨by decide, by decide⟩).symm
-- without distinct addresses the power order is not total: two different entries, neither is less
example : powerLess dA { dA with pub := "other" } = false ∧ powerLess { dA with pub := "other" } dA = false := by decide

-- validator updates: old {A,B}, new {B',C} in two different orders
private def dB' : Delegatee := { dB with total := 8 }
example : DistinctAddr [dA, dB] ∧ DistinctAddr [dB', dC] ∧ [dA, dB].Perm [dB, dA] ∧ [dB', dC].Perm [dC, dB'] := by decide
example : validatorUpdates (sortByAddr [dA, dB]) (sortByAddr [dB', dC])
        = validatorUpdates (sortByAddr [dB, dA]) (sortByAddr [dC, dB']) :=
  validatorUpdates_canonical (by decide) (by decide) (by decide) (by decide)

-- limiter objects
example : DistinctObjAddr [("aa", 5), ("bb", 5), ("cc", 9)] := by decide
example : sortObjs [("aa", 5), ("bb", 5), ("cc", 9)] = [("cc", 9), ("bb", 5), ("aa", 5)] :=
  (goSort_eq_sortObjs (by decide) ⟨by decide, by decide⟩).symm

-- commit: three updated items visited in two orders; the write sequence is key-descending
example : NodupKeys [(1, 10), (3, 30), (2, 20)] ∧ [(1, 10), (3, 30), (2, 20)].Perm [(2, 20), (1, 10), (3, 30)] := by decide
example : sortedWrites [(1, 10), (3, 30), (2, 20)] = sortedWrites [(2, 20), (1, 10), (3, 30)] :=
  (commitWrites_perm (by decide) (by decide) {} []).1
-- without the sort the write sequences would differ (the map range alone is order-sensitive)
example : [(1, 10), (3, 30), (2, 20)] ≠ [(2, 20), (1, 10), (3, 30)] := by decide

-- Finish: two accessed 20-byte addresses
private def a1 : Hex := "1111111111111111111111111111111111111111"
private def a2 : Hex := "2222222222222222222222222222222222222222"
example : (∀ a ∈ [a1, a2], a.length = 40) ∧ [a1, a2].Nodup ∧ [a1, a2].Perm [a2, a1] := by decide
example (evm : EvmView) (accts : KMap Account) : finishSync evm accts [a1, a2] = finishSync evm accts [a2, a1] :=
  finish_syncOut_perm evm accts (by decide) (ledgerKey_distinct_of_addresses (by decide) (by decide))
example : AcctsKeyed ({} : St).accts.fin := acctsKeyed_empty

-- revert: tags 1, 2, 3 and snapshot 1
example : [("aa", (1 : Int)), ("bb", 2), ("cc", 3)].Perm [("cc", 3), ("aa", 1), ("bb", 2)] := by decide
example : revertAddrs [("aa", 1), ("bb", 2), ("cc", 3)] 1 = ["bb", "cc"] ∧
          revertAddrs [("cc", 3), ("aa", 1), ("bb", 2)] 1 = ["cc", "bb"] := by decide

-- punish: a proposal whose voters are visited in two orders
private def v1 : Voter := { addr := "aa", power := 3 }
private def v2 : Voter := { addr := "bb", power := 4 }
example : VoterOrderEquiv [("k1", [v1, v2]), ("k2", [v1])] [("k1", [v2, v1]), ("k2", [v1])] :=
  .cons (by decide) (.cons (by decide) .nil)
example : punishTargets [("k1", [v1, v2]), ("k2", [v1])] "bb" = ["k1"] := by decide

-- vote options with a tie at the top: votes and freeze decision agree, the winner need not
private def oA : VoteOpt := { raw := "aa", parsedV := none, parsedA := none, votes := 5 }
private def oB : VoteOpt := { raw := "bb", parsedV := none, parsedA := none, votes := 5 }
private def oC : VoteOpt := { raw := "cc", parsedV := none, parsedA := none, votes := 2 }
example : IsSortOf optionLess [oC, oA, oB] [oA, oB, oC] ∧ IsSortOf optionLess [oC, oA, oB] [oB, oA, oC] :=
  ⟨⟨by decide, by decide⟩, ⟨by decide, by decide⟩⟩
example : freezeDecision [oA, oB, oC] 4 = some true ∧ freezeDecision [oB, oA, oC] 4 = some true := by decide

end examples

end Rigo.C01
