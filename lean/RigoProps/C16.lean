/-
  C16 — Fees and gas.

  "A transaction is admitted only if its gas price equals the current governance gas price and its
   gas limit times price is at least the minimum fee (and, for contracts, covers intrinsic gas).
   A successful native transaction costs its sender exactly gas limit x price, a successful contract
   transaction exactly gas used x price with gas used never above its gas limit, and at the end of the
   block the proposer is credited with exactly the sum of the fees of that block's successful
   transactions."

  Property theorems only; helper lemmas live in RigoProofs/{TxBasic,TxCommon,TxSteps,C16Fees}.lean.

  Arithmetic is uint256 with wrap-around in the implementation (`wadd/wsub/wmul`).  The statements are
  given once with the wrapping operations (unconditional) and, where the sentence says "exactly",
  under the hypotheses that exclude a wrap: `FeeSane s` (governance gas price · 2^63 < 2^255; the gas
  limit is at most 2^63 − 1) and balances below 2^256 (true by type in Go; the model's balances are `Nat`s).
  The gas price used for the block's fee sum is the governance price active during the block (parameters
  only switch at Commit); an admitted transaction carries exactly that price.
-/
import RigoProofs.C16Fees
open Std

namespace Rigo.C16

/-- **admit_fee.**  Whatever passes `validateTrx` — on the CheckTx path (admission to the mempool) and
    on the DeliverTx path alike — carries exactly the current governance gas price, a gas limit of at
    most 2^63 − 1 whose product with the price (as computed by the implementation) is at least the
    minimum fee `minTrxGas × gasPrice`, and, for a contract transaction, a gas limit covering
    go-ethereum's intrinsic gas of its call data. -/
theorem admit_fee {s : St} {exec : Bool} {h : Int} {tx : TxIn} {sender recv : Account} {s1 : St}
    (hv : validateTrx s exec h tx sender recv = .ok s1) :
    tx.price = s.active.gasPrice ∧ s.active.minTrxFee ≤ wmul tx.price tx.gas ∧ tx.gas ≤ maxInt64 ∧
    (tx.type = TRX_CONTRACT → intrinsicGas (contractData tx) (isZeroAddr tx.to) ≤ tx.gas) :=
  validateTrx_admit hv

/-- **admit_fee** for an answered transaction: code 0 from CheckTx or DeliverTx implies the above;
    with a sane gas price the product is the true product. -/
theorem admit_fee_handled {s : St} {exec : Bool} {h : Int} {tx : TxIn} (hc : (handleTx s exec h tx).2.code = 0) :
    tx.price = s.active.gasPrice ∧ s.active.minTrxFee ≤ wmul tx.price tx.gas ∧
    (tx.type = TRX_CONTRACT → intrinsicGas (contractData tx) (isZeroAddr tx.to) ≤ tx.gas) ∧
    (FeeSane s → s.active.minTrxFee ≤ tx.price * tx.gas) := by
  obtain ⟨_, sender, s1, s2, g, _, hv, _, _⟩ := handleTx_ok_inv hc
  obtain ⟨h1, h2, h3, h4⟩ := validateTrx_admit hv
  have hact : (s.findOrNewAcct exec tx.to).1.active = s.active := by
    unfold St.findOrNewAcct; split
    · rfl
    · unfold St.setAcct; rfl
  rw [hact] at h1 h2
  refine ⟨h1, h2, h4, fun hF => ?_⟩
  unfold FeeSane at hF; rw [← h1] at hF
  rw [← (wmul_fee_lt hF h3).1]; exact h2

/-- **native_charge.**  A successful native transaction (everything not executed by the EVM) reports
    gas used = gas wanted = gas limit and changes its sender's balance by exactly
    `− amountEffect − gas limit × price (+ withdrawn reward)`, where `amountEffect` (`nativeDebit`) is the
    amount for a transfer to another account and for staking, 0 otherwise (transfer to self, unstaking,
    withdraw, proposal, voting, setdoc), and `nativeCredit` is the requested reward of a withdrawal.
    Written additively: new balance + amountEffect + fee = old balance + credit.
    Hypotheses exclude wrap-around only: `FeeSane`, old balance (+ credit) below 2^256. -/
theorem native_charge {g : Genesis} {s : St} (hr : Reachable g s) {b : BlockCtx} (hb : s.blk = some b) (tx : TxIn)
    (hF : FeeSane s) (hW : balOf s tx.from_ + nativeCredit tx < 2 ^ 256)
    (hc : (handleTx s true b.height tx).2.code = 0) (hn : ¬ viaEvm tx (recvOf s tx)) :
    balOf (deliverTx s tx).1 tx.from_ + nativeDebit tx + tx.gas * tx.price = balOf s tx.from_ + nativeCredit tx ∧
    (handleTx s true b.height tx).2.gasUsed = tx.gas ∧ (handleTx s true b.height tx).2.gasWanted = tx.gas := by
  have hA := (AcctInv_reachable hr).1
  obtain ⟨h1, h2, h3⟩ := handleTx_native_charge hA (by omega) hW hc hn
  obtain ⟨hp, _, hg, _⟩ := admit_fee_handled hc
  have hF' := hF
  unfold FeeSane at hF'; rw [← hp] at hF'
  have hgas : tx.gas ≤ maxInt64 := by
    obtain ⟨_, sender, s1, s2, g', _, hv, _, _⟩ := handleTx_ok_inv hc
    exact (validateTrx_admit hv).2.2.1
  rw [(wmul_fee_lt hF' hgas).1] at h1
  refine ⟨?_, h2, h3⟩
  rw [balOf_congr (s := (handleTx s true b.height tx).1) (by rw [deliverTx_accts tx hb])]
  rw [Nat.mul_comm tx.gas tx.price]; exact h1

/-- **contract_charge.**  A successful transaction executed by the EVM reports as gas used exactly what
    go-ethereum reported, gas wanted = gas limit, and — under the oracle hypothesis `EvmGasOK`
    (go-ethereum never uses more than the limit) — gas used ≤ gas limit.  What the sender pays inside
    the EVM is go-ethereum's `gasUsed × price` (trusted, validated by C17); what the block collects for
    it is `gasUsed × price`, see `fee_accumulates`. -/
theorem contract_charge {g : Genesis} {s : St} (hr : Reachable g s) (h : Int) (tx : TxIn)
    (hc : (handleTx s true h tx).2.code = 0) (hv : viaEvm tx (recvOf s tx)) :
    ∃ o, tx.evm = some o ∧ o.ok = true ∧ (handleTx s true h tx).2.gasUsed = o.gasUsed ∧
      (handleTx s true h tx).2.gasWanted = tx.gas ∧ (EvmGasOK tx → (handleTx s true h tx).2.gasUsed ≤ tx.gas) :=
  handleTx_contract_gas (AcctInv_reachable hr).1 hc hv

/-- **fee_accumulates.**  Inside a block a successful delivery adds exactly `gasUsed × governance price`
    (uint256 addition / multiplication) to the block's fee sum — and an admitted transaction's own price
    *is* the governance price — while a failed delivery adds nothing. -/
theorem fee_accumulates {g : Genesis} {s : St} (hr : Reachable g s) {b : BlockCtx} (hb : s.blk = some b) (tx : TxIn) :
    ((handleTx s true b.height tx).2.code = 0 →
      (deliverTx s tx).1.blk = some (addFee b (wmul (handleTx s true b.height tx).2.gasUsed s.active.gasPrice)) ∧
      tx.price = s.active.gasPrice) ∧
    ((handleTx s true b.height tx).2.code ≠ 0 → (deliverTx s tx).1.blk = some b) := by
  obtain ⟨h1, h2⟩ := deliverTx_fee tx (AcctInv_reachable hr).1 hb
  exact ⟨fun hc => ⟨h1 hc, (admit_fee_handled hc).1⟩, h2⟩

/-- the whole DeliverTx phase of a block: the fee sum ends as the start value plus the fees
    (`gasUsed × governance price`) of exactly the successful deliveries, modulo 2^256; proposer, height
    and the governance price do not move. -/
theorem block_fee_sum {g : Genesis} {s : St} (hr : Reachable g s) {b : BlockCtx} (hb : s.blk = some b)
    (hlt : b.feeSum < 2 ^ 256) (txs : List TxIn) :
    ∃ b', (exec s (txs.map Op.deliver)).blk = some b' ∧ b'.proposer = b.proposer ∧ b'.height = b.height ∧
      b'.feeSum = (b.feeSum + feesOf s txs) % 2 ^ 256 ∧ (exec s (txs.map Op.deliver)).active = s.active :=
  feeSum_block txs s b (AcctInv_reachable hr).1 hb hlt

/-- **proposer_credit.**  The fee hand-over of EndBlock: if the block has a proposer and its fee sum is
    positive (and below 2^255, else the implementation's `AddBalance` refuses it), the proposer's balance
    grows by exactly the fee sum (uint256 addition; the account is created if absent), no other balance
    changes and nothing is burnt; … -/
theorem proposer_credit {g : Genesis} {s : St} (hr : Reachable g s) (b : BlockCtx)
    (hp : b.proposer ≠ "") (h0 : 0 < b.feeSum) (h1 : b.feeSum < 2 ^ 255) :
    ∃ s', feeHandover s b = .ok s' ∧ balOf s' b.proposer = wadd (balOf s b.proposer) b.feeSum ∧
      (∀ a, ledgerKey a ≠ ledgerKey b.proposer → balOf s' a = balOf s a) ∧ s'.ghost = s.ghost :=
  feeHandover_credit (AcctInv_reachable hr).1 hp h0 h1

/-- … otherwise (no proposer, or an empty or out-of-range fee sum) nobody is credited: the state is
    unchanged except that the ghost counter `feeBurn` grows by the fee sum. -/
theorem proposer_credit_none (s : St) (b : BlockCtx) (h : ¬ (b.proposer ≠ "" ∧ 0 < b.feeSum ∧ b.feeSum < 2 ^ 255)) :
    feeHandover s b = .ok { s with ghost := { s.ghost with feeBurn := s.ghost.feeBurn + b.feeSum } } :=
  feeHandover_burn h

/-- the hand-over is the step of `endBlock` between the proposal handling (which leaves the account
    ledger as DeliverTx left it) and the stake refunds, with the block context `b` of the open block —
    whose `feeSum` is the one of `block_fee_sum`. -/
theorem endBlock_uses_handover {s s1 s2 : St} {b : BlockCtx} (hb : s.blk = some b)
    (h1 : freezeProposals s b.height = .ok s1) (h2 : applyProposals s1 b.height = .ok s2) :
    s2.accts = s.accts ∧
    ∀ s3, feeHandover s2 b = .ok s3 → ∀ s4, unfreeze s3 b.height = .ok s4 → (endBlock s).1.accts = s4.accts :=
  endBlock_handover hb h1 h2

/-! ### non-vacuity -/

def gW : Genesis :=
  { chainId := "t", params := { (default : Params) with gasPrice := 10, minTrxGas := 1 },
    holders := [("aa00000000000000000000000000000000000001", 1000000)], vals := [] }
def txW : TxIn :=
  { sigOk := true, from_ := "aa00000000000000000000000000000000000001", to := "bb00000000000000000000000000000000000002",
    amount := 5, gas := 2, price := 10, type := TRX_TRANSFER }
def sW : St := exec (initChain gW) [.begin_ { height := 1, proposer := "cc00000000000000000000000000000000000003" }]

example : FeeSane sW := by unfold FeeSane; decide
example : sW.blk = some { height := 1, proposer := "cc00000000000000000000000000000000000003" } := by decide
example : (handleTx sW true 1 txW).2.code = 0 ∧ ¬ viaEvm txW (recvOf sW txW) := by decide
/-- the sender pays 5 + 2·10, the block collects 20, EndBlock hands the 20 to the proposer -/
example : balOf sW txW.from_ = 1000000 ∧ balOf (deliverTx sW txW).1 txW.from_ = 999975 ∧
    (deliverTx sW txW).1.blk.map (·.feeSum) = some 20 ∧
    balOf (endBlock (deliverTx sW txW).1).1 "cc00000000000000000000000000000000000003" = 20 := by decide

end Rigo.C16
