/-
  C17 — Contract execution = reference EVM over the native ledger.  PROVED PART: the
  synchronisation protocol of `StateDBWrapper` (/repo/ctrlers/vm/evm/statedb.go) under the call
  pattern of `EVMCtrler.ExecuteTrx` (/repo/ctrlers/vm/evm/ctrler.go).  go-ethereum's interpreter is
  not modelled; it is validated against a reference run by the `app -prop C17 -evm` stream.

  Model: Rigo/EvmSync.lean (`St`/`step`: tags `s.snapshot + 1`, un-sync iff `tag > id`, saved
  worlds per revision; `Spec`: the un-reverted operations of the current transaction).
  Helper lemmas: RigoProofs/EvmSync.lean.  All theorems quantify over ALL `Disciplined` traces from
  a fresh wrapper over an arbitrary native ledger `nat` and an arbitrary persisted EVM world `evm`.
-/
import RigoProofs.EvmSync
open Std

namespace Rigo.EvmSync.C17

/-- (1) The tag rule.  At any point of a disciplined trace and for any revision `id` that
    `RevertToSnapshot` may still target: the wrapper's rule "un-sync iff tag `> id`" removes `a` from
    the accessed set  ⇔  `a`'s (un-reverted) sync-in lies in the scope that the revert discards,
    i.e. happened after `Snapshot()` returned `id`.  So the EVM-side copy of a native account never
    survives the revert of the scope that created it, and is never dropped while the writes of an
    enclosing scope to it survive. -/
theorem tag_rule_sound (nat evm : World) (tr : List Op) (h : Disciplined nat evm tr) (id : Nat)
    (hlive : (run (init nat evm) tr).revs.any (fun r => r.1 == id) = true) (a : Addr) :
    (∃ tg, (run (init nat evm) tr).accessed[a]? = some tg ∧ id < tg) ↔
      synced (scopeOf id ((Spec.init nat evm).run tr).live) a = true := by
  obtain ⟨p, _, hinv⟩ := disc_inv h
  have key : ∀ {s : St} {t : Spec}, Rel s t → s.revs.any (fun r => r.1 == id) = true →
      ((∃ tg, s.accessed[a]? = some tg ∧ id < tg) ↔ synced (scopeOf id t.live) a = true) := by
    intro s t r hl
    have hs : t.live.any (LOp.isSnap id) = true := by
      rw [← mem_revsOf_ids t.base, ← r.revs]; exact hl
    constructor
    · rintro ⟨tg, htg, hlt⟩
      have hmem : a ∈ s.accessed := ExtTreeMap.mem_iff_isSome_getElem?.mpr (by simp [htg])
      have hsy := r.sub a hmem
      rw [synced_split id, hs] at hsy
      simp only [Bool.true_and, Bool.or_eq_true] at hsy
      rcases hsy with h1 | h2
      · exact h1
      · obtain ⟨tg', h', hle⟩ := (r.tags.erase hs).tag a h2
        rw [htg] at h'; cases h'; omega
    · exact r.tags.scope hs a
  cases p with
  | idle => exact key hinv.1 hlive
  | tx n => exact key hinv.1 hlive
  | failed => exact key hinv.1 hlive
  | done =>
    obtain ⟨_, _, _, hl, ha⟩ := hinv
    rw [hl, ha]
    simp [scopeOf, synced]

/-- (1') Consequently, at every point of a disciplined trace an address is in the accessed set
    iff it has an un-reverted sync-in in the current transaction; in particular `revert id`
    (`Spec.step` erases the scope) leaves accessed exactly the addresses synced in before
    `Snapshot()` returned `id`. -/
theorem accessed_iff_unreverted (nat evm : World) (tr : List Op) (h : Disciplined nat evm tr)
    (a : Addr) :
    a ∈ (run (init nat evm) tr).accessed ↔ synced ((Spec.init nat evm).run tr).live a = true := by
  obtain ⟨p, _, hinv⟩ := disc_inv h
  cases p with
  | idle => exact hinv.1.mem_iff a
  | tx n => exact hinv.1.mem_iff a
  | failed => exact hinv.1.mem_iff a
  | done =>
    obtain ⟨_, _, _, hl, ha⟩ := hinv
    rw [hl, ha]; simp [synced]

/-- (2) Coherence.  At every point, for every accessed address: the un-reverted operations of the
    current transaction on `a` are its sync-in (carrying the native value, which has not changed
    since) preceded by the un-reverted EVM writes since (`ws`, newest first) and nothing else, and
    the EVM world holds the newest of these values. -/
theorem sync_coherent (nat evm : World) (tr : List Op) (h : Disciplined nat evm tr) (a : Addr)
    (ha : a ∈ (run (init nat evm) tr).accessed) :
    ∃ (ws : List Val) (v : Val),
      ((Spec.init nat evm).run tr).live.filter (LOp.touches a) = ws.map (LOp.wr a) ++ [LOp.acc a v] ∧
      v = valOf (run (init nat evm) tr).native a ∧
      valOf (run (init nat evm) tr).evm a = ws.head?.getD v := by
  obtain ⟨p, _, hinv⟩ := disc_inv h
  have key : ∀ {s : St} {t : Spec}, Rel s t → a ∈ s.accessed →
      ∃ (ws : List Val) (v : Val),
        t.live.filter (LOp.touches a) = ws.map (LOp.wr a) ++ [LOp.acc a v] ∧
        v = valOf s.native a ∧ valOf s.evm a = ws.head?.getD v := by
    intro s t r hm
    obtain ⟨ws, v, hsh⟩ := r.wf.shape a (r.sub a hm)
    refine ⟨ws, v, hsh, ?_, ?_⟩
    · rw [r.native]
      apply r.nat a v
      have : LOp.acc a v ∈ t.live.filter (LOp.touches a) := by rw [hsh]; simp
      exact (List.mem_filter.mp this).1
    · unfold valOf
      rw [r.evm, evmOf_get, topVal, hsh]
      cases ws with
      | nil => simp
      | cons w ws => simp
  cases p with
  | idle => exact key hinv.1 ha
  | tx n => exact key hinv.1 ha
  | failed => exact key hinv.1 ha
  | done =>
    obtain ⟨_, _, _, _, he⟩ := hinv
    rw [he] at ha; simp at ha

/-- (3) Successful end of a transaction (`Finish` without top-level revert): every accessed
    address gets the EVM world's balance and nonce — which is the last un-reverted EVM write to it,
    or its unchanged native value if there was none —, every other native account is unchanged, the
    accessed set is empty and the EVM world is untouched. -/
theorem finish_success (nat evm : World) (tr : List Op) (h : Disciplined nat evm (tr ++ [.finish])) :
    let s := run (init nat evm) tr
    let s' := run (init nat evm) (tr ++ [.finish])
    (∀ a, a ∈ s.accessed → s'.native[a]? = some (valOf s.evm a) ∧
        ∃ (ws : List Val), (∀ w, w ∈ ws → LOp.wr a w ∈ ((Spec.init nat evm).run tr).live) ∧
          valOf s'.native a = ws.head?.getD (valOf s.native a)) ∧
    (∀ a, a ∉ s.accessed → s'.native[a]? = s.native[a]?) ∧
    s'.accessed = ∅ ∧ s'.evm = s.evm := by
  intro s s'
  have hs' : s' = (step s .finish).1 := by
    simp only [s', s, run_append]; rfl
  refine ⟨?_, ?_, ?_, ?_⟩
  · intro a ha
    have hn : s'.native[a]? = some (valOf s.evm a) := by
      rw [hs']; simp only [step]; rw [syncOut_get]
      simp [ExtTreeMap.mem_keys.mpr ha]
    refine ⟨hn, ?_⟩
    obtain ⟨ws, v, hsh, hv, hev⟩ := sync_coherent nat evm tr h.prefix a ha
    refine ⟨ws, ?_, ?_⟩
    · intro w hw
      have : LOp.wr a w ∈ ((Spec.init nat evm).run tr).live.filter (LOp.touches a) := by
        rw [hsh]; simp [hw]
      exact (List.mem_filter.mp this).1
    · have e1 : valOf s'.native a = valOf s.evm a := by unfold valOf; rw [hn]; rfl
      rw [e1]; rw [hv] at hev; exact hev
  · intro a ha
    rw [hs']; simp only [step]; rw [syncOut_get]
    have : a ∉ s.accessed.keys := fun c => ha (ExtTreeMap.mem_keys.mp c)
    simp [this]
  · rw [hs']; rfl
  · rw [hs']; rfl

/-- (4) Failed contract transaction: `RevertToSnapshot(snap); Finish()` where `snap` is the
    transaction's first snapshot (the trace stands in phase `tx snap`) syncs nothing out — every
    address of this transaction has a tag `> snap` — : the native ledger is exactly what it was, the
    accessed set and the revisions are empty and the EVM world is the one the transaction started
    from. -/
theorem finish_failure (nat evm : World) (tr : List Op) (snap : Nat)
    (h : Disciplined nat evm (tr ++ [.revert snap, .finish]))
    (hp : phaseOf nat evm tr = some (.tx snap)) :
    let s := run (init nat evm) tr
    let s' := run (init nat evm) (tr ++ [.revert snap, .finish])
    s'.native = s.native ∧ s'.accessed = ∅ ∧ s'.revs = [] ∧
      s'.evm = ((Spec.init nat evm).run tr).base ∧
      phaseOf nat evm (tr ++ [.revert snap, .finish]) = some .idle := by
  intro s s'
  have hinv : Inv (.tx snap) s ((Spec.init nat evm).run tr) := inv_run tr (Inv_init nat evm) hp
  have hph := phaseOf_append (ys := [.revert snap, .finish]) hp
  have hd : Disciplined nat evm (tr ++ [.revert snap, .finish]) := h
  unfold Disciplined at hd
  rw [hph] at hd ⊢
  -- the revert is allowed only to a valid revision; being the first snapshot it leads to `failed`
  have hv : s.revs.any (fun r => r.1 == snap) = true := by
    cases e : s.revs.any (fun r => r.1 == snap) with
    | true => rfl
    | false => simp [discRun, discStep, s, e] at hd
  have h1 : discStep (.tx snap) s (.revert snap) = some .failed := by
    simp [discStep, hv]
  have hinv1 := inv_step (.revert snap) hinv h1
  have h2 : discStep .failed (step s (.revert snap)).1 .finish = some .idle := rfl
  have hinv2 := inv_step .finish hinv1 h2
  obtain ⟨r1, ha1, hr1⟩ := hinv1
  obtain ⟨r2, hl2, ha2⟩ := hinv2
  have hs' : s' = (step (step s (.revert snap)).1 .finish).1 := by
    simp only [s', s, run_append]; rfl
  refine ⟨?_, ?_, ?_, ?_, ?_⟩
  · have hk : (step s (.revert snap)).1.accessed.keys = [] := by rw [ha1]; simp
    rw [hs', step_finish_native, hk]
    exact step_revert_native s snap
  · rw [hs']; exact ha2
  · rw [hs', r2.revs, hl2]; rfl
  · rw [hs', r2.evm, hl2]
    simp [evmOf, Spec.step, Spec.evm]
    have : ((Spec.init nat evm).run tr).live.any (LOp.isSnap snap) = true := by
      rw [← mem_revsOf_ids ((Spec.init nat evm).run tr).base, ← hinv.1.revs]; exact hv
    -- the reference world after erasing the whole transaction is the base world
    have hnone : ∀ a, synced (eraseScope snap ((Spec.init nat evm).run tr).live) a = false := by
      intro a
      cases e : synced (eraseScope snap ((Spec.init nat evm).run tr).live) a with
      | false => rfl
      | true =>
        have hm := (r1.mem_iff a).mpr (by simpa [Spec.step] using e)
        rw [ha1] at hm; simp at hm
    apply ExtTreeMap.ext_getElem?
    intro a
    have hw : WF (eraseScope snap ((Spec.init nat evm).run tr).live) := hinv.1.wf.erase
    rw [evmOf_get, topVal, hw.untouched a (hnone a)]
    simp
  · show discRun (.tx snap) s [.revert snap, .finish] = some .idle
    simp only [discRun, h1, h2]

/-- (4') The same, stated over the whole transaction: a contract transaction that ends with the
    top-level revert leaves the native ledger AND the EVM world exactly as they were before its
    first `Snapshot()`, whatever happened in between (atomicity of failed contract calls). -/
theorem failed_tx_atomic (nat evm : World) (pre body : List Op)
    (hpre : phaseOf nat evm pre = some .idle) (hbody : ∀ o ∈ body, o ≠ Op.finish)
    (h : Disciplined nat evm
      (pre ++ .snapshot :: body ++ [.revert (run (init nat evm) pre).nextId, .finish])) :
    let s0 := run (init nat evm) pre
    let s' := run (init nat evm) (pre ++ .snapshot :: body ++ [.revert s0.nextId, .finish])
    s'.native = s0.native ∧ s'.evm = s0.evm ∧ s'.accessed = ∅ := by
  intro s0 s'
  have hinv0 : Inv .idle s0 ((Spec.init nat evm).run pre) := inv_run pre (Inv_init nat evm) hpre
  obtain ⟨r0, hl0, _⟩ := hinv0
  have hevm0 : s0.evm = ((Spec.init nat evm).run pre).base := by rw [r0.evm, hl0]; rfl
  -- phase after `pre ++ snapshot :: body`
  have hd1 : Disciplined nat evm (pre ++ .snapshot :: body) := by
    have : pre ++ .snapshot :: body ++ [.revert s0.nextId, .finish] =
        (pre ++ .snapshot :: body) ++ [.revert s0.nextId, .finish] := by simp
    exact Disciplined.prefix (this ▸ h)
  obtain ⟨p1, hp1, _⟩ := disc_inv hd1
  have hp1' := hp1
  rw [phaseOf_append hpre] at hp1'
  simp only [discRun, discStep] at hp1'
  obtain ⟨hph, hn, htn, htb⟩ := tx_frame body (.tx s0.nextId) s0.nextId (step s0 .snapshot).1
    (((Spec.init nat evm).run pre).step .snapshot) p1 (Or.inl rfl) hbody hp1'
  -- the next operation is a revert, impossible in phase `failed`
  have hfull : Disciplined nat evm ((pre ++ .snapshot :: body) ++ [.revert s0.nextId, .finish]) := by
    simpa using h
  have hp1tx : p1 = .tx s0.nextId := by
    rcases hph with e | e
    · exact e
    · have := hfull
      unfold Disciplined at this
      rw [phaseOf_append hp1, e] at this
      simp [discRun, discStep] at this
  subst hp1tx
  obtain ⟨f1, f2, _, f4, _⟩ := finish_failure nat evm (pre ++ .snapshot :: body) s0.nextId hfull hp1
  have e1 : run (init nat evm) (pre ++ .snapshot :: body) = run (step s0 .snapshot).1 body := by
    rw [run_append]; rfl
  have e2 : (Spec.init nat evm).run (pre ++ .snapshot :: body) =
      (((Spec.init nat evm).run pre).step .snapshot).run body := by
    rw [Spec.run_append]; rfl
  have es' : s' = run (init nat evm) ((pre ++ .snapshot :: body) ++ [.revert s0.nextId, .finish]) := by
    simp [s']
  refine ⟨?_, ?_, ?_⟩
  · rw [es', f1, e1, hn]; rfl
  · rw [es', f4, e2, htb, hevm0]; rfl
  · rw [es', f2]

/-- (5) Native changes are visible to contract code: after any disciplined history, a change of the
    native account `a` between two transactions is what the next access of `a` syncs into the EVM
    world — whatever happens in between, as long as `a` is not accessed and its native account not
    changed again. -/
theorem native_changes_visible (nat evm : World) (tr mid : List Op) (a : Addr) (v : Val)
    (h : Disciplined nat evm (tr ++ .native a v :: mid ++ [.access a]))
    (hmid : ∀ o ∈ mid, o ≠ Op.access a ∧ ∀ w, o ≠ Op.native a w) :
    valOf (run (init nat evm) (tr ++ .native a v :: mid ++ [.access a])).evm a = v ∧
      a ∈ (run (init nat evm) (tr ++ .native a v :: mid ++ [.access a])).accessed := by
  have e : tr ++ .native a v :: mid ++ [.access a] = (tr ++ [.native a v]) ++ (mid ++ [.access a]) := by
    simp
  rw [e] at h ⊢
  obtain ⟨p, hp, hinv⟩ := disc_inv h.prefix
  -- `native` is only allowed between transactions, where nothing is accessed
  have hd0 : Disciplined nat evm tr := (Disciplined.prefix (xs := tr) (ys := [.native a v]) h.prefix)
  obtain ⟨p0, hp0, _⟩ := disc_inv hd0
  have hpi : p = .idle := by
    rw [phaseOf_append hp0] at hp
    cases p0 <;> simp [discRun, discStep] at hp
    exact hp.symm
  subst hpi
  obtain ⟨_, _, hacc⟩ := hinv
  let s1 := run (init nat evm) (tr ++ [.native a v])
  have hn1 : s1.native[a]? = some v := by
    simp only [s1, run_append]
    simp [run, step]
  have ha1 : a ∉ s1.accessed := by simp [s1, hacc]
  obtain ⟨ha2, hn2⟩ := untouched_run a mid s1 ha1 hmid
  rw [run_append, run_append]
  change valOf (step (run s1 mid) (.access a)).1.evm a = v ∧ a ∈ (step (run s1 mid) (.access a)).1.accessed
  simp only [step, ha2, ↓reduceIte]
  constructor
  · simp [valOf, hn2, hn1]
  · simp

/-! ### Non-vacuity: concrete traces (tests by `decide`, not theorems) -/

/-- a successful transaction with a nested call that touches a fresh address `x`, writes to it and
    reverts; afterwards `x` is touched again -/
def nested : List Op :=
  [.snapshot, .access "s", .access "c", .write "s" (90, 1), .write "c" (10, 0),
   .snapshot, .access "x", .write "c" (4, 0), .write "x" (6, 0), .revert 1,
   .access "x", .write "x" (8, 0), .finish, .finalise]

def world0 : World := (({} : World).insert "s" (100, 0)).insert "x" (7, 0)
/-- stale EVM-side copies, overwritten at sync-in -/
def stale0 : World := (({} : World).insert "s" (1, 1)).insert "x" (99, 9)

example : Disciplined world0 stale0 nested := by decide

example : outputs (init world0 stale0) nested =
    [.snap 0, .tag 1, .tag 1, .ok, .ok, .snap 1, .tag 2, .ok, .ok, .unsync ["x"],
     .tag 2, .ok, .syncout ["c", "s", "x"], .ok] := by decide

/-- the inner revert rolled back the inner writes only; `x` was synced in again from the native
    ledger (7, not the reverted 6 nor the stale 99) and then written -/
example :
    let s := run (init world0 stale0) nested
    valOf s.native "s" = (90, 1) ∧ valOf s.native "c" = (10, 0) ∧ valOf s.native "x" = (8, 0) ∧
      s.accessed.keys = [] := by decide

/-- hypotheses of (1) are satisfiable: just before the inner revert, revision 1 is live, `x` is the
    address it un-syncs, and `s`, `c` stay -/
example :
    let s := run (init world0 stale0) (nested.take 9)
    s.revs.any (fun r => r.1 == 1) = true ∧ unsyncList s.accessed 1 = ["x"] ∧
      synced (scopeOf 1 ((Spec.init world0 stale0).run (nested.take 9)).live) "x" = true ∧
      synced (scopeOf 1 ((Spec.init world0 stale0).run (nested.take 9)).live) "c" = false := by decide

/-- a failed transaction: everything is rolled back and nothing is synced out -/
def failing : List Op :=
  [.snapshot, .access "s", .access "c", .write "s" (50, 1), .snapshot, .access "x",
   .write "x" (57, 0), .revert 0, .finish]

example : Disciplined world0 stale0 failing ∧
    phaseOf world0 stale0 (failing.take 7) = some (.tx 0) := by decide

example : outputs (init world0 stale0) failing =
    [.snap 0, .tag 1, .tag 1, .ok, .snap 1, .tag 2, .ok, .unsync ["c", "s", "x"], .syncout []] := by
  decide

example :
    let s := run (init world0 stale0) failing
    s.native.toList = world0.toList ∧ s.evm.toList = stale0.toList := by decide

/-- a native transfer between two transactions is seen by the second one -/
example :
    let s := run (init world0 stale0)
      (nested ++ [.native "x" (1000, 0), .snapshot, .access "s", .access "x"])
    valOf s.evm "x" = (1000, 0) := by decide

/-- Why the discipline demands that a transaction starts with `Snapshot()`: the tag `s.snapshot + 1`
    of an access made BEFORE the first snapshot of a fresh wrapper is 1, and go-ethereum's first
    revision id is 0, so `revert 0` un-syncs an address whose sync-in it does not undo.  This is
    what the read-only query path (`callVM`: `Prepare(…, snap = 0, …)` without `Snapshot()`) does
    when the called contract reverts; it is harmless there only because that wrapper is discarded
    without `Finish()`. -/
example :
    ¬ Disciplined {} {} [.access "s", .snapshot, .revert 0] ∧
    outputs (init {} {}) [.access "s", .snapshot, .revert 0] = [.tag 1, .snap 0, .unsync ["s"]] := by
  decide

end Rigo.EvmSync.C17
