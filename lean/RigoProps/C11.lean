/-
  C11 — Stake bookkeeping.

  "At every committed height, each delegatee's total power equals the sum of the powers of the stakes
   bonded to it and its self power equals the sum of its owner's own stakes; each stake created by a
   successful staking transaction is, until refunded, recorded in exactly one place (bonded under its
   delegatee or unbonding) with owner and target unchanged and power changed only by slashing.  The
   total-power queries equal the corresponding sums."

  Property theorems only; helpers live in RigoProofs/C11*.lean (and C12*.lean for the unbonding side).
  All theorems are about the frozen model (`Rigo/App.lean`, `Rigo/Block.lean`): `exec (initChain g) ops`
  is the state after the operations `ops`.

  Hypotheses (all decidable):
  * `History ops`         — no second InitChain; the target address of every *delivered* transaction is a
                            hex string of even length (a rendering of bytes).  Needed because the model
                            keeps addresses as hex strings and `ledgerKey` pads: without it "A" and "A0"
                            would be two addresses with one ledger key.  (CheckTx inputs are unrestricted.)
  * `GenesisOK g`         — genesis validator addresses are 20 bytes (40 hex digits).
  * `phaseRun .idle ops = some p` — the ABCI call discipline (BeginBlock, DeliverTx*, EndBlock, Commit;
                            CheckTx anywhere; restart between blocks).  Only for the single-location
                            theorem (two EndBlocks without a Commit would refund twice).
  * `UniqueStakeKeys g ops` — the successful staking transactions of the history have pairwise distinct
                            32-byte hashes, none of them all-zero (SHA-256 / Tendermint assumption).

  * `GenesisPowersOK g`, `SlashRatioSane g ops` — (only `stake_present_or_forfeited`) genesis powers are ≥ 0 and
                            the slashing ratio in force is ≤ 100 at every point of the history; otherwise slashing
                            produces negative powers and a delegatee whose total hits 0 while stakes remain is
                            deleted together with them.

  Findings (proved below on concrete histories):
  * `genesis_stakes_collide` — all genesis stakes carry the all-zero hash and the unbonding ledger is
    keyed by hash: two genesis validators unbonding concurrently overwrite each other, one of the two
    refunds is lost.  This is why `stake_single_location` speaks about non-zero keys only.
  * `slash_forfeits_small_stake` — `doSlashAll` *removes* every stake whose slashed amount
    `power * ratio / 100` rounds down to 0 (power 1 at 50 %, any power < 100 at 1 %): the stake is
    recorded nowhere afterwards and is never refunded.  Hence "recorded in exactly one place until
    refunded" holds as *at most one place* (`stake_single_location`); *at least one place* fails exactly
    here: `stake_present_or_forfeited` proves that every created stake is bonded, unbonding, refunded, or
    was `Forfeited` (explicit ghost predicate over the history); `power_changes_only_by_slash` states
    precisely what can happen to a bonded stake in one step.
-/
import RigoProofs.C11Life3
import RigoProofs.C11Lineage
import RigoProofs.C11Cex
import RigoProofs.C11Present

namespace Rigo.C11
open Rigo Rigo.Delegatee

/-! ### the per-delegatee bookkeeping and the operations that maintain it -/

/-- `DelegOK d`: total = Σ powers of the bonded stakes, self = Σ powers of the owner's own stakes, every
    bonded stake points at this delegatee.  The pure delegatee operations maintain it; `delAllStakes`
    leaves `self` alone, so it maintains it exactly when `self = 0` — which is how `execUnstaking` calls
    it — and in any case leaves total 0 and no stakes (the caller then deletes the delegatee). -/
theorem delegOK_operations (d : Delegatee) (h : DelegOK d) :
    (∀ st : Stake, st.to = d.addr → DelegOK (d.addStake st)) ∧
    (∀ hash : Hex, DelegOK (d.delStake hash)) ∧
    (∀ ratio : Int, DelegOK (d.doSlash ratio).1) ∧
    (d.delAllStakes.1.total = 0 ∧ d.delAllStakes.1.stakes = [] ∧ d.delAllStakes.1.self = d.self ∧
      d.delAllStakes.2 = d.stakes ∧ (d.self = 0 → DelegOK d.delAllStakes.1)) :=
  ⟨fun _ hto => h.addStake hto, fun hash => h.delStake hash, fun ratio => DelegOK.doSlash ratio h.2.2,
   h.delAllStakes.1, h.delAllStakes.2.1, h.delAllStakes.2.2.1, rfl, h.delAllStakes.2.2.2.2⟩

/-- "each delegatee's total power equals the sum of the powers of the stakes bonded to it and its self
    power equals the sum of its owner's own stakes" — in the consensus view after every operation and in
    every committed version; each delegatee is stored under the ledger key of its own address. -/
theorem deleg_ok (g : Genesis) (hg : GenesisOK g) (ops : List Op) (h : History ops) :
    (∀ (k : String) (d : Delegatee), (exec (initChain g) ops).delegs.fin[k]? = some d →
      DelegOK d ∧ k = ledgerKey d.addr) ∧
    (∀ m ∈ (exec (initChain g) ops).delegs.hist, ∀ (k : String) (d : Delegatee), m[k]? = some d →
      DelegOK d ∧ k = ledgerKey d.addr) := by
  obtain ⟨h1, h2⟩ := history_delegsOK hg ops h
  exact ⟨fun k d hk => ⟨(h1 k d hk).1, (h1 k d hk).2.1⟩,
         fun m hm k d hk => ⟨(h2 m hm k d hk).1, (h2 m hm k d hk).2.1⟩⟩

/-- the version a query reads is a committed version (or the empty ledger before the first commit) -/
theorem at_delegMapOK {c : Core} (hc : DelegsOK c) {l : Led Delegatee} (hl : l.hist = c.dhist) {n : Int}
    {m : KMap Delegatee} (h : l.at? n = some m) : DelegMapOK m := by
  unfold Led.at? at h
  split at h
  · cases h
    unfold Led.committed
    rw [hl]
    cases hgl : c.dhist.getLast? with
    | none => exact DelegMapOK.empty
    | some m => exact hc.2 m (List.mem_of_getLast? hgl)
  · rw [hl] at h
    exact hc.2 m (List.mem_of_getElem? h)

/-- "The total-power queries equal the corresponding sums": whenever the queried height exists, the
    `stakes/total_power` query answers the sum, over the delegatees of that committed version, of the
    powers of all stakes bonded to them. -/
theorem total_power_query_eq_sum (g : Genesis) (hg : GenesisOK g) (ops : List Op) (h : History ops)
    (data : Hex) (ht : Int) (m : KMap Delegatee)
    (hm : (exec (initChain g) ops).delegs.at? (qHeight (exec (initChain g) ops) ht) = some m) :
    query (exec (initChain g) ops) "stakes/total_power" data ht =
      { value := toString ((m.toList.map fun (x : String × Delegatee) => sumPower x.2.stakes).sum) } := by
  have hok := at_delegMapOK (history_delegsOK hg ops h) rfl hm
  unfold query
  simp only [hm]
  congr 2
  apply congrArg
  apply List.map_congr_left
  intro x hx
  exact (hok x.1 x.2 (Std.ExtTreeMap.mem_toList_iff_getElem?_eq_some.mp hx)).1.1

/-- the `delegatee` query shows a record whose totals are these sums -/
theorem delegatee_query_ok (g : Genesis) (hg : GenesisOK g) (ops : List Op) (h : History ops)
    (addr : Hex) (ht : Int) (m : KMap Delegatee) (d : Delegatee)
    (hm : (exec (initChain g) ops).delegs.at? (qHeight (exec (initChain g) ops) ht) = some m)
    (hd : m[ledgerKey addr]? = some d) :
    query (exec (initChain g) ops) "delegatee" addr ht = { value := Render.showDelegatee d } ∧
    d.total = sumPower d.stakes ∧ d.self = sumPowerOf d.stakes d.addr := by
  have hok := at_delegMapOK (history_delegsOK hg ops h) rfl hm
  refine ⟨?_, (hok _ _ hd).1.1, (hok _ _ hd).1.2.1⟩
  unfold query
  simp only [hm, hd]

/-- "each stake ... is, until refunded, recorded in exactly one place (bonded under its delegatee or
    unbonding)" — the *at most one place* half, for every stake key other than the all-zero key of the
    genesis stakes, along well-phased histories with unique staking hashes:
    (1) a delegatee holds it at most once, (2) no two delegatees hold it, (3) a bonded stake is not in
    the unbonding ledger, (4) a refunded stake is neither bonded nor unbonding, and was refunded once,
    (5) only keys of successful staking transactions ever occur. -/
theorem stake_single_location (g : Genesis) (hg : GenesisOK g) (ops : List Op) (h : History ops) (p : Phase)
    (hp : phaseRun .idle ops = some p) (hu : UniqueStakeKeys g ops) :
    let s := exec (initChain g) ops
    (∀ (kd : String) (d : Delegatee), s.delegs.fin[kd]? = some d →
      ((d.stakes.map skey).filter (fun k => decide (k ≠ zeroKey))).Nodup) ∧
    (∀ (k1 k2 : String) (d1 d2 : Delegatee) (st1 st2 : Stake), s.delegs.fin[k1]? = some d1 → s.delegs.fin[k2]? = some d2 →
      st1 ∈ d1.stakes → st2 ∈ d2.stakes → skey st1 = skey st2 → skey st1 ≠ zeroKey → k1 = k2) ∧
    (∀ (kd : String) (d : Delegatee) (st : Stake), s.delegs.fin[kd]? = some d → st ∈ d.stakes → skey st ≠ zeroKey →
      s.frozen.fin[skey st]? = none) ∧
    (∀ k, k ≠ zeroKey → (∃ e ∈ s.ghost.refunds, ledgerKey e.1 = k) →
      (¬ ∃ (kd : String) (d : Delegatee) (st : Stake), s.delegs.fin[kd]? = some d ∧ st ∈ d.stakes ∧ skey st = k) ∧
      s.frozen.fin[k]? = none ∧ (s.ghost.refunds.filter (fun e => ledgerKey e.1 == k)).length = 1) ∧
    (∀ k, k ≠ zeroKey →
      ((∃ (kd : String) (d : Delegatee) (st : Stake), s.delegs.fin[kd]? = some d ∧ st ∈ d.stakes ∧ skey st = k) ∨
        s.frozen.fin[k]? ≠ none ∨ (∃ e ∈ s.ghost.refunds, ledgerKey e.1 = k)) → k ∈ usedKeys g ops) := by
  have hl := history_life hg ops h p hp hu
  refine ⟨hl.nodup, hl.across, hl.excl, ?_, hl.used⟩
  intro k hk hlog
  obtain ⟨g1, g2⟩ := hl.gone k hk hlog
  refine ⟨g1, g2, ?_⟩
  have h1 := hl.once k hk
  have h2 : logCount (exec (initChain g) ops).core k ≠ 0 := by
    obtain ⟨e, he, hek⟩ := hlog
    unfold logCount
    intro h0
    rw [List.length_eq_zero_iff, List.filter_eq_nil_iff] at h0
    exact h0 e he (by simpa using hek)
  unfold logCount at h1 h2
  show ((exec (initChain g) ops).core.refunds.filter _).length = 1
  omega

/-- "with owner and target unchanged and power changed only by slashing": every stake bonded after an
    operation either was bonded before it under the same delegatee with the same owner, target, hash and
    start height — its power unchanged, or decreased by a BeginBlock whose evidence names that
    delegatee — or is the stake just created by a successful, signed staking transaction, or (restart)
    is read back from the last committed version. -/
theorem power_changes_only_by_slash (g : Genesis) (hg : GenesisOK g) (ops : List Op) (op : Op)
    (h : History (ops ++ [op])) (k : String) (d' : Delegatee) (st' : Stake)
    (hk : (exec (initChain g) (ops ++ [op])).delegs.fin[k]? = some d') (hst : st' ∈ d'.stakes) :
    let s := exec (initChain g) ops
    (∃ d st, s.delegs.fin[k]? = some d ∧ st ∈ d.stakes ∧ SameId st st' ∧
      (st'.power = st.power ∨
        (st'.power < st.power ∧ ∃ hd a, op = .begin_ hd ∧ a ∈ hd.evidence ∧ k = ledgerKey a))) ∨
    (∃ tx ht power, op = .deliver tx ∧ tx.type = TRX_STAKING ∧ tx.sigOk = true ∧ s.blk.map (·.height) = some ht ∧
      amountToPower tx.amount = .ok power ∧ st' = newStake tx power ht ∧ k = ledgerKey tx.to) ∨
    (op = .restart ∧ s.delegs.committed[k]? = some d') := by
  obtain ⟨h1, h2, _⟩ := h.snoc
  rw [exec_snoc] at hk
  exact (step_core _ op h2).lineage (history_delegsOK hg ops h1) k d' st' hk hst

/-- "each stake created by a successful staking transaction is, until refunded, recorded in exactly one
    place" — the *at least one place* half, as a forward invariant over well-phased histories with unique
    staking hashes, non-negative genesis powers and a slashing ratio that never exceeds 100 %: every
    stake created so far (its key is in `usedKeys g ops`) is, in the state after `ops`,
    bonded under some delegatee, or unbonding, or refunded (logged), or was `Forfeited`: at some BeginBlock
    of the history the evidence named its delegatee and `slashStake slashRatio st = none`, i.e. the
    slashed amount `power * ratio / 100` rounded to 0 and `doSlashAll` removed the stake (finding
    `slash_forfeits_small_stake`; property C14 sanctions the slashing, not the total loss).
    Together with `stake_single_location` (the four cases exclude each other for bonded / unbonding /
    refunded): exactly one place, unless forfeited. -/
theorem stake_present_or_forfeited (g : Genesis) (hg : GenesisOK g) (hgp : GenesisPowersOK g) (ops : List Op)
    (h : History ops) (p : Phase) (hp : phaseRun .idle ops = some p) (hu : UniqueStakeKeys g ops)
    (hs : SlashRatioSane g ops) (k : String) (hk : k ∈ usedKeys g ops) :
    let s := exec (initChain g) ops
    (∃ (kd : String) (d : Delegatee) (st : Stake), s.delegs.fin[kd]? = some d ∧ st ∈ d.stakes ∧ skey st = k) ∨
    s.frozen.fin[k]? ≠ none ∨ (∃ e ∈ s.ghost.refunds, ledgerKey e.1 = k) ∨ Forfeited g ops k :=
  present_or_forfeited hg hgp ops h p hp hu hs k hk

/-- what `Forfeited` means, unfolded: the history contains a BeginBlock `h` whose atomic moves (slashing
    per evidence entry, missed-block marks, jailing) pass through a state `c1` in which the evidence names
    a delegatee `a` holding a stake `st` with this key whose slashed amount rounds to 0 -/
theorem forfeited_iff (g : Genesis) (ops : List Op) (k : String) :
    Forfeited g ops k ↔ ∃ pre h post, ops = pre ++ .begin_ h :: post ∧
      ∃ c1 a d st, Steps (BeginAtom h) { (exec (initChain g) pre).core with height := some h.height } c1 ∧
        a ∈ h.evidence ∧ c1.dfin[ledgerKey a]? = some d ∧ st ∈ d.stakes ∧ skey st = k ∧
        slashStake c1.active.slashRatio st = none ∧
        Steps (BeginAtom h) (slashedCore c1 a d) (exec (initChain g) (pre ++ [.begin_ h])).core := Iff.rfl

/-! ### findings, on concrete histories -/

/-- Finding (C02/C11/C12): two genesis validators unstake their genesis stake in blocks 1 and 2
    (unbonding period 2).  Both stakes have the all-zero hash, hence the same key in the unbonding
    ledger; the second release overwrites the first.  Four empty blocks later exactly one refund has
    been paid (to B, at height 4), the unbonding ledger is empty and A's 10 power are gone: A's balance
    is its genesis balance minus the fee. -/
theorem genesis_stakes_collide :
    History Cex.collide ∧ phaseRun .idle Cex.collide = some .idle ∧ GenesisOK Cex.G ∧
    (exec (initChain Cex.G) Cex.collide).ghost.refunds = [(zeroHash, Cex.B, 10, 4)] ∧
    (exec (initChain Cex.G) Cex.collide).frozen.fin.toList = [] ∧
    (exec (initChain Cex.G) Cex.collide).delegs.fin.toList = [] ∧
    ((exec (initChain Cex.G) Cex.collide).accts.fin[ledgerKey Cex.A]?).map (·.bal) = some 99 ∧
    ((exec (initChain Cex.G) Cex.collide).accts.fin[ledgerKey Cex.B]?).map (·.bal) = some (99 + 10 * Cex.rigo) := by
  decide +kernel

/-- the unrestricted single-location statement is false: in that history, after block 2, the unbonding
    ledger holds ONE entry for the two released genesis stakes -/
theorem genesis_stakes_collide_one_entry :
    (exec (initChain Cex.G) (Cex.collide.take 8)).frozen.fin.toList.length = 1 ∧
    (exec (initChain Cex.G) (Cex.collide.take 8)).delegs.fin.toList = [] := by
  decide +kernel

/-- Finding (C11/C14): a delegator bonds 1 RIGO (power 1) to validator A; A is slashed at 50 %.
    `1 * 50 / 100 = 0 < 1`, so the whole stake is removed: afterwards it is neither bonded nor
    unbonding, nothing is ever refunded, and the delegator's balance stays 1 RIGO (+ fee) short. -/
theorem slash_forfeits_small_stake :
    History Cex.forfeit ∧ phaseRun .idle Cex.forfeit = some .idle ∧ UniqueStakeKeys Cex.G Cex.forfeit ∧
    usedKeys Cex.G Cex.forfeit = [Cex.H1] ∧
    (exec (initChain Cex.G) (Cex.forfeit.take 4)).delegs.fin.toList.map (fun x => (x.2.total, x.2.stakes.map (·.power)))
      = [(11, [10, 1]), (10, [10])] ∧
    (exec (initChain Cex.G) Cex.forfeit).delegs.fin.toList.map (fun x => (x.2.total, x.2.stakes.map (·.power)))
      = [(5, [5]), (10, [10])] ∧
    (exec (initChain Cex.G) Cex.forfeit).frozen.fin.toList = [] ∧
    (exec (initChain Cex.G) Cex.forfeit).ghost.refunds = [] ∧
    ((exec (initChain Cex.G) Cex.forfeit).accts.fin[ledgerKey Cex.D]?).map (·.bal) = some (4 * Cex.rigo - 1) := by
  decide +kernel

/-! ### non-vacuity -/

/-- the hypotheses of the theorems hold on a history with a delegation, a foreign and an own unstaking
    attempt and a refund; the theorems apply to it -/
example : GenesisOK Cex.G ∧ History Cex.lifecycle ∧ phaseRun .idle Cex.lifecycle = some .idle ∧
    UniqueStakeKeys Cex.G Cex.lifecycle := by decide +kernel

example : GenesisPowersOK Cex.G ∧ SlashRatioSane Cex.G Cex.lifecycle ∧ SlashRatioSane Cex.G Cex.forfeit := by
  decide +kernel

/-- in the forfeiture history the created stake `H1` is indeed in none of the first three places, so
    `stake_present_or_forfeited` yields `Forfeited` for it -/
example : Forfeited Cex.G Cex.forfeit Cex.H1 := by
  have h := stake_present_or_forfeited Cex.G (by decide +kernel) (by decide +kernel) Cex.forfeit (by decide +kernel)
    .idle (by decide +kernel) (by decide +kernel) (by decide +kernel) Cex.H1 (by decide +kernel)
  have e : (exec (initChain Cex.G) Cex.forfeit).delegs.fin.toList.all
      (fun x => x.2.stakes.all (fun st => skey st != Cex.H1)) = true ∧
      (exec (initChain Cex.G) Cex.forfeit).frozen.fin[Cex.H1]? = none ∧
      (exec (initChain Cex.G) Cex.forfeit).ghost.refunds = [] := by decide +kernel
  rcases h with ⟨kd, d, st, h1, h2, h3⟩ | h | ⟨e1, h1, _⟩ | h
  · exfalso
    have hm := Std.ExtTreeMap.mem_toList_iff_getElem?_eq_some.mpr h1
    have := List.all_eq_true.mp e.1 (kd, d) hm
    have := List.all_eq_true.mp this st h2
    simp [h3] at this
  · exact absurd e.2.1 h
  · rw [e.2.2] at h1; cases h1
  · exact h

example := deleg_ok Cex.G (by decide +kernel) Cex.lifecycle (by decide +kernel)
example := stake_single_location Cex.G (by decide +kernel) Cex.lifecycle (by decide +kernel) .idle
  (by decide +kernel) (by decide +kernel)

/-- ... and the state it talks about is not trivial: after block 1 the delegatee A has total 12 = 10 + 2 -/
example : (exec (initChain Cex.G) (Cex.lifecycle.take 4)).delegs.fin.toList.map
    (fun x => (x.2.total, x.2.self, x.2.stakes.map (·.power))) = [(12, 10, [10, 2]), (10, 10, [10])] := by
  decide +kernel

example : query (exec (initChain Cex.G) (Cex.lifecycle.take 4)) "stakes/total_power" "" 0 = { value := "22" } := by
  decide +kernel

end Rigo.C11
