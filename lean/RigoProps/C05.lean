/-
  C05 — A failed transaction has no effect.

  "If delivering a transaction returns a non-zero code, then every balance, nonce, name/document,
   bonded or unbonding stake, reward, proposal, vote, contract code and contract storage is exactly
   what it was before that transaction, and no fee is charged. Later transactions in the same block
   observe the unchanged state."

  Property theorems only; helper lemmas live in RigoProofs/{TxBasic,TxCommon,TxSteps,C05Noop}.lean.

  `obs s` is the whole model state (all seven ledgers with their history and mempool view, active and
  pending parameters, validator lists, stake limiter, block context with the fee sum, ghost counters)
  in which the consensus account map is replaced by `acctView`: an *empty* account record (nonce 0,
  balance 0, no code, name, document) is identified with an absent one.  A failed transaction does
  create such records (`FindOrNewAccount` for the receiver, the EVM's sync-in for accessed addresses);
  no query can tell them from absent accounts.  Contract storage lives inside the EVM oracle: that a
  failed call leaves it untouched is go-ethereum's revert-to-snapshot (trusted, validated by C17); the
  model shows that nothing is synced out of the EVM on failure.
-/
import RigoProofs.C05Noop
open Std

namespace Rigo.C05

/-- **failed_tx_noop.**  In every reachable state, a DeliverTx that does not answer code 0 — whatever
    the reason: undecodable bytes, unknown sender, bad address/amount/gas/gas price/fee/signature,
    insufficient funds, wrong nonce, payload, authorisation, staking limits, voting window, EVM revert
    or out-of-gas, a panic caught in the handler, a call outside a block — leaves the observable state
    exactly as it was, including the block's fee sum (no fee is charged).
    Hypotheses: `FeeSane` (governance gas price · 2^63 < 2^255, so `gas × price` cannot wrap) and
    `SenderBalSane` (the sender's balance fits 256 bits — true by type in Go).  They are only needed
    for the stake limiter component, see `failed_tx_noop_modulo_limiter`. -/
theorem failed_tx_noop {g : Genesis} {s : St} (hr : Reachable g s) (tx : TxIn) (hF : FeeSane s)
    (hB : SenderBalSane s tx) (hf : ∀ o, (deliverTx s tx).2.tx = some o → o.code ≠ 0) :
    obs (deliverTx s tx).1 = obs s :=
  deliverTx_fail_obs (AcctInv_reachable hr).1 hF hB hf

/-- Without any hypothesis (any state, any parameters) everything except the stake limiter is
    unchanged by a failed delivery. -/
theorem failed_tx_noop_modulo_limiter (s : St) (tx : TxIn)
    (hf : ∀ o, (deliverTx s tx).2.tx = some o → o.code ≠ 0) :
    obsNoLimiter (deliverTx s tx).1 = obsNoLimiter s :=
  deliverTx_fail_obsNoLimiter hf

/-- `validate_ok_exec_ok` (staking): once validation has passed — and recorded the power change in the
    limiter — the execution cannot fail any more, so no failed transaction leaves a limiter record. -/
theorem validate_ok_exec_ok_staking {s s1 : St} {ht : Int} {tx : TxIn} {sender recv : Account}
    (hA : AddrOK s.accts.fin) (hF : FeeSane s) (hs : s.accts.fin[ledgerKey tx.from_]? = some sender)
    (hB : sender.bal < 2 ^ 256)
    (h0 : commonValidation0 s true tx = .ok ()) (h1 : commonValidation1 sender tx = .ok ())
    (hty : tx.type = TRX_STAKING) (hv : validateStaking s true tx = .ok s1) :
    ∃ res, runTrx s1 true ht tx recv = .ok res :=
  staking_run_ok hA hF hs hB h0 h1 hty hv

/-- `validate_ok_exec_ok` (unstaking) -/
theorem validate_ok_exec_ok_unstaking {s s1 : St} {ht : Int} {tx : TxIn} {sender recv : Account}
    (hF : FeeSane s) (hs : s.accts.fin[ledgerKey tx.from_]? = some sender)
    (h0 : commonValidation0 s true tx = .ok ()) (h1 : commonValidation1 sender tx = .ok ())
    (hty : tx.type = TRX_UNSTAKING) (hv : validateUnstaking s true tx = .ok s1) :
    ∃ res, runTrx s1 true ht tx recv = .ok res :=
  unstaking_run_ok hF hs h0 h1 hty hv

end Rigo.C05
