/-
  C05 — A failed transaction has no effect.

  "If delivering a transaction returns a non-zero code, then every balance, nonce, name/document,
   bonded or unbonding stake, reward, proposal, vote, contract code and contract storage is exactly
   what it was before that transaction, and no fee is charged. Later transactions in the same block
   observe the unchanged state."

  Property theorems only; helper lemmas live in RigoProofs/{TxBasic,TxCommon,TxSteps,C05Noop}.lean.

  `obs s` is the whole model state (all seven ledgers with their history and mempool view, active and
  pending parameters, validator lists, stake limiter, block context with the fee sum, ghost counters)
  in which the consensus account map is replaced by `acctView`: an *empty* account record (nonce 0,
  balance 0, no code, name, document) is identified with an absent one.  A failed transaction does
  create such records (`FindOrNewAccount` for the receiver, the EVM's sync-in for accessed addresses);
  no query can tell them from absent accounts.  Contract storage lives inside the EVM oracle: that a
  failed call leaves it untouched is go-ethereum's revert-to-snapshot (trusted, validated by C17); the
  model shows that nothing is synced out of the EVM on failure.
-/
import RigoProofs.C05Noop
import RigoProofs.C05CongrMain
import RigoProofs.C05Recv
open Std

namespace Rigo.C05

/-- **failed_tx_noop.**  In every reachable state, a DeliverTx that does not answer code 0 — whatever
    the reason: undecodable bytes, unknown sender, bad address/amount/gas/gas price/fee/signature,
    insufficient funds, wrong nonce, payload, authorisation, staking limits, voting window, EVM revert
    or out-of-gas, a panic caught in the handler, a call outside a block — leaves the observable state
    exactly as it was, including the block's fee sum (no fee is charged).
    Hypotheses: `FeeSane` (governance gas price · 2^63 < 2^255, so `gas × price` cannot wrap) and
    `SenderBalSane` (the sender's balance fits 256 bits — true by type in Go).  They are only needed
    for the stake limiter component, see `failed_tx_noop_modulo_limiter`. -/
theorem failed_tx_noop {g : Genesis} {s : St} (hr : Reachable g s) (tx : TxIn) (hF : FeeSane s)
    (hB : SenderBalSane s tx) (hf : ∀ o, (deliverTx s tx).2.tx = some o → o.code ≠ 0) :
    obs (deliverTx s tx).1 = obs s :=
  deliverTx_fail_obs (AcctInv_reachable hr).1 hF hB hf

/-- Without any hypothesis (any state, any parameters) everything except the stake limiter is
    unchanged by a failed delivery. -/
theorem failed_tx_noop_modulo_limiter (s : St) (tx : TxIn)
    (hf : ∀ o, (deliverTx s tx).2.tx = some o → o.code ≠ 0) :
    obsNoLimiter (deliverTx s tx).1 = obsNoLimiter s :=
  deliverTx_fail_obsNoLimiter hf

/-- `validate_ok_exec_ok` (staking): once validation has passed — and recorded the power change in the
    limiter — the execution cannot fail any more, so no failed transaction leaves a limiter record. -/
theorem validate_ok_exec_ok_staking {s s1 : St} {ht : Int} {tx : TxIn} {sender recv : Account}
    (hA : AddrOK s.accts.fin) (hF : FeeSane s) (hs : s.accts.fin[ledgerKey tx.from_]? = some sender)
    (hB : sender.bal < 2 ^ 256)
    (h0 : commonValidation0 s true tx = .ok ()) (h1 : commonValidation1 sender tx = .ok ())
    (hty : tx.type = TRX_STAKING) (hv : validateStaking s true tx = .ok s1) :
    ∃ res, runTrx s1 true ht tx recv = .ok res :=
  staking_run_ok hA hF hs hB h0 h1 hty hv

/-- `validate_ok_exec_ok` (unstaking) -/
theorem validate_ok_exec_ok_unstaking {s s1 : St} {ht : Int} {tx : TxIn} {sender recv : Account}
    (hF : FeeSane s) (hs : s.accts.fin[ledgerKey tx.from_]? = some sender)
    (h0 : commonValidation0 s true tx = .ok ()) (h1 : commonValidation1 sender tx = .ok ())
    (hty : tx.type = TRX_UNSTAKING) (hv : validateUnstaking s true tx = .ok s1) :
    ∃ res, runTrx s1 true ht tx recv = .ok res :=
  unstaking_run_ok hF hs h0 h1 hty hv


/-! ### "Later transactions in the same block observe the unchanged state" -/

/-- Since `obs` contains every component of the state except the distinction empty/absent account
    record, `failed_tx_noop` already says that a later operation reads the same balances, nonces,
    stakes, rewards, proposals, parameters, limiter and fee sum.  In particular: -/
theorem failed_tx_same_reads {g : Genesis} {s : St} (hr : Reachable g s) (tx : TxIn) (hF : FeeSane s)
    (hB : SenderBalSane s tx) (hf : ∀ o, (deliverTx s tx).2.tx = some o → o.code ≠ 0) :
    (∀ a, nonceOf (deliverTx s tx).1 a = nonceOf s a) ∧ (∀ a, balOf (deliverTx s tx).1 a = balOf s a) ∧
    (deliverTx s tx).1.blk = s.blk ∧ (deliverTx s tx).1.limiter = s.limiter ∧
    (deliverTx s tx).1.delegs = s.delegs ∧ (deliverTx s tx).1.frozen = s.frozen ∧
    (deliverTx s tx).1.rewards = s.rewards ∧ (deliverTx s tx).1.props = s.props ∧
    (deliverTx s tx).1.active = s.active := by
  have ho := failed_tx_noop hr tx hF hB hf
  have hn : ∀ a, nonceOf (deliverTx s tx).1 a = nonceOf s a := by
    rcases deliverTx_fail_inv hf with e | ⟨b, _, hc, e⟩
    · intro a; rw [e]
    · intro a; rw [e]; exact (deliver_failure hc).1 a
  have hb : ∀ a, balOf (deliverTx s tx).1 a = balOf s a := by
    rcases deliverTx_fail_inv hf with e | ⟨b, _, hc, e⟩
    · intro a; rw [e]
    · intro a; rw [e]
      obtain ⟨l, _, ee⟩ := handleTx_fail_shape hc
      exact EmptyExt_bal ee _
  refine ⟨hn, hb, ?_, ?_, ?_, ?_, ?_, ?_, ?_⟩
  · exact congrArg Obs.blk ho
  · exact congrArg Obs.limiter ho
  · exact congrArg Obs.delegs ho
  · exact congrArg Obs.frozen ho
  · exact congrArg Obs.rewards ho
  · exact congrArg Obs.props ho
  · exact congrArg Obs.active ho

/-- The only read in the model that distinguishes an empty account record from an absent one is the
    sender-existence check (`noacct`).  With a positive minimum fee this changes the error kind only:
    a later transaction *from* an address whose record was created (empty) by the failed transaction
    fails before and after. -/
theorem failed_tx_fresh_sender_still_fails {s s' : St} {h : Int} {later : TxIn} {x : Hex}
    (hs : s.accts.fin[ledgerKey later.from_]? = none)
    (he : s'.accts.fin[ledgerKey later.from_]? = some (emptyAcct x))
    (hF : FeeSane s') (hm : 0 < s'.active.minTrxFee) :
    (handleTx s true h later).2.code ≠ 0 ∧ (handleTx s' true h later).2.code ≠ 0 :=
  later_from_fresh_fails hs he hF hm

/-- The full congruence — every later delivery answers the same code and leaves obs-equal states — as a
    statement.  It needs the hypothesis `0 < minTrxFee` (counter-example below) and it is proved for
    transactions whose receiver / EVM addresses do not collide under the 32-byte ledger key
    (`failed_tx_invisible`, `failed_tx_invisible_wf`). -/
def failed_tx_invisible_statement : Prop :=
  ∀ (g : Genesis) (s : St), Reachable g s → ∀ tx : TxIn, FeeSane s → 0 < s.active.minTrxFee →
    (∀ a, s.accts.fin[ledgerKey tx.from_]? = some a → a.bal < 2 ^ 256) →
    (∀ o, (deliverTx s tx).2.tx = some o → o.code ≠ 0) →
    ∀ later : TxIn,
      ((deliverTx (deliverTx s tx).1 later).2.tx.map (·.code)) = ((deliverTx s later).2.tx.map (·.code)) ∧
      obs (deliverTx (deliverTx s tx).1 later).1 = obs (deliverTx s later).1

/-- **failed_tx_invisible** ("later transactions in the same block observe the unchanged state", as a
    statement about BEHAVIOUR): after a failed delivery from a reachable state, every later delivery
    answers the same code and ends in an observably equal state as if the failed transaction had never been
    delivered.  Hypotheses beyond the statement above: `KeyCompat` — no address whose (empty) record the
    failed transaction created shares its 32-byte ledger key with a DIFFERENT address the later transaction
    finds-or-creates (only possible for addresses of different lengths; since repair 26f8ae4 a receiver
    of a wrong length gets no record, see `failed_tx_invisible_recv20` below) — and `CreatedListed` —
    a successful deployment's created address is among the addresses the EVM result lists.  Proved by a
    relational pass (`C05C.Sim`: same state up to empty records under fresh keys) over every validation
    and execution function: `C05C.handleTx_congr`, `C05C.deliverTx_congr`. -/
theorem failed_tx_invisible :
    ∀ (g : Genesis) (s : St), Reachable g s → ∀ tx : TxIn, FeeSane s → 0 < s.active.minTrxFee →
    (∀ a, s.accts.fin[ledgerKey tx.from_]? = some a → a.bal < 2 ^ 256) →
    (∀ o, (deliverTx s tx).2.tx = some o → o.code ≠ 0) →
    ∀ later : TxIn, C05C.KeyCompat tx later → C05C.CreatedListed tx later →
      ((deliverTx (deliverTx s tx).1 later).2.tx.map (·.code)) = ((deliverTx s later).2.tx.map (·.code)) ∧
      obs (deliverTx (deliverTx s tx).1 later).1 = obs (deliverTx s later).1 :=
  C05C.failed_tx_invisible_partial

/-- **failed_tx_invisible_wf**: the same under plain well-formedness — all receiver / EVM addresses of both
    transactions are 20-byte addresses and the EVM result of a deployment lists the created address. -/
theorem failed_tx_invisible_wf :
    ∀ (g : Genesis) (s : St), Reachable g s → ∀ tx : TxIn, FeeSane s → 0 < s.active.minTrxFee →
    (∀ a, s.accts.fin[ledgerKey tx.from_]? = some a → a.bal < 2 ^ 256) →
    (∀ o, (deliverTx s tx).2.tx = some o → o.code ≠ 0) → C05C.Addrs20 tx →
    ∀ later : TxIn, C05C.Addrs20 later → C05C.EvmCreatedListed later →
      ((deliverTx (deliverTx s tx).1 later).2.tx.map (·.code)) = ((deliverTx s later).2.tx.map (·.code)) ∧
      obs (deliverTx (deliverTx s tx).1 later).1 = obs (deliverTx s later).1 :=
  C05C.failed_tx_invisible_wf

/-- **wrong_length_receiver_invisible** (repair 26f8ae4: a receiver `To` of a wrong length gets no account
    record before validation rejects it).  A delivery whose receiver is not 20 bytes long returns the
    state it was given; every later delivery therefore behaves exactly — same answer, same state — as if
    it had never been delivered.  No hypothesis at all (any state, any two transactions). -/
theorem wrong_length_receiver_invisible (s : St) (tx : TxIn) (hl : byteLen tx.to ≠ 20) (later : TxIn) :
    (deliverTx s tx).1 = s ∧ deliverTx (deliverTx s tx).1 later = deliverTx s later :=
  ⟨deliverTx_badlen hl, C05C.wrong_length_receiver_invisible s tx hl later⟩

/-- **failed_tx_invisible_recv20**: `failed_tx_invisible_wf` without any hypothesis on the LENGTH of the two
    receivers.  Receivers are hex strings of whole bytes (`EvenHex`), the addresses the EVM results list
    are 20-byte addresses (`EvmIn20` for the failed transaction: only addresses synced in can have got a
    record; `EvmAddrs20` for the later one), a deployment's created address is listed.  A failed
    transaction with a receiver of a wrong length creates no record, a later transaction with such a
    receiver fails in validation either way; `failed_tx_invisible_wf` is the special case of 20-byte
    receivers (`C05C.failed_tx_invisible_wf_of_recv20`). -/
theorem failed_tx_invisible_recv20 :
    ∀ (g : Genesis) (s : St), Reachable g s → ∀ tx : TxIn, FeeSane s → 0 < s.active.minTrxFee →
    (∀ a, s.accts.fin[ledgerKey tx.from_]? = some a → a.bal < 2 ^ 256) →
    (∀ o, (deliverTx s tx).2.tx = some o → o.code ≠ 0) → C05C.EvenHex tx.to → C05C.EvmIn20 tx →
    ∀ later : TxIn, C05C.EvenHex later.to → C05C.EvmAddrs20 later → C05C.EvmCreatedListed later →
      ((deliverTx (deliverTx s tx).1 later).2.tx.map (·.code)) = ((deliverTx s later).2.tx.map (·.code)) ∧
      obs (deliverTx (deliverTx s tx).1 later).1 = obs (deliverTx s later).1 :=
  C05C.failed_tx_invisible_recv20

/-! #### counter-example without a positive minimum fee

With governance gas price 0 (or `minTrxGas` 0) a failed transfer to a fresh address `X` is visible:
it leaves the empty record of `X`, and `X` — which could not send anything before ("noacct") — can now
send a zero-fee transaction that succeeds and bumps its nonce. -/

def gZ : Genesis :=
  { chainId := "t", params := { (default : Params) with gasPrice := 0, minTrxGas := 0 },
    holders := [("aa00000000000000000000000000000000000001", 100)], vals := [] }
def sZ : St := exec (initChain gZ) [.begin_ { height := 1 }]
/-- fails: wrong nonce -/
def txBad : TxIn :=
  { sigOk := true, from_ := "aa00000000000000000000000000000000000001", to := "dd00000000000000000000000000000000000004",
    amount := 5, nonce := 7, type := TRX_TRANSFER }
/-- sent by the fresh address -/
def txFromFresh : TxIn :=
  { sigOk := true, from_ := "dd00000000000000000000000000000000000004", to := "aa00000000000000000000000000000000000001",
    type := TRX_TRANSFER }

theorem failed_tx_visible_with_zero_fee :
    ((deliverTx sZ txBad).2.tx.map fun t => (t.code, t.kind)) = some (5, "nonce") ∧
    ((deliverTx sZ txFromFresh).2.tx.map fun t => (t.code, t.kind)) = some (5, "noacct") ∧
    ((deliverTx (deliverTx sZ txBad).1 txFromFresh).2.tx.map fun t => (t.code, t.kind)) = some (0, "ok") ∧
    nonceOf (deliverTx (deliverTx sZ txBad).1 txFromFresh).1 txFromFresh.from_ = 1 := by
  decide

/-! ### non-vacuity -/

def gW : Genesis :=
  { chainId := "t", params := { (default : Params) with gasPrice := 10, minTrxGas := 1 },
    holders := [("aa00000000000000000000000000000000000001", 1000)], vals := [] }
def sW : St := exec (initChain gW) [.begin_ { height := 1 }]
/-- a transfer of more than the sender owns -/
def txPoor : TxIn :=
  { sigOk := true, from_ := "aa00000000000000000000000000000000000001", to := "bb00000000000000000000000000000000000002",
    amount := 5000, gas := 2, price := 10, type := TRX_TRANSFER }

example : Reachable gW sW := ⟨[.begin_ { height := 1 }], by simp [Op.isInit], rfl⟩
example : FeeSane sW := by unfold FeeSane; decide
example : SenderBalSane sW txPoor := by
  intro a ha
  have : sW.accts.fin[ledgerKey txPoor.from_]? = some { addr := txPoor.from_, bal := 1000 } := by decide
  rw [this] at ha; simp at ha; subst ha; decide
example : ((deliverTx sW txPoor).2.tx.map fun t => (t.code, t.kind)) = some (5, "funds") := by decide
/-- the failed transfer did create the (empty) receiver record -/
example : (deliverTx sW txPoor).1.accts.fin[ledgerKey txPoor.to]? = some (emptyAcct txPoor.to) ∧
    sW.accts.fin[ledgerKey txPoor.to]? = none := by decide

/-- a later transfer to the receiver the failed transfer named -/
def txLater : TxIn :=
  { sigOk := true, from_ := "aa00000000000000000000000000000000000001", to := "bb00000000000000000000000000000000000002",
    amount := 5, gas := 2, price := 10, type := TRX_TRANSFER }
instance (t : TxIn) : Decidable (C05C.Addrs20 t) := by unfold C05C.Addrs20; infer_instance
/-- the hypotheses of `failed_tx_invisible_wf` are met by `gW`, `sW`, `txPoor`, `txLater` … -/
example : 0 < sW.active.minTrxFee ∧ C05C.Addrs20 txPoor ∧ C05C.Addrs20 txLater ∧ C05C.EvmCreatedListed txLater :=
  ⟨by decide, by decide, by decide, fun o ho => by cases ho⟩
/-- … and its conclusion agrees with direct evaluation (the later transfer succeeds either way) -/
example : ((deliverTx (deliverTx sW txPoor).1 txLater).2.tx.map (·.code)) = some 0 ∧
    ((deliverTx sW txLater).2.tx.map (·.code)) = some 0 := by decide

/-- a transfer to a 19-byte receiver: fails with "address" and leaves no record -/
def txShortRecv : TxIn :=
  { sigOk := true, from_ := "aa00000000000000000000000000000000000001", to := "bb000000000000000000000000000000000000",
    amount := 5, gas := 2, price := 10, type := TRX_TRANSFER }
instance (a : Hex) : Decidable (C05C.EvenHex a) := by unfold C05C.EvenHex; infer_instance
/-- the hypotheses of `failed_tx_invisible_recv20` are met by `gW`, `sW`, `txShortRecv` (receiver of a wrong
    length, not covered by `failed_tx_invisible_wf`) and `txLater` -/
example : byteLen txShortRecv.to ≠ 20 ∧ ¬ C05C.Addrs20 txShortRecv ∧
    ((deliverTx sW txShortRecv).2.tx.map fun t => (t.code, t.kind)) = some (5, "address") ∧
    C05C.EvenHex txShortRecv.to ∧ C05C.EvmIn20 txShortRecv ∧
    C05C.EvenHex txLater.to ∧ C05C.EvmAddrs20 txLater ∧ C05C.EvmCreatedListed txLater :=
  ⟨by decide, by decide, by decide, by decide, (fun o ho => by cases ho), by decide, (fun o ho => by cases ho),
   (fun o ho => by cases ho)⟩

end Rigo.C05
