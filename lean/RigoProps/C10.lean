/-
  C10 — Validator updates mirror the staking ledger.

  "Applying, in order, the validator updates returned at the end of each block to the genesis validator
   set always yields exactly the delegatees whose own stake meets the minimum validator stake, ranked by
   total bonded power and truncated to the maximum validator count, each with voting power equal to its
   total bonded power, as of the state committed by the previous block.  Every update is well-formed for
   the consensus engine: no duplicates, no removal of a validator that is not in the set, no negative power."

  Property theorems only; proofs live in RigoProofs/C10*.lean.  The engine side (`TM.applyUpdates`,
  `TM.tmAccepts`) is the executable transcription of Tendermint v0.34 `UpdateWithChangeSet` in
  RigoProofs/C10Tm.lean.  FINDINGS are stated as witnesses at the end.
-/
import RigoProofs.C10Ledger
import RigoProofs.C10Params
open Std

namespace Rigo.C10

open Rigo.TM Rigo.C14L

/-! ## the merge-diff -/

/-- "applying the validator updates … yields exactly the [new] delegatees … each with voting power equal to
    its total bonded power": for address-sorted duplicate-free `old`/`new`, public keys a fixed injective
    function of the address (`PubOfAddr`), non-zero new powers, the update list turns the set of `old`
    into the set of `new` (removal carries the OLD key, addition/change the NEW key and total). -/
theorem mergeDiff_correct {f : Hex → Hex} (finj : Injective f) (old new : List Delegatee)
    (ho : SortedByAddr old) (hn : SortedByAddr new) (hpo : PubOfAddr f old) (hpn : PubOfAddr f new)
    (hpos : ∀ n ∈ new, n.total ≠ 0) :
    applyUpdates (asSet old) (validatorUpdates old new) = asSet new :=
  TM.mergeDiff_correct finj old new ho hn hpo hpn hpos

/-- "Every update is well-formed for the consensus engine: no duplicates, no removal of a validator that
    is not in the set, no negative power": … and every non-removal carries the new delegatee's total; the
    resulting set is non-empty iff `new` is. -/
theorem updates_wellformed {f : Hex → Hex} (finj : Injective f) (old new : List Delegatee)
    (ho : SortedByAddr old) (hn : SortedByAddr new) (hpo : PubOfAddr f old) (hpn : PubOfAddr f new)
    (hpos : ∀ n ∈ new, 0 < n.total) :
    ((validatorUpdates old new).map (·.1)).Nodup ∧
    (∀ u ∈ validatorUpdates old new, 0 ≤ u.2) ∧
    (∀ u ∈ validatorUpdates old new, u.2 = 0 → u.1 ∈ asSet old) ∧
    (∀ u ∈ validatorUpdates old new, u.2 ≠ 0 → ∃ n ∈ new, u = (n.pub, n.total)) ∧
    ((applyUpdates (asSet old) (validatorUpdates old new)).isEmpty = false ↔ new ≠ []) :=
  TM.updates_wellformed finj old new ho hn hpo hpn hpos

/-- hence Tendermint accepts the list whenever the new validator list is not empty -/
theorem updates_accepted {f : Hex → Hex} (finj : Injective f) (old new : List Delegatee)
    (ho : SortedByAddr old) (hn : SortedByAddr new) (hpo : PubOfAddr f old) (hpn : PubOfAddr f new)
    (hpos : ∀ n ∈ new, 0 < n.total) (hne : new ≠ []) :
    tmAccepts (asSet old) (validatorUpdates old new) :=
  TM.updates_accepted finj old new ho hn hpo hpn hpos hne

/-! ## the two orderings -/

/-- `sortByAddr` returns an address-sorted permutation (strictly sorted when addresses are distinct) -/
theorem sortByAddr_sorted_perm {ds : List Delegatee} (hd : AddrDistinct ds) :
    SortedByAddr (sortByAddr ds) ∧ (sortByAddr ds).Perm ds :=
  ⟨TM.sortByAddr_sorted hd, TM.sortByAddr_perm ds⟩

/-- "ranked by total bonded power": `sortByPower` returns a permutation sorted by the code's power order
    (total descending, then number of stakes descending, then address descending) -/
theorem sortByPower_sorted_perm {ds : List Delegatee} (hd : AddrDistinct ds) :
    SortedByPower (sortByPower ds) ∧ (sortByPower ds).Perm ds ∧
    (sortByPower ds).Pairwise (fun a b => a.total ≥ b.total) :=
  ⟨TM.sortByPower_sorted hd, TM.sortByPower_perm ds, (TM.sortByPower_sorted hd).total_desc⟩

/-- `powerLess` is a strict total order on delegatees with distinct addresses -/
theorem powerOrder_strictTotal :
    (∀ a : Delegatee, powerLess a a = false) ∧
    (∀ a b : Delegatee, powerLess a b = true → powerLess b a = false) ∧
    (∀ a b c : Delegatee, powerLess a b = true → powerLess b c = true → powerLess a c = true) ∧
    (∀ a b : Delegatee, a.addr ≠ b.addr → powerLess a b = true ∨ powerLess b a = true) :=
  TM.powerOrder_strictTotal

/-! ## one block -/

/-- "the delegatees whose own stake meets the minimum validator stake … as of the state committed by the
    previous block": an accepted `beginBlock` sets `allDelegs` to the COMMITTED delegatees with
    `self ≥ minPower`, power-sorted; it never touches `lastVals` or the active parameters. -/
theorem beginBlock_eligible (s : St) (h : Header) :
    (beginBlock s h).1.lastVals = s.lastVals ∧ (beginBlock s h).1.active = s.active ∧
    ((beginBlock s h).1.allDelegs = s.allDelegs ∨
      ∃ minPower, amountToPower s.active.minValidatorStake = .ok minPower ∧
        (beginBlock s h).1.allDelegs =
          sortByPower ((s.delegs.committed.toList.map (·.2)).filter fun d => d.self ≥ minPower)) :=
  TM.beginBlock_lists s h

/-- "ranked by total bonded power and truncated to the maximum validator count, each with voting power
    equal to its total bonded power": one `endBlock` (i) turns the engine's set for the old `lastVals` into
    the set for the new `lastVals` (key ↦ total bonded power), (ii) the new `lastVals` is
    `sortByPower (take maxValidatorCnt allDelegs)` — or nothing at all happened because EndBlock stopped
    with a panic outcome —, (iii) the engine accepts the list when the new list is not empty, and
    (iv) the hypotheses carry over to the next block. -/
theorem valset_mirror_step {f : Hex → Hex} (finj : Injective f) (s : St) (ok : ValsetOK f s) :
    applyUpdates (asSet s.lastVals) (endBlock s).2.valUpdates = asSet (endBlock s).1.lastVals ∧
    ((endBlock s).1.lastVals = sortByPower (topN s) ∨
      ((endBlock s).1.lastVals = s.lastVals ∧ (endBlock s).2.valUpdates = [])) ∧
    ((endBlock s).2.valUpdates ≠ [] → topN s ≠ [] → tmAccepts (asSet s.lastVals) (endBlock s).2.valUpdates) ∧
    ValsetOK f (endBlock s).1 :=
  TM.valset_mirror_step finj s ok

/-! ## whole histories -/

/-- **valset_mirror** (every history incl. restarts): from genesis, along ANY history (any interleaving
    of BeginBlock / DeliverTx / CheckTx / EndBlock / Commit / restart, governance changes of the validator
    limits included), folding all emitted updates over the EMPTY set gives exactly the set of `lastVals`.
    Restarts are harmless for this equation because `restart` keeps `lastVals` (`restart_keeps_reported_set`)
    and only empties `allDelegs`; no phase discipline is needed for the EQUATION.  That `lastVals` is the
    ranking of the ELIGIBLE delegatees additionally needs `allDelegs` to be recomputed by `beginBlock`
    before `endBlock` reads it — guaranteed in well-phased histories, where a restart is never directly
    followed by EndBlock (`restart_then_end_not_wellphased`); out of phase (restart, then EndBlock without
    BeginBlock) the model would select from the empty list and announce the removal of every validator.  (`lastValidators` starts empty in the code, so the fold starts from ∅, not from the genesis
    set: block 1 announces nothing and block 2 announces the genesis delegatees.)
    Hypothesis `he`: what `beginBlock` reads from the committed delegatee ledger is fit for the merge-diff
    at every point of the history (distinct addresses, key = f(address), positive totals) — a ledger
    invariant; `valset_mirror_inputs` below discharges it from input hypotheses. -/
theorem valset_mirror {f : Hex → Hex} (finj : Injective f) (g : Genesis) (ops : List Op)
    (hc : ∀ op ∈ ops, op.isInit = false)
    (he : ∀ pre post, ops = pre ++ post → EligibleOK f (exec (initChain g) pre)) :
    applyUpdates ∅ (updatesOf (run (initChain g) ops).2) = asSet (exec (initChain g) ops).lastVals := by
  have h := TM.valset_mirror_run finj ops (initChain g) hc (initChain_valsetOK f g) he
  rw [(initChain_lists g).2.1] at h
  exact h.1

/-- the general form: from any state satisfying `ValsetOK` (restarts allowed inside the run) -/
theorem valset_mirror_from {f : Hex → Hex} (finj : Injective f) (ops : List Op) (s0 : St)
    (hc : ∀ op ∈ ops, op.isInit = false) (ok : ValsetOK f s0)
    (he : ∀ pre post, ops = pre ++ post → EligibleOK f (exec s0 pre)) :
    applyUpdates (asSet s0.lastVals) (updatesOf (run s0 ops).2) = asSet (exec s0 ops).lastVals ∧
    ValsetOK f (exec s0 ops) :=
  TM.valset_mirror_run finj ops s0 hc ok he

/-- the ledger invariant behind `EligibleOK`, proved inductive over the abstract transition system of C11
    (`OpCore`, `step_core`): every stored delegatee (consensus view and every committed version) has
    `pub = f addr` and non-negative stake powers.  Inputs: genesis entries have key `f address` and non-negative
    power; every delivered self-staking transaction's recovered public key is `f sender`; the slash ratio is in
    0..100 at every point of the history (slashing must not produce negative powers). -/
theorem ledger_pub_and_powers {f : Hex → Hex} {g : Genesis} (hg : GenesisPubOK f g) (ops : List Op)
    (hops : ∀ op ∈ ops, op.isInit = false ∧ Op.PubOK f op) (hr : RatioAlong (initChain g) ops) :
    DelegsX f (exec (initChain g) ops).core :=
  TM.history_delegsX hg ops hops hr

/-- from the two ledger invariants (C11's `DelegsOK`: sums, key = `ledgerKey addr`, 40-hex addresses; and
    `DelegsX`) and a minimum validator stake of at least one unit of power (and below 2^64 units) the eligible
    list has distinct addresses, keys `f addr` and POSITIVE totals (eligible ⇒ self ≥ minPower ≥ 1 ⇒ total ≥ self).
    `MinStakeOK` is the "explicit zero-power exclusion": without it the zero-power finding below applies. -/
theorem eligibleOK_of_inv {f : Hex → Hex} (s : St) (h1 : DelegsOK s.core) (h2 : DelegsX f s.core)
    (hmin : MinStakeOK s.active) : EligibleOK f s :=
  TM.eligibleOK_of_inv s h1 h2 hmin

/-- **valset_mirror under input hypotheses** (the former `valset_mirror_statement`, now a theorem): for every
    history (any operations in any order, restarts included, no second InitChain) whose inputs satisfy
    `InputsOK` — genesis validator addresses are 40 hex digits with keys `f address` and non-negative powers,
    delivered transactions carry even-length hex targets and self-staking transactions the key `f sender` —
    and along which the active parameters stay sane (`ParamsAlong`: slash ratio in 0..100,
    10^18 ≤ minValidatorStake < 2^64·10^18), folding all emitted updates over ∅ gives the set of `lastVals`.
    `ParamsAlong` is a hypothesis on the states of the history, not yet reduced to the governance inputs. -/
theorem valset_mirror_inputs {f : Hex → Hex} (finj : Injective f) (g : Genesis) (ops : List Op)
    (hin : InputsOK f g ops) (hp : ParamsAlong (initChain g) ops) :
    applyUpdates ∅ (updatesOf (run (initChain g) ops).2) = asSet (exec (initChain g) ops).lastVals := by
  have h := (TM.valset_mirror_inputs finj g ops hin hp).1
  rw [(initChain_lists g).2.1] at h
  exact h

/-- "… to the genesis validator set": when the first updates the application emits are the announcement of (a
    list standing for) the genesis set — which is what block 2 does when block 1 left the genesis delegatees
    unchanged (`GenesisAnnouncedFirst`) — folding all updates over the GENESIS set gives the set of `lastVals`.
    Without that hypothesis the statement is false (finding: a genesis validator that unbonds in block 1 is
    never reported as removed).  The implication "block 1 leaves the delegatees unchanged ⇒
    `GenesisAnnouncedFirst`" is NOT proved (it needs the evaluation of the first two blocks). -/
theorem valset_mirror_from_genesis {f : Hex → Hex} (finj : Injective f) (g : Genesis) (ops : List Op)
    (hin : InputsOK f g ops) (hp : ParamsAlong (initChain g) ops) (hfirst : GenesisAnnouncedFirst g ops) :
    applyUpdates (genesisSet g) (updatesOf (run (initChain g) ops).2) = asSet (exec (initChain g) ops).lastVals :=
  TM.valset_mirror_from_genesis finj g ops hin hp hfirst

/-- **valset_mirror_params**: the same with the parameter hypothesis on the INPUTS only — the genesis
    parameters are sane and every option of every delivered proposal, merged into the genesis parameters, is
    sane.  `RatioOK` / `MinStakeOK` are per-field predicates and `mergeParams` is field-wise, so an option
    that is sane over the genesis parameters is sane over any sane base (`C10P.optGood_of_merge`), which
    covers several successive proposals; the invariant `C10P.PInv` carries "active / pending parameters are
    sane and every option of every open or frozen proposal is sane" through every operation (the apply-time
    parse `parsedA` is the one `applyProposals` merges). -/
theorem valset_mirror_params :
    ∀ (f : Hex → Hex), Injective f → ∀ (g : Genesis) (ops : List Op), InputsOK f g ops →
    RatioOK g.params → MinStakeOK g.params →
    (∀ op ∈ ops, ∀ tx msg st pe ap ty opts, op = Op.deliver tx → tx.payload = Payload.proposal msg st pe ap ty opts →
      ∀ o ∈ opts, ∀ po, o.parsedA = some po → RatioOK (mergeParams g.params po) ∧ MinStakeOK (mergeParams g.params po)) →
    applyUpdates ∅ (updatesOf (run (initChain g) ops).2) = asSet (exec (initChain g) ops).lastVals :=
  C10P.valset_mirror_params

/-- non-vacuity: a seven-block history in which a two-option proposal (slash ratio 30 and a higher minimum
    validator stake / gas price only) is delivered meets the hypotheses -/
example := C10P.exOps_optionsOK

/-! ## findings (witnesses) -/

/-- FINDING (empty validator set; formal trace: the hypothesis `new ≠ []` of `updates_accepted` and the
    `topN s ≠ []` premise in `valset_mirror_step`): nothing prevents the last validator from unbonding; `updateValidators`
    then emits the removal of the last validator, the engine's set would be empty and Tendermint rejects
    the update list.  (With fewer than three validators the stake limiter is off.) -/
theorem updates_can_empty_the_set_witness :
    ∃ s' ups, updateValidators sLastLeaves = .ok (s', ups) ∧ ups = [("pa", 0)] ∧
      (applyUpdates (asSet sLastLeaves.lastVals) ups).isEmpty = true ∧
      ¬ tmAccepts (asSet sLastLeaves.lastVals) ups :=
  TM.updates_can_empty_the_set_witness

/-- the same in general: whatever the old list, an empty new list is rejected by the engine -/
theorem updates_rejected_of_empty (old : List Delegatee) : ¬ tmAccepts (asSet old) (validatorUpdates old []) :=
  TM.updates_rejected_of_empty old

/-- FINDING (zero power announced): the hypothesis `0 < total` on the new list in `updates_wellformed` /
    `updates_accepted` / `ValsetOK.allPos` / `EligibleOK` is the formal trace of this finding.  A delegatee
    whose stakes were all forfeited keeps `total = 0`; when `minValidatorStake < 1 RIGO` (`minPower = 0`) it is
    still eligible and is announced as `(pub, 0)`, which the engine reads as the removal of a non-member and
    rejects.  (The same hypothesis, as `≠ 0`, is what `mergeDiff_correct` needs: a power-0 "addition" is a
    removal for the engine.) -/
theorem zero_power_announced_as_removal_witness :
    ∃ s' ups, updateValidators sZeroPower = .ok (s', ups) ∧ ups = [("pz", 0)] ∧
      ¬ tmAccepts (asSet sZeroPower.lastVals) ups :=
  TM.zero_power_announced_as_removal_witness

/-- REPAIRED (C07/C10, restart; rigo-go 4e17cf4): `restart` restores the validator list that was reported to
    the engine, so the first EndBlock after a restart diffs against it instead of re-announcing everything
    and dropping removals. -/
theorem restart_keeps_reported_set (s : St) : (restart s).lastVals = s.lastVals :=
  TM.restart_keeps_reported_set s

/-- well-phased histories never run EndBlock directly after a restart -/
theorem restart_then_end_not_wellphased (p : Phase) (ops : List Op) :
    phaseRun p (.restart :: .end_ :: ops) = none :=
  TM.phaseRun_restart_end p ops

/-! ## non-vacuity -/

def exA : Delegatee := { addr := "aa", pub := "aa", self := 10, total := 10 }
def exB : Delegatee := { addr := "bb", pub := "bb", self := 7, total := 9 }
def exC : Delegatee := { addr := "cc", pub := "cc", self := 8, total := 8 }

example : Injective id := fun _ _ h => h
example : SortedByAddr [exA, exB] ∧ SortedByAddr [exB, exC] := by
  constructor <;> simp [SortedByAddr, exA, exB, exC] <;> decide
example : PubOfAddr id [exA, exB, exC] := by intro d hd; simp at hd; rcases hd with rfl | rfl | rfl <;> rfl
example : ∀ n ∈ [exB, exC], 0 < n.total := by intro n hn; simp at hn; rcases hn with rfl | rfl <;> decide
/-- the hypotheses of `valset_mirror_step` on a non-trivial state: A leaves, C joins -/
example : ValsetOK id { lastVals := [exA, exB], allDelegs := [exB, exC] } := by
  constructor
  · simp [AddrDistinct, exB, exC]
  · simp [AddrDistinct, exA, exB]
  · intro d hd; simp at hd; rcases hd with rfl | rfl <;> rfl
  · intro d hd; simp at hd; rcases hd with rfl | rfl <;> rfl
  · intro d hd; simp at hd; rcases hd with rfl | rfl <;> decide

/-- a genesis with two validators whose keys are their addresses (`f = id`) -/
def exGenesis : Genesis :=
  { chainId := "t", params := { (default : Params) with slashRatio := 50, minValidatorStake := 7000000000000000000 },
    holders := [], vals := [("aaaaaaaaaaaaaaaaaaaaaaaaaaaaaaaaaaaaaaaa", "aaaaaaaaaaaaaaaaaaaaaaaaaaaaaaaaaaaaaaaa", 10),
                            ("bbbbbbbbbbbbbbbbbbbbbbbbbbbbbbbbbbbbbbbb", "bbbbbbbbbbbbbbbbbbbbbbbbbbbbbbbbbbbbbbbb", 9)] }

/-- `InputsOK` and `ParamsAlong` are satisfiable on a non-empty history -/
example : InputsOK id exGenesis [Op.check {}] := by
  refine ⟨by decide, ?_, by decide, ?_⟩
  · intro v hv; simp [exGenesis] at hv; rcases hv with rfl | rfl <;> exact ⟨rfl, by decide⟩
  · intro op hop; simp at hop; subst hop; trivial
example : ParamsAlong (initChain exGenesis) [Op.check {}] := by
  intro pre post e
  have hact : ∀ s : St, s.active = exGenesis.params → RatioOK s.active ∧ MinStakeOK s.active := by
    intro s hs; rw [hs]; exact ⟨by decide, by decide⟩
  rcases pre with _ | ⟨op, pre⟩
  · exact hact _ (initChain_lists exGenesis).2.2
  · simp only [List.cons_append, List.cons.injEq] at e
    obtain ⟨rfl, e⟩ := e
    have : pre = [] := by cases pre <;> simp_all
    subst this
    apply hact
    rw [exec_cons, exec_nil]
    have := checkTx_vl (initChain exGenesis) {}
    simp only [VL, Prod.mk.injEq] at this
    exact this.2.2.trans (initChain_lists exGenesis).2.2

end Rigo.C10
