/-
  C07 — Restart equivalence at block boundaries.

  "A node that is stopped after any commit and restarted from its data directory reports that
   block's height and application hash and thereafter produces exactly the same transaction results,
   validator updates and application hashes as a node that kept running.  All in-memory state that
   influences execution is reconstructible from what was persisted."

  The model's `restart` (after the repair 4e17cf4 of /repo, which persists `lastValidators`) reopens
  every ledger on its last committed version, reloads the active parameters from the committed
  parameter ledger, clears `pending` and `blk`, KEEPS `lastVals`, and resets the two in-memory
  stake-controller fields that are not persisted: `allDelegs := []`, `limiter := {}`.

  Proved (all sorry-free, no statement left open):
  * `restart_info`, `restart_rebuilds` – height / committed versions kept; views rebuilt;
  * `cache_coherent` – at every boundary of a well-phased history with `lastHeight ≥ 1`, every
    consensus view equals the committed version, nothing is pending, no block is open;
    `cache_coherent_params` – and the committed parameter ledger holds the active parameters
    (under `RestartsAfterCommit`, C15's hypothesis);
  * `restart_equiv_boundary` – there, `restart s` and `s` differ only in mempool views, `allDelegs`,
    `limiter`;
  * `beginBlock_ignores_allDelegs_limiter` – BeginBlock recomputes both before any use;
  * `restart_equiv` – THE MAIN THEOREM: same consensus outcomes for every continuation;
    `restart_equiv_states` – equal consensus views from the first accepted BeginBlock on;
    `restart_equiv_exact` – if no CheckTx ran between the commit and the restart, the two nodes are
    in the SAME state after the next BeginBlock, so every later outcome (CheckTx included) is equal.

  Hypotheses, and why:
  * `1 ≤ s.lastHeight` – `initChain g` has populated consensus views and an empty history; the model's
    restart before the first commit loses the genesis state (a real node re-runs InitChain).
  * `BeginsOK s ops` – no BeginBlock of the continuation hits the `AmountToPower(minValidatorStake)`
    panic.  In that panic path BeginBlock returns BEFORE it recomputes `allDelegs`/`limiter`, so the
    two nodes would stay different with a block open; the real node is dead at that point (C09).
    It holds whenever `minValidatorStake < 2^63·10^18` (see the example at the end).

  Scope.  The outcomes compared are those of the consensus calls (BeginBlock, DeliverTx, EndBlock,
  Commit: transaction results, validator updates, events, and – through `consEq` – the committed
  versions, i.e. the application hashes).  CheckTx (mempool admission) outcomes between the restart
  and the next BeginBlock CAN legitimately differ and are outside the property: the restart discards
  un-committed mempool view changes (the mempool is not persisted) and `limiter = {}` makes the
  evaluate-only limiter check on the CheckTx path pass trivially until BeginBlock resets it, whereas
  the continuous node still evaluates the previous block's limiter.  By C06 none of this can reach
  consensus state.
-/
import RigoProofs.C07Equiv

namespace Rigo
namespace C07

open C06 (consEq consOuts Op.isCheck)

/-- "… reports that block's height and application hash": `restart` keeps the last committed
    height and every committed version of every ledger (the application hash is a function of
    these; IAVL roots are not modelled). -/
theorem restart_info (s : St) :
    (restart s).lastHeight = s.lastHeight ∧
    (restart s).accts.hist = s.accts.hist ∧ (restart s).delegs.hist = s.delegs.hist ∧
    (restart s).frozen.hist = s.frozen.hist ∧ (restart s).rewards.hist = s.rewards.hist ∧
    (restart s).params.hist = s.params.hist ∧ (restart s).props.hist = s.props.hist ∧
    (restart s).fprops.hist = s.fprops.hist := restart_keeps_committed s

/-- what IS rebuilt: both views of every ledger are the committed version, no pending parameters,
    no open block; the validator list survives. -/
theorem restart_rebuilds (s : St) :
    (restart s).accts.fin = s.accts.committed ∧ (restart s).accts.chk = s.accts.committed ∧
    (restart s).delegs.fin = s.delegs.committed ∧ (restart s).delegs.chk = s.delegs.committed ∧
    (restart s).params.fin = s.params.committed ∧ (restart s).props.fin = s.props.committed ∧
    (restart s).pending = none ∧ (restart s).blk = none ∧ (restart s).lastVals = s.lastVals :=
  restart_views s

/-- "All in-memory state that influences execution is reconstructible from what was persisted",
    part 1 (cache coherence): at every block boundary of a well-phased history, after the first
    commit, every consensus view IS the committed version, no parameter change is pending and no
    block is open – nothing un-persisted is cached. -/
theorem cache_coherent {g : Genesis} {s : St} (h : ReachableAtBoundary g s) (hl : 1 ≤ s.lastHeight) :
    Coherent s ∧ s.blk = none :=
  ⟨(boundary_idle h).2 hl, (boundary_idle h).1⟩

/-- … and the active parameters are the committed parameter-ledger entry (C15's invariant; needs
    C15's hypothesis that no restart happened before the first commit). -/
theorem cache_coherent_params (g : Genesis) (ops : List Op) (hp : phaseRun .idle ops = some .idle)
    (hr : C15.RestartsAfterCommit (initChain g) ops) (hl : 1 ≤ (exec (initChain g) ops).lastHeight) :
    (exec (initChain g) ops).params.committed[zeroHash]? = some (exec (initChain g) ops).active := by
  obtain ⟨hg, he⟩ := C15.paramsE_exec ops (initChain g) (C15.govCore_init g) (C15.paramsE_init g)
    (C15.phaseRun_noinit ops _ _ hp) hr
  exact (C15.query_active hg he hl).1

/-- (without that hypothesis, still:) `restart` reloads exactly the active parameters -/
theorem restart_keeps_active {g : Genesis} {s : St} (h : Reachable g s) : (restart s).active = s.active :=
  restart_active h

/-- part 2: at such a boundary the restarted node's state equals the running node's state except for
    the mempool views (not persisted, irrelevant to consensus by C06) and `allDelegs`, `limiter`. -/
theorem restart_equiv_boundary {g : Genesis} {s : St} (h : ReachableAtBoundary g s) (hl : 1 ≤ s.lastHeight) :
    eraseVolatile (restart s) = eraseVolatile s := restart_volEq h hl

/-- part 3: `allDelegs` and `limiter` are recomputed by BeginBlock before any use.  On two states that
    differ only in these two fields (and mempool views) BeginBlock gives equal outcomes; if the
    height is accepted the resulting states are equal on everything except the mempool views; if
    it is refused both states are returned unchanged. -/
theorem beginBlock_ignores_allDelegs_limiter {s₁ s₂ : St} (hv : eraseVolatile s₁ = eraseVolatile s₂)
    (h : Header) (hm : MinStakeOK s₁) :
    (beginBlock s₁ h).2 = (beginBlock s₂ h).2 ∧
    (h.height = s₁.lastHeight + 1 → consEq (beginBlock s₁ h).1 (beginBlock s₂ h).1) ∧
    (h.height ≠ s₁.lastHeight + 1 → (beginBlock s₁ h).1 = s₁ ∧ (beginBlock s₂ h).1 = s₂) :=
  beginBlock_of_volEq hv h hm

/-- … and when the mempool views agree too, the two BeginBlock results are EQUAL (state and outcome) -/
theorem beginBlock_ignores_exact {s₁ s₂ : St} (h : W [] {} s₁ = W [] {} s₂) (hd : Header)
    (hh : hd.height = s₁.lastHeight + 1) (hm : MinStakeOK s₂) : beginBlock s₁ hd = beginBlock s₂ hd :=
  beginBlock_eq_of_volatile_only h hd hh hm

/-- MAIN THEOREM.  "… thereafter produces exactly the same transaction results, validator updates and
    application hashes as a node that kept running": for every boundary state `s` of a well-phased
    history with at least one commit, and EVERY continuation `ops` (in particular every well-phased
    one: CheckTx calls, then BeginBlock, DeliverTx*, EndBlock, Commit, …, further restarts), the
    outcomes of all consensus calls of the restarted node equal those of the node that kept running,
    and the final states agree on everything except mempool views, `allDelegs`, `limiter`. -/
theorem restart_equiv {g : Genesis} {s : St} (h : ReachableAtBoundary g s) (hl : 1 ≤ s.lastHeight)
    (ops : List Op) (hok : BeginsOK s ops) :
    consOuts ops (run (restart s) ops).2 = consOuts ops (run s ops).2 ∧
    eraseVolatile (run (restart s) ops).1 = eraseVolatile (run s ops).1 := by
  have hrel : Rel (restart s) s := Or.inr ⟨restart_volEq h hl, rfl⟩
  have := rel_run ops _ _ hrel hok
  exact ⟨this.2, this.1.volEq⟩

/-- From the first accepted BeginBlock on (CheckTx calls may precede it) the two nodes have EQUAL
    consensus views – committed histories (application hashes), consensus views, validator lists,
    limiter, … – at every later point, whatever follows. -/
theorem restart_equiv_states {g : Genesis} {s : St} (h : ReachableAtBoundary g s) (hl : 1 ≤ s.lastHeight)
    (txs : List TxIn) (hd : Header) (rest : List Op) (hh : hd.height = s.lastHeight + 1) (hm : MinStakeOK s) :
    consEq (exec (restart s) (txs.map Op.check ++ .begin_ hd :: rest))
           (exec s (txs.map Op.check ++ .begin_ hd :: rest)) :=
  rel_run_consEq (Or.inr ⟨restart_volEq h hl, rfl⟩) txs hd rest hh hm

/-- If no CheckTx ran between the last commit and the restart (mempool views still equal the
    consensus views), the restarted node and the running node are in the SAME state after the next
    BeginBlock: all later outcomes – CheckTx included – and states are equal. -/
theorem restart_equiv_exact {g : Genesis} {s : St} (h : ReachableAtBoundary g s) (hl : 1 ≤ s.lastHeight)
    (hf : Fresh s) (hd : Header) (hh : hd.height = s.lastHeight + 1) (hm : MinStakeOK s) (rest : List Op) :
    run (restart s) (.begin_ hd :: rest) = run s (.begin_ hd :: rest) := by
  have hb : beginBlock (restart s) hd = beginBlock s hd :=
    beginBlock_eq_of_volatile_only (restart_fresh h hl hf) hd hh hm
  simp only [run, step, hb]

/-! ### non-vacuity -/

/-- `Fresh` holds right after a Commit -/
example (s : St) (b : BlockCtx) (hb : s.blk = some b) : Fresh (commit s).1 := commit_fresh s b hb

/-- `MinStakeOK` holds for ordinary parameters (here 10^18, one voting power) … -/
example : MinStakeOK { active := { (default : Params) with minValidatorStake := 1000000000000000000 } } :=
  ⟨1, by rfl⟩

/-- … and fails only for absurd ones (≥ 2^63 · 10^18) -/
example : ¬ MinStakeOK { active := { (default : Params) with minValidatorStake := 2 ^ 63 * 1000000000000000000 } } := by
  rintro ⟨mp, h⟩
  have e : amountToPower (2 ^ 63 * 1000000000000000000) = Res.panic "AmountToPower: voting power is negative" := by
    rfl
  change amountToPower (2 ^ 63 * 1000000000000000000) = _ at h
  rw [e] at h
  cases h

/-- boundary states with `lastHeight ≥ 1` exist: one (empty) block from any genesis whose
    `minValidatorStake` is sane -/
example (g : Genesis) : ReachableAtBoundary g (exec (initChain g) [.begin_ { height := 1 }, .end_, .commit]) :=
  ⟨_, rfl, rfl⟩

/-- `volEq` relates genuinely different states and `restart` does change the volatile fields -/
example : ∃ s : St, eraseVolatile (restart s) = eraseVolatile s ∧ (restart s).limiter ≠ s.limiter :=
  ⟨{ limiter := { isNil := false } }, rfl, by simp [restart]⟩

end C07
end Rigo
