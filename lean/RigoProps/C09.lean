/-
  C09 — No input can crash the node.

  "For every byte string submitted as a transaction, to the mempool check or inside a block, and for
   every query request, the application returns a response (success or an error code) and remains
   usable. Malformed, undecodable, oversized, unauthorised or adversarially chosen inputs never cause
   a panic."

  Property theorems only; helper lemmas live in RigoProofs/C09NoPanic.lean (+ Tx*.lean).

  The model makes every partial Go operation on the transaction path an explicit panic outcome
  (`TxOut.panic ≠ ""`).  `no_panic_tx` says that outcome never occurs, for ALL inputs, provided the
  state / governance parameters satisfy `StateOK` (an explicit list of conjuncts) — this is the Lean
  side of the `assumed` and `guarded` classes of /verif/expect/panic_sites.json for CheckTx/DeliverTx.
  For every conjunct that governance or an extreme state can violate, a concrete witness below shows
  the panic that results when it is dropped: these are the values that would crash the real node.
-/
import RigoProofs.C09NoPanic
import RigoProofs.C09RunChk
import RigoProofs.C02Witness
import RigoProofs.C09Apply
open Std

namespace Rigo.C09

/-- **no_panic_tx.**  Any transaction input — undecodable bytes, or a decoded transaction of which
    only the decode invariant `DecodedWF` (payload object matches the type number) is known, all field
    values arbitrary — handled on either path (`exec = true`: DeliverTx, `false`: CheckTx) in a state
    satisfying `NoPanicEnv` is answered without a panic (with code 0 or an error code). -/
theorem no_panic_tx {s : St} {exec : Bool} {h : Int} {tx : TxIn}
    (hwf : DecodedWF tx ∨ tx.decodable = false) (henv : NoPanicEnv s exec h tx) :
    (handleTx s exec h tx).2.panic = "" :=
  handleTx_noPanic hwf henv

/-- DeliverTx inside a block -/
theorem no_panic_deliver {s : St} {b : BlockCtx} {tx : TxIn} (hb : s.blk = some b)
    (hwf : DecodedWF tx ∨ tx.decodable = false) (henv : NoPanicEnv s true b.height tx) :
    (deliverTx s tx).2.panic = "" ∧ (deliverTx s tx).2.tx.isSome :=
  ⟨deliverTx_noPanic hb hwf henv, by unfold deliverTx; rw [hb]; simp only; split <;> (try split) <;> rfl⟩

/-- CheckTx at any time -/
theorem no_panic_check {s : St} {tx : TxIn}
    (hwf : DecodedWF tx ∨ tx.decodable = false) (henv : NoPanicEnv s false (s.lastHeight + 1) tx) :
    (checkTx s tx).2.panic = "" ∧ (checkTx s tx).2.tx.isSome :=
  ⟨checkTx_noPanic hwf henv, rfl⟩

/-- undecodable bytes are always answered with an error code, in any state -/
theorem undecodable_rejected (s : St) (exec : Bool) (h : Int) (tx : TxIn) (hd : tx.decodable = false) :
    (handleTx s exec h tx).1 = s ∧ (handleTx s exec h tx).2.code ≠ 0 ∧ (handleTx s exec h tx).2.panic = "" := by
  unfold handleTx; simp [hd]; split <;> decide

/-- **no_panic_query.**  The model's `query` is a total function of the state returning only an answer:
    there is no panic outcome and no successor state (a query cannot change anything). -/
theorem no_panic_query (s : St) (path : String) (data : Hex) (h : Int) : ∃ out : QOut, query s path data h = out :=
  ⟨_, rfl⟩

/-- **query_codes.**  Every query — any path string, any data bytes, any height — is answered with
    code 0, `ErrCodeQuery` (1000) or `ErrCodeInvalidQueryPath` (1001). -/
theorem query_codes (s : St) (path : String) (data : Hex) (h : Int) :
    (query s path data h).code = 0 ∨ (query s path data h).code = 1000 ∨ (query s path data h).code = 1001 := by
  unfold query
  simp only
  repeat' split
  all_goals simp [ErrCodeQuery, ErrCodeInvalidQueryPath]

/-- **usable_after** (rejected input).  A delivery that is answered with an error code leaves the
    DeliverTx-path condition `StateOK` intact, so the next input is covered by `no_panic_tx` again. -/
theorem usable_after_rejected {s : St} {h : Int} {tx : TxIn} (hS : StateOK s true h)
    (hc : (handleTx s true h tx).2.code ≠ 0) : StateOK (handleTx s true h tx).1 true h :=
  StateOK_after_failed_deliver hS hc

/-- The ONE-STEP form of "remains usable" — `StateOK` is preserved by every single transaction from every
    reachable state — is FALSE (`usable_after_statement_false` below: `StateOK` bounds every balance by
    2^62 RIGO and a transfer of one base unit can reach that bound exactly).  What holds is the RUN-level
    form (`stateOK_along_run`, `stateOK_chk_along_run`): the bounds follow from the conserved supply. -/
def usable_after_statement : Prop :=
  ∀ (g : Genesis) (s : St), Reachable g s → ∀ (exec : Bool) (h : Int), StateOK s exec h →
    ∀ tx : TxIn, StateOK (handleTx s exec h tx).1 exec h

/-! ### "remains usable", at the level of runs

`StateOK` is not an assumption on states: it is a consequence of hypotheses on the INPUTS of the history
(`C02.GenesisSane`, the supply caps) and of the side conditions `RunOK1` (C02: blocks complete, slash
ratio sane, unique unbonding keys, EVM oracle creates no value, withdrawn rewards ≤ W),
`ParamsSaneAlong` (the active governance parameters stay within int64 / uint256 conversions — exactly the
values for which the witnesses below show a panic) and, for the mempool view, `RewardsCapAlong`. -/

/-- **stateOK_along_run** (DeliverTx path): after EVERY well-phased history from a sane genesis whose
    supply (genesis total + rewards ever withdrawn) stays below 2^62 RIGO, the state satisfies `StateOK` for
    the next height — the balance, delegatee-power, limiter and reward-height clauses are invariants of the
    run (conservation C02, stake bookkeeping C11, BeginBlock's limiter reset, phase discipline). -/
theorem stateOK_along_run {W : Int} {g : Genesis} (hs : C02.GenesisSane g) (hB : C09R.SupplyCap g W)
    (ops : List Op) (p : Phase) (hph : phaseRun .idle ops = some p)
    (hok : C02.RunOK1 W (initChain g) ops) (hpa : C09R.ParamsSaneAlong (initChain g) ops) :
    StateOK (exec (initChain g) ops) true ((exec (initChain g) ops).lastHeight + 1) :=
  C09R.stateOK_of_good hB (C09R.good_run hs hB ops p hph hok hpa)

/-- inside a block the height in execution is the block's -/
theorem stateOK_along_run_inBlock {W : Int} {g : Genesis} (hs : C02.GenesisSane g) (hB : C09R.SupplyCap g W)
    (ops : List Op) (p : Phase) (hph : phaseRun .idle ops = some p)
    (hok : C02.RunOK1 W (initChain g) ops) (hpa : C09R.ParamsSaneAlong (initChain g) ops)
    {b : BlockCtx} (hb : (exec (initChain g) ops).blk = some b) :
    StateOK (exec (initChain g) ops) true b.height :=
  C09R.stateOK_inBlock hB (C09R.good_run hs hB ops p hph hok hpa) hb

/-- **no_panic_deliver_run**: in the state reached by ANY such history, ANY next DeliverTx input —
    undecodable, or decoded with arbitrary field values — is answered without a panic (the EVM oracle
    result must be present for EVM-routed transactions: `OracleOK`). -/
theorem no_panic_deliver_run {W : Int} {g : Genesis} (hs : C02.GenesisSane g) (hB : C09R.SupplyCap g W)
    (ops : List Op) (p : Phase) (hph : phaseRun .idle ops = some p)
    (hok : C02.RunOK1 W (initChain g) ops) (hpa : C09R.ParamsSaneAlong (initChain g) ops)
    {b : BlockCtx} (hb : (exec (initChain g) ops).blk = some b) (tx : TxIn)
    (hwf : DecodedWF tx ∨ tx.decodable = false) (ho : OracleOK (exec (initChain g) ops) true tx) :
    (deliverTx (exec (initChain g) ops) tx).2.panic = "" :=
  (no_panic_deliver hb hwf ⟨stateOK_along_run_inBlock hs hB ops p hph hok hpa hb, ho⟩).1

/-- **stateOK_chk_along_run** (CheckTx path): the same for the MEMPOOL view, whose value is bounded by the
    consensus view's at the last commit plus the withdrawable rewards (`RewardsCapAlong R`): CheckTx never
    raises the value held in the mempool view (`C09R.cinv_step`). -/
theorem stateOK_chk_along_run {W R : Int} {g : Genesis} (hs : C02.GenesisSane g) (hB : C09R.SupplyCapChk g W R)
    (ops : List Op) (p : Phase) (hph : phaseRun .idle ops = some p)
    (hok : C02.RunOK1 W (initChain g) ops) (hpa : C09R.ParamsSaneAlong (initChain g) ops)
    (hra : C09R.RewardsCapAlong R (initChain g) ops) :
    StateOK (exec (initChain g) ops) false ((exec (initChain g) ops).lastHeight + 1) := by
  have hR : 0 ≤ R := by
    have := C09R.rewardsCap_head hra; have := C09R.rsum_nonneg (initChain g).rewards.fin; omega
  exact C09R.stateOK_chk_of hB (C09R.good_run hs (C09R.supplyCap_of_chk hB hR) ops p hph hok hpa)
    (C09R.cinv_run hs hB ops p hph hok hpa hra)

/-- **no_panic_check_run**: ANY CheckTx input at ANY point of such a history is answered without a panic. -/
theorem no_panic_check_run {W R : Int} {g : Genesis} (hs : C02.GenesisSane g) (hB : C09R.SupplyCapChk g W R)
    (ops : List Op) (p : Phase) (hph : phaseRun .idle ops = some p)
    (hok : C02.RunOK1 W (initChain g) ops) (hpa : C09R.ParamsSaneAlong (initChain g) ops)
    (hra : C09R.RewardsCapAlong R (initChain g) ops) (tx : TxIn)
    (hwf : DecodedWF tx ∨ tx.decodable = false) :
    (checkTx (exec (initChain g) ops) tx).2.panic = "" :=
  (no_panic_check hwf ⟨stateOK_chk_along_run hs hB ops p hph hok hpa hra, fun h => by cases h⟩).1

/-! ### non-vacuity: a state satisfying `StateOK` -/

def A : Hex := "aa00000000000000000000000000000000000001"
def B : Hex := "bb00000000000000000000000000000000000002"
def D : Hex := "dd00000000000000000000000000000000000004"
def RIGO : Nat := 1000000000000000000
def h32 : Hex := "0000000000000000000000000000000000000000000000000000000000000000"

def pOK : Params := { (default : Params) with gasPrice := 10, minTrxGas := 1, maxValidatorCnt := 21 }
def sOK : St := ({ active := pOK } : St).setAcct true { addr := A, bal := 100 * RIGO }

example : StateOK sOK true 1 := by
  refine ⟨by unfold FeeSane; decide, by decide, by decide, ?_, ?_, ?_, ?_, ?_⟩
  · intro k a hk
    have hk' : (({} : KMap Account).insert (ledgerKey A) { addr := A, bal := 100 * RIGO })[k]? = some a := hk
    rw [kmap_get_insert] at hk'
    split at hk'
    · simp at hk'; subst hk'; decide
    · simp at hk'
  · intro k d hk
    have hk' : ({} : KMap Delegatee)[k]? = some d := hk
    simp at hk'
  · intro h3; exact absurd h3 (by decide)
  · intro k r hk
    have hk' : ({} : KMap Reward)[k]? = some r := hk
    simp at hk'
  · intro _
    exact AddrOK_insert AddrOK_empty _

/-! ### the one-step form of "remains usable" is false -/

/-- genesis of the witness: two holders, each one unit below 2^62 RIGO (`stakeCap`); no validators.
    The total supply (< 2^63 RIGO) even satisfies C02's `SupplyBound`. -/
def gW : Genesis :=
  { chainId := "w", params := pOK, holders := [(A, stakeCap - 1), (B, stakeCap - 1)], vals := [] }

/-- A sends ONE base unit to B (fee 10) -/
def txW : TxIn :=
  { sigOk := true, from_ := A, to := B, amount := 1, gas := 1, price := 10, type := TRX_TRANSFER, hash := "w1" }

theorem gW_fin (k : String) : (initChain gW).accts.fin[k]? =
    if ledgerKey B = k then some { addr := B, bal := stakeCap - 1 }
    else if ledgerKey A = k then some { addr := A, bal := stakeCap - 1 } else none := by
  show ((({} : KMap Account).insert (ledgerKey A) { addr := A, bal := stakeCap - 1 }).insert (ledgerKey B)
      { addr := B, bal := stakeCap - 1 })[k]? = _
  rw [kmap_get_insert, kmap_get_insert]; simp

theorem gW_stateOK : StateOK (initChain gW) true 1 := by
  refine ⟨by unfold FeeSane; decide, by decide, by decide, ?_, ?_, ?_, ?_, ?_⟩
  · intro k a hk
    have hk' : (initChain gW).accts.fin[k]? = some a := hk
    rw [gW_fin] at hk'
    split at hk'
    · simp at hk'; subst hk'; decide
    · split at hk'
      · simp at hk'; subst hk'; decide
      · simp at hk'
  · intro k d hk
    have hk' : ({} : KMap Delegatee)[k]? = some d := hk
    simp at hk'
  · intro h3; exact absurd h3 (by decide)
  · intro k r hk
    have hk' : ({} : KMap Reward)[k]? = some r := hk
    simp at hk'
  · intro _
    exact AddrOK_insert (AddrOK_insert AddrOK_empty { addr := A, bal := stakeCap - 1 }) { addr := B, bal := stakeCap - 1 }

theorem gW_after : (handleTx (initChain gW) true 1 txW).2.code = 0 ∧
    (handleTx (initChain gW) true 1 txW).1.accts.get true (ledgerKey B) = some { addr := B, bal := stakeCap } := by
  decide +kernel

/-- **`usable_after_statement` is false**: `StateOK` is not a one-step invariant.  In the genesis state
    of `gW` (reachable, satisfies `StateOK`) the successful transfer of one base unit lifts B's balance
    to exactly `stakeCap`. -/
theorem usable_after_statement_false : ¬ usable_after_statement := by
  intro h
  have h1 := h gW (initChain gW) (Reachable.start gW) true 1 gW_stateOK txW
  have h2 := h1.bal (ledgerKey B) _ gW_after.2
  exact absurd h2 (by decide)


/-! ### non-vacuity of the run-level theorems

The four-block history `C02.Wit.HW` (transfer, CheckTx + DeliverTx of a delegation, a failing transaction,
a reward withdrawal, an unstaking, a restart, a refund) from the genesis `C02.Wit.GW` meets every
hypothesis of `stateOK_along_run` / `stateOK_chk_along_run` (W = 7 withdrawn, R = 10^20). -/

instance decParamsSaneAlong : ∀ (ops : List Op) (s : St), Decidable (C09R.ParamsSaneAlong s ops)
  | [], s => by unfold C09R.ParamsSaneAlong; infer_instance
  | op :: ops, s => by
      unfold C09R.ParamsSaneAlong
      exact @instDecidableAnd _ _ _ (decParamsSaneAlong ops (step s op).1)

instance decRewardsCapAlong (R : Int) : ∀ (ops : List Op) (s : St), Decidable (C09R.RewardsCapAlong R s ops)
  | [], s => by unfold C09R.RewardsCapAlong; infer_instance
  | op :: ops, s => by
      unfold C09R.RewardsCapAlong
      exact @instDecidableAnd _ _ _ (decRewardsCapAlong R ops (step s op).1)

theorem wit_supplyCap : C09R.SupplyCapChk C02.Wit.GW 7 (10 ^ 20) := by
  unfold C09R.SupplyCapChk; rw [C02.Wit.genesis_total]; decide
theorem wit_paramsSane : C09R.ParamsSaneAlong (initChain C02.Wit.GW) C02.Wit.HW := by decide +kernel
theorem wit_rewardsCap : C09R.RewardsCapAlong (10 ^ 20) (initChain C02.Wit.GW) C02.Wit.HW := by decide +kernel

example : StateOK (exec (initChain C02.Wit.GW) C02.Wit.HW) false ((exec (initChain C02.Wit.GW) C02.Wit.HW).lastHeight + 1) :=
  stateOK_chk_along_run C02.Wit.sane wit_supplyCap C02.Wit.HW .idle C02.Wit.phases
    (C02.runOK1B_ok 7 _ _ C02.Wit.checker) wit_paramsSane wit_rewardsCap

example : StateOK (exec (initChain C02.Wit.GW) C02.Wit.HW) true ((exec (initChain C02.Wit.GW) C02.Wit.HW).lastHeight + 1) :=
  stateOK_along_run C02.Wit.sane (C09R.supplyCap_of_chk wit_supplyCap (by decide)) C02.Wit.HW .idle C02.Wit.phases
    (C02.runOK1B_ok 7 _ _ C02.Wit.checker) wit_paramsSane

/-! ### witnesses: what happens when a conjunct of `StateOK` (or `DecodedWF`) is dropped -/

def stakeSelf : TxIn :=
  { sigOk := true, from_ := A, to := A, amount := RIGO, gas := 2, price := 10, type := TRX_STAKING, hash := "h1" }

/-- **minValidatorStake ≥ 2^63 RIGO** (a governance value): every self-staking validation panics in
    `AmountToPower(minValidatorStake)`, on CheckTx and DeliverTx. -/
theorem witness_minValidatorStake :
    let s : St := ({ active := { pOK with minValidatorStake := 2 ^ 63 * RIGO } } : St).setAcct true { addr := A, bal := 100 * RIGO }
    (handleTx s true 1 stakeSelf).2.panic = "AmountToPower: voting power is negative" := by decide

def stakeB : Stake := { owner := B, to := B, hash := h32, power := 10, start := 1 }
/-- the same on the CheckTx path (mempool view): a single CheckTx crashes the node -/
theorem witness_minValidatorStake_check :
    let s : St := ({ active := { pOK with minValidatorStake := 2 ^ 63 * RIGO } } : St).setAcct false { addr := A, bal := 100 * RIGO }
    (checkTx s stakeSelf).2.panic = "AmountToPower: voting power is negative" := by decide

def delegB : Delegatee := { addr := B, pub := "pb", self := 10, total := 10, stakes := [stakeB] }
def withB (s : St) : St := { s with delegs := { s.delegs with fin := s.delegs.fin.insert (ledgerKey B) delegB } }
def delegateToB : TxIn :=
  { sigOk := true, from_ := A, to := B, amount := RIGO, gas := 2, price := 10, type := TRX_STAKING, hash := "h2" }

/-- **minDelegatorStake ≥ 2^63 RIGO**: every delegation to an existing delegatee panics. -/
theorem witness_minDelegatorStake :
    let s : St := withB (({ active := { pOK with minDelegatorStake := 2 ^ 63 * RIGO } } : St).setAcct true { addr := A, bal := 100 * RIGO })
    (handleTx s true 1 delegateToB).2.panic = "AmountToPower: voting power is negative" := by decide

/-- three validators of power 10 and the limiter BeginBlock computes for them with `maxValidatorCnt = mc` -/
def vals3 : List Delegatee := [{ delegB with addr := D }, delegB, { delegB with addr := A }]
def pLim (mc : Int) : Params :=
  { pOK with maxValidatorCnt := mc, maxIndividualStakeRatio := 2000, maxUpdatableStakeRatio := 100 }
def sLim (mc : Int) : St :=
  let s0 : St := withB (({ active := pLim mc } : St).setAcct true { addr := A, bal := 100 * RIGO })
  { s0 with lastVals := vals3, limiter := Limiter.reset vals3 mc 2000 100 }
def unstakeB : TxIn :=
  { sigOk := true, from_ := B, to := B, gas := 2, price := 10, type := TRX_UNSTAKING, payload := .unstaking h32 }

/-- **maxValidatorCnt ≤ 0** (0 from genesis, negative from a governance proposal — `mergeParams` treats
    0 as "unset"): with ≥ 3 validators a delegation panics on the index `powerObjs[maxValidatorCnt-1]`. -/
theorem witness_maxValidatorCnt_index :
    (handleTx (sLim 0) true 1 delegateToB).2.panic = "limiter: index out of range (maxValidatorCnt-1 < 0)" ∧
    (handleTx (sLim (-1)) true 1 delegateToB).2.panic = "limiter: index out of range (maxValidatorCnt-1 < 0)" := by
  decide

/-- REPAIRED (d28c085).  Before the repair an unstaking in this state (limiter base power 0) divided by
    zero in `checkUpdatablePowerLimit` ("limiter: division by zero (updatable)"; reproduced on the real
    node with all validators slashed to power 0).  With `_ratio = 0` for a non-positive base the same
    unstaking is now handled without a panic — although `LimiterOK` does not hold here
    (`maxValidatorCnt = 0`; delegations still hit the index panic above): the limiter accepts the
    power decrease (on the evaluating path it answers `ok`), and `handleTx` answers without panic. -/
theorem limiter_base_zero_no_panic :
    let s := (sLim 0).setAcct true { addr := B, bal := 100 * RIGO }
    (s.limiter.base = 0 ∧ s.limiter.maxCnt = 0 ∧ s.lastVals.length = 3) ∧
    (match s.limiter.check B 10 (-10) false with | .ok _ => true | _ => false) = true ∧
    (handleTx s true 1 unstakeB).2.panic = "" := by
  intro s
  refine ⟨by decide, by decide, ?_⟩
  have hfin : ∀ k : String, s.accts.fin[k]? =
      if ledgerKey B = k then some { addr := B, bal := 100 * RIGO }
      else if ledgerKey A = k then some { addr := A, bal := 100 * RIGO } else none := by
    intro k
    show ((({} : KMap Account).insert (ledgerKey A) { addr := A, bal := 100 * RIGO }).insert (ledgerKey B)
      { addr := B, bal := 100 * RIGO })[k]? = _
    rw [kmap_get_insert, kmap_get_insert]; simp
  apply handleTx_noPanic_core (Or.inl (by decide))
  · unfold FeeSane; decide
  · intro k a hk
    have hk' : s.accts.fin[k]? = some a := hk
    rw [hfin] at hk'
    split at hk'
    · simp at hk'; subst hk'; decide
    · split at hk'
      · simp at hk'; subst hk'; decide
      · simp at hk'
  · intro k r hk
    have hk' : ({} : KMap Reward)[k]? = some r := hk
    simp at hk'
  · intro _
    exact AddrOK_insert (AddrOK_insert AddrOK_empty { addr := A, bal := 100 * RIGO }) { addr := B, bal := 100 * RIGO }
  · intro _ hv
    exact absurd hv (not_viaEvm_of_type (by decide) (by decide))
  · intro ac recv _
    rw [typeValidate_unstaking rfl]
    apply validateUnstaking_noPanic_nonneg (by decide) rfl
    intro d st hd hm
    have hd' : (({} : KMap Delegatee).insert (ledgerKey B) delegB)[ledgerKey B]? = some d := hd
    rw [kmap_get_insert] at hd'
    simp at hd'; subst hd'
    simp [delegB] at hm; subst hm; decide

/-- **FeeSane dropped** (governance gas price ≥ 2^192): `gas × price + amount` wraps to 0, the balance
    check passes for an account that owns nothing, and `AmountToPower(amount)` panics. -/
theorem witness_feeSane :
    let p : Nat := 2 ^ 194 - 2 ^ 19 * 5 ^ 18
    let s : St := ({ active := { pOK with gasPrice := p, minTrxGas := 0 } } : St).setAcct true { addr := A, bal := 0 }
    let tx : TxIn := { stakeSelf with amount := 2 ^ 63 * RIGO, gas := 2 ^ 62, price := p }
    p < 2 ^ 255 ∧ (handleTx s true 1 tx).2.panic = "AmountToPower: voting power is negative" := by decide

/-- **SupplyBound dropped** (a genesis balance ≥ 2^63 RIGO): staking it panics. -/
theorem witness_supplyBound :
    let s : St := ({ active := pOK } : St).setAcct true { addr := A, bal := 2 ^ 63 * RIGO + 100 }
    (handleTx s true 1 { stakeSelf with amount := 2 ^ 63 * RIGO }).2.panic = "AmountToPower: voting power is negative" := by
  decide

/-- **delegatee power bound dropped** (total power 2^63 − 1): one more RIGO hits the explicit
    overflow panic of `StakeCtrler.ValidateTrx`. -/
theorem witness_delegateePower :
    let big : Delegatee := { delegB with self := 2 ^ 63 - 1, total := 2 ^ 63 - 1 }
    let s0 : St := ({ active := pOK } : St).setAcct true { addr := A, bal := 100 * RIGO }
    let s : St := { s0 with delegs := { s0.delegs with fin := s0.delegs.fin.insert (ledgerKey B) big } }
    (handleTx s true 1 delegateToB).2.panic = "delegatee power overflow" := by decide

/-- **DecodedWF dropped**: a SETDOC transaction without a SetDoc payload (which `fromProto` never
    builds) would hit the type assertion. -/
theorem witness_decodedWF :
    ¬ DecodedWF { stakeSelf with type := TRX_SETDOC, amount := 0 } ∧
    (handleTx sOK true 1 { stakeSelf with type := TRX_SETDOC, amount := 0 }).2.panic
      = "type assertion: payload is not TrxPayloadSetDoc" := by decide

/-! ### EndBlock: the apply-time parse panic is unreachable (repair b664b04)

A governance-parameter option reaches the node inside a TRX_PROPOSAL — an externally supplied input.  Before the
repair an option that unmarshalled as submitted but not in the form `applyProposals` reads it passed validation and,
once the proposal had won, crashed EVERY node in EndBlock (`unrepaired_witness`).  The repaired `validateProposal`
rejects it; the invariant `C09A.OptsParse` (every option of every stored PROPOSAL_GOVPARAMS proposal — open or
frozen, committed versions, consensus and mempool view — has an apply-time parse, and the recorded major option of
a frozen proposal is one of its options) holds in every reachable state, without any hypothesis on the inputs. -/

/-- the invariant holds after InitChain … -/
theorem optsParse_init (g : Genesis) : C09A.OptsParse (initChain g) := C09A.optsParse_init g

/-- … is kept by EVERY operation from ANY state satisfying it (no phase discipline, any transaction bytes) … -/
theorem optsParse_step {s : St} (hs : C09A.OptsParse s) (op : Op) (hop : op.isInit = false) :
    C09A.OptsParse (step s op).1 := C09A.optsParse_step hs op hop

/-- … hence holds in every reachable state. -/
theorem optsParse_reachable {g : Genesis} {s : St} (h : Reachable g s) : C09A.OptsParse s := C09A.optsParse_reachable h

/-- **apply_never_fails_to_parse.**  "Adversarially chosen inputs never cause a panic", for the governance options
    read back in EndBlock: in every reachable state, at every height, `applyProposals` does not answer with the
    apply-time parse panic.  No hypothesis beyond reachability. -/
theorem apply_never_fails_to_parse {g : Genesis} {s : St} (hr : Reachable g s) (height : Int) :
    applyProposals s height ≠ .panic "EndBlock: option does not unmarshal at apply time" :=
  C09A.apply_never_fails_to_parse hr height

/-- all panic outcomes of `applyProposals` in a reachable state: only "DelFinality of a frozen proposal that is gone"
    is left (a matter of the ABCI call order — two EndBlocks without a Commit —, not of the inputs) -/
theorem applyProposals_panics {g : Genesis} {s : St} (hr : Reachable g s) {height : Int} {e : String}
    (h : applyProposals s height = .panic e) : e = "EndBlock: DelFinality of a frozen proposal that is gone" :=
  C09A.applyProposals_panic_cases (C09A.optsParse_reachable hr).fprops h

/-- **endBlock_parse_panic_unreachable.**  The same for the whole of EndBlock (proposals frozen by this very EndBlock
    included). -/
theorem endBlock_parse_panic_unreachable {g : Genesis} {s : St} (hr : Reachable g s) :
    (endBlock s).2.panic ≠ "EndBlock: option does not unmarshal at apply time" :=
  C09A.endBlock_parse_panic_unreachable hr

/-- every answer EndBlock can give in its panic field in a reachable state ("" = none) -/
theorem endBlock_panics {g : Genesis} {s : St} (hr : Reachable g s) : (endBlock s).2.panic ∈ C09A.endBlockPanics :=
  C09A.endBlock_panic_cases (C09A.optsParse_reachable hr)

/-- **unrepaired_witness.**  What the repair removed: a hand-built state (NOT reachable any more,
    `C09A.sBad_unreachable`) with a frozen PROPOSAL_GOVPARAMS proposal whose major option parses as submitted
    (`parsedV`) but not at apply time (`parsedA = none`) and whose applying height is reached — `applyProposals` and
    `endBlock` answer with the panic. -/
theorem unrepaired_witness :
    C09A.pBad.applying ≤ 7 ∧ (C09A.pBad.major.bind (·.parsedA)) = none ∧ (C09A.pBad.major.bind (·.parsedV)).isSome = true ∧
    applyProposals C09A.sBad 7 = .panic "EndBlock: option does not unmarshal at apply time" ∧
    (endBlock C09A.sBad).2.panic = "EndBlock: option does not unmarshal at apply time" :=
  C09A.unrepaired_witness

example (g : Genesis) : ¬ Reachable g C09A.sBad := C09A.sBad_unreachable g

/-- the repaired check rejects nothing else: a proposal whose options parse both ways (and that meets the other
    conditions) is accepted -/
example := @C09A.validateProposal_accept

/-- non-vacuity: a reachable state (the first blocks of `C10P.exOps`, inside block 3 of a well-phased history) holds a
    two-option PROPOSAL_GOVPARAMS proposal in the consensus view of the open-proposal ledger -/
example : Reachable C10P.exG C09A.sProp ∧ phaseRun .idle C09A.opsProp = some .inBlock ∧
    ∃ p, C09A.sProp.props.fin[ledgerKey "b0"]? = some p ∧ p.optType = PROPOSAL_GOVPARAMS ∧
      p.options.map (·.parsedA) = [some C10P.optA, some C10P.optB] ∧ p.applying = 6 :=
  ⟨C09A.sProp_reachable, C09A.sProp_phase, C09A.sProp_has_proposal⟩

/-- non-vacuity on the frozen side (hand-made `C10P.sApply`: the winning proposal frozen and committed, block 7
    open): the invariant holds and `applyProposals` goes through -/
example : C09A.OptsParse C10P.sApply := C09A.sApply_optsParse

end Rigo.C09
