/-
  C12 — Unbonding.

  "A bonded stake can be released only by a transaction signed by the account that created it; once
   released (or force-released) it carries no voting power, stays locked for the unbonding period in
   force at its release, and is then credited back to its owner exactly once, in full (power x 10^18),
   never earlier and never to anyone else."

  Property theorems only; helpers live in RigoProofs/C11*.lean and RigoProofs/C12*.lean.
  `exec (initChain g) ops` is the state after the operations `ops`; `s.ghost.refunds` is the ghost log
  `(stake hash, owner, power, height)` written by the refund pass of EndBlock (`unfreeze`).

  Hypotheses (decidable; see RigoProps/C11.lean for why each is needed): `GenesisOK g`, `History ops`,
  the ABCI phase discipline `phaseRun .idle ops = some p`, and `UniqueStakeKeys g ops` (successful
  staking transactions have pairwise distinct non-zero 32-byte hashes).  Every statement about an
  unbonding stake is for keys other than the all-zero key shared by the genesis stakes:
  `C11.genesis_stakes_collide` is the proved counter-example for that key (two genesis stakes unbonding
  concurrently: one refund is lost), and `genesis_refund_lost` below restates it in C12's terms.

  How the sentence is covered:
  * only the creator, signed ............ `unstake_owner_only`, `unstake_by_other_fails`
  * released => no voting power ........ `released_has_no_power`, `jailed_has_no_power`, `unbonding_not_bonded`
  * locked for the period in force at release; later governance changes do not move it
                                          `release_sets_refund_height`, `unbonding_stake_untouched_until_refund`
  * credited exactly once, in full, to the owner, not earlier
                                          `refund_when_due`, `refund_at_most_once`, `refund_only_when_due`,
                                          `refund_credits_owner`
  * the whole sentence end to end ........ `unstake_to_refund` (incl. the forced release at self power 0),
                                          `jailed_to_refund`, `refund_credit_at_due_block`, `refund_balance_formula`
    (extra hypothesis `NoEndPanic g ops`: no EndBlock of the history answers with a Go panic — a panic
    crashes the node; the model then skips the refund pass of that block)
  The code iterates the *committed* unbonding ledger, so a stake released in block H with refund height
  r is first examined at the EndBlock of block H+1: it is credited at height max(r, H+1) — `refund_when_due`
  is stated for a stake that is in the committed ledger, which is exactly that.
-/
import RigoProofs.C12EndBlock
import RigoProofs.C12Trace2
import RigoProofs.C12Balance
import RigoProofs.TxSteps
import RigoProofs.C11Cex

namespace Rigo.C12
open Rigo Rigo.Delegatee

/-- "A bonded stake can be released only by a transaction signed by the account that created it":
    a delivered unstaking transaction answered with code 0 passed the signature check, names a stake
    bonded under the target delegatee, and that stake's owner is the sender.  Its whole effect on the
    stake ledgers is `unstakeCore`. -/
theorem unstake_owner_only (s : St) (ht : Int) (tx : TxIn) (hok : (handleTx s true ht tx).2.code = 0)
    (hty : tx.type = TRX_UNSTAKING) :
    tx.sigOk = true ∧ ∃ d hash st, tx.payload = .unstaking hash ∧ s.delegs.fin[ledgerKey tx.to]? = some d ∧
      d.findStake hash = some st ∧ st.owner = tx.from_ ∧
      (handleTx s true ht tx).1.core = unstakeCore s.core d st hash ht :=
  unstake_success hok hty

/-- every other sender — the delegatee, a stranger — fails and changes neither ledger -/
theorem unstake_by_other_fails (s : St) (ht : Int) (tx : TxIn) (d : Delegatee) (hash : Hex) (st : Stake)
    (hty : tx.type = TRX_UNSTAKING) (hp : tx.payload = .unstaking hash)
    (hd : s.delegs.fin[ledgerKey tx.to]? = some d) (hst : d.findStake hash = some st) (hown : st.owner ≠ tx.from_) :
    (handleTx s true ht tx).2.code ≠ 0 ∧
    (handleTx s true ht tx).1.delegs.fin = s.delegs.fin ∧ (handleTx s true ht tx).1.frozen.fin = s.frozen.fin := by
  obtain ⟨h1, h2⟩ := Rigo.unstake_by_other_fails (ht := ht) hty hp hd hst hown
  exact ⟨h1, congrArg Core.dfin h2, congrArg Core.ffin h2⟩

/-- no other transaction type, and no CheckTx, moves a stake: a delivered transaction changes the two
    stake ledgers only if it is a successful staking or unstaking transaction -/
theorem only_stake_txs_touch_stakes (s : St) (ht : Int) (tx : TxIn) (exec_ : Bool)
    (h : exec_ = false ∨ (tx.type ≠ TRX_STAKING ∧ tx.type ≠ TRX_UNSTAKING) ∨ (handleTx s true ht tx).2.code ≠ 0) :
    (handleTx s exec_ ht tx).1.delegs.fin = s.delegs.fin ∧ (handleTx s exec_ ht tx).1.frozen.fin = s.frozen.fin := by
  have key : (handleTx s exec_ ht tx).1.core = s.core := by
    cases exec_ with
    | false => exact handleTx_false_core s ht tx
    | true =>
      rcases handleTx_core s ht tx with ⟨hc, _⟩ | ⟨h0, hty, _⟩ | ⟨h0, hty, _⟩
      · exact hc
      · rcases h with h | h | h
        · cases h
        · exact absurd hty h.1
        · exact absurd h0 h
      · rcases h with h | h | h
        · cases h
        · exact absurd hty h.2
        · exact absurd h0 h
  exact ⟨congrArg Core.dfin key, congrArg Core.ffin key⟩

/-- "once released (or force-released) it carries no voting power" and "stays locked for the unbonding
    period in force at its release": after a successful unstaking at height `ht`, every released stake —
    the named one and, when the validator's self power drops to 0, all remaining ones — sits in the
    unbonding ledger under its key with refund height `ht + lazyRewardBlocks` (the parameters in force);
    the delegatee's total dropped by exactly their powers and its record is still consistent (or it is
    deleted because nothing remains); no other delegatee changed. -/
theorem released_has_no_power (g : Genesis) (hg : GenesisOK g) (ops : List Op) (h : History ops) (ht : Int) (tx : TxIn)
    (hok : (handleTx (exec (initChain g) ops) true ht tx).2.code = 0) (hty : tx.type = TRX_UNSTAKING) :
    let s := exec (initChain g) ops
    let s' := (handleTx s true ht tx).1
    ∃ d hash st, tx.payload = .unstaking hash ∧ s.delegs.fin[ledgerKey tx.to]? = some d ∧ d.findStake hash = some st ∧
      st.owner = tx.from_ ∧
      (∀ x ∈ releasedBy d st hash, ∃ y ∈ releasedBy d st hash, skey y = skey x ∧
        s'.frozen.fin[skey x]? = some { y with refund := ht + s.active.lazyRewardBlocks }) ∧
      (match s'.delegs.fin[ledgerKey tx.to]? with
       | none => d.total - sumPower (releasedBy d st hash) = 0
       | some d' => d'.total = d.total - sumPower (releasedBy d st hash) ∧ DelegOK d' ∧ d'.addr = d.addr ∧
          d'.stakes.Sublist d.stakes ∧ ∀ x ∈ releasedBy d st hash, ∀ y ∈ d'.stakes,
            ((d.stakes.map skey).filter (fun k => decide (k ≠ zeroKey))).Nodup → skey x ≠ zeroKey → skey y ≠ skey x) ∧
      (∀ k : String, k ≠ ledgerKey tx.to → s'.delegs.fin[k]? = s.delegs.fin[k]?) := by
  intro s s'
  obtain ⟨_, d, hash, st, hp, hd, hst, hown, hc⟩ := unstake_success hok hty
  obtain ⟨e1, e2, e3⟩ := unstakeCore_effect (history_delegsOK hg ops h) ht hd hst
  have hf : s'.frozen.fin = (unstakeCore s.core d st hash ht).ffin := congrArg Core.ffin hc
  have hdf : s'.delegs.fin = (unstakeCore s.core d st hash ht).dfin := congrArg Core.dfin hc
  refine ⟨d, hash, st, hp, hd, hst, hown, ?_, ?_, ?_⟩
  · rw [hf]; exact e1
  · rw [hdf]; exact e2
  · rw [hdf]; exact e3

/-- the refund height is fixed at release from the parameters then in force (see also
    `unbonding_stake_untouched_until_refund`: nothing, in particular no later governance change of
    `lazyRewardBlocks`, moves it) -/
theorem release_sets_refund_height (m : KMap Stake) (ss : List Stake) (r : Int) (k : String) (v : Stake)
    (h : (freezeFin m ss r)[k]? = some v) : m[k]? = some v ∨ (v.refund = r ∧ ∃ st ∈ ss, skey st = k ∧ v = { st with refund := r }) := by
  rcases freezeFin_get h with h1 | ⟨st, hst, hk, hv⟩
  · exact Or.inl h1
  · exact Or.inr ⟨by rw [hv], st, hst, hk, hv⟩

/-- jailing (too many missed blocks) force-releases every stake of the validator the same way: all its
    stakes go to the unbonding ledger with refund height `height + lazyRewardBlocks`, the delegatee is
    deleted, hence contributes no power -/
theorem jailed_has_no_power (h : Header) (c : Core) (k : String) (d : Delegatee) (ns : List Int)
    (hd : c.dfin[k]? = some d) (hk : k = ledgerKey d.addr) :
    let c' : Core := { c with dfin := (c.dfin.insert (ledgerKey d.addr) { d with notSigned := ns }).erase (ledgerKey d.addr),
                              ffin := freezeFin c.ffin d.stakes (h.height + c.active.lazyRewardBlocks) }
    BeginAtom h c c' ∧ c'.dfin[k]? = none ∧
    (∀ x ∈ d.stakes, ∃ y ∈ d.stakes, skey y = skey x ∧
      c'.ffin[skey x]? = some { y with refund := h.height + c.active.lazyRewardBlocks }) := by
  refine ⟨BeginAtom.jail k d ns hd, ?_, fun x hx => freezeFin_mem _ _ _ x hx⟩
  subst hk
  simp

/-- "once released it carries no voting power": along well-phased histories with unique staking hashes,
    a stake in the unbonding ledger (non-zero key) is bonded under no delegatee — and delegatee totals are
    sums over bonded stakes only (`C11.deleg_ok`). -/
theorem unbonding_not_bonded (g : Genesis) (hg : GenesisOK g) (ops : List Op) (h : History ops) (p : Phase)
    (hp : phaseRun .idle ops = some p) (hu : UniqueStakeKeys g ops) (k : String) (hk : k ≠ zeroKey)
    (hf : (exec (initChain g) ops).frozen.fin[k]? ≠ none) :
    ¬ ∃ (kd : String) (d : Delegatee) (st : Stake), (exec (initChain g) ops).delegs.fin[kd]? = some d ∧ st ∈ d.stakes ∧ skey st = k := by
  rintro ⟨kd, d, st, h1, h2, h3⟩
  have := (history_life hg ops h p hp hu).excl kd d st h1 h2 (by rw [h3]; exact hk)
  rw [h3] at this
  exact hf this

/-- "stays locked ...": an unbonding stake (non-zero key) is left exactly as it is — same owner, power
    and refund height — by every operation, whatever governance does to the parameters meanwhile, except
    by the EndBlock of a block whose height has reached its refund height; that EndBlock removes it and
    logs exactly one refund entry for it with its own hash, owner and power. -/
theorem unbonding_stake_untouched_until_refund (g : Genesis) (hg : GenesisOK g) (ops : List Op) (op : Op)
    (h : History (ops ++ [op])) (p : Phase) (hp : phaseRun .idle (ops ++ [op]) = some p)
    (hu : UniqueStakeKeys g (ops ++ [op])) (k : String) (st : Stake) (hk : k ≠ zeroKey)
    (hin : (exec (initChain g) ops).frozen.fin[k]? = some st) :
    let s := exec (initChain g) ops
    let s' := exec (initChain g) (ops ++ [op])
    s'.frozen.fin[k]? = some st ∨
    (op = .end_ ∧ ∃ ht, s.blk.map (·.height) = some ht ∧ st.refund ≤ ht ∧ s'.frozen.fin[k]? = none ∧
      ∃ batch, s'.ghost.refunds = s.ghost.refunds ++ batch ∧
        batch.filter (fun e => ledgerKey e.1 == k) = [(st.hash, st.owner, st.power, ht)]) := by
  intro s s'
  obtain ⟨h1, h2, h3⟩ := h.snoc
  rw [phaseRun_snoc] at hp
  cases hq : phaseRun .idle ops with
  | none => rw [hq] at hp; cases hp
  | some q =>
    rw [hq] at hp
    simp only [Option.bind_some] at hp
    have hu0 : UniqueStakeKeys g ops := by
      unfold UniqueStakeKeys usedKeys at hu ⊢
      rw [stakedLog_snoc, List.map_append] at hu
      exact hu.sublist (List.Sublist.cons_cons _ (List.sublist_append_left _ _))
    have hl := history_life hg ops h1 q hq hu0
    have hs : s'.core = (step s op).1.core := by show (exec _ _).core = _; rw [exec_snoc]
    have := (step_core s op h2).ffin_stable hl (history_delegsOK hg ops h1)
      (history_frozenOK g ops (fun o ho => (h1 o ho).1)) hp hk hin
    rcases this with h4 | ⟨h4, ht, h5, h6, h7, h8, h9⟩
    · left; show s'.core.ffin[k]? = some st; rw [hs]; exact h4
    · right
      refine ⟨h4, ht, h5, h6, ?_, refundBatch s.core ht, ?_, h9⟩
      · show s'.core.ffin[k]? = none; rw [hs]; exact h7
      · show s'.core.refunds = _; rw [hs]; exact h8

/-- "and is then credited back ... exactly once ... never earlier": at the EndBlock of a block of height
    `ht` that does not panic, a stake in the *committed* unbonding ledger (non-zero key)
    * with `refund ≤ ht` is removed from the unbonding ledger and logged exactly once in this pass, with its
      own hash, owner, power and this height;
    * with `refund > ht` is neither removed nor logged.
    Since a stake released in block H enters the committed ledger at the Commit of block H, it is credited
    at height max(refund, H+1). -/
theorem refund_when_due (g : Genesis) (hg : GenesisOK g) (ops : List Op) (h : History ops)
    (hp : phaseRun .idle ops = some .inBlock) (hu : UniqueStakeKeys g ops) (b : BlockCtx)
    (hb : (exec (initChain g) ops).blk = some b) (hpanic : (endBlock (exec (initChain g) ops)).2.panic = "")
    (k : String) (st : Stake) (hk : k ≠ zeroKey) (hc : (exec (initChain g) ops).frozen.committed[k]? = some st) :
    let s := exec (initChain g) ops
    let s' := (endBlock s).1
    ∃ batch, s'.ghost.refunds = s.ghost.refunds ++ batch ∧
      (st.refund ≤ b.height → s'.frozen.fin[k]? = none ∧
        batch.filter (fun e => ledgerKey e.1 == k) = [(st.hash, st.owner, st.power, b.height)]) ∧
      (¬ st.refund ≤ b.height → s'.frozen.fin[k]? = some st ∧ batch.filter (fun e => ledgerKey e.1 == k) = []) := by
  intro s s'
  have hl := history_life hg ops h .inBlock hp hu
  have hf := history_frozenOK g ops (fun o ho => (h o ho).1)
  obtain ⟨hcore, _⟩ := endBlock_ok_core hb hpanic
  obtain ⟨a1, a2⟩ := unfreezeCore_stake hl hf b.height hk (show s.core.fcommitted[k]? = some st from hc)
  refine ⟨refundBatch s.core b.height, ?_, ?_, ?_⟩
  · show s'.core.refunds = _; rw [hcore]; exact unfreezeCore_refunds _ _
  · intro hd; obtain ⟨x1, x2⟩ := a1 hd
    exact ⟨by show s'.core.ffin[k]? = none; rw [hcore]; exact x1, x2⟩
  · intro hd; obtain ⟨x1, x2⟩ := a2 hd
    exact ⟨by show s'.core.ffin[k]? = some st; rw [hcore]; exact x1, x2⟩

/-- "exactly once": over a whole history the log holds at most one refund per (non-zero) stake key, and
    a refunded stake is gone from both ledgers for good (its key can never come back:
    `C11.stake_single_location`, part 5) -/
theorem refund_at_most_once (g : Genesis) (hg : GenesisOK g) (ops : List Op) (h : History ops) (p : Phase)
    (hp : phaseRun .idle ops = some p) (hu : UniqueStakeKeys g ops) (k : String) (hk : k ≠ zeroKey) :
    ((exec (initChain g) ops).ghost.refunds.filter (fun e => ledgerKey e.1 == k)).length ≤ 1 :=
  (history_life hg ops h p hp hu).once k hk

/-- "never earlier and never to anyone else": the log grows only in EndBlock, and every entry written
    there is `(hash, owner, power, height)` of a stake that is in the committed unbonding ledger under its
    own key with `refund ≤ height`, `height` being the height of the block being ended -/
theorem refund_only_when_due (g : Genesis) (ops : List Op) (op : Op) (h : ∀ o ∈ ops ++ [op], o.isInit = false) :
    let s := exec (initChain g) ops
    let s' := exec (initChain g) (ops ++ [op])
    s'.ghost.refunds = s.ghost.refunds ∨
    (op = .end_ ∧ ∃ ht batch, s.blk.map (·.height) = some ht ∧ s'.ghost.refunds = s.ghost.refunds ++ batch ∧
      ∀ e ∈ batch, ∃ st, s.frozen.committed[skey st]? = some st ∧ st.refund ≤ ht ∧
        e = (st.hash, st.owner, st.power, ht)) := by
  intro s s'
  have hs : s'.core = (step s op).1.core := by show (exec _ _).core = _; rw [exec_snoc]
  have hf := history_frozenOK g ops (fun o ho => h o (by simp [ho]))
  rcases (step_core s op (h op (by simp))).refunds with h1 | ⟨h1, ht, h2, h3⟩
  · left; show s'.core.refunds = _; rw [hs]; exact h1
  · right
    refine ⟨h1, ht, refundBatch s.core ht, h2, by show s'.core.refunds = _; rw [hs]; exact h3, ?_⟩
    intro e he
    exact mem_refundBatch hf he

/-- "credited back to its owner ... in full (power x 10^18)": the refund pass performs, for exactly the
    stakes it logs and in the same order, one `AcctCtrler.Reward(owner, powerToAmount power)` each
    (`creditAll`), i.e. `balance += uint64(power) x 10^18` on the account stored under the owner's key;
    nothing else touches the account ledger in that pass.  (`powerToAmount p = p x 10^18` for
    `0 ≤ p < 2^64`: `powerToAmount_eq`.) -/
theorem refund_credits_owner (s s' : St) (ht : Int) (h : unfreeze s ht = .ok s') :
    ∃ s'', creditAll s ((s.frozen.committed.toList.filter (due ht)).map (·.2)) = some s'' ∧ s'.accts = s''.accts ∧
      s'.ghost.refunds = s.ghost.refunds ++
        ((s.frozen.committed.toList.filter (due ht)).map (·.2)).map (fun st => (st.hash, st.owner, st.power, ht)) :=
  unfreeze_credit h

theorem powerToAmount_eq (p : Int) (h0 : 0 ≤ p) (h1 : p < 2 ^ 64) : powerToAmount p = p.toNat * 10 ^ 18 := by
  unfold powerToAmount wmul two64 two256 amountPerPower
  have e : (p % ((2 ^ 64 : Nat) : Int)) = p := Int.emod_eq_of_lt h0 (by exact_mod_cast h1)
  rw [e]
  apply Nat.mod_eq_of_lt
  have : p.toNat < 2 ^ 64 := by omega
  calc p.toNat * 1000000000000000000 < 2 ^ 64 * 1000000000000000000 := by omega
    _ < 2 ^ 256 := by decide

/-- an EndBlock that does not panic is `unfreeze` (after the governance and fee steps, which do not touch
    the stake ledgers), so `refund_credits_owner` applies to it -/
theorem endBlock_runs_refund_pass (s : St) (b : BlockCtx) (hb : s.blk = some b) (hp : (endBlock s).2.panic = "") :
    ∃ s3 s4, s3.core = s.core ∧ unfreeze s3 b.height = .ok s4 ∧ (endBlock s).1.accts = s4.accts ∧
      (endBlock s).1.core = s4.core := by
  obtain ⟨hcore, s3, s4, h3, h4, h5⟩ := endBlock_ok_core hb hp
  exact ⟨s3, s4, h3, h4, h5, by rw [hcore, unfreeze_core h4, h3]⟩

/-! ### end to end: from the release to the refund -/

/-- The whole sentence as ONE trace theorem.  Let the history be `pre ++ [deliver tx] ++ post`, well-phased,
    with unique staking hashes and no panicking EndBlock.  Suppose `deliver tx` is an unstaking transaction
    answered with code 0 in the block of height `H = b.height`, with unbonding period
    `L = active.lazyRewardBlocks` in force.  Then the transaction was signed by the owner of the named stake,
    and for every released stake `x` (the named one and, if the validator's self power dropped to 0, every
    force-released one) with a non-zero key, with `M = max (H+L) (H+1)`, the state after the whole history is
    in exactly one of two situations:
    * (a) *unbonding*: no block of height ≥ `M` has ended yet (`lastHeight < M`, and we are not past the
      EndBlock of block `M`); `x` sits in the unbonding ledger, unchanged, with refund height `H+L` —
      whatever governance did to the period meanwhile —, the refund log has no entry for it, it is bonded nowhere;
    * (c) *refunded*: the EndBlock of block `M` has run; the log holds exactly one entry for it,
      `(hash, owner, power, M)` — written by that EndBlock, hence no earlier and to the owner —, and it is in
      neither ledger.  Since this holds for every continuation `post`, no second entry ever appears.
    (b) That EndBlock credits `powerToAmount power` to the owner: `refund_credit_at_due_block`. -/
theorem unstake_to_refund (g : Genesis) (hg : GenesisOK g) (pre post : List Op) (tx : TxIn) (b : BlockCtx) (p : Phase)
    (h : History (pre ++ .deliver tx :: post)) (hp : phaseRun .idle (pre ++ .deliver tx :: post) = some p)
    (hu : UniqueStakeKeys g (pre ++ .deliver tx :: post)) (hnp : NoEndPanic g (pre ++ .deliver tx :: post))
    (hb : (exec (initChain g) pre).blk = some b)
    (hok : (handleTx (exec (initChain g) pre) true b.height tx).2.code = 0) (hty : tx.type = TRX_UNSTAKING) :
    tx.sigOk = true ∧ ∃ d hash st, tx.payload = .unstaking hash ∧
      (exec (initChain g) pre).delegs.fin[ledgerKey tx.to]? = some d ∧ d.findStake hash = some st ∧ st.owner = tx.from_ ∧
      ∀ x ∈ releasedBy d st hash, skey x ≠ zeroKey →
        let s := exec (initChain g) (pre ++ .deliver tx :: post)
        let r := b.height + (exec (initChain g) pre).active.lazyRewardBlocks
        let M := max r (b.height + 1)
        let notBonded := ¬ ∃ (kd : String) (d' : Delegatee) (y : Stake), s.delegs.fin[kd]? = some d' ∧ y ∈ d'.stakes ∧ skey y = skey x
        (s.lastHeight < M ∧ ¬ (p = .ended ∧ s.blk.map (·.height) = some M) ∧
          s.frozen.fin[skey x]? = some { x with refund := r } ∧
          s.ghost.refunds.filter (fun e => ledgerKey e.1 == skey x) = [] ∧ notBonded) ∨
        ((M ≤ s.lastHeight ∨ (p = .ended ∧ s.blk.map (·.height) = some M)) ∧
          s.ghost.refunds.filter (fun e => ledgerKey e.1 == skey x) = [(x.hash, x.owner, x.power, M)] ∧
          s.frozen.fin[skey x]? = none ∧ notBonded) := by
  -- hypotheses restricted to the prefix `pre`
  have hpre : History pre ∧ ∃ q, phaseRun .idle pre = some q ∧ UniqueStakeKeys g pre := by
    have e : pre ++ .deliver tx :: post = pre ++ (.deliver tx :: post) := rfl
    refine ⟨fun o ho => h o (by simp [ho]), ?_⟩
    have hq : ∀ (l : List Op) (q : Phase), phaseRun q l = none ∨ ∃ q', phaseRun q l = some q' := by
      intro l q; cases phaseRun q l <;> simp
    have happ : ∀ (a c : List Op) (q : Phase), phaseRun q (a ++ c) = (phaseRun q a).bind (fun q' => phaseRun q' c) := by
      intro a
      induction a with
      | nil => intro c q; simp [phaseRun]
      | cons x a ih =>
        intro c q
        simp only [List.cons_append, phaseRun]
        cases phaseStep q x with
        | none => rfl
        | some q' => exact ih c q'
    rw [happ] at hp
    cases hq' : phaseRun .idle pre with
    | none => rw [hq'] at hp; cases hp
    | some q =>
      refine ⟨q, rfl, ?_⟩
      unfold UniqueStakeKeys usedKeys at hu ⊢
      rw [stakedLog_append, List.map_append] at hu
      exact hu.sublist (List.Sublist.cons_cons _ (List.sublist_append_left _ _))
  obtain ⟨hist0, q, hq, hu0⟩ := hpre
  obtain ⟨hsig, d, hash, st, hpay, hd, hst, hown, hH, hrel⟩ := unstake_trigger hg pre tx b q hist0 hq hu0 hb hok hty
  refine ⟨hsig, d, hash, st, hpay, hd, hst, hown, ?_⟩
  intro x hx hz
  obtain ⟨hbk, hin⟩ := hrel x hx hz
  have htr := release_to_refund hg pre (.deliver tx) (skey x) _ b.height hz hbk hin hH post h p hp hu hnp
  have hl := history_life hg _ h p hp hu
  have hinv := history_heightInv g _ (fun o ho => (h o ho).1)
  have := htr.summary hl hinv hz (by simp only []; omega)
  exact this

/-- the same for jailing (too many missed blocks): a delegatee `d` that is in the ledger before a BeginBlock
    `hd` and gone after it was jailed by it.  Each of its stakes `x` (non-zero key) was then either forfeited
    by a slashing in that same BeginBlock (`ForfeitPath`), or force-released: it is in the unbonding ledger as
    `xr` — same owner, target, hash, start; power not larger (smaller only if slashed in this block); refund
    height `H + L` — and from there on `xr` goes through exactly the life of `unstake_to_refund`:
    unbonding and untouched until the EndBlock of block `max (H+L) (H+1)`, refunded once there. -/
theorem jailed_to_refund (g : Genesis) (hg : GenesisOK g) (pre post : List Op) (hd : Header) (p : Phase)
    (h : History (pre ++ .begin_ hd :: post)) (hp : phaseRun .idle (pre ++ .begin_ hd :: post) = some p)
    (hu : UniqueStakeKeys g (pre ++ .begin_ hd :: post)) (hnp : NoEndPanic g (pre ++ .begin_ hd :: post))
    (K : String) (d : Delegatee) (x : Stake)
    (hdK : (exec (initChain g) pre).delegs.fin[K]? = some d) (hx : x ∈ d.stakes) (hz : skey x ≠ zeroKey)
    (hgone : (exec (initChain g) (pre ++ [.begin_ hd])).delegs.fin[K]? = none) :
    ForfeitPath hd { (exec (initChain g) pre).core with height := some hd.height }
        (exec (initChain g) (pre ++ [.begin_ hd])).core (skey x) ∨
    ∃ xr, SameOrigin x xr ∧ xr.power ≤ x.power ∧
      xr.refund = hd.height + (exec (initChain g) pre).active.lazyRewardBlocks ∧
      let s := exec (initChain g) (pre ++ .begin_ hd :: post)
      let M := max xr.refund (hd.height + 1)
      let notBonded := ¬ ∃ (kd : String) (d' : Delegatee) (y : Stake), s.delegs.fin[kd]? = some d' ∧ y ∈ d'.stakes ∧ skey y = skey x
      (s.lastHeight < M ∧ ¬ (p = .ended ∧ s.blk.map (·.height) = some M) ∧ s.frozen.fin[skey x]? = some xr ∧
        s.ghost.refunds.filter (fun e => ledgerKey e.1 == skey x) = [] ∧ notBonded) ∨
      ((M ≤ s.lastHeight ∨ (p = .ended ∧ s.blk.map (·.height) = some M)) ∧
        s.ghost.refunds.filter (fun e => ledgerKey e.1 == skey x) = [(xr.hash, xr.owner, xr.power, M)] ∧
        s.frozen.fin[skey x]? = none ∧ notBonded) := by
  have happ : ∀ (a c : List Op) (q : Phase), phaseRun q (a ++ c) = (phaseRun q a).bind (fun q' => phaseRun q' c) := by
    intro a
    induction a with
    | nil => intro c q; simp [phaseRun]
    | cons y a ih =>
      intro c q
      simp only [List.cons_append, phaseRun]
      cases phaseStep q y with
      | none => rfl
      | some q' => exact ih c q'
  have hist0 : History pre := fun o ho => h o (by simp [ho])
  have hp' := hp
  rw [happ] at hp'
  cases hq : phaseRun .idle pre with
  | none => rw [hq] at hp'; cases hp'
  | some q =>
    rw [hq] at hp'
    simp only [Option.bind_some, phaseRun] at hp'
    have hph : phaseStep q (.begin_ hd) = some .inBlock := by
      cases q <;> simp [phaseStep] at hp' ⊢
    have hu0 : UniqueStakeKeys g pre := by
      unfold UniqueStakeKeys usedKeys at hu ⊢
      rw [stakedLog_append, List.map_append] at hu
      exact hu.sublist (List.Sublist.cons_cons _ (List.sublist_append_left _ _))
    obtain ⟨hH, hcase⟩ := jail_trigger hg pre hd q hist0 hq hph hu0 K d x hdK hx hz hgone
    rcases hcase with hf | ⟨xr, hin, ho, hpw, hr⟩
    · exact Or.inl hf
    · right
      refine ⟨xr, ho, hpw, hr, ?_⟩
      have htr := release_to_refund hg pre (.begin_ hd) (skey x) xr hd.height hz ⟨K, d, x, hdK, hx, rfl⟩ hin hH post h p hp hu hnp
      have hl := history_life hg _ h p hp hu
      have hinv := history_heightInv g _ (fun o ho => (h o ho).1)
      exact htr.summary hl hinv hz (by omega)

/-- (b) of the sentence: when a well-phased history stands inside block `M` (before its EndBlock) and the stake
    `x` released in block `H < M` is still tracked as unbonding and is due (`refund ≤ M`), then the EndBlock
    of that block — if it does not panic — performs, among the `Reward` calls of its refund pass and in
    ledger order, exactly one `Reward(x.owner, powerToAmount x.power)` for it (`creditAll`), and logs it. -/
theorem refund_credit_at_due_block (g : Genesis) (hg : GenesisOK g) (ops : List Op) (h : History ops)
    (hp : phaseRun .idle ops = some .inBlock) (hu : UniqueStakeKeys g ops) (b : BlockCtx)
    (hb : (exec (initChain g) ops).blk = some b) (hpanic : (endBlock (exec (initChain g) ops)).2.panic = "")
    (k : String) (x : Stake) (hk : k ≠ zeroKey) (hc : (exec (initChain g) ops).frozen.committed[k]? = some x)
    (hdue : x.refund ≤ b.height) :
    let s := exec (initChain g) ops
    (∃ s3 s4 s'' l1 l2, s3.core = s.core ∧ unfreeze s3 b.height = .ok s4 ∧ (endBlock s).1.accts = s4.accts ∧
      (s3.frozen.committed.toList.filter (due b.height)).map (·.2) = l1 ++ x :: l2 ∧
      creditAll s3 (l1 ++ x :: l2) = some s'' ∧ s4.accts = s''.accts) ∧
    (endBlock s).1.frozen.fin[k]? = none ∧
    (endBlock s).1.ghost.refunds.filter (fun e => ledgerKey e.1 == k) = [(x.hash, x.owner, x.power, b.height)] := by
  intro s
  refine ⟨refund_pass_credits hb hpanic hc hdue, ?_⟩
  obtain ⟨batch, h1, h2, _⟩ := refund_when_due g hg ops h hp hu b hb hpanic k x hk hc
  obtain ⟨h3, h4⟩ := h2 hdue
  refine ⟨h3, ?_⟩
  rw [h1, List.filter_append, h4]
  have hl := history_life hg ops h .inBlock hp hu
  have hin := hl.inblock rfl k x hk (show s.core.fcommitted[k]? = some x from hc)
  have := not_logged_of_ffin hl hk hin
  show (s.core.refunds.filter _) ++ _ = _
  rw [this]; rfl

/-- closed balance formula: for every account key `K`, after an EndBlock (height `b.height`) that does not
    panic, under the no-wrap bound,
      balance after = balance before + (the block's fee sum if `K` is the proposer's key and fees are handed over)
                      + Σ `powerToAmount power` over the committed unbonding stakes that are due
                        (`refund ≤ b.height`) and whose owner's account key is `K`.
    In particular nobody but the owners of due stakes (and the proposer) gains anything in EndBlock.
    The account-key invariant comes from the C04/C05 prover's `AcctInv_reachable`. -/
theorem refund_balance_formula (g : Genesis) (ops : List Op) (h : ∀ o ∈ ops, o.isInit = false) (b : BlockCtx)
    (hb : (exec (initChain g) ops).blk = some b) (hpanic : (endBlock (exec (initChain g) ops)).2.panic = "") (K : String)
    (hlt : balAt (exec (initChain g) ops).accts.fin K + feeTo b K +
      refundsTo K (((exec (initChain g) ops).frozen.committed.toList.filter (due b.height)).map (·.2)) < two256) :
    balAt (endBlock (exec (initChain g) ops)).1.accts.fin K =
      balAt (exec (initChain g) ops).accts.fin K + feeTo b K +
      refundsTo K (((exec (initChain g) ops).frozen.committed.toList.filter (due b.height)).map (·.2)) :=
  endBlock_balance hb hpanic (AcctInv_reachable ⟨ops, h, rfl⟩).1 K hlt

/-! ### the zero-key finding in C12's terms, and non-vacuity -/

/-- Finding: for the all-zero key the property is false.  Both genesis validators release their genesis
    stake (blocks 1 and 2, unbonding period 2); A's stake is never credited back: the log ends with the
    single refund to B, and A's final balance is its genesis balance minus the transaction fee. -/
theorem genesis_refund_lost :
    History Cex.collide ∧ phaseRun .idle Cex.collide = some .idle ∧
    (exec (initChain Cex.G) (Cex.collide.take 4)).frozen.fin.toList.map (fun x => (x.2.owner, x.2.power, x.2.refund))
      = [(Cex.A, 10, 3)] ∧
    (exec (initChain Cex.G) (Cex.collide.take 8)).frozen.fin.toList.map (fun x => (x.2.owner, x.2.power, x.2.refund))
      = [(Cex.B, 10, 4)] ∧
    (exec (initChain Cex.G) Cex.collide).ghost.refunds = [(zeroHash, Cex.B, 10, 4)] ∧
    ((exec (initChain Cex.G) Cex.collide).accts.fin[ledgerKey Cex.A]?).map (·.bal) = some 99 := by
  decide +kernel

/-- non-vacuity: in `Cex.lifecycle` D bonds 2 RIGO to A in block 1 (hash H1); in block 2 B's attempt to
    unstake it fails ("notowner"), D's own attempt succeeds: the stake is unbonding with refund height
    2 + 2 = 4; it is credited at the EndBlock of block 4, once, 2 x 10^18 to D. -/
example :
    GenesisOK Cex.G ∧ History Cex.lifecycle ∧ phaseRun .idle Cex.lifecycle = some .idle ∧
    UniqueStakeKeys Cex.G Cex.lifecycle ∧ Cex.H1 ≠ zeroKey ∧
    ((run (initChain Cex.G) (Cex.lifecycle.take 7)).2.map (fun o => o.tx.map (·.kind)))
      = [none, some "ok", none, none, none, some "notowner", some "ok"] ∧
    (exec (initChain Cex.G) (Cex.lifecycle.take 7)).frozen.fin.toList.map (fun x => (x.1, x.2.owner, x.2.power, x.2.refund))
      = [(Cex.H1, Cex.D, 2, 4)] ∧
    (exec (initChain Cex.G) (Cex.lifecycle.take 12)).ghost.refunds = [] ∧
    (exec (initChain Cex.G) Cex.lifecycle).ghost.refunds = [(Cex.H1, Cex.D, 2, 4)] ∧
    (exec (initChain Cex.G) Cex.lifecycle).frozen.fin.toList = [] ∧
    ((exec (initChain Cex.G) (Cex.lifecycle.take 12)).accts.fin[ledgerKey Cex.D]?).map (·.bal) = some (3 * Cex.rigo - 2) ∧
    ((exec (initChain Cex.G) Cex.lifecycle).accts.fin[ledgerKey Cex.D]?).map (·.bal) = some (5 * Cex.rigo - 2) := by
  decide +kernel

example := refund_at_most_once Cex.G (by decide +kernel) Cex.lifecycle (by decide +kernel) .idle
  (by decide +kernel) (by decide +kernel) Cex.H1 (by decide +kernel)

/-- `refund_when_due` applies to the EndBlock of block 4 of that history (13 operations in: BeginBlock 4) -/
example : phaseRun .idle (Cex.lifecycle.take 13) = some .inBlock ∧
    (endBlock (exec (initChain Cex.G) (Cex.lifecycle.take 13))).2.panic = "" ∧
    ((exec (initChain Cex.G) (Cex.lifecycle.take 13)).frozen.committed[Cex.H1]?).map (·.refund) = some 4 ∧
    (exec (initChain Cex.G) (Cex.lifecycle.take 13)).blk.map (·.height) = some 4 := by
  decide +kernel

/-- `unstake_to_refund` applies to `Cex.lifecycle` (the release is operation 6, in block 2, period 2, so
    `M = 4`); the history ends after block 5, so its conclusion is the "refunded" alternative -/
example : Cex.lifecycle = Cex.lifecycle.take 6 ++ .deliver (Cex.unstakeTx Cex.D Cex.A 1 Cex.H1) :: Cex.lifecycle.drop 7 := rfl

example := unstake_to_refund Cex.G (by decide +kernel) (Cex.lifecycle.take 6) (Cex.lifecycle.drop 7)
  (Cex.unstakeTx Cex.D Cex.A 1 Cex.H1) { height := 2 } .idle
  (by decide +kernel) (by decide +kernel) (by decide +kernel) (by decide +kernel) (by decide +kernel)
  (by decide +kernel) (by decide +kernel)

/-- the balance formula on block 4 of `Cex.lifecycle`: D's balance grows by exactly 2 x 10^18 -/
example : balAt (endBlock (exec (initChain Cex.G) (Cex.lifecycle.take 13))).1.accts.fin (ledgerKey Cex.D) =
    balAt (exec (initChain Cex.G) (Cex.lifecycle.take 13)).accts.fin (ledgerKey Cex.D) + 0 + 2 * Cex.rigo := by
  decide +kernel

end Rigo.C12
