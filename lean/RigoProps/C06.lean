/-
  C06 — Block execution is isolated from CheckTx and queries.

  "The results of delivering a block and the state it commits are the same whatever CheckTx and
   Query calls the node serves before, between or after the block's BeginBlock, DeliverTx, EndBlock
   and Commit calls.  Mempool validation works on a scratch view that is discarded at commit and
   never leaks into consensus state."

  Formalisation (classic unwinding / non-interference).  The *consensus view* of a state is the
  state with its seven mempool views (`Led.chk`) blanked (`eraseChk`); `consEq s₁ s₂` says two
  states have the same consensus view, i.e. agree on: all committed histories (`hist`), all
  consensus views (`fin`), `active`, `pending`, `allDelegs`, `lastVals`, `limiter`, `blk`,
  `lastHeight`, `chainId`, `ghost`.

  * `checkTx_noninterference` — CheckTx never changes the consensus view (output consistency for
    the low observer; holds for EVERY state and transaction, not only reachable ones);
  * `consensus_respects_view` — every consensus operation maps view-equal states to view-equal
    states with EQUAL outcomes (step consistency): it never reads a mempool view;
  * `isolation` — for every schedule at ABCI-call granularity, deleting all CheckTx calls leaves
    the outcome of every remaining call and the final consensus view unchanged;
  * `overlay_discarded_at_commit` — after Commit every mempool view IS the committed state;
  * `query_readonly` — queries are pure functions of the state (no state is returned at all).

  Remark (history).  On the code before the repair commit c20f06e (`fix: CheckTx must not mutate
  the stake limiter used by block execution`) `checkTx_noninterference` was false: `ValidateTrx`
  called the recording `StakeLimiter.CheckLimit` on both paths, so a mempool delegation between
  BeginBlock and DeliverTx changed `limiter` (part of the consensus view) and made a valid
  DeliverTx fail.  The model transcribes the repaired code (`St.limit … exec` passes
  `apply := exec`); `limiter_check_eval_pure` (RigoProofs/C06View.lean, restated below) is the
  lemma that the evaluate-only call returns the limiter it was given.
-/
import RigoProofs.C06Isolation

namespace Rigo
namespace C06

/-- "Mempool validation works on a scratch view … never leaks into consensus state":
    a CheckTx call leaves the consensus view of ANY state unchanged. -/
theorem checkTx_noninterference (s : St) (tx : TxIn) : consEq (checkTx s tx).1 s :=
  checkTx_consEq s tx

/-- The evaluate-only limiter call of the CheckTx path (`EvaluateLimit`) returns the limiter
    unchanged (this is what the repair c20f06e established). -/
theorem limiter_eval_pure {l l' : Limiter} {a : Hex} {t d : Int}
    (h : l.check a t d false = .ok l') : l' = l := limiter_check_eval_pure h

/-- "The results of delivering a block and the state it commits are the same whatever CheckTx …
    calls the node serves": a consensus operation (InitChain, BeginBlock, DeliverTx, EndBlock,
    Commit, restart) run from two states with the same consensus view gives the same outcome
    (transaction result, validator updates, events, panic) and again states with the same
    consensus view. -/
theorem consensus_respects_view {s₁ s₂ : St} (h : consEq s₁ s₂) (op : Op) (hop : Op.isCheck op = false) :
    consEq (step s₁ op).1 (step s₂ op).1 ∧ (step s₁ op).2 = (step s₂ op).2 :=
  step_consEq h op hop

/-- "… before, between or after the block's BeginBlock, DeliverTx, EndBlock and Commit calls":
    for EVERY schedule `ops` (any interleaving, from any state), the run without the CheckTx calls
    yields exactly the outcomes of the consensus calls of the full run, and ends in a state with
    the same consensus view (hence commits the same state: `hist` is part of the view). -/
theorem isolation (s : St) (ops : List Op) :
    consEq (run s ops).1 (run s (eraseChecks ops)).1 ∧
      consOuts ops (run s ops).2 = (run s (eraseChecks ops)).2 :=
  run_isolation ops s s (consEq.refl s)

/-- Corollary in terms of final states: the committed histories, consensus views and height after a
    noisy run equal those after the quiet run. -/
theorem isolation_exec (s : St) (ops : List Op) : consEq (exec s ops) (exec s (eraseChecks ops)) :=
  (isolation s ops).1

/-- "… a scratch view that is discarded at commit": after a Commit (inside a block) every ledger's
    mempool view equals its consensus view, which equals the version just committed. -/
theorem overlay_discarded_at_commit (s : St) (b : BlockCtx) (hb : s.blk = some b) :
    let s' := (commit s).1
    (s'.accts.chk = s'.accts.fin ∧ s'.accts.fin = s'.accts.committed) ∧
    (s'.delegs.chk = s'.delegs.fin ∧ s'.delegs.fin = s'.delegs.committed) ∧
    (s'.frozen.chk = s'.frozen.fin ∧ s'.frozen.fin = s'.frozen.committed) ∧
    (s'.rewards.chk = s'.rewards.fin ∧ s'.rewards.fin = s'.rewards.committed) ∧
    (s'.params.chk = s'.params.fin ∧ s'.params.fin = s'.params.committed) ∧
    (s'.props.chk = s'.props.fin ∧ s'.props.fin = s'.props.committed) ∧
    (s'.fprops.chk = s'.fprops.fin ∧ s'.fprops.fin = s'.fprops.committed) :=
  commit_views s b hb

/-- "… whatever … Query calls the node serves": `query : St → String → Hex → Int → QOut` returns
    no state, so serving it cannot change anything (definitional; queries are therefore not even
    operations of `Op`).  Stated as: a run is the same function of the schedule whether or not
    queries are evaluated in between. -/
theorem query_readonly (s : St) (path : String) (data : Hex) (h : Int) (ops : List Op) :
    (fun (_ : QOut) => run s ops) (query s path data h) = run s ops := rfl

/-! ### non-vacuity -/

/-- `consEq` relates genuinely different states: same consensus view, different mempool view -/
example : ∃ s₁ s₂ : St, consEq s₁ s₂ ∧ s₁.accts.chk["k"]? ≠ s₂.accts.chk["k"]? :=
  ⟨{}, { accts := { chk := (∅ : KMap Account).insert "k" { addr := "a" } } }, rfl, by simp⟩

/-- and it separates states that differ in the consensus view (here: the limiter) -/
example : ¬ consEq ({} : St) { limiter := { isNil := false } } := by
  intro h
  have := congrArg (fun s => s.limiter.isNil) h
  simp [eraseChk] at this

/-- the schedule transformation really removes calls and keeps the consensus calls -/
example : eraseChecks [.check {}, .begin_ { height := 1 }, .check {}, .end_, .commit] =
    [.begin_ { height := 1 }, .end_, .commit] := rfl

end C06
end Rigo
