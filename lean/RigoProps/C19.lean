/-
  C19 — Queries return the committed state at the requested height.

  "A query for an account, delegatee, stakes, total power, reward, proposal or governance parameters
   at height h returns the value that was committed by block h (the latest block when h is 0),
   unaffected by a block that is currently executing or by pending mempool checks.  The answer for
   a past height never changes as the chain grows, and serving queries never alters what is
   subsequently committed."

  Model facts used: `Led.hist[i]` is the map committed by block `i + 1`; `query` reads ledgers only
  through `Led.at?`.  Not modelled: the path "stakes/voting_power" (absent from `query`, answers
  1001 in the model), IAVL proofs, negative heights (IAVL aliases them to "latest"; here
  `qHeight s h = h < 0` also reads the latest version – outside the quantifier of the theorems,
  which take `1 ≤ qHeight s h`).
-/
import RigoProofs.C19Answer
import RigoProofs.C06Isolation

namespace Rigo
namespace C19

/-- Invariant behind everything else: on every reachable state (ANY order of calls, not only
    well-phased ones) each of the seven ledgers has exactly `lastHeight` committed versions, so
    "version h" and "the state committed by block h" coincide. -/
theorem versions_agree {g : Genesis} {s : St} (h : Reachable g s) :
    0 ≤ s.lastHeight ∧
    s.accts.version = s.lastHeight.toNat ∧ s.delegs.version = s.lastHeight.toNat ∧
    s.frozen.version = s.lastHeight.toNat ∧ s.rewards.version = s.lastHeight.toNat ∧
    s.params.version = s.lastHeight.toNat ∧ s.props.version = s.lastHeight.toNat ∧
    s.fprops.version = s.lastHeight.toNat := by
  obtain ⟨h0, h1, h2, h3, h4, h5, h6, h7, _⟩ := versions_agree_of_reachable h
  exact ⟨h0, h1, h2, h3, h4, h5, h6, h7⟩

/-- "… the latest block when h is 0" -/
theorem query_height_zero (s : St) : qHeight s 0 = s.lastHeight := rfl

/-- "A query … at height h returns the value that was committed by block h": for a height
    `1 ≤ h' ≤ lastHeight` (`h' = qHeight s h`, i.e. `lastHeight` for `h = 0`) every path answers
    from `snapshotAt s h'` = the maps `hist[h' - 1]` committed by block `h'`, exactly as `answer`
    specifies: account – missing key renders the zero account; delegatee / reward / proposal /
    gov_params – missing key is error 1000; stakes – the stakes of that owner over all delegatees of
    that version; total_power – sum of the delegatees' total power in that version. -/
theorem query_eq_committed {g : Genesis} {s : St} (hr : Reachable g s) (path : String) (data : Hex) (h : Int)
    (h1 : 1 ≤ qHeight s h) (h2 : qHeight s h ≤ s.lastHeight) :
    query s path data h = answer (snapshotAt s (qHeight s h).toNat) path data :=
  query_eq_answer s (versions_agree_of_reachable hr) path data h h1 h2

/-- a height beyond the latest committed block is an error (code 1000) on every known path -/
theorem query_future_height {g : Genesis} {s : St} (hr : Reachable g s) (path : String) (data : Hex) (h : Int)
    (hb : s.lastHeight < qHeight s h) (hp : path ∈ knownPaths) :
    query s path data h = { code := ErrCodeQuery } :=
  query_beyond s (versions_agree_of_reachable hr) path data h hb hp

/-- an unknown path is error 1001 -/
theorem query_bad_path (s : St) (path : String) (data : Hex) (h : Int) (hp : path ∉ knownPaths) :
    query s path data h = { code := ErrCodeInvalidQueryPath } :=
  query_unknown_path s path data h hp

/-- history is append-only: whatever happens next (blocks, CheckTx, restarts – any `ops` without
    InitChain), every ledger's committed history at `s` is a prefix of the later one -/
theorem history_immutable (s : St) (ops : List Op) (hops : ∀ op ∈ ops, op.isInit = false) :
    s.accts.hist <+: (exec s ops).accts.hist ∧ s.delegs.hist <+: (exec s ops).delegs.hist ∧
    s.frozen.hist <+: (exec s ops).frozen.hist ∧ s.rewards.hist <+: (exec s ops).rewards.hist ∧
    s.params.hist <+: (exec s ops).params.hist ∧ s.props.hist <+: (exec s ops).props.hist ∧
    s.fprops.hist <+: (exec s ops).fprops.hist :=
  exec_prefix ops hops s

/-- "The answer for a past height never changes as the chain grows": for `1 ≤ h ≤ lastHeight` at a
    reachable state `s`, every later state answers `(path, data, h)` exactly as `s` does. -/
theorem query_stable {g : Genesis} {s : St} (hr : Reachable g s) (ops : List Op)
    (hops : ∀ op ∈ ops, op.isInit = false) (path : String) (data : Hex) (h : Int)
    (h1 : 1 ≤ h) (h2 : h ≤ s.lastHeight) :
    query (exec s ops) path data h = query s path data h :=
  query_stable_of_prefix s (exec s ops) (exec_prefix ops hops s) (versions_agree_of_reachable hr) path data h h1 h2

/-- "… unaffected by a block that is currently executing or by pending mempool checks": `query`
    is a function of the committed histories and the last committed height alone – consensus views
    (`fin`), mempool views (`chk`), the block context, pending parameters, limiter, validator lists
    are invisible to it. -/
theorem query_isolated {s₁ s₂ : St} (h : qview s₁ = qview s₂) (path : String) (data : Hex) (n : Int) :
    query s₁ path data n = query s₂ path data n := by
  rw [query_eq_queryV, query_eq_queryV, h]

/-- in particular: while a block executes (BeginBlock, DeliverTx, EndBlock) and while CheckTx calls
    are served, all answers stay what they were at the last commit -/
theorem query_unaffected_by_open_block (s : St) (op : Op)
    (hop : match op with | .begin_ _ | .deliver _ | .check _ | .end_ => True | _ => False)
    (path : String) (data : Hex) (n : Int) :
    query (step s op).1 path data n = query s path data n := by
  apply query_isolated
  have hq : ∀ s₁ s₂ : St, frame s₁ = frame s₂ → qview s₁ = qview s₂ := by
    intro s₁ s₂ hf
    simp only [frame, Frame.mk.injEq] at hf
    simp only [qview, QView.mk.injEq]
    exact ⟨hf.1, hf.2.1, hf.2.2.2.1, hf.2.2.2.2.1, hf.2.2.2.2.2.1, hf.2.2.2.2.2.2.1, hf.2.2.2.2.2.2.2.1⟩
  cases op with
  | begin_ hd =>
    show qview (beginBlock s hd).1 = _
    rcases beginBlock_frame s hd with hf | ⟨_, hf⟩
    · exact hq _ _ hf
    · simp only [frame, Frame.mk.injEq] at hf
      simp only [qview, QView.mk.injEq]
      exact ⟨hf.1, hf.2.1, hf.2.2.2.1, hf.2.2.2.2.1, hf.2.2.2.2.2.1, hf.2.2.2.2.2.2.1, hf.2.2.2.2.2.2.2.1⟩
  | deliver tx => exact hq _ _ (deliverTx_frame s tx)
  | check tx => exact hq _ _ (checkTx_frame s tx)
  | end_ => exact hq _ _ (endBlock_frame s)
  | init g => exact hop.elim
  | commit => exact hop.elim
  | restart => exact hop.elim

/-- "… serving queries never alters what is subsequently committed": `query` returns a `QOut` and
    no state – it is not an operation of the state machine at all (definitional), so any run is the
    same with or without queries evaluated in between (see also `C06.query_readonly`). -/
theorem query_readonly (s : St) (path : String) (data : Hex) (h : Int) (ops : List Op) :
    (fun (_ : QOut) => run s ops) (query s path data h) = run s ops := rfl

/-! ### non-vacuity -/

/-- a state with two committed versions of the account ledger: the query at height 1 reads
    version 1, the query at height 0 reads the latest (version 2), height 3 is an error -/
def sEx : St :=
  { accts := { hist := [(∅ : KMap Account).insert (ledgerKey "aa") { addr := "aa", bal := 5 },
                        (∅ : KMap Account).insert (ledgerKey "aa") { addr := "aa", bal := 7 }] },
    delegs := { hist := [∅, ∅] }, frozen := { hist := [∅, ∅] }, rewards := { hist := [∅, ∅] },
    params := { hist := [∅, ∅] }, props := { hist := [∅, ∅] }, fprops := { hist := [∅, ∅] },
    lastHeight := 2 }

example : VersionsAgree sEx := by simp [VersionsAgree, FrameOK, frame, sEx]
example : 1 ≤ qHeight sEx 0 ∧ qHeight sEx 0 ≤ sEx.lastHeight := by decide
example : 1 ≤ qHeight sEx 1 ∧ qHeight sEx 1 ≤ sEx.lastHeight := by decide
example : (query sEx "account" "aa" 3).code = 1000 := by
  simp [query, qHeight, sEx, Led.at?, ErrCodeQuery]

/-- reachable states exist with `lastHeight ≥ 1`-style hypotheses being decidable facts about them -/
example (g : Genesis) : Reachable g (initChain g) := Reachable.start g

end C19
end Rigo
