/-
  C02 — Conservation of value.

  "After every block, the sum of all account balances plus all bonded stake plus all unbonding stake
  equals the genesis total plus rewards withdrawn so far minus stake destroyed by slashing (and minus
  fees of blocks that had no proposer).  No transaction, contract call, refund, fee payment or
  block-level rule creates or destroys value in any other way, and no balance ever wraps around."

  Value function (RigoProofs/C02Defs.lean): `total s = Σ balances + feeInFlight s +
  10^18 · (Σ bonded stake powers + Σ unbonding stake powers)` over the consensus view.
  Burn terms: `s.ghost.feeBurn` (fees of proposer-less blocks, maintained by the model),
  `slashBurnRun` (Σ over BeginBlocks of the power destroyed by `doSlash`, recomputed from the
  delegatees hit by evidence), `evmBurnRun` (value that left native balances inside a successful EVM
  transaction and was neither fee nor credit; DEFINED as that difference, `EvmOracleOK` = it is ≥ 0).

  RESULT: the full statement is FALSE for the model (and the code): see `conservation_statement_false`.
  It holds (`conservation_partial`) for histories in which every `frozen.set` hits a free key
  (`UnstakeFresh`, `JailFresh` inside `RunOK`).
-/
import RigoProofs.C02Counter
import RigoProofs.C02Witness

namespace Rigo.C02

open Rigo

/-- **Main theorem (partial).**  "After every block … equals the genesis total plus rewards withdrawn
    minus stake destroyed by slashing (and minus fees of blocks that had no proposer)", for every
    well-phased history (BeginBlock, DeliverTx*, EndBlock, Commit; CheckTx anywhere; restarts between
    blocks) ending at a block boundary and satisfying `RunOK`: no step panics (`BeginCompletes`,
    `EndCompletes`), `SupplyBound` (total < 2^63·10^18) before every DeliverTx/EndBlock, `SlashSane`
    (slash ratio is a percentage) at every BeginBlock, `EvmOracleOK` for every contract transaction, no
    restart before the first commit, and — the hypothesis that excludes the genuine defect —
    `UnstakeFresh`/`JailFresh`: every stake moved into the unbonding ledger lands on a free key. -/
theorem conservation_partial (g : Genesis) (hg : GenesisSane g) (ops : List Op)
    (hph : phaseRun .idle ops = some .idle) (hok : RunOK (initChain g) ops) :
    total (exec (initChain g) ops) + slashBurnRun (initChain g) ops + evmBurnRun (initChain g) ops +
        (exec (initChain g) ops).ghost.feeBurn =
      genesisTotal g + (exec (initChain g) ops).ghost.withdrawn :=
  (conservation_run g hg ops hph hok).2

/-- **Per-operation form.**  "No transaction, contract call, refund, fee payment or block-level rule
    creates or destroys value in any other way": for every state satisfying the invariant `Inv p` and
    every operation allowed in phase `p` satisfying `StepOK`, the invariant is kept and the conserved
    value changes exactly by +withdrawn reward − slash burn − EVM burn − fee burn.  (`valueAt` is `total`
    up to EndBlock and `holdings` = `total` without the already handed-over fee sum between EndBlock
    and Commit.)  Covers transfer, staking/delegating, unstaking incl. forced unbonding, reward
    withdrawal, set-doc, proposal, voting, contract calls (via the oracle), failed transactions,
    CheckTx, slashing, jailing, reward issuing, fee hand-over, refunds, commit and restart. -/
theorem conservation_step {p p' : Phase} {s : St} {op : Op} (hinv : Inv p s)
    (hph : phaseStep p op = some p') (hok : StepOK s op) :
    Inv p' (step s op).1 ∧
    valueAt p' (step s op).1 + slashBurnStep s op + evmBurnStep s op +
        (((step s op).1.ghost.feeBurn : Int) - s.ghost.feeBurn) =
      valueAt p s + (((step s op).1.ghost.withdrawn : Int) - s.ghost.withdrawn) :=
  step_ok hinv hph hok

/-- the invariant holds after `InitChain` and at every block boundary of an admissible history -/
theorem invariant_at_boundary (g : Genesis) (hg : GenesisSane g) (ops : List Op)
    (hph : phaseRun .idle ops = some .idle) (hok : RunOK (initChain g) ops) :
    Inv .idle (exec (initChain g) ops) :=
  (conservation_run g hg ops hph hok).1

/-- "A failed transaction …": a delivered transaction that fails (code ≠ 0, including every
    validation error, execution error, reverted contract call and caught panic) changes neither the
    holdings nor the withdrawn counter (it may create an empty receiver account). -/
theorem failed_tx_conserves {s s' : St} {ht : Int} {tx : TxIn} {o : TxOut}
    (h : handleTx s true ht tx = (s', o)) (hi : Inv0 s)
    (hb : holdings s < ((two63 * amountPerPower : Nat) : Int)) (hf : UnstakeFresh s tx) (hc : o.code ≠ 0) :
    holdings s' = holdings s ∧ s'.ghost.withdrawn = s.ghost.withdrawn := by
  obtain ⟨_, _, _, eff⟩ := handleTx_ok h hi hb hf
  cases eff with
  | failed _ hold wd => exact ⟨hold, wd⟩
  | evmOk hc' => exact absurd hc' hc
  | native hc' => exact absurd hc' hc

/-- CheckTx never touches the conserved quantity. -/
theorem checkTx_conserves {p : Phase} {s : St} (tx : TxIn) (hinv : Inv p s) :
    total (checkTx s tx).1 = total s := (check_ok tx hinv).2.2.1

/-- "… and no balance ever wraps around": in every state satisfying the structural invariant and
    `SupplyBound`, every balance, the fee sum in flight and 10^18 × every stake power are bounded by
    `total s < 2^63·10^18 < 2^255`; the helper lemmas `subBalance_exact` / `addBalance_exact` /
    `powerToAmount_exact` / `amountToPower_exact` (RigoProofs/C02Basic, C02TxB) show that under these
    bounds every `wadd`/`wsub`/`wmul` executed by `step` equals the unbounded result (they are the
    only way the step proofs above get through). -/
theorem balance_bounded {s : St} (hi : Inv0 s) (hb : SupplyBound s) {k : String} {a : Account}
    (h : s.accts.fin[k]? = some a) : (a.bal : Int) < ((two63 * amountPerPower : Nat) : Int) := by
  have h1 := bal_le_sumBal s.accts.fin h
  have h2 := sumBal_le_holdings hi
  have h3 := feeInFlight_nonneg s
  unfold SupplyBound total at hb
  omega

/-- the generic sum lemma (reusable): inserting into a ledger view replaces the old contribution -/
theorem sum_insert {α : Type} (f : α → Int) (m : KMap α) (k : String) (v : α) :
    msum f (m.insert k v) = msum f m - fAt f m k + f v := msum_insert f m k v

/-! ### the full statement is false -/

/-- The property as asked, without the `UniqueFrozenKeys` hypotheses (`runOK0`: no step panics,
    supply bound, sane slash ratio, EVM oracle OK, no restart before the first commit). -/
def conservation_statement : Prop :=
  ∀ (g : Genesis) (ops : List Op), GenesisSane g → phaseRun .idle ops = some .idle →
    runOK0 (initChain g) ops = true →
    total (exec (initChain g) ops) + slashBurnRun (initChain g) ops + evmBurnRun (initChain g) ops +
        (exec (initChain g) ops).ghost.feeBurn =
      genesisTotal g + (exec (initChain g) ops).ghost.withdrawn

/-- **Counter-example** (candidate defect of rigo-go, reproduced by the model): genesis with two
    validators A, B (power 10 each, 100 units of balance each, unbonding period 10 blocks).  Block 1:
    A unstakes its genesis stake; block 2: B unstakes its genesis stake.  Both transactions succeed.
    Both genesis stakes carry the all-zero tx hash and the unbonding ledger is keyed by tx hash, so B's
    stake overwrites A's: `total` is 20·10^18+200 at genesis, 20·10^18+199 after block 1 and
    10·10^18+198 after block 2, with only 2 units of fee burnt — 10·10^18 have vanished. -/
theorem conservation_statement_false : ¬ conservation_statement := by
  intro h
  have e := h Cex.G Cex.H2 Cex.sane Cex.phases Cex.run_ok0
  rw [Cex.after_block2, Cex.burns.1, Cex.burns.2.1, Cex.burns.2.2.1, Cex.burns.2.2.2, Cex.genesis_total] at e
  omega

/-- the size of the loss in the counter-example: exactly one stake (10 power units) -/
example : total (exec (initChain Cex.G) Cex.H1) - total (exec (initChain Cex.G) Cex.H2) =
    (amountPerPower : Int) * 10 + 1 := by
  rw [Cex.after_block1, Cex.after_block2]; decide

/-! ### non-vacuity -/

/-- the genesis hypothesis is satisfiable on a non-trivial genesis -/
example : GenesisSane Cex.G := Cex.sane

/-- the decidable side conditions (everything except `UniqueFrozenKeys`) hold along the two-block
    history of the counter-example, in which two transactions succeed -/
example : runOK0 (initChain Cex.G) Cex.H2 = true := Cex.run_ok0

/-- `RunOK` is satisfiable on a history with a CheckTx of an unstaking transaction -/
example : phaseRun .idle [.check (Cex.unstakeTx Cex.addrA)] = some .idle ∧
    RunOK (initChain Cex.G) [.check (Cex.unstakeTx Cex.addrA)] := ⟨rfl, trivial, trivial⟩

/-- the invariant and the supply bound hold in the (non-trivial) genesis state -/
example : Inv .idle (initChain Cex.G) ∧ SupplyBound (initChain Cex.G) :=
  ⟨init_inv _ Cex.sane, by
    show total (initChain Cex.G) < _
    have := Cex.genesis_total; unfold genesisTotal at this; rw [this]; decide⟩

/-! ### deepening: burns are non-negative, `SupplyBound` derived, no wrap-around, committed versions -/

/-- "stake destroyed by slashing" (and the EVM burn) are genuine burns: never negative along an
    admissible history.  Uses the reachable invariant that every bonded/unbonding stake power is in
    [0, 2^63) (`Inv0`, proved inductive in `step_ok`) and `SlashSane`. -/
theorem burns_nonneg_run (g : Genesis) (hg : GenesisSane g) (ops : List Op) (p : Phase)
    (hph : phaseRun .idle ops = some p) (hok : RunOK (initChain g) ops) :
    0 ≤ slashBurnRun (initChain g) ops ∧ 0 ≤ evmBurnRun (initChain g) ops :=
  burns_nonneg ops .idle p (initChain g) (init_inv g hg) hph hok

/-- hence value is never created: at every block boundary `total ≤ genesis total + withdrawn rewards` -/
theorem total_le_genesis_plus_withdrawn (g : Genesis) (hg : GenesisSane g) (ops : List Op)
    (hph : phaseRun .idle ops = some .idle) (hok : RunOK (initChain g) ops) :
    total (exec (initChain g) ops) ≤ genesisTotal g + (exec (initChain g) ops).ghost.withdrawn := by
  have e := conservation_partial g hg ops hph hok
  obtain ⟨b1, b2⟩ := burns_nonneg_run g hg ops .idle hph hok
  omega

/-- **`SupplyBound` is derived, not assumed**: if `genesisTotal g + W < 2^63·10^18` where `W` bounds the
    rewards withdrawn at any time of the history (`RunOK1 W` = the side conditions of `RunOK` WITHOUT
    `SupplyBound`, plus `withdrawn ≤ W` at every state), then `SupplyBound` holds before every step
    (so `RunOK` holds and all theorems above apply). -/
theorem supplyBound_derived (g : Genesis) (hg : GenesisSane g) (W : Int)
    (hB : genesisTotal g + W < ((two63 * amountPerPower : Nat) : Int)) (ops : List Op) (p : Phase)
    (hph : phaseRun .idle ops = some p) (hok : RunOK1 W (initChain g) ops) :
    RunOK (initChain g) ops :=
  (supply_bound_derived g hg W hB ops p hph hok).1

/-- **no_wrap** (state form, ONE theorem): at every state reachable through a well-phased history (ending
    in ANY phase `p`) whose steps satisfy `RunOK1 W` with `genesisTotal g + W < 2^63·10^18`:
    every balance, the fee sum in flight, and 10^18 × (bonded + unbonding power) are below
    2^63·10^18 (< 2^123 ≪ 2^255), and every stake power is in [0, 2^63).  Under exactly these bounds the
    helper lemmas `subBalance_exact`, `addBalance_exact`, `powerToAmount_exact`, `amountToPower_exact`
    and the fee-sum step in `deliver_ok` show each `wadd`/`wsub`/`wmul` that `step` executes on balances,
    fee sum and stake amounts equals its unbounded result.  (Reward records are outside `total`; see
    `reward_no_wrap_statement`.) -/
theorem no_wrap (g : Genesis) (hg : GenesisSane g) (W : Int)
    (hB : genesisTotal g + W < ((two63 * amountPerPower : Nat) : Int)) (ops : List Op) (p : Phase)
    (hph : phaseRun .idle ops = some p) (hok : RunOK1 W (initChain g) ops) :
    NoWrap p (exec (initChain g) ops) := by
  obtain ⟨_, i, v, w⟩ := supply_bound_derived g hg W hB ops p hph hok
  exact noWrap_of i (by omega)

theorem bound_lt_two255 : ((two63 * amountPerPower : Nat) : Int) < (two255 : Int) := by decide

/-- NOT proved (outside the conserved quantity): reward records never wrap.  `Reward.issue` adds
    `power × rewardPerPower` with `wadd`/`wmul`; bounding `cumulated` needs a bound on total issuance
    (`rewardPerPower` × Σ power × number of blocks), which is a property of C13's issuance ledger. -/
def reward_no_wrap_statement : Prop :=
  ∀ (g : Genesis) (ops : List Op) (p : Phase), GenesisSane g → phaseRun .idle ops = some p →
    RunOK (initChain g) ops →
    ∀ (k : String) (r : Reward), (exec (initChain g) ops).rewards.fin[k]? = some r → r.cumulated < two255

/-- **conservation_committed**: the same equation over the last COMMITTED versions of the three ledgers
    (`hist.getLast?`), at every block boundary after the first commit (there the consensus view equals
    the committed version — `IdleSync`, part of the invariant `Inv .idle`). -/
theorem conservation_committed (g : Genesis) (hg : GenesisSane g) (ops : List Op)
    (hph : phaseRun .idle ops = some .idle) (hok : RunOK (initChain g) ops)
    (hc : (exec (initChain g) ops).accts.hist ≠ []) :
    totalCommitted (exec (initChain g) ops) + slashBurnRun (initChain g) ops + evmBurnRun (initChain g) ops +
        (exec (initChain g) ops).ghost.feeBurn =
      genesisTotal g + (exec (initChain g) ops).ghost.withdrawn := by
  obtain ⟨i, e⟩ := conservation_run g hg ops hph hok
  rw [totalCommitted_eq i hc]; exact e

/-! ### a non-trivial witness: all hypotheses hold on a concrete history -/

/-- `RunOK` (incl. `UniqueFrozenKeys`, derived `SupplyBound`) holds on the four-block history `Wit.HW`:
    transfer, CheckTx + DeliverTx of a delegation, a failing transaction, a reward withdrawal, an
    unstaking, a restart, the refund of the unbonded stake (checked by `decide +kernel` via `runOK1B`). -/
theorem witness_runOK : RunOK (initChain Wit.GW) Wit.HW :=
  supplyBound_derived Wit.GW Wit.sane 7 (by rw [Wit.genesis_total]; decide) Wit.HW .idle Wit.phases
    (runOK1B_ok 7 _ _ Wit.checker)

/-- `conservation_partial` applies to it … -/
example : total (exec (initChain Wit.GW) Wit.HW) + slashBurnRun (initChain Wit.GW) Wit.HW +
    evmBurnRun (initChain Wit.GW) Wit.HW + (exec (initChain Wit.GW) Wit.HW).ghost.feeBurn =
    genesisTotal Wit.GW + (exec (initChain Wit.GW) Wit.HW).ghost.withdrawn :=
  conservation_partial Wit.GW Wit.sane Wit.HW Wit.phases witness_runOK

/-- … and agrees with direct evaluation: 25·10^18+100 at genesis, 7 withdrawn, 3 fee units burnt
    (block 2 had no proposer), the refund of 1 power unit to C happened at height 3 -/
example : total (exec (initChain Wit.GW) Wit.HW) = genesisTotal Wit.GW + 7 - 3 ∧
    (exec (initChain Wit.GW) Wit.HW).ghost.refunds = [(Wit.hashS, Wit.addrC, 1, 3)] := by
  rw [Wit.final_total, Wit.genesis_total]; exact ⟨by decide, Wit.refund_happened⟩

/-- no wrap-around on the witness -/
example : NoWrap .idle (exec (initChain Wit.GW) Wit.HW) :=
  no_wrap Wit.GW Wit.sane 7 (by rw [Wit.genesis_total]; decide) Wit.HW .idle Wit.phases (runOK1B_ok 7 _ _ Wit.checker)

/-! ### second counter-example: jailing -/

/-- **Counter-example 2** (same root cause through `freezeAll` in `processVote`): two genesis validators
    miss the same block (`signedBlocksWindow = minSignedBlocks = 1`); BeginBlock of block 2 jails both,
    moving ALL their stakes into the unbonding ledger keyed by the all-zero hash: B's stake overwrites
    A's, 10·10^18 vanish inside one BeginBlock with no transaction at all. -/
theorem conservation_statement_false_jailing :
    total (exec (initChain Wit.GJ) Wit.HJ) + slashBurnRun (initChain Wit.GJ) Wit.HJ +
      evmBurnRun (initChain Wit.GJ) Wit.HJ + (exec (initChain Wit.GJ) Wit.HJ).ghost.feeBurn + (amountPerPower : Int) * 10 =
    genesisTotal Wit.GJ + (exec (initChain Wit.GJ) Wit.HJ).ghost.withdrawn ∧
    GenesisSane Wit.GJ ∧ phaseRun .idle Wit.HJ = some .idle ∧ runOK0 (initChain Wit.GJ) Wit.HJ = true := by
  refine ⟨?_, Wit.j_sane, Wit.j_phases, Wit.j_run_ok0⟩
  rw [Wit.j_final_total, Wit.j_burns.1, Wit.j_burns.2.1, Wit.j_burns.2.2.1, Wit.j_burns.2.2.2, Wit.j_genesis_total]
  decide

end Rigo.C02
