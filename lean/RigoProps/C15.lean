/-
  C15 — Governance.
  "Governance parameters change only through a proposal submitted by a current validator, voted on
   exclusively by the validators recorded at submission with the power they had then (each counted once,
   the latest vote replacing earlier ones, only inside the voting window), and only if, when voting
   closed, one option held at least two thirds (rounded down to whole power units) of the proposal's
   recorded voting power. The winning parameters take effect no earlier than the proposal's applying
   height, fields the option leaves unset keep their previous values, and the active parameters always
   equal those returned by the governance query."
-/
import RigoProofs.C15Merge
import RigoProofs.C15Punish
import RigoProofs.C15Snapshot
import RigoProofs.C15Majority
import RigoProofs.C15Reach3
import RigoProofs.C15Overflow

namespace Rigo.C15
open Rigo Rigo.Render

/-! ### "fields the option leaves unset keep their previous values" -/

/-- **merge_unset_keeps**: for each of the 19 fields, a zero / nil field of the option keeps the old
    value, any other value replaces it -/
theorem merge_unset_keeps (old : Params) (n : POpt) :
    KeepI old.maxValidatorCnt n.maxValidatorCnt (mergeParams old n).maxValidatorCnt ∧
    KeepB old.minValidatorStake n.minValidatorStake (mergeParams old n).minValidatorStake ∧
    KeepB old.minDelegatorStake n.minDelegatorStake (mergeParams old n).minDelegatorStake ∧
    KeepB old.rewardPerPower n.rewardPerPower (mergeParams old n).rewardPerPower ∧
    KeepI old.lazyRewardBlocks n.lazyRewardBlocks (mergeParams old n).lazyRewardBlocks ∧
    KeepI old.lazyApplyingBlocks n.lazyApplyingBlocks (mergeParams old n).lazyApplyingBlocks ∧
    KeepB old.gasPrice n.gasPrice (mergeParams old n).gasPrice ∧
    KeepU old.minTrxGas n.minTrxGas (mergeParams old n).minTrxGas ∧
    KeepU old.maxTrxGas n.maxTrxGas (mergeParams old n).maxTrxGas ∧
    KeepU old.maxBlockGas n.maxBlockGas (mergeParams old n).maxBlockGas ∧
    KeepI old.minVotingPeriodBlocks n.minVotingPeriodBlocks (mergeParams old n).minVotingPeriodBlocks ∧
    KeepI old.maxVotingPeriodBlocks n.maxVotingPeriodBlocks (mergeParams old n).maxVotingPeriodBlocks ∧
    KeepI old.minSelfStakeRatio n.minSelfStakeRatio (mergeParams old n).minSelfStakeRatio ∧
    KeepI old.maxUpdatableStakeRatio n.maxUpdatableStakeRatio (mergeParams old n).maxUpdatableStakeRatio ∧
    KeepI old.maxIndividualStakeRatio n.maxIndividualStakeRatio (mergeParams old n).maxIndividualStakeRatio ∧
    KeepI old.slashRatio n.slashRatio (mergeParams old n).slashRatio ∧
    KeepI old.signedBlocksWindow n.signedBlocksWindow (mergeParams old n).signedBlocksWindow ∧
    KeepI old.minSignedBlocks n.minSignedBlocks (mergeParams old n).minSignedBlocks ∧
    KeepI old.version n.version (mergeParams old n).version :=
  mergeParams_fields old n

/-! ### "submitted by a current validator … the validators recorded at submission with the power they had then" -/

/-- **only_validators_propose** + **voters_are_snapshot**: a TRX_PROPOSAL answered with code 0 (on either
    path) was sent by a member of `lastVals` to the zero address, starts after the current height, has a
    period within [min, max], applying ≥ end + lazyApplyingBlocks, at least one option, all options
    parsing for the GOVPARAMS type; the stored proposal is `snapshotProposal`: voters = `lastVals`
    addresses with their total powers (sorted by address), total = Σ, majority = ⌊2·total/3⌋.
    Hypothesis `hfit` (`ProposalHeightsFit`, RigoProofs/WrapI64.lean; decidable; true of every transaction that is
    not a proposal): the heights do not overflow — `start`, `period` and the parameter `lazyApplyingBlocks` are
    int64 values (the Go types guarantee this, the model carries unbounded integers) and
    `start + period + lazyApplyingBlocks < 2^63`.  It is needed for the conjunct "applying ≥ end +
    lazyApplyingBlocks" ONLY: `GovCtrler.ValidateTrx` computes `end + LazyApplyingBlocks()` in int64 without an
    overflow guard and the model follows the code (`proposal_overflow_accepted`); every other conjunct holds without
    it (`only_validators_propose_int64`). -/
theorem only_validators_propose {s : St} {e : Bool} {h : Int} {tx : TxIn} (htype : tx.type = TRX_PROPOSAL)
    (hc : (handleTx s e h tx).2.code = 0) (hfit : ProposalHeightsFit s tx) :
    ∃ msg start period applying optType opts, ProposalAccepted s e h tx msg start period applying optType opts ∧
      (handleTx s e h tx).1.props = s.props.set e (ledgerKey tx.hash) (snapshotProposal s tx start period applying optType opts) :=
  proposal_success htype hc hfit

/-- the same WITHOUT any hypothesis, the height tests as the Go code performs them (`ProposalAcceptedW.heights`:
    `start ≤ end`, `end ≤ applying`, `end + lazyApplyingBlocks ≤ applying` with both sums in int64) -/
theorem only_validators_propose_int64 {s : St} {e : Bool} {h : Int} {tx : TxIn} (htype : tx.type = TRX_PROPOSAL)
    (hc : (handleTx s e h tx).2.code = 0) :
    ∃ msg start period applying optType opts, ProposalAcceptedW s e h tx msg start period applying optType opts ∧
      (handleTx s e h tx).1.props = s.props.set e (ledgerKey tx.hash) (snapshotProposal s tx start period applying optType opts) :=
  proposal_successW htype hc

/-- **proposal_overflow_accepted** — why `only_validators_propose` needs `hfit`.  A reachable state (`ovS3`: genesis
    `ovG` = voting periods of exactly 10 blocks, `lazyApplyingBlocks` = 10; two empty blocks, BeginBlock 3) in which
    the validator A submits start = 2^63 − 11, period = 10, applying = 2^63 − 1.  `end` = 2^63 − 1 is an int64 value,
    `end + lazyApplyingBlocks` wraps to −2^63 + 9: the transaction is answered with code 0 (as the Go code does; the
    former unbounded model function refused it) and the proposal is stored — also in the reachable state `ovSP`
    after DeliverTx — with `applying < start + period + lazyApplyingBlocks` on unbounded integers.  The proposal can
    never open for voting, so nothing else goes wrong. -/
theorem proposal_overflow_accepted :
    Reachable ovG ovS3 ∧ ovS3.blk = some { height := 3 } ∧ ovS3.active.lazyApplyingBlocks = 10 ∧
    ovTx.type = TRX_PROPOSAL ∧
    ovTx.payload = .proposal "" 9223372036854775797 10 9223372036854775807 PROPOSAL_GOVPARAMS [C10P.voA, C10P.voB] ∧
    ¬ ProposalHeightsFit ovS3 ovTx ∧
    (handleTx ovS3 true 3 ovTx).2.code = 0 ∧
    validateProposalOld (ovS3.findOrNewAcct true ovTx.to).1 true 3 ovTx = .error (.err "payloadparams") ∧
    Reachable ovG ovSP ∧
    ∃ p, (handleTx ovS3 true 3 ovTx).1.props.get true (ledgerKey ovTx.hash) = some p ∧
      ovSP.props.fin[ledgerKey ovTx.hash]? = some p ∧
      p.start = 9223372036854775797 ∧ p.end_ = 9223372036854775807 ∧ p.applying = 9223372036854775807 ∧
      p.applying < p.start + 10 + ovS3.active.lazyApplyingBlocks :=
  ⟨ovS3_reachable, ovS3_blk, ovS3_lazy, rfl, rfl, ov_not_fit, ovTx_code0, ovS3z_old_rejects, ovSP_reachable, ov_stored⟩

/-- the snapshot: every voter is a current validator with its total power, nobody has voted, all tallies
    are 0, and (validators being distinct) the per-proposal invariant `PropOK` holds with
    `total = Σ voter powers` -/
theorem voters_are_snapshot (s : St) (tx : TxIn) (a b c d : Int) (opts : List VoteOpt) :
    (∀ v, v ∈ (snapshotProposal s tx a b c d opts).voters ↔ ∃ dl ∈ s.lastVals, v = { addr := dl.addr, power := dl.total, choice := -1 }) ∧
    (DistinctD s.lastVals →
      PropOK (snapshotProposal s tx a b c d opts) ∧
      (snapshotProposal s tx a b c d opts).total = powerSum (snapshotProposal s tx a b c d opts).voters ∧
      (∀ o ∈ (snapshotProposal s tx a b c d opts).options, o.votes = 0)) := by
  refine ⟨fun v => snapshot_mem, fun hd => ?_⟩
  obtain ⟨h1, h2, _, h4⟩ := snapshot_ok s tx a b c d opts hd
  exact ⟨h1, h2, h4⟩

/-! ### "voted on exclusively by the validators recorded … each counted once, the latest vote replacing earlier ones, only inside the voting window" -/

/-- **only_snapshot_voters_vote_in_window**: a TRX_VOTING answered with code 0 comes from a recorded voter
    of an open proposal, at a height inside `[start, end_]`, for an existing option; the proposal is
    replaced by `doVote` of it -/
theorem only_snapshot_voters_vote_in_window {s : St} {e : Bool} {h : Int} {tx : TxIn} (htype : tx.type = TRX_VOTING)
    (hc : (handleTx s e h tx).2.code = 0) :
    ∃ hash choice p, VoteAccepted s e h tx hash choice p ∧
      (handleTx s e h tx).1.props = s.props.set e (ledgerKey p.hash) (p.doVote tx.from_ choice) :=
  voting_success htype hc

/-- **revote_replaces**: on a proposal satisfying `PropOK`, a vote by the recorded voter `v` for an
    in-range option sets that voter's choice, leaves every other voter and all powers alone, moves
    `v.power` from the previous option's tally (if any) to the new one, and keeps `PropOK` — in
    particular each voter is counted exactly once -/
theorem revote_replaces {p : Proposal} (hp : PropOK p) (addr : Hex) (c : Int) (v : Voter)
    (hf : p.voters.find? (·.addr == addr) = some v) (hc : 0 ≤ c ∧ c < p.options.length) :
    PropOK (p.doVote addr c) ∧
    (p.doVote addr c).voters.find? (·.addr == addr) = some { v with choice := c } ∧
    (∀ w, w.addr ≠ addr → (w ∈ (p.doVote addr c).voters ↔ w ∈ p.voters)) ∧
    (∀ j : Nat, (p.doVote addr c).options[j]? = p.options[j]?.map (fun o =>
      { o with votes := o.votes - (if (j : Int) = v.choice then v.power else 0) + (if (j : Int) = c then v.power else 0) })) ∧
    (p.doVote addr c).total = p.total ∧ (p.doVote addr c).majority = p.majority := by
  obtain ⟨h1, h2, _⟩ := doVote_choice hp addr c v hf
  exact ⟨doVote_ok hp addr c (Or.inr hc), h1, h2, fun j => doVote_options p addr c v hf j,
    (doVote_header p addr c).1, (doVote_header p addr c).2.1⟩

/-! ### tallies -/

/-- **tally_inv** — in every reachable state (any order of operations, no hypothesis on genesis or on
    address formats): every open proposal in every view (consensus, mempool) and every committed version
    of the proposal ledger satisfies `PropOK` — voters have distinct addresses, every choice is −1 or an
    option index, every option's votes = Σ { v.power | v ∈ voters, v.choice = i }, majority = ⌊2·total/3⌋;
    every frozen proposal (all views and versions) is such a proposal with its options sorted by votes
    (`FrozenTallyOK`: same voters / total / majority, options a permutation); the validator list holds
    every address once, and the delegatee ledger stores every delegatee under its own address key. -/
theorem tally_inv {g : Genesis} {s : St} (h : Reachable g s) :
    LedAll (fun _ p => PropOK p) s.props ∧ LedAll (fun _ p => FrozenTallyOK p) s.fprops ∧
    DistinctD s.lastVals ∧ LedAll DKey s.delegs :=
  ⟨(govInv_reachable h).props, (govInv_reachable h).fprops, (govInv_reachable h).lv, (govInv_reachable h).dk⟩

/-- in particular the consensus view: the form stated in DESIGN.md -/
theorem tally_inv_fin {g : Genesis} {s : St} (h : Reachable g s) (k : String) (p : Proposal)
    (hp : s.props.fin[k]? = some p) (i : Nat) (o : VoteOpt) (ho : p.options[i]? = some o) :
    o.votes = ((p.voters.filter (fun v => v.choice = (i : Int))).map (·.power)).sum := by
  rw [← tally_eq_filter]
  exact ((tally_inv h).1.1 k p hp).tallies i o ho

/-- the per-function facts behind `tally_inv`: `PropOK` is established at submission (given distinct
    validators) and kept by the only functions that ever modify a stored proposal: `doVote` (TRX_VOTING,
    in-range choice — guaranteed by `only_snapshot_voters_vote_in_window`) and `doPunish` (evidence, any
    ratio, including the re-vote inside it) -/
theorem tally_inv_functions :
    (∀ (s : St) (tx : TxIn) (a b c d : Int) (opts : List VoteOpt), DistinctD s.lastVals →
      PropOK (snapshotProposal s tx a b c d opts)) ∧
    (∀ (p : Proposal) (addr : Hex) (c : Int), PropOK p → (c = -1 ∨ (0 ≤ c ∧ c < p.options.length)) →
      PropOK (p.doVote addr c)) ∧
    (∀ (p : Proposal) (addr : Hex) (ratio : Int), PropOK p → PropOK (p.doPunish addr ratio).1) :=
  ⟨fun s tx a b c d opts hd => (snapshot_ok s tx a b c d opts hd).1,
   fun _ addr c hp hc => doVote_ok hp addr c hc,
   fun _ addr ratio hp => doPunish_ok hp addr ratio⟩

/-- `total = Σ voter powers` survives slashing for a slash ratio in 0..100 (and powers in `[0, 2^64)`) … -/
theorem total_inv_punish {p : Proposal} (hp : PropOK p) (ht : TotalOK p) (addr : Hex) {ratio : Int}
    (hr : 0 ≤ ratio ∧ ratio ≤ 100) : TotalOK (p.doPunish addr ratio).1 :=
  doPunish_total_ok hp ht addr hr

/-- … and NOT otherwise — witness: one voter of power 10, `slashRatio = 200` (a value governance can set:
    nothing validates it): the voter is removed but `total` drops by 20 to −10 while Σ voter powers = 0 -/
theorem total_inv_punish_witness :
    PropOK witnessP ∧ TotalOK witnessP ∧
    (witnessP.doPunish "v1" 200).1.total = -10 ∧ (witnessP.doPunish "v1" 200).1.voters = [] ∧
    ¬ TotalOK (witnessP.doPunish "v1" 200).1 :=
  ⟨witnessP_ok.1, witnessP_ok.2, doPunish_total_witness.1, doPunish_total_witness.2.1, doPunish_total_witness.2.2⟩

/-! ### "only if, when voting closed, one option held at least two thirds … no earlier than the applying height" -/

/-- **frozen_has_major**: in every reachable state every frozen proposal (all views and versions) records
    a major option which is its first option and holds at least the majority, and its voting window
    is over (`end_ ≤ lastHeight`) -/
theorem frozen_has_major {g : Genesis} {s : St} (h : Reachable g s) :
    LedAll (fun _ p => (∃ m, p.major = some m ∧ m.votes ≥ p.majority ∧ p.options.head? = some m) ∧ p.end_ ≤ s.lastHeight) s.fprops :=
  (govCore_reachable h).frozen

/-- **params_change_only_by_majority**, part 1: the active parameters change only at Commit, to the pending
    parameters (restart reloads the same value from the parameter ledger) -/
theorem params_change_only_at_commit {g : Genesis} {s : St} (h : Reachable g s) (op : Op) (hop : op.isInit = false)
    (hne : (step s op).1.active ≠ s.active) :
    op = .commit ∧ ∃ np, s.pending = some np ∧ (step s op).1.active = np :=
  active_change_step (govCore_reachable h) op hop hne

/-- **params_change_only_by_majority**, part 2: pending parameters `np` arise only in EndBlock of a block
    `b`, from a committed frozen proposal `p` with `p.applying ≤ b.height`, closed (`end_ ≤ lastHeight`),
    whose first option `m` holds `m.votes ≥ p.majority`, of the GOVPARAMS type, as
    `np = mergeParams s.active (parse m)` -/
theorem params_change_only_by_majority {g : Genesis} {s : St} (h : Reachable g s) (op : Op) (hop : op.isInit = false)
    (np : Params) (hnew : (step s op).1.pending = some np) (hold : s.pending ≠ some np) :
    op = .end_ ∧ ∃ b, s.blk = some b ∧ AppliedByMajority s b.height np :=
  pending_set_step (govCore_reachable h) op hop np hnew hold

/-- the majority threshold recorded at submission and after every slashing is ⌊2·total/3⌋ (`PropOK.majority`) -/
example (p : Proposal) (hp : PropOK p) : p.majority = Int.tdiv (p.total * 2) 3 := hp.majority

/-! ### "the active parameters always equal those returned by the governance query" -/

/-- **active_eq_query** for histories in which every restart comes after at least one commit: once a
    block is committed the last version of the parameter ledger holds the active parameters and the
    query (height 0 = latest) renders them -/
theorem active_eq_query (g : Genesis) (ops : List Op) (hno : ∀ op ∈ ops, op.isInit = false)
    (hr : RestartsAfterCommit (initChain g) ops) (hl : (exec (initChain g) ops).lastHeight ≥ 1) :
    (exec (initChain g) ops).params.committed[zeroHash]? = some (exec (initChain g) ops).active ∧
    query (exec (initChain g) ops) "gov_params" "" 0 = { value := "G:" ++ showParams (exec (initChain g) ops).active } := by
  obtain ⟨hs, he⟩ := paramsE_exec ops (initChain g) (govCore_init g) (paramsE_init g) hno hr
  exact query_active hs he hl

/-- at block boundaries of well-phased histories (`ReachableAtBoundary`), same hypothesis -/
theorem active_eq_query_boundary (g : Genesis) (ops : List Op) (hp : phaseRun .idle ops = some .idle)
    (hr : RestartsAfterCommit (initChain g) ops) (hl : (exec (initChain g) ops).lastHeight ≥ 1) :
    query (exec (initChain g) ops) "gov_params" "" 0 = { value := "G:" ++ showParams (exec (initChain g) ops).active } :=
  (active_eq_query g ops (phaseRun_noinit ops _ _ hp) hr hl).2

/-- every reachable state, no hypothesis on restarts: the query never returns anything but the active
    parameters (it may fail, see the witness below) -/
theorem active_eq_query_weak {g : Genesis} {s : St} (h : Reachable g s) (hl : s.lastHeight ≥ 1) :
    query s "gov_params" "" 0 = { code := ErrCodeQuery } ∨
    query s "gov_params" "" 0 = { value := "G:" ++ showParams s.active } :=
  query_active_weak (govCore_reachable h) hl

/-- invariant behind it: the consensus view of the parameter ledger holds `pending.getD active` -/
theorem params_ledger_inv {g : Genesis} {s : St} (h : Reachable g s) :
    (∀ p, s.params.fin[zeroHash]? = some p → p = s.pending.getD s.active) ∧
    (∀ p, s.params.committed[zeroHash]? = some p → p = s.active) :=
  ⟨(govCore_reachable h).paramsW.2, (govCore_reachable h).paramsW.1⟩

/-! ### non-vacuity and witnesses on a concrete chain -/

def addrA : Hex := "aaaaaaaaaaaaaaaaaaaaaaaaaaaaaaaaaaaaaaaa"
def addrZ : Hex := "0000000000000000000000000000000000000000"

def g1 : Genesis :=
  { chainId := "c15", holders := [(addrA, 1000)], vals := [("pubA", addrA, 10)],
    params := { maxValidatorCnt := 10, minValidatorStake := 1000000000000000000, minDelegatorStake := 0,
                rewardPerPower := 3, lazyRewardBlocks := 2, lazyApplyingBlocks := 1, gasPrice := 1,
                minTrxGas := 1, maxTrxGas := 1000, maxBlockGas := 100000, minVotingPeriodBlocks := 1,
                maxVotingPeriodBlocks := 100, minSelfStakeRatio := 50, maxUpdatableStakeRatio := 30,
                maxIndividualStakeRatio := 100, slashRatio := 50, signedBlocksWindow := 100, minSignedBlocks := 5,
                version := 1 } }

/-- the option: raise the gas price to 2, leave everything else unset -/
def optGas : POpt := { POpt.unset with gasPrice := some 2 }
def txProp : TxIn :=
  { hash := "b0", sigOk := true, from_ := addrA, to := addrZ, gas := 1, price := 1, type := TRX_PROPOSAL,
    payload := .proposal "" 4 1 6 PROPOSAL_GOVPARAMS [{ raw := "7b", parsedV := some optGas, parsedA := some optGas }] }
def txVote : TxIn :=
  { hash := "b1", sigOk := true, nonce := 1, from_ := addrA, to := addrZ, gas := 1, price := 1, type := TRX_VOTING,
    payload := .voting "b0" 0 }

/-- merging the option changes the gas price and nothing else -/
example : mergeParams g1.params optGas = { g1.params with gasPrice := 2 } := by decide

/-- a state in block 3 whose validator set is {A} (hand-made: `decide` cannot run a TRX_PROPOSAL through
    `handleTx` because `isZeroAddr` = `String.all` does not reduce in the kernel) -/
def sVal : St :=
  { chainId := "c15", active := g1.params, lastHeight := 2, blk := some { height := 3 },
    lastVals := [{ addr := addrA, pub := "pubA", self := 10, total := 10 }] }

/-- `ProposalAccepted` is satisfiable: the validator A proposes `optGas` for voting in 4..5, applying at 6 -/
example : ProposalAccepted sVal true 3 txProp "" 4 1 6 PROPOSAL_GOVPARAMS
    [{ raw := "7b", parsedV := some optGas, parsedA := some optGas }] where
  payload := rfl
  toZero := ⟨by decide, by simp [isZeroAddr, txProp, addrZ]⟩
  isValidator := ⟨_, List.mem_singleton.mpr rfl, rfl⟩
  fresh := by simp [sVal, Led.get]
  future := by decide
  periodMin := by decide
  periodMax := by decide
  lazyApply := by decide
  hasOption := by simp
  parse := by intro _ o ho; simp at ho; subst ho; rfl

/-- the hypothesis of `only_validators_propose` is satisfiable: the heights of `txProp` do not overflow -/
example : ProposalHeightsFit sVal txProp := by decide

/-- the recorded snapshot: total 10, majority ⌊20/3⌋ = 6, tally 0 (the voter list is the address-sorted
    `lastVals`, see `voters_are_snapshot`) -/
example : (snapshotProposal sVal txProp 4 1 6 PROPOSAL_GOVPARAMS [{ raw := "7b", parsedV := some optGas, parsedA := some optGas }]).total = 10 ∧
    (snapshotProposal sVal txProp 4 1 6 PROPOSAL_GOVPARAMS [{ raw := "7b", parsedV := some optGas, parsedA := some optGas }]).majority = 6 ∧
    (snapshotProposal sVal txProp 4 1 6 PROPOSAL_GOVPARAMS [{ raw := "7b", parsedV := some optGas, parsedA := some optGas }]).options.map (·.votes) = [0] := by
  decide

example : DistinctD sVal.lastVals := by simp [DistinctD, sVal]

/-- voting and re-voting on a two-option proposal with voters of power 10 and 5: the latest vote replaces
    the earlier one, each voter is counted once -/
def pTwo : Proposal :=
  { hash := "b0", start := 4, end_ := 5, applying := 6, total := 15, majority := 10, optType := PROPOSAL_GOVPARAMS,
    voters := [{ addr := "a", power := 10 }, { addr := "b", power := 5 }],
    options := [{ raw := "00", parsedV := none, parsedA := none }, { raw := "01", parsedV := none, parsedA := none }] }

example : (((pTwo.doVote "a" 0).doVote "b" 0).doVote "a" 1).options.map (·.votes) = [5, 10] ∧
    (((pTwo.doVote "a" 0).doVote "b" 0).doVote "a" 1).voters.map (·.choice) = [1, 0] := by decide

/-- slashing voter "a" by 50 % after it voted: power 5, its tally follows, total 10, majority 6 -/
example : ((pTwo.doVote "a" 1).doPunish "a" 50).1.options.map (·.votes) = [0, 5] ∧
    ((pTwo.doVote "a" 1).doPunish "a" 50).1.total = 10 ∧ ((pTwo.doVote "a" 1).doPunish "a" 50).1.majority = 6 ∧
    ((pTwo.doVote "a" 1).doPunish "a" 50).2 = 5 := by decide

/-- witness against `active_eq_query` WITHOUT the restart hypothesis (a restart before the first commit
    reopens the parameter ledger on its empty committed version; model artefact of `restart ∘ initChain`,
    a real node would re-run InitChain): the history is well-phased and ends at a boundary with
    `lastHeight = 1`, yet the governance query fails -/
def earlyRestart : List Op := [.restart, .begin_ { height := 1 }, .end_, .commit]

theorem active_eq_query_needs_late_restart :
    phaseRun .idle earlyRestart = some .idle ∧ (exec (initChain g1) earlyRestart).lastHeight = 1 ∧
    (query (exec (initChain g1) earlyRestart) "gov_params" "" 0).code = ErrCodeQuery := by decide

end Rigo.C15
