/-
  C18 — Versioned ledger store behaves as an overlayed map with immutable history.
  Property theorems only; helper lemmas live in RigoProofs/Ledger.lean.
  `Impl` transcribes /repo/ledger (three caches per overlay); `Spec` is the overlay map.
-/
import RigoProofs.Ledger
import RigoProofs.LedBridgeEnc
open Std

namespace Rigo.Ledger.C18

/-- (1) Refinement: on every operation sequence (set/get/del/cancel on both overlays, read,
    iterate, commit, historical read, reopen, in any order, any keys) the implementation
    returns exactly what the overlay-map specification returns. -/
theorem ledger_refines (ops : List Op) :
    (({} : Impl).run ops).2 = (({} : Spec).run ops).2 := by
  have := run_refines {} Inv_init ops
  exact this.1.symm

/-- (2) A read through an overlay sees that overlay's latest write … -/
theorem read_sees_latest_write (o : Ov) (t : Map) (k k' : Key) (v : Val) :
    view (Spec.ovSet o k v) t k' = if k' = k then some v else view o t k' := by
  unfold view Spec.ovSet
  by_cases e : k' = k
  · subst e; simp
  · have : compare k k' ≠ .eq := fun c => e ((cmp_eq_iff _ _).mp c).symm
    simp [ExtTreeMap.getElem?_insert, this, e]

/-- … and its latest delete (the delete returns what the view held) … -/
theorem read_sees_delete (o : Ov) (t : Map) (k k' : Key) :
    (Spec.ovDel o t k).2 = view o t k ∧
    view (Spec.ovDel o t k).1 t k' = if k' = k then none else view o t k' := by
  unfold Spec.ovDel
  cases hv : view o t k with
  | none =>
    refine ⟨rfl, ?_⟩
    by_cases e : k' = k
    · subst e; simp [hv]
    · simp [e]
  | some v =>
    refine ⟨rfl, ?_⟩
    unfold view
    by_cases e : k' = k
    · subst e; simp
    · have : compare k k' ≠ .eq := fun c => e ((cmp_eq_iff _ _).mp c).symm
      simp [ExtTreeMap.getElem?_erase, this, e]

/-- … including re-creation after deletion inside one commit interval. -/
theorem recreate_after_delete (o : Ov) (t : Map) (k : Key) (v : Val) :
    view (Spec.ovSet (Spec.ovDel o t k).1 k v) t k = some v := by
  rw [read_sees_latest_write]; simp

/-- the same three facts for the implementation's consensus overlay, from any coherent state -/
theorem impl_recreate_after_delete (l : Impl) (h : Inv l) (k : Key) (v : Val) :
    (((l.delF k).1.setF k v).getF k).2 = some v := by
  have h1 := (step_refines l h (.delF k)).2
  have h2 := (step_refines _ h1 (.setF k v)).2
  simp only [Impl.step] at h1 h2
  have := getIn_spec ((l.delF k).1.setF k v).fin ((l.delF k).1.setF k v).tree k h2.fin
  simp only [Impl.getF]
  rw [this.1]
  simp [Impl.setF, Impl.setIn, absOv, view]

def Op.isMempool : Op → Bool
  | .set .. | .cancelSet .. | .get .. | .del .. | .cancelDel .. => true
  | _ => false

/-- (3) Mempool-overlay operations never change what consensus reads see, nor history. -/
theorem mempool_invisible (s : Spec) (op : Op) (h : Op.isMempool op = true) :
    (s.step op).1.fin = s.fin ∧ (s.step op).1.committed = s.committed := by
  cases op <;> simp [Op.isMempool] at h <;>
    simp [Spec.step, Spec.set, Spec.cancelSet, Spec.del, Spec.cancelDel]

/-- (4) Commit persists exactly the consensus overlay's net effect under the next version
    number and discards both overlays (in particular the mempool overlay). -/
theorem commit_net_effect (s : Spec) :
    (∀ k, s.commit.last[k]? = view s.fin s.last k) ∧
    s.commit.version = s.version + 1 ∧
    (∀ k, view s.commit.chk s.commit.last k = s.commit.last[k]?) ∧
    (∀ k, view s.commit.fin s.commit.last k = s.commit.last[k]?) := by
  refine ⟨fun k => ?_, by simp [Spec.commit, Spec.version], fun k => by simp [Spec.commit, view],
    fun k => by simp [Spec.commit, view]⟩
  simp only [Spec.commit, Spec.last, List.getLast?_append, List.getLast?_singleton,
    Option.some_or, Option.getD_some, ExtTreeMap.getElem?_union, getElem?_eraseAll, view]
  cases s.fin.written[k]? <;> simp

/-- (5) History is immutable: no operation changes any already committed version. -/
theorem history_immutable_step (s : Spec) (op : Op) (i : Nat) (h : i < s.version) :
    (s.step op).1.committed[i]? = s.committed[i]? := by
  cases op <;> simp [Spec.step, Spec.set, Spec.cancelSet, Spec.del, Spec.cancelDel,
    Spec.setF, Spec.cancelSetF, Spec.delF, Spec.cancelDelF, Spec.reopen]
  · simp only [Spec.commit]
    rw [List.getElem?_append_left h]

theorem version_mono_step (s : Spec) (op : Op) : s.version ≤ (s.step op).1.version := by
  cases op <;> simp [Spec.step, Spec.set, Spec.cancelSet, Spec.del, Spec.cancelDel,
    Spec.setF, Spec.cancelSetF, Spec.delF, Spec.cancelDelF, Spec.reopen, Spec.version, Spec.commit]

theorem history_immutable (s : Spec) (ops : List Op) (i : Nat) (h : i < s.version) :
    (s.run ops).1.committed[i]? = s.committed[i]? := by
  induction ops generalizing s with
  | nil => rfl
  | cons op ops ih =>
    simp only [Spec.run]
    rw [ih (s.step op).1 (Nat.lt_of_lt_of_le h (version_mono_step s op)),
      history_immutable_step s op i h]

/-- … so a historical read of version `n` (1 ≤ n ≤ current) returns the same answer after any
    number of further operations, commits and reopen. -/
theorem historical_read_stable (s : Spec) (ops : List Op) (n : Nat) (k : Key)
    (h1 : 1 ≤ n) (h2 : n ≤ s.version) :
    (s.run ops).1.readAt n k = s.readAt n k := by
  have h : n - 1 < s.version := by omega
  have := history_immutable s ops (n - 1) h
  unfold Spec.readAt
  have hn : ¬ ((n : Int) ≤ 0) := by omega
  simp only [hn, ite_false, Int.toNat_natCast, this]

/-- the implementation inherits (5) through the refinement -/
theorem impl_historical_read_stable (ops ops' : List Op) (n : Nat) (k : Key)
    (h1 : 1 ≤ n) (h2 : n ≤ (({} : Impl).run ops).1.version) :
    ((({} : Impl).run ops).1.run ops').1.readAt n k = (({} : Impl).run ops).1.readAt n k := by
  obtain ⟨_, b, c⟩ := run_refines {} Inv_init ops
  obtain ⟨_, b', c'⟩ := run_refines _ c ops'
  have e1 : ∀ (l : Impl), Inv l → l.readAt n k = (abs l).readAt n k := by
    intro l hl
    have := abs_last l hl
    unfold Impl.readAt Spec.readAt
    have hn : ¬ ((n : Int) ≤ 0) := by omega
    simp only [hn, ite_false]; rfl
  rw [e1 _ c', e1 _ c, b']
  exact historical_read_stable _ ops' n k h1 (by simpa [abs, Spec.version, Impl.version] using h2)

/-! Non-vacuity: a concrete non-trivial run (delete / re-create / commit / historical read). -/
example :
    (({} : Impl).run [.setF 1 10, .commit, .delF 1, .setF 1 11, .getF 1, .set 2 5, .getF 2,
      .commit, .readAt 1 1, .readAt 2 1, .get 2]).2 =
    [.unit, .ver 1, .val (some 10), .unit, .val (some 11), .unit, .val none,
      .ver 2, .val (some 10), .val (some 11), .val none] := by decide


/-! ### (6) bridge to the application model

The application model (Rigo/App.lean, Block.lean) does not use `Spec` but the simpler `Led α` of Rigo/Types.lean
(committed history + a consensus VIEW + a mempool VIEW).  `RigoProofs/LedBridge*.lean` proves that `Led` is a correct
abstraction of `Spec` — and hence, with `ledger_refines`, of the three-cache implementation — on every cancel-free
operation sequence (`LedBridge.sim_step`: from ANY `Spec` state, output and abstracted successor state agree; the four
`cancel*` operations are provably not expressible on views: `LedBridge.cancelSet_not_abstractable`,
`cancelDel_not_abstractable`; the application model never issues them). -/

/-- On every cancel-free operation sequence the three-cache implementation returns exactly what the `Led` abstraction
    returns (Nat keys, iteration included). -/
theorem impl_refines_led (ops : List Op) (h : LedBridge.CancelFree ops) :
    (({} : Impl).run ops).2 =
      (({} : LedBridge.LedN).run (ops.filterMap LedBridge.Op.toL?)).2.map LedBridge.LOut.toOut :=
  LedBridge.impl_refines_led' ops h

/-- … and for `Rigo.Led α` itself (String keys) through any injective key encoding (iteration order excluded: an
    encoding need not preserve the key order). -/
theorem impl_refines_Led {α : Type} (ek : String → Key) (hek : Function.Injective ek) (ev : α → Val)
    (lops : List (LedBridge.LOp String α)) (hi : LedBridge.NoIter lops) :
    (({} : Impl).run (LedBridge.encodeOps ek ev lops)).2 =
      LedBridge.encodeOuts ek ev (LedBridge.Led.run ({} : Led α) lops).2 :=
  LedBridge.impl_refines_Led ek hek ev lops hi

/-- the cancel operations cannot be simulated on views: two reachable `Spec` states with equal views differ after one -/
theorem cancel_not_abstractable :
    (∃ s₁ s₂ : Spec, LedBridge.absLed s₁ = LedBridge.absLed s₂ ∧ LedBridge.absLed (s₁.cancelSet 1) ≠ LedBridge.absLed (s₂.cancelSet 1)) ∧
    (∃ s₁ s₂ : Spec, LedBridge.absLed s₁ = LedBridge.absLed s₂ ∧ LedBridge.absLed (s₁.cancelDel 1) ≠ LedBridge.absLed (s₂.cancelDel 1)) :=
  ⟨LedBridge.cancelSet_not_abstractable, LedBridge.cancelDel_not_abstractable⟩

end Rigo.Ledger.C18
