/-
  C03 — Only the key holder of the sender address can cause a transaction's effects.
  Property theorems only; helper lemmas live in RigoProofs/Rlp.lean and RigoProofs/RlpPreimage.lean.

  Model: Rigo/RLP.lean (go-ethereum's RLP encoder), Rigo/Preimage.lean (`trxRPL`, the payload
  encoders, the Go casts, `PreImageToSignTrxRLP`, `VerifyTrxRLP`, `commonValidation0`).

  What is proved: the byte string that is hashed and signed determines the chain id and every
  executed field of the transaction (`preimage_injective`); the DeliverTx path accepts a transaction
  only if the signature recovers the claimed sender over exactly that byte string
  (`accept_requires_signature`); hence any alteration of a signed field, of the claimed sender or of
  the chain id needs a signature over a *different* message (`mutation_needs_new_signature`).
  That producing such a signature without the sender's key is infeasible (ECDSA/secp256k1
  unforgeability, SHA-256 collision resistance) is cryptography: it is part of the trusted base and
  deliberately NOT a Lean hypothesis.

  Hypotheses, all decidable:
  * `WFTrx t`     — every field lies in the range of its Go type and the payload object is of the
                    kind `Trx.fromProto` builds for `t.type`.  Byte-string lengths are arbitrary.
  * `WFChainId c` — `c` does not contain the 18 bytes `") Signed Message:\n"`.  Chain ids that do
                    contain them are excluded, and necessarily so: `framing_needs_WFChainId` exhibits
                    two different (chain id, transaction) pairs with the same pre-image.
  * `Small a`     — (general RLP theorem only) byte strings shorter than 2^64 bytes.
-/
import RigoProofs.RlpPreimage
namespace Rigo.C03
open Rigo.RLP Rigo.Preimage

/-! ### RLP -/

/-- unique prefix-decodability: an encoding determines the item and the point where it ends -/
theorem rlp_unique_prefix (a b : Item) (r₁ r₂ : Bytes) (ha : Small a) (hb : Small b)
    (h : encode a ++ r₁ = encode b ++ r₂) : a = b ∧ r₁ = r₂ :=
  encode_prefix a b r₁ r₂ (sep_of_small a b ha hb) h

/-- the encoder is injective -/
theorem rlp_injective (a b : Item) (ha : Small a) (hb : Small b) (h : encode a = encode b) :
    a = b :=
  encode_inj_of_sep (sep_of_small a b ha hb) h

/-- the code is prefix-free: no encoding is a proper prefix of another one -/
theorem rlp_prefix_free (a b : Item) (ha : Small a) (hb : Small b) (h : encode a <+: encode b) :
    a = b := by
  obtain ⟨r, hr⟩ := h
  have : encode a ++ r = encode b ++ [] := by simp [hr]
  exact (rlp_unique_prefix a b r [] ha hb this).1

/-- integers of any width are encoded injectively (minimal big-endian bytes) -/
theorem rlp_uint_injective (a b : Nat) (h : encUint a = encUint b) : a = b :=
  beBytes_injective (encStr_injective h)

/-! ### casts (each on the domain of its Go source type) -/

theorem cast_injective_i64_u64 (a b : Int) (ha : InI64 a) (hb : InI64 b)
    (h : i64ToU64 a = i64ToU64 b) : a = b := i64ToU64_inj ha hb h

theorem cast_injective_i32_u64 (a b : Int) (ha : InI32 a) (hb : InI32 b)
    (h : i32ToU64 a = i32ToU64 b) : a = b := i32ToU64_inj ha hb h

theorem cast_injective_i32_u32 (a b : Int) (ha : InI32 a) (hb : InI32 b)
    (h : i32ToU32 a = i32ToU32 b) : a = b := i32ToU32_inj ha hb h

theorem cast_injective_u32_u64 (a b : Nat) (h : u32ToU64 a = u32ToU64 b) : a = b := h

/-- `uint256.Int.Bytes()` -/
theorem cast_injective_u256_bytes (a b : Nat) (h : beBytes a = beBytes b) : a = b :=
  beBytes_injective h

/-- the casts really are Go's: a negative `int32` type `-k` is signed as `2^64 - k`, a negative
    `int64` time as its two's complement -/
theorem cast_values :
    i32ToU64 (-1) = 18446744073709551615 ∧ i32ToU64 (-2147483648) = 18446744071562067968 ∧
    i64ToU64 (-9223372036854775808) = 9223372036854775808 ∧ i32ToU32 (-1) = 4294967295 := by
  decide +kernel

/-! ### payloads and transactions -/

/-- per transaction type (= payload constructor) the payload bytes determine the payload -/
theorem payload_injective (p q : Payload) (hp : WFPayload p) (hq : WFPayload q)
    (ht : p.tag = q.tag) (h : payloadBytes p = payloadBytes q) : p = q :=
  payloadBytes_inj hp hq ht h

/-- the full encoding (`Trx.EncodeRLP`, signature included) determines the transaction -/
theorem rlpTrx_injective (t u : Trx) (ht : WFTrx t) (hu : WFTrx u) (h : rlpTrx t = rlpTrx u) :
    signedFields t = signedFields u ∧ t.sig = u.sig :=
  trxItem_inj ht hu h

/-- the encoding that is signed (`Sig = nil`) determines every signed field -/
theorem rlpTrxUnsigned_injective (t u : Trx) (ht : WFTrx t) (hu : WFTrx u)
    (h : rlpTrxUnsigned t = rlpTrxUnsigned u) : signedFields t = signedFields u :=
  (trxItem_inj ht hu h).1

/-- The signed byte string determines the chain id and every signed field. -/
theorem preimage_injective (c₁ c₂ : Bytes) (t₁ t₂ : Trx) (h₁ : WFChainId c₁) (h₂ : WFChainId c₂)
    (w₁ : WFTrx t₁) (w₂ : WFTrx t₂) (h : preimage c₁ t₁ = preimage c₂ t₂) :
    c₁ = c₂ ∧ signedFields t₁ = signedFields t₂ :=
  preimage_inj h₁ h₂ w₁ w₂ h

/-- conversely nothing else enters the signed bytes (in particular not `sig`) -/
theorem preimage_depends_only_on_signed_fields (c : Bytes) (t u : Trx)
    (h : signedFields t = signedFields u) : preimage c t = preimage c u := by
  simp only [signedFields, SignedFields.mk.injEq] at h
  obtain ⟨h1, h2, h3, h4, h5, h6, h7, h8, h9, h10⟩ := h
  simp only [preimage, rlpTrxUnsigned, trxItem, h1, h2, h3, h4, h5, h6, h7, h8, h9, h10]

/-! ### executor -/

/-- `VerifyTrxRLP` succeeds exactly when the signature recovers the claimed sender over the
    pre-image for this chain id -/
theorem verify_iff (recover : Bytes → Bytes → Option Bytes) (c : Bytes) (t : Trx) :
    (∃ a, verifyTrxRLP recover c t = .ok a) ↔ recover (preimage c t) t.sig = some t.sender := by
  unfold verifyTrxRLP
  cases hr : recover (preimage c t) t.sig with
  | none => simp
  | some a =>
    by_cases e : a = t.sender
    · simp [e]
    · simp [e]

/-- DeliverTx path (`ctx.Exec`): `commonValidation0` lets a transaction through only if its
    signature bytes recover `From` over `preimage chainId tx`. -/
theorem accept_requires_signature (recover : Bytes → Bytes → Option Bytes) (ctx : VCtx) (t : Trx)
    (hexec : ctx.exec = true) (h : commonValidation0 recover ctx t = .ok ()) :
    recover (preimage ctx.chainId t) t.sig = some t.sender := by
  unfold commonValidation0 at h
  simp only [hexec, if_true] at h
  repeat' split at h
  all_goals first
    | (rename_i a hv; exact (verify_iff recover ctx.chainId t).mp ⟨a, hv⟩)
    | simp at h

/-- Any alteration of one or more signed fields (sender included) and/or of the chain id changes
    the signed byte string: the old signature is now a signature over a different message. -/
theorem mutation_needs_new_signature (c c' : Bytes) (t t' : Trx)
    (hc : WFChainId c) (hc' : WFChainId c') (ht : WFTrx t) (ht' : WFTrx t')
    (hmut : signedFields t' ≠ signedFields t ∨ c' ≠ c) : preimage c' t' ≠ preimage c t := by
  intro h
  obtain ⟨e1, e2⟩ := preimage_injective c' c t' t hc' hc ht' ht h
  rcases hmut with hm | hm
  · exact hm e2
  · exact hm e1

/-- Put together: if the mutated transaction (carrying whatever signature bytes) is accepted on
    chain `c'`, those bytes recover the mutated transaction's sender over a byte string different
    from the one the original signature was made over. -/
theorem accepted_mutation_is_signed_anew (recover : Bytes → Bytes → Option Bytes) (ctx' : VCtx)
    (c : Bytes) (t t' : Trx) (hc : WFChainId c) (hc' : WFChainId ctx'.chainId)
    (ht : WFTrx t) (ht' : WFTrx t')
    (hmut : signedFields t' ≠ signedFields t ∨ ctx'.chainId ≠ c)
    (hexec : ctx'.exec = true) (h : commonValidation0 recover ctx' t' = .ok ()) :
    recover (preimage ctx'.chainId t') t'.sig = some t'.sender ∧
    preimage ctx'.chainId t' ≠ preimage c t :=
  ⟨accept_requires_signature recover ctx' t' hexec h,
   mutation_needs_new_signature c ctx'.chainId t t' hc hc' ht ht' hmut⟩

/-- Model quirk kept visible: on the CheckTx path (`ctx.Exec = false`) the signature is not
    looked at — the verdict does not depend on `recover`. -/
theorem checktx_skips_signature (r₁ r₂ : Bytes → Bytes → Option Bytes) (ctx : VCtx) (t : Trx)
    (h : ctx.exec = false) : commonValidation0 r₁ ctx t = commonValidation0 r₂ ctx t := by
  unfold commonValidation0; simp [h]

/-! ### the excluded chain ids -/

namespace Witness
/-- a transfer on the victim chain `c₂` -/
def t₂ : Trx :=
  { version := 1, time := 5, nonce := 0, sender := [1, 2], receiver := [3],
    amount := 1000, gas := 21000, gasPrice := 10, type := 1, payload := .none, sig := [] }
/-- a contract call on chain `c₁` whose call data ends with a framed copy of `t₂`'s encoding -/
def t₁ : Trx :=
  { version := 1, time := 7, nonce := 3, sender := [1, 2], receiver := [9],
    amount := 0, gas := 50000, gasPrice := 10, type := 6,
    payload := .contract (sep ++ (decBytes (rlpTrxUnsigned t₂).length ++ (rlpTrxUnsigned t₂).dropLast)),
    sig := [] }
def c₁ : Bytes := [109, 97, 105, 110]  -- "main"
/-- `c₁ ++ ") Signed Message:\n" ++ decimal(len rlp t₁) ++` the part of `rlp t₁` before the call data's tail -/
def c₂ : Bytes :=
  c₁ ++ (sep ++ (decBytes (rlpTrxUnsigned t₁).length ++
    (rlpTrxUnsigned t₁).take ((rlpTrxUnsigned t₁).length -
      (sep ++ (decBytes (rlpTrxUnsigned t₂).length ++ rlpTrxUnsigned t₂)).length)))
end Witness

/-- `WFChainId` cannot be dropped: a chain id that embeds the separator can make a signature for
    one transaction on chain `c₁` a signature for a different transaction on chain `c₂`
    (witness: a contract call whose data embeds the other transaction; test-sized fact by `decide`). -/
theorem framing_needs_WFChainId :
    ∃ (c₁ c₂ : Bytes) (t₁ t₂ : Trx), WFChainId c₁ ∧ ¬ WFChainId c₂ ∧ WFTrx t₁ ∧ WFTrx t₂ ∧
      c₁ ≠ c₂ ∧ signedFields t₁ ≠ signedFields t₂ ∧ preimage c₁ t₁ = preimage c₂ t₂ :=
  ⟨Witness.c₁, Witness.c₂, Witness.t₁, Witness.t₂, by decide +kernel⟩

/-! ### non-vacuity: the hypotheses hold of concrete transactions -/

/-- a transfer: 20-byte addresses, 2^255-1 amount, negative time -/
def exTransfer : Trx :=
  { version := 1, time := -3, nonce := 7,
    sender := List.replicate 20 17, receiver := List.replicate 20 200,
    amount := 57896044618658097711785492504343953926634992332820282019728792003956564819967,
    gas := 100000, gasPrice := 10000000000, type := 1, payload := .none,
    sig := List.replicate 65 1 }

/-- a governance proposal with two options -/
def exProposal : Trx :=
  { version := 1, time := 1700000000000000000, nonce := 0,
    sender := List.replicate 20 17, receiver := List.replicate 20 0, amount := 0,
    gas := 100000, gasPrice := 10000000000, type := 4,
    payload := .proposal [104, 105] 10 259200 518410 1 [[123, 125], [1, 2, 3]],
    sig := [] }

def exChain : Bytes := [108, 111, 99, 97, 108, 110, 101, 116]  -- "localnet"

example : WFTrx exTransfer ∧ WFTrx exProposal ∧ WFChainId exChain ∧ WFChainId [] := by decide +kernel

/-- changing only the amount of the transfer changes the signed bytes … -/
example : preimage exChain { exTransfer with amount := 1 } ≠ preimage exChain exTransfer :=
  mutation_needs_new_signature _ _ _ _ (by decide +kernel) (by decide +kernel) (by decide +kernel) (by decide +kernel)
    (Or.inl (by decide +kernel))

/-- … so does moving the proposal to another chain, or changing one option byte -/
example : preimage [116, 101, 115, 116] exProposal ≠ preimage exChain exProposal :=
  mutation_needs_new_signature _ _ _ _ (by decide +kernel) (by decide +kernel) (by decide +kernel) (by decide +kernel)
    (Or.inr (by decide +kernel))

example : preimage exChain { exProposal with
    payload := .proposal [104, 105] 10 259200 518410 1 [[123, 125], [1, 2, 4]] }
    ≠ preimage exChain exProposal :=
  mutation_needs_new_signature _ _ _ _ (by decide +kernel) (by decide +kernel) (by decide +kernel) (by decide +kernel)
    (Or.inl (by decide +kernel))

/-- `accept_requires_signature` is not vacuous: with a `recover` that returns the sender, the
    transfer passes `commonValidation0` on the DeliverTx path; with one that returns another
    address, or none, it does not. -/
example :
    commonValidation0 (fun _ _ => some exTransfer.sender)
      ⟨exChain, true, 10000000000, 1000000000000000⟩ exTransfer = .ok () ∧
    commonValidation0 (fun _ _ => some exTransfer.receiver)
      ⟨exChain, true, 10000000000, 1000000000000000⟩ exTransfer = .error .invalidTrxSig ∧
    commonValidation0 (fun _ _ => none)
      ⟨exChain, true, 10000000000, 1000000000000000⟩ exTransfer = .error .invalidTrxSig := by
  decide +kernel

/-- test vector: the signed bytes of a small transfer on chain "main" -/
example : preimage Witness.c₁ Witness.t₂ =
    [25, 82, 73, 71, 79, 40, 109, 97, 105, 110, 41, 32, 83, 105, 103, 110, 101, 100, 32, 77, 101,
     115, 115, 97, 103, 101, 58, 10, 49, 56,
     209, 1, 5, 128, 130, 1, 2, 3, 130, 3, 232, 130, 82, 8, 10, 1, 128, 128] := by decide +kernel

end Rigo.C03
