/-
  C20 — The validator signing key never double-signs, across restarts.
  Property theorems only; helper lemmas live in RigoProofs/Signer.lean.
  `Rigo.Signer` transcribes /repo/types/crypto/sfile_pv.go (CheckHRS, signVote, signProposal,
  saveSigned/Save, LoadSFilePV).  Every theorem quantifies over ALL operation lists
  (sign requests for votes and proposals, reloads, and crashes before / after the atomic
  state-file write of any request) from the initial signer; `trace ops` is the history,
  entry `i` holding the `i`-th operation, its output and the state (memory, disk) after it.
-/
import RigoProofs.Signer

namespace Rigo.Signer.C20

/-- (1) No double signing: any two signatures ever released to a caller whose signed messages have
    the same height/round/step are the *identical* signature (so they sign the identical message). -/
theorem no_double_sign (ops : List Op) (i j : Nat) (hi : i < (trace ops).length)
    (hj : j < (trace ops).length) (si sj : Sig)
    (ri : (trace ops)[i].out.released = some si) (rj : (trace ops)[j].out.released = some sj)
    (same : si.signed.hrs = sj.signed.hrs) : si = sj := by
  rcases Nat.lt_trichotomy i j with lt | eq | gt
  · exact ((trace_rel ops i j hi hj lt si ri).2 sj rj).2.2 same
  · subst eq; rw [ri] at rj; injection rj
  · exact (((trace_rel ops j i hj hi gt sj rj).2 si ri).2.2 same.symm).symm

/-- (1') the same in terms of requests: if two signing requests at the same height/round/step
    were both answered with a signature, the two requested messages have the same content id,
    i.e. they are the same message up to the timestamp — and both got the identical signature. -/
theorem no_double_sign_requests (ops : List Op) (i j : Nat) (hi : i < (trace ops).length)
    (hj : j < (trace ops).length) (rqi rqj : Req) (sbi sbj : SignBytes) (si sj : Sig)
    (oi : (trace ops)[i].op = .sign rqi) (oj : (trace ops)[j].op = .sign rqj)
    (bi : rqi.signBytes? = some sbi) (bj : rqj.signBytes? = some sbj)
    (ri : (trace ops)[i].out.released = some si) (rj : (trace ops)[j].out.released = some sj)
    (same : sbi.hrs = sbj.hrs) : sbi.content = sbj.content ∧ si = sj := by
  have ⟨rq1, sb1, a1, a2, a3, _⟩ := (trace_ok ops i hi).answers si ri
  have ⟨rq2, sb2, c1, c2, c3, _⟩ := (trace_ok ops j hj).answers sj rj
  rw [oi] at a1; injection a1 with a1; subst a1
  rw [oj] at c1; injection c1 with c1; subst c1
  rw [bi] at a2; injection a2 with a2; subst a2
  rw [bj] at c2; injection c2 with c2; subst c2
  have d1 := onlyDiffer_spec a3
  have d2 := onlyDiffer_spec c3
  have hrs : si.signed.hrs = sj.signed.hrs := by
    simp only [SignBytes.hrs, HRS.mk.injEq] at same ⊢; omega
  have e := no_double_sign ops i j hi hj si sj ri rj hrs
  subst e
  exact ⟨d1.2.2.2.symm.trans d2.2.2.2, rfl⟩

/-- (2) No regression: the height/round/step of freshly produced signatures is strictly
    increasing (lexicographically) along every history. -/
theorem no_regression (ops : List Op) (i j : Nat) (hi : i < (trace ops).length)
    (hj : j < (trace ops).length) (lt : i < j) (si sj : Sig)
    (fi : (trace ops)[i].out.releasedFresh = some si) (fj : (trace ops)[j].out.releasedFresh = some sj) :
    si.signed.hrs.lt sj.signed.hrs :=
  ((trace_rel ops i j hi hj lt si (released_of_fresh fi).1).2 sj (released_of_fresh fj).1).2.1 fj

/-- (2') more generally the signer never releases a signature for an HRS lower than one it has
    released before (fresh or re-sent), and a fresh one is strictly higher than all before it. -/
theorem never_signs_lower (ops : List Op) (i j : Nat) (hi : i < (trace ops).length)
    (hj : j < (trace ops).length) (lt : i < j) (si sj : Sig)
    (ri : (trace ops)[i].out.released = some si) (rj : (trace ops)[j].out.released = some sj) :
    si.signed.hrs.le sj.signed.hrs ∧
    ((trace ops)[j].out.releasedFresh = some sj → si.signed.hrs.lt sj.signed.hrs) :=
  ⟨((trace_rel ops i j hi hj lt si ri).2 sj rj).1, ((trace_rel ops i j hi hj lt si ri).2 sj rj).2.1⟩

/-- (3) Idempotent re-signing: in any reachable state, a request at the height/round/step of the
    last record whose message has the recorded content id (equal message, or differing only in
    timestamp) is answered with the stored signature — which is the signature of the stored
    message — and, when only the timestamp differs, with the stored timestamp; the state (memory
    and disk) does not change. -/
theorem resign_idempotent (ops : List Op) (rq : Req) (sb last : SignBytes)
    (hsb : rq.signBytes? = some sb) (hrs : (run ops).mem.hrs = sb.hrs)
    (hlast : (run ops).mem.signBytes = some last) (content : last.content = sb.content) :
    (run ops).mem.signature = some (sign last) ∧
    step (run ops) (.sign rq) =
      (run ops, .reply (if sb = last then .same (sign last) else .tsSame (sign last) last.ts)) := by
  have inv := (trace_all ops).1
  have ⟨w1, w2⟩ := inv.wf.some_sb last hlast
  refine ⟨w2, ?_⟩
  have od : onlyDifferByTimestamp last sb = true := onlyDiffer_of_content (w1.trans hrs) content
  have cs := compute_spec (run ops).mem rq
  simp only [step]
  generalize compute (run ops).mem rq = c at cs
  cases cs with
  | fresh sb' h1 h2 =>
    rw [hsb] at h1; injection h1 with h1; subst h1
    rw [hrs] at h2; exact absurd h2 (HRS.lt_irrefl _)
  | same sb' sig h1 h2 h3 h4 =>
    rw [hsb] at h1; injection h1 with h1; subst h1
    rw [hlast] at h3; injection h3 with h3; subst h3
    rw [w2] at h4; injection h4 with h4; subst h4
    simp
  | tsSame sb' last' sig h1 h2 h3 h4 h5 h6 =>
    rw [hsb] at h1; injection h1 with h1; subst h1
    rw [hlast] at h3; injection h3 with h3; subst h3
    rw [w2] at h4; injection h4 with h4; subst h4
    simp [h5]
  | conflict sb' last' h1 h2 h3 h4 =>
    rw [hsb] at h1; injection h1 with h1; subst h1
    rw [hlast] at h3; injection h3 with h3; subst h3
    rw [od] at h4; contradiction
  | regress sb' e h1 h2 h3 =>
    rw [hsb] at h1; injection h1 with h1; subst h1
    rw [hrs] at h2; exact absurd h2 (HRS.lt_irrefl _)
  | noSignBytes sb' h1 h2 h3 => rw [hlast] at h3; contradiction
  | sigNil sb' h1 h2 h3 h4 => rw [w2] at h4; contradiction
  | unknownType h1 => rw [hsb] at h1; contradiction

/-- (3') along a history: a re-sent signature (`same` / `ts-same` answer) is a signature that an
    earlier request of the same history produced afresh and made durable, and the timestamp
    handed back is the one inside the originally signed message. -/
theorem resign_returns_original (ops : List Op) (j : Nat) (hj : j < (trace ops).length)
    (s : Sig) (t : Nat)
    (h : (trace ops)[j].out = .reply (.same s) ∨ (trace ops)[j].out = .reply (.tsSame s t)) :
    (∃ i, ∃ hi : i < (trace ops).length, i < j ∧ (trace ops)[i].out.persistedFresh = some s) ∧
    ((trace ops)[j].out = .reply (.tsSame s t) → t = s.signed.ts) := by
  have rel : (trace ops)[j].out.released = some s := by
    rcases h with h | h <;> rw [h] <;> rfl
  have ⟨rq, sb, _, _, _, a4⟩ := (trace_ok ops j hj).answers s rel
  have ⟨op, e1, inv⟩ := trace_entry ops j hj
  have sp := step_spec _ inv.memdisk inv.wf op
  rw [e1] at h rel a4
  simp only [entryOf] at h rel a4
  refine ⟨?_, ?_⟩
  · generalize step (run (ops.take j)) op = so at sp h rel
    cases sp with
    | keep out hp hr =>
      have ⟨g1, _⟩ := hr s rel
      have ⟨e, he, hf⟩ := inv.origin s g1
      have ⟨i, hi, hie⟩ := List.getElem_of_mem he
      have hi' : i < j := by
        have := hi; rw [List.length_take] at this; omega
      refine ⟨i, by omega, hi', ?_⟩
      rw [List.getElem_take] at hie
      rw [hie]; exact hf
    | advance rq' sb' out h1 h2 h3 h4 h5 =>
      simp only at h
      rcases h5 with ⟨rfl, _⟩ | ⟨rfl, _⟩ <;> rcases h with h | h <;> simp at h
  · intro ht
    rw [e1] at ht
    simp only [entryOf] at ht
    rcases a4 with ⟨a, _⟩ | ⟨a, _⟩ | ⟨a, _⟩ <;> rw [a] at ht <;> simp at ht
    exact ht.symm

/-- (4) Persisted before release: after every operation memory equals the durable state-file
    record, and whenever a signature is released (fresh or re-sent) the durable record at that
    moment is exactly the released one: its height/round/step, its sign bytes, its signature. -/
theorem persisted_before_release (ops : List Op) (i : Nat) (hi : i < (trace ops).length) :
    (trace ops)[i].post.mem = (trace ops)[i].post.disk ∧
    ∀ sig : Sig, (trace ops)[i].out.released = some sig →
      (trace ops)[i].post.disk.hrs = sig.signed.hrs ∧
      (trace ops)[i].post.disk.signBytes = some sig.signed ∧
      (trace ops)[i].post.disk.signature = some sig := by
  have ok := trace_ok ops i hi
  refine ⟨ok.memdisk, fun sig h => ?_⟩
  have ⟨a, b, c⟩ := ok.persisted sig h
  exact ⟨a, c, b⟩

/-- (4') …and nothing released is ever forgotten, whatever reloads and crashes follow: at every
    later point of the history the durable record (= the memory the next request is checked
    against) is at or above the released signature's height/round/step, and if it is at it, it
    still holds exactly that signature. -/
theorem released_never_forgotten (ops : List Op) (i j : Nat) (hi : i < (trace ops).length)
    (hj : j < (trace ops).length) (lt : i < j) (s : Sig)
    (ri : (trace ops)[i].out.released = some s) :
    s.signed.hrs.le (trace ops)[j].post.disk.hrs ∧
    (s.signed.hrs = (trace ops)[j].post.disk.hrs → (trace ops)[j].post.disk.signature = some s) ∧
    (trace ops)[j].post.mem = (trace ops)[j].post.disk :=
  have b := (trace_rel ops i j hi hj lt s ri).1
  ⟨b.1, b.2, (trace_ok ops j hj).memdisk⟩

/-- every released signature answers its request: it verifies against a message with the request's
    height/round/step and content id — the requested message itself, unless the answer is
    `ts-same`, where it is the requested message with the stored timestamp. -/
theorem signature_answers_request (ops : List Op) (i : Nat) (hi : i < (trace ops).length)
    (sig : Sig) (r : (trace ops)[i].out.released = some sig) :
    ∃ rq sb, (trace ops)[i].op = .sign rq ∧ rq.signBytes? = some sb ∧
      sig.signed.hrs = sb.hrs ∧ sig.signed.content = sb.content ∧
      (verify sig sb = true ∨ ∃ t, (trace ops)[i].out = .reply (.tsSame sig t) ∧
        verify sig { sb with ts := t } = true) := by
  have ⟨rq, sb, a1, a2, a3, a4⟩ := (trace_ok ops i hi).answers sig r
  have d := onlyDiffer_spec a3
  refine ⟨rq, sb, a1, a2, ?_, d.2.2.2, ?_⟩
  · simp only [SignBytes.hrs, HRS.mk.injEq]; omega
  · rcases a4 with ⟨_, a⟩ | ⟨_, a⟩ | ⟨a, _⟩
    · left; simp [verify, a]
    · left; simp [verify, a]
    · right
      refine ⟨_, a, ?_⟩
      have : sig.signed = { sb with ts := sig.signed.ts } := by
        cases hs : sig.signed; cases sb; simp_all
      simp only [verify, decide_eq_true_eq]
      exact this

/-- The safety above is not obtained by refusing to sign: a request strictly above the last
    record is always answered with a fresh signature over exactly the requested message. -/
theorem signs_when_higher (ops : List Op) (rq : Req) (sb : SignBytes)
    (hsb : rq.signBytes? = some sb) (lt : (run ops).mem.hrs.lt sb.hrs) :
    (step (run ops) (.sign rq)).2 = .reply (.fresh (sign sb)) := by
  simp [step, compute_of_lt hsb lt]

/-- From the initial signer the two defensive branches of CheckHRS ("no SignBytes found",
    the panic "Signature is nil but SignBytes is not") are unreachable. -/
theorem defensive_branches_unreachable (ops : List Op) (i : Nat) (hi : i < (trace ops).length)
    (p : Phase) :
    (trace ops)[i].out ≠ .reply (.err .noSignBytes) ∧
    (trace ops)[i].out ≠ .reply (.panic .signatureNil) ∧
    (trace ops)[i].out ≠ .crashed p (.err .noSignBytes) ∧
    (trace ops)[i].out ≠ .crashed p (.panic .signatureNil) := by
  have ⟨op, e1, inv⟩ := trace_entry ops i hi
  rw [e1]
  simp only [entryOf]
  have key : ∀ rq, (compute (run (ops.take i)).mem rq).1 ≠ .err .noSignBytes ∧
      (compute (run (ops.take i)).mem rq).1 ≠ .panic .signatureNil := by
    intro rq
    have cs := compute_spec (run (ops.take i)).mem rq
    generalize compute (run (ops.take i)).mem rq = c at cs
    cases cs with
    | noSignBytes sb h1 h2 h3 =>
      have := (inv.wf.none_sb h3).1
      have hp := Req.step_pos h1
      simp only [LSS.hrs, SignBytes.hrs, HRS.mk.injEq] at h2
      omega
    | sigNil sb h1 h2 h3 h4 =>
      cases hs : (run (ops.take i)).mem.signBytes with
      | none => exact absurd hs h3
      | some x => have := (inv.wf.some_sb x hs).2; rw [h4] at this; contradiction
    | regress sb e h1 h2 h3 => rcases h3 with rfl | rfl | rfl <;> simp
    | _ => simp
  cases op with
  | reload => simp [step]
  | crashBeforeSave rq =>
    have ⟨k1, k2⟩ := key rq
    simp only [step]
    refine ⟨by simp, by simp, ?_, ?_⟩ <;> intro h <;> injection h with _ h <;> contradiction
  | crashAfterSave rq =>
    have ⟨k1, k2⟩ := key rq
    simp only [step]
    split <;> rename_i hc <;> rw [hc] at k1 k2 <;> simp only at k1 k2 <;>
      refine ⟨by simp, by simp, ?_, ?_⟩ <;> intro h <;> injection h with _ h <;> contradiction
  | sign rq =>
    have ⟨k1, k2⟩ := key rq
    simp only [step]
    split <;> rename_i hc <;> rw [hc] at k1 k2 <;> simp only at k1 k2 <;>
      refine ⟨?_, ?_, by simp, by simp⟩ <;> intro h <;> injection h with h <;> contradiction

/-! ### Non-vacuity: concrete histories on which the hypotheses above are satisfied
    (test-sized facts, checked by evaluation of the model). -/

/-- prevote at 5/0 for content 7; crash; the same vote with a later timestamp; a conflicting
    vote; a precommit; a proposal for the next height dying after the save; the proposal again. -/
def demo : List Op :=
  [ .sign (.vote 5 0 .prevote 7 100),
    .reload,
    .sign (.vote 5 0 .prevote 7 130),
    .sign (.vote 5 0 .prevote 8 130),
    .sign (.vote 5 0 .precommit 7 140),
    .sign (.vote 5 0 .prevote 7 100),
    .crashAfterSave (.proposal 6 0 3 150),
    .sign (.proposal 6 0 3 160),
    .crashBeforeSave (.vote 6 0 .prevote 3 170),
    .sign (.vote 6 0 .prevote 4 171) ]

example : (trace demo).map (·.out) =
    [ .reply (.fresh ⟨⟨5, 0, 2, 7, 100⟩⟩),
      .reloaded,
      .reply (.tsSame ⟨⟨5, 0, 2, 7, 100⟩⟩ 100),
      .reply (.err .conflict),
      .reply (.fresh ⟨⟨5, 0, 3, 7, 140⟩⟩),
      .reply (.err .stepRegression),
      .crashed .afterSave (.fresh ⟨⟨6, 0, 1, 3, 150⟩⟩),
      .reply (.tsSame ⟨⟨6, 0, 1, 3, 150⟩⟩ 150),
      .crashed .beforeSave (.fresh ⟨⟨6, 0, 2, 3, 170⟩⟩),
      .reply (.fresh ⟨⟨6, 0, 2, 4, 171⟩⟩) ] := by decide

/-- `no_double_sign` applied non-vacuously: entries 0 and 2 both release a signature at 5/0/2 -/
example : (⟨⟨5, 0, 2, 7, 100⟩⟩ : Sig) = ⟨⟨5, 0, 2, 7, 100⟩⟩ :=
  no_double_sign demo 0 2 (by decide) (by decide) ⟨⟨5, 0, 2, 7, 100⟩⟩ ⟨⟨5, 0, 2, 7, 100⟩⟩
    (by decide) (by decide) (by decide)

/-- `no_double_sign_requests` applied: the votes of entries 0 and 2 (timestamps 100 / 130) -/
example : (7 : Nat) = 7 ∧ (⟨⟨5, 0, 2, 7, 100⟩⟩ : Sig) = ⟨⟨5, 0, 2, 7, 100⟩⟩ :=
  no_double_sign_requests demo 0 2 (by decide) (by decide) (.vote 5 0 .prevote 7 100)
    (.vote 5 0 .prevote 7 130) ⟨5, 0, 2, 7, 100⟩ ⟨5, 0, 2, 7, 130⟩ ⟨⟨5, 0, 2, 7, 100⟩⟩
    ⟨⟨5, 0, 2, 7, 100⟩⟩ (by decide) (by decide) (by decide) (by decide) (by decide) (by decide)
    (by decide)

/-- `no_regression` applied: entries 0, 4, 9 are fresh releases with increasing HRS -/
example : HRS.lt ⟨5, 0, 2⟩ ⟨5, 0, 3⟩ :=
  no_regression demo 0 4 (by decide) (by decide) (by decide) ⟨⟨5, 0, 2, 7, 100⟩⟩
    ⟨⟨5, 0, 3, 7, 140⟩⟩ (by decide) (by decide)
example : HRS.lt ⟨5, 0, 3⟩ ⟨6, 0, 2⟩ :=
  no_regression demo 4 9 (by decide) (by decide) (by decide) ⟨⟨5, 0, 3, 7, 140⟩⟩
    ⟨⟨6, 0, 2, 4, 171⟩⟩ (by decide) (by decide)

/-- `resign_idempotent` applied after the first two operations to the later-timestamp vote:
    the `ts-same` answer with the stored timestamp 100, state unchanged -/
example := resign_idempotent (demo.take 2) (.vote 5 0 .prevote 7 130) ⟨5, 0, 2, 7, 130⟩
    ⟨5, 0, 2, 7, 100⟩ (by decide) (by decide) (by decide) (by decide)

/-- `resign_returns_original` applied across a crash: entry 7 re-sends what entry 6 saved but
    never released -/
example := resign_returns_original demo 7 (by decide) ⟨⟨6, 0, 1, 3, 150⟩⟩ 150 (Or.inr (by decide))
example : ((trace demo)[6]'(by decide)).out.persistedFresh = some ⟨⟨6, 0, 1, 3, 150⟩⟩ ∧
    ((trace demo)[6]'(by decide)).out.released = none := by decide

/-- `released_never_forgotten` applied: entry 0's signature vs. the state after the last entry -/
example := released_never_forgotten demo 0 9 (by decide) (by decide) (by decide)
    ⟨⟨5, 0, 2, 7, 100⟩⟩ (by decide)

/-- a crash before the save releases nothing and leaves the disk at 6/0/1, so the conflicting
    vote of entry 9 is legitimately signed: no other signature at 6/0/2 was ever released -/
example : ((trace demo)[8]'(by decide)).out.released = none ∧
    ((trace demo)[8]'(by decide)).post.disk.hrs = ⟨6, 0, 1⟩ ∧
    ((trace demo)[9]'(by decide)).post.disk.hrs = ⟨6, 0, 2⟩ := by decide

/-- `signs_when_higher` is applicable: after `demo` a vote at height 7 is above the record -/
example : (run demo).mem.hrs.lt (⟨7, 0, 2, 1, 1⟩ : SignBytes).hrs := by decide

/-- The model does reach the defensive branches from hand-made state files (outside the
    quantifier of the property): same HRS without sign bytes, and sign bytes without signature. -/
example : (compute ⟨3, 1, 2, none, none⟩ (.vote 3 1 .prevote 0 0)).1 = .err .noSignBytes ∧
    (compute ⟨3, 1, 2, some ⟨3, 1, 2, 0, 0⟩, none⟩ (.vote 3 1 .prevote 0 0)).1 = .panic .signatureNil ∧
    (compute {} (.vote 3 1 .unknown 0 0)).1 = .panic .unknownVoteType := by decide

end Rigo.Signer.C20
