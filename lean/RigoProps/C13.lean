/-
  C13 — Rewards.
  "In every block each stake bonded to a validator that signed the previous block earns its power times
   the current reward-per-power (stakes being those recorded at the height from which consensus derived
   that validator's voting power), and nobody else earns anything. An account's withdrawable reward
   always equals everything issued to it minus everything it has withdrawn; a withdrawal succeeds only
   up to that amount and credits the balance by exactly the requested amount."

  `votes_match_ledger` — the power carried by a vote of block H equals the validator's total power in ledger
  version `hopOf H` — is no longer left to the trusted harness: for heights ≥ 5 it is PROVED
  (`votes_match_ledger`, `signers_all_rewarded` below; proofs in RigoProofs/C13Pipeline*.lean) from the model and an
  explicit model of how Tendermint feeds an ABCI application (`C13P.TMFaithful`: validator updates of EndBlock(h)
  take effect at block h+2; LastCommitInfo(H) = the validator set of block H−1 with its powers in that set), under
  C10's input hypotheses, no panic answer and "block 2 announces the genesis set" (`C13P.RunOK`).  What is
  still trusted: that tmsim/Tendermint behaves as `TMFaithful` says.  Heights 2–4 are the recorded finding
  `issuance-early-heights` (`votes_early_heights`: the votes are the genesis set, the code reads version 1 / latest;
  where the powers differ the code silently skips the validator, and `issuance` says exactly that).
-/
import RigoProofs.C13Reach2
import RigoProofs.C13Pipeline

namespace Rigo.C13
open Rigo

/-- **issuance** — first sentence of C13.  When `beginBlock s h` emits the reward event (`issued = some n`;
    this happens exactly when it does not panic and `h.votes` is non-empty), the delegatee ledger
    version `hopOf h.height` exists (`hopOf H = 1` for `H < 4`, else `H − 4`; version `n ≤ 0` = latest, so `H = 4` reads the latest), and
    for every account key `k` the cumulated reward grows by
    `Σ { stakeRwd rpp st | v ∈ h.votes, v.signed, d = rl[v.addr], d.total = v.power, st ∈ d.stakes, key st.owner = k }`
    (`voteRwd`), under the explicit no-wrap bound; `n` is the sum over all stakes (mod 2^256).
    `stakeRwd rpp st = power × rpp` for sane powers (`stakeRwd_exact`); skipped votes earn nothing
    (`voteRwd_skipped`); accounts without matching stakes get a sum of zeros, i.e. nothing. -/
theorem issuance {s : St} {h : Header} {n : Nat} (hi : (beginBlock s h).2.issued = some n) :
    ∃ rl, s.delegs.at? (hopOf h.height) = some rl ∧
      n = ((h.votes.map (voteRwdAll rl s.active.rewardPerPower)).sum) % two256 ∧
      ∀ k, cumOf s k + (h.votes.map (voteRwd rl s.active.rewardPerPower k)).sum < two256 →
        cumOf (beginBlock s h).1 k = cumOf s k + (h.votes.map (voteRwd rl s.active.rewardPerPower k)).sum :=
  issuance_core hi

/-- the code's quirk, literally: heights 2 and 3 read ledger version 1, height 4 reads version 0 = the
    latest committed version (3), from height 5 on version `H − 4` -/
example : hopOf 2 = 1 ∧ hopOf 3 = 1 ∧ hopOf 4 = 0 ∧ hopOf 5 = 1 ∧ hopOf 6 = 2 ∧ hopOf 100 = 96 := by decide

/-- "power times reward-per-power": exact for powers in `[0, 2^64)` whose product does not wrap -/
theorem issuance_product (rpp : Nat) (st : Stake) (hp : 0 ≤ st.power ∧ st.power < (two64 : Int))
    (hb : st.power.toNat * rpp < two256) : stakeRwd rpp st = st.power.toNat * rpp :=
  stakeRwd_exact rpp st hp hb

/-- "nobody else earns anything": non-signers, validators unknown to that ledger version and validators
    whose recorded total differs from the vote power contribute nothing -/
theorem issuance_skipped (rl : KMap Delegatee) (rpp : Nat) (k : String) (v : VoteIn)
    (h : v.signed = false ∨ rl[ledgerKey v.addr]? = none ∨ ∃ d, rl[ledgerKey v.addr]? = some d ∧ d.total ≠ v.power) :
    voteRwd rl rpp k v = 0 ∧ voteRwdAll rl rpp v = 0 :=
  voteRwd_skipped rl rpp k v h

/-- **withdraw_exact** — last sentence of C13, DeliverTx path.  With the account / reward ledgers keyed by
    address (`hka`, `hkr`) and no balance wrap-around (`hnw`):
    success ⇔ `WithdrawOk` (decodable, sender exists, common validations, amount = 0, payload is a
    withdraw request, reward record exists, `req ≤ cumulated`, record height ≤ block height, and the
    uint256 sign checks `req < 2^255`, `fee < 2^255` of AddBalance / SubBalance). -/
theorem withdraw_exact_iff {s : St} {h : Int} {tx : TxIn} (htype : tx.type = TRX_WITHDRAW)
    (hkeys : ∀ sender req r, WithdrawOk s h tx sender req r →
      ledgerKey sender.addr = ledgerKey tx.from_ ∧ ledgerKey r.addr = ledgerKey tx.from_ ∧ sender.bal + req < two256) :
    (handleTx s true h tx).2.code = 0 ↔ ∃ sender req r, WithdrawOk s h tx sender req r := by
  constructor
  · exact withdraw_success_pre htype
  · rintro ⟨sender, req, r, ok⟩
    obtain ⟨a, b, c⟩ := hkeys sender req r ok
    rw [(withdraw_run htype ok a b c).1]

/-- … and then the balance is credited by exactly the request (minus the fee `gas·price`, nonce + 1), the
    record's cumulated reward drops by the request, the ghost counter of withdrawn rewards grows by it -/
theorem withdraw_exact_effect {s : St} {h : Int} {tx : TxIn} {sender : Account} {req : Nat} {r : Reward}
    (htype : tx.type = TRX_WITHDRAW) (ok : WithdrawOk s h tx sender req r)
    (hka : ledgerKey sender.addr = ledgerKey tx.from_) (hkr : ledgerKey r.addr = ledgerKey tx.from_)
    (hnw : sender.bal + req < two256) :
    (handleTx s true h tx).2 = { code := 0, kind := "ok", gasUsed := tx.gas, gasWanted := tx.gas } ∧
    (handleTx s true h tx).1.accts.fin[ledgerKey tx.from_]? =
      some { sender with bal := sender.bal + req - wmul tx.price tx.gas, nonce := sender.nonce + 1 } ∧
    (handleTx s true h tx).1.rewards.fin = s.rewards.fin.insert (ledgerKey tx.from_) (Reward.afterWithdraw r req h) ∧
    (Reward.afterWithdraw r req h).cumulated = wsub r.cumulated req ∧
    (handleTx s true h tx).1.ghost.withdrawn = s.ghost.withdrawn + req := by
  obtain ⟨a, b, c, d⟩ := withdraw_run htype ok hka hkr hnw
  refine ⟨a, b, c, ?_, d⟩
  unfold Reward.afterWithdraw; split <;> rfl

/-- a request above the cumulated reward fails ("noreward") and changes nothing but the receiver
    find-or-create: rewards, ghost counter and the sender's account stay -/
theorem withdraw_exact_too_much {s : St} {h : Int} {tx : TxIn} {sender : Account} {req : Nat} {r : Reward}
    (htype : tx.type = TRX_WITHDRAW) (hdec : tx.decodable = true)
    (hsnd : s.accts.fin[ledgerKey tx.from_]? = some sender)
    (cv0 : commonValidation0 s true tx = .ok ()) (cv1 : commonValidation1 sender tx = .ok ())
    (hamt : tx.amount = 0) (hpay : tx.payload = .withdraw req)
    (hrec : s.rewards.fin[ledgerKey tx.from_]? = some r) (hmore : req > r.cumulated) :
    (handleTx s true h tx).2 = { code := 5, kind := "noreward" } ∧
    (handleTx s true h tx).1.rewards = s.rewards ∧ (handleTx s true h tx).1.ghost = s.ghost ∧
    (handleTx s true h tx).1.accts.fin[ledgerKey tx.from_]? = some sender := by
  rw [withdraw_too_much htype hdec hsnd cv0 cv1 hamt hpay hrec hmore]
  obtain ⟨_, ⟨h1, h2⟩, _, _⟩ := findOrNewAcct_frAll s true tx.to
  exact ⟨rfl, h1, h2, findOrNew_facts s tx sender hsnd⟩

/-- **reward_balance_inv** — second sentence of C13: "an account's withdrawable reward always equals
    everything issued to it minus everything it has withdrawn".  For every well-phased history `ops`
    (BeginBlock, DeliverTx*, EndBlock, Commit; CheckTx anywhere; restart only between blocks) from
    genesis, under the explicit no-wrap bound `NoWrap` (no issuance wraps a cumulated reward, no sender
    balance + cumulated reward wraps), and for every account key `k`:
    `cumulated k + withdrawnBy k = issuedTo k`, where the two ghost sums are defined by recursion over the
    history from the operations themselves (`issuedIn`: the stakes of the matching signers when the
    reward event fires; `withdrawnIn`: the request of `k`'s own DeliverTx TRX_WITHDRAW answered with
    code 0).  Also: every reward record is stored under the ledger key of its own address and is
    below 2^256 (`RewardInv`).
    The phase discipline is necessary: the model's `restart` in the middle of a block is a crash that
    discards the uncommitted issuance of that block. -/
theorem reward_balance_inv (g : Genesis) (ops : List Op) (q : Phase) (hp : phaseRun .idle ops = some q)
    (hn : NoWrap (initChain g) ops) :
    (∀ k, cumOf (exec (initChain g) ops) k + withdrawnBy (initChain g) ops k = issuedTo (initChain g) ops k) ∧
    RewardInv (exec (initChain g) ops) := by
  obtain ⟨h1, h2⟩ := balance_run ops (initChain g) .idle q (Reachable.start g) hp (balInv_init g) hn
  refine ⟨fun k => ?_, h2.rinv⟩
  have h0 : cumOf (initChain g) k = 0 := by
    obtain ⟨_, ⟨hrw, _⟩, _⟩ := C15.initChain_ifr g
    have : (initChain g).rewards = {} := by rw [hrw]; rfl
    simp [cumOf, this]
  have := h1 k
  omega

/-- the same at an arbitrary reachable start: one well-phased operation moves the two sides alike -/
theorem reward_balance_step {g : Genesis} {s : St} (hr : Reachable g s) {p p' : Phase} {op : Op}
    (hp : phaseStep p op = some p') (hi : BalInv p s) (hb : stepBound s op) :
    (∀ k, cumOf (step s op).1 k + withdrawnAt s op k = cumOf s k + issuedBy s op k) ∧ BalInv p' (step s op).1 :=
  balance_step hr hp hi hb

/-- per-operation facts behind it (any state, no phase discipline): EndBlock and Commit never move a
    cumulated reward; a DeliverTx of another type moves neither rewards nor the withdrawal counter of the
    state (`ghost.withdrawn`); a successful withdrawal lowers exactly the sender's cumulated reward by the
    request and counts it; CheckTx and failed withdrawals leave the consensus view of the reward ledger alone. -/
theorem reward_balance_ops :
    (∀ s k, cumOf (endBlock s).1 k = cumOf s k) ∧
    (∀ s k, cumOf (commit s).1 k = cumOf s k) ∧
    (∀ s tx k, tx.type ≠ TRX_WITHDRAW →
      cumOf (deliverTx s tx).1 k = cumOf s k ∧ (deliverTx s tx).1.ghost.withdrawn = s.ghost.withdrawn) ∧
    (∀ (s : St) (b : BlockCtx) (tx : TxIn) (sender : Account) (req : Nat) (r : Reward),
      s.blk = some b → tx.type = TRX_WITHDRAW → WithdrawOk s b.height tx sender req r →
      ledgerKey sender.addr = ledgerKey tx.from_ → ledgerKey r.addr = ledgerKey tx.from_ →
      sender.bal + req < two256 → r.cumulated < two256 →
      cumOf (deliverTx s tx).1 (ledgerKey tx.from_) = cumOf s (ledgerKey tx.from_) - req ∧
      (∀ k, k ≠ ledgerKey tx.from_ → cumOf (deliverTx s tx).1 k = cumOf s k) ∧
      (deliverTx s tx).1.ghost.withdrawn = s.ghost.withdrawn + req) ∧
    (∀ s ht tx, (handleTx s false ht tx).1.rewards.fin = s.rewards.fin) ∧
    (∀ s ht tx, tx.type = TRX_WITHDRAW → (handleTx s true ht tx).2.code ≠ 0 → (handleTx s true ht tx).1.rewards = s.rewards) :=
  ⟨endBlock_cum, commit_cum, fun s tx k h => deliver_other_cum s tx h k,
   fun _ _ _ _ _ _ hb ht ok a b c d => deliver_withdraw_cum hb ht ok a b c d,
   handleTx_check_rewards, handleTx_withdraw_fail⟩

/-! ### non-vacuity: a concrete chain with one validator -/

def addrA : Hex := "aaaaaaaaaaaaaaaaaaaaaaaaaaaaaaaaaaaaaaaa"
def addrZ : Hex := "0000000000000000000000000000000000000000"

def g1 : Genesis :=
  { chainId := "c13", holders := [(addrA, 1000)], vals := [("pubA", addrA, 10)],
    params := { maxValidatorCnt := 10, minValidatorStake := 1000000000000000000, minDelegatorStake := 0,
                rewardPerPower := 3, lazyRewardBlocks := 2, lazyApplyingBlocks := 1, gasPrice := 1,
                minTrxGas := 1, maxTrxGas := 1000, maxBlockGas := 100000, minVotingPeriodBlocks := 1,
                maxVotingPeriodBlocks := 100, minSelfStakeRatio := 50, maxUpdatableStakeRatio := 30,
                maxIndividualStakeRatio := 100, slashRatio := 50, signedBlocksWindow := 100, minSignedBlocks := 5,
                version := 1 } }

/-- after block 1 is committed -/
def sAfter1 : St := exec (initChain g1) [.begin_ { height := 1 }, .end_, .commit]
def header2 : Header := { height := 2, votes := [{ addr := addrA, power := 10, signed := true }] }
def sIn2 : St := (beginBlock sAfter1 header2).1
def txW : TxIn :=
  { hash := "77", sigOk := true, from_ := addrA, to := addrZ, gas := 1, price := 1, type := TRX_WITHDRAW,
    payload := .withdraw 5 }

/-- block 2 issues 10 × 3 = 30 to the validator's own stake -/
example : (beginBlock sAfter1 header2).2.issued = some 30 ∧ cumOf sAfter1 (ledgerKey addrA) = 0 ∧
    cumOf sIn2 (ledgerKey addrA) = 30 := by decide

/-- withdrawing 5 of the 30 succeeds: balance 1000 + 5 − 1, cumulated 25, counted 5 -/
example : (handleTx sIn2 true 2 txW).2.code = 0 ∧
    ((handleTx sIn2 true 2 txW).1.accts.fin[ledgerKey addrA]?).map (·.bal) = some 1004 ∧
    cumOf (handleTx sIn2 true 2 txW).1 (ledgerKey addrA) = 25 ∧
    (handleTx sIn2 true 2 txW).1.ghost.withdrawn = 5 := by decide

/-- hence `WithdrawOk` is satisfiable -/
example : ∃ sender req r, WithdrawOk sIn2 2 txW sender req r :=
  withdraw_success_pre rfl (by decide)

/-- withdrawing 31 fails and changes nothing -/
example : (handleTx sIn2 true 2 { txW with payload := .withdraw 31 }).2.kind = "noreward" ∧
    cumOf (handleTx sIn2 true 2 { txW with payload := .withdraw 31 }).1 (ledgerKey addrA) = 30 := by decide

/-- the ghost sums on the run "block 1; block 2 with the signed vote and the withdrawal of 5":
    issued 30, withdrawn 5, cumulated 25 — the two sides of `reward_balance_inv` -/
def run2 : List Op :=
  [.begin_ { height := 1 }, .end_, .commit, .begin_ header2, .deliver txW, .end_, .commit]

example : phaseRun .idle run2 = some .idle ∧
    issuedTo (initChain g1) run2 (ledgerKey addrA) = 30 ∧ withdrawnBy (initChain g1) run2 (ledgerKey addrA) = 5 ∧
    cumOf (exec (initChain g1) run2) (ledgerKey addrA) = 25 := by decide

/-- `NoWrap` is satisfiable (first block of any chain: nothing is issued, nothing withdrawn) -/
example (g : Genesis) : NoWrap (initChain g) [.begin_ { height := 1 }, .end_, .commit] := by
  refine ⟨?_, trivial, trivial, trivial⟩
  intro k
  have h0 : cumOf (initChain g) k = 0 := by
    obtain ⟨_, ⟨hrw, _⟩, _⟩ := C15.initChain_ifr g
    have : (initChain g).rewards = {} := by rw [hrw]; rfl
    simp [cumOf, this]
  have hi : (beginBlock (initChain g) { height := 1 }).2.issued = none := by
    cases hx : (beginBlock (initChain g) { height := 1 }).2.issued with
    | none => rfl
    | some n => have := (beginBlock_issued hx).2.1; simp at this
  have : issuedIn (initChain g) { height := 1 } k = 0 := by simp [issuedIn, hi]
  rw [h0, this]; unfold two256; omega

/-- **votes_match_ledger** — "(stakes being those recorded at the height from which consensus derived that validator's
    voting power)".  Formerly an assumption left to the trusted harness; now a theorem about every run that is good
    (`C13P.RunOK`: C10's input hypotheses `InputsOK`, sane parameters `ParamsAlong`, ABCI call order, no panic answer,
    genesis set announced by block 2 `GenesisCovered`) and TM-faithful (`C13P.TMFaithful`: the votes of BeginBlock(H) are
    exactly the validator set in force for block H−1 by Tendermint's +2 rule applied to the run's own EndBlock answers):
    at every BeginBlock of height `H ≥ 5` every vote finds, in ledger version `hopOf H = H − 4`, a delegatee under the
    ledger key of its address whose total power equals the vote's power. -/
theorem votes_match_ledger {f : Hex → Hex} (finj : TM.Injective f) {g : Genesis} {ops : List Op}
    (ok : C13P.RunOK f g ops) (htm : C13P.TMFaithful f g ops) {pre : List Op} {hdr : Header} {post : List Op}
    (e : ops = pre ++ .begin_ hdr :: post) (h5 : 5 ≤ hdr.height) :
    ∃ rl, (exec (initChain g) pre).delegs.at? (hopOf hdr.height) = some rl ∧
      ∀ v ∈ hdr.votes, ∃ d, rl[ledgerKey v.addr]? = some d ∧ d.total = v.power ∧ d.addr = v.addr :=
  C13P.votes_match_ledger finj ok htm e h5

/-- **signers_all_rewarded** — first sentence of C13 from height 5 on, without harness assumption: no signer is skipped;
    the reward event pays every account exactly `stakeRwd` of every stake of every SIGNED validator as recorded in
    version `H − 4` (`C13P.signerRwd`: no power comparison), and nobody else anything. -/
theorem signers_all_rewarded {f : Hex → Hex} (finj : TM.Injective f) {g : Genesis} {ops : List Op}
    (ok : C13P.RunOK f g ops) (htm : C13P.TMFaithful f g ops) {pre : List Op} {hdr : Header} {post : List Op}
    (e : ops = pre ++ .begin_ hdr :: post) (h5 : 5 ≤ hdr.height) :
    ∃ rl, (exec (initChain g) pre).delegs.at? (hopOf hdr.height) = some rl ∧
      (∀ v ∈ hdr.votes, v.signed = true → ∃ d, rl[ledgerKey v.addr]? = some d ∧ d.total = v.power ∧
        rewardedDeleg rl v = some d) ∧
      ∀ n, (beginBlock (exec (initChain g) pre) hdr).2.issued = some n →
        n = ((hdr.votes.map (C13P.signerRwdAll rl (exec (initChain g) pre).active.rewardPerPower)).sum) % two256 ∧
        ∀ k, cumOf (exec (initChain g) pre) k +
              (hdr.votes.map (C13P.signerRwd rl (exec (initChain g) pre).active.rewardPerPower k)).sum < two256 →
          cumOf (beginBlock (exec (initChain g) pre) hdr).1 k =
            cumOf (exec (initChain g) pre) k +
              (hdr.votes.map (C13P.signerRwd rl (exec (initChain g) pre).active.rewardPerPower k)).sum :=
  C13P.signers_all_rewarded finj ok htm e h5

/-- heights 2–4 (finding `issuance-early-heights`): the votes are the genesis set, the code reads version 1 / latest -/
theorem votes_early_heights {f : Hex → Hex} {g : Genesis} {ops : List Op} (hph : ∃ q, phaseRun .idle ops = some q)
    (hnp : C13P.NoPanic g ops) (htm : C13P.TMFaithful f g ops) {pre : List Op} {hdr : Header} {post : List Op}
    (e : ops = pre ++ .begin_ hdr :: post) (h2 : 2 ≤ hdr.height) (h4 : hdr.height ≤ 4) :
    C13P.VotesOf f (TM.genesisSet g) hdr.votes ∧
    (exec (initChain g) pre).delegs.at? (hopOf hdr.height) =
      if hdr.height = 4 then some (exec (initChain g) pre).delegs.committed
      else (exec (initChain g) pre).delegs.hist[0]? :=
  C13P.votes_early_heights hph hnp htm e h2 h4

/-- non-vacuity: a seven-block run, validators A:10 and B:9, C delegates 5 to A in block 2 -/
example : C13P.RunOK id C13P.Ex.G C13P.Ex.ops ∧ C13P.TMFaithful id C13P.Ex.G C13P.Ex.ops :=
  ⟨C13P.Ex.ops_runOK, C13P.Ex.ops_tmFaithful⟩
example := C13P.Ex.block6_match
example := C13P.Ex.early_heights_witness

end Rigo.C13

