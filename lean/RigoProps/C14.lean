/-
  C14 — Slashing and jailing.

  "For each piece of misbehaviour evidence in a block, every stake bonded to the named validator loses the
   governance slash percentage of its power (rounded down; a stake too small to be reduced is forfeited) and
   the validator's voting weight in open proposals shrinks by the same percentage, while no other validator,
   stake or account changes.  A validator whose signed blocks within the signing window fall below the
   required minimum has all stake bonded to it moved to unbonding and leaves the validator set; validators
   above the threshold are untouched."

  Property theorems only; proofs live in RigoProofs/C14*.lean.
-/
import RigoProofs.C14Frame
import RigoProofs.C14Jail
import RigoProofs.C14FrameFold
open Std

namespace Rigo.C14

open Rigo.C14L Rigo.Delegatee

/-! ## slashing the bonded stakes -/

/-- "every stake bonded to the named validator loses the slash percentage of its power (rounded down; a
    stake too small to be reduced is forfeited)": `doSlash d ratio` maps each stake to
    `power − ⌊power·ratio/100⌋` (`slashStake`), drops exactly those whose `⌊…⌋ < 1`, recomputes `total`/`self`
    as sums over the remaining stakes and returns the sum of the `⌊…⌋ ≥ 1`.
    NOTE: forfeited stakes are NOT counted in the returned "slashed power" although their whole power is lost.
    Hypothesis: stake hashes are unique inside the delegatee (forfeited stakes are removed by hash). -/
theorem slash_exact (d : Delegatee) (ratio : Int) (hnd : HashNodup d.stakes) :
    (d.doSlash ratio).1.stakes = d.stakes.filterMap (slashStake ratio) ∧
    (d.doSlash ratio).1.total = sumPower (d.stakes.filterMap (slashStake ratio)) ∧
    (d.doSlash ratio).1.self = sumPowerOf (d.stakes.filterMap (slashStake ratio)) d.addr ∧
    (d.doSlash ratio).2 = (d.stakes.filterMap fun s => if slashOf ratio s < 1 then none else some (slashOf ratio s)).sum ∧
    (d.doSlash ratio).1.addr = d.addr ∧ (d.doSlash ratio).1.pub = d.pub ∧
    (d.doSlash ratio).1.slashed = d.slashed ∧ (d.doSlash ratio).1.notSigned = d.notSigned :=
  C14L.slash_exact d ratio hnd

/-- per stake (power ≥ 0, 0 ≤ ratio ≤ 100): Go's truncating division is the floor; the stake is forfeited
    iff `⌊power·ratio/100⌋ < 1`; a surviving stake keeps `power − ⌊…⌋ ∈ [0, power)` and all other fields -/
theorem slashStake_exact (ratio : Int) (s : Stake) (hp : 0 ≤ s.power) (hr : 0 ≤ ratio) (hr' : ratio ≤ 100) :
    slashOf ratio s = (s.power * ratio) / 100 ∧
    (slashStake ratio s = none ↔ (s.power * ratio) / 100 < 1) ∧
    (∀ s', slashStake ratio s = some s' →
      s' = { s with power := s.power - (s.power * ratio) / 100 } ∧ 0 ≤ s'.power ∧ s'.power < s.power) :=
  C14L.slashStake_exact ratio s hp hr hr'

/-- bookkeeping: bonded power before = remaining + returned slashed sum + power of the forfeited stakes -/
theorem slash_conservation (ss : List Stake) (ratio : Int) :
    sumPower ss = sumPower (ss.filterMap (slashStake ratio))
      + (ss.filterMap fun s => if slashOf ratio s < 1 then none else some (slashOf ratio s)).sum
      + sumPower (ss.filter fun s => slashOf ratio s < 1) :=
  C14L.slash_conservation ss ratio

/-- one piece of evidence against a validator known to the stake ledger: exactly its entry is replaced by
    the slashed delegatee, the reported slashed power is `doSlash`'s return value -/
theorem evidence_slashes (s : St) (a : Hex) (d : Delegatee) (h : s.delegs.fin[ledgerKey a]? = some d) :
    stakePunish s a =
      ({ s with delegs := { s.delegs with fin := s.delegs.fin.insert (ledgerKey a) (d.doSlash s.active.slashRatio).1 } },
       some (d.doSlash s.active.slashRatio).2) :=
  C14L.stakePunish_known s a d h

/-- evidence against an address unknown to the stake ledger is a no-op -/
theorem evidence_unknown_noop (s : St) (a : Hex) (h : s.delegs.fin[ledgerKey a]? = none) :
    stakePunish s a = (s, none) :=
  C14L.stakePunish_unknown s a h

/-! ## slashing the voting weight in open proposals -/

/-- "the validator's voting weight in open proposals shrinks by the same percentage": `DoPunish` on a
    proposal listing the validator as voter `v` — `v` keeps `power − slashed` (removed at `≤ 0`), the tally
    of its chosen option drops by the slashed power (by its whole former power if removed), `total` drops
    by the slashed power, `majority = ⌊2·total/3⌋`; other voters, options and fields untouched. -/
theorem gov_punish_exact (p : Proposal) (addr : Hex) (ratio : Int) (v : Voter)
    (hf : p.voters.find? (·.addr == addr) = some v) (hd : VotersDistinct p.voters) :
    (p.doPunish addr ratio).2 = govSlashOf v.power ratio ∧
    (p.doPunish addr ratio).1.total = p.total - govSlashOf v.power ratio ∧
    (p.doPunish addr ratio).1.majority = Int.tdiv ((p.total - govSlashOf v.power ratio) * 2) 3 ∧
    (p.doPunish addr ratio).1.voters =
        (if v.power - govSlashOf v.power ratio ≤ 0 then p.voters.filter (·.addr != addr)
         else p.voters.map fun w => if w.addr == addr then { w with power := v.power - govSlashOf v.power ratio } else w) ∧
    (p.doPunish addr ratio).1.options = updAt p.options v.choice
        (fun o => { o with votes := o.votes - (if v.power - govSlashOf v.power ratio ≤ 0 then v.power else govSlashOf v.power ratio) }) ∧
    (p.doPunish addr ratio).1.hash = p.hash ∧ (p.doPunish addr ratio).1.start = p.start ∧
    (p.doPunish addr ratio).1.end_ = p.end_ ∧ (p.doPunish addr ratio).1.applying = p.applying ∧
    (p.doPunish addr ratio).1.optType = p.optType ∧ (p.doPunish addr ratio).1.major = p.major :=
  C14L.gov_punish_exact p addr ratio v hf hd

/-- the slashed voting power is `⌊power·ratio/100⌋` for int64 powers and ratios in 0..100 (the code goes
    through uint256/uint64 conversions) -/
theorem govSlash_floor {power ratio : Int} (hp : 0 ≤ power) (hp' : power < (two63 : Int)) (hr : 0 ≤ ratio) (hr' : ratio ≤ 100) :
    govSlashOf power ratio = power * ratio / 100 :=
  C14L.govSlashOf_eq_floor hp hp' hr hr'

/-- which proposals are touched: exactly the open proposals (as committed) that list the validator; each is
    replaced by its `doPunish`; nothing else in the state changes -/
theorem gov_punish_frame (s : St) (addr : Hex) :
    let s' := (govPunish s addr).1
    s'.accts = s.accts ∧ s'.delegs = s.delegs ∧ s'.frozen = s.frozen ∧ s'.rewards = s.rewards ∧ s'.fprops = s.fprops ∧
    s'.params = s.params ∧ s'.active = s.active ∧ s'.lastVals = s.lastVals ∧ s'.allDelegs = s.allDelegs ∧
    s'.limiter = s.limiter ∧ s'.blk = s.blk ∧ s'.lastHeight = s.lastHeight ∧
    s'.props.hist = s.props.hist ∧ s'.props.chk = s.props.chk ∧
    ∀ k : String, s'.props.fin[k]? =
      if k ∈ govTargets s addr then (s.props.fin[k]?).map (fun p => (p.doPunish addr s.active.slashRatio).1)
      else s.props.fin[k]? :=
  C14L.govPunish_frame s addr

/-! ## "no other validator, stake or account changes" -/

/-- the stake controller's evidence fold over `E` changes, in the consensus view of the delegatee ledger, only
    entries keyed by an address in `E`; accounts, unbonding stakes, rewards, proposals, parameters, committed
    history and mempool view are untouched -/
theorem slash_frame (E : List Hex) (s : St) :
    let s' := (stakeFold s E).1
    s'.accts = s.accts ∧ s'.frozen = s.frozen ∧ s'.rewards = s.rewards ∧ s'.props = s.props ∧ s'.fprops = s.fprops ∧
    s'.params = s.params ∧ s'.active = s.active ∧ s'.lastVals = s.lastVals ∧ s'.allDelegs = s.allDelegs ∧
    s'.limiter = s.limiter ∧ s'.blk = s.blk ∧
    s'.delegs.hist = s.delegs.hist ∧ s'.delegs.chk = s.delegs.chk ∧
    ∀ k : String, (∀ a ∈ E, k ≠ ledgerKey a) → s'.delegs.fin[k]? = s.delegs.fin[k]? :=
  C14L.stakeFold_frame E s

/-- `beginBlock` is: governance punish fold, eligible delegatees + limiter reset, stake punish fold, then the
    reward / missed-block phase (`votePhase`) -/
theorem beginBlock_phases (s : St) (h : Header) (hh : h.height = s.lastHeight + 1) :
    beginBlock s h =
      match amountToPower (afterGovPunish s h).1.active.minValidatorStake with
      | .panic p => ((afterGovPunish s h).1, { panic := p })
      | .ok minPower => votePhase (afterPunish s h minPower).1 h (afterPunish s h minPower).2 (afterGovPunish s h).2 :=
  C14L.beginBlock_phases s h hh

/-- at block level, for a block without votes (only the punish phase runs): `beginBlock` with evidence `E`
    changes only delegatee entries keyed by an address in `E`; accounts, unbonding stakes, rewards untouched -/
theorem slash_frame_block (s : St) (h : Header) (hh : h.height = s.lastHeight + 1) (hv : h.votes = [])
    (minPower : Int) (hmp : amountToPower s.active.minValidatorStake = .ok minPower) :
    let s' := (beginBlock s h).1
    s'.accts = s.accts ∧ s'.frozen = s.frozen ∧ s'.rewards = s.rewards ∧ s'.params = s.params ∧ s'.active = s.active ∧
    s'.delegs.hist = s.delegs.hist ∧ s'.delegs.chk = s.delegs.chk ∧
    ∀ k : String, (∀ a ∈ h.evidence, k ≠ ledgerKey a) → s'.delegs.fin[k]? = s.delegs.fin[k]? :=
  C14L.slash_frame_block s h hh hv minPower hmp

/-! ## jailing -/

/-- `CountInWindow` counts exactly the marked heights inside the inclusive window `[h0, h1]` -/
theorem countInWindow_count (hs : List Int) (hinc : Increasing hs) (h0 h1 : Int) :
    (countInWindow hs h0 h1).1 = winCount hs h0 h1 :=
  C14L.countInWindow_count hs hinc h0 h1

/-- pruning never drops a height a later window can see, provided the window's lower end does not move back
    (heights grow; NOTE a governance increase of `signedBlocksWindow` can move it back) -/
theorem pruning_safe (hs : List Int) (hinc : Increasing hs) (h0 h1 h0' h1' : Int) (hmono : h0 ≤ h0') :
    winCount (countInWindow hs h0 h1).2 h0' h1' = winCount hs h0' h1' ∧ Increasing (countInWindow hs h0 h1).2 :=
  ⟨C14L.winCount_pruned hs hinc h0 h1 h0' h1' hmono, C14L.countInWindow_pruned_increasing hs hinc h0 h1⟩

/-- "A validator whose signed blocks within the signing window fall below the required minimum …": for a vote
    that did not sign, of a validator known to the stake ledger, at block `H`: the delegatee entry disappears
    ⇔ `signedBlocksWindow − missed < minSignedBlocks`, `missed` = marked heights in
    `[max 0 (H−1−window), H−1]` after marking `H−1` (inclusive window of `window + 1` heights);
    "validators above the threshold are untouched": otherwise stakes, total, self and the unbonding ledger
    are unchanged. -/
theorem jail_iff (s : St) (H : Int) (rl : KMap Delegatee) (v : VoteIn) (issued : Nat) (d : Delegatee)
    (hs : v.signed = false) (hd : s.delegs.get true (ledgerKey v.addr) = some d) (hinc : Increasing d.notSigned) :
    ∃ s', processVote s H rl v issued = .ok (s', issued) ∧
      (s'.delegs.fin[ledgerKey d.addr]? = none ↔ JailCond s H d) ∧
      (¬ JailCond s H d → ∃ d', s'.delegs.fin[ledgerKey d.addr]? = some d' ∧ d'.stakes = d.stakes ∧
          d'.total = d.total ∧ d'.self = d.self ∧ s'.frozen = s.frozen) :=
  C14L.jail_iff s H rl v issued d hs hd hinc

/-- the exact outcome of that vote -/
theorem processVote_unsigned (s : St) (H : Int) (rl : KMap Delegatee) (v : VoteIn) (issued : Nat) (d : Delegatee)
    (hs : v.signed = false) (hd : s.delegs.get true (ledgerKey v.addr) = some d) (hinc : Increasing d.notSigned) :
    processVote s H rl v issued =
      .ok (if JailCond s H d then jailedState s H d else markedState s H d, issued) :=
  C14L.processVote_unsigned s H rl v issued d hs hd hinc

/-- "… has all stake bonded to it moved to unbonding and leaves the validator set": in the jailed state every
    stake of the validator sits in the unbonding ledger with refund height `H + lazyRewardBlocks`, the
    delegatee entry is deleted (so it is no longer eligible at the next `beginBlock` after commit), and nothing
    else changes.  Hypothesis: the stakes' ledger keys are pairwise different. -/
theorem jail_effect (s : St) (H : Int) (d : Delegatee) (hk : KeyNodup d.stakes) :
    let s' := jailedState s H d
    (∀ st ∈ d.stakes, s'.frozen.fin[ledgerKey st.hash]? = some { st with refund := H + s.active.lazyRewardBlocks }) ∧
    (∀ k : String, (∀ st ∈ d.stakes, ledgerKey st.hash ≠ k) → s'.frozen.fin[k]? = s.frozen.fin[k]?) ∧
    s'.frozen.hist = s.frozen.hist ∧ s'.frozen.chk = s.frozen.chk ∧
    s'.delegs.fin = s.delegs.fin.erase (ledgerKey d.addr) ∧
    s'.delegs.chk = s.delegs.chk.erase (ledgerKey d.addr) ∧ s'.delegs.hist = s.delegs.hist ∧
    s'.accts = s.accts ∧ s'.rewards = s.rewards ∧ s'.props = s.props ∧ s'.fprops = s.fprops ∧
    s'.params = s.params ∧ s'.active = s.active ∧ s'.lastVals = s.lastVals ∧ s'.allDelegs = s.allDelegs :=
  C14L.jail_effect s H d hk

/-- signers are untouched: a vote that signed never changes bonded or unbonding stakes, accounts, proposals -/
theorem signer_untouched (s : St) (H : Int) (rl : KMap Delegatee) (v : VoteIn) (issued : Nat)
    (hs : v.signed = true) (s' : St) (n : Nat) (h : processVote s H rl v issued = .ok (s', n)) :
    s'.delegs = s.delegs ∧ s'.frozen = s.frozen ∧ s'.accts = s.accts ∧ s'.props = s.props :=
  C14L.signer_untouched s H rl v issued hs s' n h

/-- **slash_jail_frame** (the block-level frame for blocks WITH votes and evidence): after `beginBlock`, a
    delegatee entry differs from before only if its address is in the evidence or it belongs to a non-signing
    vote — "a validator that signed is untouched", and so is every bystander.  The per-vote ledger look-ups
    are made in the state left by the slashing and by earlier votes; the fold invariant (`C14F.FrameInv`:
    entries outside the touched keys are unchanged and every entry keeps its address) carries the statement
    about the INITIAL ledger through.  Holds on panic paths too (`C14F.slash_jail_frame_any`). -/
theorem slash_jail_frame :
    ∀ (s : St) (h : Header), h.height = s.lastHeight + 1 → (beginBlock s h).2.panic = "" →
    ∀ k : String, (∀ a ∈ h.evidence, k ≠ ledgerKey a) →
      (∀ v ∈ h.votes, v.signed = false → ∀ d, s.delegs.fin[ledgerKey v.addr]? = some d → k ≠ ledgerKey d.addr) →
      (beginBlock s h).1.delegs.fin[k]? = s.delegs.fin[k]? :=
  C14F.slash_jail_frame

/-- non-vacuity: block 2 of a four-validator chain with evidence against E, A signing and B absent — the
    entries of A (signer) and C (bystander) are unchanged while those of B and E do change (`C14F.ex_touched`). -/
example := C14F.ex_hyps

/-! ## non-vacuity and a worked example -/

def exStakes : List Stake :=
  [{ owner := "aa", to := "aa", hash := "h1", power := 100, start := 1 },
   { owner := "bb", to := "aa", hash := "h2", power := 5, start := 2 },
   { owner := "cc", to := "aa", hash := "h3", power := 19, start := 3 }]
def exD : Delegatee := { addr := "aa", pub := "pa", self := 100, total := 124, stakes := exStakes, notSigned := [3, 5, 9] }

example : HashNodup exD.stakes := by simp [HashNodup, exD, exStakes]
example : KeyNodup exD.stakes := by simp [KeyNodup, exD, exStakes, ledgerKey]
example : Increasing exD.notSigned := by simp [Increasing, exD]
example : VotersDistinct [{ addr := "aa", power := 10, choice := 0 }, { addr := "bb", power := 5 }] := by simp [VotersDistinct]

/-- ratio 10: 100 ↦ 90 (slashed 10), 5 ↦ forfeited (⌊0.5⌋ = 0), 19 ↦ 18 (slashed 1); returned sum is 11 although
    16 units of power are gone -/
example : (exD.doSlash 10).1.stakes.map (·.power) = [90, 18] ∧ (exD.doSlash 10).2 = 11 ∧
    (exD.doSlash 10).1.total = 108 ∧ (exD.doSlash 10).1.self = 90 := by decide

end Rigo.C14
