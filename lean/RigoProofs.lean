import RigoProofs.Ledger
