import RigoDriver.Ledger

def main (args : List String) : IO UInt32 := do
  match args with
  | ["ledger"] => RigoDriver.Ledger.run; return 0
  | _ =>
    IO.eprintln s!"rigodriver: unknown component {args}"
    return 2
