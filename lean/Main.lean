import RigoDriver.Ledger
import RigoDriver.Signer
import RigoDriver.Rlp
import RigoDriver.EvmSync
import RigoDriver.Commit
import RigoDriver.App
import RigoDriver.Stake

def main (args : List String) : IO UInt32 := do
  match args with
  | ["ledger"] => RigoDriver.Ledger.run; return 0
  | ["signer"] => RigoDriver.Signer.run; return 0
  | ["rlp"] => RigoDriver.Rlp.run; return 0
  | ["evmsync"] => RigoDriver.EvmSync.run; return 0
  | ["commit"] => RigoDriver.Commit.run; return 0
  | ["app"] => RigoDriver.App.run; return 0
  | ["stake"] => RigoDriver.Stake.run; return 0
  | _ =>
    IO.eprintln s!"rigodriver: unknown component {args}"
    return 2
