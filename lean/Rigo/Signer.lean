/-
  C20 — executable model of the file-backed validator signer
  (/repo/types/crypto/sfile_pv.go: SFilePV, SFilePVLastSignState.CheckHRS, signVote,
  signProposal, saveSigned, Save, LoadSFilePV).

  What is abstract:
  * a message's canonical sign bytes are the record `SignBytes`
    (height, round, step-determining type, content id, timestamp).  The *content id* stands for
    every canonical field other than type/height/round/timestamp (block id, POL round, chain id);
    "differs only in timestamp" is therefore "equal in every field but `ts`".
  * `sign` is deterministic and a signature verifies against exactly the sign bytes it was made
    from (the signature *is* the signed record), so "which message does this signature verify
    against" is readable.  One key only (the key file is immutable).
  * `Save` (tempfile.WriteFileAtomic) is atomic: the process dies either before it (disk keeps the
    old record) or after it (disk holds the new record).  A signature is released to the caller only
    after `Save` returned (`saveSigned` precedes `vote.Signature = sig`).

  Core Lean only (the driver executable links this module).
-/
namespace Rigo.Signer

/-- height / round / step triple, ordered lexicographically -/
@[ext] structure HRS where
  h : Int
  r : Int
  s : Int
  deriving DecidableEq, Repr

def HRS.lt (a b : HRS) : Prop :=
  a.h < b.h ∨ (a.h = b.h ∧ (a.r < b.r ∨ (a.r = b.r ∧ a.s < b.s)))

def HRS.le (a b : HRS) : Prop := a.lt b ∨ a = b

instance (a b : HRS) : Decidable (a.lt b) := by unfold HRS.lt; exact inferInstance
instance (a b : HRS) : Decidable (a.le b) := by unfold HRS.le; exact inferInstance

/-- canonical sign bytes of a vote or proposal.  `step`: 1 = proposal, 2 = prevote, 3 = precommit
    (the canonical `type` field determines it). -/
structure SignBytes where
  height : Int
  round : Int
  step : Int
  content : Nat
  ts : Nat
  deriving DecidableEq, Repr

def SignBytes.hrs (sb : SignBytes) : HRS := ⟨sb.height, sb.round, sb.step⟩

/-- a signature; `signed` is the message it verifies against -/
structure Sig where
  signed : SignBytes
  deriving DecidableEq, Repr

def sign (sb : SignBytes) : Sig := ⟨sb⟩
def verify (sig : Sig) (sb : SignBytes) : Bool := decide (sig.signed = sb)

/-- `checkVotesOnlyDifferByTimestamp` / `checkProposalsOnlyDifferByTimestamp`:
    both timestamps are overwritten with the same value, then the messages are compared. -/
def onlyDifferByTimestamp (last new : SignBytes) : Bool :=
  decide ({ last with ts := 0 } = { new with ts := 0 })

/-- SFilePVLastSignState (without the file path) -/
structure LSS where
  height : Int := 0
  round : Int := 0
  step : Int := 0
  signBytes : Option SignBytes := none
  signature : Option Sig := none
  deriving DecidableEq, Repr

def LSS.hrs (l : LSS) : HRS := ⟨l.height, l.round, l.step⟩

inductive Err where
  | heightRegression | roundRegression | stepRegression | noSignBytes | conflict
  deriving DecidableEq, Repr

inductive PanicKind where
  | unknownVoteType   -- voteToStep
  | signatureNil      -- CheckHRS: "pv: Signature is nil but SignBytes is not!"
  deriving DecidableEq, Repr

/-- result of CheckHRS: `(false,nil)` = `fresh`, `(true,nil)` = `reuse` (carrying the stored
    SignBytes / Signature that the caller reads next), an error, or the panic. -/
inductive Chk where
  | fresh
  | reuse (last : SignBytes) (sig : Sig)
  | err (e : Err)
  | panic
  deriving DecidableEq, Repr

/-- SFilePVLastSignState.CheckHRS, branch for branch -/
def checkHRS (l : LSS) (h r s : Int) : Chk :=
  if l.height > h then .err .heightRegression
  else if l.height = h then
    if l.round > r then .err .roundRegression
    else if l.round = r then
      if l.step > s then .err .stepRegression
      else if l.step = s then
        match l.signBytes with
        | some last =>
          match l.signature with
          | none => .panic
          | some sig => .reuse last sig
        | none => .err .noSignBytes
      else .fresh
    else .fresh
  else .fresh

inductive VoteType where
  | prevote | precommit | unknown
  deriving DecidableEq, Repr

/-- a signing request: `vote h r type content ts` / `proposal h r content ts` -/
inductive Req where
  | vote (h r : Int) (t : VoteType) (content ts : Nat)
  | proposal (h r : Int) (content ts : Nat)
  deriving DecidableEq, Repr

/-- the request's canonical sign bytes; `none` = `voteToStep` panics on the vote type -/
def Req.signBytes? : Req → Option SignBytes
  | .vote h r .prevote c ts => some ⟨h, r, 2, c, ts⟩
  | .vote h r .precommit c ts => some ⟨h, r, 3, c, ts⟩
  | .vote _ _ .unknown _ _ => none
  | .proposal h r c ts => some ⟨h, r, 1, c, ts⟩

/-- what the signing computation arrives at -/
inductive Res where
  | fresh (sig : Sig)               -- new signature made (and the record saved)
  | same (sig : Sig)                -- identical sign bytes: stored signature
  | tsSame (sig : Sig) (ts : Nat)   -- differs only in timestamp: stored signature + stored timestamp
  | err (e : Err)
  | panic (p : PanicKind)
  deriving DecidableEq, Repr

/-- signVote / signProposal up to (excluding) `Save`: the result and, for a fresh signature, the
    new last-sign record that `saveSigned` writes into memory and then to disk. -/
def compute (l : LSS) (rq : Req) : Res × Option LSS :=
  match rq.signBytes? with
  | none => (.panic .unknownVoteType, none)
  | some sb =>
    match checkHRS l sb.height sb.round sb.step with
    | .err e => (.err e, none)
    | .panic => (.panic .signatureNil, none)
    | .reuse last sig =>
      if sb = last then (.same sig, none)
      else if onlyDifferByTimestamp last sb then (.tsSame sig last.ts, none)
      else (.err .conflict, none)
    | .fresh =>
      let sig := sign sb
      (.fresh sig, some ⟨sb.height, sb.round, sb.step, some sb, some sig⟩)

/-- process state: the in-memory record and its durable copy (the state file) -/
structure St where
  mem : LSS := {}
  disk : LSS := {}
  deriving DecidableEq, Repr

def St.init : St := {}

inductive Op where
  | sign (rq : Req)              -- SignVote / SignProposal returning to the caller
  | crashBeforeSave (rq : Req)   -- process dies inside the request, before the atomic file write
  | crashAfterSave (rq : Req)    -- process dies after the file write, before the reply is released
  | reload                       -- LoadSFilePV: memory := disk
  deriving DecidableEq, Repr

inductive Phase where
  | beforeSave | afterSave
  deriving DecidableEq, Repr

inductive Out where
  | reply (r : Res)                  -- returned to the caller (signature released if any)
  | crashed (p : Phase) (r : Res)    -- nothing returned; `r` = what had been computed; process restarted
  | reloaded
  deriving DecidableEq, Repr

/-- one operation. A crash loses the memory; the restarted process reloads from disk. -/
def step (s : St) : Op → St × Out
  | .sign rq =>
    match compute s.mem rq with
    | (res, some l') => (⟨l', l'⟩, .reply res)
    | (res, none) => (s, .reply res)
  | .crashBeforeSave rq =>
    (⟨s.disk, s.disk⟩, .crashed .beforeSave (compute s.mem rq).1)
  | .crashAfterSave rq =>
    match compute s.mem rq with
    | (res, some l') => (⟨l', l'⟩, .crashed .afterSave res)
    | (res, none) => (⟨s.disk, s.disk⟩, .crashed .afterSave res)
  | .reload => (⟨s.disk, s.disk⟩, .reloaded)

/-- one line of the history: the operation, what came out, the state afterwards -/
structure Entry where
  op : Op
  out : Out
  post : St
  deriving DecidableEq, Repr

def runFrom (s : St) : List Op → St
  | [] => s
  | op :: ops => runFrom (step s op).1 ops

def traceFrom (s : St) : List Op → List Entry
  | [] => []
  | op :: ops => ⟨op, (step s op).2, (step s op).1⟩ :: traceFrom (step s op).1 ops

/-- the history of an operation list from the initial signer (fresh key, empty state file) -/
def trace (ops : List Op) : List Entry := traceFrom St.init ops
def run (ops : List Op) : St := runFrom St.init ops

/-- the signature released to the caller by an output, if any -/
def Res.sig? : Res → Option Sig
  | .fresh s | .same s | .tsSame s _ => some s
  | _ => none

def Out.released : Out → Option Sig
  | .reply r => r.sig?
  | _ => none

/-- a fresh signature released to the caller -/
def Out.releasedFresh : Out → Option Sig
  | .reply (.fresh s) => some s
  | _ => none

/-- a fresh signature that was made durable (released or not) -/
def Out.persistedFresh : Out → Option Sig
  | .reply (.fresh s) => some s
  | .crashed .afterSave (.fresh s) => some s
  | _ => none

def Op.req? : Op → Option Req
  | .sign rq | .crashBeforeSave rq | .crashAfterSave rq => some rq
  | .reload => none

end Rigo.Signer
