/-
  RLP encoding as done by go-ethereum's `rlp` package (the encoder rigo-go uses for the signed
  pre-image of a transaction).  Bytes are `Nat`s (< 256) so that `omega` sees header arithmetic.

  * byte string of length 1 whose byte is < 0x80      -> the byte itself
  * byte string of length n ≤ 55                      -> (0x80 + n) ++ bytes
  * longer byte string                                -> (0xb7 + len(BE n)) ++ BE n ++ bytes
  * list with payload length n ≤ 55                   -> (0xc0 + n) ++ payload
  * longer list                                       -> (0xf7 + len(BE n)) ++ BE n ++ payload
  * unsigned integer                                  -> byte string of its minimal big-endian bytes
                                                         (0 -> empty string, i.e. 0x80)
  Core Lean only (linked into the driver executable).
-/
namespace Rigo.RLP

abbrev Bytes := List Nat

/-- minimal big-endian bytes with explicit fuel (structural, so that the kernel can evaluate it) -/
def beF : Nat → Nat → Bytes
  | 0, _ => []
  | f + 1, n => if n = 0 then [] else beF f (n / 256) ++ [n % 256]

/-- minimal big-endian bytes of a natural number (`0 ↦ []`), as `uint256.Int.Bytes()`,
    `big.Int.Bytes()` and rlp's integer encoding produce them -/
def beBytes (n : Nat) : Bytes := beF n n

/-- big-endian bytes → number -/
def ofBe (b : Bytes) : Nat := b.foldl (fun a x => a * 256 + x) 0

/-- RLP items -/
inductive Item where
  | str (b : Bytes)
  | list (l : List Item)
  deriving Repr, Inhabited

/-- length header: `off` is 0x80 for strings, 0xc0 for lists -/
def encLen (off n : Nat) : Bytes :=
  if n < 56 then [off + n] else (off + 55 + (beBytes n).length) :: beBytes n

/-- a byte string -/
def encStr (b : Bytes) : Bytes :=
  match b with
  | [x] => if x < 128 then [x] else [129, x]
  | _ => encLen 128 b.length ++ b

/-- an unsigned integer (any width: the Go encoder writes the minimal big-endian bytes) -/
def encUint (n : Nat) : Bytes := encStr (beBytes n)

mutual
  def encode : Item → Bytes
    | .str b => encStr b
    | .list l => encLen 192 (encodeList l).length ++ encodeList l
  def encodeList : List Item → Bytes
    | [] => []
    | x :: xs => encode x ++ encodeList xs
end

/-- an unsigned integer as an item -/
def Item.uint (n : Nat) : Item := .str (beBytes n)

end Rigo.RLP
