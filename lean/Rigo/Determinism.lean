/-
  C01 — model fragments for the nondeterminism inventory (/verif/expect/nondeterminism.json).

  Every site of the Go code on the consensus path that ranges over a Go map (iteration order is
  randomised per `range` statement) or calls `sort.Sort` is transcribed here with the node-local
  choice made EXPLICIT:

  * a map range is a fold over a list parameter `order`, an arbitrary permutation of the map's
    entries (Go visits every entry exactly once when the body does not insert/delete);
  * `sort.Sort(data)` is any function whose output `IsSortOf less input`: a permutation of the input
    without inversions with respect to `Less` (what a correct sorting algorithm guarantees, and all
    that is assumed about Go's pdqsort).

  The theorems (RigoProps/C01.lean) say that the value computed at each site does not depend on
  that choice.  Nothing here is used by the application model (`Rigo/Block.lean`); the frozen model
  already contains the canonical choices (`mergeSort`, ordered `toList`), and the theorems tie the
  fragments to those.
-/
import Rigo.Ledger.Impl
import Rigo.StakeLogic
import Rigo.Block

namespace Rigo.Determinism
open Rigo.Ledger

/-! ### `sort.Sort` -/

/-- the comparator `lt` (Go's `Less(i, j)`) is a strict total order on the elements of `l` -/
structure StrictTotalOn {α : Type} (lt : α → α → Bool) (l : List α) : Prop where
  irrefl : ∀ a ∈ l, lt a a = false
  trans : ∀ a ∈ l, ∀ b ∈ l, ∀ c ∈ l, lt a b = true → lt b c = true → lt a c = true
  total : ∀ a ∈ l, ∀ b ∈ l, a ≠ b → lt a b = true ∨ lt b a = true

/-- no inversion: for positions `i < j` NOT `Less(out[j], out[i])` — the post-condition of `sort.Sort` -/
def Sorted {α : Type} (lt : α → α → Bool) (l : List α) : Prop := l.Pairwise (fun a b => lt b a = false)

instance {α : Type} (lt : α → α → Bool) (l : List α) : Decidable (Sorted lt l) :=
  inferInstanceAs (Decidable (l.Pairwise _))

/-- `output` is an admissible result of `sort.Sort` on `input` with comparator `lt` -/
def IsSortOf {α : Type} (lt : α → α → Bool) (input output : List α) : Prop :=
  output.Perm input ∧ Sorted lt output

/-- delegatees / power objects are stored under their address: one entry per address -/
def DistinctAddr (ds : List Delegatee) : Prop := (ds.map (·.addr)).Nodup
def DistinctObjAddr (os : List (Hex × Int)) : Prop := (os.map (·.1)).Nodup
instance (ds : List Delegatee) : Decidable (DistinctAddr ds) := inferInstanceAs (Decidable (List.Nodup _))
instance (os : List (Hex × Int)) : Decidable (DistinctObjAddr os) := inferInstanceAs (Decidable (List.Nodup _))

/-- `LedgerKeyList.Less`: `bytes.Compare(a[i], a[j]) > 0` on 32-byte keys (`Key = Nat` is the
    big-endian value of the 32 bytes, so byte order is numeric order) -/
def keyDescLess (a b : Key) : Bool := decide (a > b)

/-- `AddressOrderDelegatees.Less`: `bytes.Compare(addr_i, addr_j) < 0` -/
def addrLess (a b : Delegatee) : Bool := decide (a.addr < b.addr)

/-- `powerOrderVoteOptions.Less`: `votes_i > votes_j` — NOT total on distinct options (ties) -/
def optionLess (a b : VoteOpt) : Bool := decide (a.votes > b.votes)

/-- the limiter's re-sort after an applied change (the `mergeSort` in `Limiter.check`) -/
def sortObjs (os : List (Hex × Int)) : List (Hex × Int) :=
  os.mergeSort (fun a b => Limiter.objLess a b || a == b)

/-! ### `FinalityLedger.Commit` (ledger/finality_ledger.go)

```go
for _, k := range removedKeys { tree.Remove(k) }                 // slice: fixed order
var keys LedgerKeyList
for k, _ := range updatedItems { keys = append(keys, k) }         // MAP RANGE
sort.Sort(keys)                                                   // bytes descending
for _, k := range keys { v := updatedItems[k]; tree.Set(v.Key(), v.Encode()) }
```
`updated` is the list of the entries of `updatedItems` in the order the range visited them. -/

def NodupKeys {β : Type} (l : List (Key × β)) : Prop := (l.map (·.1)).Nodup
instance {β : Type} (l : List (Key × β)) : Decidable (NodupKeys l) := inferInstanceAs (Decidable (List.Nodup _))

/-- the key slice after `sort.Sort(keys)` -/
def sortedKeys (updated : List (Key × Val)) : List Key :=
  (updated.map (·.1)).mergeSort (fun a b => decide (b ≤ a))

/-- the sequence of `tree.Set(key, value)` calls: sorted keys, each looked up in the map again -/
def sortedWrites (updated : List (Key × Val)) : List (Key × Val) :=
  (sortedKeys updated).filterMap fun k => (updated.lookup k).map fun v => (k, v)

/-- a mutation of the IAVL working tree -/
inductive TreeOp where
  | remove (k : Key)
  | set (k : Key) (v : Val)
  deriving Repr, DecidableEq

def TreeOp.apply (t : Map) : TreeOp → Map
  | .remove k => t.erase k
  | .set k v => t.insert k v

/-- the complete ordered call sequence `Commit` issues to the IAVL tree; the root hash is a function
    of the tree before and of this sequence (trusted: IAVL) -/
def commitOps (removed : List Key) (updated : List (Key × Val)) : List TreeOp :=
  removed.map .remove ++ (sortedWrites updated).map fun kv => .set kv.1 kv.2

/-- content of the working tree after `Commit` -/
def commitWrites (tree : Map) (removed : List Key) (updated : List (Key × Val)) : Map :=
  (commitOps removed updated).foldl TreeOp.apply tree

/-! ### `memItems.refresh` (ledger/mem_items.go)
`for k, v := range m.updatedItems { m.gotItems[k] = v }` -/

def refreshFold (got : Map) (order : List (Key × Val)) : Map :=
  order.foldl (fun g kv => g.insert kv.1 kv.2) got

/-! ### `StateDBWrapper.Finish` (ctrlers/vm/evm/statedb.go)

```go
for addr, _ := range s.accessedObjAddrs {                         // MAP RANGE
    amt, nonce := s.StateDB.GetBalance(addr), s.StateDB.GetNonce(addr)
    acct := s.acctHandler.FindOrNewAccount(addr, exec); acct.SetBalance(amt); acct.SetNonce(nonce)
    s.acctHandler.SetAccountCommittable(acct, exec) }
``` -/

/-- the EVM state the loop reads (not written by the loop) -/
structure EvmView where
  balance : Hex → Nat
  nonce : Hex → Nat

/-- one iteration on the native account map (consensus view), keyed by `ledgerKey addr` -/
def syncOutOne (evm : EvmView) (accts : KMap Account) (a : Hex) : KMap Account :=
  let acct : Account := (accts[ledgerKey a]?).getD { addr := a }      -- FindOrNewAccount
  accts.insert (ledgerKey a) { acct with bal := evm.balance a, nonce := evm.nonce a }

def finishSync (evm : EvmView) (accts : KMap Account) (order : List Hex) : KMap Account :=
  order.foldl (syncOutOne evm) accts

/-- the same loop as the application model runs it (`execEvm` in Rigo/App.lean, verbatim), over the
    observed `synced` list whose order is the order Go's range happened to take -/
def modelSyncOut (s : St) (synced : List (Hex × Nat × Nat)) : St :=
  synced.foldl (fun acc (a, bal, nonce) =>
    let (acc', ac) := acc.findOrNewAcct true a
    acc'.setAcct true { ac with bal := bal, nonce := nonce }) s

/-! ### `StateDBWrapper.revertAccessedObjAddr`

```go
for k, v := range s.accessedObjAddrs { if snapshot < v { revertAddrs = append(revertAddrs, k) } }   // MAP RANGE
for _, addr := range revertAddrs { delete(s.accessedObjAddrs, addr) }
``` -/

abbrev Accessed := Std.ExtTreeMap Hex Int compare

def revertAddrs (order : List (Hex × Int)) (snapshot : Int) : List Hex :=
  (order.filter fun kv => decide (snapshot < kv.2)).map (·.1)

def revertAccessed (m : Accessed) (order : List (Hex × Int)) (snapshot : Int) : Accessed :=
  (revertAddrs order snapshot).foldl (fun acc a => acc.erase a) m

/-! ### `GovCtrler.doPunish` (ctrlers/gov/ctrler.go)

```go
proposalLedger.IterateReadAllFinalityItems(func(prop) {            // ordered IAVL iteration
    for _, v := range prop.Voters {                                // MAP RANGE
        if bytes.Compare(v.Addr, targetAddr) == 0 { targetPropsKeys = append(targetPropsKeys, prop.Key()); break } } })
``` -/

/-- the inner loop over one proposal's voters in visiting order: was the key appended? -/
def voterLoop (target : Hex) : List Voter → Bool
  | [] => false
  | v :: vs => if v.addr == target then true else voterLoop target vs

/-- `targetPropsKeys`; `props` = committed proposals in key order, each with its voters in the order
    the range visited them -/
def punishTargets (props : List (String × List Voter)) (target : Hex) : List String :=
  (props.filter fun p => voterLoop target p.2).map (·.1)

/-- two views of the committed proposals that differ only in the order in which each proposal's
    `Voters` map was visited (same keys, in the same — IAVL — order) -/
inductive VoterOrderEquiv : List (String × List Voter) → List (String × List Voter) → Prop
  | nil : VoterOrderEquiv [] []
  | cons {k : String} {vs₁ vs₂ : List Voter} {ps qs : List (String × List Voter)} :
      vs₁.Perm vs₂ → VoterOrderEquiv ps qs → VoterOrderEquiv ((k, vs₁) :: ps) ((k, vs₂) :: qs)

/-! ### `GovProposal.updateMajorOption` (ctrlers/gov/proposal/proposal.go)

```go
sort.Sort(powerOrderVoteOptions(prop.Options))                    // Less: votes_i > votes_j  (TIES)
if prop.Options[0].Votes() >= prop.MajorityPower { prop.MajorOption = prop.Options[0] }
``` -/

/-- is the proposal frozen with a major option? (`none`: no options — index panic) -/
def freezeDecision (sorted : List VoteOpt) (majority : Int) : Option Bool :=
  sorted.head?.map fun top => decide (top.votes ≥ majority)

/-! ### what the application hash is computed from -/

/-- contents of the last saved version of each of the seven ledgers (the app hash is a hash over
    their IAVL root hashes) -/
def hashInputs (s : St) :=
  (s.accts.committed, s.delegs.committed, s.frozen.committed, s.rewards.committed,
   s.params.committed, s.props.committed, s.fprops.committed)

end Rigo.Determinism
