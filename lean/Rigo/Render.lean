/-
  Canonical text rendering of model states (shared by the driver's `dump` and the query model).
  The Go side renders the implementation's state with exactly the same format
  (harness/internal/appdrv/dump.go).
-/
import Rigo.Block

namespace Rigo.Render
open Rigo

def hx (s : String) : String := if s == "" then "-" else s

def joinOr (l : List String) (sep : String) : String := if l.isEmpty then "-" else sep.intercalate l

def showParams (p : Params) : String :=
  ",".intercalate [toString p.maxValidatorCnt, toString p.minValidatorStake, toString p.minDelegatorStake,
    toString p.rewardPerPower, toString p.lazyRewardBlocks, toString p.lazyApplyingBlocks, toString p.gasPrice,
    toString p.minTrxGas, toString p.maxTrxGas, toString p.maxBlockGas, toString p.minVotingPeriodBlocks,
    toString p.maxVotingPeriodBlocks, toString p.minSelfStakeRatio, toString p.maxUpdatableStakeRatio,
    toString p.maxIndividualStakeRatio, toString p.slashRatio, toString p.signedBlocksWindow,
    toString p.minSignedBlocks, toString p.version]

def showAccount (a : Account) : String :=
  s!"A:{hx a.addr}:{a.nonce}:{a.bal}:{hx a.code}:{hx a.name}:{hx a.doc}"
def showStake (sep : String) (s : Stake) : String :=
  sep.intercalate [hx s.owner, hx s.to, hx s.hash, toString s.power, toString s.start, toString s.refund]
def showDelegatee (d : Delegatee) : String :=
  s!"D:{hx d.addr}:{hx d.pub}:{d.self}:{d.total}:{d.slashed}:{joinOr (d.stakes.map (showStake "/")) ";"}:{joinOr (d.notSigned.map toString) ";"}"
def showReward (r : Reward) : String :=
  s!"R:{hx r.addr}:{r.issued}:{r.withdrawn}:{r.slashed}:{r.cumulated}:{r.height}"
def showProposal (tag : String) (p : Proposal) : String :=
  let voters := joinOr (p.voters.map fun v => s!"{hx v.addr}/{v.power}/{v.choice}") ";"
  let opts := joinOr (p.options.map fun o => s!"{hx o.raw}/{o.votes}") ";"
  let major := match p.major with | some o => s!"{hx o.raw}/{o.votes}" | none => "-"
  s!"{tag}:{hx p.hash}:{p.start}:{p.end_}:{p.applying}:{p.total}:{p.majority}:{p.optType}:{voters}:{opts}:{major}"

/-- canonical dump of the consensus view -/
def dump (s : St) : String :=
  let parts :=
    (s.accts.fin.toList.map fun (_, a) => showAccount a) ++
    (s.delegs.fin.toList.map fun (_, d) => showDelegatee d) ++
    (s.frozen.fin.toList.map fun (_, f) => "F:" ++ showStake ":" f) ++
    (s.rewards.fin.toList.map fun (_, r) => showReward r) ++
    (s.props.fin.toList.map fun (_, p) => showProposal "P" p) ++
    (s.fprops.fin.toList.map fun (_, p) => showProposal "FP" p) ++
    (s.params.fin.toList.map fun (_, p) => "G:" ++ showParams p) ++
    ["GA:" ++ showParams s.active,
     "GN:" ++ (match s.pending with | some p => showParams p | none => "-"),
     "V:" ++ joinOr (s.lastVals.map fun d => s!"{hx d.addr}/{d.total}") ";"]
  " ".intercalate parts


end Rigo.Render
