/-
  The byte string a rigo-go transaction signature is made over
  (/repo/ctrlers/types/trx.go: `trxRPL`, `Trx.EncodeRLP`, `PreImageToSignTrxRLP`, `VerifyTrxRLP`;
  payload encoders in trx_{staking,voting,proposal,setdoc,withdraw,contract}.go) and the
  signature step of `commonValidation0` (/repo/node/trx_executor.go).

      preimage = "\x19RIGO(" ++ chainId ++ ") Signed Message:\n" ++ decimal(len rlp) ++ rlp
      rlp      = RLP list [uint64(Version), uint64(Time), Nonce, From, To, Amount.Bytes(), Gas,
                           GasPrice.Bytes(), uint64(Type), rlp(Payload) or empty, Sig (nil while signing)]

  `Trx` is the *decoded* transaction (what `Trx.fromProto` produces): transfer and staking carry no
  payload (`Payload.none`; the client-side empty structs `TrxPayloadAssetTransfer{}` and
  `TrxPayloadStaking{}` write nothing in `EncodeRLP`, hence give the same empty payload bytes).
  Core Lean only.
-/
import Rigo.RLP
namespace Rigo.Preimage
open Rigo.RLP

/-! ### Go integer conversions, as the encoders apply them -/

/-- `uint64(x)` for `x : int64` (two's complement re-interpretation): `Time`, proposal heights -/
def i64ToU64 (x : Int) : Nat := (x % 18446744073709551616).toNat
/-- `uint64(x)` for `x : int32` (sign-extending: a negative `x` gives `2^64 - |x|`): `Type` -/
def i32ToU64 (x : Int) : Nat := (x % 18446744073709551616).toNat
/-- `uint32(x)` for `x : int32`: `Choice`, `OptType` -/
def i32ToU32 (x : Int) : Nat := (x % 4294967296).toNat
/-- `uint64(x)` for `x : uint32`: `Version` -/
def u32ToU64 (x : Nat) : Nat := x

def InI64 (x : Int) : Prop := -9223372036854775808 ≤ x ∧ x < 9223372036854775808
def InI32 (x : Int) : Prop := -2147483648 ≤ x ∧ x < 2147483648
def InU32 (x : Nat) : Prop := x < 4294967296
def InU64 (x : Nat) : Prop := x < 18446744073709551616
def InU256 (x : Nat) : Prop :=
  x < 115792089237316195423570985008687907853269984665640564039457584007913129639936

instance (x : Int) : Decidable (InI64 x) := by unfold InI64; infer_instance
instance (x : Int) : Decidable (InI32 x) := by unfold InI32; infer_instance
instance (x : Nat) : Decidable (InU32 x) := by unfold InU32; infer_instance
instance (x : Nat) : Decidable (InU64 x) := by unfold InU64; infer_instance
instance (x : Nat) : Decidable (InU256 x) := by unfold InU256; infer_instance

/-! ### The decoded transaction -/

/-- payload of a decoded transaction (`ITrxPayload`); `none` for transfer and staking -/
inductive Payload where
  | none
  | unstaking (txHash : Bytes)
  | proposal (message : Bytes) (start period applying : Int) (optType : Int) (options : List Bytes)
  | voting (txHash : Bytes) (choice : Int)
  | contract (data : Bytes)
  | setdoc (name url : Bytes)
  | withdraw (reqAmt : Nat)
  deriving DecidableEq, Repr, Inhabited

/-- `Trx` (`sender` = `From`, `receiver` = `To`) -/
structure Trx where
  version : Nat      -- uint32
  time : Int         -- int64
  nonce : Nat        -- uint64
  sender : Bytes     -- types.Address ([]byte of any length at this level)
  receiver : Bytes
  amount : Nat       -- *uint256.Int
  gas : Nat          -- uint64
  gasPrice : Nat     -- *uint256.Int
  type : Int         -- int32
  payload : Payload
  sig : Bytes
  deriving DecidableEq, Repr, Inhabited

/-- constructor tag; equal to the transaction type the payload belongs to (0 = no payload) -/
def Payload.tag : Payload → Nat
  | .none => 0 | .unstaking .. => 3 | .proposal .. => 4 | .voting .. => 5
  | .contract .. => 6 | .setdoc .. => 7 | .withdraw .. => 8

/-- which payload `Trx.fromProto` builds for a transaction type (TRX_TRANSFER = 1, TRX_STAKING = 2:
    none; every other type outside 3..8 is rejected by `fromProto`, modelled as "no payload") -/
def tagOfType (ty : Int) : Nat :=
  if ty = 3 then 3 else if ty = 4 then 4 else if ty = 5 then 5 else if ty = 6 then 6
  else if ty = 7 then 7 else if ty = 8 then 8 else 0

/-- ranges of the Go field types of a payload -/
def WFPayload : Payload → Prop
  | .none => True
  | .unstaking _ => True
  | .proposal _ s p a o _ => InI64 s ∧ InI64 p ∧ InI64 a ∧ InI32 o
  | .voting _ c => InI32 c
  | .contract _ => True
  | .setdoc _ _ => True
  | .withdraw r => InU256 r

instance (p : Payload) : Decidable (WFPayload p) := by
  cases p <;> (simp only [WFPayload]; infer_instance)

/-- A transaction as Go can represent it after `fromProto`: every field within the range of its Go
    type and the payload object of the kind selected by `Type`.  Byte-string lengths are arbitrary. -/
def WFTrx (t : Trx) : Prop :=
  InU32 t.version ∧ InI64 t.time ∧ InU64 t.nonce ∧ InU256 t.amount ∧ InU64 t.gas ∧
  InU256 t.gasPrice ∧ InI32 t.type ∧ WFPayload t.payload ∧ t.payload.tag = tagOfType t.type

instance (t : Trx) : Decidable (WFTrx t) := by unfold WFTrx; infer_instance

/-- the fields a signature is supposed to cover (everything but `sig`) -/
structure SignedFields where
  version : Nat
  time : Int
  nonce : Nat
  sender : Bytes
  receiver : Bytes
  amount : Nat
  gas : Nat
  gasPrice : Nat
  type : Int
  payload : Payload
  deriving DecidableEq, Repr

def signedFields (t : Trx) : SignedFields :=
  ⟨t.version, t.time, t.nonce, t.sender, t.receiver, t.amount, t.gas, t.gasPrice, t.type, t.payload⟩

/-! ### Encoding -/

/-- the RLP item a payload's `EncodeRLP` writes (`none`: nothing is written) -/
def payloadItem : Payload → Option Item
  | .none => none
  | .unstaking h => some (.str h)
  | .proposal m s p a o opts =>
      some (.list [.str m, .uint (i64ToU64 s), .uint (i64ToU64 p), .uint (i64ToU64 a),
                   .uint (i32ToU32 o), .list (opts.map .str)])
  | .voting h c => some (.list [.str h, .uint (i32ToU32 c)])
  | .contract d => some (.str d)
  | .setdoc n u => some (.list [.str n, .str u])
  | .withdraw r => some (.str (beBytes r))

/-- `rlp.EncodeToBytes(tx.Payload)`, or empty when there is no payload -/
def payloadBytes (p : Payload) : Bytes :=
  match payloadItem p with
  | none => []
  | some i => encode i

/-- `trxRPL` with the given signature bytes -/
def trxItem (t : Trx) (sig : Bytes) : Item :=
  .list [.uint (u32ToU64 t.version), .uint (i64ToU64 t.time), .uint t.nonce, .str t.sender,
         .str t.receiver, .str (beBytes t.amount), .uint t.gas, .str (beBytes t.gasPrice),
         .uint (i32ToU64 t.type), .str (payloadBytes t.payload), .str sig]

/-- `rlp.EncodeToBytes(tx)` (signature included) -/
def rlpTrx (t : Trx) : Bytes := encode (trxItem t t.sig)

/-- `rlp.EncodeToBytes(tx)` with `tx.Sig = nil`, as `PreImageToSignTrxRLP` computes it -/
def rlpTrxUnsigned (t : Trx) : Bytes := encode (trxItem t [])

/-- decimal ASCII digits with explicit fuel -/
def decF : Nat → Nat → Bytes
  | 0, n => [48 + n % 10]
  | f + 1, n => if n < 10 then [48 + n] else decF f (n / 10) ++ [48 + n % 10]

/-- `fmt.Sprintf("%d", n)` -/
def decBytes (n : Nat) : Bytes := decF n n

/-- `"\x19RIGO("` -/
def magic : Bytes := [25, 82, 73, 71, 79, 40]
/-- `") Signed Message:\n"` -/
def sep : Bytes := [41, 32, 83, 105, 103, 110, 101, 100, 32, 77, 101, 115, 115, 97, 103, 101, 58, 10]

/-- `PreImageToSignTrxRLP(tx, chainId)` -/
def preimage (chainId : Bytes) (t : Trx) : Bytes :=
  magic ++ (chainId ++ (sep ++ (decBytes (rlpTrxUnsigned t).length ++ rlpTrxUnsigned t)))

/-- Chain ids for which the framing parses uniquely: the chain id does not contain the 18-byte
    separator `") Signed Message:\n"` as a contiguous substring.  (Every chain id without a
    line feed, or without `')'`, qualifies.) -/
def WFChainId (c : Bytes) : Prop := ¬ sep <:+: c

instance (c : Bytes) : Decidable (WFChainId c) := by unfold WFChainId; infer_instance

/-! ### The signature step of the executor -/

inductive VErr where
  | invalidAddress | invalidAmount | invalidGas | invalidGasPrice | invalidTrxSig
  deriving DecidableEq, Repr

/-- what `commonValidation0` reads from the `TrxContext` -/
structure VCtx where
  chainId : Bytes
  /-- `ctx.Exec`: true on the DeliverTx path, false for CheckTx -/
  exec : Bool
  govGasPrice : Nat
  minTrxFee : Nat

/-- `VerifyTrxRLP`: recover the signer of `tx.Sig` over the pre-image (`crypto.Sig2Addr`:
    SHA-256 then secp256k1 public-key recovery, abstracted as `recover`), compare with `From`. -/
def verifyTrxRLP (recover : Bytes → Bytes → Option Bytes) (chainId : Bytes) (t : Trx) :
    Except VErr Bytes :=
  match recover (preimage chainId t) t.sig with
  | none => .error .invalidTrxSig
  | some a => if a = t.sender then .ok a else .error .invalidTrxSig

/-- `commonValidation0` (uint256 `Sign() < 0` can never hold and is omitted) -/
def commonValidation0 (recover : Bytes → Bytes → Option Bytes) (ctx : VCtx) (t : Trx) :
    Except VErr Unit :=
  if t.sender.length ≠ 20 then .error .invalidAddress
  else if t.receiver.length ≠ 20 then .error .invalidAddress
  else if t.gas > 9223372036854775807 then .error .invalidGas
  else if t.gasPrice ≠ ctx.govGasPrice then .error .invalidGasPrice
  else if (t.gasPrice * t.gas) %
      115792089237316195423570985008687907853269984665640564039457584007913129639936
      < ctx.minTrxFee then .error .invalidGas
  else if ctx.exec then
    match verifyTrxRLP recover ctx.chainId t with
    | .ok _ => .ok ()
    | .error e => .error e
  else .ok ()

end Rigo.Preimage
