/-
  The application model: `RigoApp` (node/app.go, node/trx_executor.go) over the account, stake,
  governance and EVM controllers, at the ledger abstraction proved in C18 (`Led`).
  The EVM interpreter, signature recovery, protobuf/JSON decoding and Tendermint are parameters:
  their observed results arrive inside the operations (`TxIn.sigOk`, `TxIn.evm`, parsed options).
-/
import Rigo.StakeLogic

namespace Rigo

structure BlockCtx where
  height : Int
  time : Int := 0
  proposer : Hex := ""        -- "" = nil proposer address
  feeSum : Nat := 0
  deriving Repr, DecidableEq, Inhabited

inductive Payload where
  | none
  | unstaking (hash : Hex)
  | withdraw (req : Nat)
  | proposal (msg : Hex) (start period applying optType : Int) (opts : List VoteOpt)
  | voting (hash : Hex) (choice : Int)
  | contract (data : Hex)
  | setdoc (name url : Hex) (nameLen urlLen : Nat)
  deriving Repr, Inhabited

/-- what go-ethereum did with one contract execution, as observed on the real run -/
structure EvmOracle where
  ok : Bool
  failKind : String := ""
  gasUsed : Nat := 0
  accessed : List Hex := []                 -- addresses synced in (native account found or created)
  synced : List (Hex × Nat × Nat) := []     -- addresses synced out on success: balance, nonce
  created : Hex := ""                       -- created contract address ("" = not a deployment)
  deriving Repr, Inhabited

structure TxIn where
  decodable : Bool := true
  hash : Hex := ""
  sigOk : Bool := false
  pub : Hex := ""
  version : Nat := 0
  time : Int := 0
  nonce : Nat := 0
  from_ : Hex := ""
  to : Hex := ""
  amount : Nat := 0
  gas : Nat := 0
  price : Nat := 0
  type : Int := 0
  payload : Payload := .none
  evm : Option EvmOracle := none
  deriving Repr, Inhabited

structure TxOut where
  code : Nat := 0
  kind : String := "ok"
  gasUsed : Nat := 0
  gasWanted : Nat := 0
  panic : String := ""
  deriving Repr, DecidableEq, Inhabited

def TRX_TRANSFER : Int := 1
def TRX_STAKING : Int := 2
def TRX_UNSTAKING : Int := 3
def TRX_PROPOSAL : Int := 4
def TRX_VOTING : Int := 5
def TRX_CONTRACT : Int := 6
def TRX_SETDOC : Int := 7
def TRX_WITHDRAW : Int := 8
def PROPOSAL_GOVPARAMS : Int := 257
def MAX_ACCT_NAME : Nat := 2048
def maxInt64 : Nat := 2 ^ 63 - 1

/-- ghost counters used by the theorems (not part of the implementation's state) -/
structure Ghost where
  withdrawn : Nat := 0        -- rewards credited to balances by successful withdrawals
  feeBurn : Nat := 0          -- fee sums of blocks without proposer
  refunds : List (Hex × Hex × Int × Int) := []   -- (stake hash, owner, power, height) credited at block end
  deriving Repr, Inhabited

structure St where
  chainId : Hex := ""
  accts : Led Account := {}
  delegs : Led Delegatee := {}
  frozen : Led Stake := {}
  rewards : Led Reward := {}
  params : Led Params := {}
  props : Led Proposal := {}
  fprops : Led Proposal := {}
  active : Params := default
  pending : Option Params := none
  allDelegs : List Delegatee := []
  lastVals : List Delegatee := []
  limiter : Limiter := {}
  blk : Option BlockCtx := none
  lastHeight : Int := 0
  ghost : Ghost := {}

/-! ### accounts (ctrlers/account, ctrlers/types/account.go) -/

def St.findAcct (s : St) (exec : Bool) (addr : Hex) : Option Account := s.accts.get exec (ledgerKey addr)
def St.setAcct (s : St) (exec : Bool) (a : Account) : St := { s with accts := s.accts.set exec (ledgerKey a.addr) a }

/-- `FindOrNewAccount`: a missing account is created (and marked for commit) at once -/
def St.findOrNewAcct (s : St) (exec : Bool) (addr : Hex) : St × Account :=
  match s.findAcct exec addr with
  | some a => (s, a)
  | none => let a : Account := { addr := addr }; (s.setAcct exec a, a)

/-- `Account.AddBalance`: rejects a "negative" amount, wraps otherwise -/
def addBalance (a : Account) (amt : Nat) : Option Account :=
  if isNeg256 amt then none else some { a with bal := wadd a.bal amt }

/-- `Account.SubBalance` -/
def subBalance (a : Account) (amt : Nat) : Option Account :=
  if isNeg256 amt then none else if amt > a.bal then none else some { a with bal := wsub a.bal amt }

/-- `AcctCtrler.Reward(to, amt)`: account must exist -/
def St.reward (s : St) (exec : Bool) (to : Hex) (amt : Nat) : Option St :=
  match s.findAcct exec to with
  | none => none
  | some a => match addBalance a amt with
    | none => none
    | some a' => some (s.setAcct exec a')

/-! ### governance parameters (ctrlers/types/gov_params.go) -/

/-- `MergeGovParams(old, new)`: zero / nil fields of the option keep the old value -/
def mergeParams (old : Params) (n : POpt) : Params :=
  let big (o : Nat) (x : Option Nat) : Nat := match x with | some v => if v = 0 then o else v | none => o
  let i (o x : Int) : Int := if x = 0 then o else x
  let u (o x : Nat) : Nat := if x = 0 then o else x
  { maxValidatorCnt := i old.maxValidatorCnt n.maxValidatorCnt
    minValidatorStake := big old.minValidatorStake n.minValidatorStake
    minDelegatorStake := big old.minDelegatorStake n.minDelegatorStake
    rewardPerPower := big old.rewardPerPower n.rewardPerPower
    lazyRewardBlocks := i old.lazyRewardBlocks n.lazyRewardBlocks
    lazyApplyingBlocks := i old.lazyApplyingBlocks n.lazyApplyingBlocks
    gasPrice := big old.gasPrice n.gasPrice
    minTrxGas := u old.minTrxGas n.minTrxGas
    maxTrxGas := u old.maxTrxGas n.maxTrxGas
    maxBlockGas := u old.maxBlockGas n.maxBlockGas
    minVotingPeriodBlocks := i old.minVotingPeriodBlocks n.minVotingPeriodBlocks
    maxVotingPeriodBlocks := i old.maxVotingPeriodBlocks n.maxVotingPeriodBlocks
    minSelfStakeRatio := i old.minSelfStakeRatio n.minSelfStakeRatio
    maxUpdatableStakeRatio := i old.maxUpdatableStakeRatio n.maxUpdatableStakeRatio
    maxIndividualStakeRatio := i old.maxIndividualStakeRatio n.maxIndividualStakeRatio
    slashRatio := i old.slashRatio n.slashRatio
    signedBlocksWindow := i old.signedBlocksWindow n.signedBlocksWindow
    minSignedBlocks := i old.minSignedBlocks n.minSignedBlocks
    version := i old.version n.version }

def Params.minTrxFee (p : Params) : Nat := wmul p.minTrxGas p.gasPrice

/-! ### validation (node/trx_executor.go) -/

/-- error result of a validation / execution step: kind, or a Go panic -/
inductive Fail where
  | err (kind : String)
  | panic (site : String)
  deriving Repr

abbrev Step (α : Type) := Except Fail α

def ofRes {α : Type} : Res α → Step α
  | .ok a => .ok a
  | .panic s => .error (.panic s)

/-- `commonValidation0` -/
def commonValidation0 (s : St) (exec : Bool) (tx : TxIn) : Step Unit := do
  if byteLen tx.from_ ≠ 20 then throw (.err "address")
  if byteLen tx.to ≠ 20 then throw (.err "address")
  if isNeg256 tx.amount then throw (.err "amount")
  if tx.gas > maxInt64 then throw (.err "gas")
  if isNeg256 tx.price ∨ tx.price ≠ s.active.gasPrice then throw (.err "gasprice")
  if wmul tx.price tx.gas < s.active.minTrxFee then throw (.err "minfee")
  if exec ∧ !tx.sigOk then throw (.err "sig")

/-- `commonValidation1` -/
def commonValidation1 (sender : Account) (tx : TxIn) : Step Unit := do
  let need := wadd (wmul tx.price tx.gas) tx.amount
  if need > sender.bal then throw (.err "funds")
  if sender.nonce ≠ tx.nonce then throw (.err "nonce")

/-! ### stake controller: ValidateTrx (ctrlers/stake/ctrler.go) -/

def St.isValidator (s : St) (addr : Hex) : Bool := s.lastVals.any (·.addr == addr)

/-- limiter call shared by staking / unstaking validation; DeliverTx records, CheckTx evaluates -/
def St.limit (s : St) (exec : Bool) (dAddr : Hex) (dTotal diff : Int) : Step St :=
  if s.lastVals.length ≥ 3 then
    match s.limiter.check dAddr dTotal diff exec with
    | .ok l => .ok { s with limiter := l }
    | .reject _ => .error (.err "limiter")
    | .panic site => .error (.panic site)
  else .ok s

def validateStaking (s : St) (exec : Bool) (tx : TxIn) : Step St := do
  let q := tx.amount / amountPerPower
  if q = 0 then throw (.err "stakeamt")
  if tx.amount % amountPerPower ≠ 0 then throw (.err "stakeamt")
  let txPower ← ofRes (amountToPower tx.amount)
  let d? := s.delegs.get exec (ledgerKey tx.to)
  let totalPower ←
    if tx.from_ == tx.to then do
      let selfPower := match d? with | some d => txPower + d.self | none => txPower
      let minPower ← ofRes (amountToPower s.active.minValidatorStake)
      if selfPower < minPower then throw (.err "minvalstake")
      pure (match d? with | some d => d.total | none => (0 : Int))
    else do
      match d? with
      | none => throw (.err "nodelegatee")
      | some d =>
        let minDel ← ofRes (amountToPower s.active.minDelegatorStake)
        if minDel > 0 ∧ minDel > txPower then throw (.err "mindelstake")
        let ratio ← ofRes (d.selfStakeRatio txPower)
        if ratio < s.active.minSelfStakeRatio then throw (.err "selfratio")
        pure d.total
  if totalPower + txPower ≤ 0 ∨ totalPower + txPower ≥ (two63 : Int) then
    throw (.panic "delegatee power overflow")
  let dTotal := match d? with | some d => d.total | none => (0 : Int)
  s.limit exec tx.to dTotal txPower

def validateUnstaking (s : St) (exec : Bool) (tx : TxIn) : Step St := do
  match s.delegs.get exec (ledgerKey tx.to) with
  | none => throw (.err "notfound")
  | some d =>
    match tx.payload with
    | .unstaking hash =>
      if byteLen hash ≠ 32 then throw (.err "payloadparams")
      match d.findStake hash with
      | none => throw (.err "nostake")
      | some st =>
        if tx.from_ ≠ st.owner then throw (.err "notowner")
        s.limit exec d.addr d.total (-st.power)
    | _ => throw (.panic "type assertion: payload is not TrxPayloadUnstaking")

def validateWithdraw (s : St) (exec : Bool) (tx : TxIn) : Step St := do
  if tx.amount ≠ 0 then throw (.err "wdamount")
  match tx.payload with
  | .withdraw req =>
    match s.rewards.get exec (ledgerKey tx.from_) with
    | none => throw (.err "notfound")
    | some r => if req > r.cumulated then throw (.err "noreward") else pure s
  | _ => throw (.err "payloadtype")

/-! ### governance controller: ValidateTrx (ctrlers/gov/ctrler.go) -/

def validateProposal (s : St) (exec : Bool) (height : Int) (tx : TxIn) : Step St := do
  if !(byteLen tx.to == 20 ∧ isZeroAddr tx.to) then throw (.err "tozero")
  if !s.isValidator tx.from_ then throw (.err "noright")
  match tx.payload with
  | .proposal _ start period applying optType opts =>
    if (s.props.get exec (ledgerKey tx.hash)).isSome then throw (.err "dupkey")
    if start ≤ height then throw (.err "payloadparams")
    if period > s.active.maxVotingPeriodBlocks ∨ period < s.active.minVotingPeriodBlocks then throw (.err "payloadparams")
    -- every option must unmarshal as submitted AND in the form applyProposals reads it (repair: hotfixOption)
    if optType = PROPOSAL_GOVPARAMS ∧ opts.any (fun o => o.parsedV.isNone || o.parsedA.isNone) then throw (.err "payloadparams")
    -- Go computes both sums in int64: an overflow of the first is caught by the next test (issue #51), an
    -- overflow of the second is not (`minApplying` wraps to a negative number and the proposal is accepted)
    let endH := wrapInt64 (start + period)
    let minApplying := wrapInt64 (endH + s.active.lazyApplyingBlocks)
    if start > endH then throw (.err "payloadparams")
    if applying < minApplying ∨ endH > applying then throw (.err "payloadparams")
    if opts.isEmpty then throw (.err "payloadparams")
    pure s
  | _ => throw (.err "payloadtype")

def validateVoting (s : St) (exec : Bool) (height : Int) (tx : TxIn) : Step St := do
  if !(byteLen tx.to == 20 ∧ isZeroAddr tx.to) then throw (.err "tozero")
  match tx.payload with
  | .voting hash choice =>
    match s.props.get exec (ledgerKey hash) with
    | none => throw (.err "notfound")
    | some p =>
      if !p.voters.any (·.addr == tx.from_) then throw (.err "noright")
      if choice < 0 ∨ choice ≥ p.options.length then throw (.err "payloadparams")
      if height > p.end_ ∨ height < p.start then throw (.err "notvoting")
      pure s
  | _ => throw (.err "payloadtype")

/-! ### EVM controller: ValidateTrx (ctrlers/vm/evm/ctrler.go) -/

/-- go-ethereum `IntrinsicGas(data, nil, isCreate, homestead = true, istanbul = true)` -/
def intrinsicGas (data : Hex) (isCreate : Bool) : Nat :=
  let bytes := data.toList
  let rec go : List Char → Nat → Nat → Nat × Nat
    | a :: b :: rest, z, nz => if a == '0' ∧ b == '0' then go rest (z + 1) nz else go rest z (nz + 1)
    | _, z, nz => (z, nz)
  let (z, nz) := go bytes 0 0
  (if isCreate then 53000 else 21000) + nz * 16 + z * 4

def validateEvm (s : St) (tx : TxIn) (receiver : Account) : Step St := do
  if tx.type ≠ TRX_CONTRACT ∧ receiver.code == "" then throw (.err "unknowntype")
  let data := match tx.payload with | .contract d => d | _ => ""
  if tx.gas < intrinsicGas data (isZeroAddr tx.to) then throw (.err "gas")
  pure s

/-- `validateTrx`: common validation then the per-type handler -/
def validateTrx (s : St) (exec : Bool) (height : Int) (tx : TxIn) (sender receiver : Account) : Step St := do
  commonValidation0 s exec tx
  commonValidation1 sender tx
  if tx.type = TRX_PROPOSAL then validateProposal s exec height tx
  else if tx.type = TRX_VOTING then validateVoting s exec height tx
  else if tx.type = TRX_TRANSFER then pure s
  else if tx.type = TRX_SETDOC then
    match tx.payload with
    | .setdoc _ _ nl ul =>
      if nl > MAX_ACCT_NAME then throw (.err "payloadparams")
      if ul > MAX_ACCT_NAME then throw (.err "payloadparams")
      pure s
    | _ => throw (.panic "type assertion: payload is not TrxPayloadSetDoc")
  else if tx.type = TRX_STAKING then validateStaking s exec tx
  else if tx.type = TRX_UNSTAKING then validateUnstaking s exec tx
  else if tx.type = TRX_WITHDRAW then validateWithdraw s exec tx
  else if tx.type = TRX_CONTRACT then validateEvm s tx receiver
  else throw (.err "unknowntype")

/-! ### execution -/

/-- result of running a transaction body: new state and gas used by the EVM (if it ran) -/
structure RunOut where
  st : St
  evmGas : Option Nat := none
  fail : Option String := none    -- the body failed *after* leaving effects in `st` (EVM path only)

def execTransfer (s : St) (exec : Bool) (tx : TxIn) : Step RunOut := do
  -- sender and receiver objects are the cached ledger items (one object when the keys coincide)
  let some sender := s.findAcct exec tx.from_ | throw (.err "noacct")
  if ledgerKey tx.from_ == ledgerKey tx.to then
    match subBalance sender tx.amount with
    | none => throw (.err "funds")
    | some a1 => match addBalance a1 tx.amount with
      | none => throw (.err "amount")
      | some a2 => pure { st := s.setAcct exec a2 }
  else
    let some receiver := s.findAcct exec tx.to | throw (.err "noacct")
    match subBalance sender tx.amount with
    | none => throw (.err "funds")
    | some a1 => match addBalance receiver tx.amount with
      | none => throw (.err "amount")
      | some r1 => pure { st := (s.setAcct exec a1).setAcct exec r1 }

def execSetDoc (s : St) (exec : Bool) (tx : TxIn) : Step RunOut := do
  let some sender := s.findAcct exec tx.from_ | throw (.err "noacct")
  match tx.payload with
  | .setdoc name url _ _ => pure { st := s.setAcct exec { sender with name := name, doc := url } }
  | _ => throw (.panic "type assertion: payload is not TrxPayloadSetDoc")

def execStaking (s : St) (exec : Bool) (height : Int) (tx : TxIn) : Step RunOut := do
  let d ← match s.delegs.get exec (ledgerKey tx.to) with
    | some d => pure d
    | none => if tx.from_ == tx.to then pure ({ addr := tx.from_, pub := if exec then tx.pub else "" } : Delegatee)
              else throw (.err "nodelegatee")
  let some sender := s.findAcct exec tx.from_ | throw (.err "noacct")
  match subBalance sender tx.amount with
  | none => throw (.err "funds")
  | some a1 =>
    let s1 := s.setAcct exec a1
    let power ← ofRes (amountToPower tx.amount)
    let st : Stake := { owner := tx.from_, to := tx.to, hash := tx.hash, power := power, start := height + 1 }
    let d' := d.addStake st
    pure { st := { s1 with delegs := s1.delegs.set exec (ledgerKey d'.addr) d' } }

def freezeAll (fr : Led Stake) (exec : Bool) (ss : List Stake) (refund : Int) : Led Stake :=
  ss.foldl (fun acc st => acc.set exec (ledgerKey st.hash) { st with refund := refund }) fr

def execUnstaking (s : St) (exec : Bool) (height : Int) (tx : TxIn) : Step RunOut := do
  match s.delegs.get exec (ledgerKey tx.to) with
  | none => throw (.err "notfound")
  | some d =>
    match tx.payload with
    | .unstaking hash =>
      if byteLen hash ≠ 32 then throw (.err "payloadparams")
      match d.findStake hash with
      | none => throw (.err "nostake")
      | some st =>
        if tx.from_ ≠ st.owner then throw (.err "notowner")
        let refund := height + s.active.lazyRewardBlocks
        let d1 := d.delStake hash
        let fr1 := s.frozen.set exec (ledgerKey st.hash) { st with refund := refund }
        let (d2, fr2) :=
          if d1.self = 0 then
            let (d2, rest) := d1.delAllStakes
            (d2, freezeAll fr1 exec rest refund)
          else (d1, fr1)
        let delegs' := if d2.total = 0 then s.delegs.del exec (ledgerKey d2.addr) else s.delegs.set exec (ledgerKey d2.addr) d2
        pure { st := { s with delegs := delegs', frozen := fr2 } }
    | _ => throw (.panic "type assertion: payload is not TrxPayloadUnstaking")

def execWithdraw (s : St) (exec : Bool) (height : Int) (tx : TxIn) : Step RunOut := do
  match tx.payload with
  | .withdraw req =>
    match s.rewards.get exec (ledgerKey tx.from_) with
    | none => throw (.err "notfound")
    | some r =>
      let r' ← ofRes (r.withdraw req height)
      let s1 := { s with rewards := s.rewards.set exec (ledgerKey r'.addr) r' }
      match s1.reward exec tx.from_ req with
      | some s2 => pure { st := if exec then { s2 with ghost := { s2.ghost with withdrawn := s2.ghost.withdrawn + req } } else s2 }
      | none => throw (.err "amount")   -- cancelSetReward path; see App notes (unreachable under SupplyBound)
  | _ => throw (.err "payloadtype")

def execProposal (s : St) (exec : Bool) (tx : TxIn) : Step RunOut := do
  match tx.payload with
  | .proposal _ start period applying optType opts =>
    let voters := (s.lastVals.map fun v => ({ addr := v.addr, power := v.total } : Voter)).mergeSort (fun a b => a.addr ≤ b.addr)
    let total := (s.lastVals.map (·.total)).sum
    let p : Proposal := { hash := tx.hash, start := start, end_ := start + period, applying := applying, total := total,
                          majority := Int.tdiv (total * 2) 3, optType := optType, voters := voters,
                          options := opts.map fun o => { o with votes := 0 } }
    pure { st := { s with props := s.props.set exec (ledgerKey tx.hash) p } }
  | _ => throw (.panic "nil payload in execProposing")

/-- `GovProposal.DoVote`: cancel the previous choice, then vote -/
def Proposal.doVote (p : Proposal) (addr : Hex) (choice : Int) : Proposal :=
  match p.voters.find? (·.addr == addr) with
  | none => p
  | some v =>
    let opts1 := if v.choice ≥ 0 then p.options.zipIdx.map (fun (o, i) => if (i : Int) = v.choice then { o with votes := o.votes - v.power } else o) else p.options
    let opts2 := if choice ≥ 0 then opts1.zipIdx.map (fun (o, i) => if (i : Int) = choice then { o with votes := o.votes + v.power } else o) else opts1
    { p with options := opts2, voters := p.voters.map fun w => if w.addr == addr then { w with choice := choice } else w }

def execVoting (s : St) (exec : Bool) (tx : TxIn) : Step RunOut := do
  match tx.payload with
  | .voting hash choice =>
    match s.props.get exec (ledgerKey hash) with
    | none => throw (.err "notfound")
    | some p =>
      if !p.voters.any (·.addr == tx.from_) then throw (.err "other")
      pure { st := { s with props := s.props.set exec (ledgerKey p.hash) (p.doVote tx.from_ choice) } }
  | _ => throw (.panic "nil payload in execVoting")

/-- the EVM path (`EVMCtrler.ExecuteTrx`), driven by the observed oracle result -/
def execEvm (s : St) (exec : Bool) (tx : TxIn) : Step RunOut := do
  if !exec then return { st := s }
  let some o := tx.evm | throw (.panic "model: contract execution without oracle")
  -- every address synced in gets a native account (found or created), also when the call fails
  let s1 := o.accessed.foldl (fun acc a => (acc.findOrNewAcct true a).1) s
  if !o.ok then return { st := s1, fail := some o.failKind }   -- nothing is synced out
  let s2 := o.synced.foldl (fun acc (a, bal, nonce) =>
    let (acc', ac) := acc.findOrNewAcct true a
    acc'.setAcct true { ac with bal := bal, nonce := nonce }) s1
  let s3 ← if isZeroAddr tx.to then
      match s2.findAcct true o.created with
      | some c => pure (s2.setAcct true { c with code := tx.hash })
      | none => throw (.panic "nil dereference: created contract account not found")
    else pure s2
  pure { st := s3, evmGas := some o.gasUsed }

/-- `runTrx` + `postRunTrx`; the `Option String` is the failure kind of a failed EVM call -/
def runTrx (s : St) (exec : Bool) (height : Int) (tx : TxIn) (receiver : Account) : Step (St × Nat × Option String) := do
  let viaEvm := tx.type = TRX_CONTRACT ∨ (tx.type = TRX_TRANSFER ∧ receiver.code ≠ "")
  let r ←
    if tx.type = TRX_CONTRACT then execEvm s exec tx
    else if tx.type = TRX_PROPOSAL then execProposal s exec tx
    else if tx.type = TRX_VOTING then execVoting s exec tx
    else if tx.type = TRX_TRANSFER then (if receiver.code ≠ "" then execEvm s exec tx else execTransfer s exec tx)
    else if tx.type = TRX_SETDOC then execSetDoc s exec tx
    else if tx.type = TRX_STAKING then execStaking s exec height tx
    else if tx.type = TRX_UNSTAKING then execUnstaking s exec height tx
    else if tx.type = TRX_WITHDRAW then execWithdraw s exec height tx
    else throw (.err "unknowntype")
  if r.fail.isSome then pure (r.st, 0, r.fail)
  else if viaEvm then
    pure (r.st, r.evmGas.getD 0, none)
  else
    let fee := wmul tx.price tx.gas
    let some sender := r.st.findAcct exec tx.from_ | throw (.err "noacct")
    match subBalance sender fee with
    | none => throw (.err "funds")
    | some a1 => pure (r.st.setAcct exec { a1 with nonce := a1.nonce + 1 }, tx.gas, none)

/-- `NewTrxContext` + `ExecuteSync`: the whole handling of one transaction on one path.
    Returns the new state (for a failed transaction only the find-or-create of a 20-byte receiver survives). -/
def handleTx (s : St) (exec : Bool) (height : Int) (tx : TxIn) : St × TxOut :=
  let failCode : Nat := if exec then 5 else 3
  if !tx.decodable then (s, { code := failCode, kind := "decode" }) else
  match s.findAcct exec tx.from_ with
  | none => (s, { code := failCode, kind := "noacct" })
  | some sender =>
    -- a receiver of a wrong length gets no account record (repair 26f8ae4): validation sees an unsaved object
    let (s0, receiver) := if byteLen tx.to = 20 then s.findOrNewAcct exec tx.to else (s, ({ addr := tx.to } : Account))
    -- the sender object may be the receiver object that was just created? no: the sender exists already
    match validateTrx s0 exec height tx sender receiver with
    | .error (.err k) => (s0, { code := failCode, kind := k })
    | .error (.panic site) => (s0, { code := failCode, kind := "panic", panic := site })
    | .ok s1 =>
      match runTrx s1 exec height tx receiver with
      | .error (.err k) => (s1, { code := failCode, kind := k })
      | .error (.panic site) => (s1, { code := failCode, kind := "panic", panic := site })
      | .ok (s2, _, some k) => (s2, { code := failCode, kind := k })
      | .ok (s2, gasUsed, none) => (s2, { code := 0, kind := "ok", gasUsed := gasUsed, gasWanted := tx.gas })

end Rigo
