/-
  Reachable states of the application model: everything produced from a genesis by a finite
  sequence of operations (BeginBlock, DeliverTx, CheckTx, EndBlock, Commit, restart), in any order
  the model's `step` accepts (it is total; out-of-phase calls answer with a panic outcome and leave
  the state alone).  `WFBlocks` is the phase discipline of a real consensus engine.
-/
import Rigo.Query

namespace Rigo

def Op.isInit : Op → Bool
  | .init _ => true
  | _ => false

/-- final state of a run -/
def exec (s : St) (ops : List Op) : St := (run s ops).1

def Reachable (g : Genesis) (s : St) : Prop :=
  ∃ ops : List Op, (∀ op ∈ ops, op.isInit = false) ∧ exec (initChain g) ops = s

/-- phase of the ABCI connection -/
inductive Phase where
  | idle      -- between Commit and BeginBlock
  | inBlock   -- after BeginBlock, before EndBlock
  | ended     -- after EndBlock, before Commit
  deriving Repr, DecidableEq

/-- the consensus calls arrive in the order BeginBlock, DeliverTx*, EndBlock, Commit; CheckTx at any
    time; restart only between blocks -/
def phaseStep : Phase → Op → Option Phase
  | .idle, .begin_ _ => some .inBlock
  | .inBlock, .deliver _ => some .inBlock
  | .inBlock, .end_ => some .ended
  | .ended, .commit => some .idle
  | p, .check _ => some p
  | .idle, .restart => some .idle
  | _, _ => none

def phaseRun : Phase → List Op → Option Phase
  | p, [] => some p
  | p, op :: ops => match phaseStep p op with
    | some p' => phaseRun p' ops
    | none => none

/-- reachable through a well-phased history that ends at a block boundary -/
def ReachableAtBoundary (g : Genesis) (s : St) : Prop :=
  ∃ ops : List Op, phaseRun .idle ops = some .idle ∧ exec (initChain g) ops = s

end Rigo
