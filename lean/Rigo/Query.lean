/-
  The ABCI `Query` paths (node/query.go, ctrlers/*/query.go) over the committed history.
  A query never changes the state: `query` is a pure function of the state.
-/
import Rigo.Render

namespace Rigo
open Rigo.Render

structure QOut where
  code : Nat := 0
  value : String := ""
  deriving Repr, DecidableEq, Inhabited

def ErrCodeQuery : Nat := 1000
def ErrCodeInvalidQueryPath : Nat := 1001

/-- the version a query at `h` reads: 0 = last committed height; beyond the latest = error -/
def qHeight (s : St) (h : Int) : Int := if h = 0 then s.lastHeight else h

def query (s : St) (path : String) (data : Hex) (h : Int) : QOut :=
  let h := qHeight s h
  let fail : QOut := { code := ErrCodeQuery }
  match path with
  | "account" =>
    match s.accts.at? h with
    | none => fail
    | some m => { value := showAccount ((m[ledgerKey data]?).getD { addr := data }) }
  | "delegatee" =>
    match s.delegs.at? h with
    | none => fail
    | some m => match m[ledgerKey data]? with
      | some d => { value := showDelegatee d }
      | none => fail
  | "stakes" =>
    match s.delegs.at? h with
    | none => fail
    | some m =>
      let ss := (m.toList.map fun (_, d) => d.stakes.filter (·.owner == data)).flatten
      { value := "S:" ++ joinOr (ss.map (showStake "/")) ";" }
  | "stakes/total_power" =>
    match s.delegs.at? h with
    | none => fail
    | some m => { value := toString ((m.toList.map fun (_, d) => d.total).sum) }
  | "reward" =>
    match s.rewards.at? h with
    | none => fail
    | some m => match m[ledgerKey data]? with
      | some r => { value := showReward r }
      | none => fail
  | "proposal" =>
    match s.props.at? h, s.fprops.at? h with
    | some pm, some fm =>
      if data == "" then
        { value := "PL:" ++ joinOr ((pm.toList.map fun (_, p) => showProposal "P" p) ++ (fm.toList.map fun (_, p) => showProposal "FP" p)) "|" }
      else match pm[ledgerKey data]? with
        | some p => { value := showProposal "P" p }
        | none => match fm[ledgerKey data]? with
          | some p => { value := showProposal "FP" p }
          | none => fail
    | _, _ => fail
  | "gov_params" =>
    match s.params.at? h with
    | none => fail
    | some m => match m[zeroHash]? with
      | some p => { value := "G:" ++ showParams p }
      | none => fail
  | _ => { code := ErrCodeInvalidQueryPath }

end Rigo
