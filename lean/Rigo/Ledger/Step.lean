/- Operation language shared by the implementation model, the spec and the driver. -/
import Rigo.Ledger.Spec

namespace Rigo.Ledger

inductive Op where
  | set (k : Key) (v : Val) | cancelSet (k : Key) | get (k : Key) | del (k : Key) | cancelDel (k : Key)
  | setF (k : Key) (v : Val) | cancelSetF (k : Key) | getF (k : Key) | delF (k : Key) | cancelDelF (k : Key)
  | read (k : Key) | iterAll | commit | readAt (n : Int) (k : Key) | reopen | version
  deriving Repr

inductive Out where
  | unit | val (v : Option Val) | ver (n : Nat) | items (l : List (Key × Val)) | err
  deriving Repr, DecidableEq

def Impl.step (l : Impl) : Op → Impl × Out
  | .set k v => (l.set k v, .unit)
  | .cancelSet k => (l.cancelSet k, .unit)
  | .get k => let (l', r) := l.get k; (l', .val r)
  | .del k => let (l', r) := l.del k; (l', .val r)
  | .cancelDel k => (l.cancelDel k, .unit)
  | .setF k v => (l.setF k v, .unit)
  | .cancelSetF k => (l.cancelSetF k, .unit)
  | .getF k => let (l', r) := l.getF k; (l', .val r)
  | .delF k => let (l', r) := l.delF k; (l', .val r)
  | .cancelDelF k => (l.cancelDelF k, .unit)
  | .read k => (l, .val (l.read k))
  | .iterAll => (l, .items l.tree.toList)
  | .commit => let l' := l.commit; (l', .ver l'.version)
  | .readAt n k => (l, match l.readAt n k with | .ok r => .val r | .error _ => .err)
  | .reopen => (l.reopen, .unit)
  | .version => (l, .ver l.version)

def Spec.step (s : Spec) : Op → Spec × Out
  | .set k v => (s.set k v, .unit)
  | .cancelSet k => (s.cancelSet k, .unit)
  | .get k => (s, .val (s.get k))
  | .del k => let (s', r) := s.del k; (s', .val r)
  | .cancelDel k => (s.cancelDel k, .unit)
  | .setF k v => (s.setF k v, .unit)
  | .cancelSetF k => (s.cancelSetF k, .unit)
  | .getF k => (s, .val (s.getF k))
  | .delF k => let (s', r) := s.delF k; (s', .val r)
  | .cancelDelF k => (s.cancelDelF k, .unit)
  | .read k => (s, .val (s.read k))
  | .iterAll => (s, .items s.last.toList)
  | .commit => let s' := s.commit; (s', .ver s'.version)
  | .readAt n k => (s, match s.readAt n k with | .ok r => .val r | .error _ => .err)
  | .reopen => (s.reopen, .unit)
  | .version => (s, .ver s.version)

/-- run a list of operations, collecting outputs -/
def Impl.run (l : Impl) : List Op → Impl × List Out
  | [] => (l, [])
  | op :: ops => let (l', o) := l.step op; let (l'', os) := l'.run ops; (l'', o :: os)

def Spec.run (s : Spec) : List Op → Spec × List Out
  | [] => (s, [])
  | op :: ops => let (s', o) := s.step op; let (s'', os) := s'.run ops; (s'', o :: os)

end Rigo.Ledger
