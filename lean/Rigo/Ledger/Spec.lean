/-
  Abstract specification of a ledger (property C18): a key-value map with a consensus
  overlay and a mempool overlay of pending changes over an immutable list of committed
  versions.  An overlay is the set of pending writes plus the multiset of pending deletes
  (the `Cancel*` operations of the API undo one pending write / one pending delete).
  There is no cache here: a read is a pure function of (overlay, last commit).
-/
import Rigo.Ledger.Impl

namespace Rigo.Ledger

structure Ov where
  written : Map := {}
  deleted : List Key := []

/-- what a read through overlay `o` on top of committed map `t` sees -/
def view (o : Ov) (t : Map) (k : Key) : Option Val :=
  match o.written[k]? with
  | some v => some v
  | none => if k ∈ o.deleted then none else t[k]?

structure Spec where
  committed : List Map := []        -- committed[i] is version i+1
  fin : Ov := {}
  chk : Ov := {}

namespace Spec
def last (s : Spec) : Map := s.committed.getLast?.getD {}
def version (s : Spec) : Nat := s.committed.length

def ovSet (o : Ov) (k : Key) (v : Val) : Ov := { o with written := o.written.insert k v }
def ovCancelSet (o : Ov) (k : Key) : Ov := { o with written := o.written.erase k }
def ovDel (o : Ov) (t : Map) (k : Key) : Ov × Option Val :=
  match view o t k with
  | some v => ({ written := o.written.erase k, deleted := o.deleted ++ [k] }, some v)
  | none => (o, none)
def ovCancelDel (o : Ov) (k : Key) : Ov := { o with deleted := o.deleted.erase k }

def set (s : Spec) (k : Key) (v : Val) : Spec := { s with chk := ovSet s.chk k v }
def cancelSet (s : Spec) (k : Key) : Spec := { s with chk := ovCancelSet s.chk k }
def get (s : Spec) (k : Key) : Option Val := view s.chk s.last k
def del (s : Spec) (k : Key) : Spec × Option Val :=
  let (o, r) := ovDel s.chk s.last k; ({ s with chk := o }, r)
def cancelDel (s : Spec) (k : Key) : Spec := { s with chk := ovCancelDel s.chk k }

def setF (s : Spec) (k : Key) (v : Val) : Spec := { s with fin := ovSet s.fin k v }
def cancelSetF (s : Spec) (k : Key) : Spec := { s with fin := ovCancelSet s.fin k }
def getF (s : Spec) (k : Key) : Option Val := view s.fin s.last k
def delF (s : Spec) (k : Key) : Spec × Option Val :=
  let s1 := (s.del k).1
  let (o, r) := ovDel s1.fin s1.last k; ({ s1 with fin := o }, r)
def cancelDelF (s : Spec) (k : Key) : Spec := { s with fin := ovCancelDel s.fin k }

def read (s : Spec) (k : Key) : Option Val := s.last[k]?

/-- commit: the next version is exactly the consensus view; both overlays become empty -/
def commit (s : Spec) : Spec :=
  let t := eraseAll s.last s.fin.deleted ∪ s.fin.written
  { committed := s.committed ++ [t], fin := {}, chk := {} }

def readAt (s : Spec) (n : Int) (k : Key) : Except Unit (Option Val) :=
  if n ≤ 0 then .ok s.last[k]?
  else match s.committed[n.toNat - 1]? with
    | some t => .ok t[k]?
    | none => .error ()

def reopen (s : Spec) : Spec := { s with fin := {}, chk := {} }
end Spec

end Rigo.Ledger
