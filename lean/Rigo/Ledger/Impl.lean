/-
  Transcription of /repo/ledger: memItems (mem_items.go), SimpleLedger (simple_ledger.go)
  and FinalityLedger (finality_ledger.go) over an abstract IAVL tree.

  * keys and values are `Nat` (the harness uses a test item type whose key is embedded
    in the value, as the real items do);
  * the IAVL working tree is only written inside `Commit`, so it is modelled as the map
    of the last saved version plus the list of all saved versions;
  * Go maps -> `Std.ExtTreeMap`; the removed-key slice -> `List`;
  * `get`/`getFinality` consult the got cache first, then the removed list, then the tree
    (the order after the `fix:` commit for C18; see DESIGN.md §12).
-/
import Std.Data.ExtTreeMap

namespace Rigo.Ledger

abbrev Key := Nat
abbrev Val := Nat
abbrev Map := Std.ExtTreeMap Key Val compare

/-- `memItems` -/
structure MemItems where
  got : Map := {}
  updated : Map := {}
  removed : List Key := []

namespace MemItems
def empty : MemItems := {}
/-- `refresh()`: updated items become got items, removed list cleared -/
def refresh (m : MemItems) : MemItems :=
  { got := m.got ∪ m.updated, updated := {}, removed := [] }
end MemItems

/-- `FinalityLedger` (embedding `SimpleLedger`): `chk` is `SimpleLedger.cachedItems`
    (mempool overlay), `fin` is `finalityItems` (consensus overlay). -/
structure Impl where
  tree : Map := {}
  versions : List Map := []      -- versions[i] is IAVL version i+1
  fin : MemItems := {}
  chk : MemItems := {}

def eraseAll (t : Map) (ks : List Key) : Map := ks.foldl (fun acc k => acc.erase k) t

namespace Impl

def version (l : Impl) : Nat := l.versions.length

/-- `read`: tree only -/
def read (l : Impl) (k : Key) : Option Val := l.tree[k]?

/-- generic `get` over one overlay (`get` / `getFinality`) -/
def getIn (m : MemItems) (tree : Map) (k : Key) : MemItems × Option Val :=
  match m.got[k]? with
  | some v => (m, some v)
  | none =>
    if k ∈ m.removed then (m, none)
    else match tree[k]? with
      | some v => ({ m with got := m.got.insert k v }, some v)
      | none => (m, none)

def setIn (m : MemItems) (k : Key) (v : Val) : MemItems :=
  { m with updated := m.updated.insert k v, got := m.got.insert k v }

def cancelSetIn (m : MemItems) (k : Key) : MemItems :=
  { m with updated := m.updated.erase k, got := m.got.erase k }

def delIn (m : MemItems) (tree : Map) (k : Key) : MemItems × Option Val :=
  match getIn m tree k with
  | (m', some v) =>
    ({ got := m'.got.erase k, updated := m'.updated.erase k, removed := m'.removed ++ [k] }, some v)
  | (m', none) => (m', none)

def cancelDelIn (m : MemItems) (k : Key) : MemItems :=
  { m with removed := m.removed.erase k }

-- mempool overlay (SimpleLedger)
def set (l : Impl) (k : Key) (v : Val) : Impl := { l with chk := setIn l.chk k v }
def cancelSet (l : Impl) (k : Key) : Impl := { l with chk := cancelSetIn l.chk k }
def get (l : Impl) (k : Key) : Impl × Option Val :=
  let (m, r) := getIn l.chk l.tree k; ({ l with chk := m }, r)
def del (l : Impl) (k : Key) : Impl × Option Val :=
  let (m, r) := delIn l.chk l.tree k; ({ l with chk := m }, r)
def cancelDel (l : Impl) (k : Key) : Impl := { l with chk := cancelDelIn l.chk k }

-- consensus overlay (FinalityLedger)
def setF (l : Impl) (k : Key) (v : Val) : Impl := { l with fin := setIn l.fin k v }
def cancelSetF (l : Impl) (k : Key) : Impl := { l with fin := cancelSetIn l.fin k }
def getF (l : Impl) (k : Key) : Impl × Option Val :=
  let (m, r) := getIn l.fin l.tree k; ({ l with fin := m }, r)
/-- `DelFinality`: first `SimpleLedger.del` (result ignored), then the finality delete -/
def delF (l : Impl) (k : Key) : Impl × Option Val :=
  let l1 := (l.del k).1
  let (m, r) := delIn l1.fin l1.tree k; ({ l1 with fin := m }, r)
def cancelDelF (l : Impl) (k : Key) : Impl := { l with fin := cancelDelIn l.fin k }

/-- `Commit`: remove the removed keys, set the updated items, save the version,
    reset the mempool overlay, refresh the consensus overlay. -/
def commit (l : Impl) : Impl :=
  let t := eraseAll l.tree l.fin.removed ∪ l.fin.updated
  { tree := t, versions := l.versions ++ [t], fin := l.fin.refresh, chk := {} }

/-- `ImmutableLedgerAt(n).Read(k)`: `n ≤ 0` is the latest version; `n >` latest is an error -/
def readAt (l : Impl) (n : Int) (k : Key) : Except Unit (Option Val) :=
  if n ≤ 0 then .ok l.tree[k]?
  else match l.versions[n.toNat - 1]? with
    | some t => .ok t[k]?
    | none => .error ()

/-- close + reopen: caches gone, tree is the last saved version -/
def reopen (l : Impl) : Impl := { l with fin := {}, chk := {} }

end Impl
end Rigo.Ledger
