/-
  C17 (proved part) — the synchronisation protocol of `StateDBWrapper`
  (/repo/ctrlers/vm/evm/statedb.go) as driven by `EVMCtrler.ExecuteTrx` (ctrler.go).

  The wrapper keeps native accounts (balance, nonce) and go-ethereum's EVM state in step:

  * `addAccessedObjAddr a` (called from `Prepare`, `PrepareAccessList`, `AddAddressToAccessList`):
    if `a` is not in `accessedObjAddrs`, the native balance and nonce are written into the EVM state
    object and `accessedObjAddrs[a] = s.snapshot + 1`                        -> `Op.access`
  * `Snapshot()`: `s.snapshot = StateDB.Snapshot()`; go-ethereum hands out `nextRevisionId++` and
    records the revision (id, journal length)                                 -> `Op.snapshot`
  * `RevertToSnapshot(id)`: every address whose tag is `> id` is deleted from `accessedObjAddrs`
    (`revertAccessedObjAddr`), then go-ethereum undoes its journal back to revision `id` and forgets
    that revision and all later ones (it panics when `id` is not a valid revision)  -> `Op.revert`
  * `Finish()`: balance and nonce of every address in `accessedObjAddrs` are copied to the native
    ledger, the set is cleared                                                -> `Op.finish`
  * go-ethereum's `Finalise(true)` (success path of `ExecuteTrx` only) clears journal and
    revisions                                                                 -> `Op.finalise`
  * any balance / nonce change made by the interpreter (`AddBalance`, `SubBalance`, `SetNonce`,
    `CreateAccount`, …)                                                       -> `Op.write`
  * any change of the native ledger between two contract transactions (native transfers, fees,
    rewards, …)                                                               -> `Op.native`

  NOT modelled (trusted, see checks/C17.json): the interpreter, code, storage, logs, gas; go-ethereum's
  journal is modelled by its specification — a revision restores the EVM world that existed when the
  revision was taken (`revs` holds that world instead of undo entries).  Account existence is not
  tracked: a world maps an address to (balance, nonce), absent = (0, 0).

  `Spec` below is the reference semantics the proofs compare against: the list of UN-REVERTED
  operations of the current transaction; a revert erases the scope it closes.
-/
import Std.Data.ExtTreeMap

namespace Rigo.EvmSync

abbrev Addr := String
/-- (balance, nonce) -/
abbrev Val := Nat × Nat
abbrev World := Std.ExtTreeMap Addr Val compare
abbrev Tags := Std.ExtTreeMap Addr Nat compare

/-- `GetBalance` / `GetNonce`, `FindOrNewAccount(...).Balance / .Nonce`: absent accounts read as zero -/
def valOf (w : World) (a : Addr) : Val := w[a]?.getD (0, 0)

/-- wrapper + go-ethereum state, as far as balances and nonces are concerned -/
structure St where
  /-- native account ledger (`acctHandler`) -/
  native : World := {}
  /-- go-ethereum state objects (balance, nonce) -/
  evm : World := {}
  /-- go-ethereum `validRevisions` with the journal folded in, newest first:
      (revision id, EVM world when the revision was taken) -/
  revs : List (Nat × World) := []
  /-- go-ethereum `nextRevisionId` -/
  nextId : Nat := 0
  /-- `accessedObjAddrs` : address -> tag -/
  accessed : Tags := {}
  /-- `StateDBWrapper.snapshot`: the id the latest `Snapshot()` returned -/
  snapshot : Nat := 0

/-- a fresh wrapper (one per block) over a native ledger and the EVM world persisted so far -/
def init (native evm : World) : St := { native := native, evm := evm }

inductive Op where
  | snapshot
  | access (a : Addr)
  | write (a : Addr) (v : Val)
  | revert (id : Nat)
  | finish
  | finalise
  | native (a : Addr) (v : Val)
  deriving Repr, DecidableEq

inductive Out where
  /-- `Snapshot()` returned this id -/
  | snap (id : Nat)
  /-- the access synced the native account in and tagged it -/
  | tag (n : Nat)
  /-- already accessed: nothing happens -/
  | noop
  /-- addresses un-synced by the revert (sorted) -/
  | unsync (as : List Addr)
  /-- as `unsync`, but go-ethereum then panics: the id is not a valid revision -/
  | panic (as : List Addr)
  /-- addresses synced out by `Finish` (sorted) -/
  | syncout (as : List Addr)
  | ok
  deriving Repr, DecidableEq

/-- `Finish`'s loop: native balance / nonce := EVM balance / nonce -/
def syncOut (native evm : World) (ks : List Addr) : World :=
  ks.foldl (fun n a => n.insert a (valOf evm a)) native

/-- `revertAccessedObjAddr`'s first loop: the addresses whose tag is `> id` (sorted) -/
def unsyncList (acc : Tags) (id : Nat) : List Addr :=
  (acc.toList.filter (fun p => decide (id < p.2))).map (·.1)

/-- `revertAccessedObjAddr`'s second loop -/
def eraseAll (acc : Tags) (ks : List Addr) : Tags := ks.foldl (fun m a => m.erase a) acc

def step (s : St) : Op → St × Out
  | .snapshot =>
    ({ s with revs := (s.nextId, s.evm) :: s.revs, nextId := s.nextId + 1, snapshot := s.nextId },
      .snap s.nextId)
  | .access a =>
    if a ∈ s.accessed then (s, .noop)
    else
      ({ s with evm := s.evm.insert a (valOf s.native a),
                accessed := s.accessed.insert a (s.snapshot + 1) }, .tag (s.snapshot + 1))
  | .write a v => ({ s with evm := s.evm.insert a v }, .ok)
  | .revert id =>
    -- revertAccessedObjAddr: collect every address with `snapshot < v`, then delete them
    let gone := unsyncList s.accessed id
    let s1 := { s with accessed := eraseAll s.accessed gone }
    -- StateDB.RevertToSnapshot: first revision with id >= revid must be revid
    match s.revs.dropWhile (fun r => decide (r.1 > id)) with
    | (i, w) :: rest =>
      if i = id then ({ s1 with evm := w, revs := rest }, .unsync gone) else (s1, .panic gone)
    | [] => (s1, .panic gone)
  | .finish =>
    ({ s with native := syncOut s.native s.evm s.accessed.keys, accessed := {} },
      .syncout s.accessed.keys)
  | .finalise => ({ s with revs := [] }, .ok)
  | .native a v => ({ s with native := s.native.insert a v }, .ok)

def run (s : St) (ops : List Op) : St := ops.foldl (fun s o => (step s o).1) s

def outputs : St → List Op → List Out
  | _, [] => []
  | s, o :: os => (step s o).2 :: outputs (step s o).1 os

/-! ## Discipline of `ExecuteTrx` traces -/

/-- where a trace stands: between transactions, inside a transaction whose first snapshot is `snap`,
    after the top-level revert of a failed transaction, after `Finish` of a successful one -/
inductive Phase where
  | idle
  | tx (snap : Nat)
  | failed
  | done
  deriving Repr, DecidableEq

/-- One step of the discipline automaton (`none` = the trace is not disciplined).

    * a transaction is `snapshot; …; finish; finalise` or `snapshot; …; revert snap; finish` where
      `snap` is the id of its first snapshot (`ExecuteTrx`; `Prepare`'s accesses of sender and
      receiver are ordinary `access` operations — no theorem needs them to come first);
    * inside a transaction the interpreter may take snapshots, access addresses, write to
      ACCESSED addresses only, and revert to revisions that are still valid;
    * the native ledger changes only between transactions. -/
def discStep (p : Phase) (s : St) : Op → Option Phase
  | .snapshot =>
    match p with
    | .idle => some (.tx s.nextId)
    | .tx n => some (.tx n)
    | _ => none
  | .access _ =>
    match p with
    | .tx n => some (.tx n)
    | _ => none
  | .write a _ =>
    match p with
    | .tx n => if a ∈ s.accessed then some (.tx n) else none
    | _ => none
  | .revert id =>
    match p with
    | .tx n =>
      if s.revs.any (fun r => r.1 == id) then (if id = n then some .failed else some (.tx n))
      else none
    | _ => none
  | .finish =>
    match p with
    | .tx _ => some .done
    | .failed => some .idle
    | _ => none
  | .finalise =>
    match p with
    | .done => some .idle
    | _ => none
  | .native _ _ =>
    match p with
    | .idle => some .idle
    | _ => none

def discRun : Phase → St → List Op → Option Phase
  | p, _, [] => some p
  | p, s, o :: os =>
    match discStep p s o with
    | some p' => discRun p' (step s o).1 os
    | none => none

/-- phase reached by a trace from a fresh wrapper (`none` = not disciplined) -/
def phaseOf (native evm : World) (tr : List Op) : Option Phase :=
  discRun .idle (init native evm) tr

/-- The trace obeys the protocol of `ExecuteTrx` and go-ethereum's Berlin access-list discipline:
    the interpreter reads or writes balance / nonce of an address only after the address was added
    to the access list (which is where the wrapper syncs it in), reverts only to revisions it took
    and has not reverted, and every transaction is bracketed as in `ExecuteTrx`.  Decidable; the
    `evmsync` stream checks it on the real wrapper traces (snapshot ids, revert targets, bracket
    shape) and, for the write clause, by comparing go-ethereum's balances / nonces with the native
    ledger after every transaction. -/
def Disciplined (native evm : World) (tr : List Op) : Prop := (phaseOf native evm tr).isSome = true

instance (native evm : World) (tr : List Op) : Decidable (Disciplined native evm tr) :=
  inferInstanceAs (Decidable (_ = true))

/-! ## Reference semantics: the un-reverted operations of the current transaction -/

/-- a live (un-reverted) operation; `acc a v`: `a` was synced in with the native value `v` -/
inductive LOp where
  | snap (id : Nat)
  | acc (a : Addr) (v : Val)
  | wr (a : Addr) (v : Val)
  deriving Repr, DecidableEq

def LOp.isAcc (a : Addr) : LOp → Bool
  | .acc b _ => b == a
  | _ => false

def LOp.isSnap (id : Nat) : LOp → Bool
  | .snap j => j == id
  | _ => false

/-- does the operation set balance / nonce of `a`? -/
def LOp.touches (a : Addr) : LOp → Bool
  | .acc b _ => b == a
  | .wr b _ => b == a
  | .snap _ => false

/-- `a` has an un-reverted sync-in -/
def synced (l : List LOp) (a : Addr) : Bool := l.any (LOp.isAcc a)

/-- EVM world obtained by replaying live operations (newest first) over `base` -/
def evmOf (base : World) : List LOp → World
  | [] => base
  | .snap _ :: l => evmOf base l
  | .acc a v :: l => (evmOf base l).insert a v
  | .wr a v :: l => (evmOf base l).insert a v

/-- the operations `revert id` discards: everything newer than `snapshot id` -/
def scopeOf (id : Nat) : List LOp → List LOp
  | [] => []
  | o :: l => if o.isSnap id then [] else o :: scopeOf id l

/-- what survives `revert id`: everything older than `snapshot id` -/
def eraseScope (id : Nat) : List LOp → List LOp
  | [] => []
  | o :: l => if o.isSnap id then l else eraseScope id l

structure Spec where
  native : World := {}
  /-- EVM world at the start of the current transaction -/
  base : World := {}
  /-- un-reverted operations of the current transaction, newest first -/
  live : List LOp := []
  nextId : Nat := 0

namespace Spec

def init (native evm : World) : Spec := { native := native, base := evm }

def evm (t : Spec) : World := evmOf t.base t.live

/-- sync-out of every address with an un-reverted sync-in -/
def syncOut (native evm : World) (l : List LOp) : World :=
  l.foldl (fun n o => match o with
    | .acc a _ => n.insert a (valOf evm a)
    | _ => n) native

def step (t : Spec) : Op → Spec
  | .snapshot => { t with live := .snap t.nextId :: t.live, nextId := t.nextId + 1 }
  | .access a =>
    if synced t.live a then t else { t with live := .acc a (valOf t.native a) :: t.live }
  | .write a v => { t with live := .wr a v :: t.live }
  | .revert id => { t with live := eraseScope id t.live }
  | .finish => { t with native := syncOut t.native t.evm t.live, base := t.evm, live := [] }
  | .finalise => t
  | .native a v => { t with native := t.native.insert a v }

def run (t : Spec) (ops : List Op) : Spec := ops.foldl step t

end Spec

end Rigo.EvmSync
