/-
  C08 model: `RigoApp.Commit` as an ordered sequence of durable writes over separately persisted
  stores (seven IAVL ledgers, the reward-hash record, the reported-validator-set record, the EVM state / trie / root record, the
  block-context record and the height record), a crash after the k-th write, recovery (`Info`)
  and Tendermint's handshake + replay of the interrupted block.

  The write order is the extracted fact `Rigo.Generated.commitOrder` (regenerated from /repo on
  every run); `commitOrder_matches` in RigoProps/C08.lean ties this file to it.
-/
import Rigo.Generated.Facts

namespace Rigo.CommitLog

inductive Store where
  | govParams | govProposals | govFrozen | accounts | delegatees | frozenStakes | rewards
  | rewardHash | lastValidators | evmState | evmTrie | evmRoot | blockCtx | blockHeight
  deriving Repr, DecidableEq, Inhabited

open Store

/-- the order in which `Commit` makes its writes durable; the reward-hash record is written only
    when the new version is a multiple of 10 -/
def writes (withRewardHash : Bool) : List Store :=
  [govParams, govProposals, govFrozen, accounts, delegatees, frozenStakes, rewards] ++
  (if withRewardHash then [rewardHash] else []) ++
  [lastValidators, evmState, evmTrie, evmRoot, blockCtx, blockHeight]

def Store.name : Store → String
  | govParams => "govCtrler/paramsLedger.Commit"
  | govProposals => "govCtrler/proposalLedger.Commit"
  | govFrozen => "govCtrler/frozenLedger.Commit"
  | accounts => "acctCtrler/acctLedger.Commit"
  | delegatees => "stakeCtrler/delegateeLedger.Commit"
  | frozenStakes => "stakeCtrler/frozenLedger.Commit"
  | rewards => "stakeCtrler/rewardLedger.Commit"
  | rewardHash => "stakeCtrler/rwdHashDB.PutLastRewardHash"
  | lastValidators => "stakeCtrler/rwdHashDB.PutLastValidators"
  | evmState => "vmCtrler/stateDBWrapper.Commit"
  | evmTrie => "vmCtrler/stateDBWrapper.Database().TrieDB().Commit"
  | evmRoot => "vmCtrler/batch.WriteSync"
  | blockCtx => "metaDB.PutLastBlockContext"
  | blockHeight => "metaDB.PutLastBlockHeight"

/-- which block each store reflects: `true` = the interrupted block H, `false` = block H-1 -/
abbrev Disk := Store → Bool

/-- the disk after a crash that let exactly the first `k` writes of the commit of block H through -/
def crashAfter (ws : List Store) (k : Nat) : Disk := fun s => s ∈ ws.take k

/-- `Info`: the reported height is the persisted block context's (H if written, else H-1) -/
def infoAtH (d : Disk) : Bool := d blockCtx

inductive Outcome where
  | okReplay     -- reports H-1 with its hash; replaying block H succeeds and yields the same hashes
  | okAhead      -- reports H with its hash; nothing to replay
  | panic (why : String)
  deriving Repr, DecidableEq

def versionedLedgers : List Store := [govParams, govProposals, govFrozen, accounts, delegatees, frozenStakes, rewards]

/-- replay of block H on a recovered disk that reports H-1:
    * `EVMCtrler.BeginBlock` requires the EVM height record to be H-1;
    * the seven ledgers each save "their version + 1" at Commit and the controllers / the
      application assert that all versions agree;
    * a ledger already at H re-executes the block on top of H (nonces, stakes … already applied). -/
def replay (d : Disk) : Outcome :=
  if d evmRoot then .panic "EVMCtrler.BeginBlock: wrong block height"
  else if d lastValidators then .panic "validator set of block H used while replaying block H: validator updates and membership checks differ"
  else if versionedLedgers.any d then .panic "Commit: ledger versions disagree / block executed on a newer ledger"
  else if d evmState ∨ d evmTrie then .okReplay   -- trie nodes / code are content-addressed: rewriting them is idempotent
  else .okReplay

def recover (d : Disk) : Outcome := if infoAtH d then .okAhead else replay d

/-- the whole experiment: crash after `k` writes, restart, handshake, replay -/
def crashOutcome (withRewardHash : Bool) (k : Nat) : Outcome :=
  recover (crashAfter (writes withRewardHash) k)

/-- position-based reading used by the driver: labels of the observed durable writes
    (`ledger`, `meta:rh`, `meta:lv`, `evm:state`, `evm:trie`, `evm:root`, `meta:bc`, `meta:bh`), `k` of them done -/
def outcomeOfLabels (labels : List String) (k : Nat) : String :=
  let done := labels.take k
  if done.contains "meta:bc" then "ok-ahead"
  else if done.contains "evm:root" then "panic"
  else if done.contains "meta:lv" then "panic"
  else if done.contains "ledger" then "panic"
  else "ok-replay"

end Rigo.CommitLog
