/-
  Block-level rules of the application model: InitChain, BeginBlock (gov -> stake -> evm),
  DeliverTx / CheckTx wrappers, EndBlock (gov -> account -> stake -> evm), Commit, restart
  (the constructors' reload logic) and the operation language `Op` with `step` / `run`.
-/
import Rigo.App

namespace Rigo

structure Genesis where
  chainId : Hex
  params : Params
  holders : List (Hex × Nat)
  vals : List (Hex × Hex × Int)     -- public key, address, power
  deriving Repr, Inhabited

structure VoteIn where
  addr : Hex
  power : Int
  signed : Bool
  deriving Repr, Inhabited

structure Header where
  height : Int
  time : Int := 0
  proposer : Hex := ""
  votes : List VoteIn := []
  evidence : List Hex := []
  deriving Repr, Inhabited

inductive Op where
  | init (g : Genesis)
  | begin_ (h : Header)
  | deliver (tx : TxIn)
  | check (tx : TxIn)
  | end_
  | commit
  | restart
  deriving Repr, Inhabited

structure Out where
  panic : String := ""
  tx : Option TxOut := none
  valUpdates : List ValUpdate := []
  issued : Option Nat := none          -- reward issued in BeginBlock (the "reward" event), none = no event
  punishS : List Int := []             -- slashed power per evidence handled by the stake controller
  punishG : List Int := []             -- slashed voting power per evidence handled by the governance controller
  deriving Repr, Inhabited

/-! ### InitChain -/

def initChain (g : Genesis) : St :=
  let s0 : St := { chainId := g.chainId, active := g.params }
  let s1 := { s0 with params := s0.params.set true zeroHash g.params }
  let s2 := g.holders.foldl (fun acc (a, b) => acc.setAcct true { addr := a, bal := b }) s1
  g.vals.foldl (fun acc (pub, addr, power) =>
    let acc1 := (acc.findOrNewAcct true addr).1
    let st : Stake := { owner := addr, to := addr, hash := zeroHash, power := power, start := 1 }
    let d := ({ addr := addr, pub := pub } : Delegatee).addStake st
    { acc1 with delegs := acc1.delegs.set true (ledgerKey addr) d }) s2

/-! ### BeginBlock -/

/-- `GovProposal.DoPunish(addr, ratio)` -/
def Proposal.doPunish (p : Proposal) (addr : Hex) (ratio : Int) : Proposal × Int :=
  match p.voters.find? (·.addr == addr) with
  | none => (p, 0)
  | some v =>
    let choice := v.choice
    let p1 := if choice ≥ 0 then p.doVote addr (-1) else p
    -- uint256(uint64(power)) * uint64(ratio) / 100, truncated to int64
    let slashing := Int.ofNat ((((v.power % (two64 : Int)).toNat * (ratio % (two64 : Int)).toNat) % two256 / 100) % two64)
    let newPower := v.power - slashing
    let p2 :=
      if newPower ≤ 0 then { p1 with voters := p1.voters.filter (·.addr != addr) }
      else
        let p1' := { p1 with voters := p1.voters.map fun w => if w.addr == addr then { w with power := newPower } else w }
        if choice ≥ 0 then p1'.doVote addr choice else p1'
    let total := p2.total - slashing
    ({ p2 with total := total, majority := Int.tdiv (total * 2) 3 }, slashing)

/-- `GovCtrler.doPunish`: every committed open proposal listing the validator as voter -/
def govPunish (s : St) (addr : Hex) : St × Int :=
  let targets := (s.props.committed.toList.filter fun (_, p) => p.voters.any (·.addr == addr)).map (·.1)
  targets.foldl (fun (acc, sum) k =>
    match acc.props.get true k with
    | none => (acc, sum)      -- nil dereference in the code; cannot happen: committed key not deleted before EndBlock
    | some p =>
      let (p', sl) := p.doPunish addr acc.active.slashRatio
      ({ acc with props := acc.props.set true k p' }, sum + sl)) (s, 0)

/-- `StakeCtrler.doPunish`: unknown validators are skipped (error logged) -/
def stakePunish (s : St) (addr : Hex) : St × Option Int :=
  match s.delegs.get true (ledgerKey addr) with
  | none => (s, none)
  | some d =>
    let (d', sl) := d.doSlash s.active.slashRatio
    ({ s with delegs := s.delegs.set true (ledgerKey addr) d' }, some sl)

/-- `doRewardTo`: every stake's owner is issued power x rewardPerPower -/
def rewardTo (s : St) (d : Delegatee) (height : Int) : Res (St × Nat) :=
  d.stakes.foldl (fun acc st =>
    match acc with
    | .panic p => .panic p
    | .ok (s, issued) =>
      let w := (s.rewards.get true (ledgerKey st.owner)).getD { addr := st.owner }
      let rwd := wmul ((st.power % (two64 : Int)).toNat) s.active.rewardPerPower
      match w.issue rwd height with
      | .panic p => .panic p
      | .ok w' => .ok ({ s with rewards := s.rewards.set true (ledgerKey st.owner) w' }, wadd issued rwd))
    (.ok (s, 0))

/-- handling of one vote in `StakeCtrler.BeginBlock` -/
def processVote (s : St) (height : Int) (rewardLedger : KMap Delegatee) (v : VoteIn) (issued : Nat) : Res (St × Nat) :=
  if v.signed then
    match rewardLedger[ledgerKey v.addr]? with
    | none => .ok (s, issued)
    | some d =>
      if d.total ≠ v.power then .ok (s, issued)
      else match rewardTo s d height with
        | .panic p => .panic p
        | .ok (s', i) => .ok (s', wadd issued i)
  else
    let signedHeight := height - 1
    match s.delegs.get true (ledgerKey v.addr) with
    | none => .ok (s, issued)
    | some d =>
      let marked := Delegatee.mark d.notSigned signedHeight
      let h0 := if signedHeight - s.active.signedBlocksWindow < 0 then 0 else signedHeight - s.active.signedBlocksWindow
      let (cnt, pruned) := Delegatee.countInWindow marked h0 signedHeight
      let d1 := { d with notSigned := pruned }
      let s1 := { s with delegs := s.delegs.set true (ledgerKey d1.addr) d1 }
      if s.active.signedBlocksWindow - (cnt : Int) < s.active.minSignedBlocks then
        let (_, stakes) := d1.delAllStakes
        let fr := freezeAll s1.frozen true stakes (height + s.active.lazyRewardBlocks)
        .ok ({ s1 with frozen := fr, delegs := s1.delegs.del true (ledgerKey d1.addr) }, issued)
      else .ok (s1, issued)

def beginBlock (s : St) (h : Header) : St × Out :=
  if h.height ≠ s.lastHeight + 1 then (s, { panic := "BeginBlock: error block height" }) else
  let s := { s with blk := some { height := h.height, time := h.time, proposer := h.proposer } }
  -- governance: punish voters
  let (s, punishG) := h.evidence.foldl (fun (acc, l) a => let (acc', sl) := govPunish acc a; (acc', l ++ [sl])) (s, [])
  -- stake: eligible delegatees from the committed ledger, limiter reset
  match amountToPower s.active.minValidatorStake with
  | .panic p => (s, { panic := p })
  | .ok minPower =>
  let all := sortByPower ((s.delegs.committed.toList.map (·.2)).filter fun d => d.self ≥ minPower)
  let s := { s with allDelegs := all,
                    limiter := Limiter.reset all s.active.maxValidatorCnt s.active.maxIndividualStakeRatio s.active.maxUpdatableStakeRatio }
  let (s, punishS) := h.evidence.foldl (fun (acc, l) a =>
    match stakePunish acc a with
    | (acc', some sl) => (acc', l ++ [sl])
    | (acc', none) => (acc', l)) (s, [])
  if h.votes.isEmpty then (s, { punishG := punishG }) else      -- stake returns `nil, nil`: its events are dropped
  let hop : Int := if h.height - 4 < 0 then 1 else h.height - 4
  match s.delegs.at? hop with
  | none => (s, { panic := "BeginBlock: reward ledger version does not exist" })
  | some rl =>
    let r := h.votes.foldl (fun acc v =>
      match acc with
      | .panic p => .panic p
      | .ok (s, issued) => processVote s h.height rl v issued) (Res.ok (s, 0))
    match r with
    | .panic p => (s, { panic := p })
    | .ok (s', issued) => (s', { issued := some issued, punishS := punishS, punishG := punishG })

/-! ### DeliverTx / CheckTx -/

def deliverTx (s : St) (tx : TxIn) : St × Out :=
  match s.blk with
  | none => (s, { panic := "DeliverTx outside a block" })
  | some b =>
    let (s', o) := handleTx s true b.height tx
    if o.panic ≠ "" then (s', { panic := o.panic, tx := some o }) else
    if o.code = 0 then
      let fee := wmul o.gasUsed s'.active.gasPrice
      ({ s' with blk := some { b with feeSum := wadd b.feeSum fee } }, { tx := some o })
    else (s', { tx := some o })

def checkTx (s : St) (tx : TxIn) : St × Out :=
  let (s', o) := handleTx s false (s.lastHeight + 1) tx
  (s', { panic := o.panic, tx := some o })

/-! ### EndBlock -/

def sortOptions (os : List VoteOpt) : List VoteOpt := os.mergeSort (fun a b => a.votes ≥ b.votes)

/-- `freezeProposals`: committed open proposals whose voting ended -/
def freezeProposals (s : St) (height : Int) : Res St :=
  s.props.committed.toList.foldl (fun acc (k, p) =>
    match acc with
    | .panic e => .panic e
    | .ok s =>
      if p.end_ < height then
        if (s.props.get true k).isNone then .panic "EndBlock: DelFinality of a proposal that is gone" else
        let s1 := { s with props := s.props.del true k }
        let sorted := sortOptions p.options
        match sorted with
        | [] => .panic "index out of range: proposal without options"
        | top :: _ =>
          if top.votes ≥ p.majority then
            .ok { s1 with fprops := s1.fprops.set true k { p with options := sorted, major := some top } }
          else .ok s1
      else .ok s) (.ok s)

/-- `applyProposals`: committed frozen proposals whose applying height is reached -/
def applyProposals (s : St) (height : Int) : Res St :=
  s.fprops.committed.toList.foldl (fun acc (k, p) =>
    match acc with
    | .panic e => .panic e
    | .ok s =>
      if p.applying ≤ height then
        if (s.fprops.get true k).isNone then .panic "EndBlock: DelFinality of a frozen proposal that is gone" else
        let s1 := { s with fprops := s.fprops.del true k }
        match p.major with
        | none => .ok s1
        | some m =>
          if p.optType = PROPOSAL_GOVPARAMS then
            match m.parsedA with
            | none => .panic "EndBlock: option does not unmarshal at apply time"
            | some o =>
              let np := mergeParams s1.active o
              .ok { s1 with params := s1.params.set true zeroHash np, pending := some np }
          else .ok s1
      else .ok s) (.ok s)

/-- `AcctCtrler.EndBlock`: the proposer receives the block's fee sum -/
def feeHandover (s : St) (b : BlockCtx) : Res St :=
  if b.proposer ≠ "" ∧ b.feeSum > 0 ∧ !isNeg256 b.feeSum then
    let a := (s.findAcct true b.proposer).getD { addr := b.proposer }
    match addBalance a b.feeSum with
    | none => .panic "EndBlock: AddBalance failed"
    | some a' => .ok (s.setAcct true a')
  else .ok { s with ghost := { s.ghost with feeBurn := s.ghost.feeBurn + b.feeSum } }

/-- `unfreezingStakes`: committed unbonding stakes whose refund height is reached -/
def unfreeze (s : St) (height : Int) : Res St :=
  s.frozen.committed.toList.foldl (fun acc (_, st) =>
    match acc with
    | .panic e => .panic e
    | .ok s =>
      if st.refund ≤ height then
        match s.reward true st.owner (powerToAmount st.power) with
        | none => .panic "EndBlock: refund to a missing account"
        | some s1 =>
          .ok { s1 with frozen := s1.frozen.del true (ledgerKey st.hash),
                        ghost := { s1.ghost with refunds := s1.ghost.refunds ++ [(st.hash, st.owner, st.power, height)] } }
      else .ok s) (.ok s)

def updateValidators (s : St) : Res (St × List ValUpdate) :=
  match selectValidators s.allDelegs s.active.maxValidatorCnt with
  | .panic e => .panic e
  | .ok newVals =>
    let ups := validatorUpdates (sortByAddr s.lastVals) (sortByAddr newVals)
    .ok ({ s with lastVals := sortByPower newVals }, ups)

def endBlock (s : St) : St × Out :=
  match s.blk with
  | none => (s, { panic := "EndBlock outside a block" })
  | some b =>
    match freezeProposals s b.height with
    | .panic e => (s, { panic := e })
    | .ok s1 =>
    match applyProposals s1 b.height with
    | .panic e => (s1, { panic := e })
    | .ok s2 =>
    match feeHandover s2 b with
    | .panic e => (s2, { panic := e })
    | .ok s3 =>
    match unfreeze s3 b.height with
    | .panic e => (s3, { panic := e })
    | .ok s4 =>
    match updateValidators s4 with
    | .panic e => (s4, { panic := e })
    | .ok (s5, ups) => (s5, { valUpdates := ups })

/-! ### Commit and restart -/

def commit (s : St) : St × Out :=
  match s.blk with
  | none => (s, { panic := "Commit outside a block" })
  | some b =>
    ({ s with accts := s.accts.commit, delegs := s.delegs.commit, frozen := s.frozen.commit, rewards := s.rewards.commit,
              params := s.params.commit, props := s.props.commit, fprops := s.fprops.commit,
              active := s.pending.getD s.active, pending := none, blk := none, lastHeight := b.height }, {})

/-- a process restart at a block boundary: every ledger reopened on its last saved version,
    governance parameters reloaded from the parameter ledger, in-memory stake state rebuilt
    as `NewStakeCtrler` does: `allDelegatees` nil and the limiter nil (both recomputed by the next
    BeginBlock), `lastValidators` restored from the record persisted by `StakeCtrler.Commit`
    (at a block boundary that record equals the in-memory list: it is written at every commit and
    the list changes only in EndBlock) -/
def restart (s : St) : St :=
  let params := s.params.reopen
  { s with accts := s.accts.reopen, delegs := s.delegs.reopen, frozen := s.frozen.reopen, rewards := s.rewards.reopen,
           params := params, props := s.props.reopen, fprops := s.fprops.reopen,
           active := (params.committed[zeroHash]?).getD s.active, pending := none,
           allDelegs := [], limiter := {}, blk := none }

def step (s : St) : Op → St × Out
  | .init g => (initChain g, {})
  | .begin_ h => beginBlock s h
  | .deliver tx => deliverTx s tx
  | .check tx => checkTx s tx
  | .end_ => endBlock s
  | .commit => commit s
  | .restart => (restart s, {})

def run (s : St) : List Op → St × List Out
  | [] => (s, [])
  | op :: ops => let (s', o) := step s op; let (s'', os) := run s' ops; (s'', o :: os)

end Rigo
