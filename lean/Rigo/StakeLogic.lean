/-
  Pure staking logic transcribed from /repo/ctrlers/stake: delegatee bookkeeping (delegatee.go),
  block marker (block_marker.go), slashing, validator selection and the validator-update
  merge-diff (ctrler.go), the stake limiter (limiter.go), rewards (reward.go).
-/
import Rigo.Types

namespace Rigo

/-! ### amounts and powers (gov_params.go) -/

/-- `AmountToPower`: `int64((amt / 10^18).Uint64())`, panics when that int64 is negative -/
def amountToPower (amt : Nat) : Res Int :=
  let u := (amt / amountPerPower) % two64
  if u ≥ two63 then .panic "AmountToPower: voting power is negative" else .ok (Int.ofNat u)

/-- `PowerToAmount`: `uint256(uint64(power)) * 10^18` (wrapping) -/
def powerToAmount (p : Int) : Nat := wmul ((p % (two64 : Int)).toNat) amountPerPower

/-! ### Delegatee (delegatee.go) -/

namespace Delegatee

def isSelf (s : Stake) : Bool := s.owner == s.to

def addStake (d : Delegatee) (s : Stake) : Delegatee :=
  { d with stakes := d.stakes ++ [s],
           self := if isSelf s then d.self + s.power else d.self,
           total := d.total + s.power }

def findStake (d : Delegatee) (hash : Hex) : Option Stake := d.stakes.find? (·.hash == hash)

/-- `DelStake`: remove the first stake with that hash -/
def delStake (d : Delegatee) (hash : Hex) : Delegatee :=
  match d.findStake hash with
  | none => d
  | some s =>
    { d with stakes := d.stakes.eraseP (·.hash == hash),
             self := if isSelf s then d.self - s.power else d.self,
             total := d.total - s.power }

/-- `DelAllStakes`: total reduced by every stake, self power left as it is -/
def delAllStakes (d : Delegatee) : Delegatee × List Stake :=
  ({ d with stakes := [], total := d.total - (d.stakes.map (·.power)).sum }, d.stakes)

def sumPower (ss : List Stake) : Int := (ss.map (·.power)).sum
def sumPowerOf (ss : List Stake) (owner : Hex) : Int := sumPower (ss.filter (·.owner == owner))

/-- `SelfStakeRatio(added)`; division by zero is a Go panic -/
def selfStakeRatio (d : Delegatee) (added : Int) : Res Int :=
  if d.total + added = 0 then .panic "SelfStakeRatio: division by zero"
  else .ok (Int.tdiv (d.self * 100) (d.total + added))

/-- one stake under `doSlashAll`: `none` = forfeited (slashed amount rounds down to < 1) -/
def slashStake (ratio : Int) (s : Stake) : Option Stake :=
  let sl := Int.tdiv (s.power * ratio) 100
  if sl < 1 then none else some { s with power := s.power - sl }

/-- `doSlashAll`. Forfeited stakes are removed by hash (first match), as the code does. -/
def doSlash (d : Delegatee) (ratio : Int) : Delegatee × Int :=
  let slashedSum := (d.stakes.map fun s => let sl := Int.tdiv (s.power * ratio) 100; if sl < 1 then 0 else sl).sum
  let reduced := d.stakes.map fun s => let sl := Int.tdiv (s.power * ratio) 100; if sl < 1 then s else { s with power := s.power - sl }
  let removing := d.stakes.filter fun s => Int.tdiv (s.power * ratio) 100 < 1
  let kept := removing.foldl (fun acc r => acc.eraseP (·.hash == r.hash)) reduced
  ({ d with stakes := kept, self := sumPowerOf kept d.addr, total := sumPower kept }, slashedSum)

/-! block marker (block_marker.go) -/

/-- `Mark`: heights are strictly increasing; a non-increasing height is ignored (error dropped) -/
def mark (hs : List Int) (h : Int) : List Int :=
  match hs.getLast? with
  | some l => if l ≥ h then hs else hs ++ [h]
  | none => [h]

/-- the loop of `CountInWindow`: (count, preIdx); stops after the first height ≥ h1 -/
def countLoop (h0 h1 : Int) : List Int → Nat → Int → Nat → Nat × Int
  | [], _, pre, cnt => (cnt, pre)
  | h :: rest, i, pre, cnt =>
    let pre' := if h < h0 then (i : Int) else pre
    let cnt' := if h ≥ h0 ∧ h ≤ h1 then cnt + 1 else cnt
    if h ≥ h1 then (cnt', pre') else countLoop h0 h1 rest (i + 1) pre' cnt'

/-- `CountInWindow(h0, h1, rewin = true)`: returns (count, pruned heights) -/
def countInWindow (hs : List Int) (h0 h1 : Int) : Nat × List Int :=
  if h0 > h1 then (0, hs) else
  let (cnt, pre) := countLoop h0 h1 hs 0 (-1) 0
  (cnt, if pre > 0 then hs.drop (pre.toNat + 1) else hs)

end Delegatee

/-! ### validator ordering, selection and update diff (ctrler.go, delegatee.go) -/

/-- `PowerOrderDelegatees.Less` -/
def powerLess (a b : Delegatee) : Bool :=
  if a.total ≠ b.total then a.total > b.total
  else if a.stakes.length ≠ b.stakes.length then a.stakes.length > b.stakes.length
  else a.addr > b.addr

def sortByPower (ds : List Delegatee) : List Delegatee := ds.mergeSort (fun a b => powerLess a b || a == b)
def sortByAddr (ds : List Delegatee) : List Delegatee := ds.mergeSort (fun a b => a.addr ≤ b.addr)

/-- `selectValidators`: `delegatees[:min(len, maxVals)]`; a negative bound is a slice panic -/
def selectValidators (ds : List Delegatee) (maxVals : Int) : Res (List Delegatee) :=
  if maxVals < 0 then .panic "selectValidators: slice bounds out of range"
  else .ok (ds.take maxVals.toNat)

/-- a validator update: public key and power (0 = removal) -/
abbrev ValUpdate := Hex × Int

/-- `validatorUpdates(existing, newers)`: merge-diff of two address-sorted arrays -/
def validatorUpdates : List Delegatee → List Delegatee → List ValUpdate
  | [], ns => ns.map fun n => (n.pub, n.total)
  | es, [] => es.map fun e => (e.pub, 0)
  | e :: es, n :: ns =>
    if e.addr < n.addr then (e.pub, 0) :: validatorUpdates es (n :: ns)
    else if e.addr == n.addr then
      if e.total ≠ n.total then (n.pub, n.total) :: validatorUpdates es ns
      else validatorUpdates es ns
    else (n.pub, n.total) :: validatorUpdates (e :: es) ns
termination_by es ns => es.length + ns.length

/-! ### stake limiter (limiter.go) -/

structure Limiter where
  objs : List (Hex × Int) := []
  isNil : Bool := true            -- `powerObjs == nil`
  base : Int := 0
  updated : Int := 0
  maxCnt : Int := 0
  indi : Int := 0
  upd : Int := 0
  deriving Repr, DecidableEq, Inhabited

namespace Limiter

def reset (ds : List Delegatee) (maxCnt indi upd : Int) : Limiter :=
  let objs := ds.map fun d => (d.addr, d.total)
  let base := ((ds.zipIdx.filter fun (_, i) => (i : Int) < maxCnt).map (·.1.total)).sum
  { objs := objs, isNil := ds.isEmpty, base := base, updated := 0, maxCnt := maxCnt, indi := indi, upd := upd }

def objLess (a b : Hex × Int) : Bool := if a.2 ≠ b.2 then a.2 > b.2 else a.1 > b.1

/-- `findPowerObj`: index (or -1) -/
def idxOf (objs : List (Hex × Int)) (a : Hex) : Int :=
  match objs.findIdx? (·.1 == a) with
  | some i => Int.ofNat i
  | none => -1

inductive Verdict where
  | ok (l : Limiter)
  | reject (why : String)
  | panic (site : String)
  deriving Repr

/-- `checkLimit(delg, changePower, apply)`; `dTotal` is `delg.TotalPower` -/
def check (l : Limiter) (dAddr : Hex) (dTotal : Int) (diff : Int) (apply : Bool) : Verdict :=
  if l.isNil then .ok l else
  -- checkIndividualPowerLimit
  let indiFail : Option Verdict :=
    if diff ≤ 0 then none
    else if l.base + diff = 0 then some (.panic "limiter: division by zero (individual)")
    else if Int.tdiv ((dTotal + diff) * 100) (l.base + diff) > l.indi then some (.reject "individual") else none
  match indiFail with
  | some v => v
  | none =>
  -- checkUpdatablePowerLimit
  let ridx : Int := idxOf l.objs dAddr
  let objPower : Int := ((l.objs.find? (·.1 == dAddr)).map (·.2)).getD dTotal
  if objPower ≠ dTotal then .reject "power-mismatch" else
  -- index expressions powerObjs[maxCnt] / powerObjs[maxCnt-1] panic on a negative index
  let u1 : Res Int :=
    if ridx ≥ 0 ∧ ridx < l.maxCnt ∧ diff < 0 then
      if (l.objs.length : Int) > l.maxCnt then
        match l.objs[l.maxCnt.toNat]? with
        | some cand => if objPower + diff < cand.2 then .ok (l.updated + objPower) else .ok (l.updated - diff)
        | none => .panic "limiter: index out of range"
      else .ok (l.updated - diff)
    else .ok l.updated
  match u1 with
  | .panic s => .panic s
  | .ok u1 =>
  let u2 : Res Int :=
    if (ridx < 0 ∨ ridx ≥ l.maxCnt) ∧ diff > 0 then
      if (l.objs.length : Int) ≥ l.maxCnt then
        if l.maxCnt - 1 < 0 then .panic "limiter: index out of range (maxValidatorCnt-1 < 0)" else
        match l.objs[(l.maxCnt - 1).toNat]? with
        | some lastVal => if objPower + diff > lastVal.2 then .ok (u1 + lastVal.2) else .ok u1
        | none => .panic "limiter: index out of range"
      else .ok u1
    else .ok u1
  match u2 with
  | .panic s => .panic s
  | .ok u2 =>
  -- since repair d838d29 a zero base means "no ratio to exceed" instead of a division by zero
  if l.upd < (if l.base > 0 then Int.tdiv (u2 * 100) l.base else 0) then .reject "updatable" else
  if objPower + diff < 0 then .reject "negative" else
  if !apply then .ok l else
  let objs' : List (Hex × Int) := if (l.objs.any (·.1 == dAddr)) then (l.objs.map fun o => if o.1 == dAddr then (o.1, o.2 + diff) else o) else l.objs
  .ok { l with objs := objs'.mergeSort (fun a b => objLess a b || a == b), updated := u2 }

end Limiter

/-! ### rewards (reward.go) -/

namespace Reward
/-- `Issue(r, h)`; a stored height above `h` is a Go panic -/
def issue (w : Reward) (r : Nat) (h : Int) : Res Reward :=
  if w.height < h then .ok { w with issued := r, height := h, cumulated := wadd w.cumulated r }
  else if w.height = h then .ok { w with issued := wadd w.issued r, cumulated := wadd w.cumulated r }
  else .panic "Reward.Issue: height regression"

def withdraw (w : Reward) (r : Nat) (h : Int) : Res Reward :=
  if w.height < h then .ok { w with withdrawn := r, height := h, cumulated := wsub w.cumulated r }
  else if w.height = h then .ok { w with withdrawn := wadd w.withdrawn r, cumulated := wsub w.cumulated r }
  else .panic "Reward.Withdraw: height regression"
end Reward

end Rigo
