/-
  Data types of the application model (accounts, stakes, delegatees, rewards, proposals,
  governance parameters) and the versioned overlay ledger they live in.

  Conventions (DESIGN.md §3): uint256 -> Nat with the same wrap-around as holiman/uint256
  (`wadd`, `wsub`, `wmul`), int64/uint64 -> Int/Nat with explicit range outcomes where Go would
  wrap or panic, byte strings -> lower-case hex `String`s ("" = empty), ledger keys -> the
  64-hex-digit rendering of `ledger.ToLedgerKey` (pad / truncate to 32 bytes).
-/
import Std.Data.ExtTreeMap

namespace Rigo

abbrev Hex := String
abbrev KMap (α : Type) := Std.ExtTreeMap String α compare

def two256 : Nat := 2 ^ 256
def two255 : Nat := 2 ^ 255
def two64 : Nat := 2 ^ 64
def two63 : Nat := 2 ^ 63
def amountPerPower : Nat := 1000000000000000000

def wadd (a b : Nat) : Nat := (a + b) % two256
def wsub (a b : Nat) : Nat := (a + two256 - b % two256) % two256
def wmul (a b : Nat) : Nat := (a * b) % two256
/-- Go's `int64` result of an integer computation: two's-complement wrap-around into `[-2^63, 2^63)`
    (the same definition as `Rigo.Gen.wrapI64` of the generated code; the identity on int64 values) -/
def wrapInt64 (x : Int) : Int :=
  if x % (two64 : Int) < (two63 : Int) then x % (two64 : Int) else x % (two64 : Int) - (two64 : Int)
/-- `uint256.Int.Sign() < 0` -/
def isNeg256 (a : Nat) : Bool := a ≥ two255

/-- `ledger.ToLedgerKey` on hex strings: pad with zero bytes / truncate to 32 bytes -/
def ledgerKey (h : Hex) : String :=
  let cs := h.toList.take 64
  String.ofList (cs ++ List.replicate (64 - cs.length) '0')

def zeroHash : Hex := String.ofList (List.replicate 64 '0')
def zeroAddr : Hex := String.ofList (List.replicate 40 '0')
def isZeroAddr (h : Hex) : Bool := h.all (· == '0')
def byteLen (h : Hex) : Nat := h.length / 2

/-- Outcome of a Go call that may panic (explicit, never a default value) -/
inductive Res (α : Type) where
  | ok (a : α)
  | panic (site : String)
  deriving Repr

structure Account where
  addr : Hex
  nonce : Nat := 0
  bal : Nat := 0
  code : Hex := ""
  name : Hex := ""
  doc : Hex := ""
  deriving Repr, DecidableEq, Inhabited

structure Stake where
  owner : Hex
  to : Hex
  hash : Hex
  power : Int
  start : Int
  refund : Int := 0
  deriving Repr, DecidableEq, Inhabited

structure Delegatee where
  addr : Hex
  pub : Hex
  self : Int := 0
  total : Int := 0
  slashed : Int := 0
  stakes : List Stake := []
  notSigned : List Int := []
  deriving Repr, DecidableEq, Inhabited

structure Reward where
  addr : Hex
  issued : Nat := 0
  withdrawn : Nat := 0
  slashed : Nat := 0
  cumulated : Nat := 0
  height : Int := 0
  deriving Repr, DecidableEq, Inhabited

structure Voter where
  addr : Hex
  power : Int
  choice : Int := -1
  deriving Repr, DecidableEq, Inhabited

/-- governance parameters (all 19 fields of `GovParams`) -/
structure Params where
  maxValidatorCnt : Int
  minValidatorStake : Nat
  minDelegatorStake : Nat
  rewardPerPower : Nat
  lazyRewardBlocks : Int
  lazyApplyingBlocks : Int
  gasPrice : Nat
  minTrxGas : Nat
  maxTrxGas : Nat
  maxBlockGas : Nat
  minVotingPeriodBlocks : Int
  maxVotingPeriodBlocks : Int
  minSelfStakeRatio : Int
  maxUpdatableStakeRatio : Int
  maxIndividualStakeRatio : Int
  slashRatio : Int
  signedBlocksWindow : Int
  minSignedBlocks : Int
  version : Int
  deriving Repr, DecidableEq, Inhabited

/-- a governance option as parsed by `GovParams.UnmarshalJSON` (the four big fields may be nil) -/
structure POpt where
  maxValidatorCnt : Int
  minValidatorStake : Option Nat
  minDelegatorStake : Option Nat
  rewardPerPower : Option Nat
  lazyRewardBlocks : Int
  lazyApplyingBlocks : Int
  gasPrice : Option Nat
  minTrxGas : Nat
  maxTrxGas : Nat
  maxBlockGas : Nat
  minVotingPeriodBlocks : Int
  maxVotingPeriodBlocks : Int
  minSelfStakeRatio : Int
  maxUpdatableStakeRatio : Int
  maxIndividualStakeRatio : Int
  slashRatio : Int
  signedBlocksWindow : Int
  minSignedBlocks : Int
  version : Int
  deriving Repr, DecidableEq, Inhabited

/-- one option of a proposal: raw bytes, its parse at validation time and at apply time
    (after the `""}` hot-fix), votes -/
structure VoteOpt where
  raw : Hex
  parsedV : Option POpt
  parsedA : Option POpt
  votes : Int := 0
  deriving Repr, DecidableEq, Inhabited

structure Proposal where
  hash : Hex
  start : Int
  end_ : Int
  applying : Int
  total : Int
  majority : Int
  optType : Int
  voters : List Voter          -- sorted by address (the Go map is keyed by the address string)
  options : List VoteOpt
  major : Option VoteOpt := none
  deriving Repr, DecidableEq, Inhabited

/-- a versioned ledger at the abstraction proved in C18: committed history, consensus view,
    mempool view (both views are full maps = last commit + pending changes) -/
structure Led (α : Type) where
  hist : List (KMap α) := []      -- hist[i] is version i+1
  fin : KMap α := {}
  chk : KMap α := {}

namespace Led
variable {α : Type}
def committed (l : Led α) : KMap α := l.hist.getLast?.getD {}
def version (l : Led α) : Nat := l.hist.length
/-- `ImmutableLedgerAt(n)`: n ≤ 0 latest, n > latest error -/
def at? (l : Led α) (n : Int) : Option (KMap α) :=
  if n ≤ 0 then some l.committed else l.hist[n.toNat - 1]?
def get (l : Led α) (exec : Bool) (k : String) : Option α := if exec then l.fin[k]? else l.chk[k]?
def set (l : Led α) (exec : Bool) (k : String) (v : α) : Led α :=
  if exec then { l with fin := l.fin.insert k v } else { l with chk := l.chk.insert k v }
/-- `Del` / `DelFinality` (the latter also deletes from the mempool overlay) -/
def del (l : Led α) (exec : Bool) (k : String) : Led α :=
  if exec then { l with fin := l.fin.erase k, chk := l.chk.erase k } else { l with chk := l.chk.erase k }
def commit (l : Led α) : Led α := { hist := l.hist ++ [l.fin], fin := l.fin, chk := l.fin }
def reopen (l : Led α) : Led α := { l with fin := l.committed, chk := l.committed }
end Led

end Rigo
