import Rigo.Ledger.Impl
