/-
  Bridge, part 2: from the `Led` abstraction at `Spec`'s key/value types (`LedG Key Val`, Nat keys)
  to the application model's own `Rigo.Led α` (String keys, arbitrary item type `α`), through an
  arbitrary INJECTIVE key encoding `ek : String → Key` and an arbitrary value encoding
  `ev : α → Val` (the real ledger stores 32-byte keys and serialised items, `Impl`/`Spec` abstract
  both to `Nat`; `encString` below is one concrete injective `ek`).

  * `LedRel ek ev l l'`: `l'` holds, under every encoded key `ek k`, the encoding of what `l` holds
    under `k` (history entry by entry, consensus view, mempool view);
  * `enc_step` / `enc_run`: `LedG.step`/`LedG.run` preserve `LedRel` and produce encoded outputs,
    for every operation except `iterAll` (a key encoding need not preserve the key ORDER, so the
    order of an iteration is not determined by the encoded ledger; `iterAll` IS covered at the
    Nat-key level by `LedBridge.sim_step`, and iteration order in the application model is by
    `String` order by construction of `ExtTreeMap.toList`);
  * `impl_refines_Led`: for every item type `α`, every injective `ek`, every `ev`, and every
    iteration-free sequence `lops` of `Led` operations, the outputs of `Rigo.Led α` (run with the
    operations of Rigo/Types.lean, `Led.run`), encoded, are exactly the outputs of the three-cache
    implementation model `Impl` on the encoded sequence.
-/
import RigoProofs.LedBridge
open Std

namespace Rigo.LedBridge
open Rigo.Ledger

section Generic
variable {K V K' V' : Type} {cmp : K → K → Ordering} {cmp' : K' → K' → Ordering}
variable [TransCmp cmp] [LawfulEqCmp cmp] [TransCmp cmp'] [LawfulEqCmp cmp']

def LOp.map (ek : K → K') (ev : V → V') : LOp K V → LOp K' V'
  | .set k v => .set (ek k) (ev v) | .get k => .get (ek k) | .del k => .del (ek k)
  | .setF k v => .setF (ek k) (ev v) | .getF k => .getF (ek k) | .delF k => .delF (ek k)
  | .read k => .read (ek k) | .iterAll => .iterAll | .commit => .commit
  | .readAt n k => .readAt n (ek k) | .reopen => .reopen | .version => .version

def LOut.map (ek : K → K') (ev : V → V') : LOut K V → LOut K' V'
  | .unit => .unit | .val v => .val (v.map ev) | .ver n => .ver n
  | .items l => .items (l.map fun kv => (ek kv.1, ev kv.2)) | .err => .err

def LOp.isIter : LOp K V → Bool
  | .iterAll => true
  | _ => false

/-- `m'` holds under `ek k` the encoding of what `m` holds under `k` -/
def MapRel (ek : K → K') (ev : V → V') (m : ExtTreeMap K V cmp) (m' : ExtTreeMap K' V' cmp') : Prop :=
  ∀ k : K, m'[ek k]? = (m[k]?).map ev

def HistRel (ek : K → K') (ev : V → V') (h : List (ExtTreeMap K V cmp))
    (h' : List (ExtTreeMap K' V' cmp')) : Prop :=
  h.length = h'.length ∧
  ∀ (i : Nat) (m : ExtTreeMap K V cmp) (m' : ExtTreeMap K' V' cmp'),
    h[i]? = some m → h'[i]? = some m' → MapRel ek ev m m'

structure LedRel (ek : K → K') (ev : V → V') (l : LedG K V cmp) (l' : LedG K' V' cmp') : Prop where
  hist : HistRel ek ev l.hist l'.hist
  fin : MapRel ek ev l.fin l'.fin
  chk : MapRel ek ev l.chk l'.chk

variable {ek : K → K'} {ev : V → V'}

omit [LawfulEqCmp cmp] [LawfulEqCmp cmp'] in
theorem MapRel.empty : MapRel ek ev ({} : ExtTreeMap K V cmp) ({} : ExtTreeMap K' V' cmp') := by
  intro k; simp

omit [LawfulEqCmp cmp] [LawfulEqCmp cmp'] in
theorem LedRel.empty : LedRel ek ev ({} : LedG K V cmp) ({} : LedG K' V' cmp') :=
  ⟨⟨rfl, fun i m m' h => by simp at h⟩, MapRel.empty, MapRel.empty⟩

theorem MapRel.insert (hek : Function.Injective ek) {m : ExtTreeMap K V cmp}
    {m' : ExtTreeMap K' V' cmp'} (h : MapRel ek ev m m') (k : K) (v : V) :
    MapRel ek ev (m.insert k v) (m'.insert (ek k) (ev v)) := by
  intro k2
  simp only [ExtTreeMap.getElem?_insert, LawfulEqCmp.compare_eq_iff_eq]
  by_cases e : k = k2
  · subst e; simp
  · have : ¬ ek k = ek k2 := fun c => e (hek c)
    simp [e, this, h k2]

theorem MapRel.erase (hek : Function.Injective ek) {m : ExtTreeMap K V cmp}
    {m' : ExtTreeMap K' V' cmp'} (h : MapRel ek ev m m') (k : K) :
    MapRel ek ev (m.erase k) (m'.erase (ek k)) := by
  intro k2
  simp only [ExtTreeMap.getElem?_erase, LawfulEqCmp.compare_eq_iff_eq]
  by_cases e : k = k2
  · subst e; simp
  · have : ¬ ek k = ek k2 := fun c => e (hek c)
    simp [e, this, h k2]

omit [LawfulEqCmp cmp] [LawfulEqCmp cmp'] in
theorem HistRel.committed {h : List (ExtTreeMap K V cmp)} {h' : List (ExtTreeMap K' V' cmp')}
    (r : HistRel ek ev h h') : MapRel ek ev (h.getLast?.getD {}) (h'.getLast?.getD {}) := by
  rw [List.getLast?_eq_getElem?, List.getLast?_eq_getElem?, ← r.1]
  cases e : h[h.length - 1]? with
  | none =>
    have : h'[h.length - 1]? = none := by
      rw [List.getElem?_eq_none_iff] at e ⊢; rw [← r.1]; exact e
    rw [this]; exact MapRel.empty
  | some m =>
    have hlt : h.length - 1 < h'.length := by
      rw [← r.1]; exact (List.getElem?_eq_some_iff.mp e).1
    rw [List.getElem?_eq_getElem hlt]
    exact r.2 _ _ _ e (List.getElem?_eq_getElem hlt)

omit [LawfulEqCmp cmp] [LawfulEqCmp cmp'] in
theorem HistRel.snoc {h : List (ExtTreeMap K V cmp)} {h' : List (ExtTreeMap K' V' cmp')}
    (r : HistRel ek ev h h') {m : ExtTreeMap K V cmp} {m' : ExtTreeMap K' V' cmp'}
    (rm : MapRel ek ev m m') : HistRel ek ev (h ++ [m]) (h' ++ [m']) := by
  refine ⟨by simp [r.1], fun i a a' ha ha' => ?_⟩
  by_cases hi : i < h.length
  · rw [List.getElem?_append_left hi] at ha
    rw [List.getElem?_append_left (r.1 ▸ hi)] at ha'
    exact r.2 i a a' ha ha'
  · have hi' : h.length ≤ i := Nat.le_of_not_lt hi
    rw [List.getElem?_append_right hi'] at ha
    rw [List.getElem?_append_right (r.1 ▸ hi')] at ha'
    have h0 : i - h.length = 0 := by
      cases hz : i - h.length with
      | zero => rfl
      | succ n => rw [hz] at ha; simp at ha
    rw [h0] at ha; rw [← r.1, h0] at ha'
    simp at ha ha'; subst ha; subst ha'; exact rm

omit [LawfulEqCmp cmp] [LawfulEqCmp cmp'] in
theorem LedRel.committed {l : LedG K V cmp} {l' : LedG K' V' cmp'} (r : LedRel ek ev l l') :
    MapRel ek ev l.committed l'.committed := r.hist.committed

/-- **Encoding simulation, one step**: related ledgers stay related and the outputs are the
    encodings of each other, for every operation but `iterAll`. -/
theorem enc_step (hek : Function.Injective ek) {l : LedG K V cmp} {l' : LedG K' V' cmp'}
    (r : LedRel ek ev l l') (o : LOp K V) (ho : o.isIter = false) :
    LedRel ek ev (l.step o).1 (l'.step (o.map ek ev)).1 ∧
    (l'.step (o.map ek ev)).2 = (l.step o).2.map ek ev := by
  cases o with
  | set k v => exact ⟨⟨r.hist, r.fin, r.chk.insert hek k v⟩, rfl⟩
  | get k => exact ⟨r, by simp [LedG.step, LOp.map, LOut.map, LedG.get, r.chk k]⟩
  | del k =>
    exact ⟨⟨r.hist, r.fin, r.chk.erase hek k⟩, by simp [LedG.step, LOp.map, LOut.map, LedG.get, r.chk k]⟩
  | setF k v => exact ⟨⟨r.hist, r.fin.insert hek k v, r.chk⟩, rfl⟩
  | getF k => exact ⟨r, by simp [LedG.step, LOp.map, LOut.map, LedG.get, r.fin k]⟩
  | delF k =>
    exact ⟨⟨r.hist, r.fin.erase hek k, r.chk.erase hek k⟩,
      by simp [LedG.step, LOp.map, LOut.map, LedG.get, r.fin k]⟩
  | read k => exact ⟨r, by simp [LedG.step, LOp.map, LOut.map, r.committed k]⟩
  | iterAll => cases ho
  | commit =>
    refine ⟨⟨r.hist.snoc r.fin, r.fin, r.fin⟩, ?_⟩
    simp [LedG.step, LOp.map, LOut.map, LedG.commit, LedG.version, r.hist.1]
  | readAt n k =>
    refine ⟨r, ?_⟩
    simp only [LedG.step, LOp.map, LedG.at?]
    by_cases hn : n ≤ 0
    · simp [hn, LOut.map, r.committed k]
    · simp only [hn, if_false]
      cases e : l.hist[n.toNat - 1]? with
      | none =>
        have : l'.hist[n.toNat - 1]? = none := by
          rw [List.getElem?_eq_none_iff] at e ⊢; rw [← r.hist.1]; exact e
        rw [this]; rfl
      | some m =>
        have hlt : n.toNat - 1 < l'.hist.length := by
          rw [← r.hist.1]; exact (List.getElem?_eq_some_iff.mp e).1
        rw [List.getElem?_eq_getElem hlt]
        simp [LOut.map, r.hist.2 _ _ _ e (List.getElem?_eq_getElem hlt) k]
  | reopen => exact ⟨⟨r.hist, r.committed, r.committed⟩, rfl⟩
  | version => exact ⟨r, by simp [LedG.step, LOp.map, LOut.map, LedG.version, r.hist.1]⟩

/-- **Encoding simulation, runs.** -/
theorem enc_run (hek : Function.Injective ek) {l : LedG K V cmp} {l' : LedG K' V' cmp'}
    (r : LedRel ek ev l l') (ops : List (LOp K V)) (ho : ∀ o ∈ ops, o.isIter = false) :
    LedRel ek ev (l.run ops).1 (l'.run (ops.map (LOp.map ek ev))).1 ∧
    (l'.run (ops.map (LOp.map ek ev))).2 = (l.run ops).2.map (LOut.map ek ev) := by
  induction ops generalizing l l' with
  | nil => exact ⟨r, rfl⟩
  | cons o ops ih =>
    obtain ⟨a, b⟩ := enc_step hek r o (ho o (List.mem_cons_self ..))
    obtain ⟨c, d⟩ := ih a (fun o' h' => ho o' (List.mem_cons_of_mem _ h'))
    simp only [List.map_cons, LedG.run]
    exact ⟨c, by rw [b, d]⟩

end Generic

/-! ## End to end: `Impl ⊑ Rigo.Led α` -/

/-- an operation sequence on `Rigo.Led α` without iteration -/
def NoIter {K V : Type} (ops : List (LOp K V)) : Prop := ∀ o ∈ ops, o.isIter = false

instance {K V : Type} (ops : List (LOp K V)) : Decidable (NoIter ops) := by
  unfold NoIter; infer_instance

/-- the encoded operation sequence handed to `Impl`/`Spec` -/
def encodeOps {α : Type} (ek : String → Key) (ev : α → Val) (lops : List (LOp String α)) : List Op :=
  (lops.map (LOp.map ek ev)).map LOp.toOp

def encodeOuts {α : Type} (ek : String → Key) (ev : α → Val) (outs : List (LOut String α)) : List Out :=
  (outs.map (LOut.map ek ev)).map LOut.toOut

theorem encodeOps_cancelFree {α : Type} (ek : String → Key) (ev : α → Val)
    (lops : List (LOp String α)) : CancelFree (encodeOps ek ev lops) := cancelFree_map_toOp _

/-- `Rigo.Led α` (String keys) against the `Led` abstraction at Nat keys -/
theorem Led_refines_LedN {α : Type} (ek : String → Key) (hek : Function.Injective ek) (ev : α → Val)
    (lops : List (LOp String α)) (hi : NoIter lops) :
    (({} : LedN).run (lops.map (LOp.map ek ev))).2 =
      (Led.run ({} : Led α) lops).2.map (LOut.map ek ev) := by
  have h := (enc_run (ek := ek) (ev := ev) hek
    (LedRel.empty (cmp := compare) (cmp' := compare)) lops hi).2
  have := Led.toG_run ({} : Led α) lops
  rw [Led.toG_empty] at this
  rw [h, this]

/-- **End to end: `Impl ⊑ Spec ⊑ Rigo.Led α`.**  For every item type `α`, every injective key
    encoding `ek`, every value encoding `ev` and every iteration-free sequence of operations of the
    application model's ledger `Rigo.Led α` (mempool `get/set/del`, consensus `get/set/del`, `read`,
    `commit`, `at?`, `reopen`, `version`; executed by `Led.run` with the operations of
    Rigo/Types.lean), the model of the real three-cache ledger, run on the encoded sequence,
    returns exactly the encoded outputs of `Led`. -/
theorem impl_refines_Led {α : Type} (ek : String → Key) (hek : Function.Injective ek) (ev : α → Val)
    (lops : List (LOp String α)) (hi : NoIter lops) :
    (({} : Impl).run (encodeOps ek ev lops)).2 = encodeOuts ek ev (Led.run ({} : Led α) lops).2 := by
  unfold encodeOps encodeOuts
  rw [impl_refines_led, Led_refines_LedN ek hek ev lops hi]

theorem spec_refines_Led {α : Type} (ek : String → Key) (hek : Function.Injective ek) (ev : α → Val)
    (lops : List (LOp String α)) (hi : NoIter lops) :
    (({} : Spec).run (encodeOps ek ev lops)).2 = encodeOuts ek ev (Led.run ({} : Led α) lops).2 := by
  unfold encodeOps encodeOuts
  rw [spec_refines_led, Led_refines_LedN ek hek ev lops hi]

/-! ## a concrete injective key encoding (the hypothesis of `impl_refines_Led` is satisfiable) -/

/-- bijective base-`2^32` numeral of a digit list (digits `< 2^32 - 1`) -/
def encDigits : List Nat → Nat
  | [] => 0
  | d :: ds => (d + 1) + 4294967296 * encDigits ds

theorem encDigits_inj : ∀ (a b : List Nat), (∀ d ∈ a, d < 4294967295) → (∀ d ∈ b, d < 4294967295) →
    encDigits a = encDigits b → a = b
  | [], [], _, _, _ => rfl
  | [], d :: ds, _, _, h => by simp only [encDigits] at h; omega
  | d :: ds, [], _, _, h => by simp only [encDigits] at h; omega
  | d :: ds, d' :: ds', ha, hb, h => by
    simp only [encDigits] at h
    have h1 := ha d (List.mem_cons_self ..)
    have h2 := hb d' (List.mem_cons_self ..)
    have hd : d = d' := by omega
    have he : encDigits ds = encDigits ds' := by omega
    rw [hd, encDigits_inj ds ds' (fun x hx => ha x (List.mem_cons_of_mem _ hx))
      (fun x hx => hb x (List.mem_cons_of_mem _ hx)) he]

def encString (s : String) : Key := encDigits (s.toList.map Char.toNat)

theorem char_toNat_lt (c : Char) : c.toNat < 4294967295 := by
  have := c.valid
  simp only [Char.toNat, UInt32.isValidChar, Nat.isValidChar] at *
  omega

theorem encString_injective : Function.Injective encString := by
  intro a b h
  have hm : ∀ (s : String), ∀ d ∈ s.toList.map Char.toNat, d < 4294967295 := by
    intro s d hd
    obtain ⟨c, _, rfl⟩ := List.mem_map.mp hd
    exact char_toNat_lt c
  have := encDigits_inj _ _ (hm a) (hm b) h
  have h2 : a.toList = b.toList := by
    exact (List.map_inj_right (fun x y e => Char.toNat_inj.mp e)).mp this
  exact String.toList_inj.mp h2

/-- the end-to-end statement with the concrete key encoding, no hypothesis left but `NoIter` -/
theorem impl_refines_Led_encString {α : Type} (ev : α → Val) (lops : List (LOp String α))
    (hi : NoIter lops) :
    (({} : Impl).run (encodeOps encString ev lops)).2 =
      encodeOuts encString ev (Led.run ({} : Led α) lops).2 :=
  impl_refines_Led encString encString_injective ev lops hi

/-! ## Non-vacuity -/

def demoSOps : List (LOp String Nat) :=
  [.set "a" 10, .setF "a" 11, .get "a", .commit, .get "a", .delF "a", .get "a", .getF "a",
   .set "b" 7, .del "b", .commit, .readAt 1 "a", .readAt 2 "a", .readAt 3 "a", .setF "b" 1,
   .reopen, .getF "b", .version]

example : NoIter demoSOps := by decide

example : (Led.run ({} : Led Nat) demoSOps).2 =
    [.unit, .unit, .val (some 10), .ver 1, .val (some 11), .val (some 11), .val none, .val none,
     .unit, .val (some 7), .ver 2, .val (some 11), .val none, .err, .unit, .unit, .val none,
     .ver 2] := by decide

example : (({} : Impl).run (encodeOps encString id demoSOps)).2 =
    [.unit, .unit, .val (some 10), .ver 1, .val (some 11), .val (some 11), .val none, .val none,
     .unit, .val (some 7), .ver 2, .val (some 11), .val none, .err, .unit, .unit, .val none,
     .ver 2] := by decide

/-- why `iterAll` is excluded HERE (it is covered at Nat keys by `sim_step`): a key encoding need
    not be monotone.  `"aa" < "b"` as strings but `encString "b" < encString "aa"`, so the encoded
    iteration of `Led` lists the two items in the other order than `Impl` on the encoded keys. -/
theorem iterAll_order_not_preserved :
    (({} : Impl).run (encodeOps encString id [.setF "aa" 1, .setF "b" 2, .commit, .iterAll])).2 ≠
      encodeOuts encString id
        (Led.run ({} : Led Nat) [.setF "aa" 1, .setF "b" 2, .commit, .iterAll]).2 := by decide

end Rigo.LedBridge
