import Rigo.Reach

namespace Rigo

theorem run_append (s : St) (a b : List Op) :
    run s (a ++ b) = ((run (run s a).1 b).1, (run s a).2 ++ (run (run s a).1 b).2) := by
  induction a generalizing s with
  | nil => simp [run]
  | cons op a ih => simp [run, ih]

theorem exec_append (s : St) (a b : List Op) : exec s (a ++ b) = exec (exec s a) b := by
  simp [exec, run_append]

theorem exec_snoc (s : St) (a : List Op) (op : Op) : exec s (a ++ [op]) = (step (exec s a) op).1 := by
  rw [exec_append]; simp [exec, run]

theorem exec_nil (s : St) : exec s [] = s := rfl

theorem exec_cons (s : St) (op : Op) (ops : List Op) : exec s (op :: ops) = exec (step s op).1 ops := by
  simp [exec, run]

theorem Reachable.start (g : Genesis) : Reachable g (initChain g) := ⟨[], by simp, rfl⟩

theorem Reachable.next {g : Genesis} {s : St} (h : Reachable g s) (op : Op) (hop : op.isInit = false) :
    Reachable g (step s op).1 := by
  obtain ⟨ops, hops, rfl⟩ := h
  refine ⟨ops ++ [op], ?_, exec_snoc _ _ _⟩
  intro o ho
  rcases List.mem_append.mp ho with h | h
  · exact hops o h
  · simp at h; subst h; exact hop

/-- induction principle over reachable states -/
theorem Reachable.induction {g : Genesis} (P : St → Prop) (h0 : P (initChain g))
    (hs : ∀ (s : St) (op : Op), Reachable g s → P s → op.isInit = false → P (step s op).1)
    {s : St} (h : Reachable g s) : P s := by
  obtain ⟨ops, hops, rfl⟩ := h
  have key : ∀ (ops : List Op) (s0 : St), Reachable g s0 → P s0 → (∀ op ∈ ops, op.isInit = false) →
      P (exec s0 ops) := by
    intro ops
    induction ops with
    | nil => intro s0 _ hp _; exact hp
    | cons op ops ih =>
      intro s0 hr hp hops
      rw [exec_cons]
      have hop := hops op (by simp)
      exact ih _ (hr.next op hop) (hs s0 op hr hp hop) (fun o ho => hops o (List.mem_cons_of_mem _ ho))
  exact key ops _ (Reachable.start g) h0 hops

end Rigo
