/-
  C19 (part 2): frame preservation for `handleTx`, DeliverTx, CheckTx, BeginBlock, EndBlock, restart;
  `commit` appends exactly the consensus view to every history.
-/
import RigoProofs.C19Frame
import RigoProofs.TxRecv

namespace Rigo
namespace C19

open C06 (bbGov bbElig bbStake bbVotes beginBlock_eq bind_eq_ok')

theorem runTrx_frame {s s2 : St} {e : Bool} {ht : Int} {tx : TxIn} {rcv : Account} {g : Nat} {k : Option String}
    (h : runTrx s e ht tx rcv = .ok (s2, g, k)) : frame s2 = frame s := by
  unfold runTrx at h
  extract_lets viaEvm fee jp at h
  have hjp : ∀ r, jp r = .ok (s2, g, k) → frame s2 = frame r.st := by
    intro r hj
    simp only [jp] at hj
    unstep hj
    repeat' split at hj
    all_goals first
      | (cases hj; done)
      | (cases hj; rfl)
      | (cases hj; simp; done)
  clear_value jp
  repeat' split at h
  all_goals
    obtain ⟨r, hr, h⟩ := bind_eq_ok'.mp h
    rw [hjp r h]
    first
      | (cases hr; done)
      | exact execEvm_frame hr
      | exact execProposal_frame hr
      | exact execVoting_frame hr
      | exact execTransfer_frame hr
      | exact execSetDoc_frame hr
      | exact execStaking_frame hr
      | exact execUnstaking_frame hr
      | exact execWithdraw_frame hr
      | (split at hr
         · exact execEvm_frame hr
         · exact execTransfer_frame hr)

theorem handleTx_frame (s : St) (e : Bool) (ht : Int) (tx : TxIn) : frame (handleTx s e ht tx).1 = frame s := by
  by_cases hlen : byteLen tx.to = 20
  case neg => rw [handleTx_badlen_fst hlen]
  rw [handleTx_goodlen hlen]
  unfold handleTxOld
  simp only []
  have h0 := frame_findOrNewAcct s e tx.to
  repeat' split
  all_goals first
    | rfl
    | exact h0
    | (have hv := ‹validateTrx _ _ _ _ _ _ = Except.ok _›
       have hr := ‹runTrx _ _ _ _ _ = Except.ok _›
       show frame _ = _
       rw [runTrx_frame hr, validateTrx_frame hv]; exact h0)
    | (have hv := ‹validateTrx _ _ _ _ _ _ = Except.ok _›
       show frame _ = _
       rw [validateTrx_frame hv]; exact h0)

theorem checkTx_frame (s : St) (tx : TxIn) : frame (checkTx s tx).1 = frame s := by
  unfold checkTx; exact handleTx_frame s false _ tx

theorem deliverTx_frame (s : St) (tx : TxIn) : frame (deliverTx s tx).1 = frame s := by
  unfold deliverTx
  split
  · rfl
  · rename_i b hb
    have hf := handleTx_frame s true b.height tx
    have hblk : (handleTx s true b.height tx).1.blk.map (·.height) = some b.height := by
      have := congrArg Frame.blkHeight hf
      simpa [frame, hb] using this
    repeat' split
    all_goals first
      | exact hf
      | (simp only [frame] at hf ⊢; simp_all; done)

/-! ### BeginBlock -/

theorem govPunish_frame (s : St) (a : Hex) : frame (govPunish s a).1 = frame s := by
  unfold govPunish
  exact foldl_inv (fun (x : St × Int) => frame x.1 = frame s) _ (by
    intro x k hx
    obtain ⟨acc, sum⟩ := x
    dsimp only at hx ⊢
    split
    · exact hx
    · rw [← hx]; simp [frame]) _ (s, 0) rfl

theorem stakePunish_frame (s : St) (a : Hex) : frame (stakePunish s a).1 = frame s := by
  unfold stakePunish
  split
  · rfl
  · simp [frame]

theorem resFoldP_frame {α β : Type} (f : Res (St × β) → α → Res (St × β)) (s : St) (b : β)
    (hf : ∀ acc j a s' i, f (.ok (acc, j)) a = .ok (s', i) → frame s' = frame acc)
    (hp : ∀ p a, f (.panic p) a = .panic p)
    (l : List α) {s' : St} {i : β} (h : l.foldl f (.ok (s, b)) = .ok (s', i)) : frame s' = frame s := by
  have := foldl_inv (fun (x : Res (St × β)) => ∀ s' i, x = .ok (s', i) → frame s' = frame s) f (by
    intro x a hx s' i hxs
    cases x with
    | panic p => rw [hp] at hxs; cases hxs
    | ok acc =>
      obtain ⟨acc, j⟩ := acc
      rw [hf acc j a s' i hxs, hx acc j rfl]) l (.ok (s, b)) (by intro s' i h; cases h; rfl)
  exact this s' i h

theorem rewardTo_frame {s s' : St} {d : Delegatee} {ht : Int} {i : Nat} (h : rewardTo s d ht = .ok (s', i)) :
    frame s' = frame s := by
  unfold rewardTo at h
  refine resFoldP_frame _ s 0 ?_ (fun _ _ => rfl) _ h
  intro acc j st s' i hs
  simp only [] at hs
  split at hs
  · cases hs
  · cases hs; simp [frame]

theorem processVote_frame {s s' : St} {ht : Int} {rl : KMap Delegatee} {v : VoteIn} {i j : Nat}
    (h : processVote s ht rl v i = .ok (s', j)) : frame s' = frame s := by
  unfold processVote at h
  split at h
  · repeat' split at h
    all_goals first
      | (cases h; done)
      | (cases h; rfl)
      | (cases h; exact rewardTo_frame ‹rewardTo _ _ _ = Res.ok _›)
  · simp only [] at h
    split at h
    · cases h; rfl
    · generalize Delegatee.countInWindow _ _ _ = cw at h
      split at h <;> (cases h; simp [frame])

theorem bbGov_frame (s : St) (h : Header) :
    frame (bbGov s h).1 = { frame s with blkHeight := some h.height } := by
  unfold bbGov
  exact foldl_inv (fun (x : St × List Int) => frame x.1 = { frame s with blkHeight := some h.height }) _ (by
    intro x a hx
    dsimp only
    rw [govPunish_frame]; exact hx) _ _ rfl

theorem bbElig_frame (s : St) (mp : Int) : frame (bbElig s mp) = frame s := rfl

theorem bbStake_frame (s : St) (h : Header) : frame (bbStake s h).1 = frame s := by
  unfold bbStake
  exact foldl_inv (fun (x : St × List Int) => frame x.1 = frame s) _ (by
    intro x a hx
    have := stakePunish_frame x.1 a
    split <;> simp_all) _ (s, []) rfl

theorem bbVotes_frame {s s' : St} {h : Header} {rl : KMap Delegatee} {i : Nat}
    (hv : bbVotes s h rl = .ok (s', i)) : frame s' = frame s := by
  unfold bbVotes at hv
  refine resFoldP_frame _ s 0 ?_ (fun _ _ => rfl) _ hv
  intro acc j v s' i hs
  exact processVote_frame hs

/-- BeginBlock either refuses the height (state unchanged) or opens block `lastHeight + 1` -/
theorem beginBlock_frame (s : St) (h : Header) :
    frame (beginBlock s h).1 = frame s ∨
      (h.height = s.lastHeight + 1 ∧ frame (beginBlock s h).1 = { frame s with blkHeight := some h.height }) := by
  rw [beginBlock_eq]
  split
  · exact Or.inl rfl
  · rename_i hh
    have hh' : h.height = s.lastHeight + 1 := by simpa using hh
    refine Or.inr ⟨hh', ?_⟩
    have hg := bbGov_frame s h
    repeat' split
    all_goals first
      | exact hg
      | (rw [bbStake_frame, bbElig_frame]; exact hg)
      | (rw [bbVotes_frame ‹bbVotes _ _ _ = Res.ok _›, bbStake_frame, bbElig_frame]; exact hg)

/-! ### EndBlock -/

theorem resFold_frame {α : Type} (f : Res St → α → Res St) (s : St)
    (hf : ∀ acc a s', f (.ok acc) a = .ok s' → frame s' = frame acc)
    (hp : ∀ p a, f (.panic p) a = .panic p)
    (l : List α) {s' : St} (h : l.foldl f (.ok s) = .ok s') : frame s' = frame s := by
  have := foldl_inv (fun (x : Res St) => ∀ s', x = .ok s' → frame s' = frame s) f (by
    intro x a hx s' hxs
    cases x with
    | panic p => rw [hp] at hxs; cases hxs
    | ok acc => rw [hf acc a s' hxs, hx acc rfl]) l (.ok s) (by intro s' h; cases h; rfl)
  exact this s' h

theorem freezeProposals_frame {s s' : St} {ht : Int} (h : freezeProposals s ht = .ok s') : frame s' = frame s := by
  unfold freezeProposals at h
  refine resFold_frame _ s ?_ (fun _ _ => rfl) _ h
  intro acc kp s' hs
  obtain ⟨k, p⟩ := kp
  dsimp only at hs
  repeat' split at hs
  all_goals first | (cases hs; done) | (cases hs; rfl) | (cases hs; simp [frame]; done)

theorem applyProposals_frame {s s' : St} {ht : Int} (h : applyProposals s ht = .ok s') : frame s' = frame s := by
  unfold applyProposals at h
  refine resFold_frame _ s ?_ (fun _ _ => rfl) _ h
  intro acc kp s' hs
  obtain ⟨k, p⟩ := kp
  dsimp only at hs
  repeat' split at hs
  all_goals first | (cases hs; done) | (cases hs; rfl) | (cases hs; simp [frame]; done)

theorem feeHandover_frame {s s' : St} {b : BlockCtx} (h : feeHandover s b = .ok s') : frame s' = frame s := by
  unfold feeHandover at h
  split at h
  · simp only [] at h
    split at h
    · cases h
    · cases h; simp
  · cases h; rfl

theorem unfreeze_frame {s s' : St} {ht : Int} (h : unfreeze s ht = .ok s') : frame s' = frame s := by
  unfold unfreeze at h
  refine resFold_frame _ s ?_ (fun _ _ => rfl) _ h
  intro acc kp s' hs
  obtain ⟨k, st⟩ := kp
  dsimp only at hs
  repeat' split at hs
  all_goals first
    | (cases hs; done)
    | (cases hs; rfl)
    | (have hr := ‹St.reward _ _ _ _ = some _›; cases hs; have := reward_frame hr; simp_all [frame]; done)

theorem updateValidators_frame {s s' : St} {u : List ValUpdate} (h : updateValidators s = .ok (s', u)) :
    frame s' = frame s := by
  unfold updateValidators at h
  split at h
  · cases h
  · cases h; rfl

theorem endBlock_frame (s : St) : frame (endBlock s).1 = frame s := by
  unfold endBlock
  repeat' split
  all_goals first
    | rfl
    | exact freezeProposals_frame ‹_›
    | (rw [applyProposals_frame ‹applyProposals _ _ = Res.ok _›]; exact freezeProposals_frame ‹_›)
    | (rw [feeHandover_frame ‹feeHandover _ _ = Res.ok _›, applyProposals_frame ‹applyProposals _ _ = Res.ok _›]
       exact freezeProposals_frame ‹_›)
    | (rw [unfreeze_frame ‹unfreeze _ _ = Res.ok _›, feeHandover_frame ‹feeHandover _ _ = Res.ok _›,
         applyProposals_frame ‹applyProposals _ _ = Res.ok _›]
       exact freezeProposals_frame ‹_›)
    | (rw [updateValidators_frame ‹updateValidators _ = Res.ok _›, unfreeze_frame ‹unfreeze _ _ = Res.ok _›,
         feeHandover_frame ‹feeHandover _ _ = Res.ok _›, applyProposals_frame ‹applyProposals _ _ = Res.ok _›]
       exact freezeProposals_frame ‹_›)

theorem restart_frame (s : St) : frame (restart s) = { frame s with blkHeight := none } := rfl

end C19
end Rigo
