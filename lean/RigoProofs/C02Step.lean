/-
  C02 helper: the per-operation step theorem (`step_ok`) assembled from BeginBlock, DeliverTx, CheckTx,
  EndBlock, Commit and restart, and the induction over well-phased histories.
-/
import RigoProofs.C02Begin
import RigoProofs.Reach

namespace Rigo.C02

open Std Rigo.Delegatee

/-! ### BeginBlock -/

theorem beginBlock_fst {s : St} {h : Header} (hh : h.height = s.lastHeight + 1)
    (hp : ∃ p, amountToPower (beginGov s h).active.minValidatorStake = .ok p) :
    (beginBlock s h).1 =
      if h.votes.isEmpty then beginPre s h else
      match (beginPre s h).delegs.at? (hopOf h) with
      | none => beginPre s h
      | some rl => match votesFold h.height rl (beginPre s h) h.votes with
        | .panic _ => beginPre s h
        | .ok (s', _) => s' := by
  obtain ⟨p, hp⟩ := hp
  unfold beginBlock beginPre
  unfold beginGov at hp ⊢
  rw [if_neg (by simpa using hh)]
  simp only
  generalize hg : List.foldl _ (_, []) h.evidence = g at hp ⊢
  obtain ⟨sB, pG⟩ := g
  simp only at hp ⊢
  rw [hp]
  simp only
  generalize hg2 : List.foldl _ (_, []) h.evidence = g2
  obtain ⟨sD, pS⟩ := g2
  simp only
  split
  · rfl
  · unfold hopOf
    split
    · rename_i heq; rw [heq]
    · rename_i rl heq; rw [heq]
      simp only
      split
      · rename_i heq2
        have h3 : votesFold h.height rl sD h.votes = _ := heq2
        rw [h3]
      · rename_i heq2
        have h3 : votesFold h.height rl sD h.votes = _ := heq2
        rw [h3]

theorem beginPre_ok {s : St} {h : Header} (hi : Inv0 s) (hr : SlashSane s)
    (hp : ∃ p, amountToPower (beginGov s h).active.minValidatorStake = .ok p) :
    Inv0 (beginPre s h) ∧ (beginPre s h).accts = s.accts ∧ (beginPre s h).frozen = s.frozen ∧
    (beginPre s h).blk = some { height := h.height, time := h.time, proposer := h.proposer } ∧
    (beginPre s h).active = s.active ∧ (beginPre s h).ghost = s.ghost ∧
    (beginPre s h).delegs.hist = s.delegs.hist ∧
    holdings (beginPre s h) = holdings s - (amountPerPower : Int) * slashLossList s h.evidence := by
  obtain ⟨p, hp⟩ := hp
  have cg := beginGov_coreEq s h
  unfold beginPre
  simp only [hp]
  have hiC : Inv0 { beginGov s h with
      allDelegs := sortByPower ((( beginGov s h).delegs.committed.toList.map (·.2)).filter fun d => d.self ≥ p),
      limiter := Limiter.reset (sortByPower (((beginGov s h).delegs.committed.toList.map (·.2)).filter fun d => d.self ≥ p))
        (beginGov s h).active.maxValidatorCnt (beginGov s h).active.maxIndividualStakeRatio (beginGov s h).active.maxUpdatableStakeRatio } := by
    refine ⟨?_, ?_, ?_⟩
    · show ∀ (k : String) (a : Account), (beginGov s h).accts.fin[k]? = some a → _
      rw [cg.accts]; exact hi.acctKey
    · show ∀ (k : String) (d : Delegatee), (beginGov s h).delegs.fin[k]? = some d → _
      rw [cg.delegs]; exact hi.delegKey
    · show ∀ (k : String) (st : Stake), (beginGov s h).frozen.fin[k]? = some st → _
      rw [cg.frozen]; exact hi.frozenKey
  have hrC : SlashSane { beginGov s h with
      allDelegs := sortByPower ((( beginGov s h).delegs.committed.toList.map (·.2)).filter fun d => d.self ≥ p),
      limiter := Limiter.reset (sortByPower (((beginGov s h).delegs.committed.toList.map (·.2)).filter fun d => d.self ≥ p))
        (beginGov s h).active.maxValidatorCnt (beginGov s h).active.maxIndividualStakeRatio (beginGov s h).active.maxUpdatableStakeRatio } := by
    show 0 ≤ (beginGov s h).active.slashRatio ∧ (beginGov s h).active.slashRatio ≤ 100
    rw [cg.active]; exact hr
  obtain ⟨j1, j2, j3, j4, j5, j6, j7, j8⟩ := stakeFold_ok h.evidence _ [] hiC hrC
  refine ⟨j1, j2.trans cg.accts, j3.trans cg.frozen, j4.trans cg.blk, j5.trans cg.active, j6.trans cg.ghost,
    j7.trans (by show (beginGov s h).delegs.hist = _; rw [cg.delegs]), j8.trans ?_⟩
  have e2 : holdings { beginGov s h with
    allDelegs := sortByPower ((( beginGov s h).delegs.committed.toList.map (·.2)).filter fun d => d.self ≥ p),
    limiter := Limiter.reset (sortByPower (((beginGov s h).delegs.committed.toList.map (·.2)).filter fun d => d.self ≥ p))
      (beginGov s h).active.maxValidatorCnt (beginGov s h).active.maxIndividualStakeRatio (beginGov s h).active.maxUpdatableStakeRatio } = holdings s := by
    show holdings (beginGov s h) = _
    unfold holdings; rw [cg.accts, cg.delegs, cg.frozen]
  rw [e2]
  congr 2
  exact slashLossList_congr h.evidence s _ cg.delegs cg.active

theorem frozenSync_of {s s' : St} (hh : s'.frozen.hist = s.frozen.hist)
    (keep : ∀ (k : String) (st : Stake), s.frozen.fin[k]? = some st → s'.frozen.fin[k]? = some st)
    (hs : FrozenSync s) : FrozenSync s' := by
  intro k st hk
  apply keep
  apply hs
  simpa [Led.committed, hh] using hk

theorem begin_ok {s : St} {h : Header} (hinv : Inv .idle s) (hc : BeginCompletes s h) (hr : SlashSane s)
    (hj : JailFresh s h) :
    Inv .inBlock (beginBlock s h).1 ∧ total (beginBlock s h).1 + slashBurnStep s (.begin_ h) = total s ∧
    (beginBlock s h).1.ghost = s.ghost := by
  obtain ⟨hi, hblk, hsync, _⟩ := hinv
  have hsync := hsync (by decide)
  have hbn : s.blk = none := hblk.1 rfl
  obtain ⟨hh, hp, hv⟩ := hc
  obtain ⟨p1, p2, p3, p4, p5, p6, p7, p8⟩ := beginPre_ok (h := h) hi hr hp
  have syncPre : FrozenSync (beginPre s h) := by unfold FrozenSync; rw [p3]; exact hsync
  have fee0 : ∀ s' : St, s'.blk = (beginPre s h).blk → feeInFlight s' = 0 := by
    intro s' e; unfold feeInFlight; rw [e, p4]; simp
  have feeS : feeInFlight s = 0 := by unfold feeInFlight; rw [hbn]; simp
  have hburn : slashBurnStep s (.begin_ h) = (amountPerPower : Int) * slashLossList s h.evidence := by
    simp only [slashBurnStep]; rw [if_neg (by simpa using hh)]
  rw [beginBlock_fst hh hp]
  split
  · refine ⟨inv_inBlock_mk p1 (by rw [p4]; simp) syncPre, ?_, p6⟩
    unfold total; rw [fee0 _ rfl, feeS, p8, hburn]; omega
  · rename_i hne
    obtain ⟨rl, r, hat, hfold⟩ := hv (by simpa using hne)
    obtain ⟨s', i'⟩ := r
    rw [hat]; simp only; rw [hfold]; simp only
    have vf := hj rl hat
    have vo := votesFold_ok h.height rl h.votes (beginPre s h) 0 (s', i') p1 vf hfold
    simp only at vo
    refine ⟨inv_inBlock_mk vo.inv0 (by rw [vo.blk, p4]; simp) (frozenSync_of vo.frozenHist vo.keep syncPre), ?_,
      vo.ghost.trans p6⟩
    unfold total; rw [fee0 _ vo.blk, feeS, vo.hold, p8, hburn]; omega

/-! ### Commit, restart, CheckTx -/

theorem committed_commit {α : Type} (l : Led α) : l.commit.committed = l.fin := by
  simp [Led.commit, Led.committed]

theorem commit_ok {s : St} (hinv : Inv .ended s) :
    Inv .idle (commit s).1 ∧ total (commit s).1 = holdings s ∧ (commit s).1.ghost = s.ghost := by
  obtain ⟨hi, hblk, _, _⟩ := hinv
  cases hbk : s.blk with
  | none => exact absurd hbk (hblk.2 (by decide))
  | some b =>
  unfold commit
  simp only [hbk]
  refine ⟨⟨⟨hi.acctKey, hi.delegKey, hi.frozenKey⟩, (by simp), fun _ => ?_, fun _ _ => ?_⟩, ?_, trivial⟩
  · intro k st hk
    have : s.frozen.commit.committed = s.frozen.fin := committed_commit _
    simp only at hk
    rw [this] at hk; exact hk
  · simp only [committed_commit]
    exact ⟨rfl, rfl, rfl, by simp [Led.commit], by simp [Led.commit]⟩
  · unfold total feeInFlight; simp only [Option.map_none, Option.getD_none]
    show holdings s + _ = _
    simp

theorem restart_ok {s : St} (hinv : Inv .idle s) (hh : s.accts.hist ≠ []) :
    Inv .idle (restart s) ∧ total (restart s) = total s ∧ (restart s).ghost = s.ghost := by
  obtain ⟨hi, hblk, hsync, hidle⟩ := hinv
  obtain ⟨e1, e2, e3, n2, n3⟩ := hidle rfl hh
  have hbn : s.blk = none := hblk.1 rfl
  have a1 : (restart s).accts.fin = s.accts.fin := by simp [restart, Led.reopen, e1]
  have a2 : (restart s).delegs.fin = s.delegs.fin := by simp [restart, Led.reopen, e2]
  have a3 : (restart s).frozen.fin = s.frozen.fin := by simp [restart, Led.reopen, e3]
  have b1 : (restart s).accts.hist = s.accts.hist := by simp [restart, Led.reopen]
  have b2 : (restart s).delegs.hist = s.delegs.hist := by simp [restart, Led.reopen]
  have b3 : (restart s).frozen.hist = s.frozen.hist := by simp [restart, Led.reopen]
  have hold : holdings (restart s) = holdings s := by unfold holdings; rw [a1, a2, a3]
  refine ⟨⟨⟨?_, ?_, ?_⟩, ⟨fun _ => rfl, fun h => absurd rfl h⟩, fun _ => ?_, fun _ _ => ?_⟩, ?_, rfl⟩
  · rw [a1]; exact hi.acctKey
  · rw [a2]; exact hi.delegKey
  · rw [a3]; exact hi.frozenKey
  · unfold FrozenSync Led.committed; rw [a3, b3]; exact hsync (by decide)
  · unfold Led.committed; rw [a1, a2, a3, b1, b2, b3]
    exact ⟨e1, e2, e3, n2, n3⟩
  · unfold total feeInFlight; rw [hold, hbn]; rfl

theorem check_ok {p : Phase} {s : St} (tx : TxIn) (hinv : Inv p s) :
    Inv p (checkTx s tx).1 ∧ holdings (checkTx s tx).1 = holdings s ∧ total (checkTx s tx).1 = total s ∧
    (checkTx s tx).1.ghost.withdrawn = s.ghost.withdrawn ∧ (checkTx s tx).1.ghost.feeBurn = s.ghost.feeBurn := by
  have sf := handleTx_check_sameFin s (s.lastHeight + 1) tx
  have e : (checkTx s tx).1 = (handleTx s false (s.lastHeight + 1) tx).1 := rfl
  rw [e]
  obtain ⟨hi, hblk, hsync, hidle⟩ := hinv
  refine ⟨⟨sf.inv0 hi, ?_, fun h => sf.sync (hsync h), fun h => ?_⟩, sf.holdings, sf.total, sf.withdrawn, sf.feeBurn⟩
  · rw [sf.blk]; exact hblk
  · have := hidle h
    unfold IdleSync Led.committed at this ⊢
    rw [sf.accts, sf.delegs, sf.frozen, sf.acctsHist, sf.delegsHist, sf.frozenHist]
    exact this

/-! ### one step, any operation -/

theorem valueAt_idle (s : St) : valueAt .idle s = total s := by simp [valueAt]
theorem valueAt_inBlock (s : St) : valueAt .inBlock s = total s := by simp [valueAt]
theorem valueAt_ended (s : St) : valueAt .ended s = holdings s := by simp [valueAt]

theorem step_ok {p p' : Phase} {s : St} {op : Op} (hinv : Inv p s) (hph : phaseStep p op = some p')
    (hok : StepOK s op) :
    Inv p' (step s op).1 ∧
    valueAt p' (step s op).1 + slashBurnStep s op + evmBurnStep s op +
        (((step s op).1.ghost.feeBurn : Int) - s.ghost.feeBurn) =
      valueAt p s + (((step s op).1.ghost.withdrawn : Int) - s.ghost.withdrawn) := by
  cases op with
  | init g => exact absurd hok (by simp [StepOK])
  | check tx =>
    have hp : p' = p := by cases p <;> simp [phaseStep] at hph <;> exact hph.symm
    subst hp
    obtain ⟨i, h1, h2, h3, h4⟩ := check_ok tx hinv
    refine ⟨i, ?_⟩
    simp only [step, slashBurnStep, evmBurnStep]
    rw [h3, h4]
    unfold valueAt; split <;> omega
  | begin_ h =>
    cases p <;> simp [phaseStep] at hph
    subst hph
    obtain ⟨hc, hr, hj⟩ := hok
    obtain ⟨i, h1, h2⟩ := begin_ok hinv hc hr hj
    refine ⟨i, ?_⟩
    have e0 : evmBurnStep s (.begin_ h) = 0 := rfl
    rw [e0]; simp only [step]
    rw [valueAt_inBlock, valueAt_idle, h2]; omega
  | deliver tx =>
    cases p <;> simp [phaseStep] at hph
    subst hph
    obtain ⟨hb, hf, ho⟩ := hok
    obtain ⟨i, h1, h2⟩ := deliver_ok hinv hb hf ho
    refine ⟨i, ?_⟩
    simp only [step, slashBurnStep]
    rw [valueAt_inBlock, valueAt_inBlock, h2]; omega
  | end_ =>
    cases p <;> simp [phaseStep] at hph
    subst hph
    obtain ⟨hc, hb⟩ := hok
    obtain ⟨i, h1, h2⟩ := end_ok hinv hb hc
    refine ⟨i, ?_⟩
    simp only [step, slashBurnStep, evmBurnStep]
    rw [valueAt_ended, valueAt_inBlock, h2]; omega
  | commit =>
    cases p <;> simp [phaseStep] at hph
    subst hph
    obtain ⟨i, h1, h2⟩ := commit_ok hinv
    refine ⟨i, ?_⟩
    simp only [step, slashBurnStep, evmBurnStep]
    rw [valueAt_idle, valueAt_ended, h1, h2]; omega
  | restart =>
    cases p <;> simp [phaseStep] at hph
    subst hph
    obtain ⟨i, h1, h2⟩ := restart_ok hinv hok
    refine ⟨i, ?_⟩
    simp only [step, slashBurnStep, evmBurnStep]
    rw [valueAt_idle, valueAt_idle, h1, h2]; omega

/-! ### histories -/

theorem run_ok : ∀ (ops : List Op) (p p' : Phase) (s : St), Inv p s → phaseRun p ops = some p' → RunOK s ops →
    Inv p' (exec s ops) ∧
    valueAt p' (exec s ops) + slashBurnRun s ops + evmBurnRun s ops +
        (((exec s ops).ghost.feeBurn : Int) - s.ghost.feeBurn) =
      valueAt p s + (((exec s ops).ghost.withdrawn : Int) - s.ghost.withdrawn) := by
  intro ops
  induction ops with
  | nil =>
    intro p p' s hinv hph _
    simp only [phaseRun] at hph; injection hph with hph; subst hph
    refine ⟨hinv, ?_⟩
    simp [exec, run, slashBurnRun, evmBurnRun]
  | cons op ops ih =>
    intro p p' s hinv hph hok
    simp only [phaseRun] at hph
    cases h1 : phaseStep p op with
    | none => rw [h1] at hph; cases hph
    | some p1 =>
      rw [h1] at hph; simp only at hph
      obtain ⟨ok1, ok2⟩ := hok
      obtain ⟨i1, e1⟩ := step_ok hinv h1 ok1
      obtain ⟨i2, e2⟩ := ih p1 p' (step s op).1 i1 hph ok2
      rw [exec_cons]
      refine ⟨i2, ?_⟩
      simp only [slashBurnRun, evmBurnRun]
      omega

end Rigo.C02
