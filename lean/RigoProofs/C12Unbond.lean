/-
  C12 helpers: who can release a stake, what a release does, how long a released stake stays in the
  unbonding ledger, and the refund pass of EndBlock (log, removal, credit).
-/
import RigoProofs.C11Life3

namespace Rigo
open Delegatee

/-! ### only the owner -/

theorem unstake_success {s : St} {ht : Int} {tx : TxIn} (hok : (handleTx s true ht tx).2.code = 0)
    (hty : tx.type = TRX_UNSTAKING) :
    tx.sigOk = true ∧ ∃ d hash st, tx.payload = .unstaking hash ∧ s.delegs.fin[ledgerKey tx.to]? = some d ∧
      d.findStake hash = some st ∧ st.owner = tx.from_ ∧
      (handleTx s true ht tx).1.core = unstakeCore s.core d st hash ht := by
  rcases handleTx_core s ht tx with ⟨_, h⟩ | ⟨_, h, _⟩ | ⟨_, _, hsig, d, hash, st, hp, hd, hst, hown, hc⟩
  · exact absurd hty (h hok).2
  · rw [hty] at h; exact absurd h (by decide)
  · exact ⟨hsig, d, hash, st, hp, hd, hst, hown.symm, hc⟩

/-- an unstaking transaction naming a stake of somebody else changes nothing -/
theorem unstake_by_other_fails {s : St} {ht : Int} {tx : TxIn} {d : Delegatee} {hash : Hex} {st : Stake}
    (hty : tx.type = TRX_UNSTAKING) (hp : tx.payload = .unstaking hash)
    (hd : s.delegs.fin[ledgerKey tx.to]? = some d) (hst : d.findStake hash = some st) (hown : st.owner ≠ tx.from_) :
    (handleTx s true ht tx).2.code ≠ 0 ∧ (handleTx s true ht tx).1.core = s.core := by
  rcases handleTx_core s ht tx with ⟨hc, h⟩ | ⟨_, h, _⟩ | ⟨_, _, _, d', hash', st', hp', hd', hst', hown', _⟩
  · exact ⟨fun h0 => (h h0).2 hty, hc⟩
  · rw [hty] at h; exact absurd h (by decide)
  · rw [hp] at hp'; cases hp'
    have : s.core.dfin[ledgerKey tx.to]? = some d := hd
    rw [this] at hd'; cases hd'
    rw [hst] at hst'; cases hst'
    exact absurd hown'.symm hown

/-! ### what a release does -/

theorem freezeFin_mem (m : KMap Stake) (ss : List Stake) (r : Int) :
    ∀ x ∈ ss, ∃ y ∈ ss, skey y = skey x ∧ (freezeFin m ss r)[skey x]? = some { y with refund := r } := by
  induction ss generalizing m with
  | nil => intro x hx; cases hx
  | cons a ss ih =>
    intro x hx
    by_cases hz : ∃ z ∈ ss, skey z = skey x
    · obtain ⟨z, hz, hk⟩ := hz
      obtain ⟨y, hy, hyk, hv⟩ := ih (m.insert (ledgerKey a.hash) { a with refund := r }) z hz
      exact ⟨y, by simp [hy], hyk.trans hk, by rw [← hk]; exact hv⟩
    · have hxa : skey a = skey x := by
        simp only [List.mem_cons] at hx
        rcases hx with rfl | hx
        · rfl
        · exact absurd ⟨x, hx, rfl⟩ hz
      refine ⟨a, by simp, hxa, ?_⟩
      show (freezeFin (m.insert (ledgerKey a.hash) { a with refund := r }) ss r)[skey x]? = _
      rw [freezeFin_get_other (fun st hst he => hz ⟨st, hst, he⟩), Std.ExtTreeMap.getElem?_insert]
      simp [show ledgerKey a.hash = skey x from hxa]

/-- with non-zero unique keys two stakes of a delegatee with the same key are the same stake -/
theorem key_inj_of_nodup (l : List Stake) (hn : ((l.map skey).filter (fun k => decide (k ≠ zeroKey))).Nodup) :
    ∀ x ∈ l, ∀ y ∈ l, skey x = skey y → skey x ≠ zeroKey → x = y := by
  induction l with
  | nil => intro x hx; cases hx
  | cons a l ih =>
    intro x hx y hy he hz
    simp only [List.map_cons, List.filter_cons] at hn
    simp only [List.mem_cons] at hx hy
    have tail_nd : ((l.map skey).filter (fun k => decide (k ≠ zeroKey))).Nodup := by
      split at hn
      · exact (List.nodup_cons.mp hn).2
      · exact hn
    have notin : ∀ z ∈ l, skey a ≠ zeroKey → skey z ≠ skey a := by
      intro z hzl hza hk
      simp only [hza, ne_eq, not_false_eq_true, decide_true, if_true, List.nodup_cons] at hn
      exact hn.1 (by simp only [List.mem_filter, List.mem_map]; exact ⟨⟨z, hzl, hk⟩, by simp [hza]⟩)
    rcases hx with rfl | hx
    · rcases hy with rfl | hy
      · rfl
      · exact absurd he.symm (notin y hy hz)
    · rcases hy with rfl | hy
      · exact absurd he (notin x hx (he ▸ hz))
      · exact ih tail_nd x hx y hy he hz

/-- the stakes a successful unstaking releases: the named one and, when the validator's own power
    drops to zero, all the remaining ones (forced release of the delegators) -/
def releasedBy (d : Delegatee) (st : Stake) (hash : Hex) : List Stake :=
  st :: (if (d.delStake hash).self = 0 then (d.delStake hash).stakes else [])

theorem sumPower_released {d : Delegatee} {st : Stake} {hash : Hex} (hok : DelegOK d) (hst : d.findStake hash = some st) :
    (if (d.delStake hash).self = 0 then (d.delStake hash).delAllStakes.1 else d.delStake hash).total =
      d.total - sumPower (releasedBy d st hash) := by
  have h1 : (d.delStake hash).total = d.total - st.power := by
    unfold Delegatee.delStake; rw [hst]
  have h2 := (hok.delStake hash).1
  unfold releasedBy
  split
  · simp only [delAllStakes_fst, sumPower_cons]; omega
  · simp only [sumPower_cons, sumPower_nil]; omega

/-- effect of a successful unstaking on the two ledgers -/
theorem unstakeCore_effect {c : Core} (hd : DelegsOK c) {K : String} {d : Delegatee} {st : Stake} {hash : Hex} (ht : Int)
    (hdK : c.dfin[K]? = some d) (hst : d.findStake hash = some st) :
    -- every released stake is in the unbonding ledger under its key, with the refund height
    -- `height + lazyRewardBlocks` of the parameters in force
    (∀ x ∈ releasedBy d st hash, ∃ y ∈ releasedBy d st hash, skey y = skey x ∧
      (unstakeCore c d st hash ht).ffin[skey x]? = some { y with refund := ht + c.active.lazyRewardBlocks }) ∧
    -- the delegatee lost exactly their power; it is deleted when nothing remains
    (match (unstakeCore c d st hash ht).dfin[K]? with
     | none => d.total - sumPower (releasedBy d st hash) = 0
     | some d' => d'.total = d.total - sumPower (releasedBy d st hash) ∧ DelegOK d' ∧ d'.addr = d.addr ∧
        d'.stakes.Sublist d.stakes ∧ ∀ x ∈ releasedBy d st hash, ∀ y ∈ d'.stakes,
          ((d.stakes.map skey).filter (fun k => decide (k ≠ zeroKey))).Nodup → skey x ≠ zeroKey → skey y ≠ skey x) ∧
    -- nobody else is touched
    (∀ k : String, k ≠ K → (unstakeCore c d st hash ht).dfin[k]? = c.dfin[k]?) := by
  obtain ⟨hok, hK, _⟩ := hd.1 _ _ hdK
  obtain ⟨h2, ha⟩ := unstake_d2_ok hash hok
  have htot := sumPower_released hok hst
  refine ⟨?_, ?_, ?_⟩
  · intro x hx
    rw [unstakeCore_ffin]
    exact freezeFin_mem _ _ _ x hx
  · unfold unstakeCore
    dsimp only
    generalize hd2 : (if (d.delStake hash).self = 0 then (d.delStake hash).delAllStakes.1 else d.delStake hash) = d2 at h2 ha htot
    rw [ha, ← hK]
    split
    · rename_i h0
      by_cases ht0 : d2.total = 0
      · rw [← htot]; exact ht0
      · simp [ht0] at h0
    · rename_i d' h0
      by_cases ht0 : d2.total = 0
      · simp [ht0] at h0
      simp [ht0] at h0
      subst h0
      refine ⟨htot, h2, ha, ?_, ?_⟩
      · rw [← hd2]; split
        · simp [delAllStakes_fst]
        · exact delStake_stakes_sublist d hash
      · intro x hx y hy hn hz
        unfold releasedBy at hx
        by_cases h0 : (d.delStake hash).self = 0
        · rw [← hd2] at hy; simp [h0, delAllStakes_fst] at hy
        · simp only [h0, if_false, List.mem_cons, List.not_mem_nil, or_false] at hx
          subst hx
          rw [← hd2] at hy; simp only [h0, if_false] at hy
          have hd1 : (d.delStake hash).stakes = d.stakes.eraseP (fun x => x.hash == hash) := by
            unfold Delegatee.delStake; rw [hst]
          rw [hd1] at hy
          exact eraseP_key_notin _ _ _ hst hn hz y hy
  · intro k hk
    unfold unstakeCore
    dsimp only
    generalize (if (d.delStake hash).self = 0 then (d.delStake hash).delAllStakes.1 else d.delStake hash) = d2 at h2 ha
    rw [ha, ← hK]
    split
    · rw [Std.ExtTreeMap.getElem?_erase]; simp [Ne.symm hk]
    · rw [Std.ExtTreeMap.getElem?_insert]; simp [Ne.symm hk]

end Rigo
