/-
  C13 / pipeline (7c): the eligible records at BeginBlock 2, 3, 4 of the example run (kernel evaluation, ~25 s).
-/
import RigoProofs.C13PipelineExDefs
open Std
namespace Rigo.C13P.Ex
open Rigo Rigo.TM Rigo.C14L Rigo.C19 Rigo.C13 Rigo.C13P

/-- at BeginBlock(2): version 1 = the genesis delegatees -/
theorem check1 : (exec S0 b1).active = G.params ∧ (exec S0 b1).lastVals = [] ∧
    stateCheck (exec S0 b1) 1 10 (genVotes.map fun v => (v.addr, v.power)) := by decide +kernel
/-- at BeginBlock(3): version 2, A has 15 after the delegation of block 2 -/
theorem check2 : (exec S0 (b1 ++ b2)).active = G.params ∧
    stateCheck (exec S0 (b1 ++ b2)) 1 10 ((newVotes true).map fun v => (v.addr, v.power)) := by decide +kernel
/-- at BeginBlock(4): version 3 -/
theorem check3 : (exec S0 (b1 ++ b2 ++ b3)).active = G.params ∧
    stateCheck (exec S0 (b1 ++ b2 ++ b3)) 1 10 ((newVotes true).map fun v => (v.addr, v.power)) := by decide +kernel


end Rigo.C13P.Ex
