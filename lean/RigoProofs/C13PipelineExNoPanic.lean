/-
  C13 / pipeline (7b): no call of the example run answers with a panic (kernel evaluation, ~20 s).
-/
import RigoProofs.C13PipelineExDefs
open Std
namespace Rigo.C13P.Ex
open Rigo Rigo.TM Rigo.C14L Rigo.C19 Rigo.C13 Rigo.C13P

theorem ops_noPanic : NoPanic G ops := by decide +kernel

end Rigo.C13P.Ex
