/-
  C14 — exact effect of `Delegatee.doSlash` (`doSlashAll` in delegatee.go).
-/
import RigoProofs.C10Tm
open Std

namespace Rigo.C14L

open Delegatee

/-- the slashed part of a stake: `(power * ratio) / 100`, Go integer division (truncation) -/
def slashOf (ratio : Int) (s : Stake) : Int := Int.tdiv (s.power * ratio) 100

/-- stake hashes are unique inside the delegatee (forfeited stakes are removed by hash) -/
def HashNodup (ss : List Stake) : Prop := ss.Pairwise (fun a b => a.hash ≠ b.hash)

/-! ### arithmetic of one stake -/

theorem slashOf_eq_floor {ratio : Int} {s : Stake} (hp : 0 ≤ s.power) (hr : 0 ≤ ratio) :
    slashOf ratio s = (s.power * ratio) / 100 := by
  unfold slashOf
  exact Int.tdiv_eq_ediv_of_nonneg (Int.mul_nonneg hp hr)

theorem slashOf_bounds {ratio : Int} {s : Stake} (hp : 0 ≤ s.power) (hr : 0 ≤ ratio) (hr' : ratio ≤ 100) :
    0 ≤ slashOf ratio s ∧ slashOf ratio s ≤ s.power := by
  rw [slashOf_eq_floor hp hr]
  have h1 : 0 ≤ s.power * ratio := Int.mul_nonneg hp hr
  have h2 : s.power * ratio ≤ s.power * 100 := Int.mul_le_mul_of_nonneg_left hr' hp
  constructor
  · exact Int.ediv_nonneg h1 (by omega)
  · omega

/-! ### removing the forfeited stakes by hash -/

theorem eraseP_hash_eq_filter {xs : List Stake} (hnd : HashNodup xs) (h : Hex) :
    xs.eraseP (·.hash == h) = xs.filter (·.hash != h) := by
  induction hnd with
  | nil => rfl
  | @cons x xs hr _ ih =>
    by_cases hx : x.hash = h
    · have h1 : (x.hash == h) = true := by simp [hx]
      have h2 : xs.filter (·.hash != h) = xs := by
        rw [List.filter_eq_self]; intro a ha
        have := hr a ha
        simp only [bne_iff_ne, ne_eq]; intro e; exact this (hx.trans e.symm)
      simp [h2, hx]
    · have h1 : (x.hash == h) = false := by simp [hx]
      simp [h1, hx, ih]

theorem HashNodup.filter {xs : List Stake} (hnd : HashNodup xs) (p : Stake → Bool) : HashNodup (xs.filter p) :=
  List.Pairwise.sublist List.filter_sublist hnd

theorem foldl_erase_eq_filter (rem : List Stake) : ∀ {xs : List Stake}, HashNodup xs →
    rem.foldl (fun acc r => acc.eraseP (·.hash == r.hash)) xs =
      xs.filter (fun x => rem.all (fun r => x.hash != r.hash)) := by
  induction rem with
  | nil => intro xs _; simp only [List.foldl_nil, List.all_nil]; exact (List.filter_eq_self.mpr (by simp)).symm
  | cons r rem ih =>
    intro xs hnd
    rw [List.foldl_cons, eraseP_hash_eq_filter hnd, ih (hnd.filter _), List.filter_filter]
    congr 1
    funext x
    simp [Bool.and_comm]

theorem map_filter_eq_filterMap {α β : Type} (g : α → β) (q : β → Bool) (f : α → Option β) (l : List α)
    (h : ∀ s ∈ l, f s = if q (g s) then some (g s) else none) :
    (l.map g).filter q = l.filterMap f := by
  induction l with
  | nil => rfl
  | cons s l ih =>
    have hs := h s (by simp)
    rw [List.map_cons, List.filter_cons, List.filterMap_cons, hs, ih (fun x hx => h x (List.mem_cons_of_mem _ hx))]
    by_cases hq : q (g s) <;> simp [hq]

/-- **the stakes after slashing**: every stake keeps `power − ⌊power·ratio/100⌋`, except those whose
    slashed part rounds down below 1, which are dropped (in the original order) -/
theorem doSlash_stakes (d : Delegatee) (ratio : Int) (hnd : HashNodup d.stakes) :
    (d.doSlash ratio).1.stakes = d.stakes.filterMap (slashStake ratio) := by
  unfold doSlash
  simp only
  have hred : HashNodup (d.stakes.map fun s => let sl := Int.tdiv (s.power * ratio) 100; if sl < 1 then s else { s with power := s.power - sl }) := by
    unfold HashNodup
    rw [List.pairwise_map]
    exact hnd.imp (fun {a b} h => by simp only; split <;> split <;> exact h)
  rw [foldl_erase_eq_filter _ hred]
  apply map_filter_eq_filterMap
  intro s hs
  have hkey : (List.all (List.filter (fun s => decide (Int.tdiv (s.power * ratio) 100 < 1)) d.stakes)
      fun r => (let sl := Int.tdiv (s.power * ratio) 100; if sl < 1 then s else { s with power := s.power - sl }).hash != r.hash)
      = !decide (Int.tdiv (s.power * ratio) 100 < 1) := by
    have hh : (let sl := Int.tdiv (s.power * ratio) 100; if sl < 1 then s else { s with power := s.power - sl }).hash = s.hash := by
      simp only; split <;> rfl
    rw [hh]
    by_cases hp : Int.tdiv (s.power * ratio) 100 < 1
    · simp only [hp, decide_true, Bool.not_true, List.all_eq_false, List.mem_filter, decide_eq_true_eq]
      exact ⟨s, ⟨hs, hp⟩, by simp⟩
    · simp only [hp, decide_false, Bool.not_false, List.all_eq_true, List.mem_filter, decide_eq_true_eq, bne_iff_ne, ne_eq]
      intro r ⟨hr, hrp⟩ e
      have : s = r := by
        apply Classical.byContradiction; intro hne
        exact TM.pairwise_of_mem_ne (fun _ _ h e => h e.symm) hnd s hs r hr hne e
      rw [this] at hp; exact hp hrp
  rw [hkey]
  unfold slashStake
  by_cases hp : Int.tdiv (s.power * ratio) 100 < 1 <;> simp [hp]

/-- the returned "slashed power": the sum of the slashed parts that are at least 1.
    Forfeited stakes (slashed part < 1) are NOT counted in it although their whole power is lost. -/
theorem doSlash_returned (d : Delegatee) (ratio : Int) :
    (d.doSlash ratio).2 =
      (d.stakes.filterMap fun s => if slashOf ratio s < 1 then none else some (slashOf ratio s)).sum := by
  unfold doSlash slashOf
  simp only
  induction d.stakes with
  | nil => rfl
  | cons s l ih =>
    rw [List.map_cons, List.sum_cons, ih, List.filterMap_cons]
    by_cases hp : Int.tdiv (s.power * ratio) 100 < 1 <;> simp [hp]

/-- power bookkeeping of a slash: old bonded power = remaining + returned slashed sum + forfeited stakes -/
theorem slash_conservation (ss : List Stake) (ratio : Int) :
    sumPower ss = sumPower (ss.filterMap (slashStake ratio))
      + (ss.filterMap fun s => if slashOf ratio s < 1 then none else some (slashOf ratio s)).sum
      + sumPower (ss.filter fun s => slashOf ratio s < 1) := by
  induction ss with
  | nil => rfl
  | cons s l ih =>
    unfold sumPower at *
    rw [List.map_cons, List.sum_cons, ih, List.filterMap_cons, List.filterMap_cons, List.filter_cons]
    unfold slashStake slashOf
    by_cases hp : Int.tdiv (s.power * ratio) 100 < 1
    · simp only [hp, if_true, decide_true]
      simp only [List.map_cons, List.sum_cons]; omega
    · simp only [hp, if_false, decide_false]
      simp only [List.map_cons, List.sum_cons, Bool.false_eq_true, if_false]
      omega

/-- **slash_exact**: `doSlash d ratio`
    * maps each stake to `power − ⌊power·ratio/100⌋` and drops exactly the stakes whose `⌊…⌋ < 1`
      (they are forfeited), keeping order and every other field of a stake;
    * recomputes `total` and `self` as the sums over the remaining stakes;
    * returns the sum of the `⌊…⌋ ≥ 1` (forfeited stakes are not counted in the returned sum);
    * leaves address, public key, `slashed` and the missed-block marks alone. -/
theorem slash_exact (d : Delegatee) (ratio : Int) (hnd : HashNodup d.stakes) :
    (d.doSlash ratio).1.stakes = d.stakes.filterMap (slashStake ratio) ∧
    (d.doSlash ratio).1.total = sumPower (d.stakes.filterMap (slashStake ratio)) ∧
    (d.doSlash ratio).1.self = sumPowerOf (d.stakes.filterMap (slashStake ratio)) d.addr ∧
    (d.doSlash ratio).2 = (d.stakes.filterMap fun s => if slashOf ratio s < 1 then none else some (slashOf ratio s)).sum ∧
    (d.doSlash ratio).1.addr = d.addr ∧ (d.doSlash ratio).1.pub = d.pub ∧
    (d.doSlash ratio).1.slashed = d.slashed ∧ (d.doSlash ratio).1.notSigned = d.notSigned := by
  have hs := doSlash_stakes d ratio hnd
  refine ⟨hs, ?_, ?_, doSlash_returned d ratio, rfl, rfl, rfl, rfl⟩
  · rw [← hs]; rfl
  · rw [← hs]; rfl

/-- per stake, with non-negative power and a ratio in 0..100: the slashed part is the floor
    `⌊power·ratio/100⌋`, lies in `0..power`, and a surviving stake keeps `power − ⌊…⌋ ≥ 0` with every
    other field unchanged -/
theorem slashStake_exact (ratio : Int) (s : Stake) (hp : 0 ≤ s.power) (hr : 0 ≤ ratio) (hr' : ratio ≤ 100) :
    slashOf ratio s = (s.power * ratio) / 100 ∧
    (slashStake ratio s = none ↔ (s.power * ratio) / 100 < 1) ∧
    (∀ s', slashStake ratio s = some s' →
      s' = { s with power := s.power - (s.power * ratio) / 100 } ∧ 0 ≤ s'.power ∧ s'.power < s.power) := by
  have hf := slashOf_eq_floor (s := s) hp hr
  have hb := slashOf_bounds (s := s) hp hr hr'
  unfold slashOf at hf hb
  refine ⟨hf, ?_, ?_⟩
  · unfold slashStake; simp only [hf]; split <;> simp_all
  · intro s' h
    unfold slashStake at h
    simp only [hf] at h hb
    split at h
    · cases h
    · cases h
      refine ⟨rfl, ?_, ?_⟩ <;> simp only <;> omega

/-- the total after a slash never exceeds the total before (non-negative powers, ratio in 0..100),
    given the delegatee's `total` was the sum of its stakes -/
theorem doSlash_total_le (d : Delegatee) (ratio : Int) (hnd : HashNodup d.stakes)
    (hp : ∀ s ∈ d.stakes, 0 ≤ s.power) (hr : 0 ≤ ratio) (hr' : ratio ≤ 100) (htot : d.total = sumPower d.stakes) :
    (d.doSlash ratio).1.total ≤ d.total ∧ 0 ≤ (d.doSlash ratio).1.total := by
  rw [(slash_exact d ratio hnd).2.1, htot]
  have key : ∀ ss : List Stake, (∀ s ∈ ss, 0 ≤ s.power) →
      sumPower (ss.filterMap (slashStake ratio)) ≤ sumPower ss ∧ 0 ≤ sumPower (ss.filterMap (slashStake ratio)) := by
    intro ss
    induction ss with
    | nil => intro _; simp [sumPower]
    | cons s l ih =>
      intro h
      have ih' := ih (fun x hx => h x (List.mem_cons_of_mem _ hx))
      have hs := h s (by simp)
      have he := slashStake_exact ratio s hs hr hr'
      unfold sumPower at *
      rw [List.filterMap_cons]
      cases hsl : slashStake ratio s with
      | none => simp only [List.map_cons, List.sum_cons]; omega
      | some s' =>
        have := he.2.2 s' hsl
        simp only [List.map_cons, List.sum_cons]; omega
  exact key d.stakes hp

end Rigo.C14L
