/-
  C16 — fees and gas: helper lemmas.
-/
import RigoProofs.C05Noop
open Std

namespace Rigo

/-- what go-ethereum guarantees about the gas of one contract execution: never more than the limit -/
def EvmGasOK (tx : TxIn) : Prop := ∀ o, tx.evm = some o → o.ok = true → o.gasUsed ≤ tx.gas

/-- amount leaving the sender's balance besides the fee, per native transaction type -/
def nativeDebit (tx : TxIn) : Nat :=
  if tx.type = TRX_TRANSFER then (if ledgerKey tx.from_ = ledgerKey tx.to then 0 else tx.amount)
  else if tx.type = TRX_STAKING then tx.amount else 0

/-- amount credited to the sender's balance (reward withdrawal) -/
def nativeCredit (tx : TxIn) : Nat :=
  if tx.type = TRX_WITHDRAW then (match tx.payload with | .withdraw req => req | _ => 0) else 0

theorem wadd_wsub_cancel {b a : Nat} (hb : b < 2 ^ 256) (ha : a ≤ b) : wadd (wsub b a) a = b := by
  rw [wsub_of_le hb ha]; unfold wadd two256
  rw [Nat.sub_add_cancel ha]; exact Nat.mod_eq_of_lt hb

/-- effect of the body of a native transaction on the sender's balance -/
theorem execNative_bal {s : St} {ht : Int} {tx : TxIn} {r : RunOut} (hA : AddrOK s.accts.fin)
    (hB : balOf s tx.from_ < 2 ^ 256) (hW : balOf s tx.from_ + nativeCredit tx < 2 ^ 256)
    (h : execNative s true ht tx = .ok r) :
    balOf r.st tx.from_ + nativeDebit tx = balOf s tx.from_ + nativeCredit tx := by
  unfold execNative at h
  unfold nativeDebit nativeCredit at *
  split at h
  · rename_i ht4
    obtain ⟨_, _, pr, e⟩ := execProposal_ok h
    rw [e]; simp [ht4, balOf, TRX_PROPOSAL, TRX_TRANSFER, TRX_STAKING, TRX_WITHDRAW]
  split at h
  · rename_i _ ht5
    obtain ⟨_, _, pr, e⟩ := execVoting_ok h
    rw [e]; simp [ht5, balOf, TRX_VOTING, TRX_TRANSFER, TRX_STAKING, TRX_WITHDRAW]
  split at h
  · rename_i _ _ ht1
    obtain ⟨_, _, _, sender, hs, hle, e⟩ := execTransfer_ok h
    have hk : ledgerKey sender.addr = ledgerKey tx.from_ := hA _ _ hs
    have hb : balOf s tx.from_ = sender.bal := by unfold balOf; rw [hs]; rfl
    rw [hb] at hB ⊢
    rcases e with ⟨hkk, e⟩ | ⟨hne, recv, hr, e⟩
    · rw [e, balOf_setAcct]
      simp [ht1, hk, hkk, TRX_TRANSFER, TRX_WITHDRAW, wadd_wsub_cancel hB hle]
    · have hkr : ledgerKey recv.addr = ledgerKey tx.to := hA _ _ hr
      rw [e, balOf_setAcct, balOf_setAcct]
      simp only [hkr, hk, if_neg (Ne.symm hne), if_true]
      simp [ht1, hne, TRX_TRANSFER, TRX_WITHDRAW, wsub_of_le hB hle]; omega
  split at h
  · rename_i _ _ _ ht7
    obtain ⟨_, _, sender, name, url, hs, e⟩ := execSetDoc_ok h
    have hk : ledgerKey sender.addr = ledgerKey tx.from_ := hA _ _ hs
    have hb : balOf s tx.from_ = sender.bal := by unfold balOf; rw [hs]; rfl
    rw [e, balOf_setAcct, hb]
    simp [ht7, hk, TRX_SETDOC, TRX_TRANSFER, TRX_STAKING, TRX_WITHDRAW]
  split at h
  · rename_i _ _ _ _ ht2
    obtain ⟨_, _, _, sender, dl, hs, hle, e⟩ := execStaking_ok h
    have hk : ledgerKey sender.addr = ledgerKey tx.from_ := hA _ _ hs
    have hb : balOf s tx.from_ = sender.bal := by unfold balOf; rw [hs]; rfl
    rw [hb] at hB ⊢
    rw [e]
    show balOf (s.setAcct true _) tx.from_ + _ = _
    rw [balOf_setAcct]
    simp [ht2, hk, TRX_STAKING, TRX_TRANSFER, TRX_WITHDRAW, wsub_of_le hB hle]; omega
  split at h
  · rename_i _ _ _ _ _ ht3
    obtain ⟨_, _, dl, fr, e⟩ := execUnstaking_ok h
    rw [e]; simp [ht3, balOf, TRX_UNSTAKING, TRX_TRANSFER, TRX_STAKING, TRX_WITHDRAW]
  split at h
  · rename_i _ _ _ _ _ _ ht8
    obtain ⟨_, _, req, sender, rw', hp, _, hs, e⟩ := execWithdraw_ok h
    have hk : ledgerKey sender.addr = ledgerKey tx.from_ := hA _ _ hs
    have hb : balOf s tx.from_ = sender.bal := by unfold balOf; rw [hs]; rfl
    rw [hb] at hB hW ⊢
    rw [e]
    show balOf (s.setAcct true _) tx.from_ + _ = _
    rw [balOf_setAcct]
    simp only [ht8, hp, if_true] at hW
    simp [ht8, hp, hk, TRX_WITHDRAW, TRX_TRANSFER, TRX_STAKING]
    unfold wadd two256; exact Nat.mod_eq_of_lt hW
  · simp [throw, throwThe, MonadExceptOf.throw] at h


theorem balOf_congr {s s' : St} (h : s'.accts.fin = s.accts.fin) (a : Hex) : balOf s' a = balOf s a := by
  unfold balOf; rw [h]

/-- C16 `admit_fee` at the level of `validateTrx` (both paths) -/
theorem validateTrx_admit {s : St} {exec : Bool} {h : Int} {tx : TxIn} {sender recv : Account} {s1 : St}
    (hv : validateTrx s exec h tx sender recv = .ok s1) :
    tx.price = s.active.gasPrice ∧ s.active.minTrxFee ≤ wmul tx.price tx.gas ∧ tx.gas ≤ maxInt64 ∧
    (tx.type = TRX_CONTRACT → intrinsicGas (contractData tx) (isZeroAddr tx.to) ≤ tx.gas) := by
  obtain ⟨h0, _, htv⟩ := validateTrx_ok hv
  obtain ⟨_, _, _, hg, _, hp, hm, _⟩ := cv0_ok h0
  refine ⟨hp, hm, hg, fun hty => ?_⟩
  unfold typeValidate at htv
  simp [hty, TRX_CONTRACT, TRX_PROPOSAL, TRX_VOTING, TRX_TRANSFER, TRX_SETDOC, TRX_STAKING, TRX_UNSTAKING, TRX_WITHDRAW] at htv
  exact (validateEvm_ok htv).2

/-- a successful delivery leaves the active governance parameters alone -/
theorem handleTx_ok_active {s : St} {h : Int} {tx : TxIn} (hA : AddrOK s.accts.fin)
    (hc : (handleTx s true h tx).2.code = 0) : (handleTx s true h tx).1.active = s.active := by
  obtain ⟨s1, s2, g, _, _, hA1, _, ha1, _, hr, e⟩ := deliver_ok_prelude hA hc
  rw [e]; simp only
  by_cases hv : viaEvm tx (recvOf s tx)
  · obtain ⟨r, hx, hf, rfl, _⟩ := runTrx_evm_ok hv hr
    obtain ⟨o, _, _, _, fF, _, _⟩ := execEvm_success hA1 hx hf
    unfold FinFrame at fF; rw [fF]; exact ha1
  · obtain ⟨_, _, r, sender', hx, _, _, _, e2⟩ := runTrx_native_ok hv hr
    obtain ⟨_, _, har, _⟩ := execNative_accts hA1 hx
    rw [e2, setAcct_true]; simp only; rw [har, ha1]

/-- C16 `native_charge` at the level of `handleTx` -/
theorem handleTx_native_charge {s : St} {h : Int} {tx : TxIn} (hA : AddrOK s.accts.fin)
    (hB : balOf s tx.from_ < 2 ^ 256) (hW : balOf s tx.from_ + nativeCredit tx < 2 ^ 256)
    (hc : (handleTx s true h tx).2.code = 0) (hn : ¬ viaEvm tx (recvOf s tx)) :
    balOf (handleTx s true h tx).1 tx.from_ + nativeDebit tx + wmul tx.price tx.gas
      = balOf s tx.from_ + nativeCredit tx ∧
    (handleTx s true h tx).2.gasUsed = tx.gas ∧ (handleTx s true h tx).2.gasWanted = tx.gas := by
  obtain ⟨_, sender, s1, s2, g, hs, hv, hr, e⟩ := handleTx_ok_inv hc
  obtain ⟨_, _, htv⟩ := validateTrx_ok hv
  obtain ⟨⟨l, hl⟩, _⟩ := typeValidate_state htv
  have e0 := EmptyExt_findOrNew s tx.to
  have hb1 : ∀ a, balOf s1 a = balOf s a := by
    intro a; rw [hl]; exact EmptyExt_bal e0 _
  have hA1 : AddrOK s1.accts.fin := by rw [hl]; exact EmptyExt_AddrOK e0 hA
  obtain ⟨_, hg, r, sender', hx, hs', _, hle, e2⟩ := runTrx_native_ok hn hr
  obtain ⟨_, _, _, _, _, hAr, _⟩ := execNative_accts hA1 hx
  have hk : ledgerKey sender'.addr = ledgerKey tx.from_ := hAr _ _ hs'
  have hbal := execNative_bal hA1 (by rw [hb1]; exact hB) (by rw [hb1]; exact hW) hx
  rw [hb1] at hbal
  have hbr : balOf r.st tx.from_ = sender'.bal := by unfold balOf; rw [hs']; rfl
  rw [e]; simp only
  refine ⟨?_, hg, trivial⟩
  rw [e2, balOf_setAcct]
  simp only [hk, if_true]
  have hlt : sender'.bal < 2 ^ 256 := by rw [← hbr]; omega
  rw [wsub_of_le hlt hle, ← hbal, hbr]
  omega

/-- C16 `contract_charge` at the level of `handleTx`: gas used is what the EVM reported and, under
    the oracle hypothesis, never above the limit -/
theorem handleTx_contract_gas {s : St} {h : Int} {tx : TxIn} (hA : AddrOK s.accts.fin)
    (hc : (handleTx s true h tx).2.code = 0) (hv : viaEvm tx (recvOf s tx)) :
    ∃ o, tx.evm = some o ∧ o.ok = true ∧ (handleTx s true h tx).2.gasUsed = o.gasUsed ∧
      (handleTx s true h tx).2.gasWanted = tx.gas ∧ (EvmGasOK tx → (handleTx s true h tx).2.gasUsed ≤ tx.gas) := by
  obtain ⟨s1, s2, g, _, _, hA1, _, _, _, hr, e⟩ := deliver_ok_prelude hA hc
  obtain ⟨r, hx, hf, _, hg⟩ := runTrx_evm_ok hv hr
  obtain ⟨o, ho, hok, hgas, _⟩ := execEvm_success hA1 hx hf
  rw [e]; simp only
  have : g = o.gasUsed := by rw [hg, hgas]; rfl
  exact ⟨o, ho, hok, this, trivial, fun hG => by rw [this]; exact hG o ho hok⟩

/-- the block context after one more fee -/
def addFee (b : BlockCtx) (fee : Nat) : BlockCtx := { b with feeSum := wadd b.feeSum fee }

/-- C16 `fee_accumulates` -/
theorem deliverTx_fee {s : St} {b : BlockCtx} (tx : TxIn) (hA : AddrOK s.accts.fin) (hb : s.blk = some b) :
    ((handleTx s true b.height tx).2.code = 0 →
      (deliverTx s tx).1.blk = some (addFee b (wmul (handleTx s true b.height tx).2.gasUsed s.active.gasPrice))) ∧
    ((handleTx s true b.height tx).2.code ≠ 0 → (deliverTx s tx).1.blk = some b) := by
  refine ⟨fun hc => ?_, fun hc => ?_⟩
  · have hp := handleTx_ok_panic hc
    have ha := handleTx_ok_active hA hc
    unfold deliverTx; rw [hb]; simp only
    rw [if_neg (by simp [hp]), if_pos hc, ha]; rfl
  · obtain ⟨l, e, _⟩ := handleTx_fail_shape hc
    have hblk : (handleTx s true b.height tx).1.blk = some b := by rw [e]; exact hb
    unfold deliverTx; rw [hb]; simp only
    split
    · exact hblk
    · first | exact hblk | (rw [if_neg hc]; exact hblk)

/-- C16 `proposer_credit` at the level of `feeHandover` -/
theorem feeHandover_credit {s : St} {b : BlockCtx} (hA : AddrOK s.accts.fin)
    (hp : b.proposer ≠ "") (h0 : 0 < b.feeSum) (h1 : b.feeSum < 2 ^ 255) :
    ∃ s', feeHandover s b = .ok s' ∧ balOf s' b.proposer = wadd (balOf s b.proposer) b.feeSum ∧
      (∀ a, ledgerKey a ≠ ledgerKey b.proposer → balOf s' a = balOf s a) ∧ s'.ghost = s.ghost := by
  have hn : isNeg256 b.feeSum = false := isNeg256_false.mpr h1
  unfold feeHandover
  rw [if_pos ⟨hp, h0, by simp [hn]⟩]
  simp only [findAcct_true]
  rw [addBalance_eq_some hn]
  refine ⟨_, rfl, ?_, ?_, by rw [setAcct_true]⟩
  · rw [balOf_setAcct]
    cases hx : s.accts.fin[ledgerKey b.proposer]? with
    | none => simp [balOf, hx]
    | some a => simp [balOf, hx, hA _ _ hx]
  · intro a ha
    rw [balOf_setAcct]
    cases hx : s.accts.fin[ledgerKey b.proposer]? with
    | none => simp [Ne.symm ha]
    | some x => simp [hA _ _ hx, Ne.symm ha]

theorem feeHandover_burn {s : St} {b : BlockCtx} (h : ¬ (b.proposer ≠ "" ∧ 0 < b.feeSum ∧ b.feeSum < 2 ^ 255)) :
    feeHandover s b = .ok { s with ghost := { s.ghost with feeBurn := s.ghost.feeBurn + b.feeSum } } := by
  unfold feeHandover
  rw [if_neg]
  intro c
  apply h
  refine ⟨c.1, c.2.1, ?_⟩
  have := c.2.2
  simp at this
  exact isNeg256_false.mp this


/-- where the fee hand-over sits inside `endBlock`: after the proposal handling (which does not touch
    accounts), before the stake refunds -/
theorem endBlock_handover {s s1 s2 : St} {b : BlockCtx} (hb : s.blk = some b)
    (h1 : freezeProposals s b.height = .ok s1) (h2 : applyProposals s1 b.height = .ok s2) :
    s2.accts = s.accts ∧
    ∀ s3, feeHandover s2 b = .ok s3 → ∀ s4, unfreeze s3 b.height = .ok s4 → (endBlock s).1.accts = s4.accts := by
  refine ⟨((applyProposals_accts s1 _ s2 h2).1).trans (freezeProposals_accts s _ s1 h1).1, ?_⟩
  intro s3 h3 s4 h4
  unfold endBlock
  rw [hb]; simp only [h1, h2, h3, h4]
  split
  · rfl
  · rename_i s5 ups h5
    exact (updateValidators_accts s4 _ h5).1

/-- fee of one delivery: `gasUsed × governance price` if it succeeded, nothing otherwise -/
def feeOf (s : St) (tx : TxIn) : Nat :=
  match s.blk with
  | some b =>
    if (handleTx s true b.height tx).2.code = 0 then wmul (handleTx s true b.height tx).2.gasUsed s.active.gasPrice else 0
  | none => 0

/-- sum of the fees of the successful ones among the deliveries `txs`, started in state `s` -/
def feesOf (s : St) : List TxIn → Nat
  | [] => 0
  | tx :: txs => feeOf s tx + feesOf (deliverTx s tx).1 txs

theorem deliverTx_active {s : St} (tx : TxIn) (hA : AddrOK s.accts.fin) : (deliverTx s tx).1.active = s.active := by
  cases hb : s.blk with
  | none => rw [deliverTx_noblk tx hb]
  | some b =>
    by_cases hc : (handleTx s true b.height tx).2.code = 0
    · have hp := handleTx_ok_panic hc
      have ha := handleTx_ok_active hA hc
      unfold deliverTx; rw [hb]; simp only
      rw [if_neg (by simp [hp]), if_pos hc]; exact ha
    · obtain ⟨l, e, _⟩ := handleTx_fail_shape hc
      have hact : (handleTx s true b.height tx).1.active = s.active := by rw [e]
      unfold deliverTx; rw [hb]; simp only
      split
      · exact hact
      · first | exact hact | (rw [if_neg hc]; exact hact)

/-- the block's fee sum after delivering `txs` is the old sum plus the fees of the successful ones (mod 2^256) -/
theorem feeSum_block (txs : List TxIn) : ∀ (s : St) (b : BlockCtx), AddrOK s.accts.fin → s.blk = some b →
    b.feeSum < 2 ^ 256 →
    ∃ b', (exec s (txs.map Op.deliver)).blk = some b' ∧ b'.proposer = b.proposer ∧ b'.height = b.height ∧
      b'.feeSum = (b.feeSum + feesOf s txs) % 2 ^ 256 ∧
      (exec s (txs.map Op.deliver)).active = s.active := by
  induction txs with
  | nil =>
    intro s b _ hb hlt
    refine ⟨b, hb, rfl, rfl, ?_, rfl⟩
    simp [feesOf, Nat.mod_eq_of_lt hlt]
  | cons tx txs ih =>
    intro s b hA hb hlt
    have hA' : AddrOK (deliverTx s tx).1.accts.fin := by
      rw [deliverTx_accts tx hb]; exact (handleTx_deliver_inv hA).1
    have hact := deliverTx_active tx hA
    simp only [List.map_cons, exec_cons]
    show ∃ b', (exec (deliverTx s tx).1 _).blk = some b' ∧ _
    obtain ⟨hs, hf⟩ := deliverTx_fee tx hA hb
    by_cases hc : (handleTx s true b.height tx).2.code = 0
    · have hb' := hs hc
      have hlt' : (addFee b (wmul (handleTx s true b.height tx).2.gasUsed s.active.gasPrice)).feeSum < 2 ^ 256 := by
        unfold addFee wadd two256; simp only; exact Nat.mod_lt _ (by decide)
      obtain ⟨b', h1, h2, h3, h4, h5⟩ := ih _ _ hA' hb' hlt'
      refine ⟨b', h1, h2, h3, ?_, h5.trans hact⟩
      rw [h4]
      simp only [feesOf, feeOf, hb, hc, if_true, addFee, wadd, two256]
      omega
    · have hb' := hf hc
      obtain ⟨b', h1, h2, h3, h4, h5⟩ := ih _ _ hA' hb' hlt
      refine ⟨b', h1, h2, h3, ?_, h5.trans hact⟩
      rw [h4]
      simp only [feesOf, feeOf, hb, hc, if_false]
      omega

end Rigo
