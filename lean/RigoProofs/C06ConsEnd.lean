/-
  C06 (part 6): EndBlock commutes with `eraseChk`.
-/
import RigoProofs.C06ConsBegin

namespace Rigo
namespace C06

theorem freezeProposals_E (s : St) (ht : Int) : freezeProposals (E s) ht = RS (freezeProposals s ht) := by
  unfold freezeProposals
  dsimp only [E_props_committed]
  exact foldl_comm RS _ (by
    intro x kp
    obtain ⟨k, p⟩ := kp
    cases x with
    | panic e => rfl
    | ok acc =>
      dsimp (config := { instances := true }) only [RS, E_props_get]
      bl_close) _ (.ok s)

theorem applyProposals_E (s : St) (ht : Int) : applyProposals (E s) ht = RS (applyProposals s ht) := by
  unfold applyProposals
  dsimp only [E_fprops_committed]
  exact foldl_comm RS _ (by
    intro x kp
    obtain ⟨k, p⟩ := kp
    cases x with
    | panic e => rfl
    | ok acc =>
      dsimp (config := { instances := true }) only [RS, E_fprops_get, E_active]
      bl_close) _ (.ok s)

theorem feeHandover_E (s : St) (b : BlockCtx) : feeHandover (E s) b = RS (feeHandover s b) := by
  unfold feeHandover
  dsimp (config := { instances := true }) only [E_findAcct, E_ghost]
  bl_close

theorem unfreeze_E (s : St) (ht : Int) : unfreeze (E s) ht = RS (unfreeze s ht) := by
  unfold unfreeze
  dsimp only [E_frozen_committed]
  exact foldl_comm RS _ (by
    intro x kp
    obtain ⟨k, st⟩ := kp
    cases x with
    | panic e => rfl
    | ok acc =>
      dsimp (config := { instances := true }) only [RS]
      simp only [reward_E]
      cases acc.reward true st.owner (powerToAmount st.power) with
      | none => split <;> rfl
      | some s1 =>
        split
        · simp [Option.map, eraseChk, Led.del, erase_empty]
        · rfl) _ (.ok s)

theorem updateValidators_E (s : St) : updateValidators (E s) = RP (updateValidators s) := by
  unfold updateValidators
  dsimp (config := { instances := true }) only [E_allDelegs, E_active, E_lastVals]
  bl_close

theorem endBlock_E (s : St) : endBlock (E s) = PE (endBlock s) := by
  unfold endBlock
  dsimp only [E_blk]
  cases s.blk with
  | none => rfl
  | some b =>
    dsimp only
    rw [freezeProposals_E]
    cases freezeProposals s b.height with
    | panic e => rfl
    | ok s1 =>
      dsimp only [RS]
      rw [applyProposals_E]
      cases applyProposals s1 b.height with
      | panic e => rfl
      | ok s2 =>
        dsimp only [RS]
        rw [feeHandover_E]
        cases feeHandover s2 b with
        | panic e => rfl
        | ok s3 =>
          dsimp only [RS]
          rw [unfreeze_E]
          cases unfreeze s3 b.height with
          | panic e => rfl
          | ok s4 =>
            dsimp only [RS]
            rw [updateValidators_E]
            cases updateValidators s4 with
            | panic e => rfl
            | ok x => rfl

end C06
end Rigo
