/-
  C10 — `endBlock` mirrors the eligible delegatees into the consensus engine's validator set.
-/
import RigoProofs.C10Sort
open Std

namespace Rigo.TM

/-! ### the parts of the state `updateValidators` reads are not touched by the earlier EndBlock phases -/

/-- the validator-related view of a state -/
def VView (s : St) : List Delegatee × List Delegatee × Params × Option BlockCtx :=
  (s.allDelegs, s.lastVals, s.active, s.blk)

theorem foldl_res_inv {α : Type} (P : St → Prop) (F : St → α → Res St)
    (hF : ∀ s x s', F s x = .ok s' → P s → P s') (l : List α) (acc : Res St) (s' : St)
    (h : l.foldl (fun acc x => match acc with | .panic e => .panic e | .ok s => F s x) acc = .ok s') :
    ∃ s0, acc = .ok s0 ∧ (P s0 → P s') := by
  induction l generalizing acc with
  | nil => exact ⟨s', h, id⟩
  | cons x l ih =>
    rw [List.foldl_cons] at h
    obtain ⟨s1, h1, himp⟩ := ih _ h
    cases acc with
    | panic e => simp at h1
    | ok s0 =>
      simp only at h1
      exact ⟨s0, rfl, fun hp => himp (hF s0 x s1 h1 hp)⟩

theorem freezeProposals_view (s : St) (height : Int) (s' : St) (h : freezeProposals s height = .ok s') :
    VView s' = VView s := by
  unfold freezeProposals at h
  obtain ⟨s0, h0, himp⟩ := foldl_res_inv (fun x => VView x = VView s)
    (fun (s : St) (kp : String × Proposal) =>
      if kp.2.end_ < height then
        if (s.props.get true kp.1).isNone then .panic "EndBlock: DelFinality of a proposal that is gone" else
        let s1 := { s with props := s.props.del true kp.1 }
        let sorted := sortOptions kp.2.options
        match sorted with
        | [] => .panic "index out of range: proposal without options"
        | top :: _ =>
          if top.votes ≥ kp.2.majority then
            .ok { s1 with fprops := s1.fprops.set true kp.1 { kp.2 with options := sorted, major := some top } }
          else .ok s1
      else .ok s)
    (by
      intro s x s' hF hP
      simp only at hF
      split at hF
      · split at hF
        · cases hF
        · split at hF
          · cases hF
          · split at hF <;> (cases hF; exact hP)
      · cases hF; exact hP)
    s.props.committed.toList (.ok s) s' h
  cases h0
  exact himp rfl

theorem applyProposals_view (s : St) (height : Int) (s' : St) (h : applyProposals s height = .ok s') :
    VView s' = VView s := by
  unfold applyProposals at h
  obtain ⟨s0, h0, himp⟩ := foldl_res_inv (fun x => VView x = VView s)
    (fun (s : St) (kp : String × Proposal) =>
      if kp.2.applying ≤ height then
        if (s.fprops.get true kp.1).isNone then .panic "EndBlock: DelFinality of a frozen proposal that is gone" else
        let s1 := { s with fprops := s.fprops.del true kp.1 }
        match kp.2.major with
        | none => .ok s1
        | some m =>
          if kp.2.optType = PROPOSAL_GOVPARAMS then
            match m.parsedA with
            | none => .panic "EndBlock: option does not unmarshal at apply time"
            | some o =>
              let np := mergeParams s1.active o
              .ok { s1 with params := s1.params.set true zeroHash np, pending := some np }
          else .ok s1
      else .ok s)
    (by
      intro s x s' hF hP
      simp only at hF
      split at hF
      · split at hF
        · cases hF
        · split at hF
          · cases hF; exact hP
          · split at hF
            · split at hF
              · cases hF
              · cases hF; exact hP
            · cases hF; exact hP
      · cases hF; exact hP)
    s.fprops.committed.toList (.ok s) s' h
  cases h0
  exact himp rfl

theorem feeHandover_view (s : St) (b : BlockCtx) (s' : St) (h : feeHandover s b = .ok s') : VView s' = VView s := by
  unfold feeHandover at h
  split at h
  · split at h
    · cases h
    · cases h; rfl
  · cases h; rfl

theorem unfreeze_view (s : St) (height : Int) (s' : St) (h : unfreeze s height = .ok s') : VView s' = VView s := by
  unfold unfreeze at h
  obtain ⟨s0, h0, himp⟩ := foldl_res_inv (fun x => VView x = VView s)
    (fun (s : St) (kst : String × Stake) =>
      if kst.2.refund ≤ height then
        match s.reward true kst.2.owner (powerToAmount kst.2.power) with
        | none => .panic "EndBlock: refund to a missing account"
        | some s1 =>
          .ok { s1 with frozen := s1.frozen.del true (ledgerKey kst.2.hash),
                        ghost := { s1.ghost with refunds := s1.ghost.refunds ++ [(kst.2.hash, kst.2.owner, kst.2.power, height)] } }
      else .ok s)
    (by
      intro s x s' hF hP
      simp only at hF
      split at hF
      · split at hF
        · cases hF
        · rename_i s1 hr
          cases hF
          unfold St.reward at hr
          split at hr
          · cases hr
          · split at hr
            · cases hr
            · cases hr; exact hP
      · cases hF; exact hP)
    s.frozen.committed.toList (.ok s) s' h
  cases h0
  exact himp rfl

end Rigo.TM
