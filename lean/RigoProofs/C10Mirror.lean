/-
  C10 — `endBlock` mirrors the eligible delegatees into the consensus engine's validator set.
-/
import RigoProofs.C10Sort
open Std

namespace Rigo.TM

/-! ### the parts of the state `updateValidators` reads are not touched by the earlier EndBlock phases -/

/-- the validator-related view of a state -/
def VView (s : St) : List Delegatee × List Delegatee × Params × Option BlockCtx :=
  (s.allDelegs, s.lastVals, s.active, s.blk)

theorem foldl_res_inv {α : Type} (P : St → Prop) (G : Res St → α → Res St)
    (hG0 : ∀ e x, G (.panic e) x = .panic e)
    (hG : ∀ s x s', G (.ok s) x = .ok s' → P s → P s') (l : List α) (acc : Res St) (s' : St)
    (h : l.foldl G acc = .ok s') :
    ∃ s0, acc = .ok s0 ∧ (P s0 → P s') := by
  induction l generalizing acc with
  | nil => exact ⟨s', h, id⟩
  | cons x l ih =>
    rw [List.foldl_cons] at h
    obtain ⟨s1, h1, himp⟩ := ih _ h
    cases acc with
    | panic e => rw [hG0] at h1; cases h1
    | ok s0 => exact ⟨s0, rfl, fun hp => himp (hG s0 x s1 h1 hp)⟩

theorem freezeProposals_view (s : St) (height : Int) (s' : St) (h : freezeProposals s height = .ok s') :
    VView s' = VView s := by
  unfold freezeProposals at h
  obtain ⟨s0, h0, himp⟩ := foldl_res_inv (fun x => VView x = VView s) _ (fun _ _ => rfl)
    (by
      intro s x s' hF hP
      obtain ⟨k, p⟩ := x
      simp only at hF
      split at hF
      · split at hF
        · cases hF
        · split at hF
          · cases hF
          · split at hF <;> (cases hF; exact hP)
      · cases hF; exact hP)
    _ _ s' h
  cases h0
  exact himp rfl

theorem applyProposals_view (s : St) (height : Int) (s' : St) (h : applyProposals s height = .ok s') :
    VView s' = VView s := by
  unfold applyProposals at h
  obtain ⟨s0, h0, himp⟩ := foldl_res_inv (fun x => VView x = VView s) _ (fun _ _ => rfl)
    (by
      intro s x s' hF hP
      obtain ⟨k, p⟩ := x
      simp only at hF
      split at hF
      · split at hF
        · cases hF
        · split at hF
          · cases hF; exact hP
          · split at hF
            · split at hF
              · cases hF
              · cases hF; exact hP
            · cases hF; exact hP
      · cases hF; exact hP)
    _ _ s' h
  cases h0
  exact himp rfl

theorem feeHandover_view (s : St) (b : BlockCtx) (s' : St) (h : feeHandover s b = .ok s') : VView s' = VView s := by
  unfold feeHandover at h
  split at h
  · simp only at h
    split at h
    · cases h
    · cases h; rfl
  · cases h; rfl

theorem reward_view (s : St) (to : Hex) (amt : Nat) (s1 : St) (hr : s.reward true to amt = some s1) : VView s1 = VView s := by
  unfold St.reward at hr
  split at hr
  · cases hr
  · split at hr
    · cases hr
    · cases hr; rfl

theorem unfreeze_view (s : St) (height : Int) (s' : St) (h : unfreeze s height = .ok s') : VView s' = VView s := by
  unfold unfreeze at h
  obtain ⟨s0, h0, himp⟩ := foldl_res_inv (fun x => VView x = VView s) _ (fun _ _ => rfl)
    (by
      intro s x s' hF hP
      obtain ⟨k, st⟩ := x
      simp only at hF
      split at hF
      · split at hF
        · cases hF
        · rename_i s1 hr
          cases hF
          have := reward_view _ _ _ _ hr
          rw [← hP, ← this]; rfl
      · cases hF; exact hP)
    _ _ s' h
  cases h0
  exact himp rfl

/-- the new validator list `updateValidators` selects in state `s` -/
def topN (s : St) : List Delegatee := s.allDelegs.take s.active.maxValidatorCnt.toNat

/-- **what `endBlock` does to the validator lists**: either it stops early (a panic outcome or a call
    outside a block: no updates, lists unchanged) or it sets `lastVals` to the power-sorted first
    `maxValidatorCnt` eligible delegatees and emits the merge-diff of the address-sorted old and new lists. -/
theorem endBlock_valset (s : St) :
    ((endBlock s).2.valUpdates = [] ∧ (endBlock s).1.lastVals = s.lastVals ∧ (endBlock s).1.allDelegs = s.allDelegs ∧
        (endBlock s).1.active = s.active) ∨
    (0 ≤ s.active.maxValidatorCnt ∧ (endBlock s).2.panic = "" ∧
      (endBlock s).1.lastVals = sortByPower (topN s) ∧
      (endBlock s).2.valUpdates = validatorUpdates (sortByAddr s.lastVals) (sortByAddr (topN s)) ∧
      (endBlock s).1.allDelegs = s.allDelegs ∧ (endBlock s).1.active = s.active) := by
  unfold endBlock
  split
  · left; exact ⟨rfl, rfl, rfl, rfl⟩
  · rename_i b _
    split
    · left; exact ⟨rfl, rfl, rfl, rfl⟩
    · rename_i s1 h1
      have v1 := freezeProposals_view _ _ _ h1
      split
      · left; simp only [VView, Prod.mk.injEq] at v1; exact ⟨rfl, v1.2.1, v1.1, v1.2.2.1⟩
      · rename_i s2 h2
        have v2 := (applyProposals_view _ _ _ h2).trans v1
        split
        · left; simp only [VView, Prod.mk.injEq] at v2; exact ⟨rfl, v2.2.1, v2.1, v2.2.2.1⟩
        · rename_i s3 h3
          have v3 := (feeHandover_view _ _ _ h3).trans v2
          split
          · left; simp only [VView, Prod.mk.injEq] at v3; exact ⟨rfl, v3.2.1, v3.1, v3.2.2.1⟩
          · rename_i s4 h4
            have v4 := (unfreeze_view _ _ _ h4).trans v3
            simp only [VView, Prod.mk.injEq] at v4
            obtain ⟨va, vl, vact, _⟩ := v4
            split
            · left; exact ⟨rfl, vl, va, vact⟩
            · rename_i s5 ups h5
              right
              unfold updateValidators selectValidators at h5
              by_cases hm : s4.active.maxValidatorCnt < 0
              · simp [hm] at h5
              · simp only [hm, if_false] at h5
                cases h5
                unfold topN
                rw [← va, ← vl, ← vact]
                exact ⟨by omega, rfl, rfl, rfl, rfl, rfl⟩

/-- two lists with the same members and distinct keys stand for the same set -/
theorem asSet_perm {l l' : List Delegatee} (p : l.Perm l') (hd : l.Pairwise (fun a b => a.pub ≠ b.pub)) :
    asSet l = asSet l' := by
  have hd' : l'.Pairwise (fun a b => a.pub ≠ b.pub) := (p.pairwise_iff (fun hab e => hab e.symm)).mp hd
  apply ExtTreeMap.ext_getElem?
  intro k
  by_cases hk : ∃ d ∈ l, d.pub = k
  · obtain ⟨d, hdl, rfl⟩ := hk
    rw [getElem?_asSet_of_mem l hd d hdl, getElem?_asSet_of_mem l' hd' d (p.mem_iff.mp hdl)]
  · have hn : ∀ d ∈ l, d.pub ≠ k := fun d hdl e => hk ⟨d, hdl, e⟩
    have hn' : ∀ d ∈ l', d.pub ≠ k := fun d hdl => hn d (p.mem_iff.mpr hdl)
    rw [getElem?_asSet_of_not_mem l k hn, getElem?_asSet_of_not_mem l' k hn']

/-- distinct addresses give distinct keys -/
theorem pub_distinct_of_addr {f : Hex → Hex} (finj : Injective f) {ds : List Delegatee} (hd : AddrDistinct ds)
    (hp : PubOfAddr f ds) : ds.Pairwise (fun a b => a.pub ≠ b.pub) := by
  unfold AddrDistinct at hd
  induction hd with
  | nil => exact List.Pairwise.nil
  | cons hr _ ih =>
    refine List.Pairwise.cons ?_ (ih hp.tail)
    intro x hx e
    rw [hp _ (by simp), hp x (List.mem_cons_of_mem _ hx)] at e
    exact hr x hx (finj _ _ e)

theorem PubOfAddr.perm {f : Hex → Hex} {l l' : List Delegatee} (h : PubOfAddr f l) (p : l'.Perm l) : PubOfAddr f l' :=
  fun d hd => h d (p.mem_iff.mp hd)

/-- hypotheses on the two lists `updateValidators` reads -/
structure ValsetOK (f : Hex → Hex) (s : St) : Prop where
  allDistinct : AddrDistinct s.allDelegs
  lastDistinct : AddrDistinct s.lastVals
  allPub : PubOfAddr f s.allDelegs
  lastPub : PubOfAddr f s.lastVals
  allPos : ∀ d ∈ s.allDelegs, 0 < d.total

theorem topN_sublist (s : St) : (topN s).Sublist s.allDelegs := List.take_sublist _ _

/-- **valset_mirror_step**: one `endBlock` transforms the engine's set standing for the old `lastVals`
    into the set standing for the new `lastVals`; the new `lastVals` is the power-ranked, truncated list of
    eligible delegatees, each with power = total bonded power; and the engine accepts the update list
    provided the new list is not empty. -/
theorem valset_mirror_step {f : Hex → Hex} (finj : Injective f) (s : St) (ok : ValsetOK f s) :
    applyUpdates (asSet s.lastVals) (endBlock s).2.valUpdates = asSet (endBlock s).1.lastVals ∧
    ((endBlock s).1.lastVals = sortByPower (topN s) ∨
      ((endBlock s).1.lastVals = s.lastVals ∧ (endBlock s).2.valUpdates = [])) ∧
    ((endBlock s).2.valUpdates ≠ [] → topN s ≠ [] → tmAccepts (asSet s.lastVals) (endBlock s).2.valUpdates) ∧
    ValsetOK f (endBlock s).1 := by
  have hsub := topN_sublist s
  have hnd : AddrDistinct (topN s) := ok.allDistinct.sublist hsub
  have hnp : PubOfAddr f (topN s) := fun d hd => ok.allPub d (hsub.subset hd)
  have hpos : ∀ n ∈ sortByAddr (topN s), 0 < n.total := fun n hn =>
    ok.allPos n (hsub.subset ((sortByAddr_perm _).mem_iff.mp hn))
  have hso := sortByAddr_sorted ok.lastDistinct
  have hsn := sortByAddr_sorted hnd
  have hpo := ok.lastPub.perm (sortByAddr_perm s.lastVals)
  have hpn := hnp.perm (sortByAddr_perm (topN s))
  have hmerge := mergeDiff_correct finj _ _ hso hsn hpo hpn (fun n hn => Int.ne_of_gt (hpos n hn))
  have e1 : asSet (sortByAddr s.lastVals) = asSet s.lastVals :=
    asSet_perm (sortByAddr_perm _) (pub_distinct finj hso hpo)
  have e2 : asSet (sortByAddr (topN s)) = asSet (sortByPower (topN s)) :=
    asSet_perm ((sortByAddr_perm _).trans (sortByPower_perm _).symm) (pub_distinct finj hsn hpn)
  rcases endBlock_valset s with ⟨h1, h2, h3, h4⟩ | ⟨h0, hp, h1, h2, h3, h4⟩
  · refine ⟨by rw [h1, h2]; rfl, Or.inr ⟨h2, h1⟩, fun h => absurd h1 h, ?_⟩
    exact ⟨h3 ▸ ok.allDistinct, h2 ▸ ok.lastDistinct, h3 ▸ ok.allPub, h2 ▸ ok.lastPub, h3 ▸ ok.allPos⟩
  · refine ⟨?_, Or.inl h1, ?_, ?_⟩
    · rw [h2, h1, ← e1, hmerge, e2]
    · intro _ hne
      rw [h2, ← e1]
      apply updates_accepted finj _ _ hso hsn hpo hpn hpos
      intro e
      have := (sortByAddr_perm (topN s)).length_eq
      rw [e] at this
      exact hne (List.length_eq_zero_iff.mp this.symm)
    · refine ⟨h3 ▸ ok.allDistinct, ?_, h3 ▸ ok.allPub, ?_, h3 ▸ ok.allPos⟩
      · rw [h1]; exact hnd.perm (sortByPower_perm _)
      · rw [h1]; exact hnp.perm (sortByPower_perm _)

end Rigo.TM
