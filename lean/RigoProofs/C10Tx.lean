/-
  C10 — transactions (DeliverTx / CheckTx) never touch the validator lists or the active parameters.
-/
import Rigo.Block
import RigoProofs.TxRecv
open Std

namespace Rigo.TM

/-- the in-memory validator lists and the active parameters -/
def VL (s : St) : List Delegatee × List Delegatee × Params := (s.allDelegs, s.lastVals, s.active)

set_option hygiene false in
macro "frame_tac" : tactic => `(tactic| (
  simp only [bind, Except.bind, pure, Except.pure, throw, throwThe, MonadExceptOf.throw] at h
  iterate 16 (try any_goals (split at h))
  all_goals (first | (cases h; done) | (cases h; rfl))))

set_option linter.unusedSimpArgs false

theorem limit_vl (s : St) (exec : Bool) (a : Hex) (t d : Int) (s' : St) (h : s.limit exec a t d = .ok s') : VL s' = VL s := by
  unfold St.limit at h
  split at h
  · split at h <;> cases h; rfl
  · cases h; rfl

theorem validateStaking_vl (s : St) (exec : Bool) (tx : TxIn) (s' : St) (h : validateStaking s exec tx = .ok s') : VL s' = VL s := by
  unfold validateStaking at h
  simp only [bind, Except.bind, pure, Except.pure, throw, throwThe, MonadExceptOf.throw] at h
  iterate 14 (try any_goals (split at h))
  all_goals (first | (cases h; done) | exact limit_vl _ _ _ _ _ _ h | (cases h; rfl))

theorem validateUnstaking_vl (s : St) (exec : Bool) (tx : TxIn) (s' : St) (h : validateUnstaking s exec tx = .ok s') : VL s' = VL s := by
  unfold validateUnstaking at h
  simp only [bind, Except.bind, pure, Except.pure, throw, throwThe, MonadExceptOf.throw] at h
  iterate 14 (try any_goals (split at h))
  all_goals (first | (cases h; done) | exact limit_vl _ _ _ _ _ _ h | (cases h; rfl))

set_option linter.unusedSimpArgs false

theorem validateWithdraw_vl (s : St) (exec : Bool) (tx : TxIn) (s' : St) (h : validateWithdraw s exec tx = .ok s') : VL s' = VL s := by
  unfold validateWithdraw at h
  frame_tac

theorem validateProposal_vl (s : St) (exec : Bool) (height : Int) (tx : TxIn) (s' : St) (h : validateProposal s exec height tx = .ok s') : VL s' = VL s := by
  unfold validateProposal at h
  frame_tac

theorem validateVoting_vl (s : St) (exec : Bool) (height : Int) (tx : TxIn) (s' : St) (h : validateVoting s exec height tx = .ok s') : VL s' = VL s := by
  unfold validateVoting at h
  frame_tac

theorem validateEvm_vl (s : St) (tx : TxIn) (r : Account) (s' : St) (h : validateEvm s tx r = .ok s') : VL s' = VL s := by
  unfold validateEvm at h
  frame_tac

theorem validateTrx_vl (s : St) (exec : Bool) (height : Int) (tx : TxIn) (a b : Account) (s' : St)
    (h : validateTrx s exec height tx a b = .ok s') : VL s' = VL s := by
  unfold validateTrx at h
  simp only [bind, Except.bind, pure, Except.pure, throw, throwThe, MonadExceptOf.throw] at h
  iterate 16 (try any_goals (split at h))
  all_goals first
    | (cases h; done)
    | exact validateProposal_vl _ _ _ _ _ h
    | exact validateVoting_vl _ _ _ _ _ h
    | exact validateStaking_vl _ _ _ _ h
    | exact validateUnstaking_vl _ _ _ _ h
    | exact validateWithdraw_vl _ _ _ _ h
    | exact validateEvm_vl _ _ _ _ h
    | (cases h; rfl)

theorem findOrNewAcct_vl (s : St) (exec : Bool) (a : Hex) : VL (s.findOrNewAcct exec a).1 = VL s := by
  unfold St.findOrNewAcct; split <;> rfl

theorem execTransfer_vl (s : St) (exec : Bool) (tx : TxIn) (r : RunOut) (h : execTransfer s exec tx = .ok r) : VL r.st = VL s := by
  unfold execTransfer at h
  frame_tac

theorem execSetDoc_vl (s : St) (exec : Bool) (tx : TxIn) (r : RunOut) (h : execSetDoc s exec tx = .ok r) : VL r.st = VL s := by
  unfold execSetDoc at h
  frame_tac

theorem execStaking_vl (s : St) (exec : Bool) (height : Int) (tx : TxIn) (r : RunOut) (h : execStaking s exec height tx = .ok r) : VL r.st = VL s := by
  unfold execStaking at h
  frame_tac

theorem execUnstaking_vl (s : St) (exec : Bool) (height : Int) (tx : TxIn) (r : RunOut) (h : execUnstaking s exec height tx = .ok r) : VL r.st = VL s := by
  unfold execUnstaking at h
  frame_tac

theorem reward_vl (s : St) (exec : Bool) (to : Hex) (amt : Nat) (s1 : St) (hr : s.reward exec to amt = some s1) : VL s1 = VL s := by
  unfold St.reward at hr
  split at hr
  · cases hr
  · split at hr
    · cases hr
    · cases hr; rfl

theorem execWithdraw_vl (s : St) (exec : Bool) (height : Int) (tx : TxIn) (r : RunOut) (h : execWithdraw s exec height tx = .ok r) : VL r.st = VL s := by
  unfold execWithdraw at h
  simp only [bind, Except.bind, pure, Except.pure, throw, throwThe, MonadExceptOf.throw] at h
  iterate 16 (try any_goals (split at h))
  all_goals first
    | (cases h; done)
    | (cases h; have hr := reward_vl _ _ _ _ _ (by assumption); exact hr)
    | (cases h; rfl)

theorem execProposal_vl (s : St) (exec : Bool) (tx : TxIn) (r : RunOut) (h : execProposal s exec tx = .ok r) : VL r.st = VL s := by
  unfold execProposal at h
  frame_tac

theorem execVoting_vl (s : St) (exec : Bool) (tx : TxIn) (r : RunOut) (h : execVoting s exec tx = .ok r) : VL r.st = VL s := by
  unfold execVoting at h
  frame_tac

theorem foldl_vl {α : Type} (F : St → α → St) (hF : ∀ s x, VL (F s x) = VL s) (l : List α) (s : St) : VL (l.foldl F s) = VL s := by
  induction l generalizing s with
  | nil => rfl
  | cons x l ih => rw [List.foldl_cons, ih, hF]

theorem setAcct_vl (s : St) (exec : Bool) (a : Account) : VL (s.setAcct exec a) = VL s := rfl

theorem execEvm_vl (s : St) (exec : Bool) (tx : TxIn) (r : RunOut) (h : execEvm s exec tx = .ok r) : VL r.st = VL s := by
  unfold execEvm at h
  have h1 : ∀ (l : List Hex) (s : St), VL (l.foldl (fun acc a => (acc.findOrNewAcct true a).1) s) = VL s :=
    fun l s => foldl_vl _ (fun s x => findOrNewAcct_vl s true x) l s
  simp only [bind, Except.bind, pure, Except.pure, throw, throwThe, MonadExceptOf.throw] at h
  iterate 16 (try any_goals (split at h))
  all_goals first
    | (cases h; done)
    | (cases h; rfl)
    | (cases h; exact h1 _ _)
    | skip
  all_goals
    cases h
    simp only []
    try rw [setAcct_vl]
    rw [foldl_vl, h1]
    intro s x
    rw [setAcct_vl, findOrNewAcct_vl]

theorem bind_ok {α β : Type} {e : Except Fail α} {K : α → Except Fail β} {r : β} (h : Except.bind e K = .ok r) :
    ∃ a, e = .ok a ∧ K a = .ok r := by
  cases e with
  | error x => cases h
  | ok a => exact ⟨a, rfl, h⟩

set_option hygiene false in
macro "run_tail" : tactic => `(tactic| (
    obtain ⟨ro, hro, hK⟩ := bind_ok h
    have hK' : VL r.1 = VL ro.st := by
      simp only [pure, Except.pure, throw, throwThe, MonadExceptOf.throw] at hK
      iterate 6 (try any_goals (split at hK))
      all_goals first
        | (cases hK; done)
        | (cases hK; rfl)
    refine hK'.trans ?_))

theorem runTrx_vl (s : St) (exec : Bool) (height : Int) (tx : TxIn) (rcv : Account) (r : St × Nat × Option String)
    (h : runTrx s exec height tx rcv = .ok r) : VL r.1 = VL s := by
  unfold runTrx at h
  dsimp only [bind] at h
  by_cases c1 : tx.type = TRX_CONTRACT
  · rw [if_pos c1] at h; run_tail; exact execEvm_vl _ _ _ _ hro
  rw [if_neg c1] at h
  by_cases c2 : tx.type = TRX_PROPOSAL
  · rw [if_pos c2] at h; run_tail; exact execProposal_vl _ _ _ _ hro
  rw [if_neg c2] at h
  by_cases c3 : tx.type = TRX_VOTING
  · rw [if_pos c3] at h; run_tail; exact execVoting_vl _ _ _ _ hro
  rw [if_neg c3] at h
  by_cases c4 : tx.type = TRX_TRANSFER
  · rw [if_pos c4] at h; run_tail
    split at hro
    · exact execEvm_vl _ _ _ _ hro
    · exact execTransfer_vl _ _ _ _ hro
  rw [if_neg c4] at h
  by_cases c5 : tx.type = TRX_SETDOC
  · rw [if_pos c5] at h; run_tail; exact execSetDoc_vl _ _ _ _ hro
  rw [if_neg c5] at h
  by_cases c6 : tx.type = TRX_STAKING
  · rw [if_pos c6] at h; run_tail; exact execStaking_vl _ _ _ _ _ hro
  rw [if_neg c6] at h
  by_cases c7 : tx.type = TRX_UNSTAKING
  · rw [if_pos c7] at h; run_tail; exact execUnstaking_vl _ _ _ _ _ hro
  rw [if_neg c7] at h
  by_cases c8 : tx.type = TRX_WITHDRAW
  · rw [if_pos c8] at h; run_tail; exact execWithdraw_vl _ _ _ _ _ hro
  rw [if_neg c8] at h
  cases h

theorem handleTxOld_vl (s : St) (exec : Bool) (height : Int) (tx : TxIn) : VL (handleTxOld s exec height tx).1 = VL s := by
  unfold handleTxOld
  simp only
  split
  · rfl
  · split
    · rfl
    · have h0 := findOrNewAcct_vl s exec tx.to
      split
      · exact h0
      · exact h0
      · rename_i s1 hv
        have h1 := (validateTrx_vl _ _ _ _ _ _ _ hv).trans h0
        split
        · exact h1
        · exact h1
        · rename_i s2 _ _ hr
          exact (runTrx_vl _ _ _ _ _ _ hr).trans h1
        · rename_i s2 _ hr
          exact (runTrx_vl _ _ _ _ _ _ hr).trans h1

theorem handleTx_vl (s : St) (exec : Bool) (height : Int) (tx : TxIn) : VL (handleTx s exec height tx).1 = VL s := by
  by_cases hl : byteLen tx.to = 20
  · rw [handleTx_goodlen hl]; exact handleTxOld_vl s exec height tx
  · rw [handleTx_badlen_fst hl]

theorem deliverTx_vl (s : St) (tx : TxIn) : VL (deliverTx s tx).1 = VL s := by
  unfold deliverTx
  split
  · rfl
  · rename_i b _
    have := handleTx_vl s true b.height tx
    simp only
    split
    · exact this
    · split
      · exact this
      · exact this

theorem checkTx_vl (s : St) (tx : TxIn) : VL (checkTx s tx).1 = VL s := handleTx_vl _ _ _ _

theorem commit_lists (s : St) : (commit s).1.allDelegs = s.allDelegs ∧ (commit s).1.lastVals = s.lastVals := by
  unfold commit; split <;> exact ⟨rfl, rfl⟩

end Rigo.TM
