/-
  C15: per-proposal invariants (`PropOK`: distinct voters, choices in range, every option's tally is the
  sum of the powers of the voters currently choosing it, majority = ⌊2·total/3⌋) and their preservation
  by `Proposal.doVote` and `Proposal.doPunish`.  `total = Σ voter powers` (`TotalOK`) is preserved by
  `doPunish` only for a slash ratio in 0..100 (witness `doPunish_total_witness`).
-/
import Rigo.Block

namespace Rigo.C15

/-! ### weighted sums over voters -/

def wsum (g : Voter → Int) (vs : List Voter) : Int := (vs.map g).sum
/-- what voter `v` contributes to the tally of option `i` -/
def contrib (i : Int) (v : Voter) : Int := if v.choice = i then v.power else 0
/-- `Σ { v.power | v ∈ vs, v.choice = i }` -/
def tally (vs : List Voter) (i : Int) : Int := wsum (contrib i) vs
/-- `Σ { v.power | v ∈ vs }` -/
def powerSum (vs : List Voter) : Int := wsum (·.power) vs

def DistinctAddrs (vs : List Voter) : Prop := vs.Pairwise (fun a b => a.addr ≠ b.addr)

@[simp] theorem wsum_nil (g : Voter → Int) : wsum g [] = 0 := rfl
@[simp] theorem wsum_cons (g : Voter → Int) (v : Voter) (vs : List Voter) : wsum g (v :: vs) = g v + wsum g vs := by
  simp [wsum]
@[simp] theorem wsum_append (g : Voter → Int) (a b : List Voter) : wsum g (a ++ b) = wsum g a + wsum g b := by
  simp [wsum]

theorem tally_eq_filter (vs : List Voter) (i : Int) :
    tally vs i = ((vs.filter (fun v => v.choice = i)).map (·.power)).sum := by
  induction vs with
  | nil => rfl
  | cons v vs ih =>
    simp only [tally, wsum_cons] at ih ⊢
    by_cases h : v.choice = i <;> simp [contrib, h, ih]

theorem split_voter {vs : List Voter} {addr : Hex} {v : Voter} (hd : DistinctAddrs vs)
    (hf : vs.find? (·.addr == addr) = some v) :
    v.addr = addr ∧ ∃ l1 l2, vs = l1 ++ v :: l2 ∧ (∀ w ∈ l1, w.addr ≠ addr) ∧ (∀ w ∈ l2, w.addr ≠ addr) := by
  rw [List.find?_eq_some_iff_append] at hf
  obtain ⟨hv, l1, l2, rfl, h1⟩ := hf
  have hv' : v.addr = addr := by simpa using hv
  refine ⟨hv', l1, l2, rfl, ?_, ?_⟩
  · intro w hw; have := h1 w hw; simpa using this
  · intro w hw
    have h2 := (List.pairwise_append.mp hd).2.1
    have h3 := (List.pairwise_cons.mp h2).1 w hw
    rw [hv'] at h3; exact fun h => h3 h.symm

theorem map_noaddr (f : Voter → Voter) (addr : Hex) (l : List Voter) (h : ∀ w ∈ l, w.addr ≠ addr) :
    l.map (fun w => if w.addr == addr then f w else w) = l := by
  conv => rhs; rw [← List.map_id l]
  apply List.map_congr_left
  intro w hw; simp [h w hw]

theorem map_mod (f : Voter → Voter) {addr : Hex} {v : Voter} {l1 l2 : List Voter} (hv : v.addr = addr)
    (h1 : ∀ w ∈ l1, w.addr ≠ addr) (h2 : ∀ w ∈ l2, w.addr ≠ addr) :
    (l1 ++ v :: l2).map (fun w => if w.addr == addr then f w else w) = l1 ++ f v :: l2 := by
  rw [List.map_append, List.map_cons, map_noaddr f addr l1 h1, map_noaddr f addr l2 h2]
  simp [hv]

theorem filter_mod {addr : Hex} {v : Voter} {l1 l2 : List Voter} (hv : v.addr = addr)
    (h1 : ∀ w ∈ l1, w.addr ≠ addr) (h2 : ∀ w ∈ l2, w.addr ≠ addr) :
    (l1 ++ v :: l2).filter (fun w => w.addr != addr) = l1 ++ l2 := by
  have e1 : l1.filter (fun w => w.addr != addr) = l1 := List.filter_eq_self.mpr (by intro w hw; simp [h1 w hw])
  have e2 : l2.filter (fun w => w.addr != addr) = l2 := List.filter_eq_self.mpr (by intro w hw; simp [h2 w hw])
  simp [List.filter_append, e1, e2, hv]

theorem find_mid {addr : Hex} {v : Voter} {l1 l2 : List Voter} (hv : v.addr = addr)
    (h1 : ∀ w ∈ l1, w.addr ≠ addr) : (l1 ++ v :: l2).find? (·.addr == addr) = some v := by
  rw [List.find?_eq_some_iff_append]
  exact ⟨by simp [hv], l1, l2, rfl, by intro w hw; simp [h1 w hw]⟩

theorem distinct_mid {addr : Hex} {v v' : Voter} {l1 l2 : List Voter} (hv : v.addr = addr) (hv' : v'.addr = addr)
    (hd : DistinctAddrs (l1 ++ v :: l2)) : DistinctAddrs (l1 ++ v' :: l2) := by
  unfold DistinctAddrs at *
  rw [List.pairwise_append] at hd ⊢
  obtain ⟨a, b, c⟩ := hd
  rw [List.pairwise_cons] at b ⊢
  refine ⟨a, ⟨?_, b.2⟩, ?_⟩
  · intro w hw; rw [hv']; rw [hv] at b; exact b.1 w hw
  · intro x hx y hy
    rcases List.mem_cons.mp hy with h | h
    · subst h; rw [hv']; have := c x hx v (by simp); rwa [hv] at this
    · exact c x hx y (List.mem_cons_of_mem _ h)

theorem distinct_drop {v : Voter} {l1 l2 : List Voter} (hd : DistinctAddrs (l1 ++ v :: l2)) :
    DistinctAddrs (l1 ++ l2) := by
  unfold DistinctAddrs at *
  exact hd.sublist (by simp)

/-! ### options: the two index-selective updates of `doVote` -/

theorem zipIdx_map_get {α β : Type} (l : List α) (G : α × Nat → β) (j : Nat) :
    (l.zipIdx.map G)[j]? = l[j]?.map (fun o => G (o, j)) := by
  simp [List.getElem?_zipIdx]
  cases l[j]? <;> simp

theorem zipIdx_map_length {α β : Type} (l : List α) (F : α × Nat → β) : (l.zipIdx.map F).length = l.length := by
  simp

/-! ### the invariant of one open proposal -/

structure PropOK (p : Proposal) : Prop where
  distinct : DistinctAddrs p.voters
  range : ∀ v ∈ p.voters, v.choice = -1 ∨ (0 ≤ v.choice ∧ v.choice < p.options.length)
  tallies : ∀ (j : Nat) (o : VoteOpt), p.options[j]? = some o → o.votes = tally p.voters j
  majority : p.majority = Int.tdiv (p.total * 2) 3

/-- `total` is the sum of the (sane) voter powers -/
structure TotalOK (p : Proposal) : Prop where
  total : p.total = powerSum p.voters
  sane : ∀ v ∈ p.voters, 0 ≤ v.power ∧ v.power < (two64 : Int)

/-! ### `doVote` -/

theorem doVote_notfound (p : Proposal) (addr : Hex) (c : Int) (h : p.voters.find? (·.addr == addr) = none) :
    p.doVote addr c = p := by
  unfold Proposal.doVote; rw [h]

theorem doVote_options (p : Proposal) (addr : Hex) (c : Int) (v : Voter)
    (hf : p.voters.find? (·.addr == addr) = some v) (j : Nat) :
    (p.doVote addr c).options[j]? = p.options[j]?.map (fun o =>
      { o with votes := o.votes - (if (j : Int) = v.choice then v.power else 0) + (if (j : Int) = c then v.power else 0) }) := by
  unfold Proposal.doVote
  rw [hf]
  by_cases h1 : v.choice ≥ 0 <;> by_cases h2 : c ≥ 0 <;> simp only [h1, h2, if_true, if_false]
  · rw [zipIdx_map_get, zipIdx_map_get]
    cases p.options[j]? with
    | none => rfl
    | some o =>
      obtain ⟨r, pv, pa, vt⟩ := o
      simp only [Option.map_some, Option.some.injEq]
      (repeat' split) <;> simp_all <;> omega
  · rw [zipIdx_map_get]
    cases p.options[j]? with
    | none => rfl
    | some o =>
      obtain ⟨r, pv, pa, vt⟩ := o
      simp only [Option.map_some, Option.some.injEq]
      have b : ¬ (j : Int) = c := by omega
      by_cases a : (j : Int) = v.choice <;> simp only [a, b, if_true, if_false, VoteOpt.mk.injEq, true_and] <;> omega
  · rw [zipIdx_map_get]
    cases p.options[j]? with
    | none => rfl
    | some o =>
      obtain ⟨r, pv, pa, vt⟩ := o
      simp only [Option.map_some, Option.some.injEq]
      have a : ¬ (j : Int) = v.choice := by omega
      by_cases b : (j : Int) = c <;> simp only [a, b, if_true, if_false, VoteOpt.mk.injEq, true_and] <;> omega
  · cases p.options[j]? with
    | none => rfl
    | some o =>
      obtain ⟨r, pv, pa, vt⟩ := o
      simp only [Option.map_some, Option.some.injEq]
      have a : ¬ (j : Int) = v.choice := by omega
      have b : ¬ (j : Int) = c := by omega
      simp only [a, b, if_false, VoteOpt.mk.injEq, true_and]; omega
theorem doVote_voters (p : Proposal) (addr : Hex) (c : Int) (v : Voter)
    (hf : p.voters.find? (·.addr == addr) = some v) :
    (p.doVote addr c).voters = p.voters.map (fun w => if w.addr == addr then { w with choice := c } else w) := by
  unfold Proposal.doVote; rw [hf]

theorem doVote_header (p : Proposal) (addr : Hex) (c : Int) :
    (p.doVote addr c).total = p.total ∧ (p.doVote addr c).majority = p.majority ∧
    (p.doVote addr c).hash = p.hash ∧ (p.doVote addr c).start = p.start ∧ (p.doVote addr c).end_ = p.end_ ∧
    (p.doVote addr c).applying = p.applying ∧ (p.doVote addr c).optType = p.optType ∧
    (p.doVote addr c).major = p.major := by
  unfold Proposal.doVote; split <;> simp

theorem doVote_length (p : Proposal) (addr : Hex) (c : Int) :
    (p.doVote addr c).options.length = p.options.length := by
  unfold Proposal.doVote
  split
  · rfl
  · simp only []
    split <;> split <;> simp

/-- `doVote` keeps the proposal invariant when the new choice is in range (or −1) -/
theorem doVote_ok {p : Proposal} (hp : PropOK p) (addr : Hex) (c : Int)
    (hc : c = -1 ∨ (0 ≤ c ∧ c < p.options.length)) : PropOK (p.doVote addr c) := by
  cases hf : p.voters.find? (·.addr == addr) with
  | none => rw [doVote_notfound p addr c hf]; exact hp
  | some v =>
    obtain ⟨hva, l1, l2, hvs, h1, h2⟩ := split_voter hp.distinct hf
    have hvoters : (p.doVote addr c).voters = l1 ++ { v with choice := c } :: l2 := by
      rw [doVote_voters p addr c v hf, hvs]; exact map_mod _ hva h1 h2
    refine ⟨?_, ?_, ?_, ?_⟩
    · rw [hvoters]; apply distinct_mid hva (v' := { v with choice := c }) hva; rw [← hvs]; exact hp.distinct
    · intro w hw
      rw [doVote_length]
      rw [hvoters] at hw
      rcases List.mem_append.mp hw with h | h
      · exact hp.range w (by rw [hvs]; simp [h])
      · rcases List.mem_cons.mp h with h | h
        · subst h; exact hc
        · exact hp.range w (by rw [hvs]; simp [h])
    · intro j o ho
      rw [doVote_options p addr c v hf j] at ho
      cases hj : p.options[j]? with
      | none => rw [hj] at ho; simp at ho
      | some o0 =>
        rw [hj] at ho
        simp only [Option.map_some, Option.some.injEq] at ho
        have h0 := hp.tallies j o0 hj
        rw [← ho, hvoters]
        simp only [h0, hvs, tally, wsum_append, wsum_cons, contrib]
        by_cases a : v.choice = (j : Int) <;> by_cases b : c = (j : Int) <;>
          simp [a, b, eq_comm] <;> omega
    · rw [(doVote_header p addr c).1, (doVote_header p addr c).2.1]; exact hp.majority

/-- after a vote the voter's choice is the new one and every other voter is untouched -/
theorem doVote_choice {p : Proposal} (hp : PropOK p) (addr : Hex) (c : Int) (v : Voter)
    (hf : p.voters.find? (·.addr == addr) = some v) :
    (p.doVote addr c).voters.find? (·.addr == addr) = some { v with choice := c } ∧
    (∀ w, w.addr ≠ addr → (w ∈ (p.doVote addr c).voters ↔ w ∈ p.voters)) ∧
    powerSum (p.doVote addr c).voters = powerSum p.voters := by
  obtain ⟨hva, l1, l2, hvs, h1, h2⟩ := split_voter hp.distinct hf
  have hvoters : (p.doVote addr c).voters = l1 ++ { v with choice := c } :: l2 := by
    rw [doVote_voters p addr c v hf, hvs]; exact map_mod _ hva h1 h2
  refine ⟨?_, ?_, ?_⟩
  · rw [hvoters]; exact find_mid hva h1
  · intro w hw
    rw [hvoters, hvs]
    simp only [List.mem_append, List.mem_cons]
    constructor
    · rintro (h | h | h)
      · exact Or.inl h
      · subst h; exact absurd hva hw
      · exact Or.inr (Or.inr h)
    · rintro (h | h | h)
      · exact Or.inl h
      · subst h; exact absurd hva hw
      · exact Or.inr (Or.inr h)
  · rw [hvoters, hvs]; simp [powerSum]

theorem doVote_power_pred (p : Proposal) (addr : Hex) (c : Int) (P : Int → Prop) (h : ∀ v ∈ p.voters, P v.power) :
    ∀ v ∈ (p.doVote addr c).voters, P v.power := by
  unfold Proposal.doVote
  split
  · exact h
  · intro w hw
    simp only [List.mem_map] at hw
    obtain ⟨w0, hw0, rfl⟩ := hw
    split
    · exact h w0 hw0
    · exact h w0 hw0

theorem doVote_powerSum (p : Proposal) (addr : Hex) (c : Int) :
    powerSum (p.doVote addr c).voters = powerSum p.voters := by
  unfold Proposal.doVote
  split
  · rfl
  · simp only [powerSum, wsum, List.map_map]
    congr 1
    apply List.map_congr_left
    intro w _
    simp only [Function.comp]
    split <;> rfl

theorem doVote_total_ok {p : Proposal} (ht : TotalOK p) (addr : Hex) (c : Int) :
    TotalOK (p.doVote addr c) :=
  ⟨by rw [(doVote_header p addr c).1, ht.total, doVote_powerSum], doVote_power_pred p addr c (fun x => 0 ≤ x ∧ x < (two64 : Int)) ht.sane⟩

end Rigo.C15
