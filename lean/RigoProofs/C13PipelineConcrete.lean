/-
  C13 / pipeline (6): tools to instantiate the pipeline theorems on CONCRETE runs.  The kernel cannot evaluate
  `List.mergeSort` on lists of two or more elements (well-founded recursion), so the validator lists of a concrete run
  with two validators are handled up to permutation (`asSet_reported`), the remaining facts by `decide +kernel`
  (lazy evaluation never forces the sorted lists when only ledgers, parameters or panic flags are inspected).
-/
import RigoProofs.C13PipelineRewards
import RigoProofs.C10Params
open Std
namespace Rigo.C13P
open Rigo Rigo.TM Rigo.C14L Rigo.C19

/-- `RunOK` with the parameter hypothesis on the INPUTS only (C10 `valset_mirror_params`): the genesis parameters have a
    slash ratio in 0..100 and 10^18 ≤ minValidatorStake < 2^64·10^18, and so has every option of every delivered
    governance proposal merged into them -/
theorem runOK_of_inputs {f : Hex → Hex} {g : Genesis} {ops : List Op} (hin : InputsOK f g ops)
    (hr : RatioOK g.params) (hm : MinStakeOK g.params) (hopt : C10P.OptionsOK g ops)
    (hph : ∃ q, phaseRun .idle ops = some q) (hnp : NoPanic g ops) (hcov : GenesisCovered g ops) : RunOK f g ops :=
  ⟨hin, C10P.paramsAlong_of_inputs g ops (fun op ho => (hin.hist op ho).1) hr hm hopt, hph, hnp, hcov⟩

/-! ### helpers for concrete runs -/

theorem getElem?_asSet_iff (L : List Delegatee) (hpd : L.Pairwise (fun a b => a.pub ≠ b.pub)) (pub : Hex) (p : Int) :
    (asSet L)[pub]? = some p ↔ ∃ d ∈ L, d.pub = pub ∧ d.total = p := by
  constructor
  · intro h
    have : ∃ d ∈ L, d.pub = pub := by
      apply Classical.byContradiction
      intro hn
      rw [getElem?_asSet_of_not_mem _ pub (fun d hd e => hn ⟨d, hd, e⟩)] at h
      cases h
    obtain ⟨d, hd, rfl⟩ := this
    rw [getElem?_asSet_of_mem _ hpd d hd] at h
    exact ⟨d, hd, rfl, Option.some.inj h⟩
  · rintro ⟨d, hd, rfl, rfl⟩
    exact getElem?_asSet_of_mem _ hpd d hd

/-- votes listing a duplicate-free delegatee list member by member -/
theorem votesOf_asSet {f : Hex → Hex} (L : List Delegatee) (hpd : L.Pairwise (fun a b => a.pub ≠ b.pub))
    (votes : List VoteIn)
    (h : ∀ pub p, (∃ d ∈ L, d.pub = pub ∧ d.total = p) ↔ ∃ v ∈ votes, f v.addr = pub ∧ v.power = p) :
    VotesOf f (asSet L) votes := fun pub p => (getElem?_asSet_iff L hpd pub p).trans (h pub p)

/-- when fewer delegatees are eligible than the maximum, the reported set is the set of the eligible ones -/
theorem asSet_reported (s : St) (mp : Int) (L : List Delegatee)
    (hL : (s.delegs.committed.toList.map (·.2)).filter (fun d => d.self ≥ mp) = L)
    (hlen : L.length ≤ s.active.maxValidatorCnt.toNat) (hpd : L.Pairwise (fun a b => a.pub ≠ b.pub)) :
    asSet (sortByPower ((eligible s mp).take s.active.maxValidatorCnt.toNat)) = asSet L ∧
    (eligible s mp).take s.active.maxValidatorCnt.toNat = sortByPower L := by
  have he : eligible s mp = sortByPower L := by unfold eligible; rw [hL]
  have hp := sortByPower_perm L
  have ht : (eligible s mp).take s.active.maxValidatorCnt.toNat = sortByPower L := by
    rw [he, List.take_of_length_le (by rw [hp.length_eq]; exact hlen)]
  refine ⟨?_, ht⟩
  rw [ht]
  have hpd' : (sortByPower L).Pairwise (fun a b => a.pub ≠ b.pub) :=
    (hp.pairwise_iff (fun hab e => hab e.symm)).mpr hpd
  rw [asSet_perm (sortByPower_perm _) ((sortByPower_perm _).pairwise_iff (fun hab e => hab e.symm) |>.mpr hpd'),
    asSet_perm hp hpd']


/-- `GenesisCovered` from the second block: block 2 starts with an empty reported list and its eligible, truncated
    list names every genesis key -/
theorem covered_of_block2 {g : Genesis} {ops p0 mid rest : List Op} {hd : Header}
    (e : ops = (p0 ++ .begin_ hd :: mid) ++ .end_ :: rest) (hmid : ∀ op ∈ mid, isTx op = true) (hc : endCount p0 = 1)
    (hnp : NoPanic g ops) (hl : (exec (initChain g) p0).lastVals = [])
    (hall : ∀ mp, amountToPower (exec (initChain g) p0).active.minValidatorStake = .ok mp → ∀ v ∈ g.vals,
      ∃ d ∈ (eligible (exec (initChain g) p0) mp).take (exec (initChain g) p0).active.maxValidatorCnt.toNat, d.pub = v.1) :
    GenesisCovered g ops := by
  subst e
  have hnp' : NoPanicFrom (initChain g) ((p0 ++ .begin_ hd :: mid) ++ .end_ :: rest) := hnp
  obtain ⟨np1, np2⟩ := hnp'.append
  have hend : (endBlock (exec (initChain g) (p0 ++ .begin_ hd :: mid))).2.panic = "" := np2.cons.1
  obtain ⟨np3, np4⟩ := np1.append
  have hbeg : (beginBlock (exec (initChain g) p0) hd).2.panic = "" := np4.cons.1
  rw [exec_append] at hend
  obtain ⟨_, mp, hmp, _, hu⟩ := block_lastVals hmid hbeg hend
  have hcm : endCount (Op.begin_ hd :: mid) = 0 := by
    rw [endCount_cons_other _ _ rfl]; exact endCount_txs mid hmid
  intro v hv
  obtain ⟨d, hd', hp⟩ := hall mp hmp v hv
  refine ⟨(d.pub, d.total), ?_, hp⟩
  rw [take_endUpdates _ _ _ 2 (by rw [endCount_append, hcm]; omega) (by omega), endUpdates_append, endUpdates_end]
  apply List.mem_flatten.mpr
  refine ⟨_, List.mem_append_right _ (List.mem_singleton.mpr rfl), ?_⟩
  rw [exec_append, hu, hl]
  have : sortByAddr ([] : List Delegatee) = [] := by simp [sortByAddr]
  rw [this]
  unfold validatorUpdates
  exact List.mem_map.mpr ⟨d, (sortByAddr_perm _).mem_iff.mpr hd', rfl⟩

/-- the BeginBlock positions of a run: (what precedes, header) -/
def beginSplits : List Op → List Op → List (List Op × Header)
  | _, [] => []
  | acc, .begin_ h :: rest => (acc, h) :: beginSplits (acc ++ [.begin_ h]) rest
  | acc, op :: rest => beginSplits (acc ++ [op]) rest

theorem mem_beginSplits (acc pre post : List Op) (hdr : Header) :
    (acc ++ pre, hdr) ∈ beginSplits acc (pre ++ .begin_ hdr :: post) := by
  induction pre generalizing acc with
  | nil => simp [beginSplits]
  | cons op pre ih =>
    have := ih (acc ++ [op])
    rw [List.append_assoc] at this
    cases op <;> simp only [List.cons_append, beginSplits, List.mem_cons] <;> first | exact this | exact Or.inr this

theorem tmFaithful_of_splits {f : Hex → Hex} {g : Genesis} {ops : List Op}
    (h : ∀ x ∈ beginSplits [] ops,
      if x.2.height ≤ 1 then x.2.votes = [] else VotesOf f (tmValset g x.1 (x.2.height - 1)) x.2.votes) :
    TMFaithful f g ops := by
  intro pre hdr post e
  subst e
  have := h _ (mem_beginSplits [] pre post hdr)
  simpa using this

end Rigo.C13P
