/-
  C13 (reachable-state reward balance), part 2: ghost sums over a history and the balance equation
  `cumulated + withdrawn = issued` for well-phased histories under an explicit no-wrap bound.
-/
import RigoProofs.C13Reach1
import RigoProofs.C15Majority

namespace Rigo.C13
open Rigo

/-! ### ghost sums, defined from the operations (not from the reward ledger) -/

/-- reward issued to key `k` by `beginBlock s h`: the stakes of the matching signers, if the reward event fires -/
def issuedIn (s : St) (h : Header) (k : String) : Nat :=
  match (beginBlock s h).2.issued, s.delegs.at? (hopOf h.height) with
  | some _, some rl => (h.votes.map (voteRwd rl s.active.rewardPerPower k)).sum
  | _, _ => 0

/-- reward withdrawn by key `k` in `deliverTx s tx`: the requested amount of its own successful TRX_WITHDRAW -/
def withdrawnIn (s : St) (tx : TxIn) (k : String) : Nat :=
  match (deliverTx s tx).2.tx, tx.payload with
  | some o, .withdraw req => if o.code = 0 ∧ tx.type = TRX_WITHDRAW ∧ k = ledgerKey tx.from_ then req else 0
  | _, _ => 0

def issuedBy (s : St) (op : Op) (k : String) : Nat := match op with | .begin_ h => issuedIn s h k | _ => 0
def withdrawnAt (s : St) (op : Op) (k : String) : Nat := match op with | .deliver tx => withdrawnIn s tx k | _ => 0

/-- everything issued to `k` along the history `ops` started in `s` -/
def issuedTo (s : St) : List Op → String → Nat
  | [], _ => 0
  | op :: ops, k => issuedBy s op k + issuedTo (step s op).1 ops k

/-- everything `k` withdrew along the history -/
def withdrawnBy (s : St) : List Op → String → Nat
  | [], _ => 0
  | op :: ops, k => withdrawnAt s op k + withdrawnBy (step s op).1 ops k

/-- the explicit no-wrap bound of one operation: issuance does not wrap a cumulated reward, a sender's
    balance plus its whole cumulated reward does not wrap -/
def stepBound (s : St) (op : Op) : Prop :=
  match op with
  | .begin_ h => ∀ k, cumOf s k + issuedIn s h k < two256
  | .deliver tx => ∀ a, s.accts.fin[ledgerKey tx.from_]? = some a → a.bal + cumOf s (ledgerKey tx.from_) < two256
  | _ => True

def NoWrap (s : St) : List Op → Prop
  | [] => True
  | op :: ops => stepBound s op ∧ NoWrap (step s op).1 ops

structure BalInv (p : Phase) (s : St) : Prop where
  rinv : RewardInv s
  closed : s.blk = none → s.rewards.fin = s.rewards.committed
  idle : p = .idle → s.blk = none

theorem cumOf_congr {s s' : St} (h : s'.rewards.fin = s.rewards.fin) (k : String) : cumOf s' k = cumOf s k := by
  unfold cumOf; rw [h]

theorem wsub_lt (a b : Nat) : wsub a b < two256 := Nat.mod_lt _ (by unfold two256; omega)

theorem committed_congr {α : Type} {l l' : Led α} (h : l'.hist = l.hist) : l'.committed = l.committed := by
  unfold Led.committed; rw [h]

theorem endBlock_blk (s : St) : (endBlock s).1.blk = s.blk :=
  (C15.endBlock_spec s (fun _ _ => True) (fun _ _ _ _ _ _ _ _ => trivial)
    ⟨fun _ _ _ => trivial, fun _ _ _ => trivial, fun _ _ _ _ _ => trivial⟩).2.2.1

/-- one well-phased operation from a reachable state: the balance equation moves as the ghost sums say -/
theorem balance_step {g : Genesis} {s : St} (hr : Reachable g s) {p p' : Phase} {op : Op}
    (hp : phaseStep p op = some p') (hi : BalInv p s) (hb : stepBound s op) :
    (∀ k, cumOf (step s op).1 k + withdrawnAt s op k = cumOf s k + issuedBy s op k) ∧ BalInv p' (step s op).1 := by
  cases op with
  | init g0 => cases p <;> simp [phaseStep] at hp
  | begin_ h =>
    have hp' : p' ≠ .idle := by cases p <;> simp [phaseStep] at hp <;> (subst hp; decide)
    obtain ⟨hcase, hrinv, hhist, hnone⟩ := beginBlock_rewards s h hi.rinv
    refine ⟨?_, ⟨hrinv, ?_, fun h => absurd h hp'⟩⟩
    · intro k
      show cumOf (beginBlock s h).1 k + 0 = cumOf s k + issuedIn s h k
      cases hiss : (beginBlock s h).2.issued with
      | none =>
        have : issuedIn s h k = 0 := by simp [issuedIn, hiss]
        have e := cumOf_congr (s := s) (s' := (beginBlock s h).1) (by rw [hnone hiss]) k
        rw [this, e]
      | some n =>
        obtain ⟨rl, hat, _, hcum⟩ := issuance_core hiss
        have e : issuedIn s h k = (h.votes.map (voteRwd rl s.active.rewardPerPower k)).sum := by
          simp [issuedIn, hiss, hat]
        have hbk := hb k
        rw [e] at hbk ⊢
        rw [hcum k hbk]; rfl
    · intro hnb
      have hnb' : (beginBlock s h).1.blk = none := hnb
      rcases hcase with h1 | ⟨b, hb'⟩
      · show (beginBlock s h).1.rewards.fin = (beginBlock s h).1.rewards.committed
        rw [h1]; rw [h1] at hnb'; exact hi.closed hnb'
      · have : (beginBlock s h).1.blk = none := hnb
        rw [hb'] at this; cases this
  | deliver tx =>
    have hp' : p' ≠ .idle := by cases p <;> simp [phaseStep] at hp <;> (subst hp; decide)
    show (∀ k, cumOf (deliverTx s tx).1 k + withdrawnIn s tx k = cumOf s k + 0) ∧ BalInv p' (deliverTx s tx).1
    cases hblk : s.blk with
    | none =>
      obtain ⟨h1, h2⟩ := deliverTx_noblk tx hblk
      refine ⟨?_, ?_⟩
      · intro k
        have : withdrawnIn s tx k = 0 := by simp [withdrawnIn, h2]
        rw [this, h1]
      · rw [h1]; exact ⟨hi.rinv, hi.closed, fun h => absurd h hp'⟩
    | some b =>
      obtain ⟨hrw, hout, b', hb'⟩ := deliverTx_rewards tx hblk
      have hclosed : (deliverTx s tx).1.blk = none → (deliverTx s tx).1.rewards.fin = (deliverTx s tx).1.rewards.committed := by
        intro h; rw [hb'] at h; cases h
      by_cases hnt : tx.type ≠ TRX_WITHDRAW
      · have hfr := ((C15.deliverTx_frame s tx).2.2.1 hnt).1
        refine ⟨?_, ⟨hi.rinv.of_fin (by rw [hfr]), hclosed, fun h => absurd h hp'⟩⟩
        intro k
        have : withdrawnIn s tx k = 0 := by
          unfold withdrawnIn
          split
          · rw [if_neg]; intro ⟨_, h, _⟩; exact hnt h
          · rfl
        rw [this, (deliver_other_cum s tx hnt k).1]
      have htype : tx.type = TRX_WITHDRAW := by
        by_cases h : tx.type = TRX_WITHDRAW
        · exact h
        · exact absurd h hnt
      by_cases hc : (handleTx s true b.height tx).2.code = 0
      · obtain ⟨sender, req, r, ok⟩ := withdraw_success_pre htype hc
        have hka : ledgerKey sender.addr = ledgerKey tx.from_ := (AcctInv_reachable hr).1 _ _ ok.senderAt
        obtain ⟨hkr, hcl⟩ := hi.rinv _ _ ok.record
        have hcr : cumOf s (ledgerKey tx.from_) = r.cumulated := by simp [cumOf, ok.record]
        have hnw : sender.bal + req < two256 := by
          have := hb sender ok.senderAt
          have := ok.enough
          omega
        obtain ⟨c1, c2, _⟩ := deliver_withdraw_cum hblk htype ok hka hkr hnw hcl
        obtain ⟨_, _, hfin, _⟩ := withdraw_run htype ok hka hkr hnw
        refine ⟨?_, ⟨?_, hclosed, fun h => absurd h hp'⟩⟩
        · intro k
          have hw : withdrawnIn s tx k = if k = ledgerKey tx.from_ then req else 0 := by
            unfold withdrawnIn
            rw [hout, ok.payload]
            simp [hc, htype]
          rw [hw]
          by_cases hk : k = ledgerKey tx.from_
          · subst hk
            rw [if_pos rfl, c1, hcr]
            have := ok.enough; omega
          · rw [if_neg hk, c2 k hk]
        · intro k r' hk
          rw [hrw, hfin] at hk
          by_cases hkk : ledgerKey tx.from_ = k
          · subst hkk
            simp only [Std.ExtTreeMap.getElem?_insert_self, Option.some.injEq] at hk
            subst hk
            constructor
            · have : (Reward.afterWithdraw r req b.height).addr = r.addr := by
                unfold Reward.afterWithdraw; split <;> rfl
              rw [this]; exact hkr
            · have : (Reward.afterWithdraw r req b.height).cumulated = wsub r.cumulated req := by
                unfold Reward.afterWithdraw; split <;> rfl
              rw [this]; exact wsub_lt _ _
          · rw [Std.ExtTreeMap.getElem?_insert] at hk
            simp [hkk] at hk
            exact hi.rinv k r' hk
      · have hsame := handleTx_withdraw_fail s b.height tx htype hc
        refine ⟨?_, ⟨hi.rinv.of_fin (by rw [hrw, hsame]), hclosed, fun h => absurd h hp'⟩⟩
        intro k
        have hw : withdrawnIn s tx k = 0 := by
          unfold withdrawnIn
          rw [hout]
          split
          · rename_i o req ho _
            simp only [Option.some.injEq] at ho
            subst ho
            rw [if_neg]; intro ⟨h, _⟩; exact hc h
          · rfl
        have e := cumOf_congr (s := s) (s' := (deliverTx s tx).1) (by rw [hrw, hsame]) k
        rw [hw, e]
  | check tx =>
    have hpp : p' = p := by cases p <;> simp [phaseStep] at hp <;> exact hp.symm
    have hfin := handleTx_check_rewards s (s.lastHeight + 1) tx
    obtain ⟨_, _, _, _, _, _, hblk, _, _, _, hhist, _⟩ := (handleTx_frame s false (s.lastHeight + 1) tx).1
    show (∀ k, cumOf (handleTx s false (s.lastHeight + 1) tx).1 k + 0 = cumOf s k + 0) ∧
      BalInv p' (handleTx s false (s.lastHeight + 1) tx).1
    refine ⟨fun k => by rw [cumOf_congr hfin], ⟨hi.rinv.of_fin hfin, ?_, ?_⟩⟩
    · intro h; rw [hfin, committed_congr hhist]; rw [hblk] at h; exact hi.closed h
    · intro h; rw [hblk]; rw [hpp] at h; exact hi.idle h
  | end_ =>
    have hp' : p' ≠ .idle := by cases p <;> simp [phaseStep] at hp <;> (subst hp; decide)
    have hrw := endBlock_rewards s
    show (∀ k, cumOf (endBlock s).1 k + 0 = cumOf s k + 0) ∧ BalInv p' (endBlock s).1
    refine ⟨fun k => by rw [endBlock_cum], ⟨hi.rinv.of_fin (by rw [hrw]), ?_, fun h => absurd h hp'⟩⟩
    intro h; rw [hrw]; rw [endBlock_blk] at h; exact hi.closed h
  | commit =>
    show (∀ k, cumOf (commit s).1 k + 0 = cumOf s k + 0) ∧ BalInv p' (commit s).1
    refine ⟨fun k => by rw [commit_cum], ?_⟩
    unfold commit
    split
    · rename_i hb0; exact ⟨hi.rinv, hi.closed, fun _ => hb0⟩
    · refine ⟨hi.rinv, fun _ => ?_, fun _ => rfl⟩
      show s.rewards.commit.fin = s.rewards.commit.committed
      rw [C15.committed_snoc]; rfl
  | restart =>
    have hpi : p = .idle := by cases p <;> simp [phaseStep] at hp <;> rfl
    have hfc := hi.closed (hi.idle hpi)
    have hfin : (restart s).rewards.fin = s.rewards.fin := by
      show s.rewards.reopen.fin = s.rewards.fin
      simp only [Led.reopen]; exact hfc.symm
    show (∀ k, cumOf (restart s) k + 0 = cumOf s k + 0) ∧ BalInv p' (restart s)
    refine ⟨fun k => by rw [cumOf_congr hfin], ⟨hi.rinv.of_fin hfin, fun _ => rfl, fun _ => rfl⟩⟩

theorem phaseStep_noinit {p p' : Phase} {op : Op} (h : phaseStep p op = some p') : op.isInit = false := by
  cases op <;> first | rfl | (cases p <;> simp [phaseStep] at h)

/-- the balance equation over a well-phased history from a reachable state -/
theorem balance_run {g : Genesis} (ops : List Op) (s : St) (p q : Phase) (hr : Reachable g s)
    (hp : phaseRun p ops = some q) (hi : BalInv p s) (hn : NoWrap s ops) :
    (∀ k, cumOf (exec s ops) k + withdrawnBy s ops k = cumOf s k + issuedTo s ops k) ∧ BalInv q (exec s ops) := by
  induction ops generalizing s p with
  | nil =>
    simp only [phaseRun, Option.some.injEq] at hp
    subst hp
    exact ⟨fun k => rfl, hi⟩
  | cons op ops ih =>
    unfold phaseRun at hp
    cases hps : phaseStep p op with
    | none => rw [hps] at hp; cases hp
    | some p' =>
      rw [hps] at hp
      simp only [] at hp
      obtain ⟨h1, h2⟩ := balance_step hr hps hi hn.1
      obtain ⟨h3, h4⟩ := ih (step s op).1 p' (hr.next op (phaseStep_noinit hps)) hp h2 hn.2
      refine ⟨?_, by rw [exec_cons]; exact h4⟩
      intro k
      rw [exec_cons]
      show cumOf (exec (step s op).1 ops) k + (withdrawnAt s op k + withdrawnBy (step s op).1 ops k) =
        cumOf s k + (issuedBy s op k + issuedTo (step s op).1 ops k)
      have a := h1 k
      have b := h3 k
      omega

theorem balInv_init (g : Genesis) : BalInv .idle (initChain g) := by
  obtain ⟨hfr, ⟨hrw, _⟩, _⟩ := C15.initChain_ifr g
  have hrw' : (initChain g).rewards = {} := by rw [hrw]; rfl
  refine ⟨?_, ?_, ?_⟩
  · intro k r hk; rw [hrw'] at hk; simp at hk
  · intro _; rw [hrw']; rfl
  · intro _; rw [hfr.2.2.2.2.2.2.1]; rfl

end Rigo.C13
