/-
  Round 2, stake controller (ctrlers/stake/stake.go, delegatee.go): constructors, `AddStake` /
  `addStake`, the exported wrappers `DelStakeByIdx`, `SumPower`, `SumPowerOf`, `DoSlash`, and the
  missed-block wrappers `ProcessNotSignedBlock` / `GetNotSignedBlockCount` (the Go `BlockMarker`
  behind the pointer field `NotSignedHeights` is the model's `Delegatee.notSigned`).
-/
import RigoProofs.GenFuncsSlash

set_option linter.unusedSimpArgs false

namespace Rigo.GenEq
open Rigo Rigo.Gen

/-! ### constructors -/

/-- `NewStakeWithPower` builds exactly the record `execStaking` stores (refund height 0) -/
theorem NewStakeWithPower_eq (owner to : Hex) (power start : Int) (hash : Hex) :
    NewStakeWithPower owner to power start hash =
      .ok ({ owner := owner, to := to, hash := hash, power := power, start := start } : Stake) := by
  unfold NewStakeWithPower
  rfl

/-- `NewStakeWithAmount`: the power is `amountToPower amt` (panics when that panics) -/
theorem NewStakeWithAmount_eq (owner to : Hex) (amt : Nat) (start : Int) (hash : Hex) :
    G.matches (NewStakeWithAmount owner to amt start hash)
      (Res.map (fun power => ({ owner := owner, to := to, hash := hash, power := power, start := start } : Stake))
        (amountToPower amt)) := by
  have h := AmountToPower_eq amt
  unfold NewStakeWithAmount
  generalize amountToPower amt = r at h ⊢
  generalize AmountToPower amt = g at h ⊢
  cases r with
  | ok p =>
    simp only [G.matches_ok] at h
    subst h
    simp [Res.map, bind, Except.bind, NewStakeWithPower_eq]
  | panic s =>
    obtain ⟨e, he⟩ := h
    subst he
    simp [Res.map, bind, Except.bind]

/-- `NewDelegatee` = the fresh delegatee of `execStaking` / `initChain` -/
theorem NewDelegatee_eq (addr pub : Hex) :
    NewDelegatee addr pub = .ok ({ addr := addr, pub := pub } : Delegatee) := by
  unfold NewDelegatee
  rfl

/-! ### `addStake` -/

/-- `addStake(stakes...)`: the model's `addStake`, one stake after the other
    (the slice is appended first, then the powers are added up: same result) -/
theorem Delegatee_addStake_eq (d : Delegatee) (ss : List Stake) :
    Delegatee_addStake d ss = .ok (ss.foldl Delegatee.addStake d, none) := by
  unfold Delegatee_addStake
  dsimp only
  rw [forIn_eq_pure _ (fun (xs : List Stake) (e : Delegatee) =>
      { e with self := e.self + Delegatee.sumPower (xs.filter Delegatee.isSelf),
               total := e.total + Delegatee.sumPower xs })]
  · simp only [bind, Except.bind, pure, Except.pure]
    congr 2
    induction ss generalizing d with
    | nil => simp [Delegatee.sumPower]
    | cons s ss ih =>
      rw [List.foldl_cons, ← ih (d.addStake s)]
      by_cases c : Delegatee.isSelf s = true
      · simp [Delegatee.addStake, c, List.filter_cons, sumPower_cons]; omega
      · simp [Delegatee.addStake, c, List.filter_cons, sumPower_cons]; omega
  · intro e; simp [Delegatee.sumPower]
  · intro x xs e
    by_cases c : Delegatee.isSelf x = true
    · simp [Stake_IsSelfStake_eq, c, List.filter_cons, sumPower_cons, pure, Except.pure, bind, Except.bind]; omega
    · simp [Stake_IsSelfStake_eq, c, List.filter_cons, sumPower_cons, pure, Except.pure, bind, Except.bind]; omega

/-- one stake: exactly `Delegatee.addStake` -/
theorem Delegatee_addStake_one (d : Delegatee) (s : Stake) :
    Delegatee_addStake d [s] = .ok (d.addStake s, none) := by
  rw [Delegatee_addStake_eq]; rfl

theorem Delegatee_AddStake_eq (d : Delegatee) (ss : List Stake) :
    Delegatee_AddStake d ss = .ok (ss.foldl Delegatee.addStake d, none) := by
  unfold Delegatee_AddStake
  simp [Delegatee_addStake_eq, bind, Except.bind, pure, Except.pure]

example : Delegatee_AddStake { addr := "aa", pub := "01" }
    [{ owner := "aa", to := "aa", hash := "01", power := 3, start := 1 },
     { owner := "bb", to := "aa", hash := "02", power := 4, start := 1 }] =
    .ok ({ addr := "aa", pub := "01", self := 3, total := 7,
           stakes := [{ owner := "aa", to := "aa", hash := "01", power := 3, start := 1 },
                      { owner := "bb", to := "aa", hash := "02", power := 4, start := 1 }] }, none) := by
  rw [Delegatee_AddStake_eq]; simp [Delegatee.addStake, Delegatee.isSelf]

/-! ### exported wrappers -/

/-- `DelStakeByIdx(idx)`: the stake at `idx` is removed and its power taken off (the bookkeeping
    of `delStake`, by index) -/
theorem Delegatee_DelStakeByIdx_eq (d : Delegatee) (idx : Nat) :
    Delegatee_DelStakeByIdx d (idx : Int) = .ok (match d.stakes[idx]? with
      | none => ({ d with stakes := d.stakes.eraseIdx idx }, none)
      | some s => ({ d with stakes := d.stakes.eraseIdx idx,
                            self := if Delegatee.isSelf s then d.self - s.power else d.self,
                            total := d.total - s.power }, some s)) := by
  unfold Delegatee_DelStakeByIdx
  dsimp only
  rw [Delegatee_delStakeByIdx_eq]
  cases h : d.stakes[idx]? with
  | none => simp [bind, Except.bind, pure, Except.pure]
  | some s =>
    by_cases c : Delegatee.isSelf s = true <;>
      simp [bind, Except.bind, pure, Except.pure, gderef, Stake_IsSelfStake_eq, c]

theorem Delegatee_SumPower_eq (d : Delegatee) :
    Delegatee_SumPower d = .ok (Delegatee.sumPower d.stakes) := by
  unfold Delegatee_SumPower
  simp [Delegatee_sumPowerOf_nil_eq, bind, Except.bind, pure, Except.pure]

theorem Delegatee_SumPowerOf_eq (d : Delegatee) (addr : Hex) (h : addr ≠ "") :
    Delegatee_SumPowerOf d addr = .ok (Delegatee.sumPowerOf d.stakes addr) := by
  unfold Delegatee_SumPowerOf
  simp [Delegatee_sumPowerOf_eq d addr h, bind, Except.bind, pure, Except.pure]

/-- `DoSlash(ratio)` = `Delegatee.doSlash` -/
theorem Delegatee_DoSlash_eq (d : Delegatee) (ratio : Int) (haddr : d.addr ≠ "") :
    Delegatee_DoSlash d ratio = .ok (d.doSlash ratio) := by
  unfold Delegatee_DoSlash
  simp [Delegatee_doSlashAll_eq d ratio haddr, bind, Except.bind, pure, Except.pure]

/-! ### missed blocks -/

/-- `ProcessNotSignedBlock(h)`: `notSigned := mark notSigned h` (the error of a non-increasing
    height is returned; `processVote` ignores it) -/
theorem Delegatee_ProcessNotSignedBlock_eq (d : Delegatee) (h : Int) :
    Delegatee_ProcessNotSignedBlock d h =
      .ok ({ d with notSigned := Delegatee.mark d.notSigned h },
        match d.notSigned.getLast? with
        | some l => if l ≥ h then some "height must bigger than last marked height" else none
        | none => none) := by
  unfold Delegatee_ProcessNotSignedBlock
  simp only [BlockMarker_Mark_eq, bind, Except.bind, pure, Except.pure]
  cases d.notSigned.getLast? <;> rfl

/-- `GetNotSignedBlockCount(h0, h1)`: count and pruned window of `countInWindow` -/
theorem Delegatee_GetNotSignedBlockCount_eq (d : Delegatee) (h0 h1 : Int) :
    Delegatee_GetNotSignedBlockCount d h0 h1 =
      .ok ({ d with notSigned := (Delegatee.countInWindow d.notSigned h0 h1).2 },
           ((Delegatee.countInWindow d.notSigned h0 h1).1 : Int)) := by
  unfold Delegatee_GetNotSignedBlockCount
  simp [BlockMarker_CountInWindow_eq, bind, Except.bind, pure, Except.pure]

example : Delegatee_GetNotSignedBlockCount { addr := "aa", pub := "", notSigned := [1, 3, 5, 7] } 4 7 =
    .ok ({ addr := "aa", pub := "", notSigned := [5, 7] }, 2) := by
  rw [Delegatee_GetNotSignedBlockCount_eq]; simp [Delegatee.countInWindow, Delegatee.countLoop]

end Rigo.GenEq
