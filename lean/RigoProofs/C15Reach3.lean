/-
  C15 (reachable-state tally invariant), part 3: EndBlock, transactions, Commit, restart, InitChain and
  the induction over reachable states.
-/
import RigoProofs.C15Reach2
import RigoProofs.C15Params

namespace Rigo.C15
open Rigo

/-! ### EndBlock -/

theorem freezeProposals_gov {s s1 : St} {height : Int} (h : freezeProposals s height = .ok s1) (hs : GovInv s) :
    GovInv s1 := by
  rw [freezeProposals_eq] at h
  have key := foldl_resStep_inv (freezeOne height)
    (fun x => EFr s x ∧ LedAll (fun _ p => PropOK p) x.props ∧ LedAll (fun _ p => FrozenTallyOK p) x.fprops)
    s.props.committed.toList ?_ s s1 ⟨EFr.refl s, hs.props, hs.fprops⟩ h
  · obtain ⟨e, hp, hf⟩ := key
    obtain ⟨_, _, _, e4, e5, _, _, _, e9, _⟩ := e
    exact ⟨by rw [e9]; exact hs.dk, by rw [e5]; exact hs.ad, by rw [e4]; exact hs.lv, hp, hf⟩
  · intro x kp x' hmem ⟨q1, q2, q3⟩ hx
    obtain ⟨e1, _, _, e4, e5⟩ := freezeOne_spec hx
    have hq : PropOK kp.2 := hs.props.committed kp.1 kp.2 (Std.ExtTreeMap.mem_toList_iff_getElem?_eq_some.mp hmem)
    refine ⟨q1.trans e1, ?_, ?_⟩
    · rcases e5 with e5 | e5
      · rw [e5]; exact q2
      · rw [e5]; exact q2.del _ _
    · rcases e4 with e4 | ⟨top, _, _, _, e4⟩
      · rw [e4]; exact q3
      · rw [e4]
        exact q3.set _ _ _ ⟨kp.2, hq, rfl, rfl, rfl, List.mergeSort_perm _ _⟩

theorem applyProposals_gov {s s2 : St} {height : Int} (h : applyProposals s height = .ok s2) (hs : GovInv s) :
    GovInv s2 := by
  obtain ⟨e, hp, hf, _⟩ := applyProposals_spec (fun _ p => FrozenTallyOK p) h hs.fprops
  obtain ⟨_, _, _, e4, e5, _, _, _, e9, _⟩ := e
  exact ⟨by rw [e9]; exact hs.dk, by rw [e5]; exact hs.ad, by rw [e4]; exact hs.lv, by rw [hp]; exact hs.props, hf⟩

theorem endBlock_gov (s : St) (hs : GovInv s) : GovInv (endBlock s).1 := by
  apply endBlock_ind s GovInv hs
  · intro b s1 _ h1; exact freezeProposals_gov h1 hs
  · intro b s1 s2 _ h1 h2; exact applyProposals_gov h2 (freezeProposals_gov h1 hs)
  · intro b s1 s2 s' _ _ _ t p2
    obtain ⟨⟨_, t2, t3, _, _, _, _, t8, t9, _⟩, tl⟩ := t
    exact ⟨by rw [t9]; exact p2.dk, by rw [t8]; exact p2.ad, by rw [tl]; exact p2.lv, by rw [t3]; exact p2.props,
      by rw [t2]; exact p2.fprops⟩
  · intro b s1 s2 s4 s5 ups _ _ _ _ p4 hu
    obtain ⟨⟨_, t2, t3, _, _, _, _, t8, t9, _⟩, nv, hnv, hl⟩ := updateValidators_tfr hu
    refine ⟨by rw [t9]; exact p4.dk, by rw [t8]; exact p4.ad, ?_, by rw [t3]; exact p4.props, by rw [t2]; exact p4.fprops⟩
    rw [hl]
    apply sortByPower_distinct
    unfold selectValidators at hnv
    split at hnv
    · cases hnv
    · cases hnv; exact p4.ad.sublist (List.take_sublist _ _)

/-! ### transactions -/

theorem handleTx_gov (s : St) (e : Bool) (ht : Int) (tx : TxIn) (hs : GovInv s) : GovInv (handleTx s e ht tx).1 := by
  obtain ⟨_, f2, _, _, f5, f6, _⟩ := (handleTx_frame s e ht tx).1
  exact ⟨handleTx_delegs s e ht tx hs.dk, by rw [f6]; exact hs.ad, by rw [f5]; exact hs.lv,
    handleTx_propsOK s e ht tx hs.props hs.lv, by rw [f2]; exact hs.fprops⟩

theorem GovInv.withBlk {s : St} (hs : GovInv s) (b : Option BlockCtx) : GovInv { s with blk := b } :=
  ⟨hs.dk, hs.ad, hs.lv, hs.props, hs.fprops⟩

theorem deliverTx_gov (s : St) (tx : TxIn) (hs : GovInv s) : GovInv (deliverTx s tx).1 := by
  unfold deliverTx
  split
  · exact hs
  · rename_i b hb
    have := handleTx_gov s true b.height tx hs
    generalize handleTx s true b.height tx = res at this
    obtain ⟨s', o⟩ := res
    simp only [] at this ⊢
    split
    · exact this
    · split
      · exact this.withBlk _
      · exact this

/-! ### InitChain -/

theorem foldl_pred {α β : Type} (P : α → Prop) (f : α → β → α) (hf : ∀ a b, P a → P (f a b)) (l : List β) (a : α)
    (h : P a) : P (l.foldl f a) := by
  induction l generalizing a with
  | nil => exact h
  | cons b l ih => exact ih _ (hf a b h)

theorem initChain_delegs (g : Genesis) : LedAll DKey (initChain g).delegs := by
  unfold initChain
  simp only []
  apply foldl_pred (fun acc : St => LedAll DKey acc.delegs)
  · intro acc x h
    obtain ⟨pub, addr, power⟩ := x
    simp only []
    have h1 : (acc.findOrNewAcct true addr).1.delegs = acc.delegs := (findOrNewAcct_frAll acc true addr).2.2.2
    show LedAll DKey ((acc.findOrNewAcct true addr).1.delegs.set true (ledgerKey addr) _)
    rw [h1]
    exact h.set _ _ _ rfl
  · apply foldl_pred (fun acc : St => LedAll DKey acc.delegs)
    · intro acc x h; exact h
    · exact LedAll.empty _

theorem govInv_init (g : Genesis) : GovInv (initChain g) := by
  obtain ⟨hfr, _, hp⟩ := initChain_ifr g
  obtain ⟨_, e2, _, _, e5, e6, _⟩ := hfr
  refine ⟨initChain_delegs g, ?_, ?_, ?_, ?_⟩
  · rw [e6]; simp [initBase, DistinctD]
  · rw [e5]; simp [initBase, DistinctD]
  · unfold FrP at hp; rw [hp]; exact LedAll.empty _
  · rw [e2]; exact LedAll.empty _

/-! ### the induction -/

theorem govInv_step {s : St} (hs : GovInv s) (op : Op) (hop : op.isInit = false) : GovInv (step s op).1 := by
  cases op with
  | init g => simp [Op.isInit] at hop
  | begin_ h => exact beginBlock_gov s h hs
  | deliver tx => exact deliverTx_gov s tx hs
  | check tx => exact handleTx_gov s false (s.lastHeight + 1) tx hs
  | end_ => exact endBlock_gov s hs
  | commit =>
    show GovInv (commit s).1
    unfold commit
    split
    · exact hs
    · exact ⟨hs.dk.commit, hs.ad, hs.lv, hs.props.commit, hs.fprops.commit⟩
  | restart =>
    show GovInv (restart s)
    exact ⟨hs.dk.reopen, by simp [restart, DistinctD], hs.lv, hs.props.reopen, hs.fprops.reopen⟩

theorem govInv_reachable {g : Genesis} {s : St} (h : Reachable g s) : GovInv s :=
  Reachable.induction GovInv (govInv_init g) (fun _ op _ hs hop => govInv_step hs op hop) h

end Rigo.C15
