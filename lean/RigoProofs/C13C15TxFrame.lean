/-
  C13 / C15: frame of a whole transaction (`runTrx`, `handleTx`), assembled from the per-body lemmas.
-/
import RigoProofs.C13C15Frame
import RigoProofs.TxRecv

namespace Rigo

/-- the frame of one transaction, by type -/
def TxFrame (tx : TxIn) (s s' : St) : Prop :=
  Fr s s' ∧ (tx.type ≠ TRX_WITHDRAW → FrR s s') ∧
  (tx.type ≠ TRX_PROPOSAL ∧ tx.type ≠ TRX_VOTING → FrP s s') ∧
  (tx.type ≠ TRX_STAKING ∧ tx.type ≠ TRX_UNSTAKING → FrD s s')

theorem TxFrame.of_frAll {tx : TxIn} {s s' : St} (h : FrAll s s') : TxFrame tx s s' :=
  ⟨h.1, fun _ => h.2.1, fun _ => h.2.2.1, fun _ => h.2.2.2⟩

theorem TxFrame.trans_frAll {tx : TxIn} {a b c : St} (h1 : TxFrame tx a b) (h2 : FrAll b c) : TxFrame tx a c :=
  ⟨h1.1.trans h2.1, fun h => (h1.2.1 h).trans h2.2.1, fun h => (h1.2.2.1 h).trans h2.2.2.1,
   fun h => (h1.2.2.2 h).trans h2.2.2.2⟩

theorem TxFrame.frAll_trans {tx : TxIn} {a b c : St} (h1 : FrAll a b) (h2 : TxFrame tx b c) : TxFrame tx a c :=
  ⟨h1.1.trans h2.1, fun h => h1.2.1.trans (h2.2.1 h), fun h => h1.2.2.1.trans (h2.2.2.1 h),
   fun h => h1.2.2.2.trans (h2.2.2.2 h)⟩

/-- the dispatch of `runTrx` on the transaction type -/
def execBody (s : St) (exec : Bool) (height : Int) (tx : TxIn) (receiver : Account) : Step RunOut :=
  if tx.type = TRX_CONTRACT then execEvm s exec tx
  else if tx.type = TRX_PROPOSAL then execProposal s exec tx
  else if tx.type = TRX_VOTING then execVoting s exec tx
  else if tx.type = TRX_TRANSFER then (if receiver.code ≠ "" then execEvm s exec tx else execTransfer s exec tx)
  else if tx.type = TRX_SETDOC then execSetDoc s exec tx
  else if tx.type = TRX_STAKING then execStaking s exec height tx
  else if tx.type = TRX_UNSTAKING then execUnstaking s exec height tx
  else if tx.type = TRX_WITHDRAW then execWithdraw s exec height tx
  else throw (.err "unknowntype")

theorem execBody_frame {s : St} {e : Bool} {ht : Int} {tx : TxIn} {rc : Account} {r : RunOut}
    (h : execBody s e ht tx rc = .ok r) : TxFrame tx s r.st := by
  unfold execBody at h
  split at h
  · exact TxFrame.of_frAll (execEvm_fr h)
  split at h
  · have := execProposal_fr h
    rename_i h1 h2
    exact ⟨this.1, fun _ => this.2.1, fun hh => absurd h2 hh.1, fun _ => this.2.2⟩
  split at h
  · have := execVoting_fr h
    rename_i h1 h2 h3
    exact ⟨this.1, fun _ => this.2.1, fun hh => absurd h3 hh.2, fun _ => this.2.2⟩
  split at h
  · split at h
    · exact TxFrame.of_frAll (execEvm_fr h)
    · exact TxFrame.of_frAll (execTransfer_fr h)
  split at h
  · exact TxFrame.of_frAll (execSetDoc_fr h)
  split at h
  · have := execStaking_fr h
    rename_i hh
    exact ⟨this.1, fun _ => this.2.1, fun _ => this.2.2, fun h2 => absurd hh h2.1⟩
  split at h
  · have := execUnstaking_fr h
    rename_i hh
    exact ⟨this.1, fun _ => this.2.1, fun _ => this.2.2, fun h2 => absurd hh h2.2⟩
  split at h
  · have := execWithdraw_fr h
    rename_i hh
    exact ⟨this.1, fun h2 => absurd hh h2, fun _ => this.2.1, fun _ => this.2.2⟩
  · cases h

/-- `postRunTrx`: fee deduction and nonce increment for native transactions -/
def runTail (e : Bool) (tx : TxIn) (receiver : Account) (r : RunOut) : Step (St × Nat × Option String) := do
  let viaEvm := tx.type = TRX_CONTRACT ∨ (tx.type = TRX_TRANSFER ∧ receiver.code ≠ "")
  if r.fail.isSome then pure (r.st, 0, r.fail)
  else if viaEvm then
    pure (r.st, r.evmGas.getD 0, none)
  else
    let fee := wmul tx.price tx.gas
    let some sender := r.st.findAcct e tx.from_ | throw (.err "noacct")
    match subBalance sender fee with
    | none => throw (.err "funds")
    | some a1 => pure (r.st.setAcct e { a1 with nonce := a1.nonce + 1 }, tx.gas, none)

theorem runTrx_eq (s : St) (e : Bool) (ht : Int) (tx : TxIn) (rc : Account) :
    runTrx s e ht tx rc = (execBody s e ht tx rc >>= runTail e tx rc) := by
  unfold runTrx execBody
  by_cases h1 : tx.type = TRX_CONTRACT
  · rw [if_pos h1, if_pos h1]; rfl
  rw [if_neg h1, if_neg h1]
  by_cases h2 : tx.type = TRX_PROPOSAL
  · rw [if_pos h2, if_pos h2]; rfl
  rw [if_neg h2, if_neg h2]
  by_cases h3 : tx.type = TRX_VOTING
  · rw [if_pos h3, if_pos h3]; rfl
  rw [if_neg h3, if_neg h3]
  by_cases h4 : tx.type = TRX_TRANSFER
  · rw [if_pos h4, if_pos h4]; rfl
  rw [if_neg h4, if_neg h4]
  by_cases h5 : tx.type = TRX_SETDOC
  · rw [if_pos h5, if_pos h5]; rfl
  rw [if_neg h5, if_neg h5]
  by_cases h6 : tx.type = TRX_STAKING
  · rw [if_pos h6, if_pos h6]; rfl
  rw [if_neg h6, if_neg h6]
  by_cases h7 : tx.type = TRX_UNSTAKING
  · rw [if_pos h7, if_pos h7]; rfl
  rw [if_neg h7, if_neg h7]
  by_cases h8 : tx.type = TRX_WITHDRAW
  · rw [if_pos h8, if_pos h8]; rfl
  rw [if_neg h8, if_neg h8]; rfl

theorem runTail_cases {e : Bool} {tx : TxIn} {rc : Account} {r : RunOut} {s2 : St} {g : Nat} {k : Option String}
    (h : runTail e tx rc r = .ok (s2, g, k)) :
    (r.fail.isSome ∧ k = r.fail ∧ s2 = r.st) ∨
    ((tx.type = TRX_CONTRACT ∨ (tx.type = TRX_TRANSFER ∧ rc.code ≠ "")) ∧ s2 = r.st) ∨
    (k = none ∧ g = tx.gas ∧ r.fail = none ∧ ¬ (tx.type = TRX_CONTRACT ∨ (tx.type = TRX_TRANSFER ∧ rc.code ≠ "")) ∧
      ∃ sender a1, r.st.findAcct e tx.from_ = some sender ∧ subBalance sender (wmul tx.price tx.gas) = some a1 ∧
        s2 = r.st.setAcct e { a1 with nonce := a1.nonce + 1 }) := by
  unfold runTail at h
  simp only [bind, Except.bind, pure, Except.pure, throw, throwThe, MonadExceptOf.throw] at h
  by_cases hf : r.fail.isSome
  · rw [if_pos hf] at h; cases h; exact Or.inl ⟨hf, rfl, rfl⟩
  rw [if_neg hf] at h
  by_cases hv : (tx.type = TRX_CONTRACT ∨ (tx.type = TRX_TRANSFER ∧ rc.code ≠ ""))
  · rw [if_pos hv] at h; cases h; exact Or.inr (Or.inl ⟨hv, rfl⟩)
  rw [if_neg hv] at h
  cases hs : r.st.findAcct e tx.from_ with
  | none => rw [hs] at h; cases h
  | some sender =>
    rw [hs] at h
    simp only [] at h
    cases ha : subBalance sender (wmul tx.price tx.gas) with
    | none => rw [ha] at h; cases h
    | some a1 =>
      rw [ha] at h; cases h
      refine Or.inr (Or.inr ⟨rfl, rfl, by simpa using hf, hv, sender, a1, rfl, ha, rfl⟩)

theorem runTrx_frame {s : St} {e : Bool} {ht : Int} {tx : TxIn} {rc : Account} {s2 : St} {g : Nat} {k : Option String}
    (h : runTrx s e ht tx rc = .ok (s2, g, k)) : TxFrame tx s s2 := by
  rw [runTrx_eq] at h
  simp only [bind, Except.bind] at h
  split at h
  · cases h
  · rename_i r hr
    have hb := execBody_frame hr
    rcases runTail_cases h with ⟨_, _, h1⟩ | ⟨_, h1⟩ | ⟨_, _, _, _, sender, a1, _, _, h1⟩
    · rw [h1]; exact hb
    · rw [h1]; exact hb
    · rw [h1]; exact hb.trans_frAll (setAcct_frAll _ _ _)

theorem handleTxOld_frame (s : St) (e : Bool) (ht : Int) (tx : TxIn) : TxFrame tx s (handleTxOld s e ht tx).1 := by
  unfold handleTxOld
  simp only []
  split
  · exact TxFrame.of_frAll (FrAll.refl s)
  split
  · exact TxFrame.of_frAll (FrAll.refl s)
  · have h0 := findOrNewAcct_frAll s e tx.to
    split
    · exact TxFrame.of_frAll h0
    · exact TxFrame.of_frAll h0
    · rename_i s1 hv
      obtain ⟨l, rfl⟩ := validateTrx_limiter hv
      have h1 := h0.trans (limiter_frAll _ l)
      split
      · exact TxFrame.of_frAll h1
      · exact TxFrame.of_frAll h1
      · rename_i hr; exact TxFrame.frAll_trans h1 (runTrx_frame hr)
      · rename_i hr; exact TxFrame.frAll_trans h1 (runTrx_frame hr)

theorem handleTx_frame (s : St) (e : Bool) (ht : Int) (tx : TxIn) : TxFrame tx s (handleTx s e ht tx).1 := by
  by_cases hl : byteLen tx.to = 20
  · rw [handleTx_goodlen hl]; exact handleTxOld_frame s e ht tx
  · rw [handleTx_badlen_fst hl]; exact TxFrame.of_frAll (FrAll.refl s)

end Rigo
