/-
  `Delegatee.doSlashAll` (ctrlers/stake/delegatee.go) against the model's `Delegatee.doSlash`.
  The Go loop updates the stakes in place through the element pointers (translated as a
  write-back loop), collects the forfeited ones, removes those by hash and recomputes the powers.
-/
import RigoProofs.GenFuncsLoops

set_option linter.unusedSimpArgs false

namespace Rigo.GenEq
open Rigo Rigo.Gen

/-- slashed amount of one stake -/
abbrev slOf (ratio : Int) (s : Stake) : Int := Int.tdiv (s.power * ratio) 100

/-- the first loop of `doSlashAll` as list expressions: (sum, removing, rewritten stakes) -/
def slashL (ratio : Int) (xs : List Stake) (st : Int × List Stake × List Stake) : Int × List Stake × List Stake :=
  (st.1 + (xs.map fun s => if slOf ratio s < 1 then 0 else slOf ratio s).sum,
   st.2.1 ++ xs.filter (fun s => slOf ratio s < 1),
   st.2.2 ++ xs.map (fun s => if slOf ratio s < 1 then s else { s with power := s.power - slOf ratio s }))

/-- the second loop: removal of the forfeited stakes by hash -/
def removeL (rs : List Stake) (d : Delegatee) : Delegatee :=
  rs.foldl (fun acc r => { acc with stakes := acc.stakes.eraseP (·.hash == r.hash) }) d

theorem removeL_stakes (rs : List Stake) (d : Delegatee) :
    removeL rs d = { d with stakes := rs.foldl (fun acc r => acc.eraseP (·.hash == r.hash)) d.stakes } := by
  induction rs generalizing d with
  | nil => rfl
  | cons r rs ih => simp only [removeL, List.foldl_cons] at ih ⊢; rw [ih]

/-- `doSlashAll(ratio)` = `doSlash` for a delegatee with a non-empty address (with the empty
    address Go's `sumPowerOf(delegatee.Addr)` would take the `addr == nil` branch only for a nil
    slice; the translation identifies nil and empty) -/
theorem Delegatee_doSlashAll_eq (d : Delegatee) (ratio : Int) (haddr : d.addr ≠ "") :
    Delegatee_doSlashAll d ratio = .ok (d.doSlash ratio) := by
  unfold Delegatee_doSlashAll Delegatee.doSlash
  dsimp only
  rw [forIn_eq_pure _ (slashL ratio)]
  · simp only [bind, Except.bind, pure, Except.pure, slashL, List.nil_append, Int.zero_add]
    have loop2 : ∀ (rs : List Stake) (e : Delegatee),
        forIn (m := G) rs e (fun s1 __s => do
            let __r2 ← Delegatee_delStakeByHash __s s1.hash
            pure (ForInStep.yield __r2.fst)) = pure (removeL rs e) := by
      intro rs e
      apply forIn_eq_pure _ (fun rs e => removeL rs e)
      · intro s; rfl
      · intro x xs s
        simp [Delegatee_delStakeByHash_eq, removeL, bind, Except.bind, pure, Except.pure]
    by_cases hrm : (d.stakes.filter (fun s => slOf ratio s < 1)).isEmpty = false
    · simp only [hrm, if_true]
      have := loop2 (d.stakes.filter (fun s => slOf ratio s < 1))
        { d with stakes := d.stakes.map (fun s => if slOf ratio s < 1 then s else { s with power := s.power - slOf ratio s }) }
      simp only [bind, Except.bind, pure, Except.pure] at this
      simp only [this, removeL_stakes]
      simp only [Delegatee_sumPowerOf_eq _ _ haddr, Delegatee_sumPowerOf_nil_eq]
    · have hnil : d.stakes.filter (fun s => slOf ratio s < 1) = [] := by
        simpa using hrm
      simp only [hnil, List.isEmpty_nil, Bool.true_eq_false, if_false, List.foldl_nil]
      simp only [Delegatee_sumPowerOf_eq _ _ haddr, Delegatee_sumPowerOf_nil_eq]
  · intro s; simp [slashL]
  · intro x xs ⟨sum, rem, wb⟩
    have h100 : ¬ ((100 : Int) = 0) := by decide
    by_cases c : slOf ratio x < 1
    · have c' : Int.tdiv (x.power * ratio) 100 < 1 := c
      simp [slashL, gdiv, h100, c, c', bind, Except.bind, pure, Except.pure, List.filter_cons]
    · have c' : ¬ Int.tdiv (x.power * ratio) 100 < 1 := c
      simp [slashL, gdiv, h100, c, c', bind, Except.bind, pure, Except.pure, List.filter_cons]
      simp only [slOf] at *; omega

/-- the hypothesis is satisfiable, and both sides agree on a non-trivial delegatee: one stake
    reduced by 10 %, one forfeited (its slashed share rounds down to 0) -/
example : Delegatee_doSlashAll
    { addr := "aa", pub := "01", self := 50, total := 55,
      stakes := [{ owner := "aa", to := "aa", hash := "h1", power := 50, start := 1 },
                 { owner := "bb", to := "aa", hash := "h2", power := 5, start := 2 }] } 10
    = .ok ({ addr := "aa", pub := "01", self := 45, total := 45,
             stakes := [{ owner := "aa", to := "aa", hash := "h1", power := 45, start := 1 }] }, 5) := by
  rw [Delegatee_doSlashAll_eq _ _ (by decide)]; exact congrArg Except.ok (by decide)

end Rigo.GenEq
