/-
  C01 helpers: sorting. Uniqueness of sorted permutations under a strict total order, sortedness of
  `mergeSort` under hypotheses restricted to the elements of the list, the comparators of the stake
  controller, the limiter and the ledger are strict total orders on entries with distinct keys.
-/
import Rigo.Determinism

namespace Rigo.Determinism
open Rigo.Ledger

variable {α : Type}

/-! ### generic -/

theorem eq_of_mem_of_nodup_map {β : Type} (f : α → β) :
    ∀ {l : List α}, (l.map f).Nodup → ∀ {a b : α}, a ∈ l → b ∈ l → f a = f b → a = b
  | [], _, _, _, ha, _, _ => by cases ha
  | x :: xs, nd, a, b, ha, hb, e => by
    simp only [List.map_cons, List.nodup_cons, List.mem_map, not_exists, not_and] at nd
    simp only [List.mem_cons] at ha hb
    rcases ha with rfl | ha <;> rcases hb with rfl | hb
    · rfl
    · exact absurd e.symm (nd.1 _ hb)
    · exact absurd e (nd.1 _ ha)
    · exact eq_of_mem_of_nodup_map f nd.2 ha hb e

/-- only totality on distinct elements is needed for uniqueness -/
theorem sorted_perm_unique {lt : α → α → Bool} {l a b : List α}
    (tot : ∀ x ∈ l, ∀ y ∈ l, x ≠ y → lt x y = true ∨ lt y x = true)
    (ha : Sorted lt a) (hb : Sorted lt b) (pa : a.Perm l) (pb : b.Perm l) : a = b := by
  refine List.Perm.eq_of_pairwise (le := fun x y => lt y x = false) ?_ ha hb (pa.trans pb.symm)
  intro x y hx hy h1 h2
  refine Classical.byContradiction fun hne => ?_
  rcases tot x (pa.subset hx) y (pb.subset hy) hne with h | h
  · rw [h] at h2; cases h2
  · rw [h] at h1; cases h1

theorem StrictTotalOn.asymm {lt : α → α → Bool} {l : List α} (h : StrictTotalOn lt l)
    {a b : α} (ha : a ∈ l) (hb : b ∈ l) (hab : lt a b = true) : lt b a = false := by
  cases hba : lt b a with
  | false => rfl
  | true =>
    have := h.trans a ha b hb a ha hab hba
    rw [h.irrefl a ha] at this; cases this

theorem StrictTotalOn.perm {lt : α → α → Bool} {l l' : List α} (h : StrictTotalOn lt l)
    (p : l'.Perm l) : StrictTotalOn lt l' :=
  ⟨fun a ha => h.irrefl a (p.subset ha),
   fun a ha b hb c hc => h.trans a (p.subset ha) b (p.subset hb) c (p.subset hc),
   fun a ha b hb => h.total a (p.subset ha) b (p.subset hb)⟩

/-- `List.pairwise_mergeSort` with transitivity and totality required on the elements of the list only -/
theorem pairwise_mergeSort_on {le : α → α → Bool} (l : List α)
    (trans : ∀ a ∈ l, ∀ b ∈ l, ∀ c ∈ l, le a b = true → le b c = true → le a c = true)
    (total : ∀ a ∈ l, ∀ b ∈ l, (le a b || le b a) = true) :
    (l.mergeSort le).Pairwise (fun a b => le a b = true) := by
  let leS : {x // x ∈ l} → {x // x ∈ l} → Bool := fun a b => le a.1 b.1
  have h := List.pairwise_mergeSort (le := leS)
    (fun a b c => trans a.1 a.2 b.1 b.2 c.1 c.2) (fun a b => total a.1 a.2 b.1 b.2) l.attach
  have hm : (l.attach.mergeSort leS).map Subtype.val = l.mergeSort le := by
    rw [List.map_mergeSort (s := le) (fun _ _ _ _ => rfl), List.attach_map_subtype_val]
  rw [← hm, List.pairwise_map]
  exact h

/-- the model's way of sorting with a strict comparator: `mergeSort (lt a b || a == b)` -/
theorem sorted_mergeSort_ltOrEq [BEq α] [LawfulBEq α] {lt : α → α → Bool} {l : List α}
    (h : StrictTotalOn lt l) : Sorted lt (l.mergeSort (fun a b => lt a b || a == b)) := by
  have hp := pairwise_mergeSort_on (le := fun a b => lt a b || a == b) l
    (by
      intro a ha b hb c hc hab hbc
      simp only [Bool.or_eq_true, beq_iff_eq] at hab hbc ⊢
      rcases hab with hab | rfl
      · rcases hbc with hbc | rfl
        · exact Or.inl (h.trans a ha b hb c hc hab hbc)
        · exact Or.inl hab
      · exact hbc)
    (by
      intro a ha b hb
      simp only [Bool.or_eq_true, beq_iff_eq]
      by_cases e : a = b
      · exact Or.inl (Or.inr e)
      · rcases h.total a ha b hb e with h1 | h1
        · exact Or.inl (Or.inl h1)
        · exact Or.inr (Or.inl h1))
  unfold Sorted
  refine List.Pairwise.imp_of_mem ?_ hp
  intro a b ha hb hab
  rw [List.mem_mergeSort] at ha hb
  simp only [Bool.or_eq_true, beq_iff_eq] at hab
  rcases hab with hab | rfl
  · exact h.asymm ha hb hab
  · exact h.irrefl a ha

/-- a strict total order on `l` admits a sorted permutation (so `IsSortOf` is satisfiable) and
    it is the one the model computes -/
theorem isSortOf_mergeSort [BEq α] [LawfulBEq α] {lt : α → α → Bool} {l : List α}
    (h : StrictTotalOn lt l) : IsSortOf lt l (l.mergeSort (fun a b => lt a b || a == b)) :=
  ⟨List.mergeSort_perm _ _, sorted_mergeSort_ltOrEq h⟩

/-- permutation-invariance of the model's sort under a strict total order -/
theorem mergeSort_ltOrEq_perm [BEq α] [LawfulBEq α] {lt : α → α → Bool} {l₁ l₂ : List α}
    (h : StrictTotalOn lt l₁) (p : l₁.Perm l₂) :
    l₁.mergeSort (fun a b => lt a b || a == b) = l₂.mergeSort (fun a b => lt a b || a == b) :=
  sorted_perm_unique h.total (sorted_mergeSort_ltOrEq h) (sorted_mergeSort_ltOrEq (h.perm p.symm))
    (List.mergeSort_perm _ _) ((List.mergeSort_perm _ _).trans p.symm)

/-! ### strings -/

theorem String.lt_or_gt_of_ne {a b : String} (h : a ≠ b) : a < b ∨ b < a := by
  by_cases h1 : a < b
  · exact Or.inl h1
  · by_cases h2 : b < a
    · exact Or.inr h2
    · exact absurd (String.le_antisymm (String.not_lt.mp h2) (String.not_lt.mp h1)) h

/-! ### the comparators -/

theorem keyDesc_strictTotal (l : List Key) : StrictTotalOn keyDescLess l := by
  refine ⟨?_, ?_, ?_⟩
  · intro a _; simp [keyDescLess]
  · intro a _ b _ c _; simp only [keyDescLess, decide_eq_true_eq]; exact fun h1 h2 => Nat.lt_trans h2 h1
  · intro a _ b _ h; simp only [keyDescLess, decide_eq_true_eq]
    exact (Nat.lt_or_gt_of_ne h).symm

theorem addrLess_strictTotal {ds : List Delegatee} (nd : DistinctAddr ds) : StrictTotalOn addrLess ds := by
  refine ⟨?_, ?_, ?_⟩
  · intro a _; simp [addrLess]
  · intro a _ b _ c _; simp only [addrLess, decide_eq_true_eq]; exact String.lt_trans
  · intro a ha b hb h
    simp only [addrLess, decide_eq_true_eq]
    exact String.lt_or_gt_of_ne fun e => h (eq_of_mem_of_nodup_map (·.addr) (show (ds.map (·.addr)).Nodup from nd) ha hb e)

theorem powerLess_irrefl (a : Delegatee) : powerLess a a = false := by
  simp [powerLess]

theorem powerLess_trans {a b c : Delegatee} (h1 : powerLess a b = true) (h2 : powerLess b c = true) :
    powerLess a c = true := by
  unfold powerLess at *
  by_cases e1 : a.total = b.total <;> by_cases e2 : b.total = c.total <;>
    by_cases e3 : a.stakes.length = b.stakes.length <;> by_cases e4 : b.stakes.length = c.stakes.length <;>
    simp_all
  all_goals repeat' split
  all_goals first
    | omega
    | exact String.lt_trans h2 h1

theorem powerLess_total_of_addr_ne {a b : Delegatee} (h : a.addr ≠ b.addr) :
    powerLess a b = true ∨ powerLess b a = true := by
  unfold powerLess
  by_cases e1 : a.total = b.total
  · by_cases e3 : a.stakes.length = b.stakes.length
    · have := String.lt_or_gt_of_ne h
      simp_all
      rcases this with h | h
      · exact Or.inr h
      · exact Or.inl h
    · have : ¬ b.stakes.length = a.stakes.length := fun e => e3 e.symm
      simp_all; omega
  · have : ¬ b.total = a.total := fun e => e1 e.symm
    simp_all; omega

theorem powerLess_strictTotal {ds : List Delegatee} (nd : DistinctAddr ds) : StrictTotalOn powerLess ds :=
  ⟨fun a _ => powerLess_irrefl a,
   fun _ _ _ _ _ _ => powerLess_trans,
   fun _ ha _ hb h => powerLess_total_of_addr_ne fun e => h (eq_of_mem_of_nodup_map (·.addr) (show (ds.map (·.addr)).Nodup from nd) ha hb e)⟩

theorem objLess_strictTotal {os : List (Hex × Int)} (nd : DistinctObjAddr os) :
    StrictTotalOn Limiter.objLess os := by
  refine ⟨?_, ?_, ?_⟩
  · intro a _; simp [Limiter.objLess]
  · intro a _ b _ c _ h1 h2
    unfold Limiter.objLess at *
    by_cases e1 : a.2 = b.2 <;> by_cases e2 : b.2 = c.2 <;> simp_all
    all_goals repeat' split
    all_goals first
      | omega
      | exact String.lt_trans h2 h1
  · intro a ha b hb h
    have hne : a.1 ≠ b.1 := fun e => h (eq_of_mem_of_nodup_map (·.1) (show (os.map (·.1)).Nodup from nd) ha hb e)
    unfold Limiter.objLess
    by_cases e1 : a.2 = b.2
    · have := String.lt_or_gt_of_ne hne
      simp_all
      rcases this with h | h
      · exact Or.inr h
      · exact Or.inl h
    · have : ¬ b.2 = a.2 := fun e => e1 e.symm
      simp_all; omega

/-! ### the model's sorts are admissible `sort.Sort` results, hence THE result -/

theorem distinctAddr_perm {l₁ l₂ : List Delegatee} (p : l₁.Perm l₂) (nd : DistinctAddr l₁) : DistinctAddr l₂ :=
  show (l₂.map (·.addr)).Nodup from (p.map (·.addr)).nodup (show (l₁.map (·.addr)).Nodup from nd)

theorem sortByPower_isSort {ds : List Delegatee} (nd : DistinctAddr ds) :
    IsSortOf powerLess ds (sortByPower ds) :=
  isSortOf_mergeSort (powerLess_strictTotal nd)

theorem sortObjs_isSort {os : List (Hex × Int)} (nd : DistinctObjAddr os) :
    IsSortOf Limiter.objLess os (sortObjs os) :=
  isSortOf_mergeSort (objLess_strictTotal nd)

theorem sortByAddr_sorted (ds : List Delegatee) : Sorted addrLess (sortByAddr ds) := by
  unfold Sorted sortByAddr
  have := List.pairwise_mergeSort (le := fun (a b : Delegatee) => decide (a.addr ≤ b.addr))
    (by intro a b c; simp only [decide_eq_true_eq]; exact String.le_trans)
    (by intro a b; simp only [Bool.or_eq_true, decide_eq_true_eq]; exact String.le_total _ _) ds
  refine this.imp ?_
  intro a b h
  simp only [decide_eq_true_eq] at h
  simp only [addrLess, decide_eq_false_iff_not, String.not_lt]
  exact h

theorem sortByAddr_isSort (ds : List Delegatee) : IsSortOf addrLess ds (sortByAddr ds) :=
  ⟨List.mergeSort_perm _ _, sortByAddr_sorted ds⟩

theorem sortedKeys_sorted (l : List (Key × Val)) : Sorted keyDescLess (sortedKeys l) := by
  unfold Sorted sortedKeys
  have := List.pairwise_mergeSort (le := fun (a b : Key) => decide (b ≤ a))
    (by intro a b c; simp only [decide_eq_true_eq]; exact fun h1 h2 => Nat.le_trans h2 h1)
    (by intro a b; simp only [Bool.or_eq_true, decide_eq_true_eq]; exact Nat.le_total b a) (l.map (·.1))
  refine this.imp ?_
  intro a b h
  simp only [decide_eq_true_eq] at h
  simp only [keyDescLess, decide_eq_false_iff_not]
  exact Nat.not_lt.mpr h

theorem sortedKeys_isSort (l : List (Key × Val)) : IsSortOf keyDescLess (l.map (·.1)) (sortedKeys l) :=
  ⟨List.mergeSort_perm _ _, sortedKeys_sorted l⟩

theorem sortOptions_sorted (os : List VoteOpt) : Sorted optionLess (sortOptions os) := by
  unfold Sorted sortOptions
  have := List.pairwise_mergeSort (le := fun (a b : VoteOpt) => decide (a.votes ≥ b.votes))
    (by intro a b c; simp only [decide_eq_true_eq]; omega)
    (by intro a b; simp only [Bool.or_eq_true, decide_eq_true_eq]; omega) os
  refine this.imp ?_
  intro a b h
  simp only [decide_eq_true_eq] at h
  simp only [optionLess, decide_eq_false_iff_not]
  omega

theorem sortOptions_isSort (os : List VoteOpt) : IsSortOf optionLess os (sortOptions os) :=
  ⟨List.mergeSort_perm _ _, sortOptions_sorted os⟩

end Rigo.Determinism
