/-
  C15: `Proposal.doPunish` keeps the per-proposal invariant `PropOK`; it keeps `TotalOK`
  (total = Σ voter powers) when the slash ratio is in 0..100, and breaks it otherwise (witness).
-/
import RigoProofs.C15Vote

namespace Rigo.C15

/-- the slashing amount computed by `DoPunish` -/
def slashAmt (power ratio : Int) : Int :=
  Int.ofNat ((((power % (two64 : Int)).toNat * (ratio % (two64 : Int)).toNat) % two256 / 100) % two64)

theorem slashAmt_sane {power ratio : Int} (hp : 0 ≤ power ∧ power < (two64 : Int)) (hr : 0 ≤ ratio ∧ ratio ≤ 100) :
    0 ≤ slashAmt power ratio ∧ slashAmt power ratio ≤ power ∧
    slashAmt power ratio = Int.ofNat (power.toNat * ratio.toNat / 100) := by
  unfold slashAmt
  have e1 : (power % (two64 : Int)).toNat = power.toNat := by
    rw [Int.emod_eq_of_lt hp.1 hp.2]
  have e2 : (ratio % (two64 : Int)).toNat = ratio.toNat := by
    rw [Int.emod_eq_of_lt hr.1 (by unfold two64; omega)]
  rw [e1, e2]
  have ha : power.toNat < two64 := by unfold two64 at *; omega
  have hb : ratio.toNat ≤ 100 := by omega
  have h1 : power.toNat * ratio.toNat ≤ power.toNat * 100 := Nat.mul_le_mul_left _ hb
  have h2 : power.toNat * ratio.toNat < two256 := by unfold two256 two64 at *; omega
  have h3 : power.toNat * ratio.toNat / 100 ≤ power.toNat := by
    apply Nat.div_le_of_le_mul; rw [Nat.mul_comm 100]; exact h1
  have h4 : power.toNat * ratio.toNat / 100 < two64 := by omega
  rw [Nat.mod_eq_of_lt h2, Nat.mod_eq_of_lt h4]
  have : (Int.ofNat (power.toNat * ratio.toNat / 100)) ≤ Int.ofNat power.toNat := Int.ofNat_le.mpr h3
  simp only [Int.ofNat_eq_natCast] at this ⊢
  refine ⟨by omega, by omega, trivial⟩

/-- replacing / dropping a voter whose choice is −1 does not disturb the tallies -/
theorem tally_neutral_replace (l1 l2 : List Voter) (v v' : Voter) (hv : v.choice = -1) (hv' : v'.choice = -1) (j : Nat) :
    tally (l1 ++ v' :: l2) j = tally (l1 ++ v :: l2) j := by
  have : ¬ ((-1 : Int) = (j : Int)) := by omega
  simp [tally, contrib, hv, hv', this]

theorem tally_neutral_drop (l1 l2 : List Voter) (v : Voter) (hv : v.choice = -1) (j : Nat) :
    tally (l1 ++ l2) j = tally (l1 ++ v :: l2) j := by
  have : ¬ ((-1 : Int) = (j : Int)) := by omega
  simp [tally, contrib, hv, this]

theorem mem_mid_of {w v v' : Voter} {l1 l2 : List Voter} (h : w ∈ l1 ++ v' :: l2) : w = v' ∨ w ∈ l1 ++ v :: l2 := by
  simp only [List.mem_append, List.mem_cons] at *
  rcases h with h | h | h
  · exact Or.inr (Or.inl h)
  · exact Or.inl h
  · exact Or.inr (Or.inr (Or.inr h))

theorem mem_drop_of {w v : Voter} {l1 l2 : List Voter} (h : w ∈ l1 ++ l2) : w ∈ l1 ++ v :: l2 := by
  simp only [List.mem_append, List.mem_cons] at *
  rcases h with h | h
  · exact Or.inl h
  · exact Or.inr (Or.inr h)

/-- the shape of `doPunish` once the voter is located -/
theorem doPunish_found (p : Proposal) (addr : Hex) (ratio : Int) (v : Voter)
    (hf : p.voters.find? (·.addr == addr) = some v) :
    p.doPunish addr ratio =
      (let p1 := if v.choice ≥ 0 then p.doVote addr (-1) else p
       let slashing := slashAmt v.power ratio
       let newPower := v.power - slashing
       let p2 :=
         if newPower ≤ 0 then { p1 with voters := p1.voters.filter (·.addr != addr) }
         else
           let p1' := { p1 with voters := p1.voters.map fun w => if w.addr == addr then { w with power := newPower } else w }
           if v.choice ≥ 0 then p1'.doVote addr v.choice else p1'
       ({ p2 with total := p2.total - slashing, majority := Int.tdiv ((p2.total - slashing) * 2) 3 }, slashing)) := by
  unfold Proposal.doPunish slashAmt
  rw [hf]

theorem doPunish_notfound (p : Proposal) (addr : Hex) (ratio : Int)
    (hf : p.voters.find? (·.addr == addr) = none) : p.doPunish addr ratio = (p, 0) := by
  unfold Proposal.doPunish; rw [hf]

/-- intermediate facts: after the cancel step the voter sits at the same place with choice −1 -/
theorem cancel_step {p : Proposal} (hp : PropOK p) {addr : Hex} {v : Voter} {l1 l2 : List Voter}
    (hf : p.voters.find? (·.addr == addr) = some v) (hva : v.addr = addr) (hvs : p.voters = l1 ++ v :: l2)
    (h1 : ∀ w ∈ l1, w.addr ≠ addr) (h2 : ∀ w ∈ l2, w.addr ≠ addr) :
    let p1 := if v.choice ≥ 0 then p.doVote addr (-1) else p
    PropOK p1 ∧ p1.voters = l1 ++ { v with choice := -1 } :: l2 ∧ p1.options.length = p.options.length ∧
    p1.total = p.total := by
  intro p1
  by_cases hc : v.choice ≥ 0
  · have e : p1 = p.doVote addr (-1) := by simp [p1, hc]
    rw [e]
    refine ⟨doVote_ok hp addr (-1) (Or.inl rfl), ?_, doVote_length _ _ _, (doVote_header _ _ _).1⟩
    rw [doVote_voters p addr (-1) v hf, hvs]; exact map_mod _ hva h1 h2
  · have e : p1 = p := by simp [p1, hc]
    rw [e]
    refine ⟨hp, ?_, rfl, rfl⟩
    have hr := hp.range v (by rw [hvs]; simp)
    have hm1 : v.choice = -1 := by omega
    rw [hvs]; congr 2
    cases v; simp_all

theorem doPunish_ok {p : Proposal} (hp : PropOK p) (addr : Hex) (ratio : Int) : PropOK (p.doPunish addr ratio).1 := by
  cases hf : p.voters.find? (·.addr == addr) with
  | none => rw [doPunish_notfound p addr ratio hf]; exact hp
  | some v =>
    obtain ⟨hva, l1, l2, hvs, h1, h2⟩ := split_voter hp.distinct hf
    obtain ⟨hp1, hv1, hl1, _⟩ := cancel_step hp hf hva hvs h1 h2
    rw [doPunish_found p addr ratio v hf]
    generalize (if v.choice ≥ 0 then p.doVote addr (-1) else p) = p1 at hp1 hv1 hl1
    simp only []
    have hvr := hp.range v (by rw [hvs]; simp)
    by_cases hn : v.power - slashAmt v.power ratio ≤ 0
    · simp only [hn, if_true]
      have hvv : p1.voters.filter (·.addr != addr) = l1 ++ l2 := by
        rw [hv1]; exact filter_mod (v := { v with choice := -1 }) hva h1 h2
      refine ⟨?_, ?_, ?_, rfl⟩
      · show DistinctAddrs (p1.voters.filter _)
        rw [hvv]; apply distinct_drop (v := { v with choice := -1 }); rw [← hv1]; exact hp1.distinct
      · intro w hw
        have hw' : w ∈ p1.voters.filter (·.addr != addr) := hw
        rw [hvv] at hw'
        exact hp1.range w (by rw [hv1]; exact mem_drop_of hw')
      · intro j o ho
        have ho' : p1.options[j]? = some o := ho
        show o.votes = tally (p1.voters.filter _) j
        rw [hvv, tally_neutral_drop l1 l2 { v with choice := -1 } rfl, ← hv1]
        exact hp1.tallies j o ho'
    · simp only [hn, if_false]
      -- the voter with its reduced power, choice still −1
      have hmap : (p1.voters.map fun w => if w.addr == addr then { w with power := v.power - slashAmt v.power ratio } else w)
          = l1 ++ { v with choice := -1, power := v.power - slashAmt v.power ratio } :: l2 := by
        rw [hv1]; exact map_mod _ (v := { v with choice := -1 }) hva h1 h2
      have hp1' : PropOK { p1 with voters := p1.voters.map fun w => if w.addr == addr then { w with power := v.power - slashAmt v.power ratio } else w } := by
        refine ⟨?_, ?_, ?_, hp1.majority⟩
        · show DistinctAddrs (p1.voters.map _)
          rw [hmap]; apply distinct_mid (v := { v with choice := -1 }) (v' := { v with choice := -1, power := v.power - slashAmt v.power ratio }) hva hva; rw [← hv1]; exact hp1.distinct
        · intro w hw
          have hw' : w ∈ p1.voters.map _ := hw
          rw [hmap] at hw'
          rcases mem_mid_of (v := { v with choice := -1 }) hw' with h | h
          · subst h; exact Or.inl rfl
          · exact hp1.range w (by rw [hv1]; exact h)
        · intro j o ho
          have ho' : p1.options[j]? = some o := ho
          show o.votes = tally (p1.voters.map _) j
          rw [hmap, tally_neutral_replace l1 l2 { v with choice := -1 } _ rfl rfl, ← hv1]
          exact hp1.tallies j o ho'
      by_cases hc : v.choice ≥ 0
      · simp only [hc, if_true]
        have := doVote_ok hp1' addr v.choice (by
          right; show 0 ≤ v.choice ∧ v.choice < p1.options.length; rw [hl1]; omega)
        refine ⟨this.distinct, ?_, this.tallies, rfl⟩
        exact this.range
      · simp only [hc, if_false]
        exact ⟨hp1'.distinct, hp1'.range, hp1'.tallies, rfl⟩

/-- `doPunish` keeps `total = Σ voter powers` for a sane slash ratio -/
theorem doPunish_total_ok {p : Proposal} (hp : PropOK p) (ht : TotalOK p) (addr : Hex) {ratio : Int}
    (hr : 0 ≤ ratio ∧ ratio ≤ 100) : TotalOK (p.doPunish addr ratio).1 := by
  cases hf : p.voters.find? (·.addr == addr) with
  | none => rw [doPunish_notfound p addr ratio hf]; exact ht
  | some v =>
    obtain ⟨hva, l1, l2, hvs, h1, h2⟩ := split_voter hp.distinct hf
    obtain ⟨hp1, hv1, hl1, ht1⟩ := cancel_step hp hf hva hvs h1 h2
    rw [doPunish_found p addr ratio v hf]
    generalize (if v.choice ≥ 0 then p.doVote addr (-1) else p) = p1 at hp1 hv1 hl1 ht1
    simp only []
    have hvs' := ht.sane v (by rw [hvs]; simp)
    obtain ⟨hs0, hs1, _⟩ := slashAmt_sane hvs' hr
    have htot : p.total = powerSum l1 + v.power + powerSum l2 := by
      rw [ht.total, hvs]; simp [powerSum]; omega
    have hsane : ∀ w ∈ l1 ++ l2, 0 ≤ w.power ∧ w.power < (two64 : Int) := by
      intro w hw; exact ht.sane w (by rw [hvs]; exact mem_drop_of hw)
    by_cases hn : v.power - slashAmt v.power ratio ≤ 0
    · simp only [hn, if_true]
      have hvv : p1.voters.filter (·.addr != addr) = l1 ++ l2 := by
        rw [hv1]; exact filter_mod (v := { v with choice := -1 }) hva h1 h2
      constructor
      · show p1.total - slashAmt v.power ratio = powerSum (p1.voters.filter _)
        rw [hvv, ht1, htot]; simp [powerSum]; omega
      · intro w hw
        have hw' : w ∈ p1.voters.filter (·.addr != addr) := hw
        rw [hvv] at hw'; exact hsane w hw'
    · simp only [hn, if_false]
      have hmap : (p1.voters.map fun w => if w.addr == addr then { w with power := v.power - slashAmt v.power ratio } else w)
          = l1 ++ { v with choice := -1, power := v.power - slashAmt v.power ratio } :: l2 := by
        rw [hv1]; exact map_mod _ (v := { v with choice := -1 }) hva h1 h2
      have ht1' : TotalOK { p1 with voters := p1.voters.map (fun w => if w.addr == addr then { w with power := v.power - slashAmt v.power ratio } else w),
                                    total := p1.total - slashAmt v.power ratio } := by
        constructor
        · show p1.total - slashAmt v.power ratio = powerSum (p1.voters.map _)
          rw [hmap, ht1, htot]; simp [powerSum]; omega
        · intro w hw
          have hw' : w ∈ p1.voters.map _ := hw
          rw [hmap] at hw'
          rcases mem_mid_of (v := v) hw' with h | h
          · subst h; exact ⟨by show 0 ≤ v.power - _; omega, by show v.power - _ < _; omega⟩
          · exact ht.sane w (by rw [hvs]; exact h)
      by_cases hc : v.choice ≥ 0
      · simp only [hc, if_true]
        constructor
        · show (Proposal.doVote _ addr v.choice).total - slashAmt v.power ratio = powerSum (Proposal.doVote _ addr v.choice).voters
          rw [(doVote_header _ addr v.choice).1, doVote_powerSum]
          exact ht1'.total
        · exact doVote_power_pred _ addr v.choice (fun x => 0 ≤ x ∧ x < (two64 : Int)) ht1'.sane
      · simp only [hc, if_false]
        exact ⟨ht1'.total, ht1'.sane⟩

/-! ### witness: a slash ratio above 100 breaks `total = Σ voter powers` -/

/-- one voter of power 10, total 10 -/
def witnessP : Proposal :=
  { hash := "aa", start := 1, end_ := 5, applying := 10, total := 10, majority := 6, optType := 257,
    voters := [{ addr := "v1", power := 10 }], options := [{ raw := "", parsedV := none, parsedA := none }] }

theorem witnessP_ok : PropOK witnessP ∧ TotalOK witnessP := by
  refine ⟨⟨by simp [DistinctAddrs, witnessP], by simp [witnessP], ?_, by decide⟩, ⟨by decide, by simp [witnessP, two64]⟩⟩
  intro j o ho
  match j with
  | 0 => simp [witnessP] at ho; subst ho; decide
  | j + 1 => simp [witnessP] at ho

/-- with `slashRatio = 200` the voter (power 10) is removed but `total` drops by 20: total = −10 ≠ 0 = Σ -/
theorem doPunish_total_witness :
    (witnessP.doPunish "v1" 200).1.total = -10 ∧ (witnessP.doPunish "v1" 200).1.voters = [] ∧
    ¬ TotalOK (witnessP.doPunish "v1" 200).1 := by
  have h : (witnessP.doPunish "v1" 200).1.total = -10 ∧ (witnessP.doPunish "v1" 200).1.voters = [] := by decide
  refine ⟨h.1, h.2, ?_⟩
  intro ht
  have := ht.total
  rw [h.1, h.2] at this
  simp [powerSum] at this

end Rigo.C15
