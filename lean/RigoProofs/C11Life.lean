/-
  C11/C12 helpers (5): the life-cycle invariant `Life` of stakes with a non-zero, unique key
  (bonded in exactly one delegatee, or unbonding, or refunded once and gone) and its preservation by
  the "release" moves (slashing, missed-block marks, jailing, unstaking incl. the forced release).
-/
import RigoProofs.C11Inv

namespace Rigo
open Delegatee

/-- the key a stake has in the unbonding ledger -/
def skey (st : Stake) : String := ledgerKey st.hash
/-- the key shared by all genesis stakes -/
def zeroKey : String := ledgerKey zeroHash

def BondedKey (c : Core) (k : String) : Prop :=
  ∃ (kd : String) (d : Delegatee) (st : Stake), c.dfin[kd]? = some d ∧ st ∈ d.stakes ∧ skey st = k

def Logged (c : Core) (k : String) : Prop := ∃ e ∈ c.refunds, ledgerKey e.1 = k

def logCount (c : Core) (k : String) : Nat := (c.refunds.filter (fun e => ledgerKey e.1 == k)).length

/-- life-cycle invariant, relative to the keys `U` of the stakes created so far and the ABCI phase -/
structure Life (U : List String) (p : Phase) (c : Core) : Prop where
  used : ∀ k, k ≠ zeroKey → (BondedKey c k ∨ c.ffin[k]? ≠ none ∨ Logged c k) → k ∈ U
  nodup : ∀ (kd : String) (d : Delegatee), c.dfin[kd]? = some d →
    ((d.stakes.map skey).filter (fun k => decide (k ≠ zeroKey))).Nodup
  across : ∀ (k1 k2 : String) (d1 d2 : Delegatee) (st1 st2 : Stake), c.dfin[k1]? = some d1 → c.dfin[k2]? = some d2 →
    st1 ∈ d1.stakes → st2 ∈ d2.stakes → skey st1 = skey st2 → skey st1 ≠ zeroKey → k1 = k2
  excl : ∀ (kd : String) (d : Delegatee) (st : Stake), c.dfin[kd]? = some d → st ∈ d.stakes →
    skey st ≠ zeroKey → c.ffin[skey st]? = none
  once : ∀ k, k ≠ zeroKey → logCount c k ≤ 1
  gone : ∀ k, k ≠ zeroKey → Logged c k → ¬ BondedKey c k ∧ c.ffin[k]? = none
  boundary : c.height = none → c.ffin = c.fcommitted ∧ (c.dfin = c.dcommitted ∨ c.dhist = [])
  idle : p = .idle → c.height = none
  inblock : p = .inBlock → ∀ (k : String) (st : Stake), k ≠ zeroKey → c.fcommitted[k]? = some st → c.ffin[k]? = some st

theorem Life.mono {U U' : List String} {p : Phase} {c : Core} (h : Life U p c) (hu : ∀ k ∈ U, k ∈ U') :
    Life U' p c :=
  { h with used := fun k hk hp => hu k (h.used k hk hp) }

/-- a descendant stake list: same keys, possibly fewer -/
def KeysSub (d' d : Delegatee) : Prop := (d'.stakes.map skey).Sublist (d.stakes.map skey)

theorem KeysSub.refl (d : Delegatee) : KeysSub d d := List.Sublist.refl _

theorem KeysSub.mem {d' d : Delegatee} (h : KeysSub d' d) {st' : Stake} (hst : st' ∈ d'.stakes) :
    ∃ st ∈ d.stakes, skey st = skey st' := by
  have : skey st' ∈ d.stakes.map skey := h.subset (List.mem_map_of_mem hst)
  simpa using this

theorem keysSub_of_sublist {d' d : Delegatee} (h : d'.stakes.Sublist d.stakes) : KeysSub d' d :=
  List.Sublist.map _ h

theorem doSlash_keysSub (d : Delegatee) (ratio : Int) : KeysSub (d.doSlash ratio).1 d := by
  have h := (doSlash_stakes_sublist d ratio).map skey
  unfold KeysSub
  have e : (d.stakes.map fun s => let sl := Int.tdiv (s.power * ratio) 100
      if sl < 1 then s else { s with power := s.power - sl }).map skey = d.stakes.map skey := by
    rw [List.map_map]
    apply List.map_congr_left
    intro s _
    simp only [Function.comp, skey]
    split <;> rfl
  rw [e] at h
  exact h

/-- the release move: some stakes `moved` of the delegatee stored under `K` go to the unbonding view,
    every delegatee keeps a sub-list of its stakes, nothing else changes -/
theorem Life.release {U : List String} {p : Phase} {c c' : Core} (h : Life U p c) (hh : c.height ≠ none)
    (K : String) (d : Delegatee) (moved : List Stake) (r : Int)
    (hd : c.dfin[K]? = some d) (hm : ∀ st ∈ moved, st ∈ d.stakes)
    (hdf : ∀ (k : String) (d' : Delegatee), c'.dfin[k]? = some d' → ∃ d0, c.dfin[k]? = some d0 ∧ KeysSub d' d0)
    (hK : ∀ (d' : Delegatee) (st' st : Stake), c'.dfin[K]? = some d' → st' ∈ d'.stakes → skey st' ≠ zeroKey →
      st ∈ moved → skey st ≠ skey st')
    (hff : c'.ffin = freezeFin c.ffin moved r) (hr : c'.refunds = c.refunds) (hfh : c'.fhist = c.fhist)
    (hht : c'.height = c.height) : Life U p c' := by
  have sub_mem : ∀ (kd : String) (d' : Delegatee) (st' : Stake), c'.dfin[kd]? = some d' → st' ∈ d'.stakes →
      ∃ d0 st0, c.dfin[kd]? = some d0 ∧ st0 ∈ d0.stakes ∧ skey st0 = skey st' := by
    intro kd d' st' h1 h2
    obtain ⟨d0, h3, h4⟩ := hdf kd d' h1
    obtain ⟨st0, h5, h6⟩ := h4.mem h2
    exact ⟨d0, st0, h3, h5, h6⟩
  have bk : ∀ k, BondedKey c' k → BondedKey c k := by
    rintro k ⟨kd, d', st', h1, h2, h3⟩
    obtain ⟨d0, st0, h4, h5, h6⟩ := sub_mem kd d' st' h1 h2
    exact ⟨kd, d0, st0, h4, h5, h6.trans h3⟩
  have moved_bk : ∀ st ∈ moved, BondedKey c (skey st) := fun st hst => ⟨K, d, st, hd, hm st hst, rfl⟩
  have lg : ∀ k, Logged c' k ↔ Logged c k := by intro k; unfold Logged; rw [hr]
  refine ⟨?_, ?_, ?_, ?_, ?_, ?_, ?_, ?_, ?_⟩
  · intro k hk hp
    rcases hp with hp | hp | hp
    · exact h.used k hk (Or.inl (bk k hp))
    · rw [hff, freezeFin_isSome] at hp
      rcases hp with hp | ⟨st, hst, rfl⟩
      · exact h.used k hk (Or.inr (Or.inl hp))
      · exact h.used _ hk (Or.inl (moved_bk st hst))
    · exact h.used k hk (Or.inr (Or.inr ((lg k).mp hp)))
  · intro kd d' h1
    obtain ⟨d0, h3, h4⟩ := hdf kd d' h1
    exact (h.nodup kd d0 h3).sublist (List.Sublist.filter _ h4)
  · intro k1 k2 d1 d2 st1 st2 h1 h2 m1 m2 he hz
    obtain ⟨e1, t1, a1, b1, c1⟩ := sub_mem k1 d1 st1 h1 m1
    obtain ⟨e2, t2, a2, b2, c2⟩ := sub_mem k2 d2 st2 h2 m2
    exact h.across k1 k2 e1 e2 t1 t2 a1 a2 b1 b2 (by rw [c1, c2, he]) (by rw [c1]; exact hz)
  · intro kd d' st' h1 h2 hz
    obtain ⟨d0, st0, h4, h5, h6⟩ := sub_mem kd d' st' h1 h2
    rw [hff, freezeFin_get_other]
    · rw [← h6]; exact h.excl kd d0 st0 h4 h5 (by rw [h6]; exact hz)
    · intro st hst he
      by_cases hkd : kd = K
      · subst hkd; exact hK d' st' st h1 h2 hz hst he
      · have := h.across K kd d d0 st st0 hd h4 (hm st hst) h5 (by rw [h6]; exact he) (by rw [show skey st = skey st' from he]; exact hz)
        exact hkd this.symm
  · intro k hk; unfold logCount; rw [hr]; exact h.once k hk
  · intro k hk hl
    obtain ⟨g1, g2⟩ := h.gone k hk ((lg k).mp hl)
    refine ⟨fun hb => g1 (bk k hb), ?_⟩
    rw [hff, freezeFin_get_other]
    · exact g2
    · intro st hst he
      exact g1 (he ▸ moved_bk st hst)
  · intro hn; rw [hht] at hn; exact absurd hn hh
  · intro hp; exact absurd (h.idle hp) hh
  · intro hp k st hk hc
    have hc' : c.fcommitted[k]? = some st := by unfold Core.fcommitted at hc ⊢; rw [← hfh]; exact hc
    have h1 := h.inblock hp k st hk hc'
    rw [hff, freezeFin_get_other]
    · exact h1
    · intro st' hst' he
      have := h.excl K d st' hd (hm st' hst') (by rw [show skey st' = k from he]; exact hk)
      rw [show skey st' = k from he, h1] at this
      cases this

end Rigo
