/-
  Basic lemmas (account views, arithmetic, validation) under `RigoProofs.TxCommon`: lemmas about `handleTx`
  C04 (nonces), C05 (failed transaction = no effect) and C16 (fees and gas).
-/
import Rigo.Reach
import RigoProofs.Reach
open Std

namespace Rigo

/-! ### map basics -/

theorem kmap_get_insert {α : Type} (m : KMap α) (k a : String) (v : α) :
    (m.insert k v)[a]? = if k = a then some v else m[a]? := by
  grind

theorem kmap_get_erase {α : Type} (m : KMap α) (k a : String) :
    (m.erase k)[a]? = if k = a then none else m[a]? := by
  grind

/-! ### consensus views of an account -/

/-- nonce of an optional account record (absent = 0) -/
def nonceOpt (o : Option Account) : Nat := (o.map (·.nonce)).getD 0
/-- balance of an optional account record (absent = 0) -/
def balOpt (o : Option Account) : Nat := (o.map (·.bal)).getD 0

/-- nonce of address `a` in the consensus (DeliverTx) view -/
def nonceOf (s : St) (a : Hex) : Nat := ((s.accts.fin[ledgerKey a]?).map (·.nonce)).getD 0
/-- balance of address `a` in the consensus (DeliverTx) view -/
def balOf (s : St) (a : Hex) : Nat := ((s.accts.fin[ledgerKey a]?).map (·.bal)).getD 0

theorem nonceOf_eq (s : St) (a : Hex) : nonceOf s a = nonceOpt s.accts.fin[ledgerKey a]? := rfl
theorem balOf_eq (s : St) (a : Hex) : balOf s a = balOpt s.accts.fin[ledgerKey a]? := rfl

/-- every account record is stored under the ledger key of its own address -/
def AddrOK (m : KMap Account) : Prop := ∀ (k : String) (a : Account), m[k]? = some a → ledgerKey a.addr = k

theorem AddrOK_insert {m : KMap Account} (h : AddrOK m) (a : Account) : AddrOK (m.insert (ledgerKey a.addr) a) := by
  intro k b hb
  rw [kmap_get_insert] at hb
  split at hb
  · simp at hb; subst hb; assumption
  · exact h k b hb

theorem AddrOK_empty : AddrOK ({} : KMap Account) := by
  intro k a h; simp at h

/-! ### `setAcct` / `findAcct` / `findOrNewAcct` on the DeliverTx path -/

@[simp] theorem findAcct_true (s : St) (a : Hex) : s.findAcct true a = s.accts.fin[ledgerKey a]? := by
  simp [St.findAcct, Led.get]

@[simp] theorem findAcct_false (s : St) (a : Hex) : s.findAcct false a = s.accts.chk[ledgerKey a]? := by
  simp [St.findAcct, Led.get]

theorem setAcct_true (s : St) (a : Account) :
    s.setAcct true a = { s with accts := { s.accts with fin := s.accts.fin.insert (ledgerKey a.addr) a } } := by
  simp [St.setAcct, Led.set]

theorem setAcct_false (s : St) (a : Account) :
    s.setAcct false a = { s with accts := { s.accts with chk := s.accts.chk.insert (ledgerKey a.addr) a } } := by
  simp [St.setAcct, Led.set]

@[simp] theorem setAcct_fin_get (s : St) (a : Account) (k : String) :
    (s.setAcct true a).accts.fin[k]? = if ledgerKey a.addr = k then some a else s.accts.fin[k]? := by
  rw [setAcct_true]; exact kmap_get_insert _ _ _ _

theorem nonceOf_setAcct (s : St) (a : Account) (x : Hex) :
    nonceOf (s.setAcct true a) x = if ledgerKey a.addr = ledgerKey x then a.nonce else nonceOf s x := by
  unfold nonceOf; rw [setAcct_fin_get]; split <;> simp

theorem balOf_setAcct (s : St) (a : Account) (x : Hex) :
    balOf (s.setAcct true a) x = if ledgerKey a.addr = ledgerKey x then a.bal else balOf s x := by
  unfold balOf; rw [setAcct_fin_get]; split <;> simp

/-- the state after `findOrNewAcct` on the DeliverTx path -/
theorem findOrNew_true (s : St) (a : Hex) :
    s.findOrNewAcct true a =
      match s.accts.fin[ledgerKey a]? with
      | some ac => (s, ac)
      | none => (s.setAcct true { addr := a }, { addr := a }) := by
  unfold St.findOrNewAcct
  rw [findAcct_true]
  split <;> simp_all

/-- the record `FindOrNewAccount` creates -/
def emptyAcct (a : Hex) : Account := { addr := a }

theorem findOrNew_fin_get (s : St) (a : Hex) (k : String) :
    (s.findOrNewAcct true a).1.accts.fin[k]? =
      if ledgerKey a = k ∧ s.accts.fin[k]? = none then some (emptyAcct a) else s.accts.fin[k]? := by
  rw [findOrNew_true]
  cases h : s.accts.fin[ledgerKey a]? with
  | some ac =>
    simp only
    split
    · next hh => rw [← hh.1, h] at hh; simp at hh
    · rfl
  | none =>
    simp only [setAcct_fin_get, emptyAcct]
    by_cases hk : ledgerKey a = k
    · subst hk; simp [h]
    · simp [hk]

theorem findOrNew_snd_get (s : St) (a : Hex) :
    (s.findOrNewAcct true a).1.accts.fin[ledgerKey a]? = some (s.findOrNewAcct true a).2 := by
  rw [findOrNew_true]
  cases h : s.accts.fin[ledgerKey a]? with
  | some ac => simp [h]
  | none => simp

/-- `findOrNewAcct` changes nothing but the consensus account map -/
theorem findOrNew_frame (s : St) (a : Hex) :
    (s.findOrNewAcct true a).1 = { s with accts := { s.accts with fin := (s.findOrNewAcct true a).1.accts.fin } } := by
  rw [findOrNew_true]
  cases h : s.accts.fin[ledgerKey a]? with
  | some ac => simp
  | none => simp [setAcct_true]

theorem nonceOf_findOrNew (s : St) (a x : Hex) : nonceOf (s.findOrNewAcct true a).1 x = nonceOf s x := by
  unfold nonceOf
  rw [findOrNew_fin_get]
  split
  · next h => simp [h.2, emptyAcct]
  · rfl

theorem balOf_findOrNew (s : St) (a x : Hex) : balOf (s.findOrNewAcct true a).1 x = balOf s x := by
  unfold balOf
  rw [findOrNew_fin_get]
  split
  · next h => simp [h.2, emptyAcct]
  · rfl

theorem AddrOK_findOrNew {s : St} (h : AddrOK s.accts.fin) (a : Hex) : AddrOK (s.findOrNewAcct true a).1.accts.fin := by
  intro k b hb
  rw [findOrNew_fin_get] at hb
  split at hb
  · next hh => simp at hb; subst hb; exact hh.1
  · exact h k b hb

/-! ### 256-bit arithmetic without wrap-around -/

/-- the governance gas price is small enough that `gas limit × price` cannot wrap or turn "negative" -/
def FeeSane (s : St) : Prop := s.active.gasPrice * 2 ^ 63 < 2 ^ 255

theorem wmul_fee_lt {p g : Nat} (hp : p * 2 ^ 63 < 2 ^ 255) (hg : g ≤ maxInt64) :
    wmul p g = p * g ∧ p * g < 2 ^ 255 := by
  have h1 : p * g ≤ p * 2 ^ 63 := Nat.mul_le_mul_left p (by unfold maxInt64 at hg; omega)
  have h2 : p * g < 2 ^ 255 := Nat.lt_of_le_of_lt h1 hp
  refine ⟨?_, h2⟩
  unfold wmul two256
  apply Nat.mod_eq_of_lt
  have : (2:Nat) ^ 255 < 2 ^ 256 := by decide
  omega

theorem isNeg256_false {a : Nat} : isNeg256 a = false ↔ a < 2 ^ 255 := by
  unfold isNeg256 two255; simp

theorem wsub_of_le {a b : Nat} (ha : a < 2 ^ 256) (h : b ≤ a) : wsub a b = a - b := by
  unfold wsub two256
  have hb : b % 2 ^ 256 = b := Nat.mod_eq_of_lt (by omega)
  rw [hb]
  have : a + 2 ^ 256 - b = (a - b) + 2 ^ 256 := by omega
  rw [this, Nat.add_mod_right]
  exact Nat.mod_eq_of_lt (by omega)

/-! ### validation -/

theorem cv0_ok {s : St} {exec : Bool} {tx : TxIn} (h : commonValidation0 s exec tx = .ok ()) :
    byteLen tx.from_ = 20 ∧ byteLen tx.to = 20 ∧ isNeg256 tx.amount = false ∧ tx.gas ≤ maxInt64 ∧
    isNeg256 tx.price = false ∧ tx.price = s.active.gasPrice ∧ s.active.minTrxFee ≤ wmul tx.price tx.gas ∧
    (exec = true → tx.sigOk = true) := by
  unfold commonValidation0 at h
  simp only [bind, Except.bind, pure, Except.pure, throw, throwThe, MonadExceptOf.throw] at h
  repeat' split at h
  all_goals first | (simp at h; done) | skip
  grind

theorem cv1_ok {sender : Account} {tx : TxIn} (h : commonValidation1 sender tx = .ok ()) :
    wadd (wmul tx.price tx.gas) tx.amount ≤ sender.bal ∧ sender.nonce = tx.nonce := by
  unfold commonValidation1 at h
  simp only [bind, Except.bind, pure, Except.pure, throw, throwThe, MonadExceptOf.throw] at h
  repeat' split at h
  all_goals first | (simp at h; done) | skip
  grind


/-- unfold a `Step` do-block hypothesis into its successful paths -/
macro "step_cases " h:ident : tactic =>
  `(tactic| (simp only [bind, Except.bind, pure, Except.pure, throw, throwThe, MonadExceptOf.throw,
               findAcct_true] at $h:ident
             repeat' split at $h:ident
             all_goals first | (simp at $h:ident; done) | skip))

theorem ofRes_ok {α : Type} {r : Res α} {v : α} (h : ofRes r = .ok v) : r = .ok v := by
  cases r <;> simp_all [ofRes]

theorem subBalance_some {a a' : Account} {amt : Nat} (h : subBalance a amt = some a') :
    isNeg256 amt = false ∧ amt ≤ a.bal ∧ a' = { a with bal := wsub a.bal amt } := by
  unfold subBalance at h
  split at h; · simp at h
  split at h; · simp at h
  simp at h
  refine ⟨by simp_all, by omega, h.symm⟩

theorem addBalance_some {a a' : Account} {amt : Nat} (h : addBalance a amt = some a') :
    isNeg256 amt = false ∧ a' = { a with bal := wadd a.bal amt } := by
  unfold addBalance at h
  split at h; · simp at h
  simp at h
  exact ⟨by simp_all, h.symm⟩

theorem subBalance_eq_some {a : Account} {amt : Nat} (h1 : isNeg256 amt = false) (h2 : amt ≤ a.bal) :
    subBalance a amt = some { a with bal := wsub a.bal amt } := by
  unfold subBalance
  simp [h1]; omega

theorem addBalance_eq_some {a : Account} {amt : Nat} (h1 : isNeg256 amt = false) :
    addBalance a amt = some { a with bal := wadd a.bal amt } := by
  unfold addBalance
  simp [h1]

theorem limit_ok {s : St} {exec : Bool} {a : Hex} {t d : Int} {s1 : St} (h : s.limit exec a t d = .ok s1) :
    ∃ l, s1 = { s with limiter := l } := by
  unfold St.limit at h
  split at h
  · split at h <;> simp at h
    exact ⟨_, h.symm⟩
  · simp at h; exact ⟨s.limiter, by rw [← h]⟩

/-- the per-type part of `validateTrx` -/
def typeValidate (s : St) (exec : Bool) (height : Int) (tx : TxIn) (receiver : Account) : Step St :=
  if tx.type = TRX_PROPOSAL then validateProposal s exec height tx
  else if tx.type = TRX_VOTING then validateVoting s exec height tx
  else if tx.type = TRX_TRANSFER then pure s
  else if tx.type = TRX_SETDOC then
    match tx.payload with
    | .setdoc _ _ nl ul => do
      if nl > MAX_ACCT_NAME then throw (.err "payloadparams")
      if ul > MAX_ACCT_NAME then throw (.err "payloadparams")
      pure s
    | _ => throw (.panic "type assertion: payload is not TrxPayloadSetDoc")
  else if tx.type = TRX_STAKING then validateStaking s exec tx
  else if tx.type = TRX_UNSTAKING then validateUnstaking s exec tx
  else if tx.type = TRX_WITHDRAW then validateWithdraw s exec tx
  else if tx.type = TRX_CONTRACT then validateEvm s tx receiver
  else throw (.err "unknowntype")

theorem validateTrx_eq (s : St) (exec : Bool) (h : Int) (tx : TxIn) (sender recv : Account) :
    validateTrx s exec h tx sender recv =
      (commonValidation0 s exec tx).bind fun _ => (commonValidation1 sender tx).bind fun _ =>
        typeValidate s exec h tx recv := by
  rfl

theorem validateTrx_ok {s : St} {exec : Bool} {h : Int} {tx : TxIn} {sender recv : Account} {s1 : St}
    (hv : validateTrx s exec h tx sender recv = .ok s1) :
    commonValidation0 s exec tx = .ok () ∧ commonValidation1 sender tx = .ok () ∧
    typeValidate s exec h tx recv = .ok s1 := by
  rw [validateTrx_eq] at hv
  cases h0 : commonValidation0 s exec tx with
  | error e => rw [h0] at hv; simp [Except.bind] at hv
  | ok u =>
    cases h1 : commonValidation1 sender tx with
    | error e => rw [h0, h1] at hv; simp [Except.bind] at hv
    | ok u' => rw [h0, h1] at hv; exact ⟨rfl, rfl, hv⟩

theorem validateStaking_ok {s : St} {exec : Bool} {tx : TxIn} {s1 : St} (h : validateStaking s exec tx = .ok s1) :
    (∃ l, s1 = { s with limiter := l }) ∧ (∃ p, amountToPower tx.amount = .ok p) ∧
    ((tx.from_ == tx.to) = true ∨ ∃ d, s.delegs.get exec (ledgerKey tx.to) = some d) := by
  unfold validateStaking at h
  step_cases h
  all_goals
    refine ⟨limit_ok h, ⟨_, ofRes_ok ‹ofRes (amountToPower tx.amount) = _›⟩, ?_⟩
    first
      | exact Or.inl ‹_›
      | exact Or.inr ⟨_, ‹s.delegs.get exec (ledgerKey tx.to) = some _›⟩


theorem validateUnstaking_ok {s : St} {exec : Bool} {tx : TxIn} {s1 : St} (h : validateUnstaking s exec tx = .ok s1) :
    (∃ l, s1 = { s with limiter := l }) ∧
    ∃ d hash st, s.delegs.get exec (ledgerKey tx.to) = some d ∧ tx.payload = .unstaking hash ∧
      byteLen hash = 32 ∧ d.findStake hash = some st ∧ tx.from_ = st.owner := by
  unfold validateUnstaking at h
  step_cases h
  refine ⟨limit_ok h, _, _, _, ‹s.delegs.get exec (ledgerKey tx.to) = some _›, ‹tx.payload = _›, ?_,
    ‹Delegatee.findStake _ _ = some _›, ?_⟩
  · rename_i h1 _ _ _ _; simpa using h1
  · rename_i h1; simpa using h1

theorem validateProposal_ok {s : St} {exec : Bool} {ht : Int} {tx : TxIn} {s1 : St}
    (h : validateProposal s exec ht tx = .ok s1) : s1 = s := by
  unfold validateProposal at h
  step_cases h
  simp at h; exact h.symm

theorem validateVoting_ok {s : St} {exec : Bool} {ht : Int} {tx : TxIn} {s1 : St}
    (h : validateVoting s exec ht tx = .ok s1) : s1 = s := by
  unfold validateVoting at h
  step_cases h
  simp at h; exact h.symm

theorem validateWithdraw_ok {s : St} {exec : Bool} {tx : TxIn} {s1 : St}
    (h : validateWithdraw s exec tx = .ok s1) : s1 = s := by
  unfold validateWithdraw at h
  step_cases h
  simp at h; exact h.symm

/-- call data of a contract transaction -/
def contractData (tx : TxIn) : Hex := match tx.payload with | .contract d => d | _ => ""

theorem validateEvm_ok {s : St} {tx : TxIn} {recv : Account} {s1 : St}
    (h : validateEvm s tx recv = .ok s1) :
    s1 = s ∧ intrinsicGas (contractData tx) (isZeroAddr tx.to) ≤ tx.gas := by
  have e : validateEvm s tx recv =
      (if tx.type ≠ TRX_CONTRACT ∧ recv.code == "" then .error (.err "unknowntype")
       else if tx.gas < intrinsicGas (contractData tx) (isZeroAddr tx.to) then .error (.err "gas") else .ok s) := rfl
  rw [e] at h
  split at h
  · simp at h
  · split at h
    · simp at h
    · rename_i h1
      simp at h
      exact ⟨h.symm, by omega⟩

/-- validation changes nothing but (for staking / unstaking) the limiter -/
theorem typeValidate_state {s : St} {exec : Bool} {ht : Int} {tx : TxIn} {recv : Account} {s1 : St}
    (h : typeValidate s exec ht tx recv = .ok s1) :
    (∃ l, s1 = { s with limiter := l }) ∧ (tx.type ≠ TRX_STAKING → tx.type ≠ TRX_UNSTAKING → s1 = s) := by
  have triv : ∀ {s1 : St}, s1 = s → (∃ l, s1 = { s with limiter := l }) ∧
      (tx.type ≠ TRX_STAKING → tx.type ≠ TRX_UNSTAKING → s1 = s) := by
    intro s1 e; subst e; exact ⟨⟨_, rfl⟩, fun _ _ => rfl⟩
  unfold typeValidate at h
  split at h
  · exact triv (validateProposal_ok h)
  split at h
  · exact triv (validateVoting_ok h)
  split at h
  · exact triv (by simp [pure, Except.pure] at h; exact h.symm)
  split at h
  · step_cases h
    exact triv (by simp at h; exact h.symm)
  split at h
  · exact ⟨(validateStaking_ok h).1, fun c => absurd ‹_› c⟩
  split at h
  · exact ⟨(validateUnstaking_ok h).1, fun _ c => absurd ‹_› c⟩
  split at h
  · exact triv (validateWithdraw_ok h)
  split at h
  · exact triv (validateEvm_ok h).1
  · simp [throw, throwThe, MonadExceptOf.throw] at h

end Rigo
