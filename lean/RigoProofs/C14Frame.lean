/-
  C14 — what the two punish folds of `beginBlock` touch (and what they leave alone).
-/
import RigoProofs.C14Slash
import RigoProofs.C14Gov
open Std

namespace Rigo.C14L

/-! ### the stake controller's fold -/

/-- the evidence fold of the stake controller, as written in `beginBlock` -/
def stakeFold (s : St) (E : List Hex) : St × List Int :=
  E.foldl (fun (acc, l) a =>
    match stakePunish acc a with
    | (acc', some sl) => (acc', l ++ [sl])
    | (acc', none) => (acc', l)) (s, [])

/-- the evidence fold of the governance controller, as written in `beginBlock` -/
def govFold (s : St) (E : List Hex) : St × List Int :=
  E.foldl (fun (acc, l) a => let (acc', sl) := govPunish acc a; (acc', l ++ [sl])) (s, [])

/-- evidence against an address unknown to the stake ledger is a no-op -/
theorem stakePunish_unknown (s : St) (a : Hex) (h : s.delegs.fin[ledgerKey a]? = none) :
    stakePunish s a = (s, none) := by
  unfold stakePunish Led.get; simp [h]

/-- one piece of evidence: exactly the named delegatee is replaced by its slashed version -/
theorem stakePunish_known (s : St) (a : Hex) (d : Delegatee) (h : s.delegs.fin[ledgerKey a]? = some d) :
    stakePunish s a =
      ({ s with delegs := { s.delegs with fin := s.delegs.fin.insert (ledgerKey a) (d.doSlash s.active.slashRatio).1 } },
       some (d.doSlash s.active.slashRatio).2) := by
  unfold stakePunish Led.get Led.set; simp [h]

/-- everything but the consensus view of the delegatee ledger at the named key is untouched -/
theorem stakePunish_frame (s : St) (a : Hex) :
    let s' := (stakePunish s a).1
    s'.accts = s.accts ∧ s'.frozen = s.frozen ∧ s'.rewards = s.rewards ∧ s'.props = s.props ∧ s'.fprops = s.fprops ∧
    s'.params = s.params ∧ s'.active = s.active ∧ s'.lastVals = s.lastVals ∧ s'.allDelegs = s.allDelegs ∧
    s'.limiter = s.limiter ∧ s'.blk = s.blk ∧
    s'.delegs.hist = s.delegs.hist ∧ s'.delegs.chk = s.delegs.chk ∧
    ∀ k : String, k ≠ ledgerKey a → s'.delegs.fin[k]? = s.delegs.fin[k]? := by
  intro s'
  cases h : s.delegs.fin[ledgerKey a]? with
  | none =>
    have : s' = s := by simp only [s', stakePunish_unknown s a h]
    rw [this]; simp
  | some d =>
    have : s' = { s with delegs := { s.delegs with fin := s.delegs.fin.insert (ledgerKey a) (d.doSlash s.active.slashRatio).1 } } := by
      simp only [s', stakePunish_known s a d h]
    rw [this]
    refine ⟨rfl, rfl, rfl, rfl, rfl, rfl, rfl, rfl, rfl, rfl, rfl, rfl, rfl, ?_⟩
    intro k hk
    simp [ExtTreeMap.getElem?_insert, Ne.symm hk]

/-- **slash_frame (stake part)**: the evidence fold changes, in the consensus view of the delegatee
    ledger, only entries whose key is the key of an address named in the evidence; it does not touch
    accounts, unbonding stakes, rewards, proposals, parameters, the committed history or the mempool view. -/
theorem stakeFold_frame (E : List Hex) (s : St) :
    let s' := (stakeFold s E).1
    s'.accts = s.accts ∧ s'.frozen = s.frozen ∧ s'.rewards = s.rewards ∧ s'.props = s.props ∧ s'.fprops = s.fprops ∧
    s'.params = s.params ∧ s'.active = s.active ∧ s'.lastVals = s.lastVals ∧ s'.allDelegs = s.allDelegs ∧
    s'.limiter = s.limiter ∧ s'.blk = s.blk ∧
    s'.delegs.hist = s.delegs.hist ∧ s'.delegs.chk = s.delegs.chk ∧
    ∀ k : String, (∀ a ∈ E, k ≠ ledgerKey a) → s'.delegs.fin[k]? = s.delegs.fin[k]? := by
  unfold stakeFold
  have key : ∀ (E : List Hex) (s : St) (l : List Int),
      let s' := (E.foldl (fun (acc, l) a =>
        match stakePunish acc a with
        | (acc', some sl) => (acc', l ++ [sl])
        | (acc', none) => (acc', l)) (s, l)).1
      s'.accts = s.accts ∧ s'.frozen = s.frozen ∧ s'.rewards = s.rewards ∧ s'.props = s.props ∧ s'.fprops = s.fprops ∧
      s'.params = s.params ∧ s'.active = s.active ∧ s'.lastVals = s.lastVals ∧ s'.allDelegs = s.allDelegs ∧
      s'.limiter = s.limiter ∧ s'.blk = s.blk ∧
      s'.delegs.hist = s.delegs.hist ∧ s'.delegs.chk = s.delegs.chk ∧
      ∀ k : String, (∀ a ∈ E, k ≠ ledgerKey a) → s'.delegs.fin[k]? = s.delegs.fin[k]? := by
    intro E
    induction E with
    | nil => intro s l; simp
    | cons a E ih =>
      intro s l
      rw [List.foldl_cons]
      have hf := stakePunish_frame s a
      have hstep : ∃ l', (match stakePunish s a with
          | (acc', some sl) => (acc', l ++ [sl])
          | (acc', none) => (acc', l)) = ((stakePunish s a).1, l') := by
        rcases hsp : stakePunish s a with ⟨acc', _ | sl⟩
        · exact ⟨l, rfl⟩
        · exact ⟨l ++ [sl], rfl⟩
      obtain ⟨l', hl'⟩ := hstep
      simp only at hl' ⊢
      rw [hl']
      have ih' := ih (stakePunish s a).1 l'
      simp only at ih' hf
      obtain ⟨h1, h2, h3, h4, h5, h6, h7, h8, h9, h10, h11, h12, h13, h14⟩ := ih'
      obtain ⟨g1, g2, g3, g4, g5, g6, g7, g8, g9, g10, g11, g12, g13, g14⟩ := hf
      refine ⟨h1.trans g1, h2.trans g2, h3.trans g3, h4.trans g4, h5.trans g5, h6.trans g6, h7.trans g7, h8.trans g8,
        h9.trans g9, h10.trans g10, h11.trans g11, h12.trans g12, h13.trans g13, ?_⟩
      intro k hk
      rw [h14 k (fun a' ha' => hk a' (List.mem_cons_of_mem _ ha')), g14 k (hk a (by simp))]
  exact key E s []

/-! ### the governance controller's fold -/

/-- keys of the committed open proposals that list the validator as a voter -/
def govTargets (s : St) (addr : Hex) : List String :=
  (s.props.committed.toList.filter fun (_, p) => p.voters.any (·.addr == addr)).map (·.1)

theorem govTargets_nodup (s : St) (addr : Hex) : (govTargets s addr).Nodup := by
  unfold govTargets
  have h := ExtTreeMap.distinct_keys_toList (t := s.props.committed)
  have h2 := List.Pairwise.sublist (List.filter_sublist (p := fun (x : String × Proposal) => x.2.voters.any (·.addr == addr))) h
  unfold List.Nodup
  rw [List.pairwise_map]
  exact h2.imp (fun {a b} hab e => hab (by rw [e]; exact Std.ReflCmp.compare_self))

/-- one step of the governance fold -/
def govStep (addr : Hex) (acc : St × Int) (k : String) : St × Int :=
  match acc.1.props.get true k with
  | none => acc
  | some p =>
    let r := p.doPunish addr acc.1.active.slashRatio
    ({ acc.1 with props := acc.1.props.set true k r.1 }, acc.2 + r.2)

theorem govPunish_eq (s : St) (addr : Hex) : govPunish s addr = (govTargets s addr).foldl (govStep addr) (s, 0) := by
  unfold govPunish govTargets
  congr 1

theorem govStep_fold_frame (addr : Hex) (ts : List String) (hnd : ts.Nodup) (acc : St × Int) :
    let s := acc.1
    let s' := (ts.foldl (govStep addr) acc).1
    s'.accts = s.accts ∧ s'.delegs = s.delegs ∧ s'.frozen = s.frozen ∧ s'.rewards = s.rewards ∧ s'.fprops = s.fprops ∧
    s'.params = s.params ∧ s'.active = s.active ∧ s'.lastVals = s.lastVals ∧ s'.allDelegs = s.allDelegs ∧
    s'.limiter = s.limiter ∧ s'.blk = s.blk ∧ s'.lastHeight = s.lastHeight ∧
    s'.props.hist = s.props.hist ∧ s'.props.chk = s.props.chk ∧
    ∀ k : String, s'.props.fin[k]? =
      if k ∈ ts then (s.props.fin[k]?).map (fun p => (p.doPunish addr s.active.slashRatio).1) else s.props.fin[k]? := by
  induction ts generalizing acc with
  | nil => simp
  | cons t ts ih =>
    intro s s'
    have hnd' := (List.nodup_cons.mp hnd).2
    have hnt := (List.nodup_cons.mp hnd).1
    have ih' := ih hnd' (govStep addr acc t)
    simp only at ih'
    have hs' : s' = (ts.foldl (govStep addr) (govStep addr acc t)).1 := rfl
    rw [hs']
    obtain ⟨h1, h2, h3, h4, h5, h6, h7, h8, h9, h10, h11, h12, h13, h14, h15⟩ := ih'
    cases hg : acc.1.props.fin[t]? with
    | none =>
      have hstep : govStep addr acc t = acc := by unfold govStep Led.get; simp [hg]
      rw [hstep] at h1 h2 h3 h4 h5 h6 h7 h8 h9 h10 h11 h12 h13 h14 h15 ⊢
      refine ⟨h1, h2, h3, h4, h5, h6, h7, h8, h9, h10, h11, h12, h13, h14, ?_⟩
      intro k
      rw [h15 k]
      by_cases hk : k = t
      · subst hk; simp [hnt, hg, s]
      · simp [hk, s]
    | some p =>
      have hstep : govStep addr acc t =
          ({ acc.1 with props := { acc.1.props with fin := acc.1.props.fin.insert t (p.doPunish addr acc.1.active.slashRatio).1 } },
            acc.2 + (p.doPunish addr acc.1.active.slashRatio).2) := by
        unfold govStep Led.get Led.set; simp [hg]
      rw [hstep] at h1 h2 h3 h4 h5 h6 h7 h8 h9 h10 h11 h12 h13 h14 h15 ⊢
      refine ⟨h1, h2, h3, h4, h5, h6, h7, h8, h9, h10, h11, h12, h13, h14, ?_⟩
      intro k
      rw [h15 k]
      by_cases hk : k = t
      · subst hk; simp [hnt, hg, s]
      · have hk' : ¬ t = k := fun e => hk e.symm
        simp [hk, hk', s, ExtTreeMap.getElem?_insert]

/-- **slash_frame (governance part)**: punishing a validator in the governance controller changes only the
    consensus view of the proposal ledger, and there exactly the open proposals (as committed) that list the
    validator as a voter: each is replaced by its `doPunish` (see `gov_punish_exact`). -/
theorem govPunish_frame (s : St) (addr : Hex) :
    let s' := (govPunish s addr).1
    s'.accts = s.accts ∧ s'.delegs = s.delegs ∧ s'.frozen = s.frozen ∧ s'.rewards = s.rewards ∧ s'.fprops = s.fprops ∧
    s'.params = s.params ∧ s'.active = s.active ∧ s'.lastVals = s.lastVals ∧ s'.allDelegs = s.allDelegs ∧
    s'.limiter = s.limiter ∧ s'.blk = s.blk ∧ s'.lastHeight = s.lastHeight ∧
    s'.props.hist = s.props.hist ∧ s'.props.chk = s.props.chk ∧
    ∀ k : String, s'.props.fin[k]? =
      if k ∈ govTargets s addr then (s.props.fin[k]?).map (fun p => (p.doPunish addr s.active.slashRatio).1)
      else s.props.fin[k]? := by
  rw [govPunish_eq]
  exact govStep_fold_frame addr (govTargets s addr) (govTargets_nodup s addr) (s, 0)

/-- the governance evidence fold never touches accounts, bonded or unbonding stakes, rewards, parameters -/
theorem govFold_frame (E : List Hex) (s : St) :
    let s' := (govFold s E).1
    s'.accts = s.accts ∧ s'.delegs = s.delegs ∧ s'.frozen = s.frozen ∧ s'.rewards = s.rewards ∧ s'.fprops = s.fprops ∧
    s'.params = s.params ∧ s'.active = s.active ∧ s'.lastVals = s.lastVals ∧ s'.allDelegs = s.allDelegs ∧
    s'.limiter = s.limiter ∧ s'.blk = s.blk ∧ s'.lastHeight = s.lastHeight ∧
    s'.props.hist = s.props.hist ∧ s'.props.chk = s.props.chk := by
  unfold govFold
  have key : ∀ (E : List Hex) (s : St) (l : List Int),
      let s' := (E.foldl (fun (acc, l) a => let (acc', sl) := govPunish acc a; (acc', l ++ [sl])) (s, l)).1
      s'.accts = s.accts ∧ s'.delegs = s.delegs ∧ s'.frozen = s.frozen ∧ s'.rewards = s.rewards ∧ s'.fprops = s.fprops ∧
      s'.params = s.params ∧ s'.active = s.active ∧ s'.lastVals = s.lastVals ∧ s'.allDelegs = s.allDelegs ∧
      s'.limiter = s.limiter ∧ s'.blk = s.blk ∧ s'.lastHeight = s.lastHeight ∧
      s'.props.hist = s.props.hist ∧ s'.props.chk = s.props.chk := by
    intro E
    induction E with
    | nil => intro s l; simp
    | cons a E ih =>
      intro s l
      rw [List.foldl_cons]
      have hf := govPunish_frame s a
      have ih' := ih (govPunish s a).1 (l ++ [(govPunish s a).2])
      simp only at ih' hf ⊢
      obtain ⟨h1, h2, h3, h4, h5, h6, h7, h8, h9, h10, h11, h12, h13, h14⟩ := ih'
      obtain ⟨g1, g2, g3, g4, g5, g6, g7, g8, g9, g10, g11, g12, g13, g14, _⟩ := hf
      exact ⟨h1.trans g1, h2.trans g2, h3.trans g3, h4.trans g4, h5.trans g5, h6.trans g6, h7.trans g7, h8.trans g8,
        h9.trans g9, h10.trans g10, h11.trans g11, h12.trans g12, h13.trans g13, h14.trans g14⟩
  exact key E s []

/-! ### the punish phase inside `beginBlock` -/

/-- state after the governance punish fold of `beginBlock` -/
def afterGovPunish (s : St) (h : Header) : St × List Int :=
  govFold { s with blk := some { height := h.height, time := h.time, proposer := h.proposer } } h.evidence

/-- the eligible delegatees `beginBlock` computes: committed delegatees with `self ≥ minPower`, power-sorted -/
def eligible (s : St) (minPower : Int) : List Delegatee :=
  sortByPower ((s.delegs.committed.toList.map (·.2)).filter fun d => d.self ≥ minPower)

/-- state after both punish folds (and the limiter reset in between) -/
def afterPunish (s : St) (h : Header) (minPower : Int) : St × List Int :=
  let sg := (afterGovPunish s h).1
  let all := eligible sg minPower
  stakeFold { sg with allDelegs := all,
                      limiter := Limiter.reset all sg.active.maxValidatorCnt sg.active.maxIndividualStakeRatio sg.active.maxUpdatableStakeRatio }
    h.evidence

theorem afterGovPunish_active (s : St) (h : Header) : (afterGovPunish s h).1.active = s.active :=
  (govFold_frame h.evidence _).2.2.2.2.2.2.1

/-- the reward / missed-block phase of `beginBlock`, verbatim -/
def votePhase (s : St) (h : Header) (punishS punishG : List Int) : St × Out :=
  if h.votes.isEmpty then (s, { punishG := punishG }) else
  let hop : Int := if h.height - 4 < 0 then 1 else h.height - 4
  match s.delegs.at? hop with
  | none => (s, { panic := "BeginBlock: reward ledger version does not exist" })
  | some rl =>
    let r := h.votes.foldl (fun acc v =>
      match acc with
      | .panic p => .panic p
      | .ok (s, issued) => processVote s h.height rl v issued) (Res.ok (s, 0))
    match r with
    | .panic p => (s, { panic := p })
    | .ok (s', issued) => (s', { issued := some issued, punishS := punishS, punishG := punishG })

/-- `beginBlock` split into its phases -/
theorem beginBlock_phases (s : St) (h : Header) (hh : h.height = s.lastHeight + 1) :
    beginBlock s h =
      match amountToPower (afterGovPunish s h).1.active.minValidatorStake with
      | .panic p => ((afterGovPunish s h).1, { panic := p })
      | .ok minPower => votePhase (afterPunish s h minPower).1 h (afterPunish s h minPower).2 (afterGovPunish s h).2 := by
  unfold beginBlock
  rw [if_neg (by simp [hh])]
  rfl

/-- `beginBlock` without votes is exactly the punish phase -/
theorem beginBlock_no_votes (s : St) (h : Header) (hh : h.height = s.lastHeight + 1) (hv : h.votes = [])
    (minPower : Int) (hmp : amountToPower s.active.minValidatorStake = .ok minPower) :
    (beginBlock s h).1 = (afterPunish s h minPower).1 := by
  rw [beginBlock_phases s h hh, afterGovPunish_active, hmp]
  simp [votePhase, hv]

/-- **slash_frame** at block level (a block whose `LastCommitInfo` carries no votes, so that only the punish
    phase runs): `beginBlock` with evidence list `E` changes, in the consensus view of the delegatee ledger,
    only entries keyed by an address in `E`; accounts, unbonding stakes, rewards are untouched. -/
theorem slash_frame_block (s : St) (h : Header) (hh : h.height = s.lastHeight + 1) (hv : h.votes = [])
    (minPower : Int) (hmp : amountToPower s.active.minValidatorStake = .ok minPower) :
    let s' := (beginBlock s h).1
    s'.accts = s.accts ∧ s'.frozen = s.frozen ∧ s'.rewards = s.rewards ∧ s'.params = s.params ∧ s'.active = s.active ∧
    s'.delegs.hist = s.delegs.hist ∧ s'.delegs.chk = s.delegs.chk ∧
    ∀ k : String, (∀ a ∈ h.evidence, k ≠ ledgerKey a) → s'.delegs.fin[k]? = s.delegs.fin[k]? := by
  intro s'
  have e : s' = (afterPunish s h minPower).1 := beginBlock_no_votes s h hh hv minPower hmp
  rw [e]
  unfold afterPunish
  have hg := govFold_frame h.evidence { s with blk := some { height := h.height, time := h.time, proposer := h.proposer } }
  have hs := stakeFold_frame h.evidence
    { (afterGovPunish s h).1 with
        allDelegs := eligible (afterGovPunish s h).1 minPower,
        limiter := Limiter.reset (eligible (afterGovPunish s h).1 minPower) (afterGovPunish s h).1.active.maxValidatorCnt
          (afterGovPunish s h).1.active.maxIndividualStakeRatio (afterGovPunish s h).1.active.maxUpdatableStakeRatio }
  simp only at hg hs ⊢
  obtain ⟨g1, g2, g3, g4, g5, g6, g7, g8, g9, g10, g11, g12, g13, g14⟩ := hg
  obtain ⟨h1, h2, h3, h4, h5, h6, h7, h8, h9, h10, h11, h12, h13, h14⟩ := hs
  unfold afterGovPunish at *
  refine ⟨h1.trans g1, h2.trans g3, h3.trans g4, h6.trans g6, h7.trans g7, ?_, ?_, ?_⟩
  · rw [h12, g2]
  · rw [h13, g2]
  · intro k hk; rw [h14 k hk, g2]

end Rigo.C14L
