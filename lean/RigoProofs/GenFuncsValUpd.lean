/-
  Equality theorem for the generated `Rigo.Gen.validatorUpdates` (the index-based merge loop of
  `ctrlers/stake:validatorUpdates`, three fuel-bounded `for` loops) and the model's structural
  merge-diff `Rigo.validatorUpdates`.  No hypothesis (sortedness is not needed: the model mirrors the
  Go code on every input).

  Technique: a fuel loop `for _ in List.range n` whose body ignores the element and whose state
  carries a `done` flag is a bounded iteration `iter step n` of a pure step function on `Nat`
  indices (`forIn_fuel`); the iteration is then related to the model by induction on the fuel.
-/
import RigoProofs.GenFuncsLoops

namespace Rigo.GenEq
open Rigo Rigo.Gen

/-! ### fuel loops -/

/-- bounded iteration of a pure step function; the flag tells whether the loop ended by `break` -/
def iter {τ : Type} (step : τ → ForInStep τ) : Nat → τ → τ × Bool
  | 0, t => (t, false)
  | k + 1, t =>
    match step t with
    | .yield t' => iter step k t'
    | .done t' => (t', true)

/-- loop rule for fuel loops: the body ignores the element; from a state `emb t false` it either
    continues with `emb t' false` or breaks with `emb t' true`, as the pure `step` says. -/
theorem forIn_fuel {α σ τ : Type} (f : α → σ → G (ForInStep σ)) (emb : τ → Bool → σ)
    (step : τ → ForInStep τ)
    (h : ∀ x t, f x (emb t false) = pure (match step t with
        | .yield t' => .yield (emb t' false) | .done t' => .done (emb t' true)))
    (xs : List α) (t : τ) :
    forIn xs (emb t false) f = pure (emb (iter step xs.length t).1 (iter step xs.length t).2) := by
  induction xs generalizing t with
  | nil => simp [iter]
  | cons x xs ih =>
    rw [List.forIn_cons, h]
    simp only [List.length_cons, iter]
    cases step t with
    | yield t' => simp [ih]
    | done t' => simp

/-! ### the pure steps of the three loops -/

/-- state embedding of loop 1: `(valUpdates, i, j, done)` -/
@[reducible] def emb1 (t : List ValUpdate × Nat × Nat) (d : Bool) : List (Hex × Int) × Int × Int × Bool :=
  (t.1, (t.2.1 : Int), (t.2.2 : Int), d)

/-- state embedding of loops 2 and 3: `(valUpdates, i, done)` -/
@[reducible] def emb2 (t : List ValUpdate × Nat) (d : Bool) : List (Hex × Int) × Int × Bool :=
  (t.1, (t.2 : Int), d)

/-- one round of the merge loop -/
def step1 (es ns : List Delegatee) (t : List ValUpdate × Nat × Nat) :
    ForInStep (List ValUpdate × Nat × Nat) :=
  match es[t.2.1]?, ns[t.2.2]? with
  | some a, some b =>
    if a.addr < b.addr then .yield (t.1 ++ [(a.pub, 0)], t.2.1 + 1, t.2.2)
    else if a.addr = b.addr then
      if a.total ≠ b.total then .yield (t.1 ++ [(b.pub, b.total)], t.2.1 + 1, t.2.2 + 1)
      else .yield (t.1, t.2.1 + 1, t.2.2 + 1)
    else .yield (t.1 ++ [(b.pub, b.total)], t.2.1, t.2.2 + 1)
  | _, _ => .done t

/-- one round of a tail loop (loops 2 and 3) -/
def stepT (l : List Delegatee) (g : Delegatee → ValUpdate) (t : List ValUpdate × Nat) :
    ForInStep (List ValUpdate × Nat) :=
  match l[t.2]? with
  | some a => .yield (t.1 ++ [g a], t.2 + 1)
  | none => .done t

/-! ### the iterations and the model -/

theorem vu_nil_left (ns : List Delegatee) :
    Rigo.validatorUpdates [] ns = ns.map fun n => (n.pub, n.total) := by
  rw [Rigo.validatorUpdates]

theorem vu_nil_right (es : List Delegatee) :
    Rigo.validatorUpdates es [] = es.map fun e => (e.pub, 0) := by
  cases es with
  | nil => rw [Rigo.validatorUpdates]; rfl
  | cons e es => rw [Rigo.validatorUpdates]; intro h; cases h

theorem vu_cons_cons (e : Delegatee) (es : List Delegatee) (n : Delegatee) (ns : List Delegatee) :
    Rigo.validatorUpdates (e :: es) (n :: ns) =
      if e.addr < n.addr then (e.pub, 0) :: Rigo.validatorUpdates es (n :: ns)
      else if e.addr = n.addr then
        if e.total ≠ n.total then (n.pub, n.total) :: Rigo.validatorUpdates es ns
        else Rigo.validatorUpdates es ns
      else (n.pub, n.total) :: Rigo.validatorUpdates (e :: es) ns := by
  rw [Rigo.validatorUpdates]
  simp only [beq_iff_eq]

/-- with enough fuel the merge loop ends by `break`, one of the indices is at the end, and the
    part of the model's result that is still to be produced is the model on the two rests -/
theorem iter1_spec (es ns : List Delegatee) (k : Nat) (acc : List ValUpdate) (i j : Nat)
    (hk : (es.length - i) + (ns.length - j) + 1 ≤ k) :
    (iter (step1 es ns) k (acc, i, j)).2 = true ∧
    (es.length ≤ (iter (step1 es ns) k (acc, i, j)).1.2.1 ∨
      ns.length ≤ (iter (step1 es ns) k (acc, i, j)).1.2.2) ∧
    (iter (step1 es ns) k (acc, i, j)).1.1 ++
        Rigo.validatorUpdates (es.drop (iter (step1 es ns) k (acc, i, j)).1.2.1)
          (ns.drop (iter (step1 es ns) k (acc, i, j)).1.2.2) =
      acc ++ Rigo.validatorUpdates (es.drop i) (ns.drop j) := by
  induction k generalizing acc i j with
  | zero => omega
  | succ k ih =>
    by_cases hi : i < es.length
    · by_cases hj : j < ns.length
      · have he : es[i]? = some es[i] := List.getElem?_eq_getElem hi
        have hn : ns[j]? = some ns[j] := List.getElem?_eq_getElem hj
        have de : es.drop i = es[i] :: es.drop (i + 1) := List.drop_eq_getElem_cons hi
        have dn : ns.drop j = ns[j] :: ns.drop (j + 1) := List.drop_eq_getElem_cons hj
        rw [de, dn, vu_cons_cons, ← dn, ← de]
        simp only [iter, step1, he, hn]
        by_cases c1 : es[i].addr < ns[j].addr
        · simp only [if_pos c1]
          have := ih (acc ++ [(es[i].pub, 0)]) (i + 1) j (by omega)
          simpa using this
        · simp only [if_neg c1]
          by_cases c2 : es[i].addr = ns[j].addr
          · simp only [if_pos c2]
            by_cases c3 : es[i].total ≠ ns[j].total
            · simp only [if_pos c3]
              have := ih (acc ++ [(ns[j].pub, ns[j].total)]) (i + 1) (j + 1) (by omega)
              simpa using this
            · simp only [if_neg c3]
              exact ih acc (i + 1) (j + 1) (by omega)
          · simp only [if_neg c2]
            have := ih (acc ++ [(ns[j].pub, ns[j].total)]) i (j + 1) (by omega)
            simpa using this
      · have hn : ns[j]? = none := List.getElem?_eq_none (by omega)
        have : step1 es ns (acc, i, j) = .done (acc, i, j) := by
          simp only [step1, hn]; split <;> simp_all
        simp only [iter, this]
        exact ⟨trivial, Or.inr (by omega), trivial⟩
    · have he : es[i]? = none := List.getElem?_eq_none (by omega)
      have : step1 es ns (acc, i, j) = .done (acc, i, j) := by
        simp only [step1, he]
      simp only [iter, this]
      exact ⟨trivial, Or.inl (by omega), trivial⟩

/-- with enough fuel a tail loop ends by `break` and has appended the rest of the list -/
theorem iterT_spec (l : List Delegatee) (g : Delegatee → ValUpdate) (k : Nat)
    (acc : List ValUpdate) (i : Nat) (hk : (l.length - i) + 1 ≤ k) :
    (iter (stepT l g) k (acc, i)).2 = true ∧
    (iter (stepT l g) k (acc, i)).1.1 = acc ++ (l.drop i).map g := by
  induction k generalizing acc i with
  | zero => omega
  | succ k ih =>
    by_cases hi : i < l.length
    · have he : l[i]? = some l[i] := List.getElem?_eq_getElem hi
      have de : l.drop i = l[i] :: l.drop (i + 1) := List.drop_eq_getElem_cons hi
      simp only [iter, stepT, he]
      have := ih (acc ++ [g l[i]]) (i + 1) (by omega)
      rw [de]
      simp only [List.map_cons, List.append_assoc, List.singleton_append] at this ⊢
      exact this
    · have he : l[i]? = none := List.getElem?_eq_none (by omega)
      have hd : l.drop i = [] := List.drop_eq_nil_of_le (by omega)
      simp [iter, stepT, he, hd]

/-- when one of the lists is exhausted the model is the two tail loops -/
theorem vu_tails (es ns : List Delegatee) (h : es = [] ∨ ns = []) :
    Rigo.validatorUpdates es ns =
      (es.map fun e => (e.pub, (0 : Int))) ++ (ns.map fun n => (n.pub, n.total)) := by
  rcases h with h | h
  · subst h; rw [vu_nil_left]; simp
  · subst h; rw [vu_nil_right]; simp

/-! ### the bodies of the generated loops -/

theorem gidx_getElem {α : Type} (xs : List α) (i : Nat) (h : i < xs.length) :
    gidx xs (i : Int) = .ok xs[i] := gidx_eq xs i _ (List.getElem?_eq_getElem h)

/-! ### `validatorUpdates` -/

/-- the generated merge loop never panics and computes the model's merge-diff, on every input -/
theorem validatorUpdates_eq (existing newers : List Delegatee) :
    Rigo.Gen.validatorUpdates existing newers = .ok (Rigo.validatorUpdates existing newers) := by
  unfold Rigo.Gen.validatorUpdates
  dsimp only
  have h0 : (([] : List (Hex × Int)), (0 : Int), (0 : Int), false) = emb1 ([], 0, 0) false := rfl
  rw [h0, forIn_fuel _ emb1 (step1 existing newers) ?h1 _ ([], 0, 0)]
  case h1 =>
    intro x ⟨acc, i, j⟩
    simp only [emb1, step1]
    by_cases hi : i < existing.length
    · by_cases hj : j < newers.length
      · have he : existing[i]? = some existing[i] := List.getElem?_eq_getElem hi
        have hn : newers[j]? = some newers[j] := List.getElem?_eq_getElem hj
        have c : ((i : Int) < (existing.length : Int) ∧ (j : Int) < (newers.length : Int)) := by omega
        simp only [he, hn, c, gidx_getElem _ _ hi, gidx_getElem _ _ hj,
          bytes_Compare_eq, mkValUpdate, bind, Except.bind, pure, Except.pure, cmpBytes_neg,
          cmpBytes_eq_zero]
        by_cases c1 : existing[i].addr < newers[j].addr
        · simp [c1]
        · by_cases c2 : existing[i].addr = newers[j].addr
          · by_cases c3 : existing[i].total = newers[j].total <;> simp [c2, c3]
          · simp [c1, c2]
      · have hn : newers[j]? = none := List.getElem?_eq_none (by omega)
        have c : ¬ ((i : Int) < (existing.length : Int) ∧ (j : Int) < (newers.length : Int)) := by omega
        simp only [hn, c, not_false_eq_true, if_true]
        cases existing[i]? <;> rfl
    · have he : existing[i]? = none := List.getElem?_eq_none (by omega)
      have c : ¬ ((i : Int) < (existing.length : Int) ∧ (j : Int) < (newers.length : Int)) := by omega
      simp only [he, c, not_false_eq_true, if_true]
  obtain ⟨hd, hor, hacc⟩ := iter1_spec existing newers
    (List.range ((existing.length : Int) + (newers.length : Int) + 1).toNat).length [] 0 0
    (by simp only [List.length_range]; omega)
  generalize iter (step1 existing newers) (List.range _).length ([], 0, 0) = r at hd hor hacc ⊢
  obtain ⟨⟨acc1, i1, j1⟩, d1⟩ := r
  simp only at hd hor hacc
  subst hd
  simp only [pure_bind, emb1, not_true_eq_false, if_false]
  -- loop 2
  have h2 : (acc1, (i1 : Int), false) = emb2 (acc1, i1) false := rfl
  rw [h2, forIn_fuel _ emb2 (stepT existing (fun e => (e.pub, 0))) ?h2 _ (acc1, i1)]
  case h2 =>
    intro x ⟨acc, i⟩
    simp only [emb2, stepT]
    by_cases hi : i < existing.length
    · have he : existing[i]? = some existing[i] := List.getElem?_eq_getElem hi
      have c : (i : Int) < (existing.length : Int) := by omega
      simp [he, c, gidx_getElem _ _ hi, mkValUpdate, bind, Except.bind, pure, Except.pure]
    · have he : existing[i]? = none := List.getElem?_eq_none (by omega)
      have c : ¬ (i : Int) < (existing.length : Int) := by omega
      simp [he, c]
  obtain ⟨hd2, hacc2⟩ := iterT_spec existing (fun e => (e.pub, 0))
    (List.range ((existing.length : Int) + 1).toNat).length acc1 i1
    (by simp only [List.length_range]; omega)
  generalize iter (stepT existing _) (List.range _).length (acc1, i1) = r at hd2 hacc2 ⊢
  obtain ⟨⟨acc2, i2⟩, d2⟩ := r
  simp only at hd2 hacc2
  subst hd2
  simp only [pure_bind, emb2, not_true_eq_false, if_false]
  -- loop 3
  have h3 : (acc2, (j1 : Int), false) = emb2 (acc2, j1) false := rfl
  rw [h3, forIn_fuel _ emb2 (stepT newers (fun n => (n.pub, n.total))) ?h3 _ (acc2, j1)]
  case h3 =>
    intro x ⟨acc, j⟩
    simp only [emb2, stepT]
    by_cases hj : j < newers.length
    · have hn : newers[j]? = some newers[j] := List.getElem?_eq_getElem hj
      have c : (j : Int) < (newers.length : Int) := by omega
      simp [hn, c, gidx_getElem _ _ hj, mkValUpdate, bind, Except.bind, pure, Except.pure]
    · have hn : newers[j]? = none := List.getElem?_eq_none (by omega)
      have c : ¬ (j : Int) < (newers.length : Int) := by omega
      simp [hn, c]
  obtain ⟨hd3, hacc3⟩ := iterT_spec newers (fun n => (n.pub, n.total))
    (List.range ((newers.length : Int) + 1).toNat).length acc2 j1
    (by simp only [List.length_range]; omega)
  generalize iter (stepT newers _) (List.range _).length (acc2, j1) = r at hd3 hacc3 ⊢
  obtain ⟨⟨acc3, j3⟩, d3⟩ := r
  simp only at hd3 hacc3
  subst hd3
  simp only [pure_bind, emb2, not_true_eq_false, if_false]
  -- the model
  have ht := vu_tails (existing.drop i1) (newers.drop j1)
    (by rcases hor with h | h
        · exact Or.inl (List.drop_eq_nil_of_le h)
        · exact Or.inr (List.drop_eq_nil_of_le h))
  rw [ht] at hacc
  simp only [List.drop_zero, List.nil_append] at hacc
  subst hacc3 hacc2
  rw [← hacc]
  simp [pure, Except.pure]

/-- two existing, two newers: "aa" disappears, "bb" changes its power, "cc" is new -/
example : Rigo.Gen.validatorUpdates
    [{ addr := "aa", pub := "pa", total := 5 }, { addr := "bb", pub := "pb", total := 7 }]
    [{ addr := "bb", pub := "pb", total := 9 }, { addr := "cc", pub := "pc", total := 4 }] =
    .ok [("pa", 0), ("pb", 9), ("pc", 4)] := by
  rw [validatorUpdates_eq]
  simp [vu_cons_cons, vu_nil_left]

end Rigo.GenEq
