/-
  C04 — exactly-once, in-order execution by nonce: helper lemmas.
-/
import RigoProofs.TxSteps
open Std

namespace Rigo

/-- What go-ethereum guarantees about the nonces written back by one *successful* contract
    execution (`ApplyMessage` bumps the sender's nonce by one; other nonces only grow: CREATE).
    `synced` lists (address, balance, nonce) copied out of the EVM state. -/
def EvmNonceOK (s : St) (tx : TxIn) : Prop :=
  ∀ o, tx.evm = some o → o.ok = true →
    (∃ e ∈ o.synced, ledgerKey e.1 = ledgerKey tx.from_) ∧
    ∀ e ∈ o.synced, (ledgerKey e.1 = ledgerKey tx.from_ → e.2.2 = nonceOf s tx.from_ + 1) ∧ nonceOf s e.1 ≤ e.2.2

/-- C04, native transaction types: success ⇒ the transaction's nonce is the sender's current nonce,
    the sender's nonce grows by exactly one, no other nonce changes. -/
theorem deliver_success_native {s : St} {h : Int} {tx : TxIn} (hA : AddrOK s.accts.fin)
    (hc : (handleTx s true h tx).2.code = 0) (hn : ¬ viaEvm tx (recvOf s tx)) :
    tx.nonce = nonceOf s tx.from_ ∧
    nonceOf (handleTx s true h tx).1 tx.from_ = nonceOf s tx.from_ + 1 ∧
    (∀ a, ledgerKey a ≠ ledgerKey tx.from_ → nonceOf (handleTx s true h tx).1 a = nonceOf s a) ∧
    AddrOK (handleTx s true h tx).1.accts.fin ∧ (handleTx s true h tx).1.accts.hist = s.accts.hist := by
  obtain ⟨s1, s2, g, hnonce, _, hA1, hh1, _, hn1, hr, e⟩ := deliver_ok_prelude hA hc
  obtain ⟨_, _, r, sender', hx, hs', _, _, e2⟩ := runTrx_native_ok hn hr
  obtain ⟨_, _, _, _, hhr, hAr, hnr⟩ := execNative_accts hA1 hx
  have hk : ledgerKey sender'.addr = ledgerKey tx.from_ := hAr _ _ hs'
  have hsn : sender'.nonce = nonceOf s tx.from_ := by
    have := (hnr (ledgerKey tx.from_)).trans (hn1 (ledgerKey tx.from_))
    rw [hs'] at this; simpa [nonceOpt, nonceOf] using this
  rw [e]
  simp only
  rw [e2]
  refine ⟨hnonce, ?_, ?_, AddrOK_setAcct hAr _, ?_⟩
  · rw [nonceOf_setAcct]; simp [hk, hsn]
  · intro a ha
    rw [nonceOf_setAcct]
    simp only [hk]
    rw [if_neg (fun c => ha c.symm)]
    exact (hnr (ledgerKey a)).trans (hn1 (ledgerKey a))
  · rw [setAcct_true]; simp only; rw [hhr, hh1]


/-- C04, transactions executed by the EVM (under the oracle hypothesis): same statement, other
    nonces may grow (contract creation) but never shrink. -/
theorem deliver_success_evm {s : St} {h : Int} {tx : TxIn} (hA : AddrOK s.accts.fin)
    (hc : (handleTx s true h tx).2.code = 0) (hv : viaEvm tx (recvOf s tx)) (ho : EvmNonceOK s tx) :
    tx.nonce = nonceOf s tx.from_ ∧
    nonceOf (handleTx s true h tx).1 tx.from_ = nonceOf s tx.from_ + 1 ∧
    (∀ a, nonceOf s a ≤ nonceOf (handleTx s true h tx).1 a) ∧
    AddrOK (handleTx s true h tx).1.accts.fin ∧ (handleTx s true h tx).1.accts.hist = s.accts.hist := by
  obtain ⟨s1, s2, g, hnonce, _, hA1, hh1, _, hn1, hr, e⟩ := deliver_ok_prelude hA hc
  obtain ⟨r, hx, hf', hst, _⟩ := runTrx_evm_ok hv hr
  obtain ⟨o, hoe, hok, _, fF, hAr, hsp⟩ := execEvm_success hA1 hx hf'
  obtain ⟨hex, hall⟩ := ho o hoe hok
  rw [e]; simp only; rw [← hst]
  refine ⟨hnonce, ?_, ?_, hAr, ?_⟩
  · obtain ⟨e', he', hk', hn'⟩ := (hsp (ledgerKey tx.from_)).2 hex
    show nonceOpt r.st.accts.fin[ledgerKey tx.from_]? = _
    rw [hn']; exact (hall e' he').1 hk'
  · intro a
    by_cases hx' : ∃ e ∈ o.synced, ledgerKey e.1 = ledgerKey a
    · obtain ⟨e', he', hk', hn'⟩ := (hsp (ledgerKey a)).2 hx'
      show nonceOf s a ≤ nonceOpt r.st.accts.fin[ledgerKey a]?
      rw [hn']
      have := (hall e' he').2
      unfold nonceOf at this ⊢
      rw [hk'] at this; exact this
    · have hno : ∀ e ∈ o.synced, ledgerKey e.1 ≠ ledgerKey a := fun e he c => hx' ⟨e, he, c⟩
      show nonceOf s a ≤ nonceOpt r.st.accts.fin[ledgerKey a]?
      rw [(hsp (ledgerKey a)).1 hno, hn1]
      exact Nat.le_refl _
  · unfold FinFrame at fF; rw [fF]; exact hh1

/-- C04: a failed delivery leaves every nonce unchanged (all transaction types, no hypothesis). -/
theorem deliver_failure {s : St} {h : Int} {tx : TxIn} (hc : (handleTx s true h tx).2.code ≠ 0) :
    (∀ a, nonceOf (handleTx s true h tx).1 a = nonceOf s a) ∧
    (AddrOK s.accts.fin → AddrOK (handleTx s true h tx).1.accts.fin) ∧
    (handleTx s true h tx).1.accts.hist = s.accts.hist := by
  obtain ⟨l, e, ee⟩ := handleTx_fail_shape hc
  refine ⟨fun a => EmptyExt_nonce ee _, EmptyExt_AddrOK ee, ?_⟩
  rw [e]

/-- oracle hypothesis attached to an operation: only contract executions need one -/
def OpOracleOK (s : St) : Op → Prop
  | .deliver tx => EvmNonceOK s tx
  | _ => True

/-- DeliverTx never decreases a nonce, keeps records under their keys and keeps the history -/
theorem handleTx_mono {s : St} {h : Int} {tx : TxIn} (hA : AddrOK s.accts.fin) (ho : EvmNonceOK s tx) :
    (∀ a, nonceOf s a ≤ nonceOf (handleTx s true h tx).1 a) ∧
    AddrOK (handleTx s true h tx).1.accts.fin ∧ (handleTx s true h tx).1.accts.hist = s.accts.hist := by
  by_cases hc : (handleTx s true h tx).2.code = 0
  · by_cases hv : viaEvm tx (recvOf s tx)
    · obtain ⟨_, _, h3, h4, h5⟩ := deliver_success_evm hA hc hv ho
      exact ⟨h3, h4, h5⟩
    · obtain ⟨_, h2, h3, h4, h5⟩ := deliver_success_native hA hc hv
      refine ⟨fun a => ?_, h4, h5⟩
      by_cases ha : ledgerKey a = ledgerKey tx.from_
      · have e1 : nonceOf s a = nonceOf s tx.from_ := by unfold nonceOf; rw [ha]
        have e2 : nonceOf (handleTx s true h tx).1 a = nonceOf (handleTx s true h tx).1 tx.from_ := by
          unfold nonceOf; rw [ha]
        rw [e1, e2, h2]; exact Nat.le_succ _
      · rw [h3 a ha]; exact Nat.le_refl _
  · obtain ⟨h1, h2, h3⟩ := deliver_failure hc
    exact ⟨fun a => by rw [h1 a]; exact Nat.le_refl _, h2 hA, h3⟩

end Rigo
