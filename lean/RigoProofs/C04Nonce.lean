/-
  C04 — exactly-once, in-order execution by nonce: helper lemmas.
-/
import RigoProofs.TxSteps
open Std

namespace Rigo

/-- What go-ethereum guarantees about the nonces written back by one *successful* contract
    execution (`ApplyMessage` bumps the sender's nonce by one; other nonces only grow: CREATE).
    `synced` lists (address, balance, nonce) copied out of the EVM state. -/
def EvmNonceOK (s : St) (tx : TxIn) : Prop :=
  ∀ o, tx.evm = some o → o.ok = true →
    (∃ e ∈ o.synced, ledgerKey e.1 = ledgerKey tx.from_) ∧
    ∀ e ∈ o.synced, (ledgerKey e.1 = ledgerKey tx.from_ → e.2.2 = nonceOf s tx.from_ + 1) ∧ nonceOf s e.1 ≤ e.2.2

/-- C04, native transaction types: success ⇒ the transaction's nonce is the sender's current nonce,
    the sender's nonce grows by exactly one, no other nonce changes. -/
theorem deliver_success_native {s : St} {h : Int} {tx : TxIn} (hA : AddrOK s.accts.fin)
    (hc : (handleTx s true h tx).2.code = 0) (hn : ¬ viaEvm tx (recvOf s tx)) :
    tx.nonce = nonceOf s tx.from_ ∧
    nonceOf (handleTx s true h tx).1 tx.from_ = nonceOf s tx.from_ + 1 ∧
    (∀ a, ledgerKey a ≠ ledgerKey tx.from_ → nonceOf (handleTx s true h tx).1 a = nonceOf s a) ∧
    AddrOK (handleTx s true h tx).1.accts.fin ∧ (handleTx s true h tx).1.accts.hist = s.accts.hist := by
  obtain ⟨s1, s2, g, hnonce, _, hA1, hh1, _, hn1, hr, e⟩ := deliver_ok_prelude hA hc
  obtain ⟨_, _, r, sender', hx, hs', _, _, e2⟩ := runTrx_native_ok hn hr
  obtain ⟨_, _, _, _, hhr, hAr, hnr⟩ := execNative_accts hA1 hx
  have hk : ledgerKey sender'.addr = ledgerKey tx.from_ := hAr _ _ hs'
  have hsn : sender'.nonce = nonceOf s tx.from_ := by
    have := (hnr (ledgerKey tx.from_)).trans (hn1 (ledgerKey tx.from_))
    rw [hs'] at this; simpa [nonceOpt, nonceOf] using this
  rw [e]
  simp only
  rw [e2]
  refine ⟨hnonce, ?_, ?_, AddrOK_setAcct hAr _, ?_⟩
  · rw [nonceOf_setAcct]; simp [hk, hsn]
  · intro a ha
    rw [nonceOf_setAcct]
    simp only [hk]
    rw [if_neg (fun c => ha c.symm)]
    exact (hnr (ledgerKey a)).trans (hn1 (ledgerKey a))
  · rw [setAcct_true]; simp only; rw [hhr, hh1]


/-- C04, transactions executed by the EVM (under the oracle hypothesis): same statement, other
    nonces may grow (contract creation) but never shrink. -/
theorem deliver_success_evm {s : St} {h : Int} {tx : TxIn} (hA : AddrOK s.accts.fin)
    (hc : (handleTx s true h tx).2.code = 0) (hv : viaEvm tx (recvOf s tx)) (ho : EvmNonceOK s tx) :
    tx.nonce = nonceOf s tx.from_ ∧
    nonceOf (handleTx s true h tx).1 tx.from_ = nonceOf s tx.from_ + 1 ∧
    (∀ a, nonceOf s a ≤ nonceOf (handleTx s true h tx).1 a) ∧
    AddrOK (handleTx s true h tx).1.accts.fin ∧ (handleTx s true h tx).1.accts.hist = s.accts.hist := by
  obtain ⟨s1, s2, g, hnonce, _, hA1, hh1, _, hn1, hr, e⟩ := deliver_ok_prelude hA hc
  obtain ⟨r, hx, hf', hst, _⟩ := runTrx_evm_ok hv hr
  obtain ⟨o, hoe, hok, _, fF, hAr, hsp⟩ := execEvm_success hA1 hx hf'
  obtain ⟨hex, hall⟩ := ho o hoe hok
  rw [e]; simp only; rw [← hst]
  refine ⟨hnonce, ?_, ?_, hAr, ?_⟩
  · obtain ⟨e', he', hk', hn'⟩ := (hsp (ledgerKey tx.from_)).2 hex
    show nonceOpt r.st.accts.fin[ledgerKey tx.from_]? = _
    rw [hn']; exact (hall e' he').1 hk'
  · intro a
    by_cases hx' : ∃ e ∈ o.synced, ledgerKey e.1 = ledgerKey a
    · obtain ⟨e', he', hk', hn'⟩ := (hsp (ledgerKey a)).2 hx'
      show nonceOf s a ≤ nonceOpt r.st.accts.fin[ledgerKey a]?
      rw [hn']
      have := (hall e' he').2
      unfold nonceOf at this ⊢
      rw [hk'] at this; exact this
    · have hno : ∀ e ∈ o.synced, ledgerKey e.1 ≠ ledgerKey a := fun e he c => hx' ⟨e, he, c⟩
      show nonceOf s a ≤ nonceOpt r.st.accts.fin[ledgerKey a]?
      rw [(hsp (ledgerKey a)).1 hno, hn1]
      exact Nat.le_refl _
  · unfold FinFrame at fF; rw [fF]; exact hh1

/-- C04: a failed delivery leaves every nonce unchanged (all transaction types, no hypothesis). -/
theorem deliver_failure {s : St} {h : Int} {tx : TxIn} (hc : (handleTx s true h tx).2.code ≠ 0) :
    (∀ a, nonceOf (handleTx s true h tx).1 a = nonceOf s a) ∧
    (AddrOK s.accts.fin → AddrOK (handleTx s true h tx).1.accts.fin) ∧
    (handleTx s true h tx).1.accts.hist = s.accts.hist := by
  obtain ⟨l, e, ee⟩ := handleTx_fail_shape hc
  refine ⟨fun a => EmptyExt_nonce ee _, EmptyExt_AddrOK ee, ?_⟩
  rw [e]

/-- oracle hypothesis attached to an operation: only contract executions need one -/
def OpOracleOK (s : St) : Op → Prop
  | .deliver tx => EvmNonceOK s tx
  | _ => True

/-- DeliverTx never decreases a nonce, keeps records under their keys and keeps the history -/
theorem handleTx_mono {s : St} {h : Int} {tx : TxIn} (hA : AddrOK s.accts.fin) (ho : EvmNonceOK s tx) :
    (∀ a, nonceOf s a ≤ nonceOf (handleTx s true h tx).1 a) ∧
    AddrOK (handleTx s true h tx).1.accts.fin ∧ (handleTx s true h tx).1.accts.hist = s.accts.hist := by
  by_cases hc : (handleTx s true h tx).2.code = 0
  · by_cases hv : viaEvm tx (recvOf s tx)
    · obtain ⟨_, _, h3, h4, h5⟩ := deliver_success_evm hA hc hv ho
      exact ⟨h3, h4, h5⟩
    · obtain ⟨_, h2, h3, h4, h5⟩ := deliver_success_native hA hc hv
      refine ⟨fun a => ?_, h4, h5⟩
      by_cases ha : ledgerKey a = ledgerKey tx.from_
      · have e1 : nonceOf s a = nonceOf s tx.from_ := by unfold nonceOf; rw [ha]
        have e2 : nonceOf (handleTx s true h tx).1 a = nonceOf (handleTx s true h tx).1 tx.from_ := by
          unfold nonceOf; rw [ha]
        rw [e1, e2, h2]; exact Nat.le_succ _
      · rw [h3 a ha]; exact Nat.le_refl _
  · obtain ⟨h1, h2, h3⟩ := deliver_failure hc
    exact ⟨fun a => by rw [h1 a]; exact Nat.le_refl _, h2 hA, h3⟩


/-- success (any type): nonce matched and the sender's nonce grew by exactly one -/
theorem deliver_success {s : St} {h : Int} {tx : TxIn} (hA : AddrOK s.accts.fin)
    (hc : (handleTx s true h tx).2.code = 0) (ho : EvmNonceOK s tx) :
    tx.nonce = nonceOf s tx.from_ ∧ nonceOf (handleTx s true h tx).1 tx.from_ = nonceOf s tx.from_ + 1 := by
  by_cases hv : viaEvm tx (recvOf s tx)
  · obtain ⟨h1, h2, _⟩ := deliver_success_evm hA hc hv ho; exact ⟨h1, h2⟩
  · obtain ⟨h1, h2, _⟩ := deliver_success_native hA hc hv; exact ⟨h1, h2⟩

/-! ### steps and runs -/

theorem nonceOf_congr {s s' : St} (h : s'.accts.fin = s.accts.fin) (a : Hex) : nonceOf s' a = nonceOf s a := by
  unfold nonceOf; rw [h]

theorem deliverTx_ok_inv {s : St} {tx : TxIn} {o : TxOut} (h : (deliverTx s tx).2.tx = some o) (hc : o.code = 0) :
    ∃ b, s.blk = some b ∧ (handleTx s true b.height tx).2.code = 0 := by
  unfold deliverTx at h
  split at h
  · simp at h
  · rename_i b hb
    refine ⟨b, hb, ?_⟩
    simp only at h
    split at h
    · simp at h; rw [h]; exact hc
    · split at h <;> (simp at h; rw [h]; exact hc)

/-- inside a block `deliverTx` leaves the block context in place -/
theorem deliverTx_blk {s : St} {b : BlockCtx} (tx : TxIn) (hb : s.blk = some b) : (deliverTx s tx).1.blk ≠ none := by
  have hfail : (handleTx s true b.height tx).2.code ≠ 0 → (handleTx s true b.height tx).1.blk = some b := by
    intro hc
    obtain ⟨l, e, _⟩ := handleTx_fail_shape hc
    rw [e]; exact hb
  unfold deliverTx; rw [hb]
  simp only
  split
  · rename_i hp
    have : (handleTx s true b.height tx).2.code ≠ 0 := fun c => hp (handleTx_ok_panic c)
    rw [hfail this]; simp
  · split
    · simp
    · rename_i hc; rw [hfail hc]; simp

/-- the consensus view agrees with the last committed version on every nonce -/
def NonceSync (s : St) : Prop := ∀ k : String, nonceOpt s.accts.fin[k]? = nonceOpt s.accts.committed[k]?

/-- invariant of well-phased histories: between blocks (and whenever no block is open) the consensus
    view carries exactly the committed nonces -/
def PInv (p : Phase) (s : St) : Prop := AcctInv s ∧ ((p = .idle ∨ s.blk = none) → NonceSync s)

theorem PInv_init (g : Genesis) : PInv .idle (initChain g) := by
  refine ⟨AcctInv_init g, fun _ k => ?_⟩
  obtain ⟨_, h2, h3⟩ := initChain_accts g
  rw [h2 k]; unfold Led.committed; rw [h3]; simp [nonceOpt]

/-- the phase invariant is kept by every operation the phase discipline allows (no oracle hypothesis) -/
theorem PInv_next {p p' : Phase} {s : St} {op : Op} (hph : phaseStep p op = some p') (hP : PInv p s) :
    PInv p' (step s op).1 := by
  obtain ⟨hI, hS⟩ := hP
  have hop : op.isInit = false := by cases op <;> cases p <;> simp_all [phaseStep, Op.isInit]
  have hI' := AcctInv_step hI op hop
  refine ⟨hI', ?_⟩
  · -- nonce synchronisation
    cases op with
    | init g => simp [Op.isInit] at hop
    | begin_ h =>
      cases p <;> simp [phaseStep] at hph
      intro _ k
      show nonceOpt (beginBlock s h).1.accts.fin[k]? = nonceOpt (beginBlock s h).1.accts.committed[k]?
      rw [beginBlock_accts]; exact hS (Or.inl rfl) k
    | deliver tx =>
      cases p <;> simp [phaseStep] at hph
      subst hph
      intro hc
      cases hb : s.blk with
      | none => show NonceSync (deliverTx s tx).1; rw [deliverTx_noblk tx hb]; exact hS (Or.inr hb)
      | some b =>
        rcases hc with hc | hc
        · simp at hc
        · exact absurd hc (deliverTx_blk tx hb)
    | check tx =>
      obtain ⟨h1, h2, h3⟩ := checkTx_accts s tx
      have hpp : p' = p := by cases p <;> simp [phaseStep] at hph <;> exact hph.symm
      intro hc k
      show nonceOpt (checkTx s tx).1.accts.fin[k]? = nonceOpt (checkTx s tx).1.accts.committed[k]?
      rw [h1, committed_of_hist h2]
      refine hS ?_ k
      rcases hc with hc | hc
      · exact Or.inl (by rw [← hpp]; exact hc)
      · exact Or.inr (by rw [← h3]; exact hc)
    | end_ =>
      cases p <;> simp [phaseStep] at hph
      subst hph
      obtain ⟨h1, h2, h3⟩ := endBlock_keep s
      intro hc k
      rcases hc with hc | hc
      · simp at hc
      · show nonceOpt (endBlock s).1.accts.fin[k]? = nonceOpt (endBlock s).1.accts.committed[k]?
        rw [(h3 hI.1).2 k, committed_of_hist h1]
        exact hS (Or.inr (by rw [← h2]; exact hc)) k
    | commit =>
      cases p <;> simp [phaseStep] at hph
      intro _ k
      show nonceOpt (commit s).1.accts.fin[k]? = nonceOpt (commit s).1.accts.committed[k]?
      unfold commit
      cases hb : s.blk with
      | none => exact hS (Or.inr hb) k
      | some b => simp only [Led.committed_commit]; rfl
    | restart =>
      intro _ k
      show nonceOpt (restart s).accts.fin[k]? = nonceOpt (restart s).accts.committed[k]?
      unfold restart; simp only [Led.reopen]; rfl

/-- C04 `nonce_monotone`, per operation of a well-phased history -/
theorem PInv_step {p p' : Phase} {s : St} {op : Op} (hph : phaseStep p op = some p') (hP : PInv p s)
    (ho : OpOracleOK s op) :
    PInv p' (step s op).1 ∧ ∀ a, nonceOf s a ≤ nonceOf (step s op).1 a := by
  refine ⟨PInv_next hph hP, ?_⟩
  obtain ⟨hI, hS⟩ := hP
  have hop : op.isInit = false := by cases op <;> cases p <;> simp_all [phaseStep, Op.isInit]
  · -- monotonicity
    intro a
    cases op with
    | init g => simp [Op.isInit] at hop
    | begin_ h =>
      show nonceOf s a ≤ nonceOf (beginBlock s h).1 a
      rw [nonceOf_congr (s := s) (s' := (beginBlock s h).1) (by rw [beginBlock_accts])]; exact Nat.le_refl _
    | deliver tx =>
      show nonceOf s a ≤ nonceOf (deliverTx s tx).1 a
      cases hb : s.blk with
      | none => rw [deliverTx_noblk tx hb]; exact Nat.le_refl _
      | some b =>
        rw [nonceOf_congr (s := (handleTx s true b.height tx).1) (s' := (deliverTx s tx).1)
          (by rw [deliverTx_accts tx hb])]
        exact (handleTx_mono hI.1 ho).1 a
    | check tx =>
      show nonceOf s a ≤ nonceOf (checkTx s tx).1 a
      rw [nonceOf_congr (s := s) (s' := (checkTx s tx).1) (checkTx_accts s tx).1]; exact Nat.le_refl _
    | end_ =>
      show nonceOf s a ≤ nonceOf (endBlock s).1 a
      unfold nonceOf
      have := ((endBlock_keep s).2.2 hI.1).2 (ledgerKey a)
      unfold nonceOpt at this; rw [this]; exact Nat.le_refl _
    | commit =>
      show nonceOf s a ≤ nonceOf (commit s).1 a
      unfold commit
      cases hb : s.blk with
      | none => exact Nat.le_refl _
      | some b => exact Nat.le_refl _
    | restart =>
      cases p <;> simp [phaseStep] at hph
      show nonceOf s a ≤ nonceOf (restart s) a
      have := hS (Or.inl rfl) (ledgerKey a)
      unfold nonceOf restart; simp only [Led.reopen]
      unfold nonceOpt at this; rw [this]; exact Nat.le_refl _


/-- the oracle hypothesis along a whole history: stated at the state each contract execution starts from -/
def RunOracleOK (s : St) : List Op → Prop
  | [] => True
  | op :: ops => OpOracleOK s op ∧ RunOracleOK (step s op).1 ops

/-- the `i`-th operation of the history was answered "code 0" -/
def DeliveredOK (s : St) (ops : List Op) (i : Nat) : Prop :=
  ∃ o, ((run s ops).2[i]?).bind (·.tx) = some o ∧ o.code = 0

theorem run_out_zero (s : St) (op : Op) (ops : List Op) : (run s (op :: ops)).2[0]? = some (step s op).2 := by
  simp [run]

theorem run_out_succ (s : St) (op : Op) (ops : List Op) (j : Nat) :
    (run s (op :: ops)).2[j + 1]? = (run (step s op).1 ops).2[j]? := by
  simp [run]

/-- C04 `nonce_monotone` along a well-phased history -/
theorem phaseRun_mono (ops : List Op) : ∀ (p p' : Phase) (s : St), phaseRun p ops = some p' → PInv p s →
    RunOracleOK s ops → PInv p' (exec s ops) ∧ ∀ a, nonceOf s a ≤ nonceOf (exec s ops) a := by
  induction ops with
  | nil =>
    intro p p' s hph hP _
    simp [phaseRun] at hph; subst hph
    exact ⟨hP, fun _ => Nat.le_refl _⟩
  | cons op ops ih =>
    intro p p' s hph hP hO
    unfold phaseRun at hph
    cases hps : phaseStep p op with
    | none => rw [hps] at hph; simp at hph
    | some p1 =>
      rw [hps] at hph
      simp only at hph
      obtain ⟨hP1, hm1⟩ := PInv_step hps hP hO.1
      obtain ⟨hP2, hm2⟩ := ih p1 p' _ hph hP1 hO.2
      rw [exec_cons]
      exact ⟨hP2, fun a => Nat.le_trans (hm1 a) (hm2 a)⟩

/-- a delivery that succeeds at position `j` carries a nonce at least the sender's nonce at the start -/
theorem success_nonce_ge (ops : List Op) : ∀ (p : Phase) (s : St) (j : Nat) (tx : TxIn),
    (phaseRun p ops).isSome → PInv p s → RunOracleOK s ops → ops[j]? = some (.deliver tx) →
    DeliveredOK s ops j → ∀ x, ledgerKey x = ledgerKey tx.from_ → nonceOf s x ≤ tx.nonce := by
  induction ops with
  | nil => intro p s j tx _ _ _ hj; simp at hj
  | cons op ops ih =>
    intro p s j tx hph hP hO hj hok x hx
    unfold phaseRun at hph
    cases hps : phaseStep p op with
    | none => rw [hps] at hph; simp at hph
    | some p1 =>
      rw [hps] at hph
      simp only at hph
      obtain ⟨hP1, hm1⟩ := PInv_step hps hP hO.1
      cases j with
      | zero =>
        simp at hj; subst hj
        obtain ⟨o, ho, hc⟩ := hok
        rw [run_out_zero] at ho
        simp at ho
        obtain ⟨b, hb, hc'⟩ := deliverTx_ok_inv (s := s) (tx := tx) ho hc
        have := (deliver_success hP.1.1 hc' hO.1).1
        rw [this]; unfold nonceOf; rw [hx]; exact Nat.le_refl _
      | succ j =>
        simp at hj
        have hok' : DeliveredOK (step s op).1 ops j := by
          obtain ⟨o, ho, hc⟩ := hok
          rw [run_out_succ] at ho
          exact ⟨o, ho, hc⟩
        exact Nat.le_trans (hm1 x) (ih p1 _ j tx hph hP1 hO.2 hj hok' x hx)

/-- C04 `at_most_once` from any state satisfying the phase invariant -/
theorem at_most_once_from (ops : List Op) : ∀ (p : Phase) (s : St) (i j : Nat) (tx1 tx2 : TxIn),
    (phaseRun p ops).isSome → PInv p s → RunOracleOK s ops → i < j →
    ops[i]? = some (.deliver tx1) → ops[j]? = some (.deliver tx2) →
    DeliveredOK s ops i → DeliveredOK s ops j →
    ledgerKey tx1.from_ = ledgerKey tx2.from_ → tx1.nonce = tx2.nonce → False := by
  induction ops with
  | nil => intro p s i j tx1 tx2 _ _ _ _ hi; simp at hi
  | cons op ops ih =>
    intro p s i j tx1 tx2 hph hP hO hij hi hj ok1 ok2 hk hn
    unfold phaseRun at hph
    cases hps : phaseStep p op with
    | none => rw [hps] at hph; simp at hph
    | some p1 =>
      rw [hps] at hph
      simp only at hph
      obtain ⟨hP1, hm1⟩ := PInv_step hps hP hO.1
      cases j with
      | zero => omega
      | succ j =>
        simp at hj
        have ok2' : DeliveredOK (step s op).1 ops j := by
          obtain ⟨o, ho, hc⟩ := ok2
          rw [run_out_succ] at ho
          exact ⟨o, ho, hc⟩
        cases i with
        | zero =>
          simp at hi; subst hi
          obtain ⟨o, ho, hc⟩ := ok1
          rw [run_out_zero] at ho
          simp at ho
          obtain ⟨b, hb, hc'⟩ := deliverTx_ok_inv (s := s) (tx := tx1) ho hc
          obtain ⟨e1, e2⟩ := deliver_success (h := b.height) hP.1.1 hc' hO.1
          have hge := success_nonce_ge ops p1 _ j tx2 hph hP1 hO.2 hj ok2' tx1.from_ hk
          have e3 : nonceOf (step s (.deliver tx1)).1 tx1.from_ = nonceOf (handleTx s true b.height tx1).1 tx1.from_ :=
            nonceOf_congr (by show (deliverTx s tx1).1.accts.fin = _; rw [deliverTx_accts tx1 hb]) _
          rw [e3, e2, ← e1] at hge
          omega
        | succ i =>
          simp at hi
          have ok1' : DeliveredOK (step s op).1 ops i := by
            obtain ⟨o, ho, hc⟩ := ok1
            rw [run_out_succ] at ho
            exact ⟨o, ho, hc⟩
          exact ih p1 _ i j tx1 tx2 hph hP1 hO.2 (by omega) hi hj ok1' ok2' hk hn


/-! ### corollaries for the property file -/

theorem phaseRun_append (a b : List Op) : ∀ p, phaseRun p (a ++ b) = (phaseRun p a).bind fun p1 => phaseRun p1 b := by
  induction a with
  | nil => intro p; simp [phaseRun]
  | cons op a ih =>
    intro p
    simp only [List.cons_append, phaseRun]
    cases phaseStep p op with
    | none => simp
    | some p1 => simp only; exact ih p1

theorem RunOracleOK_append (a b : List Op) : ∀ s, RunOracleOK s (a ++ b) ↔ RunOracleOK s a ∧ RunOracleOK (exec s a) b := by
  induction a with
  | nil => intro s; simp [RunOracleOK, exec, run]
  | cons op a ih =>
    intro s
    simp only [List.cons_append, RunOracleOK, exec_cons]
    rw [ih]; exact and_assoc.symm

/-- the phase invariant along any well-phased history (no oracle hypothesis needed) -/
theorem phaseRun_PInv (ops : List Op) : ∀ (p p' : Phase) (s : St), phaseRun p ops = some p' → PInv p s →
    PInv p' (exec s ops) := by
  induction ops with
  | nil => intro p p' s hph hP; simp [phaseRun] at hph; subst hph; exact hP
  | cons op ops ih =>
    intro p p' s hph hP
    unfold phaseRun at hph
    cases hps : phaseStep p op with
    | none => rw [hps] at hph; simp at hph
    | some p1 =>
      rw [hps] at hph
      rw [exec_cons]
      exact ih p1 p' _ hph (PInv_next hps hP)

theorem deliverTx_nonceOf {s : St} {b : BlockCtx} (tx : TxIn) (hb : s.blk = some b) (a : Hex) :
    nonceOf (deliverTx s tx).1 a = nonceOf (handleTx s true b.height tx).1 a :=
  nonceOf_congr (by rw [deliverTx_accts tx hb]) a

theorem deliverTx_fail_inv {s : St} {tx : TxIn} (h : ∀ o, (deliverTx s tx).2.tx = some o → o.code ≠ 0) :
    (deliverTx s tx).1 = s ∨ ∃ b, s.blk = some b ∧ (handleTx s true b.height tx).2.code ≠ 0 ∧
      (deliverTx s tx).1 = (handleTx s true b.height tx).1 := by
  cases hb : s.blk with
  | none => exact Or.inl (deliverTx_noblk tx hb)
  | some b =>
    right
    have hc : (handleTx s true b.height tx).2.code ≠ 0 := by
      apply h
      unfold deliverTx; rw [hb]; simp only
      split
      · rfl
      · split <;> rfl
    refine ⟨b, rfl, hc, ?_⟩
    unfold deliverTx; rw [hb]; simp only
    split
    · rfl
    · first | rfl | (rw [if_neg hc])

end Rigo
