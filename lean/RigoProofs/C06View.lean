/-
  C06 (part 1): the consensus view of a state and the CheckTx path.

  `eraseChk s` is the state with every mempool view (`Led.chk`) blanked; two states are
  `consEq` when they agree on everything else (committed history, consensus views, active / pending
  parameters, the stake controller's in-memory lists, the limiter, the block context, the height,
  the ghost counters).  This file proves that `handleTx … (exec := false)` – the CheckTx path –
  never leaves that equivalence class: it only writes `chk` maps.

  History: before the repair commit c20f06e of /repo, `ValidateTrx` called the *recording*
  `StakeLimiter.CheckLimit` on the CheckTx path as well, i.e. CheckTx wrote the limiter shared with
  block execution and `checkTx_noninterference` was false (a mempool delegation between BeginBlock
  and DeliverTx made a valid DeliverTx fail).  The model transcribes the repaired code:
  `St.limit … exec` passes `apply := exec`, and `Limiter.check … false` returns the limiter it was
  given (`limiter_check_eval_pure`).
-/
import Rigo.Reach
import RigoProofs.Reach

namespace Rigo
namespace C06

/-- the state without its mempool views -/
def eraseChk (s : St) : St :=
  { s with accts := { s.accts with chk := {} }, delegs := { s.delegs with chk := {} },
           frozen := { s.frozen with chk := {} }, rewards := { s.rewards with chk := {} },
           params := { s.params with chk := {} }, props := { s.props with chk := {} },
           fprops := { s.fprops with chk := {} } }

/-- agreement on the consensus view: everything except the seven `chk` maps -/
def consEq (s₁ s₂ : St) : Prop := eraseChk s₁ = eraseChk s₂

theorem consEq.refl (s : St) : consEq s s := rfl
theorem consEq.symm {a b : St} (h : consEq a b) : consEq b a := Eq.symm h
theorem consEq.trans {a b c : St} (h₁ : consEq a b) (h₂ : consEq b c) : consEq a c := Eq.trans h₁ h₂

theorem eraseChk_idem (s : St) : eraseChk (eraseChk s) = eraseChk s := rfl

theorem consEq_eraseChk (s : St) : consEq (eraseChk s) s := rfl

/-! ### the limiter on the CheckTx path -/

/-- `EvaluateLimit` (`checkLimit … apply = false`) returns the limiter unchanged -/
theorem limiter_check_eval_pure {l l' : Limiter} {a : Hex} {t d : Int}
    (h : l.check a t d false = .ok l') : l' = l := by
  unfold Limiter.check at h
  simp only [] at h
  repeat' split at h
  all_goals first | (cases h; rfl) | cases h | skip
  all_goals simp_all
  rename_i hq
  rcases hq with ⟨_, hq⟩
  split at hq
  · cases hq
  · split at hq <;> cases hq

theorem limit_false {s s' : St} {a : Hex} {t d : Int} (h : s.limit false a t d = .ok s') : s' = s := by
  unfold St.limit at h
  split at h
  · split at h
    · rename_i l hl
      have := limiter_check_eval_pure hl
      cases h; subst this; rfl
    · cases h
    · cases h
  · cases h; rfl

end C06
end Rigo
