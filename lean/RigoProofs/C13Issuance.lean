/-
  C13: what `beginBlock` issues.  For every ledger key `k` (account), the cumulated reward grows by
  the sum, over the signed votes whose validator is found in the reward ledger version with a total
  power equal to the vote power, of `power × rewardPerPower` of that validator's stakes owned by `k`.
-/
import RigoProofs.C13C15Begin

namespace Rigo.C13
open Rigo

/-- withdrawable (cumulated) reward of ledger key `k` in the consensus view; 0 without a record -/
def cumOf (s : St) (k : String) : Nat :=
  match s.rewards.fin[k]? with
  | some r => r.cumulated
  | none => 0

/-- reward of one stake: `uint64(power) × rewardPerPower` (uint256 arithmetic) -/
def stakeRwd (rpp : Nat) (st : Stake) : Nat := wmul ((st.power % (two64 : Int)).toNat) rpp

/-- reward issued to key `k` for the stakes of one delegatee -/
def delegRwd (rpp : Nat) (k : String) (stakes : List Stake) : Nat :=
  (stakes.map fun st => if k = ledgerKey st.owner then stakeRwd rpp st else 0).sum

/-- reward issued for all the stakes of one delegatee -/
def delegRwdAll (rpp : Nat) (stakes : List Stake) : Nat := (stakes.map (stakeRwd rpp)).sum

/-- the delegatee a vote is rewarded for: signed, found in the reward ledger, powers equal -/
def rewardedDeleg (rl : KMap Delegatee) (v : VoteIn) : Option Delegatee :=
  if v.signed then
    match rl[ledgerKey v.addr]? with
    | some d => if d.total = v.power then some d else none
    | none => none
  else none

def voteRwd (rl : KMap Delegatee) (rpp : Nat) (k : String) (v : VoteIn) : Nat :=
  match rewardedDeleg rl v with
  | some d => delegRwd rpp k d.stakes
  | none => 0

def voteRwdAll (rl : KMap Delegatee) (rpp : Nat) (v : VoteIn) : Nat :=
  match rewardedDeleg rl v with
  | some d => delegRwdAll rpp d.stakes
  | none => 0

theorem wadd_lt (a b : Nat) : wadd a b < two256 := Nat.mod_lt _ (by unfold two256; omega)

theorem issue_cum {w w' : Reward} {r : Nat} {h : Int} (hi : w.issue r h = .ok w') : w'.cumulated = wadd w.cumulated r := by
  unfold Reward.issue at hi
  split at hi
  · cases hi; rfl
  · split at hi
    · cases hi; rfl
    · cases hi

theorem rewardStep_cum {h : Int} {s s' : St} {i i' : Nat} {st : Stake}
    (hs : rewardStep h (.ok (s, i)) st = .ok (s', i')) (k : String) :
    s'.active = s.active ∧ i' = wadd i (stakeRwd s.active.rewardPerPower st) ∧
    cumOf s' k = if k = ledgerKey st.owner then wadd (cumOf s k) (stakeRwd s.active.rewardPerPower st) else cumOf s k := by
  unfold rewardStep at hs
  simp only [] at hs
  split at hs
  · cases hs
  · rename_i w' hw
    cases hs
    refine ⟨rfl, rfl, ?_⟩
    have hc := issue_cum hw
    unfold cumOf
    simp only [Led.set_fin_true]
    by_cases hk : k = ledgerKey st.owner
    · subst hk
      simp only [Std.ExtTreeMap.getElem?_insert_self, if_true, hc, Led.get, stakeRwd]
      cases s.rewards.fin[ledgerKey st.owner]? <;> rfl
    · have hk' : ¬ ledgerKey st.owner = k := fun h => hk h.symm
      rw [Std.ExtTreeMap.getElem?_insert]
      simp [hk, hk']

theorem foldl_rewardStep_cum (h : Int) (l : List Stake) (s : St) (i : Nat) (s' : St) (i' : Nat)
    (hf : l.foldl (rewardStep h) (.ok (s, i)) = .ok (s', i')) (hi : i < two256) :
    s'.active = s.active ∧ i' < two256 ∧ i' = (i + delegRwdAll s.active.rewardPerPower l) % two256 ∧
    ∀ k, cumOf s k + delegRwd s.active.rewardPerPower k l < two256 →
      cumOf s' k = cumOf s k + delegRwd s.active.rewardPerPower k l := by
  induction l generalizing s i with
  | nil =>
    simp only [List.foldl_nil] at hf; cases hf
    exact ⟨rfl, hi, by simp [delegRwdAll, Nat.mod_eq_of_lt hi], fun k _ => by simp [delegRwd]⟩
  | cons st l ih =>
    simp only [List.foldl_cons] at hf
    cases hs : rewardStep h (.ok (s, i)) st with
    | panic p => rw [hs, foldl_rewardStep_panic] at hf; cases hf
    | ok r =>
      obtain ⟨s1, i1⟩ := r
      rw [hs] at hf
      obtain ⟨ha, hi1, _⟩ := rewardStep_cum hs ""
      obtain ⟨ha', hlt, hsum, hcum⟩ := ih s1 i1 hf (by rw [hi1]; exact wadd_lt _ _)
      refine ⟨by rw [ha', ha], hlt, ?_, ?_⟩
      · rw [hsum, hi1, ha]
        simp only [delegRwdAll, List.map_cons, List.sum_cons, wadd]
        rw [Nat.mod_add_mod]; congr 1; omega
      · intro k hb
        obtain ⟨_, _, hck⟩ := rewardStep_cum hs k
        simp only [delegRwd, List.map_cons, List.sum_cons] at hb ⊢
        have hrest := hcum k
        rw [ha] at hrest
        simp only [delegRwd] at hrest
        by_cases hk : k = ledgerKey st.owner
        · rw [if_pos hk] at hb hck ⊢
          have e : wadd (cumOf s k) (stakeRwd s.active.rewardPerPower st) = cumOf s k + stakeRwd s.active.rewardPerPower st :=
            Nat.mod_eq_of_lt (by omega)
          rw [hck, e] at hrest
          rw [hrest (by omega)]; omega
        · rw [if_neg hk] at hb hck ⊢
          rw [hck] at hrest
          rw [hrest (by omega)]; omega

theorem processVote_cum {s s' : St} {height : Int} {rl : KMap Delegatee} {v : VoteIn} {i i' : Nat}
    (hp : processVote s height rl v i = .ok (s', i')) (hi : i < two256) :
    s'.active = s.active ∧ i' < two256 ∧ i' = (i + voteRwdAll rl s.active.rewardPerPower v) % two256 ∧
    ∀ k, cumOf s k + voteRwd rl s.active.rewardPerPower k v < two256 →
      cumOf s' k = cumOf s k + voteRwd rl s.active.rewardPerPower k v := by
  have nochange : ∀ (s' : St), s'.rewards = s.rewards → s'.active = s.active → rewardedDeleg rl v = none →
      s'.active = s.active ∧ i < two256 ∧ i = (i + voteRwdAll rl s.active.rewardPerPower v) % two256 ∧
      ∀ k, cumOf s k + voteRwd rl s.active.rewardPerPower k v < two256 →
        cumOf s' k = cumOf s k + voteRwd rl s.active.rewardPerPower k v := by
    intro s' hr ha hn
    refine ⟨ha, hi, by simp [voteRwdAll, hn, Nat.mod_eq_of_lt hi], ?_⟩
    intro k _; simp [voteRwd, hn, cumOf, hr]
  cases hv : v.signed with
  | false =>
    have hn : rewardedDeleg rl v = none := by simp [rewardedDeleg, hv]
    rw [processVote_unsigned _ _ _ _ _ hv] at hp
    split at hp
    · cases hp; exact nochange _ rfl rfl hn
    · split at hp
      · cases hp; exact nochange _ rfl rfl hn
      · cases hp; exact nochange _ rfl rfl hn
  | true =>
    rw [processVote_signed _ _ _ _ _ hv] at hp
    split at hp
    · rename_i hnone
      have hn : rewardedDeleg rl v = none := by simp [rewardedDeleg, hv, hnone]
      cases hp; exact nochange _ rfl rfl hn
    · rename_i d hd
      split at hp
      · rename_i hne
        have hn : rewardedDeleg rl v = none := by simp [rewardedDeleg, hv, hd, hne]
        cases hp; exact nochange _ rfl rfl hn
      · rename_i heq
        have heq' : d.total = v.power := by simpa using heq
        have hsome : rewardedDeleg rl v = some d := by simp [rewardedDeleg, hv, hd, heq']
        split at hp
        · cases hp
        · rename_i s1 i1 hr
          cases hp
          rw [rewardTo_eq] at hr
          obtain ⟨ha, hlt, hsum, hcum⟩ := foldl_rewardStep_cum height d.stakes s 0 s' i1 hr (by unfold two256; omega)
          refine ⟨ha, wadd_lt _ _, ?_, ?_⟩
          · simp only [voteRwdAll, hsome, wadd, hsum, Nat.zero_add]
            rw [Nat.add_mod_mod]
          · intro k hb
            simp only [voteRwd, hsome] at hb ⊢
            exact hcum k hb

theorem foldl_voteStep_cum (height : Int) (rl : KMap Delegatee) (votes : List VoteIn) (s : St) (i : Nat) (s' : St) (i' : Nat)
    (hf : votes.foldl (voteStep height rl) (.ok (s, i)) = .ok (s', i')) (hi : i < two256) :
    s'.active = s.active ∧ i' < two256 ∧
    i' = (i + (votes.map (voteRwdAll rl s.active.rewardPerPower)).sum) % two256 ∧
    ∀ k, cumOf s k + (votes.map (voteRwd rl s.active.rewardPerPower k)).sum < two256 →
      cumOf s' k = cumOf s k + (votes.map (voteRwd rl s.active.rewardPerPower k)).sum := by
  induction votes generalizing s i with
  | nil =>
    simp only [List.foldl_nil] at hf; cases hf
    exact ⟨rfl, hi, by simp [Nat.mod_eq_of_lt hi], fun k _ => by simp⟩
  | cons v vs ih =>
    simp only [List.foldl_cons] at hf
    cases hp : voteStep height rl (.ok (s, i)) v with
    | panic p => rw [hp, foldl_voteStep_panic] at hf; cases hf
    | ok r =>
      obtain ⟨s1, i1⟩ := r
      rw [hp] at hf
      have hp' : processVote s height rl v i = .ok (s1, i1) := by simpa [voteStep] using hp
      obtain ⟨ha, hlt, hsum, hcum⟩ := processVote_cum hp' hi
      obtain ⟨ha', hlt', hsum', hcum'⟩ := ih s1 i1 hf hlt
      refine ⟨by rw [ha', ha], hlt', ?_, ?_⟩
      · rw [hsum', hsum, ha]
        simp only [List.map_cons, List.sum_cons]
        rw [Nat.mod_add_mod]; congr 1; omega
      · intro k hb
        simp only [List.map_cons, List.sum_cons] at hb ⊢
        have h1 := hcum k (by omega)
        have h2 := hcum' k
        rw [ha, h1] at h2
        rw [h2 (by omega)]; omega

/-- stages A–D of `beginBlock` leave the rewards ledger, the active parameters and the committed
    delegatee history alone -/
theorem pre_votes_frame (s : St) (h : Header) (m : Int) :
    let sD := (bStake (bbC (bGov (bbA s h) h.evidence).1 m) h.evidence).1
    sD.rewards = s.rewards ∧ sD.active = s.active ∧ sD.delegs.hist = s.delegs.hist := by
  intro sD
  have a := bbA_fr s h
  have b := bGov_fr (bbA s h) h.evidence
  have c := bbC_fr (bGov (bbA s h) h.evidence).1 m
  have d := bStake_fr (bbC (bGov (bbA s h) h.evidence).1 m) h.evidence
  refine ⟨?_, ?_, ?_⟩
  · show sD.rewards = s.rewards
    rw [d.2.1, c.2.1.1, b.2.1, a.2.1]
  · show sD.active = s.active
    rw [d.1.2.2.1, c.1.2.2.1, b.1.2.2.1, a.1.2.2.1]
  · show sD.delegs.hist = s.delegs.hist
    rw [d.1.2.2.2.2.2.2.2.2.1, c.1.2.2.2.2.2.2.2.2.1, b.1.2.2.2.2.2.2.2.2.1, a.1.2.2.2.2.2.2.2.2.1]

/-- **issuance**: when `beginBlock` emits the reward event with amount `n`, the reward ledger version
    `hopOf height` (1 for heights < 4, 0 = latest for height 4, else height − 4; `Led.at?`) exists, and for every ledger key `k`
    the cumulated reward grows by exactly the rewards of the matching signers' stakes owned by `k`
    (no-wrap bound as hypothesis); `n` is the total over all stakes modulo 2^256. -/
theorem issuance_core {s : St} {h : Header} {n : Nat} (hi : (beginBlock s h).2.issued = some n) :
    ∃ rl, s.delegs.at? (hopOf h.height) = some rl ∧
      n = ((h.votes.map (voteRwdAll rl s.active.rewardPerPower)).sum) % two256 ∧
      ∀ k, cumOf s k + (h.votes.map (voteRwd rl s.active.rewardPerPower k)).sum < two256 →
        cumOf (beginBlock s h).1 k = cumOf s k + (h.votes.map (voteRwd rl s.active.rewardPerPower k)).sum := by
  obtain ⟨_, _, m, rl, s', _, hat, hvo, hres⟩ := beginBlock_issued hi
  obtain ⟨hr, ha, hh⟩ := pre_votes_frame s h m
  have hat' : s.delegs.at? (hopOf h.height) = some rl := by
    unfold Led.at? Led.committed at hat ⊢
    rw [hh] at hat; exact hat
  refine ⟨rl, hat', ?_⟩
  obtain ⟨_, _, hsum, hcum⟩ := foldl_voteStep_cum h.height rl h.votes _ 0 s' n hvo (by unfold two256; omega)
  rw [ha] at hsum hcum
  refine ⟨by simpa using hsum, ?_⟩
  intro k hb
  rw [hres]
  have hc0 : cumOf (bStake (bbC (bGov (bbA s h) h.evidence).1 m) h.evidence).1 k = cumOf s k := by
    unfold cumOf; rw [hr]
  have := hcum k (by rw [hc0]; exact hb)
  rw [hc0] at this; exact this

end Rigo.C13

namespace Rigo.C13
open Rigo

/-- for sane powers the reward of a stake is exactly `power × rewardPerPower` -/
theorem stakeRwd_exact (rpp : Nat) (st : Stake) (hp : 0 ≤ st.power ∧ st.power < (two64 : Int))
    (hb : st.power.toNat * rpp < two256) : stakeRwd rpp st = st.power.toNat * rpp := by
  unfold stakeRwd wmul
  rw [Int.emod_eq_of_lt hp.1 hp.2, Nat.mod_eq_of_lt hb]

/-- votes that are not signed, or whose validator is unknown to the reward ledger version, or whose
    power differs from the recorded total power, earn nothing for anybody -/
theorem voteRwd_skipped (rl : KMap Delegatee) (rpp : Nat) (k : String) (v : VoteIn)
    (h : v.signed = false ∨ rl[ledgerKey v.addr]? = none ∨ ∃ d, rl[ledgerKey v.addr]? = some d ∧ d.total ≠ v.power) :
    voteRwd rl rpp k v = 0 ∧ voteRwdAll rl rpp v = 0 := by
  have : rewardedDeleg rl v = none := by
    unfold rewardedDeleg
    rcases h with h | h | ⟨d, h, hne⟩
    · simp [h]
    · simp [h]
    · simp [h, hne]
  simp [voteRwd, voteRwdAll, this]

end Rigo.C13
