/-
  C02 (conservation of value): the value function, the burn terms, the invariants carried through
  the induction, and the explicit hypotheses (`SupplyBound`, `SlashSane`, `UniqueFrozenKeys`
  = `UnstakeFresh`/`JailFresh`, `EvmOracleOK`).
-/
import Rigo.Reach
import RigoProofs.C02Sum

namespace Rigo.C02

open Std Rigo.Delegatee

/-! ### the value function -/

def sumBal (m : KMap Account) : Int := msum (fun a => (a.bal : Int)) m
def bonded (m : KMap Delegatee) : Int := msum (fun d => sumPower d.stakes) m
def unbonding (m : KMap Stake) : Int := msum (fun st => st.power) m

/-- fees of the running block, already debited from the senders, not yet handed to the proposer -/
def feeInFlight (s : St) : Int := (((s.blk.map (·.feeSum)).getD 0 : Nat) : Int)

/-- balances + 10^18 · (bonded + unbonding power), consensus view -/
def holdings (s : St) : Int :=
  sumBal s.accts.fin + (amountPerPower : Int) * (bonded s.delegs.fin + unbonding s.frozen.fin)

/-- the conserved quantity -/
def total (s : St) : Int := holdings s + feeInFlight s

/-- value created by `InitChain` -/
def genesisTotal (g : Genesis) : Int := total (initChain g)

/-! ### burns -/

/-- power destroyed when `doSlash` hits a delegatee (slashed parts + forfeited stakes) -/
def slashLoss (d : Delegatee) (ratio : Int) : Int := sumPower d.stakes - sumPower (d.doSlash ratio).1.stakes

/-- power destroyed by the stake controller's handling of an evidence list (same fold as `beginBlock`) -/
def slashLossList : St → List Hex → Int
  | _, [] => 0
  | s, a :: as =>
    (match s.delegs.get true (ledgerKey a) with
     | none => 0
     | some d => slashLoss d s.active.slashRatio) + slashLossList (stakePunish s a).1 as

/-- stake value destroyed by slashing in one operation -/
def slashBurnStep (s : St) : Op → Int
  | .begin_ h => if h.height ≠ s.lastHeight + 1 then 0 else (amountPerPower : Int) * slashLossList s h.evidence
  | _ => 0

/-- does this transaction run through the EVM? (`runTrx`) -/
def viaEvm (s : St) (tx : TxIn) : Prop :=
  tx.type = TRX_CONTRACT ∨ (tx.type = TRX_TRANSFER ∧ (s.findOrNewAcct true tx.to).2.code ≠ "")

instance (s : St) (tx : TxIn) : Decidable (viaEvm s tx) := by unfold viaEvm; infer_instance

/-- value destroyed inside the EVM by one delivered transaction: what left the native balances and
    was neither paid as fee nor credited to another native account (e.g. SELFDESTRUCT to self).
    DEFINED as the difference; `EvmOracleOK` says it is not negative. -/
def evmBurnStep (s : St) : Op → Int
  | .deliver tx =>
    match s.blk with
    | none => 0
    | some b =>
      let r := handleTx s true b.height tx
      if viaEvm s tx ∧ r.2.code = 0 ∧ r.2.panic = "" then
        sumBal s.accts.fin - sumBal r.1.accts.fin - ((wmul r.2.gasUsed r.1.active.gasPrice : Nat) : Int)
      else 0
  | _ => 0

/-- accumulated burns along a history -/
def slashBurnRun : St → List Op → Int
  | _, [] => 0
  | s, op :: ops => slashBurnStep s op + slashBurnRun (step s op).1 ops

def evmBurnRun : St → List Op → Int
  | _, [] => 0
  | s, op :: ops => evmBurnStep s op + evmBurnRun (step s op).1 ops

/-! ### invariants -/

def PowerOK (p : Int) : Prop := 0 ≤ p ∧ p < (two63 : Int)

/-- structural invariants of the three value-carrying ledgers (consensus view) -/
structure Inv0 (s : St) : Prop where
  acctKey : ∀ (k : String) (a : Account), s.accts.fin[k]? = some a → ledgerKey a.addr = k
  delegKey : ∀ (k : String) (d : Delegatee), s.delegs.fin[k]? = some d →
    ledgerKey d.addr = k ∧ d.total = sumPower d.stakes ∧ ∀ st ∈ d.stakes, PowerOK st.power
  frozenKey : ∀ (k : String) (st : Stake), s.frozen.fin[k]? = some st → ledgerKey st.hash = k ∧ PowerOK st.power

/-- every committed unbonding stake is still there, unchanged (until the block's `unfreeze`) -/
def FrozenSync (s : St) : Prop :=
  ∀ (k : String) (st : Stake), s.frozen.committed[k]? = some st → s.frozen.fin[k]? = some st

/-- between blocks the consensus view equals the last committed version (once there is one) -/
def IdleSync (s : St) : Prop :=
  s.accts.hist ≠ [] → (s.accts.fin = s.accts.committed ∧ s.delegs.fin = s.delegs.committed ∧
    s.frozen.fin = s.frozen.committed ∧ s.delegs.hist ≠ [] ∧ s.frozen.hist ≠ [])

/-- phase-indexed invariant: what is conserved is `total` inside a block, `holdings` once the fee
    sum has been handed over (the block context still shows the fee sum until `commit`) -/
structure Inv (p : Phase) (s : St) : Prop where
  inv0 : Inv0 s
  blk : (p = .idle → s.blk = none) ∧ (p ≠ .idle → s.blk ≠ none)
  sync : p ≠ .ended → FrozenSync s
  idle : p = .idle → IdleSync s

/-- what no transaction changes: committed versions, block context, active parameters, fee burn -/
structure Frame (s s' : St) : Prop where
  acctsHist : s'.accts.hist = s.accts.hist
  delegsHist : s'.delegs.hist = s.delegs.hist
  frozenHist : s'.frozen.hist = s.frozen.hist
  blk : s'.blk = s.blk
  active : s'.active = s.active
  feeBurn : s'.ghost.feeBurn = s.ghost.feeBurn

/-- the consensus side of the value-carrying ledgers is untouched (CheckTx path) -/
structure SameFin (s s' : St) : Prop extends Frame s s' where
  accts : s'.accts.fin = s.accts.fin
  delegs : s'.delegs.fin = s.delegs.fin
  frozen : s'.frozen.fin = s.frozen.fin
  withdrawn : s'.ghost.withdrawn = s.ghost.withdrawn

/-- the conserved value in each phase -/
def valueAt (p : Phase) (s : St) : Int := if p = .ended then holdings s else total s

/-! ### hypotheses -/

/-- `SupplyBound`: the total value stays below 2^63 power units (2^63 · 10^18 < 2^123), so neither the
    256-bit amounts nor the int64 voting powers derived from them can wrap around -/
def SupplyBound (s : St) : Prop := total s < ((two63 * amountPerPower : Nat) : Int)
instance (s : St) : Decidable (SupplyBound s) := by unfold SupplyBound; infer_instance

/-- the slashing ratio is a percentage -/
def SlashSane (s : St) : Prop := 0 ≤ s.active.slashRatio ∧ s.active.slashRatio ≤ 100
instance (s : St) : Decidable (SlashSane s) := by unfold SlashSane; infer_instance

/-- freezing the stakes `ss` into the unbonding view `fr` hits no occupied key and no key twice -/
def FreezeSafe (fr : KMap Stake) (ss : List Stake) : Prop :=
  (ss.map fun st => ledgerKey st.hash).Nodup ∧ ∀ st ∈ ss, fr[ledgerKey st.hash]? = none

/-- the stakes a successful unstaking of `hash` from `d` moves into the unbonding ledger -/
def unstakeMoved (d : Delegatee) (hash : Hex) : List Stake :=
  match d.findStake hash with
  | none => []
  | some st => st :: (if (d.delStake hash).self = 0 then (d.delStake hash).stakes else [])

/-- `UniqueFrozenKeys`, DeliverTx part: an unstaking transaction freezes only under free keys -/
def UnstakeFresh (s : St) (tx : TxIn) : Prop :=
  tx.type = TRX_UNSTAKING →
  ∀ (d : Delegatee) (hash : Hex), s.delegs.fin[ledgerKey tx.to]? = some d → tx.payload = .unstaking hash →
    FreezeSafe s.frozen.fin (unstakeMoved d hash)

/-- the stakes `processVote` moves into the unbonding ledger (jailing) -/
def jailedStakes (s : St) (height : Int) (v : VoteIn) : List Stake :=
  if v.signed then [] else
  match s.delegs.get true (ledgerKey v.addr) with
  | none => []
  | some d =>
    let signedHeight := height - 1
    let marked := Delegatee.mark d.notSigned signedHeight
    let h0 := if signedHeight - s.active.signedBlocksWindow < 0 then 0 else signedHeight - s.active.signedBlocksWindow
    if s.active.signedBlocksWindow - ((Delegatee.countInWindow marked h0 signedHeight).1 : Int) < s.active.minSignedBlocks
    then d.stakes else []

/-- every jailing during the vote loop freezes only under free keys (mirror of the loop) -/
def VotesFresh (height : Int) (rl : KMap Delegatee) : St → Nat → List VoteIn → Prop
  | _, _, [] => True
  | s, i, v :: vs =>
    FreezeSafe s.frozen.fin (jailedStakes s height v) ∧
    match processVote s height rl v i with
    | .ok (s', i') => VotesFresh height rl s' i' vs
    | .panic _ => True

/-- state of `beginBlock` after the governance controller's evidence handling -/
def beginGov (s : St) (h : Header) : St :=
  (h.evidence.foldl (fun ((acc, l) : St × List Int) a => let (acc', sl) := govPunish acc a; (acc', l ++ [sl]))
    ({ s with blk := some { height := h.height, time := h.time, proposer := h.proposer } }, [])).1

/-- state of `beginBlock` just before the vote loop (after slashing) -/
def beginPre (s : St) (h : Header) : St :=
  let s := beginGov s h
  match amountToPower s.active.minValidatorStake with
  | .panic _ => s
  | .ok minPower =>
  let all := sortByPower ((s.delegs.committed.toList.map (·.2)).filter fun d => d.self ≥ minPower)
  let s := { s with allDelegs := all,
                    limiter := Limiter.reset all s.active.maxValidatorCnt s.active.maxIndividualStakeRatio s.active.maxUpdatableStakeRatio }
  (h.evidence.foldl (fun ((acc, l) : St × List Int) a =>
    match stakePunish acc a with
    | (acc', some sl) => (acc', l ++ [sl])
    | (acc', none) => (acc', l)) (s, [])).1

/-- the vote loop of `beginBlock` -/
def votesFold (height : Int) (rl : KMap Delegatee) (s : St) (votes : List VoteIn) : Res (St × Nat) :=
  votes.foldl (fun acc v =>
    match acc with
    | .panic p => .panic p
    | .ok (s, issued) => processVote s height rl v issued) (Res.ok (s, 0))

/-- height of the delegatee ledger version used for rewards -/
def hopOf (h : Header) : Int := if h.height - 4 < 0 then 1 else h.height - 4

/-- `UniqueFrozenKeys`, BeginBlock part -/
def JailFresh (s : St) (h : Header) : Prop :=
  ∀ rl, (beginPre s h).delegs.at? (hopOf h) = some rl → VotesFresh h.height rl (beginPre s h) 0 h.votes

/-- BeginBlock runs to completion (no Go panic): right height, parameters convert, reward ledger version
    exists, no reward record regresses -/
def BeginCompletes (s : St) (h : Header) : Prop :=
  h.height = s.lastHeight + 1 ∧
  (∃ p, amountToPower (beginGov s h).active.minValidatorStake = .ok p) ∧
  (h.votes.isEmpty = false →
    ∃ rl r, (beginPre s h).delegs.at? (hopOf h) = some rl ∧ votesFold h.height rl (beginPre s h) h.votes = .ok r)

/-- EndBlock runs to completion (no Go panic) -/
def EndCompletes (s : St) : Prop :=
  ∃ b s1 s2 s3 s4 r, s.blk = some b ∧ freezeProposals s b.height = .ok s1 ∧ applyProposals s1 b.height = .ok s2 ∧
    feeHandover s2 b = .ok s3 ∧ unfreeze s3 b.height = .ok s4 ∧ updateValidators s4 = .ok r

/-- the EVM creates no value: native balances after a successful contract transaction plus the fee
    do not exceed the balances before (recorded assumption about go-ethereum, see C17) -/
def EvmOracleOK (s : St) (tx : TxIn) : Prop := 0 ≤ evmBurnStep s (.deliver tx)

/-- side conditions of one step of a history -/
def StepOK (s : St) : Op → Prop
  | .init _ => False
  | .begin_ h => BeginCompletes s h ∧ SlashSane s ∧ JailFresh s h
  | .deliver tx => SupplyBound s ∧ UnstakeFresh s tx ∧ EvmOracleOK s tx
  | .check _ => True
  | .end_ => EndCompletes s ∧ SupplyBound s
  | .commit => True
  | .restart => s.accts.hist ≠ []      -- a restart before the first commit re-runs InitChain in reality

/-- side conditions along a whole history -/
def RunOK : St → List Op → Prop
  | _, [] => True
  | s, op :: ops => StepOK s op ∧ RunOK (step s op).1 ops

/-- genesis sanity: validator powers are int64-positive range values -/
def GenesisSane (g : Genesis) : Prop := ∀ v ∈ g.vals, PowerOK v.2.2

end Rigo.C02
