/-
  C05 — "later transactions observe the unchanged state" as a behavioural statement: after a failed
  delivery every later delivery behaves as if the failed transaction had never been delivered.
  The congruence itself is `handleTx_congr` / `deliverTx_congr` (RigoProofs/C05CongrTx, C05CongrDeliver).
-/
import RigoProofs.C05CongrDeliver
open Std
set_option linter.unusedSimpArgs false
set_option linter.unusedVariables false
namespace Rigo.C05C
open Rigo

/-- the open statement of `RigoProps/C05.lean` (`Rigo.C05.failed_tx_invisible_statement`), verbatim -/
def failed_tx_invisible_statement : Prop :=
  ∀ (g : Genesis) (s : St), Reachable g s → ∀ tx : TxIn, FeeSane s → 0 < s.active.minTrxFee →
    (∀ a, s.accts.fin[ledgerKey tx.from_]? = some a → a.bal < 2 ^ 256) →
    (∀ o, (deliverTx s tx).2.tx = some o → o.code ≠ 0) →
    ∀ later : TxIn,
      ((deliverTx (deliverTx s tx).1 later).2.tx.map (·.code)) = ((deliverTx s later).2.tx.map (·.code)) ∧
      obs (deliverTx (deliverTx s tx).1 later).1 = obs (deliverTx s later).1

/-- No address whose record the failed `tx` may have created shares its ledger key with a *different*
    address that `later` finds-or-creates (receiver, addresses synced in or out of the EVM).
    Ledger keys are the address padded with zero bytes to 32 bytes, so this can only fail for addresses
    of different lengths (e.g. a 19-byte receiver of the failed transaction and the 20-byte address
    obtained by appending a zero byte). -/
def KeyCompat (tx later : TxIn) : Prop :=
  ∀ x ∈ freshAddrs tx, ∀ a ∈ touched later, ledgerKey x = ledgerKey a → x = a

/-- A successful deployment by `later` lists the created address among the addresses synced in or out
    (go-ethereum creates the account, so it always does), or no record the failed `tx` may have created
    sits under its key. -/
def CreatedListed (tx later : TxIn) : Prop := CreatedOK (· ∈ freshAddrs tx) later

theorem KeyCompat.to {tx later : TxIn} (h : KeyCompat tx later) : Compat (· ∈ freshAddrs tx) later.to :=
  fun x hx hk => h x hx later.to (by simp [touched]) hk

theorem KeyCompat.oracle {tx later : TxIn} (h : KeyCompat tx later) : OracleCompat (· ∈ freshAddrs tx) later := by
  intro o ho
  constructor
  · intro a ha x hx hk
    exact h x hx a (by simp [touched, ho, ha]) hk
  · intro e he x hx hk
    refine h x hx e.1 ?_ hk
    simp only [touched, ho, List.mem_cons, List.mem_append, List.mem_map]
    exact Or.inr (Or.inr ⟨e, he, rfl⟩)

/-- **failed_tx_invisible (partial).**  "Later transactions in the same block observe the unchanged
    state", as a statement about behaviour: after a failed delivery from a reachable state, every later
    delivery answers the same code and ends in an observably equal state as if the failed transaction had
    never been delivered — provided the later transaction does not touch an address that collides
    (same ledger key, different address) with a record the failed transaction created (`KeyCompat`), and
    a deployment's created address is listed by the EVM result (`CreatedListed`).  Since repair 26f8ae4
    (a receiver of a wrong length gets no record) `KeyCompat` matters for 20-byte receivers and EVM
    addresses only: see `failed_tx_invisible_recv` / `failed_tx_invisible_recv20` (RigoProofs/C05Recv.lean);
    the former witness against the unrestricted statement (a 19-byte receiver) is evaluated in
    RigoProofs/C05Collision.lean and no longer violates it. -/
theorem failed_tx_invisible_partial :
    ∀ (g : Genesis) (s : St), Reachable g s → ∀ tx : TxIn, FeeSane s → 0 < s.active.minTrxFee →
    (∀ a, s.accts.fin[ledgerKey tx.from_]? = some a → a.bal < 2 ^ 256) →
    (∀ o, (deliverTx s tx).2.tx = some o → o.code ≠ 0) →
    ∀ later : TxIn, KeyCompat tx later → CreatedListed tx later →
      ((deliverTx (deliverTx s tx).1 later).2.tx.map (·.code)) = ((deliverTx s later).2.tx.map (·.code)) ∧
      obs (deliverTx (deliverTx s tx).1 later).1 = obs (deliverTx s later).1 := by
  intro g s hr tx hF hm hB hf later hK hC
  rcases deliverTx_fail_inv hf with e | ⟨b, _, hc, e⟩
  · rw [e]; exact ⟨rfl, rfl⟩
  · rw [e]
    have hS := handleTx_fail_sim (h := b.height) (AcctInv_reachable hr).1 hF hB hc
    obtain ⟨h1, h2⟩ := deliverTx_congr hS hF hm later hK.to hK.oracle hC
    exact ⟨h1, h2.obs⟩

/-! ### the same with plain well-formedness hypotheses -/

theorem ledgerKey_inj40' {a b : Hex} (ha : a.length = 40) (hb : b.length = 40)
    (h : ledgerKey a = ledgerKey b) : a = b := by
  unfold ledgerKey at h
  have ha' : a.toList.length = 40 := by rw [String.length_toList]; exact ha
  have hb' : b.toList.length = 40 := by rw [String.length_toList]; exact hb
  have h1 := String.ofList_injective h
  rw [List.take_of_length_le (by omega), List.take_of_length_le (by omega)] at h1
  simp only [ha', hb'] at h1
  have h2 := List.append_cancel_right h1
  exact String.toList_injective h2

/-- every address the transaction can find-or-create is a 20-byte address (40 hex digits) -/
def Addrs20 (t : TxIn) : Prop := ∀ a ∈ touched t, a.length = 40

/-- a successful deployment lists the created address among the addresses synced in or out -/
def EvmCreatedListed (t : TxIn) : Prop :=
  ∀ o, t.evm = some o → o.ok = true → isZeroAddr t.to = true →
    (∃ a ∈ o.accessed, ledgerKey a = ledgerKey o.created) ∨ (∃ e ∈ o.synced, ledgerKey e.1 = ledgerKey o.created)

theorem freshAddrs_sub_touched {t : TxIn} {x : Hex} (h : x ∈ freshAddrs t) : x ∈ touched t := by
  unfold freshAddrs at h
  unfold touched
  cases ho : t.evm with
  | none => rw [ho] at h; exact h
  | some o =>
    rw [ho] at h
    simp only [List.mem_cons] at h ⊢
    rcases h with h | h
    · exact Or.inl h
    · exact Or.inr (List.mem_append_left _ h)

/-- **failed_tx_invisible for well-formed transactions**: all receiver / EVM addresses of both
    transactions are 20-byte addresses and the EVM result of a deployment lists the created address. -/
theorem failed_tx_invisible_wf :
    ∀ (g : Genesis) (s : St), Reachable g s → ∀ tx : TxIn, FeeSane s → 0 < s.active.minTrxFee →
    (∀ a, s.accts.fin[ledgerKey tx.from_]? = some a → a.bal < 2 ^ 256) →
    (∀ o, (deliverTx s tx).2.tx = some o → o.code ≠ 0) → Addrs20 tx →
    ∀ later : TxIn, Addrs20 later → EvmCreatedListed later →
      ((deliverTx (deliverTx s tx).1 later).2.tx.map (·.code)) = ((deliverTx s later).2.tx.map (·.code)) ∧
      obs (deliverTx (deliverTx s tx).1 later).1 = obs (deliverTx s later).1 := by
  intro g s hr tx hF hm hB hf hw later hw' hC
  refine failed_tx_invisible_partial g s hr tx hF hm hB hf later ?_ ?_
  · intro x hx a ha hk
    exact ledgerKey_inj40' (hw x (freshAddrs_sub_touched hx)) (hw' a ha) hk
  · intro o ho hok hz
    rcases hC o ho hok hz with h | h
    · exact Or.inl h
    · exact Or.inr (Or.inl h)


end Rigo.C05C
