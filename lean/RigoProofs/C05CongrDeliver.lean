/-
  C05 — congruence pass, part 5: the congruence for `deliverTx`, and the exact shape of the state a
  failed delivery leaves behind (`Sim (· ∈ freshAddrs tx)`).
-/
import RigoProofs.C05CongrTx
open Std
set_option linter.unusedSimpArgs false
set_option linter.unusedVariables false
namespace Rigo.C05C
open Rigo

/-! ### `deliverTx` -/

/-- what `deliverTx` does with the answer of `handleTx` -/
def dPost (b : BlockCtx) (p : St × TxOut) : St × Out :=
  if p.2.panic ≠ "" then (p.1, { panic := p.2.panic, tx := some p.2 }) else
  if p.2.code = 0 then
    ({ p.1 with blk := some { b with feeSum := wadd b.feeSum (wmul p.2.gasUsed p.1.active.gasPrice) } }, { tx := some p.2 })
  else (p.1, { tx := some p.2 })

theorem deliverTx_eq (s : St) (t : TxIn) :
    deliverTx s t = match s.blk with
      | none => (s, { panic := "DeliverTx outside a block" })
      | some b => dPost b (handleTx s true b.height t) := rfl

theorem dPost_tx (b : BlockCtx) (p : St × TxOut) : (dPost b p).2.tx = some p.2 := by
  unfold dPost; split
  · rfl
  · split <;> rfl

theorem dPost_fail (b : BlockCtx) (p : St × TxOut) (h : p.2.code ≠ 0) : (dPost b p).1 = p.1 := by
  unfold dPost; split
  · rfl
  · first | rfl | (rw [if_neg h])

theorem dPost_ok (b : BlockCtx) (p : St × TxOut) (h : p.2.code = 0) (hp : p.2.panic = "") :
    (dPost b p).1 = { p.1 with blk := some { b with feeSum := wadd b.feeSum (wmul p.2.gasUsed p.1.active.gasPrice) } } := by
  unfold dPost
  rw [if_neg (by simp [hp]), if_pos h]

theorem Sim.withBlk {P : Hex → Prop} {t t' : St} (h : Sim P t t') (x : Option BlockCtx) :
    Sim P { t with blk := x } { t' with blk := x } := by
  obtain ⟨e, hE⟩ := h
  refine ⟨?_, hE⟩
  generalize t'.accts.fin = m' at e hE
  subst e
  rfl

/-- the congruence for `deliverTx` -/
theorem deliverTx_congr {P : Hex → Prop} {s1 s2 : St} (hS : Sim P s1 s2) (hF : FeeSane s1)
    (hm : 0 < s1.active.minTrxFee) (t : TxIn) (hto : Compat P t.to)
    (hO : OracleCompat P t) (hC : CreatedOK P t) :
    (deliverTx s2 t).2.tx.map (·.code) = (deliverTx s1 t).2.tx.map (·.code) ∧
    Sim PTrue (deliverTx s1 t).1 (deliverTx s2 t).1 := by
  have hb : s2.blk = s1.blk := by rw [hS.1]; rfl
  rw [deliverTx_eq, deliverTx_eq, hb]
  cases hb1 : s1.blk with
  | none => exact ⟨rfl, hS.top⟩
  | some b =>
    simp only
    obtain ⟨hc, hg, hX⟩ := handleTx_congr hS hF hm b.height t hto hO hC
    refine ⟨by rw [dPost_tx, dPost_tx]; simp [hc], ?_⟩
    by_cases h0 : (handleTx s1 true b.height t).2.code = 0
    · have h0' : (handleTx s2 true b.height t).2.code = 0 := by rw [hc]; exact h0
      rw [dPost_ok b _ h0 (handleTx_ok_panic h0), dPost_ok b _ h0' (handleTx_ok_panic h0'), hg h0]
      have ha : (handleTx s2 true b.height t).1.active = (handleTx s1 true b.height t).1.active := by
        rw [hX.1]; rfl
      rw [ha]
      exact hX.withBlk _
    · have h0' : (handleTx s2 true b.height t).2.code ≠ 0 := by rw [hc]; exact h0
      rw [dPost_fail b _ h0, dPost_fail b _ h0']
      exact hX

/-! ### what a failed delivery leaves behind -/

/-- the addresses whose (empty) record a failed delivery of `tx` can create: the receiver and the
    addresses the EVM synced in -/
def freshAddrs (tx : TxIn) : List Hex :=
  tx.to :: (match tx.evm with | some o => o.accessed | none => [])

/-- the addresses whose record the delivery of `t` can find-or-create -/
def touched (t : TxIn) : List Hex :=
  t.to :: (match t.evm with | some o => o.accessed ++ o.synced.map (·.1) | none => [])

theorem EmptyExtP_findOrNew {P : Hex → Prop} (s : St) (a : Hex) (pa : P a) :
    EmptyExtP P s.accts.fin (s.findOrNewAcct true a).1.accts.fin := by
  intro k
  rw [findOrNew_fin_get]
  split
  · next h => exact Or.inr ⟨h.2, a, pa, h.1, rfl⟩
  · exact Or.inl rfl

theorem EmptyExtP_evmAccessed {P : Hex → Prop} (l : List Hex) : ∀ (s : St), (∀ a ∈ l, P a) →
    EmptyExtP P s.accts.fin (evmAccessed s l).accts.fin := by
  induction l with
  | nil => intro s _; exact EmptyExtP.refl P _
  | cons a l ih =>
    intro s hP
    rw [evmAccessed_cons]
    exact (EmptyExtP_findOrNew s a (hP a List.mem_cons_self)).trans
      (ih _ (fun b hb => hP b (List.mem_cons_of_mem _ hb)))

theorem handleTx_fail_extP {s : St} {h : Int} {tx : TxIn} (hc : (handleTx s true h tx).2.code ≠ 0) :
    EmptyExtP (· ∈ freshAddrs tx) s.accts.fin (handleTx s true h tx).1.accts.fin := by
  have e0 : EmptyExtP (· ∈ freshAddrs tx) s.accts.fin (s.findOrNewAcct true tx.to).1.accts.fin :=
    EmptyExtP_findOrNew s tx.to (by simp [freshAddrs])
  rcases handleTx_fail_inv hc with e | e | ⟨sender, s1, hs, hv, hrun⟩
  · rw [e]; exact EmptyExtP.refl _ _
  · rw [e]; exact e0
  · obtain ⟨_, _, htv⟩ := validateTrx_ok hv
    obtain ⟨⟨l, hl⟩, _⟩ := typeValidate_state htv
    have ef : s1.accts.fin = (s.findOrNewAcct true tx.to).1.accts.fin := by rw [hl]
    rcases hrun with ⟨e, _, es⟩ | ⟨s2, g, k, hr, es⟩
    · rw [es, ef]; exact e0
    · rw [es]
      by_cases hvia : viaEvm tx (s.findOrNewAcct true tx.to).2
      · rw [runTrx_evm hvia] at hr
        cases hx : execEvm s1 true tx with
        | error e => rw [hx] at hr; simp [Except.bind] at hr
        | ok r =>
          rw [hx] at hr
          simp only [Except.bind] at hr
          split at hr
          · rename_i hfail
            simp at hr
            obtain ⟨o, ho, hcase⟩ := execEvm_inv hx
            rcases hcase with ⟨_, er⟩ | ⟨_, hnone, _⟩
            · rw [← hr.1, er]
              simp only
              have hA : EmptyExtP (· ∈ freshAddrs tx) s1.accts.fin (evmAccessed s1 o.accessed).accts.fin :=
                EmptyExtP_evmAccessed o.accessed s1 (fun a ha => by simp [freshAddrs, ho, ha])
              rw [ef] at hA
              exact e0.trans hA
            · rw [hnone] at hfail; simp at hfail
          · simp at hr
      · have := (runTrx_native_ok hvia hr).1
        simp at this

/-- after a failed delivery the state is the old one plus empty records of `freshAddrs tx` -/
theorem handleTx_fail_sim {s : St} {h : Int} {tx : TxIn} (hA : AddrOK s.accts.fin) (hF : FeeSane s)
    (hB : SenderBalSane s tx) (hc : (handleTx s true h tx).2.code ≠ 0) :
    Sim (· ∈ freshAddrs tx) s (handleTx s true h tx).1 := by
  refine ⟨?_, handleTx_fail_extP hc⟩
  obtain ⟨l, e, _⟩ := handleTx_fail_shape hc
  have hl := handleTx_fail_limiter hA hF hB hc
  have : l = s.limiter := by rw [e] at hl; exact hl
  rw [this] at e
  exact e

end Rigo.C05C
