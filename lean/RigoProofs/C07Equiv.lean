/-
  C07 (part 2): BeginBlock overwrites `allDelegs` and `limiter` before any use, hence a restarted
  node and a node that kept running produce the same consensus outputs from a block boundary on.
-/
import RigoProofs.C07Restart

namespace Rigo
namespace C07

open C06 (eraseChk consEq E Op.isCheck consOuts)

/-- overwrite the volatile fields in the first component -/
def PW {β : Type} (A : List Delegatee) (L : Limiter) (x : St × β) : St × β := (W A L x.1, x.2)

theorem govPunish_W (A : List Delegatee) (L : Limiter) (s : St) (a : Hex) :
    govPunish (W A L s) a = PW A L (govPunish s a) := by
  unfold govPunish
  show List.foldl _ (PW A L (s, 0)) _ = _
  refine C06.foldl_comm (PW A L) _ ?_ _ (s, 0)
  intro x k
  obtain ⟨acc, sum⟩ := x
  have hg : (W A L acc).props.get true k = acc.props.get true k := rfl
  dsimp only [PW]
  rw [hg]
  cases acc.props.get true k <;> rfl

theorem bbGov_W (A : List Delegatee) (L : Limiter) (s : St) (h : Header) :
    C06.bbGov (W A L s) h = PW A L (C06.bbGov s h) := by
  unfold C06.bbGov
  exact C06.foldl_comm (PW A L) _ (by intro x a; simp only [PW, govPunish_W]) h.evidence
    ({ s with blk := some { height := h.height, time := h.time, proposer := h.proposer } }, [])

theorem bbElig_W (A : List Delegatee) (L : Limiter) (s : St) (mp : Int) : C06.bbElig (W A L s) mp = C06.bbElig s mp := rfl

theorem govPunish_active (s : St) (a : Hex) : (govPunish s a).1.active = s.active := by
  unfold govPunish
  refine C19.foldl_inv (fun (x : St × Int) => x.1.active = s.active) _ ?_ _ (s, 0) rfl
  intro x k hx
  obtain ⟨acc, sum⟩ := x
  dsimp only at hx ⊢
  split
  · exact hx
  · exact hx

theorem bbGov_active (s : St) (h : Header) : (C06.bbGov s h).1.active = s.active := by
  unfold C06.bbGov
  refine C19.foldl_inv (fun (x : St × List Int) => x.1.active = s.active) _ ?_ _ _ rfl
  intro x a hx
  dsimp only
  rw [govPunish_active]; exact hx

/-- `AmountToPower(minValidatorStake)` does not panic (true whenever `minValidatorStake < 2^63·10^18`);
    a panic in BeginBlock kills the real node (C09) -/
def MinStakeOK (s : St) : Prop := ∃ mp, amountToPower s.active.minValidatorStake = .ok mp

/-- an accepted BeginBlock does not depend on `allDelegs` / `limiter` at all (it recomputes both) -/
theorem beginBlock_W (A : List Delegatee) (L : Limiter) (s : St) (h : Header) (hh : h.height = s.lastHeight + 1)
    (hm : MinStakeOK s) : beginBlock (W A L s) h = beginBlock s h := by
  obtain ⟨mp, hm⟩ := hm
  have hh' : ¬ h.height ≠ s.lastHeight + 1 := by simpa using hh
  have hh'' : ¬ h.height ≠ (W A L s).lastHeight + 1 := hh'
  have ha : (W A L (C06.bbGov s h).1).active = s.active := bbGov_active s h
  rw [C06.beginBlock_eq, C06.beginBlock_eq, if_neg hh', if_neg hh'']
  simp only [bbGov_W, PW, bbElig_W, ha, bbGov_active, hm]

theorem E_of_volEq {s₁ s₂ : St} (h : volEq s₁ s₂) : E s₂ = W s₂.allDelegs s₂.limiter (E s₁) := by
  have h1 : E s₂ = W s₂.allDelegs s₂.limiter (eraseVolatile s₂) := rfl
  have h2 : W s₂.allDelegs s₂.limiter (eraseVolatile s₁) = W s₂.allDelegs s₂.limiter (E s₁) := rfl
  rw [h1, ← show eraseVolatile s₁ = eraseVolatile s₂ from h, h2]

theorem lastHeight_of_volEq {s₁ s₂ : St} (h : volEq s₁ s₂) : s₁.lastHeight = s₂.lastHeight :=
  congrArg (fun s => s.lastHeight) (show eraseVolatile s₁ = eraseVolatile s₂ from h)

theorem blk_of_volEq {s₁ s₂ : St} (h : volEq s₁ s₂) : s₁.blk = s₂.blk :=
  congrArg (fun s => s.blk) (show eraseVolatile s₁ = eraseVolatile s₂ from h)

/-- BeginBlock on two states that differ only in `allDelegs`, `limiter` and mempool views: equal
    outputs; if the height is accepted the resulting states agree on everything except the mempool
    views; if it is refused both states are returned unchanged. -/
theorem beginBlock_of_volEq {s₁ s₂ : St} (hv : volEq s₁ s₂) (h : Header) (hm : MinStakeOK s₁) :
    (beginBlock s₁ h).2 = (beginBlock s₂ h).2 ∧
    (h.height = s₁.lastHeight + 1 → consEq (beginBlock s₁ h).1 (beginBlock s₂ h).1) ∧
    (h.height ≠ s₁.lastHeight + 1 → (beginBlock s₁ h).1 = s₁ ∧ (beginBlock s₂ h).1 = s₂) := by
  have hl := lastHeight_of_volEq hv
  by_cases hh : h.height = s₁.lastHeight + 1
  · have hE : beginBlock (E s₂) h = beginBlock (E s₁) h := by
      rw [E_of_volEq hv]; exact beginBlock_W _ _ (E s₁) h hh hm
    rw [C06.beginBlock_E, C06.beginBlock_E] at hE
    have h1' := congrArg Prod.fst hE
    have h2' := congrArg Prod.snd hE
    have h1 : E (beginBlock s₂ h).1 = E (beginBlock s₁ h).1 := h1'
    have h2 : (beginBlock s₂ h).2 = (beginBlock s₁ h).2 := h2'
    exact ⟨h2.symm, fun _ => h1.symm, fun hne => absurd hh hne⟩
  · have r1 := beginBlock_refused s₁ h hh
    have r2 := beginBlock_refused s₂ h (hl ▸ hh)
    rw [r1, r2]
    exact ⟨rfl, fun he => absurd he hh, fun _ => ⟨rfl, rfl⟩⟩

/-! ### the simulation -/

/-- the relation between the restarted and the continuous node: equal consensus views, or (until
    the next accepted BeginBlock) equal up to `allDelegs` / `limiter` with no block open -/
def Rel (s₁ s₂ : St) : Prop := consEq s₁ s₂ ∨ (volEq s₁ s₂ ∧ s₁.blk = none)

theorem Rel.volEq {s₁ s₂ : St} (h : Rel s₁ s₂) : volEq s₁ s₂ := by
  rcases h with h | h
  · exact volEq_of_consEq h
  · exact h.1

theorem rel_check {s₁ s₂ : St} (h : Rel s₁ s₂) (t₁ t₂ : TxIn) : Rel (checkTx s₁ t₁).1 (checkTx s₂ t₂).1 := by
  have c1 := C06.checkTx_consEq s₁ t₁
  have c2 := C06.checkTx_consEq s₂ t₂
  rcases h with h | ⟨hv, hb⟩
  · exact Or.inl (c1.trans (h.trans c2.symm))
  · refine Or.inr ⟨(volEq_of_consEq c1).trans (hv.trans (volEq_of_consEq c2.symm)), ?_⟩
    have : (checkTx s₁ t₁).1.blk = s₁.blk := congrArg (fun s => s.blk) (show eraseChk _ = eraseChk _ from c1)
    rw [this]; exact hb

theorem minStakeOK_of_volEq {s₁ s₂ : St} (h : volEq s₁ s₂) (hm : MinStakeOK s₂) : MinStakeOK s₁ := by
  have : s₁.active = s₂.active := congrArg (fun s => s.active) (show eraseVolatile s₁ = eraseVolatile s₂ from h)
  unfold MinStakeOK; rw [this]; exact hm

/-- no BeginBlock of the run hits the `AmountToPower(minValidatorStake)` panic -/
def BeginsOK (s : St) : List Op → Prop
  | [] => True
  | op :: ops => ((∃ h, op = .begin_ h) → MinStakeOK s) ∧ BeginsOK (step s op).1 ops

/-- every consensus operation keeps the relation and gives EQUAL outcomes -/
theorem rel_step {s₁ s₂ : St} (h : Rel s₁ s₂) (op : Op) (hop : Op.isCheck op = false)
    (hm : (∃ h, op = .begin_ h) → MinStakeOK s₂) :
    Rel (step s₁ op).1 (step s₂ op).1 ∧ (step s₁ op).2 = (step s₂ op).2 := by
  rcases h with h | ⟨hv, hb⟩
  · have := C06.step_consEq h op hop
    exact ⟨Or.inl this.1, this.2⟩
  · have hb2 : s₂.blk = none := (blk_of_volEq hv).symm.trans hb
    cases op with
    | init g => exact ⟨Or.inl (consEq.refl _), rfl⟩
    | check tx => simp [Op.isCheck] at hop
    | begin_ hd =>
      obtain ⟨ho, hacc, href⟩ := beginBlock_of_volEq hv hd (minStakeOK_of_volEq hv (hm ⟨hd, rfl⟩))
      refine ⟨?_, ho⟩
      by_cases hh : hd.height = s₁.lastHeight + 1
      · exact Or.inl (hacc hh)
      · obtain ⟨r1, r2⟩ := href hh
        show Rel (beginBlock s₁ hd).1 (beginBlock s₂ hd).1
        rw [r1, r2]; exact Or.inr ⟨hv, hb⟩
    | deliver tx =>
      show Rel (deliverTx s₁ tx).1 (deliverTx s₂ tx).1 ∧ (deliverTx s₁ tx).2 = (deliverTx s₂ tx).2
      rw [deliverTx_noblk s₁ tx hb, deliverTx_noblk s₂ tx hb2]
      exact ⟨Or.inr ⟨hv, hb⟩, rfl⟩
    | end_ =>
      show Rel (endBlock s₁).1 (endBlock s₂).1 ∧ (endBlock s₁).2 = (endBlock s₂).2
      rw [endBlock_noblk s₁ hb, endBlock_noblk s₂ hb2]
      exact ⟨Or.inr ⟨hv, hb⟩, rfl⟩
    | commit =>
      show Rel (commit s₁).1 (commit s₂).1 ∧ (commit s₁).2 = (commit s₂).2
      rw [commit_noblk s₁ hb, commit_noblk s₂ hb2]
      exact ⟨Or.inr ⟨hv, hb⟩, rfl⟩
    | restart => exact ⟨Or.inl (restart_consEq_of_volEq hv), rfl⟩

theorem rel_run (ops : List Op) : ∀ (s₁ s₂ : St), Rel s₁ s₂ → BeginsOK s₂ ops →
    Rel (run s₁ ops).1 (run s₂ ops).1 ∧ consOuts ops (run s₁ ops).2 = consOuts ops (run s₂ ops).2 := by
  induction ops with
  | nil => intro s₁ s₂ h _; exact ⟨h, rfl⟩
  | cons op ops ih =>
    intro s₁ s₂ h hok
    obtain ⟨hok1, hok2⟩ := hok
    cases hop : Op.isCheck op with
    | true =>
      cases op with
      | check tx =>
        have := ih _ _ (rel_check h tx tx) hok2
        simpa [run, Op.isCheck, consOuts, step] using this
      | _ => simp [Op.isCheck] at hop
    | false =>
      have h1 := rel_step h op hop hok1
      have := ih _ _ h1.1 hok2
      simp only [run, consOuts, hop] at this ⊢
      refine ⟨this.1, ?_⟩
      simp [this.2, h1.2]

/-- once the consensus views agree they keep agreeing (any schedule, CheckTx included) -/
theorem consEq_run (ops : List Op) {s₁ s₂ : St} (h : consEq s₁ s₂) : consEq (run s₁ ops).1 (run s₂ ops).1 := by
  induction ops generalizing s₁ s₂ with
  | nil => exact h
  | cons op ops ih =>
    simp only [run]
    apply ih
    cases hop : Op.isCheck op with
    | true =>
      cases op with
      | check tx => exact (C06.checkTx_consEq s₁ tx).trans (h.trans (C06.checkTx_consEq s₂ tx).symm)
      | _ => simp [Op.isCheck] at hop
    | false => exact (C06.step_consEq h op hop).1

/-- when also the mempool views agree (no CheckTx since the commit), an accepted BeginBlock makes the
    two nodes' states EQUAL – from then on every outcome, CheckTx included, is the same -/
theorem beginBlock_eq_of_volatile_only {s₁ s₂ : St} (h : W [] {} s₁ = W [] {} s₂) (hd : Header)
    (hh : hd.height = s₁.lastHeight + 1) (hm : MinStakeOK s₂) : beginBlock s₁ hd = beginBlock s₂ hd := by
  have hl : s₁.lastHeight = s₂.lastHeight := congrArg (fun s => s.lastHeight) h
  have ha : s₁.active = s₂.active := congrArg (fun s => s.active) h
  have hm1 : MinStakeOK s₁ := by unfold MinStakeOK; rw [ha]; exact hm
  have e1 := beginBlock_W [] {} s₁ hd hh hm1
  have e2 := beginBlock_W [] {} s₂ hd (hl ▸ hh) hm
  rw [← e1, ← e2, h]


/-- CheckTx calls keep the height and leave no block open/closed -/
theorem exec_checks (s : St) (txs : List TxIn) : consEq (exec s (txs.map Op.check)) s := by
  induction txs generalizing s with
  | nil => exact consEq.refl s
  | cons tx txs ih =>
    rw [List.map_cons, exec_cons]
    exact (ih _).trans (C06.checkTx_consEq s tx)

/-- after the first accepted BeginBlock (preceded by CheckTx calls only) the consensus views of the
    two nodes are equal, and stay equal -/
theorem rel_run_consEq {s₁ s₂ : St} (h : Rel s₁ s₂) (txs : List TxIn) (hd : Header) (rest : List Op)
    (hh : hd.height = s₂.lastHeight + 1) (hm : MinStakeOK s₂) :
    consEq (exec s₁ (txs.map Op.check ++ .begin_ hd :: rest)) (exec s₂ (txs.map Op.check ++ .begin_ hd :: rest)) := by
  rw [exec_append, exec_append, exec_cons, exec_cons]
  have c1 := exec_checks s₁ txs
  have c2 := exec_checks s₂ txs
  have hv : volEq (exec s₁ (txs.map Op.check)) (exec s₂ (txs.map Op.check)) :=
    (volEq_of_consEq c1).trans (h.volEq.trans (volEq_of_consEq c2.symm))
  have hl2 : (exec s₂ (txs.map Op.check)).lastHeight = s₂.lastHeight :=
    congrArg (fun s => s.lastHeight) (show eraseChk _ = eraseChk _ from c2)
  have ha2 : (exec s₂ (txs.map Op.check)).active = s₂.active :=
    congrArg (fun s => s.active) (show eraseChk _ = eraseChk _ from c2)
  have hm2 : MinStakeOK (exec s₂ (txs.map Op.check)) := by unfold MinStakeOK; rw [ha2]; exact hm
  have hb := beginBlock_of_volEq hv hd (minStakeOK_of_volEq hv hm2)
  have hacc := hb.2.1 (by rw [lastHeight_of_volEq hv, hl2]; exact hh)
  exact consEq_run rest hacc

/-- the mempool views hold exactly the consensus views (true right after a Commit and after a restart) -/
def Fresh (s : St) : Prop :=
  s.accts.chk = s.accts.fin ∧ s.delegs.chk = s.delegs.fin ∧ s.frozen.chk = s.frozen.fin ∧
  s.rewards.chk = s.rewards.fin ∧ s.params.chk = s.params.fin ∧ s.props.chk = s.props.fin ∧
  s.fprops.chk = s.fprops.fin

theorem commit_fresh (s : St) (b : BlockCtx) (hb : s.blk = some b) : Fresh (commit s).1 := by
  unfold commit; rw [hb]; exact ⟨rfl, rfl, rfl, rfl, rfl, rfl, rfl⟩

/-- with fresh mempool views, `restart s` and `s` differ in `allDelegs` and `limiter` ONLY -/
theorem restart_fresh {g : Genesis} {s : St} (h : ReachableAtBoundary g s) (hl : 1 ≤ s.lastHeight)
    (hf : Fresh s) : W [] {} (restart s) = W [] {} s := by
  obtain ⟨hb, hc⟩ := boundary_idle h
  obtain ⟨c1, c2, c3, c4, c5, c6, c7, c8⟩ := hc hl
  obtain ⟨d1, d2, d3, d4, d5, d6, d7⟩ := hf
  have ha := restart_active (reachable_of_boundary h)
  have ha' : ((s.params.reopen).committed[zeroHash]?).getD s.active = s.active := ha
  have e : ∀ {α : Type} (l : Led α), l.fin = l.committed → l.chk = l.fin → l.reopen = l := by
    intro α l h1 h2
    cases l with
    | mk hist fin chk =>
      simp only [Led.reopen] at *
      simp only [Led.mk.injEq, true_and]
      exact ⟨h1.symm, h1.symm.trans h2.symm⟩
  unfold W restart
  simp only [e _ c1 d1, e _ c2 d2, e _ c3 d3, e _ c4 d4, e _ c5 d5, e _ c6 d6, e _ c7 d7, c8, hb, St.mk.injEq,
    and_self, true_and, and_true]
  rw [e _ c5 d5] at ha'
  exact ha'

end C07
end Rigo
