/-
  The receiver record of `handleTx` after repair 26f8ae4: a receiver `To` whose length is not 20 bytes
  gets no account record before validation rejects the transaction.

  `handleTxOld` is the definition before the repair (receiver record always found-or-created).
  * `handleTx_goodlen` : for a 20-byte receiver the two definitions agree;
  * `handleTx_badlen`  : for any other receiver the transaction fails in validation with an ordinary
    error (no panic) and the state is returned unchanged.
  Lemmas about `handleTx` are proved by `by_cases` on the receiver length from these two facts.
-/
import Rigo.Block
open Std

namespace Rigo

/-- `handleTx` before repair 26f8ae4 (the receiver record is found or created whatever its length) -/
def handleTxOld (s : St) (exec : Bool) (height : Int) (tx : TxIn) : St × TxOut :=
  let failCode : Nat := if exec then 5 else 3
  if !tx.decodable then (s, { code := failCode, kind := "decode" }) else
  match s.findAcct exec tx.from_ with
  | none => (s, { code := failCode, kind := "noacct" })
  | some sender =>
    let (s0, receiver) := s.findOrNewAcct exec tx.to
    match validateTrx s0 exec height tx sender receiver with
    | .error (.err k) => (s0, { code := failCode, kind := k })
    | .error (.panic site) => (s0, { code := failCode, kind := "panic", panic := site })
    | .ok s1 =>
      match runTrx s1 exec height tx receiver with
      | .error (.err k) => (s1, { code := failCode, kind := k })
      | .error (.panic site) => (s1, { code := failCode, kind := "panic", panic := site })
      | .ok (s2, _, some k) => (s2, { code := failCode, kind := k })
      | .ok (s2, gasUsed, none) => (s2, { code := 0, kind := "ok", gasUsed := gasUsed, gasWanted := tx.gas })

/-- a 20-byte receiver is treated exactly as before the repair -/
theorem handleTx_goodlen {s : St} {exec : Bool} {h : Int} {tx : TxIn} (hl : byteLen tx.to = 20) :
    handleTx s exec h tx = handleTxOld s exec h tx := by
  unfold handleTx handleTxOld
  simp only [hl, if_true]
  rfl

/-- the first validation stage passes only for a 20-byte receiver -/
theorem cv0_to_len {s : St} {exec : Bool} {tx : TxIn} (h : commonValidation0 s exec tx = .ok ()) :
    byteLen tx.to = 20 := by
  apply Classical.byContradiction
  intro hl
  unfold commonValidation0 at h
  simp only [bind, Except.bind, pure, Except.pure, throw, throwThe, MonadExceptOf.throw] at h
  by_cases hf : byteLen tx.from_ = 20 <;> simp [hf, hl] at h

/-- validation rejects a receiver of a wrong length with the error "address" (no panic) -/
theorem validateTrx_badlen {s : St} {exec : Bool} {h : Int} {tx : TxIn} {sender receiver : Account}
    (hl : byteLen tx.to ≠ 20) : validateTrx s exec h tx sender receiver = .error (.err "address") := by
  unfold validateTrx commonValidation0
  simp only [bind, Except.bind, pure, Except.pure, throw, throwThe, MonadExceptOf.throw]
  by_cases hf : byteLen tx.from_ = 20 <;> simp [hf, hl]

/-- a receiver of a wrong length: the transaction fails, no panic, the state is unchanged -/
theorem handleTx_badlen {s : St} {exec : Bool} {h : Int} {tx : TxIn} (hl : byteLen tx.to ≠ 20) :
    ∃ k, handleTx s exec h tx = (s, { code := (if exec then 5 else 3), kind := k }) := by
  unfold handleTx
  simp only [hl, if_false, validateTrx_badlen hl]
  split
  · exact ⟨_, rfl⟩
  split
  · exact ⟨_, rfl⟩
  · exact ⟨_, rfl⟩

theorem handleTx_badlen_fst {s : St} {exec : Bool} {h : Int} {tx : TxIn} (hl : byteLen tx.to ≠ 20) :
    (handleTx s exec h tx).1 = s := by
  obtain ⟨k, e⟩ := handleTx_badlen (s := s) (exec := exec) (h := h) hl; rw [e]

theorem handleTx_badlen_code {s : St} {exec : Bool} {h : Int} {tx : TxIn} (hl : byteLen tx.to ≠ 20) :
    (handleTx s exec h tx).2.code ≠ 0 := by
  obtain ⟨k, e⟩ := handleTx_badlen (s := s) (exec := exec) (h := h) hl; rw [e]
  simp only; split <;> decide

theorem handleTx_badlen_panic {s : St} {exec : Bool} {h : Int} {tx : TxIn} (hl : byteLen tx.to ≠ 20) :
    (handleTx s exec h tx).2.panic = "" := by
  obtain ⟨k, e⟩ := handleTx_badlen (s := s) (exec := exec) (h := h) hl; rw [e]

/-- a successful transaction has a 20-byte receiver -/
theorem handleTx_ok_len {s : St} {exec : Bool} {h : Int} {tx : TxIn}
    (hc : (handleTx s exec h tx).2.code = 0) : byteLen tx.to = 20 :=
  Classical.byContradiction fun hl => handleTx_badlen_code hl hc

/-! ### DeliverTx / CheckTx of a transaction with a receiver of a wrong length -/

/-- DeliverTx of a transaction whose receiver is not 20 bytes long returns the state it was given -/
theorem deliverTx_badlen {s : St} {tx : TxIn} (hl : byteLen tx.to ≠ 20) : (deliverTx s tx).1 = s := by
  unfold deliverTx
  split
  · rfl
  · rename_i b hb
    obtain ⟨k, e⟩ := handleTx_badlen (s := s) (exec := true) (h := b.height) hl
    rw [e]
    simp

/-- ... and answers with the failure code 5 when a block is open -/
theorem deliverTx_badlen_code {s : St} {tx : TxIn} (hl : byteLen tx.to ≠ 20) :
    ∀ o, (deliverTx s tx).2.tx = some o → o.code = 5 := by
  unfold deliverTx
  split
  · intro o ho; simp at ho
  · rename_i b hb
    obtain ⟨k, e⟩ := handleTx_badlen (s := s) (exec := true) (h := b.height) hl
    rw [e]
    intro o ho
    simp at ho
    rw [← ho]

/-- the answer code of such a delivery: 5 inside a block (outside a block there is no answer) -/
theorem deliverTx_badlen_codes {s : St} {tx : TxIn} (hl : byteLen tx.to ≠ 20) :
    (deliverTx s tx).2.tx.map (·.code) = s.blk.map (fun _ => 5) := by
  unfold deliverTx
  split
  · rename_i hb; rw [hb]; rfl
  · rename_i b hb
    obtain ⟨k, e⟩ := handleTx_badlen (s := s) (exec := true) (h := b.height) hl
    rw [e, hb]
    simp

/-- CheckTx of a transaction whose receiver is not 20 bytes long returns the state it was given -/
theorem checkTx_badlen {s : St} {tx : TxIn} (hl : byteLen tx.to ≠ 20) : (checkTx s tx).1 = s := by
  unfold checkTx
  exact handleTx_badlen_fst hl

end Rigo
