/-
  C15: the proposal recorded at submission satisfies the per-proposal invariant: its voters are the
  current validators (each once) with their total powers, nobody has voted, every tally is 0.
-/
import RigoProofs.C15Tx

namespace Rigo.C15
open Rigo

/-- validator lists hold every address at most once -/
def DistinctD (ds : List Delegatee) : Prop := ds.Pairwise (fun a b => a.addr ≠ b.addr)

theorem perm_sum_int {a b : List Int} (h : a.Perm b) : a.sum = b.sum := by
  induction h with
  | nil => rfl
  | cons x _ ih => simp [ih]
  | swap x y l => simp only [List.sum_cons]; omega
  | trans _ _ ih1 ih2 => rw [ih1, ih2]

theorem snapshot_voters_perm (s : St) (tx : TxIn) (a b c d : Int) (opts : List VoteOpt) :
    (snapshotProposal s tx a b c d opts).voters.Perm (s.lastVals.map fun v => ({ addr := v.addr, power := v.total } : Voter)) :=
  List.mergeSort_perm _ _

theorem snapshot_mem {s : St} {tx : TxIn} {a b c d : Int} {opts : List VoteOpt} {v : Voter} :
    v ∈ (snapshotProposal s tx a b c d opts).voters ↔ ∃ dl ∈ s.lastVals, v = { addr := dl.addr, power := dl.total } := by
  rw [(snapshot_voters_perm s tx a b c d opts).mem_iff]
  simp only [List.mem_map]
  constructor
  · rintro ⟨dl, h1, h2⟩; exact ⟨dl, h1, h2.symm⟩
  · rintro ⟨dl, h1, h2⟩; exact ⟨dl, h1, h2.symm⟩

theorem tally_all_unvoted (vs : List Voter) (h : ∀ v ∈ vs, v.choice = -1) (j : Nat) : tally vs j = 0 := by
  induction vs with
  | nil => rfl
  | cons v vs ih =>
    simp only [tally, wsum_cons] at ih ⊢
    have hv := h v (by simp)
    have : ¬ ((-1 : Int) = (j : Int)) := by omega
    rw [ih (fun w hw => h w (List.mem_cons_of_mem _ hw))]
    simp [contrib, hv, this]

theorem snapshot_ok (s : St) (tx : TxIn) (a b c d : Int) (opts : List VoteOpt) (hd : DistinctD s.lastVals) :
    PropOK (snapshotProposal s tx a b c d opts) ∧
    (snapshotProposal s tx a b c d opts).total = powerSum (snapshotProposal s tx a b c d opts).voters ∧
    (∀ v ∈ (snapshotProposal s tx a b c d opts).voters, v.choice = -1) ∧
    (∀ o ∈ (snapshotProposal s tx a b c d opts).options, o.votes = 0) := by
  have hch : ∀ v ∈ (snapshotProposal s tx a b c d opts).voters, v.choice = -1 := by
    intro v hv
    obtain ⟨dl, _, rfl⟩ := snapshot_mem.mp hv
    rfl
  have hvotes : ∀ o ∈ (snapshotProposal s tx a b c d opts).options, o.votes = 0 := by
    intro o ho
    simp only [snapshotProposal, List.mem_map] at ho
    obtain ⟨o0, _, rfl⟩ := ho
    rfl
  refine ⟨⟨?_, ?_, ?_, rfl⟩, ?_, hch, hvotes⟩
  · unfold DistinctAddrs
    refine (snapshot_voters_perm s tx a b c d opts).symm.pairwise ?_ (fun h => fun e => h e.symm)
    exact List.Pairwise.map _ (fun x y hxy => hxy) hd
  · intro v hv; exact Or.inl (hch v hv)
  · intro j o ho
    rw [tally_all_unvoted _ hch j]
    exact hvotes o (List.mem_of_getElem? ho)
  · show (s.lastVals.map (·.total)).sum = _
    have := (snapshot_voters_perm s tx a b c d opts).map (·.power)
    unfold powerSum wsum
    rw [perm_sum_int this]
    simp [List.map_map, Function.comp_def]

end Rigo.C15
