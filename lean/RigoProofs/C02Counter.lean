/-
  C02 counter-example: two genesis validators unstake their (zero-hash) genesis stakes in consecutive
  blocks; the second `frozen.set` overwrites the first unbonding stake and 10 power units of value vanish.
-/
import RigoProofs.C02Init

namespace Rigo.C02.Cex

open Rigo Rigo.C02

def addrA : Hex := "aaaaaaaaaaaaaaaaaaaaaaaaaaaaaaaaaaaaaaaa"
def addrB : Hex := "bbbbbbbbbbbbbbbbbbbbbbbbbbbbbbbbbbbbbbbb"

def P : Params where
  maxValidatorCnt := 21
  minValidatorStake := 1000000000000000000
  minDelegatorStake := 1000000000000000000
  rewardPerPower := 1
  lazyRewardBlocks := 10
  lazyApplyingBlocks := 10
  gasPrice := 1
  minTrxGas := 1
  maxTrxGas := 1000000
  maxBlockGas := 100000000
  minVotingPeriodBlocks := 1
  maxVotingPeriodBlocks := 100
  minSelfStakeRatio := 50
  maxUpdatableStakeRatio := 30
  maxIndividualStakeRatio := 100
  slashRatio := 50
  signedBlocksWindow := 100
  minSignedBlocks := 50
  version := 1

/-- two funded validators with power 10 each -/
def G : Genesis :=
  { chainId := "c", params := P, holders := [(addrA, 100), (addrB, 100)], vals := [("pa", addrA, 10), ("pb", addrB, 10)] }

def unstakeTx (a : Hex) : TxIn :=
  { hash := "", sigOk := true, from_ := a, to := a, nonce := 0, gas := 1, price := 1, type := TRX_UNSTAKING,
    payload := .unstaking zeroHash }

/-- block 1: A unstakes its genesis stake -/
def H1 : List Op := [.begin_ { height := 1 }, .deliver (unstakeTx addrA), .end_, .commit]
/-- block 2: B unstakes its genesis stake (same zero hash, A's stake still unbonding) -/
def H2 : List Op := H1 ++ [.begin_ { height := 2 }, .deliver (unstakeTx addrB), .end_, .commit]

theorem sane : GenesisSane G := by decide
theorem phases : phaseRun .idle H2 = some .idle := by decide
theorem genesis_total : genesisTotal G = 20000000000000000200 := by decide +kernel
theorem run_ok0 : runOK0 (initChain G) H2 = true := by decide +kernel
theorem both_succeed : (run (initChain G) H2).2.map (fun o => o.tx.map (·.code)) =
    [none, some 0, none, none, none, some 0, none, none] := by decide +kernel
theorem after_block1 : total (exec (initChain G) H1) = 20000000000000000199 := by decide +kernel
theorem after_block2 : total (exec (initChain G) H2) = 10000000000000000198 := by decide +kernel
theorem burns : slashBurnRun (initChain G) H2 = 0 ∧ evmBurnRun (initChain G) H2 = 0 ∧
    (exec (initChain G) H2).ghost.feeBurn = 2 ∧ (exec (initChain G) H2).ghost.withdrawn = 0 := by decide +kernel

end Rigo.C02.Cex
