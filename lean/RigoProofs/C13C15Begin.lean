/-
  C13 / C15: `beginBlock` split into named stages (block context, governance punishment, eligible
  delegatees + limiter, stake punishment, votes), with an elimination principle for the result state.
-/
import RigoProofs.C13C15TxFrame

namespace Rigo

/-- stage A: the block context is installed -/
def bbA (s : St) (h : Header) : St :=
  { s with blk := some { height := h.height, time := h.time, proposer := h.proposer } }

/-- stage B: governance punishes the voters named in the evidence -/
def bGov (s : St) (ev : List Hex) : St × List Int :=
  ev.foldl (fun (acc, l) a => let (acc', sl) := govPunish acc a; (acc', l ++ [sl])) (s, [])

/-- stage C: eligible delegatees from the committed ledger, limiter reset -/
def bbC (s : St) (minPower : Int) : St :=
  let all := sortByPower ((s.delegs.committed.toList.map (·.2)).filter fun d => d.self ≥ minPower)
  { s with allDelegs := all,
           limiter := Limiter.reset all s.active.maxValidatorCnt s.active.maxIndividualStakeRatio s.active.maxUpdatableStakeRatio }

/-- stage D: the stake controller slashes the byzantine validators -/
def bStake (s : St) (ev : List Hex) : St × List Int :=
  ev.foldl (fun (acc, l) a =>
    match stakePunish acc a with
    | (acc', some sl) => (acc', l ++ [sl])
    | (acc', none) => (acc', l)) (s, [])

/-- stage E: rewards for signers, missed-block marks and jailing for non-signers -/
def voteStep (height : Int) (rl : KMap Delegatee) (acc : Res (St × Nat)) (v : VoteIn) : Res (St × Nat) :=
  match acc with
  | .panic p => .panic p
  | .ok (s, issued) => processVote s height rl v issued

def bVotes (s : St) (height : Int) (rl : KMap Delegatee) (votes : List VoteIn) : Res (St × Nat) :=
  votes.foldl (voteStep height rl) (Res.ok (s, 0))

/-- the ledger version the rewards are computed from -/
def hopOf (height : Int) : Int := if height - 4 < 0 then 1 else height - 4

theorem beginBlock_staged (s : St) (h : Header) :
    beginBlock s h =
      if h.height ≠ s.lastHeight + 1 then (s, { panic := "BeginBlock: error block height" }) else
      match amountToPower (bGov (bbA s h) h.evidence).1.active.minValidatorStake with
      | .panic p => ((bGov (bbA s h) h.evidence).1, { panic := p })
      | .ok minPower =>
        if h.votes.isEmpty then
          ((bStake (bbC (bGov (bbA s h) h.evidence).1 minPower) h.evidence).1, { punishG := (bGov (bbA s h) h.evidence).2 })
        else
        match (bStake (bbC (bGov (bbA s h) h.evidence).1 minPower) h.evidence).1.delegs.at? (hopOf h.height) with
        | none => ((bStake (bbC (bGov (bbA s h) h.evidence).1 minPower) h.evidence).1,
                   { panic := "BeginBlock: reward ledger version does not exist" })
        | some rl =>
          match bVotes (bStake (bbC (bGov (bbA s h) h.evidence).1 minPower) h.evidence).1 h.height rl h.votes with
          | .panic p => ((bStake (bbC (bGov (bbA s h) h.evidence).1 minPower) h.evidence).1, { panic := p })
          | .ok (s', issued) =>
            (s', { issued := some issued, punishS := (bStake (bbC (bGov (bbA s h) h.evidence).1 minPower) h.evidence).2,
                   punishG := (bGov (bbA s h) h.evidence).2 }) := by
  rfl

/-- the result state of `beginBlock` is the input, or the state after one of the stages -/
theorem beginBlock_ind (s : St) (h : Header) (P : St → Prop) (h0 : P s)
    (hB : h.height = s.lastHeight + 1 → P (bGov (bbA s h) h.evidence).1)
    (hD : h.height = s.lastHeight + 1 → ∀ minPower,
      amountToPower (bGov (bbA s h) h.evidence).1.active.minValidatorStake = .ok minPower →
      P (bStake (bbC (bGov (bbA s h) h.evidence).1 minPower) h.evidence).1)
    (hE : h.height = s.lastHeight + 1 → ∀ minPower rl s' issued,
      amountToPower (bGov (bbA s h) h.evidence).1.active.minValidatorStake = .ok minPower →
      (bStake (bbC (bGov (bbA s h) h.evidence).1 minPower) h.evidence).1.delegs.at? (hopOf h.height) = some rl →
      bVotes (bStake (bbC (bGov (bbA s h) h.evidence).1 minPower) h.evidence).1 h.height rl h.votes = .ok (s', issued) →
      P s') :
    P (beginBlock s h).1 := by
  rw [beginBlock_staged]
  by_cases hh : h.height ≠ s.lastHeight + 1
  · rw [if_pos hh]; exact h0
  rw [if_neg hh]
  have hh' : h.height = s.lastHeight + 1 := by omega
  cases ha : amountToPower (bGov (bbA s h) h.evidence).1.active.minValidatorStake with
  | panic p => exact hB hh'
  | ok minPower =>
    simp only []
    by_cases hv : h.votes.isEmpty = true
    · rw [if_pos hv]; exact hD hh' minPower ha
    rw [if_neg hv]
    cases hat : (bStake (bbC (bGov (bbA s h) h.evidence).1 minPower) h.evidence).1.delegs.at? (hopOf h.height) with
    | none => exact hD hh' minPower ha
    | some rl =>
      simp only []
      cases hvo : bVotes (bStake (bbC (bGov (bbA s h) h.evidence).1 minPower) h.evidence).1 h.height rl h.votes with
      | panic p => exact hD hh' minPower ha
      | ok res =>
        obtain ⟨s', issued⟩ := res
        exact hE hh' minPower rl s' issued ha hat hvo

/-- when the reward event is emitted, all stages ran -/
theorem beginBlock_issued {s : St} {h : Header} {n : Nat} (hi : (beginBlock s h).2.issued = some n) :
    h.height = s.lastHeight + 1 ∧ h.votes.isEmpty = false ∧ ∃ minPower rl s',
      amountToPower (bGov (bbA s h) h.evidence).1.active.minValidatorStake = .ok minPower ∧
      (bStake (bbC (bGov (bbA s h) h.evidence).1 minPower) h.evidence).1.delegs.at? (hopOf h.height) = some rl ∧
      bVotes (bStake (bbC (bGov (bbA s h) h.evidence).1 minPower) h.evidence).1 h.height rl h.votes = .ok (s', n) ∧
      (beginBlock s h).1 = s' := by
  rw [beginBlock_staged] at hi ⊢
  by_cases hh : h.height ≠ s.lastHeight + 1
  · rw [if_pos hh] at hi; cases hi
  rw [if_neg hh] at hi ⊢
  have hh' : h.height = s.lastHeight + 1 := by omega
  cases ha : amountToPower (bGov (bbA s h) h.evidence).1.active.minValidatorStake with
  | panic p => rw [ha] at hi; cases hi
  | ok minPower =>
    rw [ha] at hi
    simp only [] at hi ⊢
    by_cases hv : h.votes.isEmpty = true
    · rw [if_pos hv] at hi; cases hi
    rw [if_neg hv] at hi ⊢
    cases hat : (bStake (bbC (bGov (bbA s h) h.evidence).1 minPower) h.evidence).1.delegs.at? (hopOf h.height) with
    | none => rw [hat] at hi; cases hi
    | some rl =>
      rw [hat] at hi
      simp only [] at hi ⊢
      cases hvo : bVotes (bStake (bbC (bGov (bbA s h) h.evidence).1 minPower) h.evidence).1 h.height rl h.votes with
      | panic p => rw [hvo] at hi; cases hi
      | ok res =>
        obtain ⟨s', issued⟩ := res
        rw [hvo] at hi
        simp only [Option.some.injEq] at hi
        subst hi
        exact ⟨hh', by simpa using hv, minPower, rl, s', rfl, hat, hvo, rfl⟩

/-! ### frames of the stages -/

/-- what `beginBlock` never changes -/
def BFr (s s' : St) : Prop :=
  s'.params = s.params ∧ s'.fprops = s.fprops ∧ s'.active = s.active ∧ s'.pending = s.pending ∧
  s'.lastVals = s.lastVals ∧ s'.lastHeight = s.lastHeight ∧ s'.chainId = s.chainId ∧ s'.accts = s.accts ∧
  s'.delegs.hist = s.delegs.hist ∧ s'.rewards.hist = s.rewards.hist ∧ s'.props.hist = s.props.hist ∧
  s'.ghost = s.ghost

theorem BFr.refl (s : St) : BFr s s := by simp [BFr]
theorem BFr.trans {a b c : St} (h1 : BFr a b) (h2 : BFr b c) : BFr a c := by unfold BFr at *; simp_all

/-- unchanged apart from the block context, the eligible-delegatee list and the limiter -/
def SameLedgers (s s' : St) : Prop := s'.rewards = s.rewards ∧ s'.props = s.props ∧ s'.delegs = s.delegs ∧ s'.frozen = s.frozen

theorem bbA_fr (s : St) (h : Header) : BFr s (bbA s h) ∧ SameLedgers s (bbA s h) := by
  simp [BFr, SameLedgers, bbA]

theorem bbC_fr (s : St) (m : Int) : BFr s (bbC s m) ∧ SameLedgers s (bbC s m) ∧ (bbC s m).blk = s.blk := by
  simp [BFr, SameLedgers, bbC]

/-- `govPunish` touches the open proposals only -/
def OnlyProps (s s' : St) : Prop :=
  BFr s s' ∧ s'.rewards = s.rewards ∧ s'.delegs = s.delegs ∧ s'.frozen = s.frozen ∧ s'.blk = s.blk ∧
  s'.allDelegs = s.allDelegs ∧ s'.limiter = s.limiter

theorem OnlyProps.refl (s : St) : OnlyProps s s := by simp [OnlyProps, BFr]
theorem OnlyProps.trans {a b c : St} (h1 : OnlyProps a b) (h2 : OnlyProps b c) : OnlyProps a c := by
  unfold OnlyProps BFr at *; simp_all

theorem govPunish_fr (s : St) (a : Hex) : OnlyProps s (govPunish s a).1 := by
  unfold govPunish
  simp only []
  generalize (List.map (fun x => x.1) (List.filter (fun x => x.2.voters.any (·.addr == a)) s.props.committed.toList)) = targets
  suffices h : ∀ (acc : St × Int), OnlyProps s acc.1 → OnlyProps s (targets.foldl (fun (x : St × Int) k =>
      match x with
      | (acc, sum) =>
        match acc.props.get true k with
        | none => (acc, sum)
        | some p =>
          let (p', sl) := p.doPunish a acc.active.slashRatio
          ({ acc with props := acc.props.set true k p' }, sum + sl)) acc).1 from h (s, 0) (OnlyProps.refl s)
  induction targets with
  | nil => intro acc h; exact h
  | cons k ks ih =>
    intro acc h
    simp only [List.foldl_cons]
    apply ih
    obtain ⟨acc, sum⟩ := acc
    simp only []
    split
    · exact h
    · refine h.trans ?_
      simp [OnlyProps, BFr]

theorem bGov_fr (s : St) (ev : List Hex) : OnlyProps s (bGov s ev).1 := by
  unfold bGov
  suffices h : ∀ (acc : St × List Int), OnlyProps s acc.1 → OnlyProps s (ev.foldl (fun (x : St × List Int) a =>
      match x with
      | (acc, l) => let (acc', sl) := govPunish acc a; (acc', l ++ [sl])) acc).1 from h (s, []) (OnlyProps.refl s)
  induction ev with
  | nil => intro acc h; exact h
  | cons a as ih =>
    intro acc h
    simp only [List.foldl_cons]
    apply ih
    obtain ⟨acc, l⟩ := acc
    exact h.trans (govPunish_fr acc a)

/-- `stakePunish` touches the delegatees only -/
def OnlyDelegs (s s' : St) : Prop :=
  BFr s s' ∧ s'.rewards = s.rewards ∧ s'.props = s.props ∧ s'.frozen = s.frozen ∧ s'.blk = s.blk ∧
  s'.allDelegs = s.allDelegs ∧ s'.limiter = s.limiter

theorem OnlyDelegs.refl (s : St) : OnlyDelegs s s := by simp [OnlyDelegs, BFr]
theorem OnlyDelegs.trans {a b c : St} (h1 : OnlyDelegs a b) (h2 : OnlyDelegs b c) : OnlyDelegs a c := by
  unfold OnlyDelegs BFr at *; simp_all

theorem stakePunish_fr (s : St) (a : Hex) : OnlyDelegs s (stakePunish s a).1 := by
  unfold stakePunish
  split
  · exact OnlyDelegs.refl s
  · simp [OnlyDelegs, BFr]

theorem bStake_fr (s : St) (ev : List Hex) : OnlyDelegs s (bStake s ev).1 := by
  unfold bStake
  suffices h : ∀ (acc : St × List Int), OnlyDelegs s acc.1 → OnlyDelegs s (ev.foldl (fun (x : St × List Int) a =>
      match x with
      | (acc, l) =>
        match stakePunish acc a with
        | (acc', some sl) => (acc', l ++ [sl])
        | (acc', none) => (acc', l)) acc).1 from h (s, []) (OnlyDelegs.refl s)
  induction ev with
  | nil => intro acc h; exact h
  | cons a as ih =>
    intro acc h
    simp only [List.foldl_cons]
    apply ih
    obtain ⟨acc, l⟩ := acc
    have := govPunish_fr acc a
    have h2 := stakePunish_fr acc a
    simp only []
    split
    · rename_i heq; rw [heq] at h2; exact h.trans h2
    · rename_i heq; rw [heq] at h2; exact h.trans h2

/-- the votes stage leaves proposals, block context and eligible list alone -/
def VFr (s s' : St) : Prop :=
  BFr s s' ∧ s'.props = s.props ∧ s'.blk = s.blk ∧ s'.allDelegs = s.allDelegs ∧ s'.limiter = s.limiter

theorem VFr.refl (s : St) : VFr s s := by simp [VFr, BFr]
theorem VFr.trans {a b c : St} (h1 : VFr a b) (h2 : VFr b c) : VFr a c := by unfold VFr BFr at *; simp_all

/-- one step of `rewardTo` -/
def rewardStep (height : Int) (acc : Res (St × Nat)) (st : Stake) : Res (St × Nat) :=
  match acc with
  | .panic p => .panic p
  | .ok (s, issued) =>
    let w := (s.rewards.get true (ledgerKey st.owner)).getD { addr := st.owner }
    let rwd := wmul ((st.power % (two64 : Int)).toNat) s.active.rewardPerPower
    match w.issue rwd height with
    | .panic p => .panic p
    | .ok w' => .ok ({ s with rewards := s.rewards.set true (ledgerKey st.owner) w' }, wadd issued rwd)

theorem rewardTo_eq (s : St) (d : Delegatee) (height : Int) :
    rewardTo s d height = d.stakes.foldl (rewardStep height) (.ok (s, 0)) := rfl

theorem foldl_rewardStep_panic (height : Int) (l : List Stake) (p : String) :
    l.foldl (rewardStep height) (.panic p) = .panic p := by
  induction l with
  | nil => rfl
  | cons a l ih => simp only [List.foldl_cons, rewardStep]; exact ih

/-- the rewards ledger is the only thing `rewardTo` changes; active parameters stay -/
def OnlyRewards (s s' : St) : Prop := s' = { s with rewards := s'.rewards } ∧ s'.rewards.hist = s.rewards.hist

theorem OnlyRewards.refl (s : St) : OnlyRewards s s := ⟨rfl, rfl⟩
theorem OnlyRewards.trans {a b c : St} (h1 : OnlyRewards a b) (h2 : OnlyRewards b c) : OnlyRewards a c := by
  obtain ⟨e1, g1⟩ := h1
  obtain ⟨e2, g2⟩ := h2
  refine ⟨?_, by rw [g2, g1]⟩
  rw [e2]; rw [e1]
theorem OnlyRewards.vfr {s s' : St} (h : OnlyRewards s s') : VFr s s' := by
  obtain ⟨e, g⟩ := h
  rw [e]; simp [VFr, BFr, g]

theorem rewardStep_only {height : Int} {s s' : St} {i i' : Nat} {st : Stake}
    (h : rewardStep height (.ok (s, i)) st = .ok (s', i')) : OnlyRewards s s' := by
  unfold rewardStep at h
  simp only [] at h
  split at h
  · cases h
  · cases h; exact ⟨rfl, by simp⟩

theorem foldl_rewardStep_only (height : Int) (l : List Stake) (s : St) (i : Nat) (s' : St) (i' : Nat)
    (h : l.foldl (rewardStep height) (.ok (s, i)) = .ok (s', i')) : OnlyRewards s s' := by
  induction l generalizing s i with
  | nil => simp only [List.foldl_nil] at h; cases h; exact OnlyRewards.refl _
  | cons a l ih =>
    simp only [List.foldl_cons] at h
    cases hs : rewardStep height (.ok (s, i)) a with
    | panic p => rw [hs, foldl_rewardStep_panic] at h; cases h
    | ok r =>
      obtain ⟨s1, i1⟩ := r
      rw [hs] at h
      exact (rewardStep_only hs).trans (ih s1 i1 h)

theorem rewardTo_only {s s' : St} {d : Delegatee} {height : Int} {i : Nat} (h : rewardTo s d height = .ok (s', i)) :
    OnlyRewards s s' := by
  rw [rewardTo_eq] at h; exact foldl_rewardStep_only _ _ _ _ _ _ h

/-- the delegatee of a non-signer after the missed block is marked and the window pruned -/
def markedDeleg (s : St) (height : Int) (d : Delegatee) : Delegatee :=
  let signedHeight := height - 1
  let marked := Delegatee.mark d.notSigned signedHeight
  let h0 := if signedHeight - s.active.signedBlocksWindow < 0 then 0 else signedHeight - s.active.signedBlocksWindow
  { d with notSigned := (Delegatee.countInWindow marked h0 signedHeight).2 }

def missedCount (s : St) (height : Int) (d : Delegatee) : Nat :=
  let signedHeight := height - 1
  let marked := Delegatee.mark d.notSigned signedHeight
  let h0 := if signedHeight - s.active.signedBlocksWindow < 0 then 0 else signedHeight - s.active.signedBlocksWindow
  (Delegatee.countInWindow marked h0 signedHeight).1

theorem processVote_unsigned (s : St) (height : Int) (rl : KMap Delegatee) (v : VoteIn) (issued : Nat)
    (hv : v.signed = false) :
    processVote s height rl v issued =
      match s.delegs.get true (ledgerKey v.addr) with
      | none => .ok (s, issued)
      | some d =>
        if s.active.signedBlocksWindow - (missedCount s height d : Int) < s.active.minSignedBlocks then
          .ok ({ s with frozen := freezeAll s.frozen true (markedDeleg s height d).delAllStakes.2 (height + s.active.lazyRewardBlocks),
                        delegs := (s.delegs.set true (ledgerKey (markedDeleg s height d).addr) (markedDeleg s height d)).del true
                          (ledgerKey (markedDeleg s height d).addr) }, issued)
        else .ok ({ s with delegs := s.delegs.set true (ledgerKey (markedDeleg s height d).addr) (markedDeleg s height d) }, issued) := by
  unfold processVote
  rw [if_neg (by simp [hv])]
  rfl

theorem processVote_signed (s : St) (height : Int) (rl : KMap Delegatee) (v : VoteIn) (issued : Nat)
    (hv : v.signed = true) :
    processVote s height rl v issued =
      match rl[ledgerKey v.addr]? with
      | none => .ok (s, issued)
      | some d =>
        if d.total ≠ v.power then .ok (s, issued)
        else match rewardTo s d height with
          | .panic p => .panic p
          | .ok (s', i) => .ok (s', wadd issued i) := by
  unfold processVote
  rw [if_pos hv]
  rfl

theorem processVote_vfr {s s' : St} {height : Int} {rl : KMap Delegatee} {v : VoteIn} {i i' : Nat}
    (h : processVote s height rl v i = .ok (s', i')) : VFr s s' := by
  cases hv : v.signed with
  | true =>
    rw [processVote_signed _ _ _ _ _ hv] at h
    split at h
    · cases h; exact VFr.refl _
    · split at h
      · cases h; exact VFr.refl _
      · split at h
        · cases h
        · rename_i hr; cases h; exact (rewardTo_only hr).vfr
  | false =>
    rw [processVote_unsigned _ _ _ _ _ hv] at h
    split at h
    · cases h; exact VFr.refl _
    · split at h
      · cases h; simp [VFr, BFr]
      · cases h; simp [VFr, BFr]

theorem foldl_voteStep_panic (height : Int) (rl : KMap Delegatee) (l : List VoteIn) (p : String) :
    l.foldl (voteStep height rl) (.panic p) = .panic p := by
  induction l with
  | nil => rfl
  | cons a l ih => simp only [List.foldl_cons, voteStep]; exact ih

theorem foldl_voteStep_vfr (height : Int) (rl : KMap Delegatee) (votes : List VoteIn) (s : St) (i : Nat) (s' : St) (i' : Nat)
    (h : votes.foldl (voteStep height rl) (.ok (s, i)) = .ok (s', i')) : VFr s s' := by
  induction votes generalizing s i with
  | nil => simp only [List.foldl_nil] at h; cases h; exact VFr.refl _
  | cons v vs ih =>
    simp only [List.foldl_cons] at h
    cases hp : voteStep height rl (.ok (s, i)) v with
    | panic p => rw [hp, foldl_voteStep_panic] at h; cases h
    | ok r =>
      obtain ⟨s2, i2⟩ := r
      rw [hp] at h
      exact (processVote_vfr (by simpa [voteStep] using hp)).trans (ih s2 i2 h)

theorem bVotes_vfr {s s' : St} {height : Int} {rl : KMap Delegatee} {votes : List VoteIn} {i' : Nat}
    (h : bVotes s height rl votes = .ok (s', i')) : VFr s s' :=
  foldl_voteStep_vfr _ _ _ _ _ _ _ h

/-- `beginBlock` never touches the governance parameters, the frozen proposals, accounts, the
    validator set, the committed histories or the ghost counters -/
theorem beginBlock_bfr (s : St) (h : Header) : BFr s (beginBlock s h).1 := by
  apply beginBlock_ind s h (fun x => BFr s x)
  · exact BFr.refl s
  · intro _; exact (bbA_fr s h).1.trans (bGov_fr _ _).1
  · intro _ m _
    exact (((bbA_fr s h).1.trans (bGov_fr _ _).1).trans (bbC_fr _ m).1).trans (bStake_fr _ _).1
  · intro _ m rl s' issued _ _ hv
    exact ((((bbA_fr s h).1.trans (bGov_fr _ _).1).trans (bbC_fr _ m).1).trans (bStake_fr _ _).1).trans (bVotes_vfr hv).1

/-- the block context after `beginBlock`: unchanged, or the fresh context of height `lastHeight + 1` -/
theorem beginBlock_blk (s : St) (h : Header) :
    (beginBlock s h).1.blk = s.blk ∨
    (h.height = s.lastHeight + 1 ∧
      (beginBlock s h).1.blk = some { height := h.height, time := h.time, proposer := h.proposer }) := by
  apply beginBlock_ind s h (fun x => x.blk = s.blk ∨ (h.height = s.lastHeight + 1 ∧
      x.blk = some { height := h.height, time := h.time, proposer := h.proposer }))
  · exact Or.inl rfl
  · intro hh; right; refine ⟨hh, ?_⟩
    rw [(bGov_fr _ _).2.2.2.2.1]; rfl
  · intro hh m _; right; refine ⟨hh, ?_⟩
    rw [(bStake_fr _ _).2.2.2.2.1, (bbC_fr _ m).2.2, (bGov_fr _ _).2.2.2.2.1]; rfl
  · intro hh m rl s' issued _ _ hv; right; refine ⟨hh, ?_⟩
    rw [(bVotes_vfr hv).2.2.1, (bStake_fr _ _).2.2.2.2.1, (bbC_fr _ m).2.2, (bGov_fr _ _).2.2.2.2.1]; rfl

end Rigo
