/-
  C05 — congruence pass, part 1: states that differ only in the consensus account map
  (`withFin s m`), and the validation functions, which never read that map.
-/
import RigoProofs.C05Noop
open Std
set_option linter.unusedSimpArgs false
set_option linter.unusedVariables false
namespace Rigo.C05C
open Rigo

def withFin (s : St) (m : KMap Account) : St := { s with accts := { s.accts with fin := m } }

theorem withFin_self (s : St) : withFin s s.accts.fin = s := rfl
theorem withFin_withFin (s : St) (m m' : KMap Account) : withFin (withFin s m) m' = withFin s m' := rfl
section proj
variable (s : St) (m : KMap Account)
@[simp] theorem wf_fin : (withFin s m).accts.fin = m := rfl
@[simp] theorem wf_hist : (withFin s m).accts.hist = s.accts.hist := rfl
@[simp] theorem wf_chk : (withFin s m).accts.chk = s.accts.chk := rfl
@[simp] theorem wf_chainId : (withFin s m).chainId = s.chainId := rfl
@[simp] theorem wf_delegs : (withFin s m).delegs = s.delegs := rfl
@[simp] theorem wf_frozen : (withFin s m).frozen = s.frozen := rfl
@[simp] theorem wf_rewards : (withFin s m).rewards = s.rewards := rfl
@[simp] theorem wf_params : (withFin s m).params = s.params := rfl
@[simp] theorem wf_props : (withFin s m).props = s.props := rfl
@[simp] theorem wf_fprops : (withFin s m).fprops = s.fprops := rfl
@[simp] theorem wf_active : (withFin s m).active = s.active := rfl
@[simp] theorem wf_pending : (withFin s m).pending = s.pending := rfl
@[simp] theorem wf_allDelegs : (withFin s m).allDelegs = s.allDelegs := rfl
@[simp] theorem wf_lastVals : (withFin s m).lastVals = s.lastVals := rfl
@[simp] theorem wf_limiter : (withFin s m).limiter = s.limiter := rfl
@[simp] theorem wf_blk : (withFin s m).blk = s.blk := rfl
@[simp] theorem wf_lastHeight : (withFin s m).lastHeight = s.lastHeight := rfl
@[simp] theorem wf_ghost : (withFin s m).ghost = s.ghost := rfl
end proj

theorem limit_withFin (s : St) (m : KMap Account) (e : Bool) (a : Hex) (t d : Int) :
    (withFin s m).limit e a t d = Except.map (fun r => withFin r m) (s.limit e a t d) := by
  unfold St.limit
  by_cases h : s.lastVals.length ≥ 3
  · simp only [withFin, h, if_true]
    cases s.limiter.check a t d e <;> rfl
  · simp only [withFin, h, if_false]; rfl

theorem limit_ok_withFin {s : St} {m m' : KMap Account} {e : Bool} {a : Hex} {t d : Int} {r : St}
    (h : (withFin s m).limit e a t d = .ok r) : (withFin s m').limit e a t d = .ok (withFin r m') := by
  rw [limit_withFin] at h ⊢
  cases hh : s.limit e a t d with
  | error x => rw [hh] at h; simp [Except.map] at h
  | ok v => rw [hh] at h; simp [Except.map] at h; subst h; rfl

macro "wf_simp" : tactic =>
  `(tactic| simp only [wf_fin, wf_hist, wf_chk, wf_chainId, wf_delegs, wf_frozen, wf_rewards, wf_params, wf_props,
      wf_fprops, wf_active, wf_pending, wf_allDelegs, wf_lastVals, wf_limiter, wf_blk, wf_lastHeight, wf_ghost] at *)


@[simp] theorem withFin_withFin' (s : St) (m m' : KMap Account) : withFin (withFin s m) m' = withFin s m' := rfl

macro "fwd" : tactic =>
  `(tactic| (wf_simp
             simp_all only [bind, Except.bind, pure, Except.pure, throw, throwThe, MonadExceptOf.throw,
               if_false, if_true, ↓reduceIte, not_true_eq_false, not_false_eq_true, withFin_withFin',
               findAcct_true, wf_fin, Bool.false_eq_true, Option.some.injEq, reduceCtorEq]
             try simp_all))

theorem validateStaking_withFin {s : St} {m m' : KMap Account} {e : Bool} {tx : TxIn} {r : St}
    (h : validateStaking (withFin s m) e tx = .ok r) : validateStaking (withFin s m') e tx = .ok (withFin r m') := by
  unfold validateStaking at h ⊢
  step_cases h
  all_goals
    have := limit_ok_withFin (m' := m') h
    fwd

theorem validateUnstaking_withFin {s : St} {m m' : KMap Account} {e : Bool} {tx : TxIn} {r : St}
    (h : validateUnstaking (withFin s m) e tx = .ok r) : validateUnstaking (withFin s m') e tx = .ok (withFin r m') := by
  unfold validateUnstaking at h ⊢
  step_cases h
  all_goals
    have := limit_ok_withFin (m' := m') h
    fwd

theorem validateWithdraw_withFin {s : St} {m m' : KMap Account} {e : Bool} {tx : TxIn} {r : St}
    (h : validateWithdraw (withFin s m) e tx = .ok r) : validateWithdraw (withFin s m') e tx = .ok (withFin r m') := by
  unfold validateWithdraw at h ⊢
  step_cases h
  all_goals
    simp at h; subst h
    fwd

theorem validateProposal_withFin {s : St} {m m' : KMap Account} {e : Bool} {ht : Int} {tx : TxIn} {r : St}
    (h : validateProposal (withFin s m) e ht tx = .ok r) : validateProposal (withFin s m') e ht tx = .ok (withFin r m') := by
  unfold validateProposal at h ⊢
  unfold St.isValidator at h ⊢
  step_cases h
  all_goals
    simp at h; subst h
    fwd

theorem validateVoting_withFin {s : St} {m m' : KMap Account} {e : Bool} {ht : Int} {tx : TxIn} {r : St}
    (h : validateVoting (withFin s m) e ht tx = .ok r) : validateVoting (withFin s m') e ht tx = .ok (withFin r m') := by
  unfold validateVoting at h ⊢
  step_cases h
  all_goals
    simp at h; subst h
    fwd


theorem validateEvm_eq (s : St) (tx : TxIn) (recv : Account) : validateEvm s tx recv =
      (if tx.type ≠ TRX_CONTRACT ∧ recv.code == "" then .error (.err "unknowntype")
       else if tx.gas < intrinsicGas (contractData tx) (isZeroAddr tx.to) then .error (.err "gas") else .ok s) := rfl

theorem typeValidate_withFin {s : St} {m m' : KMap Account} {e : Bool} {ht : Int} {tx : TxIn} {recv : Account} {r : St}
    (h : typeValidate (withFin s m) e ht tx recv = .ok r) : typeValidate (withFin s m') e ht tx recv = .ok (withFin r m') := by
  unfold typeValidate at h ⊢
  split at h
  · rw [if_pos ‹_›]; exact validateProposal_withFin h
  rw [if_neg ‹_›]
  split at h
  · rw [if_pos ‹_›]; exact validateVoting_withFin h
  rw [if_neg ‹_›]
  split at h
  · rw [if_pos ‹_›]; simp [pure, Except.pure] at h ⊢; subst h; rfl
  rw [if_neg ‹_›]
  split at h
  · rw [if_pos ‹_›]
    step_cases h
    simp at h; subst h
    fwd
  rw [if_neg ‹_›]
  split at h
  · rw [if_pos ‹_›]; exact validateStaking_withFin h
  rw [if_neg ‹_›]
  split at h
  · rw [if_pos ‹_›]; exact validateUnstaking_withFin h
  rw [if_neg ‹_›]
  split at h
  · rw [if_pos ‹_›]; exact validateWithdraw_withFin h
  rw [if_neg ‹_›]
  split at h
  · rw [if_pos ‹_›]
    rw [validateEvm_eq] at h ⊢
    split at h
    · simp at h
    rw [if_neg ‹_›]
    split at h
    · simp at h
    rw [if_neg ‹_›]
    simp at h; subst h; rfl
  · simp [throw, throwThe, MonadExceptOf.throw] at h

theorem validateTrx_withFin {s : St} {m m' : KMap Account} {e : Bool} {ht : Int} {tx : TxIn} {sender recv : Account} {r : St}
    (h : validateTrx (withFin s m) e ht tx sender recv = .ok r) :
    validateTrx (withFin s m') e ht tx sender recv = .ok (withFin r m') := by
  obtain ⟨h0, h1, h2⟩ := validateTrx_ok h
  rw [validateTrx_eq]
  have h0' : commonValidation0 (withFin s m') e tx = .ok () := h0
  rw [h0', h1]
  exact typeValidate_withFin h2

end Rigo.C05C
