/-
  C10 (parameter hypothesis reduced to the inputs), part 2: every operation keeps the invariant `PInv`.
-/
import RigoProofs.C10ParamsInv

open Std

namespace Rigo.C10P
open Rigo Rigo.C15

variable {Q : Params → Prop} {G : POpt → Prop}

/-! ### BeginBlock: governance punishment rewrites open proposals through `doPunish` only -/

theorem govPunish_propsF (P : String → Proposal → Prop)
    (hP : ∀ (k : String) (p : Proposal) (a : Hex) (r : Int), P k p → P k (p.doPunish a r).1)
    (s : St) (a : Hex) (h : LedF P s.props) : LedF P (govPunish s a).1.props := by
  unfold govPunish
  simp only []
  generalize (List.map (fun x => x.1) (List.filter (fun x => x.2.voters.any (·.addr == a)) s.props.committed.toList)) = targets
  suffices hh : ∀ (acc : St × Int), LedF P acc.1.props → LedF P (targets.foldl (fun (x : St × Int) k =>
      match x with
      | (acc, sum) =>
        match acc.props.get true k with
        | none => (acc, sum)
        | some p =>
          let (p', sl) := p.doPunish a acc.active.slashRatio
          ({ acc with props := acc.props.set true k p' }, sum + sl)) acc).1.props from hh (s, 0) h
  induction targets with
  | nil => intro acc h; exact h
  | cons k ks ih =>
    intro acc h
    simp only [List.foldl_cons]
    apply ih
    obtain ⟨acc, sum⟩ := acc
    simp only []
    split
    · exact h
    · rename_i p hp
      exact LedF.set h _ _ _ (fun _ => hP k p a _ (h.get_true hp))

theorem bGov_propsF (P : String → Proposal → Prop)
    (hP : ∀ (k : String) (p : Proposal) (a : Hex) (r : Int), P k p → P k (p.doPunish a r).1)
    (s : St) (ev : List Hex) (h : LedF P s.props) : LedF P (bGov s ev).1.props := by
  unfold bGov
  suffices hh : ∀ (acc : St × List Int), LedF P acc.1.props → LedF P (ev.foldl (fun (x : St × List Int) a =>
      match x with
      | (acc, l) => let (acc', sl) := govPunish acc a; (acc', l ++ [sl])) acc).1.props from hh (s, []) h
  induction ev with
  | nil => intro acc h; exact h
  | cons a as ih =>
    intro acc h
    simp only [List.foldl_cons]
    apply ih
    obtain ⟨acc, l⟩ := acc
    exact govPunish_propsF P hP acc a h

theorem beginBlock_propsF (s : St) (h : Header) (hp : LedF (PropG G) s.props) :
    LedF (PropG G) (beginBlock s h).1.props := by
  have pB : LedF (PropG G) (bGov (bbA s h) h.evidence).1.props :=
    bGov_propsF (PropG G) (fun _ p a r (hq : OptsG G p.options) => doPunish_optsG hq a r) _ _ (by rw [(bbA_fr s h).2.2.1]; exact hp)
  apply beginBlock_ind s h (fun x => LedF (PropG G) x.props) hp
  · intro _; exact pB
  · intro _ m _
    rw [(bStake_fr _ _).2.2.1, (bbC_fr _ m).2.1.2.1]; exact pB
  · intro _ m rl s' issued _ _ hv
    rw [(bVotes_vfr hv).2.1, (bStake_fr _ _).2.2.1, (bbC_fr _ m).2.1.2.1]; exact pB

theorem beginBlock_pinv (s : St) (h : Header) (hs : PInv Q G s) : PInv Q G (beginBlock s h).1 := by
  obtain ⟨_, e2, e3, e4, _⟩ := beginBlock_bfr s h
  exact ⟨by rw [e3]; exact hs.active, by rw [e4]; exact hs.pending, beginBlock_propsF s h hs.props,
    by rw [e2]; exact hs.fprops⟩

/-! ### transactions -/

/-- any transaction, either path: on the DeliverTx path (`e = true`) the options of a proposal payload must be
    good; the CheckTx path never reaches the consensus view -/
theorem handleTx_propsF (s : St) (e : Bool) (ht : Int) (tx : TxIn) (hp : LedF (PropG G) s.props)
    (htx : e = true → TxOptsOK G tx) : LedF (PropG G) (handleTx s e ht tx).1.props := by
  by_cases hc : (handleTx s e ht tx).2.code = 0
  · by_cases h1 : tx.type = TRX_PROPOSAL
    · obtain ⟨msg, start, period, applying, optType, opts, acc, hprops⟩ := proposal_successW h1 hc
      rw [hprops]
      exact hp.set _ _ _ (fun he => snapshot_optsG (htx he msg start period applying optType opts acc.payload) s tx _ _ _ _)
    by_cases h2 : tx.type = TRX_VOTING
    · obtain ⟨hash, choice, p, acc, hprops⟩ := voting_success h2 hc
      rw [hprops]
      refine hp.set _ _ _ (fun he => ?_)
      have hf := acc.found
      rw [he] at hf
      exact doVote_optsG (hp.get_true hf) tx.from_ choice
    · have := (handleTx_frame s e ht tx).2.2.1 ⟨h1, h2⟩
      unfold FrP at this; rw [this]; exact hp
  · rw [handleTx_props_fail s e ht tx hc]; exact hp

theorem handleTx_pinv (s : St) (e : Bool) (ht : Int) (tx : TxIn) (hs : PInv Q G s) (htx : e = true → TxOptsOK G tx) :
    PInv Q G (handleTx s e ht tx).1 := by
  obtain ⟨_, f2, f3, f4, _⟩ := (handleTx_frame s e ht tx).1
  exact ⟨by rw [f3]; exact hs.active, by rw [f4]; exact hs.pending, handleTx_propsF s e ht tx hs.props htx,
    by rw [f2]; exact hs.fprops⟩

theorem PInv.withBlk {s : St} (hs : PInv Q G s) (b : Option BlockCtx) : PInv Q G { s with blk := b } :=
  ⟨hs.active, hs.pending, hs.props, hs.fprops⟩

theorem deliverTx_pinv (s : St) (tx : TxIn) (hs : PInv Q G s) (htx : TxOptsOK G tx) : PInv Q G (deliverTx s tx).1 := by
  unfold deliverTx
  split
  · exact hs
  · rename_i b hb
    have := handleTx_pinv s true b.height tx hs (fun _ => htx)
    generalize handleTx s true b.height tx = res at this
    obtain ⟨s', o⟩ := res
    simp only [] at this ⊢
    split
    · exact this
    · split
      · exact this.withBlk _
      · exact this

/-! ### EndBlock -/

theorem freezeProposals_pinv {s s1 : St} {height : Int} (h : freezeProposals s height = .ok s1) (hs : PInv Q G s) :
    PInv Q G s1 := by
  rw [freezeProposals_eq] at h
  have key := foldl_resStep_inv (freezeOne height)
    (fun x => EFr s x ∧ x.pending = s.pending ∧ LedF (PropG G) x.props ∧ LedAll (MajorG G) x.fprops)
    s.props.committed.toList ?_ s s1 ⟨EFr.refl s, rfl, hs.props, hs.fprops⟩ h
  · obtain ⟨e, hpe, hp, hf⟩ := key
    exact ⟨by rw [e.1]; exact hs.active, by rw [hpe]; exact hs.pending, hp, hf⟩
  · intro x kp x' hmem ⟨q1, q2, q3, q4⟩ hx
    obtain ⟨e1, _, e3, e4, e5⟩ := freezeOne_spec hx
    have hq : OptsG G kp.2.options :=
      hs.props.committed kp.1 kp.2 (Std.ExtTreeMap.mem_toList_iff_getElem?_eq_some.mp hmem)
    refine ⟨q1.trans e1, by rw [e3, q2], ?_, ?_⟩
    · rcases e5 with e5 | e5
      · rw [e5]; exact q3
      · rw [e5]; exact q3.del _ _
    · rcases e4 with e4 | ⟨top, _, hhead, _, e4⟩
      · rw [e4]; exact q4
      · rw [e4]
        refine q4.set _ _ _ ?_
        intro m hm po hpo
        have hm' : some top = some m := hm
        cases hm'
        exact sortOptions_optsG hq top (List.mem_of_head? hhead) po hpo

theorem applyProposals_pinv (hQG : ∀ base po, Q base → G po → Q (mergeParams base po))
    {s s2 : St} {height : Int} (h : applyProposals s height = .ok s2) (hs : PInv Q G s) : PInv Q G s2 := by
  obtain ⟨e, hp, hf, hc⟩ := applyProposals_spec (MajorG G) h hs.fprops
  refine ⟨by rw [e.1]; exact hs.active, ?_, by rw [hp]; exact hs.props, hf⟩
  rcases hc with ⟨_, c2⟩ | ⟨np, ⟨k, p, m, o, a1, _, a3, _, a5, a6⟩, c2, _⟩
  · rw [c2]; exact hs.pending
  · intro p' hp'
    rw [c2] at hp'
    cases hp'
    rw [a6]
    exact hQG _ _ hs.active (hs.fprops.committed k p a1 m a3 o a5)

theorem endBlock_pinv (hQG : ∀ base po, Q base → G po → Q (mergeParams base po)) (s : St) (hs : PInv Q G s) :
    PInv Q G (endBlock s).1 := by
  apply endBlock_ind s (PInv Q G) hs
  · intro b s1 _ h1; exact freezeProposals_pinv h1 hs
  · intro b s1 s2 _ h1 h2; exact applyProposals_pinv hQG h2 (freezeProposals_pinv h1 hs)
  · intro b s1 s2 s' _ _ _ t p2
    obtain ⟨⟨_, t2, t3, t4, t5, _⟩, _⟩ := t
    exact ⟨by rw [t4]; exact p2.active, by rw [t5]; exact p2.pending, by rw [t3]; exact p2.props,
      by rw [t2]; exact p2.fprops⟩
  · intro b s1 s2 s4 s5 ups _ _ _ _ p4 hu
    obtain ⟨⟨_, t2, t3, t4, t5, _⟩, _⟩ := updateValidators_tfr hu
    exact ⟨by rw [t4]; exact p4.active, by rw [t5]; exact p4.pending, by rw [t3]; exact p4.props,
      by rw [t2]; exact p4.fprops⟩

/-! ### InitChain, Commit, restart and the step -/

theorem pinv_init (g : Genesis) (hg : Q g.params) : PInv Q G (initChain g) := by
  obtain ⟨hfr, _, hp⟩ := initChain_ifr g
  obtain ⟨_, e2, e3, e4, _⟩ := hfr
  refine ⟨?_, ?_, ?_, ?_⟩
  · rw [e3]; exact hg
  · intro p hpe; rw [e4] at hpe; simp [initBase] at hpe
  · unfold FrP at hp; rw [hp]; exact LedF.empty _
  · rw [e2]; exact LedAll.empty _

/-- one operation; `hc` (C15's governance core invariant) is what makes `restart` reload the same active parameters;
    `hop` restricts delivered proposal payloads -/
theorem pinv_step (hQG : ∀ base po, Q base → G po → Q (mergeParams base po)) {s : St} (hs : PInv Q G s)
    (hc : GovCore s) (op : Op) (hop : op.isInit = false) (htx : ∀ tx, op = .deliver tx → TxOptsOK G tx) :
    PInv Q G (step s op).1 := by
  cases op with
  | init g => simp [Op.isInit] at hop
  | begin_ h => exact beginBlock_pinv s h hs
  | deliver tx => exact deliverTx_pinv s tx hs (htx tx rfl)
  | check tx => exact handleTx_pinv s false (s.lastHeight + 1) tx hs (fun he => by cases he)
  | end_ => exact endBlock_pinv hQG s hs
  | commit =>
    show PInv Q G (commit s).1
    unfold commit
    split
    · exact hs
    · refine ⟨?_, ?_, hs.props.commit, hs.fprops.commit⟩
      · show Q (s.pending.getD s.active)
        cases hpe : s.pending with
        | none => exact hs.active
        | some p => exact hs.pending p hpe
      · intro p hp; cases hp
  | restart =>
    show PInv Q G (restart s)
    have hact : (s.params.reopen.committed[zeroHash]?).getD s.active = s.active := by
      have : s.params.reopen.committed = s.params.committed := rfl
      rw [this]
      cases hcm : s.params.committed[zeroHash]? with
      | none => rfl
      | some p => simp [hc.paramsW.1 p hcm]
    refine ⟨?_, ?_, hs.props.reopen, hs.fprops.reopen⟩
    · show Q ((s.params.reopen.committed[zeroHash]?).getD s.active)
      rw [hact]; exact hs.active
    · intro p hp; cases hp

/-- the invariant along a whole history from genesis -/
theorem pinv_exec (hQG : ∀ base po, Q base → G po → Q (mergeParams base po)) (g : Genesis) (hg : Q g.params) :
    ∀ ops : List Op, (∀ op ∈ ops, op.isInit = false) → (∀ op ∈ ops, ∀ tx, op = .deliver tx → TxOptsOK G tx) →
      PInv Q G (exec (initChain g) ops) := by
  apply list_snoc_induction
  · intro _ _; rw [exec_nil]; exact pinv_init g hg
  · intro ops op ih h1 h2
    have h1' : ∀ o ∈ ops, o.isInit = false := fun o ho => h1 o (by simp [ho])
    have h2' : ∀ o ∈ ops, ∀ tx, o = .deliver tx → TxOptsOK G tx := fun o ho => h2 o (by simp [ho])
    rw [exec_snoc]
    exact pinv_step hQG (ih h1' h2') (govCore_reachable ⟨ops, h1', rfl⟩) op (h1 op (by simp)) (h2 op (by simp))

end Rigo.C10P
