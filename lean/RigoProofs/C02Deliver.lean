/-
  C02 helper: one DeliverTx conserves value (validation facts, `runTrx`, `handleTx`, `deliverTx`).
-/
import RigoProofs.C02TxB
import RigoProofs.C02Check
import RigoProofs.C02Evm

namespace Rigo.C02

open Std Rigo.Delegatee

/-! ### transport along `SameFin` (validation only moves the limiter) -/

theorem SameFin.inv0 {s s' : St} (h : SameFin s s') (hi : Inv0 s) : Inv0 s' := by
  refine ⟨?_, ?_, ?_⟩
  · rw [h.accts]; exact hi.acctKey
  · rw [h.delegs]; exact hi.delegKey
  · rw [h.frozen]; exact hi.frozenKey

theorem SameFin.holdings {s s' : St} (h : SameFin s s') : holdings s' = holdings s := by
  unfold Rigo.C02.holdings; rw [h.accts, h.delegs, h.frozen]

theorem SameFin.sync {s s' : St} (h : SameFin s s') (hs : FrozenSync s) : FrozenSync s' := by
  unfold FrozenSync Led.committed; rw [h.frozen, h.frozenHist]; exact hs

theorem SameFin.sync_iff {s s' : St} (h : SameFin s s') : FrozenSync s' ↔ FrozenSync s := by
  unfold FrozenSync Led.committed; rw [h.frozen, h.frozenHist]

theorem SameFin.feeInFlight {s s' : St} (h : SameFin s s') : feeInFlight s' = feeInFlight s := by
  unfold Rigo.C02.feeInFlight; rw [h.blk]

theorem SameFin.total {s s' : St} (h : SameFin s s') : total s' = total s := by
  unfold Rigo.C02.total; rw [h.holdings, h.feeInFlight]

/-! ### facts established by validation -/

theorem commonValidation0_price {s : St} {e : Bool} {tx : TxIn} {u : Unit}
    (h : commonValidation0 s e tx = .ok u) : tx.price = s.active.gasPrice := by
  unfold commonValidation0 at h
  simp only [bind, Except.bind, pure, Except.pure, throw, throwThe, MonadExceptOf.throw] at h
  repeat' split at h
  all_goals first
    | (have hp : ¬(isNeg256 tx.price = true ∨ tx.price ≠ s.active.gasPrice) := by assumption
       simp only [not_or, Decidable.not_not] at hp; exact hp.2)
    | cases h

theorem validateStaking_mod {s s1 : St} {e : Bool} {tx : TxIn} (h : validateStaking s e tx = .ok s1) :
    tx.amount % amountPerPower = 0 := by
  unfold validateStaking at h
  simp only [bind, Except.bind, pure, Except.pure, throw, throwThe, MonadExceptOf.throw] at h
  split at h; · cases h
  split at h; · cases h
  rename_i hm
  simpa using hm

theorem validateTrx_facts {s s1 : St} {e : Bool} {ht : Int} {tx : TxIn} {sender rc : Account}
    (h : validateTrx s e ht tx sender rc = .ok s1) :
    tx.price = s.active.gasPrice ∧ (tx.type = TRX_STAKING → tx.amount % amountPerPower = 0) := by
  unfold validateTrx at h
  obtain ⟨u, h0, h⟩ := bind_ok h
  obtain ⟨u', _, h⟩ := bind_ok h
  refine ⟨commonValidation0_price h0, ?_⟩
  intro hty
  rw [hty] at h
  simp only [TRX_STAKING, TRX_PROPOSAL, TRX_VOTING, TRX_TRANSFER, TRX_SETDOC, Int.reduceEq, if_false, if_true] at h
  exact validateStaking_mod h

/-! ### `runTrx` on the consensus path -/

def ViaE (tx : TxIn) (rc : Account) : Prop := tx.type = TRX_CONTRACT ∨ (tx.type = TRX_TRANSFER ∧ rc.code ≠ "")

/-- what a completed `runTrx` did to the value -/
inductive RunEffect (s s2 : St) (tx : TxIn) (rc : Account) (gas : Nat) (fk : Option String) : Prop where
  | evmFail (hk : fk.isSome) (hold : holdings s2 = holdings s) (wd : s2.ghost.withdrawn = s.ghost.withdrawn)
  | evmOk (hk : fk = none) (hv : ViaE tx rc) (hd : s2.delegs.fin = s.delegs.fin) (hf : s2.frozen.fin = s.frozen.fin)
      (wd : s2.ghost.withdrawn = s.ghost.withdrawn)
  | native (hk : fk = none) (hv : ¬ ViaE tx rc) (hg : gas = tx.gas) (dW : Nat) (small : dW < two255)
      (hold : holdings s2 + (wmul tx.price tx.gas : Nat) = holdings s + dW)
      (wd : s2.ghost.withdrawn = s.ghost.withdrawn + dW)

theorem runTrx_ok {s s2 : St} {ht : Int} {tx : TxIn} {rc : Account} {gas : Nat} {fk : Option String}
    (h : runTrx s true ht tx rc = .ok (s2, gas, fk)) (hi : Inv0 s)
    (hb : holdings s < ((two63 * amountPerPower : Nat) : Int))
    (hfresh : tx.type = TRX_UNSTAKING → ∀ (d : Delegatee) (hash : Hex), s.delegs.fin[ledgerKey tx.to]? = some d →
      tx.payload = .unstaking hash → FreezeSafe s.frozen.fin (unstakeMoved d hash))
    (hmod : tx.type = TRX_STAKING → tx.amount % amountPerPower = 0) :
    Inv0 s2 ∧ Frame s s2 ∧ (FrozenSync s → FrozenSync s2) ∧ RunEffect s s2 tx rc gas fk := by
  have hlt : ((two63 * amountPerPower : Nat) : Int) < (two255 : Int) := by decide
  have h255 := two255_lt
  have e256 : (two256 : Int) = 2 * (two255 : Int) := by decide
  unfold runTrx at h
  extract_lets viaEvm fee post at h
  -- after an EVM body
  have hevm : ∀ r0 : RunOut, execEvm s true tx = .ok r0 → ViaE tx rc → post r0 = .ok (s2, gas, fk) →
      Inv0 s2 ∧ Frame s s2 ∧ (FrozenSync s → FrozenSync s2) ∧ RunEffect s s2 tx rc gas fk := by
    intro r0 hr0 hv hp
    obtain ⟨i0, fr, hd, hf, hg, hfail, _⟩ := execEvm_ok hr0 hi
    have hsync : FrozenSync s → FrozenSync r0.st := by
      intro hs; unfold FrozenSync; rw [hf]; exact hs
    simp only [post, pure, Except.pure] at hp
    split at hp
    · rename_i hfl
      injection hp with hp; injection hp with e1 hp; injection hp with e2 e3
      subst e1; subst e2; subst e3
      refine ⟨i0, fr, hsync, .evmFail hfl ?_ (by rw [hg])⟩
      unfold holdings; rw [hfail hfl, hd, hf]
    · have hv' : viaEvm := hv
      rw [if_pos hv'] at hp
      injection hp with hp; injection hp with e1 hp; injection hp with e2 e3
      subst e1; subst e2; subst e3
      exact ⟨i0, fr, hsync, .evmOk rfl hv (by rw [hd]) (by rw [hf]) (by rw [hg])⟩
  -- after a native body
  have hnat : ∀ (r0 : RunOut) (dW : Nat), BodyOK s r0.st dW → r0.fail = none → ¬ ViaE tx rc →
      post r0 = .ok (s2, gas, fk) →
      Inv0 s2 ∧ Frame s s2 ∧ (FrozenSync s → FrozenSync s2) ∧ RunEffect s s2 tx rc gas fk := by
    intro r0 dW hbody hfl hv hp
    simp only [post, pure, Except.pure, throw, throwThe, MonadExceptOf.throw, hfl] at hp
    have hv' : ¬ viaEvm := hv
    rw [if_neg (by simp), if_neg hv'] at hp
    split at hp
    case h_2 => cases hp
    rename_i sender hs
    split at hp; · cases hp
    rename_i a1 h1
    injection hp with hp; injection hp with e1 hp; injection hp with e2 e3
    subst e2; subst e3
    have hb' : holdings r0.st < (two256 : Int) := by
      rw [hbody.hold]; have := hbody.small
      have : (dW : Int) < (two255 : Int) := by exact_mod_cast this
      omega
    obtain ⟨j0, jf, js, jh, jg, _⟩ := feeDebit_ok hs h1 hbody.inv0 hb'
    rw [e1] at j0 jf js jh jg
    refine ⟨j0, hbody.frame.trans jf, fun h => js (hbody.sync h), .native rfl hv rfl dW hbody.small ?_ ?_⟩
    · rw [jh, hbody.hold]; simp only [fee]; omega
    · rw [jg, hbody.wd]
  have hb2 : holdings s < (two255 : Int) := by omega
  split at h
  · rename_i hty
    obtain ⟨r0, hr0, h⟩ := bind_ok h
    exact hevm r0 hr0 (Or.inl hty) h
  rename_i hnc
  split at h
  · rename_i hty
    obtain ⟨r0, hr0, h⟩ := bind_ok h
    have hv : ¬ ViaE tx rc := by
      rintro (h1 | ⟨h1, _⟩)
      · exact hnc h1
      · rw [hty] at h1; revert h1; decide
    obtain ⟨b, hf⟩ := execProposal_ok hr0 hi
    exact hnat r0 0 b hf hv h
  split at h
  · rename_i hty
    obtain ⟨r0, hr0, h⟩ := bind_ok h
    have hv : ¬ ViaE tx rc := by
      rintro (h1 | ⟨h1, _⟩)
      · exact hnc h1
      · rw [hty] at h1; revert h1; decide
    obtain ⟨b, hf⟩ := execVoting_ok hr0 hi
    exact hnat r0 0 b hf hv h
  split at h
  · rename_i hty
    obtain ⟨r0, hr0, h⟩ := bind_ok h
    split at hr0
    · rename_i hc
      exact hevm r0 hr0 (Or.inr ⟨hty, hc⟩) h
    · rename_i hc
      have hv : ¬ ViaE tx rc := by
        rintro (h1 | ⟨_, h2⟩)
        · exact hnc h1
        · exact hc h2
      obtain ⟨b, hf⟩ := execTransfer_ok hr0 hi hb2
      exact hnat r0 0 b hf hv h
  rename_i hnt
  have hv : ¬ ViaE tx rc := by
    rintro (h1 | ⟨h1, _⟩)
    · exact hnc h1
    · exact hnt h1
  split at h
  · obtain ⟨r0, hr0, h⟩ := bind_ok h
    obtain ⟨b, hf⟩ := execSetDoc_ok hr0 hi
    exact hnat r0 0 b hf hv h
  split at h
  · rename_i hty
    obtain ⟨r0, hr0, h⟩ := bind_ok h
    obtain ⟨b, hf⟩ := execStaking_ok hr0 hi hb (hmod hty)
    exact hnat r0 0 b hf hv h
  split at h
  · rename_i hty
    obtain ⟨r0, hr0, h⟩ := bind_ok h
    obtain ⟨b, hf⟩ := execUnstaking_ok hr0 hi (hfresh hty)
    exact hnat r0 0 b hf hv h
  split at h
  · obtain ⟨r0, hr0, h⟩ := bind_ok h
    obtain ⟨dW, b, hf⟩ := execWithdraw_ok hr0 hi hb2
    exact hnat r0 dW b hf hv h
  · obtain ⟨r0, hr0, h⟩ := bind_ok h
    cases hr0

/-! ### `handleTx` on the consensus path -/

/-- what the handling of one delivered transaction did to the value -/
inductive TxEffect (s s' : St) (tx : TxIn) (o : TxOut) : Prop where
  | failed (hc : o.code ≠ 0) (hold : holdings s' = holdings s) (wd : s'.ghost.withdrawn = s.ghost.withdrawn)
  | evmOk (hc : o.code = 0) (hp : o.panic = "") (hv : viaEvm s tx) (hd : s'.delegs.fin = s.delegs.fin)
      (hf : s'.frozen.fin = s.frozen.fin) (wd : s'.ghost.withdrawn = s.ghost.withdrawn)
  | native (hc : o.code = 0) (hp : o.panic = "") (hv : ¬ viaEvm s tx) (dW : Nat) (small : dW < two255)
      (hold : holdings s' + (wmul o.gasUsed s.active.gasPrice : Nat) = holdings s + dW)
      (wd : s'.ghost.withdrawn = s.ghost.withdrawn + dW)

theorem handleTxOld_ok {s s' : St} {ht : Int} {tx : TxIn} {o : TxOut} (h : handleTxOld s true ht tx = (s', o))
    (hi : Inv0 s) (hb : holdings s < ((two63 * amountPerPower : Nat) : Int)) (hf : UnstakeFresh s tx) :
    Inv0 s' ∧ Frame s s' ∧ (FrozenSync s → FrozenSync s') ∧ TxEffect s s' tx o := by
  unfold handleTxOld at h
  simp only [if_true] at h
  split at h
  · injection h with e1 e2; subst e1; subst e2
    exact ⟨hi, frame_refl s, fun h => h, .failed (by simp) rfl rfl⟩
  split at h
  · injection h with e1 e2; subst e1; subst e2
    exact ⟨hi, frame_refl s, fun h => h, .failed (by simp) rfl rfl⟩
  rename_i sender hsender
  cases hfn : s.findOrNewAcct true tx.to with
  | mk s0 receiver =>
  rw [hfn] at h
  simp only at h
  obtain ⟨i0, f0, h0, d0, z0, g0, _, _, _⟩ := findOrNew_ok hi tx.to hfn
  have sync0 : FrozenSync s → FrozenSync s0 := by intro hs; unfold FrozenSync; rw [z0]; exact hs
  have hvia : viaEvm s tx ↔ ViaE tx receiver := by unfold viaEvm ViaE; rw [hfn]
  split at h
  · injection h with e1 e2; subst e1; subst e2
    exact ⟨i0, f0, sync0, .failed (by simp) h0 (by rw [g0])⟩
  · injection h with e1 e2; subst e1; subst e2
    exact ⟨i0, f0, sync0, .failed (by simp) h0 (by rw [g0])⟩
  rename_i s1 hval
  have sf : SameFin s0 s1 := (sameFin_iff _ _).2 (validateTrx_finView hval)
  obtain ⟨hprice, hmod⟩ := validateTrx_facts hval
  have i1 := sf.inv0 i0
  have f1 : Frame s s1 := f0.trans sf.toFrame
  have sync1 : FrozenSync s → FrozenSync s1 := fun hs => sf.sync (sync0 hs)
  have h1 : holdings s1 = holdings s := by rw [sf.holdings, h0]
  have w1 : s1.ghost.withdrawn = s.ghost.withdrawn := by rw [sf.withdrawn, g0]
  have hfresh1 : tx.type = TRX_UNSTAKING → ∀ (d : Delegatee) (hash : Hex), s1.delegs.fin[ledgerKey tx.to]? = some d →
      tx.payload = .unstaking hash → FreezeSafe s1.frozen.fin (unstakeMoved d hash) := by
    rw [sf.delegs, sf.frozen, d0, z0]; exact hf
  split at h
  · injection h with e1 e2; subst e1; subst e2
    exact ⟨i1, f1, sync1, .failed (by simp) h1 w1⟩
  · injection h with e1 e2; subst e1; subst e2
    exact ⟨i1, f1, sync1, .failed (by simp) h1 w1⟩
  · rename_i s2 g k hrun
    injection h with e1 e2; subst e1; subst e2
    obtain ⟨i2, f2, sync2, eff⟩ := runTrx_ok hrun i1 (by rw [h1]; exact hb) hfresh1 hmod
    refine ⟨i2, f1.trans f2, fun hs => sync2 (sync1 hs), ?_⟩
    cases eff with
    | evmFail _ hold wd => exact .failed (by simp) (by rw [hold, h1]) (by rw [wd, w1])
    | evmOk hk => cases hk
    | native hk => cases hk
  · rename_i s2 g hrun
    injection h with e1 e2; subst e1; subst e2
    obtain ⟨i2, f2, sync2, eff⟩ := runTrx_ok hrun i1 (by rw [h1]; exact hb) hfresh1 hmod
    refine ⟨i2, f1.trans f2, fun hs => sync2 (sync1 hs), ?_⟩
    cases eff with
    | evmFail hk => simp at hk
    | evmOk _ hv hd hz wd =>
      exact .evmOk rfl rfl (hvia.mpr hv) (by rw [hd, sf.delegs, d0]) (by rw [hz, sf.frozen, z0]) (by rw [wd, w1])
    | native _ hv hg dW small hold wd =>
      refine .native rfl rfl (fun h => hv (hvia.mp h)) dW small ?_ (by rw [wd, w1])
      simp only
      rw [hg, ← f0.active, ← hprice, ← h1]
      have : wmul tx.gas tx.price = wmul tx.price tx.gas := by unfold wmul; rw [Nat.mul_comm]
      rw [this]; exact hold

theorem handleTx_ok {s s' : St} {ht : Int} {tx : TxIn} {o : TxOut} (h : handleTx s true ht tx = (s', o))
    (hi : Inv0 s) (hb : holdings s < ((two63 * amountPerPower : Nat) : Int)) (hf : UnstakeFresh s tx) :
    Inv0 s' ∧ Frame s s' ∧ (FrozenSync s → FrozenSync s') ∧ TxEffect s s' tx o := by
  by_cases hl : byteLen tx.to = 20
  · rw [handleTx_goodlen hl] at h; exact handleTxOld_ok h hi hb hf
  · obtain ⟨k, e⟩ := handleTx_badlen (s := s) (exec := true) (h := ht) hl
    rw [e] at h
    injection h with e1 e2; subst e1; subst e2
    exact ⟨hi, frame_refl s, fun h => h, .failed (by simp) rfl rfl⟩

/-! ### DeliverTx -/

theorem inv0_blk (s : St) (b : Option BlockCtx) (hi : Inv0 s) : Inv0 { s with blk := b } :=
  ⟨hi.acctKey, hi.delegKey, hi.frozenKey⟩

theorem inv_inBlock_mk {s : St} (i : Inv0 s) (hb : s.blk ≠ none) (sy : FrozenSync s) : Inv .inBlock s :=
  ⟨i, ⟨(fun h => by cases h), (fun _ => hb)⟩, (fun _ => sy), (fun h => by cases h)⟩

/-- one DeliverTx: the invariants survive and `total` is conserved up to the withdrawn reward and the
    value burnt inside the EVM -/
theorem deliver_ok {s : St} {tx : TxIn} (hinv : Inv .inBlock s) (hb : SupplyBound s)
    (hf : UnstakeFresh s tx) (ho : EvmOracleOK s tx) :
    Inv .inBlock (deliverTx s tx).1 ∧
    total (deliverTx s tx).1 + evmBurnStep s (.deliver tx) =
      total s + ((deliverTx s tx).1.ghost.withdrawn - s.ghost.withdrawn : Int) ∧
    (deliverTx s tx).1.ghost.feeBurn = s.ghost.feeBurn := by
  obtain ⟨hi, hblk, hsync, _⟩ := hinv
  have hsync := hsync (by decide)
  cases hbk : s.blk with
  | none => exact absurd hbk (hblk.2 (by decide))
  | some b =>
  have hfee0 := feeInFlight_nonneg s
  have hbt : total s < ((two63 * amountPerPower : Nat) : Int) := hb
  unfold total at hbt
  have e256 : (two256 : Int) = 2 * (two255 : Int) := by decide
  have hbh : holdings s < ((two63 * amountPerPower : Nat) : Int) := by omega
  unfold EvmOracleOK at ho
  unfold evmBurnStep at ho ⊢
  unfold deliverTx
  simp only [hbk] at ho ⊢
  cases hh : handleTx s true b.height tx with
  | mk s' o =>
  rw [hh] at ho
  simp only at ho ⊢
  obtain ⟨i', fr, sy, eff⟩ := handleTx_ok hh hi hbh hf
  have hblk' : s'.blk = some b := by rw [fr.blk, hbk]
  have hfee' : feeInFlight s' = feeInFlight s := by unfold feeInFlight; rw [fr.blk]
  have hfeeS : feeInFlight s = (b.feeSum : Int) := by unfold feeInFlight; rw [hbk]; simp
  have mkInv : ∀ b' : BlockCtx, Inv .inBlock { s' with blk := some b' } := fun b' =>
    inv_inBlock_mk (inv0_blk s' _ i') (by simp) (sy hsync)
  have keepInv : Inv .inBlock s' := inv_inBlock_mk i' (by rw [hblk']; simp) (sy hsync)
  cases eff with
  | failed hc hold wd =>
    have hres : (if o.panic ≠ "" then (s', ({ panic := o.panic, tx := some o } : Out)) else
        if o.code = 0 then ({ s' with blk := some { b with feeSum := wadd b.feeSum (wmul o.gasUsed s'.active.gasPrice) } }, { tx := some o })
        else (s', { tx := some o })).1 = s' := by
      split
      · rfl
      · first | rfl | rw [if_neg hc]
    rw [hres]
    refine ⟨keepInv, ?_, fr.feeBurn⟩
    rw [if_neg (by intro h; exact hc h.2.1)]
    unfold total; rw [hold, hfee', wd]; omega
  | evmOk hc hp hv hd hz wd =>
    rw [if_neg (by simp [hp]), if_pos hc]
    rw [if_pos ⟨hv, hc, hp⟩] at ho
    rw [if_pos ⟨hv, hc, hp⟩]
    refine ⟨mkInv _, ?_, fr.feeBurn⟩
    simp only
    have hsb := sumBal_le_holdings hi
    have hs0 := sumBal_nonneg s'.accts.fin
    have hfeelt : b.feeSum + wmul o.gasUsed s'.active.gasPrice < two256 := by
      have h255 := two255_lt
      have hlt : ((two63 * amountPerPower : Nat) : Int) < (two255 : Int) := by decide
      have : ((b.feeSum + wmul o.gasUsed s'.active.gasPrice : Nat) : Int) < (two256 : Int) := by
        push_cast; omega
      exact_mod_cast this
    unfold total holdings feeInFlight
    simp only [Option.map_some, Option.getD_some]
    rw [wd, hd, hz]
    unfold holdings at hbt
    simp only [wadd, Nat.mod_eq_of_lt hfeelt]
    push_cast
    rw [hfeeS] at hfee0
    simp only [feeInFlight, hbk, Option.map_some, Option.getD_some]
    omega
  | native hc hp hv dW small hold wd =>
    rw [if_neg (by simp [hp]), if_pos hc]
    rw [if_neg (by intro h; exact hv h.1)]
    refine ⟨mkInv _, ?_, fr.feeBurn⟩
    simp only
    rw [← fr.active] at hold
    have hh0 : 0 ≤ holdings s' := by
      have := sumBal_le_holdings i'; have := sumBal_nonneg s'.accts.fin; omega
    have hsm : (dW : Int) < (two255 : Int) := by exact_mod_cast small
    have hfeelt : b.feeSum + wmul o.gasUsed s'.active.gasPrice < two256 := by
      have h255 := two255_lt
      have hlt : ((two63 * amountPerPower : Nat) : Int) < (two255 : Int) := by decide
      have : ((b.feeSum + wmul o.gasUsed s'.active.gasPrice : Nat) : Int) < (two256 : Int) := by
        push_cast; omega
      exact_mod_cast this
    unfold total feeInFlight
    simp only [Option.map_some, Option.getD_some, hbk]
    have hhold' : holdings { s' with blk := some { b with feeSum := wadd b.feeSum (wmul o.gasUsed s'.active.gasPrice) } } = holdings s' := rfl
    rw [hhold', wd]
    simp only [wadd, Nat.mod_eq_of_lt hfeelt]
    push_cast
    omega

end Rigo.C02
