/-
  Equality of the generated definitions with the hand-written model: entry module.

  `Rigo/Generated/Funcs.lean` is regenerated from the Go source of rigo-go by /verif/extract
  (translate*.go, whitelist expect/funcs.json) on every check run; the modules imported here prove,
  for every whitelisted function, that the generated definition equals the corresponding function
  of the model (`Rigo.GenEq.<name>_eq`).  A semantic change of such a Go function changes the
  generated definition and breaks the proof.

    lake build RigoProofs.GenFuncs

  | module            | functions |
  |---|---|
  | GenFuncsSimple    | AmountToPower, PowerToAmount, MinTrxFee, Account.{AddBalance,SubBalance,CheckBalance,CheckNonce}, IsSelfStake, SelfStakeRatio, the three `Less` orders, bytes.Compare, libs.MIN, selectValidators, Reward.{Issue,Withdraw}, checkIndividualPowerLimit |
  | GenFuncsLoops     | sumPowerOf, findStake, delStakeByIdx, delStakeByHash, DelStake, DelAllStakes, BlockMarker.{Mark,CountInWindow} |
  | GenFuncsLimiter   | StakeLimiter.{reset,findPowerObj}, link of the individual check to `Limiter.check` |
  | GenFuncsSlash     | doSlashAll |
  | GenFuncsValUpd    | validatorUpdates |
  | GenFuncsSigner    | SFilePVLastSignState.CheckHRS |
  | round 2           | |
  | GenFuncsStake2    | NewStakeWithPower, NewStakeWithAmount, NewDelegatee, Delegatee.{addStake,AddStake,DelStakeByIdx,SumPower,SumPowerOf,DoSlash,ProcessNotSignedBlock,GetNotSignedBlockCount} |
  | GenFuncsTx        | commonValidation0 (gas price, minimum fee and signature check as parameters), commonValidation1, postRunTrx, Trx.GetType, Account.AddNonce, GasToFee, FeeToGas, NewAccount |
  | GenFuncsMerge     | MergeGovParams |
  | GenFuncsLimiter2  | StakeLimiter.{checkUpdatablePowerLimit,checkLimit,CheckLimit,EvaluateLimit} = `Limiter.check` for every sort that satisfies Go's `sort.Sort` contract |
  | GenFuncsGovBase   | `propOf`: the Go proposal (map of voters, options) of a model proposal; map lemmas |
  | GenFuncsGovMisc   | NewVoteOptions, NewGovProposal, IsVoter (x2), GetVoter, SumVotingPowers, powerOrderVoteOptions.Less, isMajor, updateMajorOption, UpdateMajorOption |
  | GenFuncsGov       | voteOption.{DoVote,CancelVote,Votes}, GovProposal.{cancelVote,doVote,DoVote} |
  | GenFuncsGovPunish | GovProposal.DoPunish |
  | round 3 (controllers) | ledger fields as `GLedger`, interface calls as oracles |
  | GenFuncsCtrlBase  | `ledOf` (the `GLedger` of a model ledger; `GLedger.set/del` = `Led.set/del`), `govCtrlOf`, `acctCtrlOf`, `StakeRel`, `ctxOf`, the items' `Key` methods |
  | GenFuncsCtrlGovV  | GovCtrler.ValidateTrx = validateProposal / validateVoting; GovParams getters |
  | GenFuncsCtrlStakeV | StakeCtrler.ValidateTrx = validateStaking / validateUnstaking / validateWithdraw; IsValidator, FindStake, getters |
  | GenFuncsCtrlAcct  | AcctCtrler.{findAccount,setAccountCommittable,FindOrNewAccount,Reward,transfer,setDoc,ValidateTrx,ExecuteTrx,EndBlock} |
  | GenFuncsCtrlStakeX | StakeCtrler.{exeStaking,exeWithdraw,doPunish,ExecuteTrx,Validators}, NewReward |
  | GenFuncsCtrlUnstake | StakeCtrler.exeUnstaking = execUnstaking |
  | GenFuncsCtrlGovX  | GovCtrler.{execProposing,execVoting,ExecuteTrx} |
  | GenFuncsCtrlGovBlk | GovCtrler.{doPunish,freezeProposals} |
  | GenFuncsCtrlStakeBlk | StakeCtrler.{doRewardTo,unfreezingStakes} |
  | round 4 (the ledger itself) | generic memItems / SimpleLedger / FinalityLedger against `Rigo.Ledger.Impl` (owner C18) |
  | GenFuncsSignerSign | round 4: voteToStep, SFilePV.{saveSigned,signVote,signProposal} = `Signer.compute` / `step` (sign bytes, timestamp helper, key signing as oracles; `Save` as the persist point) |
  | GenFuncsLedgerMem | memItems.{appendRemovedKey,isRemovedKey,setGotItem,setUpdatedItem,getGotItem,delGotItem,delUpdatedItem,delRemovedKey,reset,refresh}, LedgerKeyList.Less |
  | GenFuncsLedger    | SimpleLedger.{Set,CancelSet,read,Read,get,Get,del,Del,CancelDel}, FinalityLedger.{SetFinality,CancelSetFinality,getFinality,GetFinality,DelFinality,CancelDelFinality,Commit} = `Impl.{set,cancelSet,read,get,del,cancelDel,setF,cancelSetF,getF,delF,cancelDelF,commit}` |
-/
import RigoProofs.GenFuncsSimple
import RigoProofs.GenFuncsLoops
import RigoProofs.GenFuncsLimiter
import RigoProofs.GenFuncsSlash
import RigoProofs.GenFuncsValUpd
import RigoProofs.GenFuncsSigner
import RigoProofs.GenFuncsSignerSign
import RigoProofs.GenFuncsStake2
import RigoProofs.GenFuncsTx
import RigoProofs.GenFuncsMerge
import RigoProofs.GenFuncsLimiter2
import RigoProofs.GenFuncsGovMisc
import RigoProofs.GenFuncsGov
import RigoProofs.GenFuncsGovPunish
import RigoProofs.GenFuncsCtrlBase
import RigoProofs.GenFuncsCtrlGovV
import RigoProofs.GenFuncsCtrlStakeV
import RigoProofs.GenFuncsCtrlAcct
import RigoProofs.GenFuncsCtrlStakeX
import RigoProofs.GenFuncsCtrlUnstake
import RigoProofs.GenFuncsCtrlGovX
import RigoProofs.GenFuncsCtrlGovBlk
import RigoProofs.GenFuncsCtrlStakeBlk
import RigoProofs.GenFuncsLedger
