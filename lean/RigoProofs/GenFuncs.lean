/-
  Equality of the generated definitions with the hand-written model: entry module.

  `Rigo/Generated/Funcs.lean` is regenerated from the Go source of rigo-go by /verif/extract
  (translate.go, whitelist expect/funcs.json) on every check run; the modules imported here prove,
  for every whitelisted function, that the generated definition equals the corresponding function
  of the model (`Rigo.GenEq.<name>_eq`).  A semantic change of such a Go function changes the
  generated definition and breaks the proof.

    lake build RigoProofs.GenFuncs

  | module            | functions |
  |---|---|
  | GenFuncsSimple    | AmountToPower, PowerToAmount, MinTrxFee, Account.{AddBalance,SubBalance,CheckBalance,CheckNonce}, IsSelfStake, SelfStakeRatio, the three `Less` orders, bytes.Compare, libs.MIN, selectValidators, Reward.{Issue,Withdraw}, checkIndividualPowerLimit |
  | GenFuncsLoops     | sumPowerOf, findStake, delStakeByIdx, delStakeByHash, DelStake, DelAllStakes, BlockMarker.{Mark,CountInWindow} |
  | GenFuncsLimiter   | StakeLimiter.{reset,findPowerObj}, link of the individual check to `Limiter.check` |
  | GenFuncsSlash     | doSlashAll |
  | GenFuncsValUpd    | validatorUpdates |
  | GenFuncsSigner    | SFilePVLastSignState.CheckHRS |
-/
import RigoProofs.GenFuncsSimple
import RigoProofs.GenFuncsLoops
import RigoProofs.GenFuncsLimiter
import RigoProofs.GenFuncsSlash
import RigoProofs.GenFuncsValUpd
import RigoProofs.GenFuncsSigner
