/-
  C09 — no input can crash the node: helper lemmas for the transaction path.
  Every partial Go operation is an explicit `Fail.panic` outcome of the model; `NoPanic r` says a step
  does not end in one.
-/
import RigoProofs.C16Fees
open Std

namespace Rigo

/-- the step does not end in a Go panic -/
def NoPanic {α : Type} (r : Step α) : Prop := ∀ site, r ≠ .error (.panic site)

theorem NoPanic_ok {α : Type} (a : α) : NoPanic (Except.ok a : Step α) := by intro s h; cases h
theorem NoPanic_err {α : Type} (k : String) : NoPanic (Except.error (.err k) : Step α) := by intro s h; cases h

theorem NoPanic_bind {α β : Type} {r : Step α} {f : α → Step β} (h1 : NoPanic r)
    (h2 : ∀ a, r = .ok a → NoPanic (f a)) : NoPanic (r.bind f) := by
  cases r with
  | error e => intro site hh; simp [Except.bind] at hh; exact h1 site (by rw [hh])
  | ok a => exact h2 a rfl

theorem ofRes_panic {α : Type} {r : Res α} {e : Fail} (h : ofRes r = .error e) : ∃ site, r = .panic site ∧ e = .panic site := by
  cases r with
  | ok a => simp [ofRes] at h
  | panic s => simp [ofRes] at h; exact ⟨s, rfl, h.symm⟩

/-- unfold a `Step` do-block equation `… = .error (.panic site)` into the paths that really panic -/
macro "panic_cases " h:ident : tactic =>
  `(tactic| (simp only [bind, Except.bind, pure, Except.pure, throw, throwThe, MonadExceptOf.throw] at $h:ident
             repeat' split at $h:ident
             all_goals first | (simp at $h:ident; done) | skip))

/-! ### amounts and powers -/

/-- cap on balances and delegatee totals that keeps every power computation inside int64 -/
def stakeCap : Nat := 2 ^ 62 * amountPerPower

theorem amountToPower_lt {a : Nat} (h : a < 2 ^ 63 * amountPerPower) :
    amountToPower a = .ok (Int.ofNat (a / amountPerPower)) := by
  unfold amountToPower two64 two63
  unfold amountPerPower at *
  have h1 : a / 1000000000000000000 < 2 ^ 63 := by omega
  have h2 : a / 1000000000000000000 % 2 ^ 64 = a / 1000000000000000000 := Nat.mod_eq_of_lt (by omega)
  simp only [h2]
  rw [if_neg (by omega)]

/-! ### the stake limiter -/

theorem check_noPanic {l : Limiter} (hl : l.isNil = true ∨ (0 ≤ l.base ∧ 1 ≤ l.maxCnt))
    (a : Hex) (t d : Int) (ap : Bool) : ∀ site, l.check a t d ap ≠ .panic site := by
  intro site hh
  unfold Limiter.check at hh
  rcases hl with hn | ⟨hb, hm⟩
  · simp [hn] at hh
  · simp only [] at hh
    repeat' split at hh
    all_goals first | (simp at hh; done) | skip
    · have hx := ‹_ = some _›
      subst hh
      repeat' split at hx
      all_goals first | (simp at hx; done) | skip
      omega
    · have hx := ‹_ = Res.panic _›
      repeat' split at hx
      all_goals first | (simp at hx; done) | skip
      rename_i hlen _ hnone
      rw [List.getElem?_eq_none_iff] at hnone
      omega
    · have hx := ‹_ = Res.panic _›
      repeat' split at hx
      all_goals first | (simp at hx; done) | skip
      · omega
      · rename_i hlen _ _ hnone
        rw [List.getElem?_eq_none_iff] at hnone
        omega


/-- limiter sanity: consulted only with ≥ 3 validators; then it is nil, or its base power is not
    negative (`checkIndividualPowerLimit` divides by `base + diff` with `diff > 0`) and its validator
    count is positive (index `powerObjs[maxValidatorCnt-1]`).  Since repair d28c085 a zero base is
    harmless (`checkUpdatablePowerLimit` no longer divides by it). -/
def LimiterOK (s : St) : Prop :=
  s.lastVals.length ≥ 3 → s.limiter.isNil = true ∨ (0 ≤ s.limiter.base ∧ 1 ≤ s.limiter.maxCnt)

theorem limit_noPanic {s : St} (hl : LimiterOK s) (exec : Bool) (a : Hex) (t d : Int) : NoPanic (s.limit exec a t d) := by
  intro site hh
  unfold St.limit at hh
  split at hh
  · rename_i h3
    split at hh
    · simp at hh
    · simp at hh
    · rename_i site' hc
      exact check_noPanic (hl h3) a t d exec site' hc
  · simp at hh

/-! ### payload / type agreement (`Trx.fromProto`) -/

/-- the payload object `fromProto` builds for each type number -/
def payloadOK (ty : Int) : Payload → Bool
  | .none => ty = TRX_TRANSFER ∨ ty = TRX_STAKING
  | .unstaking _ => ty = TRX_UNSTAKING
  | .proposal .. => ty = TRX_PROPOSAL
  | .voting .. => ty = TRX_VOTING
  | .contract _ => ty = TRX_CONTRACT
  | .setdoc .. => ty = TRX_SETDOC
  | .withdraw _ => ty = TRX_WITHDRAW

/-- what `Trx.fromProto` guarantees about a decodable transaction: the payload constructor matches
    the type number (hence the type is one of 1..8); every field value is arbitrary -/
def DecodedWF (tx : TxIn) : Prop := tx.decodable = true ∧ payloadOK tx.type tx.payload = true

instance (tx : TxIn) : Decidable (DecodedWF tx) := by unfold DecodedWF; infer_instance

/-! ### validation never panics -/

theorem ofRes_selfStakeRatio (d : Delegatee) (v : Int) :
    ofRes (d.selfStakeRatio v) =
      if d.total + v = 0 then .error (.panic "SelfStakeRatio: division by zero")
      else .ok (Int.tdiv (d.self * 100) (d.total + v)) := by
  unfold Delegatee.selfStakeRatio; split <;> rfl

theorem validateStaking_noPanic {s : St} {exec : Bool} {tx : TxIn}
    (hamt : tx.amount < stakeCap)
    (hV : s.active.minValidatorStake < 2 ^ 63 * amountPerPower)
    (hD : s.active.minDelegatorStake < 2 ^ 63 * amountPerPower)
    (hdel : ∀ d, s.delegs.get exec (ledgerKey tx.to) = some d → 0 ≤ d.total ∧ d.total < 2 ^ 62)
    (hl : LimiterOK s) : NoPanic (validateStaking s exec tx) := by
  have hamt' : tx.amount < 2 ^ 63 * amountPerPower := by unfold stakeCap at hamt; omega
  have hpow := amountToPower_lt hamt'
  have hq : tx.amount / amountPerPower < 2 ^ 62 := by unfold stakeCap amountPerPower at *; omega
  intro site hh
  unfold validateStaking at hh
  rw [hpow, amountToPower_lt hV, amountToPower_lt hD] at hh
  simp only [ofRes_selfStakeRatio] at hh
  simp only [ofRes] at hh
  clear hpow hamt hamt' hV hD
  generalize tx.amount / amountPerPower = q at hh hq
  generalize s.active.minValidatorStake / amountPerPower = mv at hh
  generalize s.active.minDelegatorStake / amountPerPower = md at hh
  panic_cases hh
  all_goals first
    | exact limit_noPanic hl _ _ _ _ site hh
    | (have := hdel _ ‹s.delegs.get exec (ledgerKey tx.to) = some _›
       simp only [two63, Int.ofNat_eq_natCast] at *; omega)
    | (simp only [two63, Int.ofNat_eq_natCast] at *; omega)
    | (have hd := hdel _ ‹s.delegs.get exec (ledgerKey tx.to) = some _›
       have hx := ‹(if _ then _ else _) = Except.error _›
       split at hx
       · simp only [Int.ofNat_eq_natCast] at *; omega
       · simp at hx)


theorem validateUnstaking_noPanic {s : St} {exec : Bool} {tx : TxIn} (hp : payloadOK tx.type tx.payload = true)
    (hty : tx.type = TRX_UNSTAKING) (hl : LimiterOK s) : NoPanic (validateUnstaking s exec tx) := by
  intro site hh
  unfold validateUnstaking at hh
  panic_cases hh
  · exact limit_noPanic hl _ _ _ _ site hh
  · -- payload is not an unstaking payload: excluded by the decode invariant
    rename_i hne
    rw [hty] at hp
    cases hpl : tx.payload <;> rw [hpl] at hp <;> simp [payloadOK, TRX_UNSTAKING, TRX_TRANSFER, TRX_STAKING,
      TRX_PROPOSAL, TRX_VOTING, TRX_CONTRACT, TRX_SETDOC, TRX_WITHDRAW] at hp
    exact hne _ hpl

theorem validateProposal_noPanic (s : St) (exec : Bool) (h : Int) (tx : TxIn) : NoPanic (validateProposal s exec h tx) := by
  intro site hh; unfold validateProposal at hh; panic_cases hh

theorem validateVoting_noPanic (s : St) (exec : Bool) (h : Int) (tx : TxIn) : NoPanic (validateVoting s exec h tx) := by
  intro site hh; unfold validateVoting at hh; panic_cases hh

theorem validateWithdraw_noPanic (s : St) (exec : Bool) (tx : TxIn) : NoPanic (validateWithdraw s exec tx) := by
  intro site hh; unfold validateWithdraw at hh; panic_cases hh

theorem validateEvm_noPanic (s : St) (tx : TxIn) (r : Account) : NoPanic (validateEvm s tx r) := by
  intro site hh; unfold validateEvm at hh; panic_cases hh

theorem cv0_noPanic (s : St) (exec : Bool) (tx : TxIn) : NoPanic (commonValidation0 s exec tx) := by
  intro site hh; unfold commonValidation0 at hh; panic_cases hh

theorem cv1_noPanic (a : Account) (tx : TxIn) : NoPanic (commonValidation1 a tx) := by
  intro site hh; unfold commonValidation1 at hh; panic_cases hh


theorem payload_of_type {tx : TxIn} (hp : payloadOK tx.type tx.payload = true) :
    (tx.type = TRX_UNSTAKING → ∃ h, tx.payload = .unstaking h) ∧
    (tx.type = TRX_SETDOC → ∃ a b c d, tx.payload = .setdoc a b c d) ∧
    (tx.type = TRX_PROPOSAL → ∃ a b c d e f, tx.payload = .proposal a b c d e f) ∧
    (tx.type = TRX_VOTING → ∃ a b, tx.payload = .voting a b) ∧
    (tx.type = TRX_WITHDRAW → ∃ r, tx.payload = .withdraw r) := by
  cases hpl : tx.payload <;> rw [hpl] at hp <;>
    simp [payloadOK, TRX_UNSTAKING, TRX_TRANSFER, TRX_STAKING, TRX_PROPOSAL, TRX_VOTING, TRX_CONTRACT,
      TRX_SETDOC, TRX_WITHDRAW] at hp ⊢ <;>
    (have := of_decide_eq_true hp; omega)


/-! ### execution never panics -/

theorem execTransfer_noPanic (s : St) (exec : Bool) (tx : TxIn) : NoPanic (execTransfer s exec tx) := by
  intro site hh; unfold execTransfer at hh; panic_cases hh

theorem execSetDoc_noPanic (s : St) (exec : Bool) (tx : TxIn) (hp : ∃ a b c d, tx.payload = .setdoc a b c d) :
    NoPanic (execSetDoc s exec tx) := by
  obtain ⟨a, b, c, d, hp⟩ := hp
  intro site hh; unfold execSetDoc at hh; rw [hp] at hh; panic_cases hh

theorem execStaking_noPanic (s : St) (exec : Bool) (h : Int) (tx : TxIn) (hp : ∃ p, amountToPower tx.amount = .ok p) :
    NoPanic (execStaking s exec h tx) := by
  obtain ⟨p, hp⟩ := hp
  intro site hh; unfold execStaking at hh; rw [hp] at hh; simp only [ofRes] at hh; panic_cases hh

theorem execUnstaking_noPanic (s : St) (exec : Bool) (h : Int) (tx : TxIn) (hp : ∃ x, tx.payload = .unstaking x) :
    NoPanic (execUnstaking s exec h tx) := by
  obtain ⟨x, hp⟩ := hp
  intro site hh; unfold execUnstaking at hh; rw [hp] at hh; panic_cases hh

theorem execProposal_noPanic (s : St) (exec : Bool) (tx : TxIn) (hp : ∃ a b c d e f, tx.payload = .proposal a b c d e f) :
    NoPanic (execProposal s exec tx) := by
  obtain ⟨a, b, c, d, e, f, hp⟩ := hp
  intro site hh; unfold execProposal at hh; rw [hp] at hh; panic_cases hh

theorem execVoting_noPanic (s : St) (exec : Bool) (tx : TxIn) (hp : ∃ a b, tx.payload = .voting a b) :
    NoPanic (execVoting s exec tx) := by
  obtain ⟨a, b, hp⟩ := hp
  intro site hh; unfold execVoting at hh; rw [hp] at hh; panic_cases hh

theorem ofRes_withdraw (w : Reward) (r : Nat) (h : Int) (hw : w.height ≤ h) : ∃ w', ofRes (w.withdraw r h) = .ok w' := by
  unfold Reward.withdraw
  split
  · exact ⟨_, rfl⟩
  · split
    · exact ⟨_, rfl⟩
    · omega

theorem execWithdraw_noPanic (s : St) (exec : Bool) (h : Int) (tx : TxIn)
    (hr : ∀ r, s.rewards.get exec (ledgerKey tx.from_) = some r → r.height ≤ h) :
    NoPanic (execWithdraw s exec h tx) := by
  intro site hh; unfold execWithdraw at hh
  panic_cases hh
  rename_i req _ _ r hg _ e he
  obtain ⟨w', hw⟩ := ofRes_withdraw r req h (hr r hg)
  rw [hw] at he; simp at he


theorem feeStep_noPanic (s : St) (exec : Bool) (tx : TxIn) : NoPanic (feeStep s exec tx) := by
  intro site hh; unfold feeStep at hh; panic_cases hh

/-- what the recorded EVM result must look like for the model's EVM path to be defined: there is a
    result, and a successful deployment lists the created address among the accounts synced out -/
def EvmResultOK (tx : TxIn) : Prop :=
  ∃ o, tx.evm = some o ∧
    (o.ok = true → isZeroAddr tx.to = true → ∃ e ∈ o.synced, ledgerKey e.1 = ledgerKey o.created)

theorem execEvm_noPanic (s : St) (exec : Bool) (tx : TxIn)
    (he : exec = true → AddrOK s.accts.fin ∧ EvmResultOK tx) : NoPanic (execEvm s exec tx) := by
  cases exec with
  | false => rw [execEvm_false]; exact NoPanic_ok _
  | true =>
    obtain ⟨hA, o, ho, hcr⟩ := he rfl
    intro site hh
    unfold execEvm at hh
    rw [ho] at hh
    simp only [bind, Except.bind, pure, Except.pure, throw, throwThe, MonadExceptOf.throw, findAcct_true] at hh
    split at hh
    · simp at hh
    split at hh
    · simp at hh
    rename_i hok
    split at hh
    · rename_i hz
      split at hh
      · simp at hh
      · rename_i hnone
        obtain ⟨_, _, aA⟩ := evmAccessed_spec o.accessed s
        obtain ⟨_, _, gS⟩ := evmSynced_spec o.synced _ (aA hA)
        obtain ⟨e, _, _, ac, hac, _⟩ := (gS (ledgerKey o.created)).2 (hcr (by simpa using hok) hz)
        have h2 : (evmSynced (evmAccessed s o.accessed) o.synced).accts.fin[ledgerKey o.created]? = none := hnone
        rw [hac] at h2; cases h2
    · simp at hh

theorem execNative_noPanic (s : St) (exec : Bool) (h : Int) (tx : TxIn)
    (hp : payloadOK tx.type tx.payload = true)
    (hpow : tx.type = TRX_STAKING → ∃ p, amountToPower tx.amount = .ok p)
    (hr : ∀ r, s.rewards.get exec (ledgerKey tx.from_) = some r → r.height ≤ h) :
    NoPanic (execNative s exec h tx) := by
  obtain ⟨p3, p7, p4, p5, _⟩ := payload_of_type hp
  unfold execNative
  split
  · exact execProposal_noPanic s exec tx (p4 ‹_›)
  split
  · exact execVoting_noPanic s exec tx (p5 ‹_›)
  split
  · exact execTransfer_noPanic s exec tx
  split
  · exact execSetDoc_noPanic s exec tx (p7 ‹_›)
  split
  · exact execStaking_noPanic s exec h tx (hpow ‹_›)
  split
  · exact execUnstaking_noPanic s exec h tx (p3 ‹_›)
  split
  · exact execWithdraw_noPanic s exec h tx hr
  · exact NoPanic_err _

theorem runTrx_noPanic (s : St) (exec : Bool) (h : Int) (tx : TxIn) (recv : Account)
    (hp : payloadOK tx.type tx.payload = true)
    (hpow : tx.type = TRX_STAKING → ∃ p, amountToPower tx.amount = .ok p)
    (hr : ∀ r, s.rewards.get exec (ledgerKey tx.from_) = some r → r.height ≤ h)
    (he : exec = true → viaEvm tx recv → AddrOK s.accts.fin ∧ EvmResultOK tx) :
    NoPanic (runTrx s exec h tx recv) := by
  by_cases hv : viaEvm tx recv
  · rw [runTrx_evm hv]
    apply NoPanic_bind (execEvm_noPanic s exec tx (fun e => he e hv))
    intro r _
    split <;> exact NoPanic_ok _
  · rw [runTrx_native hv]
    apply NoPanic_bind (execNative_noPanic s exec h tx hp hpow hr)
    intro r _
    split
    · exact NoPanic_ok _
    · exact feeStep_noPanic _ _ _


/-! ### the environment condition -/

/-- The state / parameter condition under which no transaction input panics, on path `exec`
    (`true` = DeliverTx, `false` = CheckTx) at height `h`. -/
structure StateOK (s : St) (exec : Bool) (h : Int) : Prop where
  /-- governance gas price · 2^63 < 2^255: `gas × price` and `fee + amount` cannot wrap -/
  feeSane : FeeSane s
  /-- governance minimum validator stake is below 2^63 RIGO -/
  minVal : s.active.minValidatorStake < 2 ^ 63 * amountPerPower
  /-- governance minimum delegator stake is below 2^63 RIGO -/
  minDel : s.active.minDelegatorStake < 2 ^ 63 * amountPerPower
  /-- SupplyBound: every balance on this path's view is below 2^62 RIGO -/
  bal : ∀ (k : String) (a : Account), s.accts.get exec k = some a → a.bal < stakeCap
  /-- every delegatee's total power on this path's view is in [0, 2^62) -/
  deleg : ∀ (k : String) (d : Delegatee), s.delegs.get exec k = some d → 0 ≤ d.total ∧ d.total < 2 ^ 62
  /-- the limiter (consulted with ≥ 3 validators) is nil or has non-negative base power and a positive validator count -/
  limiter : LimiterOK s
  /-- reward records are not from the future -/
  rewardH : ∀ (k : String) (r : Reward), s.rewards.get exec k = some r → r.height ≤ h
  /-- records sit under their own key (invariant of reachable states; used on the EVM path only) -/
  addr : exec = true → AddrOK s.accts.fin

/-- condition on the recorded EVM result of a transaction that is routed to the EVM on DeliverTx -/
def OracleOK (s : St) (exec : Bool) (tx : TxIn) : Prop :=
  exec = true → viaEvm tx (s.findOrNewAcct true tx.to).2 → EvmResultOK tx

def NoPanicEnv (s : St) (exec : Bool) (h : Int) (tx : TxIn) : Prop := StateOK s exec h ∧ OracleOK s exec tx

theorem findOrNew_frame_gen (s : St) (exec : Bool) (a : Hex) :
    ∃ ac, (s.findOrNewAcct exec a).1 = { s with accts := ac } := by
  unfold St.findOrNewAcct
  split
  · exact ⟨s.accts, rfl⟩
  · exact ⟨_, rfl⟩

theorem fee_facts_gen {s : St} {exec : Bool} {tx : TxIn} {sender : Account} (hF : FeeSane s)
    (h0 : commonValidation0 s exec tx = .ok ()) (h1 : commonValidation1 sender tx = .ok ()) :
    tx.price * tx.gas + tx.amount ≤ sender.bal := by
  obtain ⟨_, _, ha, hg, _, hp, _, _⟩ := cv0_ok h0
  obtain ⟨hb, _⟩ := cv1_ok h1
  unfold FeeSane at hF
  rw [← hp] at hF
  obtain ⟨e1, e2⟩ := wmul_fee_lt hF hg
  have ha' := isNeg256_false.mp ha
  rw [e1] at hb
  unfold wadd two256 at hb
  rw [Nat.mod_eq_of_lt (by have : (2:Nat) ^ 255 + 2 ^ 255 = 2 ^ 256 := by decide
                           omega)] at hb
  exact hb

theorem typeValidate_noPanic {s : St} {exec : Bool} {h : Int} {tx : TxIn} {recv : Account}
    (hp : payloadOK tx.type tx.payload = true)
    (hamt : tx.amount < stakeCap)
    (hV : s.active.minValidatorStake < 2 ^ 63 * amountPerPower)
    (hD : s.active.minDelegatorStake < 2 ^ 63 * amountPerPower)
    (hdel : ∀ (k : String) (d : Delegatee), s.delegs.get exec k = some d → 0 ≤ d.total ∧ d.total < 2 ^ 62)
    (hl : LimiterOK s) : NoPanic (typeValidate s exec h tx recv) := by
  obtain ⟨_, p7, _⟩ := payload_of_type hp
  unfold typeValidate
  split
  · exact validateProposal_noPanic _ _ _ _
  split
  · exact validateVoting_noPanic _ _ _ _
  split
  · exact NoPanic_ok _
  split
  · obtain ⟨a, b, c, d, hpl⟩ := p7 ‹_›
    rw [hpl]
    intro site hh
    panic_cases hh
  split
  · exact validateStaking_noPanic hamt hV hD (hdel _) hl
  split
  · exact validateUnstaking_noPanic hp ‹_› hl
  split
  · exact validateWithdraw_noPanic _ _ _
  split
  · exact validateEvm_noPanic _ _ _
  · exact NoPanic_err _

/-- core of `no_panic_tx`: everything except the per-type validation, which is a parameter
    (`hval`, for any account ledger — validation runs after the receiver find-or-create) -/
theorem handleTx_noPanic_core {s : St} {exec : Bool} {h : Int} {tx : TxIn}
    (hwf : DecodedWF tx ∨ tx.decodable = false)
    (hFee : FeeSane s)
    (hBal : ∀ (k : String) (a : Account), s.accts.get exec k = some a → a.bal < stakeCap)
    (hRew : ∀ (k : String) (r : Reward), s.rewards.get exec k = some r → r.height ≤ h)
    (hAddr : exec = true → AddrOK s.accts.fin) (hO : OracleOK s exec tx)
    (hval : ∀ (ac : Led Account) (recv : Account), tx.amount < stakeCap →
      NoPanic (typeValidate { s with accts := ac } exec h tx recv)) :
    (handleTx s exec h tx).2.panic = "" := by
  by_cases hlen : byteLen tx.to = 20
  case neg => exact handleTx_badlen_panic hlen
  rw [handleTx_goodlen hlen]
  unfold handleTxOld
  simp only
  split
  · rfl
  rename_i hdec
  have hp : payloadOK tx.type tx.payload = true := by
    rcases hwf with h | h
    · exact h.2
    · rw [h] at hdec; simp at hdec
  split
  · rfl
  rename_i sender hs
  obtain ⟨ac, hs0⟩ := findOrNew_frame_gen s exec tx.to
  have hbal : sender.bal < stakeCap := hBal _ _ hs
  have hF0 : FeeSane (s.findOrNewAcct exec tx.to).1 := by
    unfold FeeSane at hFee ⊢; rw [hs0]; exact hFee
  have hvalT : NoPanic (validateTrx (s.findOrNewAcct exec tx.to).1 exec h tx sender (s.findOrNewAcct exec tx.to).2) := by
    rw [validateTrx_eq]
    apply NoPanic_bind (cv0_noPanic _ _ _)
    intro _ h0
    apply NoPanic_bind (cv1_noPanic _ _)
    intro _ h1
    have hamt : tx.amount < stakeCap := by
      have := fee_facts_gen hF0 h0 h1; omega
    rw [hs0]; exact hval ac _ hamt
  split
  · rfl
  · rename_i site hv; exact absurd hv (hvalT site)
  rename_i s1 hv
  obtain ⟨h0, h1, htv⟩ := validateTrx_ok hv
  obtain ⟨⟨l, hl⟩, _⟩ := typeValidate_state htv
  have hamt : tx.amount < stakeCap := by
    have := fee_facts_gen hF0 h0 h1; omega
  have hrun : NoPanic (runTrx s1 exec h tx (s.findOrNewAcct exec tx.to).2) := by
    apply runTrx_noPanic _ _ _ _ _ hp
    · intro _
      exact ⟨_, amountToPower_lt (by unfold stakeCap at hamt; omega)⟩
    · intro r hr
      rw [hl, hs0] at hr
      exact hRew _ r hr
    · intro he hvia
      subst he
      refine ⟨?_, hO rfl hvia⟩
      rw [hl]
      exact AddrOK_findOrNew (hAddr rfl) tx.to
  split
  · rfl
  · rename_i site hr; exact absurd hr (hrun site)
  · rfl
  · rfl

/-- C09 `no_panic_tx` -/
theorem handleTx_noPanic {s : St} {exec : Bool} {h : Int} {tx : TxIn}
    (hwf : DecodedWF tx ∨ tx.decodable = false) (henv : NoPanicEnv s exec h tx) :
    (handleTx s exec h tx).2.panic = "" := by
  obtain ⟨hS, hO⟩ := henv
  have hp : tx.decodable = true → payloadOK tx.type tx.payload = true := by
    intro hd
    rcases hwf with h | h
    · exact h.2
    · rw [h] at hd; cases hd
  by_cases hd : tx.decodable = true
  · apply handleTx_noPanic_core hwf hS.feeSane hS.bal hS.rewardH hS.addr hO
    intro ac recv hamt
    exact typeValidate_noPanic (hp hd) hamt hS.minVal hS.minDel hS.deleg hS.limiter
  · unfold handleTx; simp [hd]

/-- an unstaking only lowers a power: with non-negative stake powers the limiter cannot panic on it,
    whatever its base and validator count (since repair d28c085) -/
theorem check_noPanic_nonpos (l : Limiter) (a : Hex) (t d : Int) (ap : Bool) (hd : d ≤ 0) :
    ∀ site, l.check a t d ap ≠ .panic site := by
  intro site hh
  unfold Limiter.check at hh
  simp only [] at hh
  repeat' split at hh
  all_goals first | (simp at hh; done) | skip
  · have hx := ‹_ = some _›
    subst hh
    repeat' split at hx
    all_goals first | (simp at hx; done) | skip
  · have hx := ‹_ = Res.panic _›
    repeat' split at hx
    all_goals first | (simp at hx; done) | skip
    rename_i hlen _ hnone
    rw [List.getElem?_eq_none_iff] at hnone
    omega
  · have hx := ‹_ = Res.panic _›
    repeat' split at hx
    all_goals first | (simp at hx; done) | skip
    all_goals omega

theorem validateUnstaking_noPanic_nonneg {s : St} {exec : Bool} {tx : TxIn} (hp : payloadOK tx.type tx.payload = true)
    (hty : tx.type = TRX_UNSTAKING)
    (hst : ∀ d st, s.delegs.get exec (ledgerKey tx.to) = some d → st ∈ d.stakes → 0 ≤ st.power) :
    NoPanic (validateUnstaking s exec tx) := by
  intro site hh
  unfold validateUnstaking at hh
  panic_cases hh
  · rename_i d hd _ hash _ _ _ st hfs _
    have hmem : st ∈ d.stakes := List.mem_of_find?_eq_some hfs
    have hpow := hst d st hd hmem
    unfold St.limit at hh
    split at hh
    · split at hh
      · simp at hh
      · simp at hh
      · rename_i site' hc
        exact check_noPanic_nonpos _ _ _ _ _ (by omega) site' hc
    · simp at hh
  · rename_i hne
    obtain ⟨p3, _⟩ := payload_of_type hp
    obtain ⟨x, hx⟩ := p3 hty
    exact hne _ hx

/-! ### wrappers -/

theorem deliverTx_noPanic {s : St} {b : BlockCtx} {tx : TxIn} (hb : s.blk = some b)
    (hwf : DecodedWF tx ∨ tx.decodable = false) (henv : NoPanicEnv s true b.height tx) :
    (deliverTx s tx).2.panic = "" := by
  have hp := handleTx_noPanic hwf henv
  unfold deliverTx; rw [hb]; simp only
  rw [if_neg (by simp [hp])]
  split <;> rfl

theorem checkTx_noPanic {s : St} {tx : TxIn}
    (hwf : DecodedWF tx ∨ tx.decodable = false) (henv : NoPanicEnv s false (s.lastHeight + 1) tx) :
    (checkTx s tx).2.panic = "" := by
  unfold checkTx; exact handleTx_noPanic hwf henv

/-! ### the application stays usable -/

theorem stakeCap_lt : stakeCap < 2 ^ 256 := by unfold stakeCap amountPerPower; decide

/-- a rejected delivery leaves the DeliverTx-path environment condition intact -/
theorem StateOK_after_failed_deliver {s : St} {h : Int} {tx : TxIn} (hS : StateOK s true h)
    (hc : (handleTx s true h tx).2.code ≠ 0) : StateOK (handleTx s true h tx).1 true h := by
  obtain ⟨l, e, ee⟩ := handleTx_fail_shape hc
  have hA := hS.addr rfl
  have hB : SenderBalSane s tx := by
    intro a ha
    have := hS.bal (ledgerKey tx.from_) a (by simp [Led.get, ha])
    have := stakeCap_lt
    omega
  have hlim := handleTx_fail_limiter hA hS.feeSane hB hc
  have hl : l = s.limiter := by rw [e] at hlim; exact hlim
  subst hl
  refine ⟨?_, ?_, ?_, ?_, ?_, ?_, ?_, ?_⟩
  · have := hS.feeSane; unfold FeeSane at this ⊢; rw [e]; exact this
  · rw [e]; exact hS.minVal
  · rw [e]; exact hS.minDel
  · intro k a hk
    have hk' : (handleTx s true h tx).1.accts.fin[k]? = some a := by simpa [Led.get] using hk
    rcases ee k with e1 | ⟨_, x, _, e1⟩
    · rw [e1] at hk'; exact hS.bal k a (by simp [Led.get, hk'])
    · rw [e1] at hk'; simp at hk'; subst hk'
      show (0 : Nat) < stakeCap
      unfold stakeCap amountPerPower; decide
  · intro k d hk; rw [e] at hk; exact hS.deleg k d hk
  · have := hS.limiter; unfold LimiterOK at this ⊢; rw [e]; exact this
  · intro k r hk; rw [e] at hk; exact hS.rewardH k r hk
  · intro _; exact EmptyExt_AddrOK ee hA

end Rigo
