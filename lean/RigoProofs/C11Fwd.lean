/-
  C11 helpers (8): the forward direction — a bonded stake with a non-zero key is, after any operation,
  still bonded under the same delegatee, or unbonding, or was forfeited by a slashing move of that
  BeginBlock (ghost predicate `ForfeitPath`).  Needs stake powers ≥ 0 (`slashRatio ≤ 100`).
-/
import RigoProofs.C12Refund

namespace Rigo
open Delegatee

/-! ### powers stay non-negative -/

def NonnegMap (m : KMap Delegatee) : Prop :=
  ∀ (k : String) (d : Delegatee), m[k]? = some d → ∀ st ∈ d.stakes, 0 ≤ st.power

def PowersNonneg (c : Core) : Prop := NonnegMap c.dfin ∧ ∀ m ∈ c.dhist, NonnegMap m

theorem NonnegMap.empty : NonnegMap {} := by intro k d h; simp at h

theorem NonnegMap.insert {m : KMap Delegatee} (hm : NonnegMap m) (k0 : String) {d : Delegatee}
    (hd : ∀ st ∈ d.stakes, 0 ≤ st.power) : NonnegMap (m.insert k0 d) := by
  intro k d' h
  rw [Std.ExtTreeMap.getElem?_insert] at h
  by_cases hk : k0 = k
  · simp [hk] at h; subst h; exact hd
  · simp [hk] at h; exact hm k d' h

theorem NonnegMap.erase {m : KMap Delegatee} (hm : NonnegMap m) (k0 : String) : NonnegMap (m.erase k0) := by
  intro k d' h
  rw [Std.ExtTreeMap.getElem?_erase] at h
  by_cases hk : k0 = k
  · simp [hk] at h
  · simp [hk] at h; exact hm k d' h

theorem tdiv_neg_nonpos (a : Int) (h : a < 0) : Int.tdiv a 100 ≤ 0 := by
  have h1 : a.tdiv 100 = -((-a).tdiv 100) := by rw [Int.neg_tdiv]; omega
  rw [h1, Int.tdiv_eq_ediv_of_nonneg (by omega)]
  omega

theorem slashed_le (p r : Int) (hp : 0 ≤ p) (hr : r ≤ 100) (h1 : 1 ≤ Int.tdiv (p * r) 100) :
    Int.tdiv (p * r) 100 ≤ p := by
  by_cases h0 : 0 ≤ p * r
  · rw [Int.tdiv_eq_ediv_of_nonneg h0] at *
    have : p * r ≤ p * 100 := Int.mul_le_mul_of_nonneg_left hr hp
    omega
  · have := tdiv_neg_nonpos (p * r) (by omega)
    omega

theorem doSlash_nonneg {d : Delegatee} {ratio : Int} (hr : ratio ≤ 100) (hd : ∀ st ∈ d.stakes, 0 ≤ st.power) :
    ∀ st ∈ (d.doSlash ratio).1.stakes, 0 ≤ st.power := by
  intro st' hst'
  have h1 := (doSlash_stakes_sublist d ratio).subset hst'
  simp only [List.mem_map] at h1
  obtain ⟨st, hst, rfl⟩ := h1
  have h0 := hd st hst
  by_cases hs : Int.tdiv (st.power * ratio) 100 < 1
  · simp [hs]; exact h0
  · simp [hs]
    have := slashed_le st.power ratio h0 hr (by omega)
    omega

theorem BeginAtom.nonneg {h : Header} {c c' : Core} (ha : BeginAtom h c c') (hr : c.active.slashRatio ≤ 100)
    (hc : PowersNonneg c) : PowersNonneg c' ∧ c'.active = c.active := by
  cases ha with
  | slash a d _ hd => exact ⟨⟨hc.1.insert _ (doSlash_nonneg hr (hc.1 _ _ hd)), hc.2⟩, rfl⟩
  | mark k d ns hd => exact ⟨⟨hc.1.insert _ (d := { d with notSigned := ns }) (fun st hst => hc.1 _ _ hd st hst), hc.2⟩, rfl⟩
  | jail k d ns hd => exact ⟨⟨(hc.1.insert _ (d := { d with notSigned := ns }) (fun st hst => hc.1 _ _ hd st hst)).erase _, hc.2⟩, rfl⟩

theorem amountToPower_nonneg {a : Nat} {p : Int} (h : amountToPower a = .ok p) : 0 ≤ p := by
  unfold amountToPower at h
  dsimp only at h
  split at h
  · cases h
  · cases h; exact Int.natCast_nonneg _

theorem OpCore.nonneg {nk : List Hex} {op : Op} {c c' : Core} (h : OpCore nk op c c')
    (hr : c.active.slashRatio ≤ 100) (hc : PowersNonneg c) : PowersNonneg c' := by
  cases h with
  | same => exact hc
  | begin_ h _ _ _ hs =>
    exact (Steps.inv (P := fun x => PowersNonneg x ∧ x.active = c.active)
      (fun a b hab ⟨h1, h2⟩ => ⟨(hab.nonneg (by rw [h2]; exact hr) h1).1, (hab.nonneg (by rw [h2]; exact hr) h1).2.trans h2⟩)
      hs ⟨hc, rfl⟩).1
  | stake tx _ ht d power _ _ _ _ htgt hp _ =>
    refine ⟨hc.1.insert _ ?_, hc.2⟩
    intro st hst
    simp only [Delegatee.addStake, List.mem_append, List.mem_singleton] at hst
    rcases hst with hst | rfl
    · rcases htgt with h1 | ⟨_, _, rfl⟩
      · exact hc.1 _ _ h1 st hst
      · cases hst
    · exact amountToPower_nonneg hp
  | unstake tx _ ht d hash st _ _ _ _ hdK _ _ =>
    refine ⟨?_, hc.2⟩
    show NonnegMap (unstakeCore c d st hash ht).dfin
    unfold unstakeCore
    dsimp only
    have hsub : (if (d.delStake hash).self = 0 then (d.delStake hash).delAllStakes.1 else d.delStake hash).stakes.Sublist d.stakes := by
      split
      · simp [delAllStakes_fst]
      · exact delStake_stakes_sublist d hash
    generalize (if (d.delStake hash).self = 0 then (d.delStake hash).delAllStakes.1 else d.delStake hash) = d2 at hsub
    split
    · exact hc.1.erase _
    · exact hc.1.insert _ (fun x hx => hc.1 _ _ hdK x (hsub.subset hx))
  | end_ _ ht _ =>
    obtain ⟨h1, h2, _⟩ := unfreezeFold_frame c.fcommitted.toList ht c
    unfold unfreezeCore PowersNonneg
    rw [h1, h2]; exact hc
  | commit _ ht act _ =>
    refine ⟨hc.1, ?_⟩
    intro m hm
    simp only [List.mem_append, List.mem_singleton] at hm
    rcases hm with hm | rfl
    · exact hc.2 m hm
    · exact hc.1
  | restart _ act =>
    refine ⟨?_, hc.2⟩
    show NonnegMap c.dcommitted
    unfold Core.dcommitted
    cases hl : c.dhist.getLast? with
    | none => exact NonnegMap.empty
    | some m => exact hc.2 m (List.mem_of_getLast? hl)

/-! ### before the first commit only genesis stakes exist at block boundaries -/

def NoNzBeforeCommit (c : Core) : Prop :=
  c.dhist = [] → c.height = none → ∀ k, k ≠ zeroKey → ¬ BondedKey c k

theorem BeginAtom.height {h : Header} {c c' : Core} (ha : BeginAtom h c c') :
    c'.height = c.height ∧ c'.lastHeight = c.lastHeight ∧ c'.dhist = c.dhist ∧ c'.fhist = c.fhist := by
  cases ha <;> exact ⟨rfl, rfl, rfl, rfl⟩

theorem OpCore.noNz {nk : List Hex} {op : Op} {c c' : Core} (h : OpCore nk op c c') (hc : NoNzBeforeCommit c) :
    NoNzBeforeCommit c' := by
  cases h with
  | same => exact hc
  | begin_ h _ _ _ hs =>
    have := Steps.inv (P := fun x => x.height = some h.height)
      (fun a b hab ha => by rw [hab.height.1]; exact ha) hs rfl
    intro _ hn; rw [this] at hn; cases hn
  | stake tx _ ht d power hh => intro _ hn; rw [show c.height = some ht from hh] at hn; cases hn
  | unstake tx _ ht d hash st hh => intro _ hn; rw [show (unstakeCore c d st hash ht).height = c.height from rfl, hh] at hn; cases hn
  | end_ _ ht hh =>
    obtain ⟨_, _, _, _, f5, _⟩ := unfreezeFold_frame c.fcommitted.toList ht c
    intro _ hn; unfold unfreezeCore at hn; rw [f5, hh] at hn; cases hn
  | commit _ ht act _ => intro hn; simp at hn
  | restart _ act =>
    intro hn _ k _
    rintro ⟨kd, d, st, h1, _⟩
    have hn' : c.dhist = [] := hn
    have : c.dcommitted = {} := by simp [Core.dcommitted, hn']
    dsimp only at h1; rw [this] at h1; simp at h1

/-! ### slashing keeps every stake whose slashed amount is at least 1 -/

theorem mem_foldl_eraseP_of_ne {α β : Type} (f : β → α → Bool) (rs : List β) (l : List α) (e : α)
    (he : e ∈ l) (hn : ∀ r ∈ rs, ¬ f r e = true) : e ∈ rs.foldl (fun acc r => acc.eraseP (f r)) l := by
  induction rs generalizing l with
  | nil => exact he
  | cons r rs ih =>
    simp only [List.foldl_cons]
    exact ih _ ((List.mem_eraseP_of_neg (hn r (by simp))).mpr he) (fun r' hr' => hn r' (by simp [hr']))

theorem doSlash_survive {d : Delegatee} {ratio : Int} {st : Stake} (hst : st ∈ d.stakes)
    (hn : ((d.stakes.map skey).filter (fun k => decide (k ≠ zeroKey))).Nodup) (hz : skey st ≠ zeroKey)
    (hs : ¬ Int.tdiv (st.power * ratio) 100 < 1) :
    ∃ st' ∈ (d.doSlash ratio).1.stakes, skey st' = skey st := by
  refine ⟨{ st with power := st.power - Int.tdiv (st.power * ratio) 100 }, ?_, rfl⟩
  unfold Delegatee.doSlash
  dsimp only
  apply mem_foldl_eraseP_of_ne (fun (r : Stake) (x : Stake) => x.hash == r.hash)
  · simp only [List.mem_map]
    exact ⟨st, hst, by simp [hs]⟩
  · intro r hr hh
    simp only [List.mem_filter, decide_eq_true_eq] at hr
    have hkey : skey r = skey st := by
      simp only [beq_iff_eq] at hh
      simp [skey, hh]
    have := key_inj_of_nodup d.stakes hn r hr.1 st hst hkey (by rw [hkey]; exact hz)
    rw [this] at hr
    exact hs hr.2

/-! ### the forward step -/

def BondedAt (c : Core) (kd k : String) : Prop :=
  ∃ (d : Delegatee) (st : Stake), c.dfin[kd]? = some d ∧ st ∈ d.stakes ∧ skey st = k

def slashedCore (c : Core) (a : Hex) (d : Delegatee) : Core :=
  { c with dfin := c.dfin.insert (ledgerKey a) (d.doSlash c.active.slashRatio).1 }

/-- ghost: the atomic moves of a BeginBlock from `c0` to `c'` pass through a slashing of the delegatee
    holding the stake with key `k`, named by the block's evidence, in which that stake's slashed amount
    `power * slashRatio / 100` rounds to 0 (`slashStake` = none): the stake is forfeited -/
def ForfeitPath (h : Header) (c0 c' : Core) (k : String) : Prop :=
  ∃ c1 a d st, Steps (BeginAtom h) c0 c1 ∧ a ∈ h.evidence ∧ c1.dfin[ledgerKey a]? = some d ∧ st ∈ d.stakes ∧
    skey st = k ∧ slashStake c1.active.slashRatio st = none ∧ Steps (BeginAtom h) (slashedCore c1 a d) c'

theorem BeginAtom.forward {U : List String} {h : Header} {c c' : Core} (ha : BeginAtom h c c')
    (hl : Life U .inBlock c) (hd : DelegsOK c) {kd k : String} (hk : k ≠ zeroKey) (hb : BondedAt c kd k) :
    BondedAt c' kd k ∨ c'.ffin[k]? ≠ none ∨
    (∃ a d st, a ∈ h.evidence ∧ c.dfin[ledgerKey a]? = some d ∧ st ∈ d.stakes ∧ skey st = k ∧
      slashStake c.active.slashRatio st = none ∧ c' = slashedCore c a d) := by
  obtain ⟨d0, st0, h1, h2, h3⟩ := hb
  cases ha with
  | slash a d hev hda =>
    by_cases e : ledgerKey a = kd
    · subst e
      obtain rfl : d = d0 := by rw [hda] at h1; exact Option.some.inj h1
      by_cases hs : Int.tdiv (st0.power * c.active.slashRatio) 100 < 1
      · right; right
        exact ⟨a, d, st0, hev, hda, h2, h3, by simp [slashStake, hs], rfl⟩
      · left
        obtain ⟨st', m1, m2⟩ := doSlash_survive (ratio := c.active.slashRatio) h2 (hl.nodup _ _ hda) (h3 ▸ hk) hs
        exact ⟨_, st', by simp, m1, m2.trans h3⟩
    · left
      exact ⟨d0, st0, by dsimp only; rw [Std.ExtTreeMap.getElem?_insert]; simp [e]; exact h1, h2, h3⟩
  | mark k0 d ns hd0 =>
    left
    obtain ⟨_, hk0, _⟩ := hd.1 _ _ hd0
    by_cases e : k0 = kd
    · subst e
      obtain rfl : d = d0 := by rw [hd0] at h1; exact Option.some.inj h1
      exact ⟨{ d with notSigned := ns }, st0, by dsimp only; rw [← hk0]; simp, h2, h3⟩
    · exact ⟨d0, st0, by dsimp only; rw [← hk0, Std.ExtTreeMap.getElem?_insert]; simp [e]; exact h1, h2, h3⟩
  | jail k0 d ns hd0 =>
    obtain ⟨_, hk0, _⟩ := hd.1 _ _ hd0
    by_cases e : k0 = kd
    · subst e
      obtain rfl : d = d0 := by rw [hd0] at h1; exact Option.some.inj h1
      right; left
      show (freezeFin c.ffin d.stakes _)[k]? ≠ none
      rw [freezeFin_isSome]
      exact Or.inr ⟨st0, h2, h3⟩
    · left
      refine ⟨d0, st0, ?_, h2, h3⟩
      dsimp only
      rw [← hk0, Std.ExtTreeMap.getElem?_erase, Std.ExtTreeMap.getElem?_insert]
      simp [e]; exact h1

theorem BeginAtom.ffin_keep {h : Header} {c c' : Core} (ha : BeginAtom h c c') {k : String}
    (hf : c.ffin[k]? ≠ none) : c'.ffin[k]? ≠ none := by
  cases ha with
  | slash => exact hf
  | mark => exact hf
  | jail k0 d ns hd0 =>
    show (freezeFin c.ffin d.stakes _)[k]? ≠ none
    rw [freezeFin_isSome]; exact Or.inl hf

theorem Steps.forward {U : List String} {h : Header} {c0 c' : Core} (hs : Steps (BeginAtom h) c0 c')
    (hl : Life U .inBlock c0) (hh : c0.height ≠ none) (hd : DelegsOK c0) {kd k : String} (hk : k ≠ zeroKey)
    (hb : BondedAt c0 kd k) :
    BondedAt c' kd k ∨ c'.ffin[k]? ≠ none ∨ ForfeitPath h c0 c' k := by
  have := Steps.inv (P := fun x => (Life U .inBlock x ∧ x.height ≠ none ∧ DelegsOK x) ∧ Steps (BeginAtom h) c0 x ∧
      (BondedAt x kd k ∨ x.ffin[k]? ≠ none ∨ ForfeitPath h c0 x k))
    (fun a b hab ⟨⟨h1, h2, h3⟩, h4, h5⟩ => by
      refine ⟨⟨(hab.life h1 h2 h3).1, (hab.life h1 h2 h3).2, hab.delegsOK h3⟩, h4.tail hab, ?_⟩
      rcases h5 with h5 | h5 | ⟨c1, a0, d, st, p1, p2, p3, p4, p5, p6, p7⟩
      · rcases hab.forward h1 h3 hk h5 with h6 | h6 | ⟨a0, d, st, q1, q2, q3, q4, q5, q6⟩
        · exact Or.inl h6
        · exact Or.inr (Or.inl h6)
        · exact Or.inr (Or.inr ⟨a, a0, d, st, h4, q1, q2, q3, q4, q5, by rw [q6]; exact .refl _⟩)
      · exact Or.inr (Or.inl (hab.ffin_keep h5))
      · exact Or.inr (Or.inr ⟨c1, a0, d, st, p1, p2, p3, p4, p5, p6, p7.tail hab⟩))
    hs ⟨⟨hl, hh, hd⟩, .refl _, Or.inl hb⟩
  exact this.2.2

/-- sums of non-negative powers: total 0 forces every part 0 -/
theorem sumPower_nonneg {l : List Stake} (h : ∀ st ∈ l, 0 ≤ st.power) : 0 ≤ sumPower l := by
  induction l with
  | nil => simp [sumPower]
  | cons a l ih =>
    rw [sumPower_cons]
    have := h a (by simp)
    have := ih (fun st hst => h st (by simp [hst]))
    omega

theorem sumPowerOf_le {l : List Stake} (h : ∀ st ∈ l, 0 ≤ st.power) (o : Hex) :
    0 ≤ sumPowerOf l o ∧ sumPowerOf l o ≤ sumPower l := by
  induction l with
  | nil => simp [sumPower, sumPowerOf]
  | cons a l ih =>
    rw [sumPower_cons, sumPowerOf_cons]
    have := h a (by simp)
    have := ih (fun st hst => h st (by simp [hst]))
    split <;> omega

theorem mem_eraseP_of_ne_found (p : Stake → Bool) (l : List Stake) (a b : Stake) (hf : l.find? p = some a)
    (hm : b ∈ l) (hne : b ≠ a) : b ∈ l.eraseP p := by
  induction l with
  | nil => cases hm
  | cons x l ih =>
    by_cases hp : p x = true
    · simp [hp] at hf; subst hf
      rw [List.eraseP_cons_of_pos hp]
      simp only [List.mem_cons] at hm
      rcases hm with hm | hm
      · exact absurd hm hne
      · exact hm
    · simp [hp] at hf
      rw [List.eraseP_cons_of_neg hp]
      simp only [List.mem_cons] at hm ⊢
      rcases hm with hm | hm
      · exact Or.inl hm
      · exact Or.inr (ih hf hm)

theorem OpCore.forward {U : List String} {nk : List Hex} {op : Op} {p p' : Phase} {c c' : Core}
    (hop : OpCore nk op c c') (hl : Life U p c) (hd : DelegsOK c) (hnn : NonnegMap c.dfin) (hj : NoNzBeforeCommit c)
    (hph : phaseStep p op = some p') {kd k : String} (hk : k ≠ zeroKey) (hb : BondedAt c kd k) :
    BondedAt c' kd k ∨ c'.ffin[k]? ≠ none ∨
    (∃ h, op = .begin_ h ∧ ForfeitPath h { c with height := some h.height } c' k) := by
  cases hop with
  | same => exact Or.inl hb
  | begin_ h _ _ hht hs =>
    have hp : p = .idle := by cases p <;> simp [phaseStep] at hph <;> rfl
    subst hp
    have h0 : Life U .inBlock { c with height := some h.height } :=
      { used := hl.used, nodup := hl.nodup, across := hl.across, excl := hl.excl, once := hl.once, gone := hl.gone,
        boundary := fun hn => (by cases hn), idle := fun hp => (by cases hp),
        inblock := fun _ k st _ hk => (by
          show c.ffin[k]? = some st
          rw [(hl.boundary (hl.idle rfl)).1]; exact hk) }
    rcases hs.forward h0 (by simp) hd hk hb with h1 | h1 | h1
    · exact Or.inl h1
    · exact Or.inr (Or.inl h1)
    · exact Or.inr (Or.inr ⟨h, rfl, h1⟩)
  | stake tx _ ht d power hh hty hsig hto htgt hp hin =>
    left
    obtain ⟨d0, st0, h1, h2, h3⟩ := hb
    by_cases e : ledgerKey d.addr = kd
    · subst e
      rcases htgt.old hd.1 with ho | ⟨ho, _⟩
      · obtain rfl : d = d0 := by rw [ho] at h1; exact Option.some.inj h1
        exact ⟨d.addStake (newStake tx power ht), st0, by simp, by simp [Delegatee.addStake, h2], h3⟩
      · rw [ho] at h1; cases h1
    · exact ⟨d0, st0, by dsimp only; rw [Std.ExtTreeMap.getElem?_insert]; simp [e]; exact h1, h2, h3⟩
  | unstake tx _ ht d hash st hh hty hsig hpay hdK hst hown =>
    obtain ⟨d0, st0, h1, h2, h3⟩ := hb
    obtain ⟨hok, hK, _⟩ := hd.1 _ _ hdK
    by_cases e : ledgerKey tx.to = kd
    · subst e
      obtain rfl : d = d0 := by rw [hdK] at h1; exact Option.some.inj h1
      -- st0 is released, or stays in the remaining record
      by_cases hrel : st0 ∈ releasedBy d st hash
      · right; left
        rw [unstakeCore_ffin, freezeFin_isSome]
        exact Or.inr ⟨st0, hrel, h3⟩
      · left
        have h0 : ¬ (d.delStake hash).self = 0 := by
          intro h0
          apply hrel
          unfold releasedBy
          simp only [h0, if_true, List.mem_cons]
          by_cases hs : st0 = st
          · exact Or.inl hs
          · right
            have hd1 : (d.delStake hash).stakes = d.stakes.eraseP (fun x => x.hash == hash) := by
              unfold Delegatee.delStake; rw [hst]
            rw [hd1]
            exact mem_eraseP_of_ne_found _ _ _ _ hst h2 hs
        have hmem1 : st0 ∈ (d.delStake hash).stakes := by
          have hd1 : (d.delStake hash).stakes = d.stakes.eraseP (fun x => x.hash == hash) := by
            unfold Delegatee.delStake; rw [hst]
          have hne : st0 ≠ st := by
            intro hs; apply hrel; unfold releasedBy; simp [hs]
          rw [hd1]
          exact mem_eraseP_of_ne_found _ _ _ _ hst h2 hne
        -- the remaining record has total ≠ 0, because its self power is ≠ 0 and powers are ≥ 0
        have hok1 := hok.delStake hash
        have hnn1 : ∀ x ∈ (d.delStake hash).stakes, 0 ≤ x.power :=
          fun x hx => hnn _ _ hdK x ((delStake_stakes_sublist d hash).subset hx)
        have htot : ¬ (d.delStake hash).total = 0 := by
          intro ht0
          have := sumPowerOf_le hnn1 (d.delStake hash).addr
          rw [← hok1.1, ← hok1.2.1] at this
          omega
        refine ⟨d.delStake hash, st0, ?_, hmem1, h3⟩
        unfold unstakeCore
        dsimp only
        simp only [h0, if_false, htot, delStake_addr, ← hK]
        simp
    · left
      refine ⟨d0, st0, ?_, h2, h3⟩
      have := (unstakeCore_effect hd ht hdK hst).2.2 kd (Ne.symm e)
      rw [this]; exact h1
  | end_ _ ht hh =>
    left
    obtain ⟨f1, _⟩ := unfreezeFold_frame c.fcommitted.toList ht c
    obtain ⟨d0, st0, h1, h2, h3⟩ := hb
    exact ⟨d0, st0, by unfold unfreezeCore; rw [f1]; exact h1, h2, h3⟩
  | commit => exact Or.inl hb
  | restart _ act =>
    left
    have hp : p = .idle := by cases p <;> simp [phaseStep] at hph <;> rfl
    subst hp
    have hn := hl.idle rfl
    rcases (hl.boundary hn).2 with b2 | b2
    · obtain ⟨d0, st0, h1, h2, h3⟩ := hb
      exact ⟨d0, st0, by show c.dcommitted[kd]? = some d0; rw [← b2]; exact h1, h2, h3⟩
    · obtain ⟨d0, st0, h1, h2, h3⟩ := hb
      exact absurd ⟨kd, d0, st0, h1, h2, h3⟩ (hj b2 hn k hk)

end Rigo
