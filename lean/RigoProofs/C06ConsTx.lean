/-
  C06 (part 3): the DeliverTx path (`handleTx … (exec := true)`) never reads a mempool view.
  Stated as commutation with `eraseChk` (`E`): running a validation / execution step on the state
  with blanked `chk` maps gives the blanked result of running it on the original state (the only
  thing the consensus path ever does to a `chk` map is `Led.del true`, an erase, which is invisible
  after blanking).
-/
import RigoProofs.C06Check

namespace Rigo
namespace C06

abbrev E := eraseChk

section proj
variable (s : St) (k : String)
@[simp] theorem E_accts_get : (E s).accts.get true k = s.accts.get true k := rfl
@[simp] theorem E_delegs_get : (E s).delegs.get true k = s.delegs.get true k := rfl
@[simp] theorem E_frozen_get : (E s).frozen.get true k = s.frozen.get true k := rfl
@[simp] theorem E_rewards_get : (E s).rewards.get true k = s.rewards.get true k := rfl
@[simp] theorem E_params_get : (E s).params.get true k = s.params.get true k := rfl
@[simp] theorem E_props_get : (E s).props.get true k = s.props.get true k := rfl
@[simp] theorem E_fprops_get : (E s).fprops.get true k = s.fprops.get true k := rfl
@[simp] theorem E_active : (E s).active = s.active := rfl
@[simp] theorem E_lastVals : (E s).lastVals = s.lastVals := rfl
@[simp] theorem E_limiter : (E s).limiter = s.limiter := rfl
@[simp] theorem E_findAcct (a : Hex) : (E s).findAcct true a = s.findAcct true a := rfl
@[simp] theorem E_isValidator (a : Hex) : (E s).isValidator a = s.isValidator a := rfl
end proj

theorem erase_empty {α : Type} (k : String) : ((∅ : KMap α).erase k) = ∅ := by
  apply Std.ExtTreeMap.ext_getElem?; intro x; simp

theorem limit_E (s : St) (a : Hex) (t d : Int) : (E s).limit true a t d = (s.limit true a t d).map E := by
  unfold St.limit
  simp only [E_lastVals, E_limiter]
  by_cases hc : s.lastVals.length ≥ 3
  · simp only [hc, if_true]; cases s.limiter.check a t d true <;> rfl
  · simp only [hc, if_false]; rfl

macro "unstepg" : tactic =>
  `(tactic| (simp only [bind, Except.bind, pure, Except.pure, throw, throwThe, MonadExceptOf.throw, ofRes]))

macro "ls_close" : tactic => `(tactic| (
  repeat' split
  all_goals first | rfl | exact limit_E _ _ _ _ | (simp_all [Except.map, limit_E]; done) | skip
  all_goals (simp_all [Except.map, limit_E]; repeat' split)
  all_goals first | rfl | (simp_all; done) | omega))

theorem validateStaking_E (s : St) (tx : TxIn) :
    validateStaking (E s) true tx = (validateStaking s true tx).map E := by
  unfold validateStaking
  dsimp only [E_delegs_get, E_active]
  unstepg
  ls_close

theorem validateUnstaking_E (s : St) (tx : TxIn) :
    validateUnstaking (E s) true tx = (validateUnstaking s true tx).map E := by
  unfold validateUnstaking
  dsimp only [E_delegs_get, E_active]
  unstepg
  ls_close

theorem validateWithdraw_E (s : St) (tx : TxIn) :
    validateWithdraw (E s) true tx = (validateWithdraw s true tx).map E := by
  unfold validateWithdraw
  dsimp only [E_rewards_get, E_active]
  unstepg
  ls_close

theorem validateProposal_E (s : St) (ht : Int) (tx : TxIn) :
    validateProposal (E s) true ht tx = (validateProposal s true ht tx).map E := by
  unfold validateProposal
  dsimp only [E_props_get, E_active, E_isValidator]
  unstepg
  ls_close

theorem validateVoting_E (s : St) (ht : Int) (tx : TxIn) :
    validateVoting (E s) true ht tx = (validateVoting s true ht tx).map E := by
  unfold validateVoting
  dsimp only [E_props_get, E_active]
  unstepg
  ls_close

theorem validateEvm_E (s : St) (tx : TxIn) (r : Account) :
    validateEvm (E s) tx r = (validateEvm s tx r).map E := by
  unfold validateEvm
  unstepg
  ls_close

theorem commonValidation0_E (s : St) (tx : TxIn) :
    commonValidation0 (E s) true tx = commonValidation0 s true tx := rfl

theorem validateTrx_E (s : St) (ht : Int) (tx : TxIn) (a b : Account) :
    validateTrx (E s) true ht tx a b = (validateTrx s true ht tx a b).map E := by
  unfold validateTrx
  rw [commonValidation0_E, validateProposal_E, validateVoting_E, validateStaking_E, validateUnstaking_E,
    validateWithdraw_E, validateEvm_E]
  unstepg
  ls_close


def RE (r : RunOut) : RunOut := { r with st := E r.st }

theorem freezeAll_true_eq (fr : Led Stake) (ss : List Stake) (r : Int) :
    freezeAll fr true ss r =
      { hist := fr.hist,
        fin := ss.foldl (fun m st => m.insert (ledgerKey st.hash) { st with refund := r }) fr.fin,
        chk := fr.chk } := by
  unfold freezeAll
  induction ss generalizing fr with
  | nil => simp
  | cons a ss ih => simp only [List.foldl_cons]; rw [ih]; simp [Led.set]

macro "ex_close" : tactic => `(tactic| (
  repeat' split
  all_goals try dsimp only
  all_goals repeat' split
  all_goals first | rfl | (simp_all [Except.map, RE, eraseChk, St.setAcct, St.findAcct, Led.set, Led.get, Led.del, erase_empty, freezeAll_true_eq]; done) | skip))

theorem execTransfer_E (s : St) (tx : TxIn) :
    execTransfer (E s) true tx = (execTransfer s true tx).map RE := by
  unfold execTransfer
  dsimp only [E_findAcct]
  unstepg
  ex_close

theorem execSetDoc_E (s : St) (tx : TxIn) :
    execSetDoc (E s) true tx = (execSetDoc s true tx).map RE := by
  unfold execSetDoc
  dsimp only [E_findAcct]
  unstepg
  ex_close

theorem execStaking_E (s : St) (ht : Int) (tx : TxIn) :
    execStaking (E s) true ht tx = (execStaking s true ht tx).map RE := by
  unfold execStaking
  dsimp only [E_findAcct, E_delegs_get]
  unstepg
  ex_close

theorem execUnstaking_E (s : St) (ht : Int) (tx : TxIn) :
    execUnstaking (E s) true ht tx = (execUnstaking s true ht tx).map RE := by
  unfold execUnstaking
  dsimp only [E_findAcct, E_delegs_get, E_active]
  unstepg
  ex_close

theorem execProposal_E (s : St) (tx : TxIn) :
    execProposal (E s) true tx = (execProposal s true tx).map RE := by
  unfold execProposal
  dsimp only [E_lastVals]
  unstepg
  ex_close

theorem execVoting_E (s : St) (tx : TxIn) :
    execVoting (E s) true tx = (execVoting s true tx).map RE := by
  unfold execVoting
  dsimp only [E_props_get]
  unstepg
  ex_close


theorem reward_E (s : St) (to : Hex) (amt : Nat) : (E s).reward true to amt = (s.reward true to amt).map E := by
  unfold St.reward
  dsimp only [E_findAcct]
  repeat' split
  all_goals first | rfl | (simp_all [eraseChk, St.setAcct, Led.set]; done)

theorem execWithdraw_E (s : St) (ht : Int) (tx : TxIn) :
    execWithdraw (E s) true ht tx = (execWithdraw s true ht tx).map RE := by
  unfold execWithdraw
  dsimp only [E_rewards_get]
  have hrw : ∀ (k : String) (v : Reward),
      ({ E s with rewards := (E s).rewards.set true k v } : St) = E { s with rewards := s.rewards.set true k v } :=
    fun _ _ => rfl
  simp only [hrw, reward_E]
  clear hrw
  unstepg
  repeat' split
  all_goals try dsimp only
  all_goals first | rfl | (simp_all [Except.map, RE]; done) | skip
  all_goals
    have h2 := ‹St.reward _ true _ _ = some _›
    have h1 := ‹Option.map E _ = some _›
    rw [h2] at h1; cases h1
    simp [Except.map, RE, eraseChk]

end C06
end Rigo
