/-
  C02 helper: the CheckTx path (`handleTx s false …`) never touches the consensus view of the
  value-carrying ledgers (`SameFin`).
-/
import RigoProofs.C02Defs
import RigoProofs.TxRecv

namespace Rigo.C02

open Rigo

/-! ### the part of the state `SameFin` talks about -/

/-- everything `SameFin` compares, as one tuple -/
def finView (s : St) :
    List (KMap Account) × KMap Account × List (KMap Delegatee) × KMap Delegatee ×
    List (KMap Stake) × KMap Stake × Option BlockCtx × Params × Nat × Nat :=
  (s.accts.hist, s.accts.fin, s.delegs.hist, s.delegs.fin, s.frozen.hist, s.frozen.fin,
   s.blk, s.active, s.ghost.feeBurn, s.ghost.withdrawn)

theorem sameFin_iff (s s' : St) : SameFin s s' ↔ finView s' = finView s := by
  constructor
  · intro h
    simp [finView, h.accts, h.delegs, h.frozen, h.withdrawn, h.acctsHist, h.delegsHist, h.frozenHist,
      h.blk, h.active, h.feeBurn]
  · intro h
    simp only [finView, Prod.mk.injEq] at h
    obtain ⟨h1, h2, h3, h4, h5, h6, h7, h8, h9, h10⟩ := h
    exact { acctsHist := h1, delegsHist := h3, frozenHist := h5, blk := h7, active := h8, feeBurn := h9,
            accts := h2, delegs := h4, frozen := h6, withdrawn := h10 }

theorem SameFin.refl (s : St) : SameFin s s := (sameFin_iff s s).2 rfl

theorem SameFin.trans {s1 s2 s3 : St} (h12 : SameFin s1 s2) (h23 : SameFin s2 s3) : SameFin s1 s3 :=
  (sameFin_iff s1 s3).2 (((sameFin_iff s2 s3).1 h23).trans ((sameFin_iff s1 s2).1 h12))

/-! ### ledger writes on the mempool side -/

section Led
variable {α : Type}

@[simp] theorem led_set_false_fin (l : Led α) (k : String) (v : α) : (l.set false k v).fin = l.fin := by
  simp [Led.set]
@[simp] theorem led_set_false_hist (l : Led α) (k : String) (v : α) : (l.set false k v).hist = l.hist := by
  simp [Led.set]
@[simp] theorem led_del_false_fin (l : Led α) (k : String) : (l.del false k).fin = l.fin := by
  simp [Led.del]
@[simp] theorem led_del_false_hist (l : Led α) (k : String) : (l.del false k).hist = l.hist := by
  simp [Led.del]

end Led

@[simp] theorem freezeAll_false_fin (fr : Led Stake) (ss : List Stake) (r : Int) :
    (freezeAll fr false ss r).fin = fr.fin := by
  unfold freezeAll
  induction ss generalizing fr with
  | nil => rfl
  | cons st ss ih => simp only [List.foldl_cons]; rw [ih]; simp

@[simp] theorem freezeAll_false_hist (fr : Led Stake) (ss : List Stake) (r : Int) :
    (freezeAll fr false ss r).hist = fr.hist := by
  unfold freezeAll
  induction ss generalizing fr with
  | nil => rfl
  | cons st ss ih => simp only [List.foldl_cons]; rw [ih]; simp

/-! ### accounts -/

@[simp] theorem finView_setAcct (s : St) (a : Account) : finView (s.setAcct false a) = finView s := by
  simp [finView, St.setAcct]

@[simp] theorem finView_findOrNewAcct (s : St) (a : Hex) : finView (s.findOrNewAcct false a).1 = finView s := by
  unfold St.findOrNewAcct; split <;> simp

theorem limit_finView {s s1 : St} {e : Bool} {a : Hex} {t d : Int} (h : s.limit e a t d = .ok s1) :
    finView s1 = finView s := by
  unfold St.limit at h
  split at h
  · split at h
    · cases h; rfl
    · cases h
    · cases h
  · cases h; rfl

theorem reward_finView {s s1 : St} {a : Hex} {amt : Nat} (h : s.reward false a amt = some s1) :
    finView s1 = finView s := by
  unfold St.reward at h
  split at h
  · cases h
  · split at h
    · cases h
    · cases h; simp

theorem sameFin_setAcct (s : St) (a : Account) : SameFin s (s.setAcct false a) :=
  (sameFin_iff _ _).2 (finView_setAcct s a)

theorem sameFin_findOrNewAcct (s : St) (a : Hex) : SameFin s (s.findOrNewAcct false a).1 :=
  (sameFin_iff _ _).2 (finView_findOrNewAcct s a)

/-! ### validation -/

theorem validateStaking_finView {s s1 : St} {e : Bool} {tx : TxIn} (h : validateStaking s e tx = .ok s1) :
    finView s1 = finView s := by
  unfold validateStaking at h
  simp only [bind, Except.bind, pure, Except.pure, throw, throwThe, MonadExceptOf.throw] at h
  repeat' split at h
  all_goals first | cases h | exact limit_finView h

theorem validateUnstaking_finView {s s1 : St} {e : Bool} {tx : TxIn} (h : validateUnstaking s e tx = .ok s1) :
    finView s1 = finView s := by
  unfold validateUnstaking at h
  simp only [bind, Except.bind, throw, throwThe, MonadExceptOf.throw] at h
  repeat' split at h
  all_goals first | cases h | exact limit_finView h

theorem validateWithdraw_finView {s s1 : St} {e : Bool} {tx : TxIn} (h : validateWithdraw s e tx = .ok s1) :
    finView s1 = finView s := by
  unfold validateWithdraw at h
  simp only [bind, Except.bind, pure, Except.pure, throw, throwThe, MonadExceptOf.throw] at h
  repeat' split at h
  all_goals (cases h; try rfl)

theorem validateProposal_finView {s s1 : St} {e : Bool} {ht : Int} {tx : TxIn}
    (h : validateProposal s e ht tx = .ok s1) : finView s1 = finView s := by
  unfold validateProposal at h
  simp only [bind, Except.bind, pure, Except.pure, throw, throwThe, MonadExceptOf.throw] at h
  repeat' split at h
  all_goals (cases h; try rfl)

theorem validateVoting_finView {s s1 : St} {e : Bool} {ht : Int} {tx : TxIn}
    (h : validateVoting s e ht tx = .ok s1) : finView s1 = finView s := by
  unfold validateVoting at h
  simp only [bind, Except.bind, pure, Except.pure, throw, throwThe, MonadExceptOf.throw] at h
  repeat' split at h
  all_goals (cases h; try rfl)

theorem validateEvm_finView {s s1 : St} {tx : TxIn} {rc : Account}
    (h : validateEvm s tx rc = .ok s1) : finView s1 = finView s := by
  unfold validateEvm at h
  simp only [bind, Except.bind, pure, Except.pure, throw, throwThe, MonadExceptOf.throw] at h
  repeat' split at h
  all_goals (cases h; try rfl)

theorem validateTrx_finView {s s1 : St} {e : Bool} {ht : Int} {tx : TxIn} {sender rc : Account}
    (h : validateTrx s e ht tx sender rc = .ok s1) : finView s1 = finView s := by
  unfold validateTrx at h
  simp only [bind, Except.bind] at h
  split at h
  · cases h
  · split at h
    · cases h
    · simp only [pure, Except.pure, throw, throwThe, MonadExceptOf.throw] at h
      repeat' split at h
      all_goals first
        | exact validateProposal_finView h
        | exact validateVoting_finView h
        | exact validateStaking_finView h
        | exact validateUnstaking_finView h
        | exact validateWithdraw_finView h
        | exact validateEvm_finView h
        | (cases h; try rfl)

/-! ### execution on the CheckTx path -/

theorem execTransfer_finView {s : St} {tx : TxIn} {r : RunOut} (h : execTransfer s false tx = .ok r) :
    finView r.st = finView s := by
  unfold execTransfer at h
  simp only [pure, Except.pure, throw, throwThe, MonadExceptOf.throw] at h
  repeat' split at h
  all_goals (cases h; try simp)

theorem execSetDoc_finView {s : St} {tx : TxIn} {r : RunOut} (h : execSetDoc s false tx = .ok r) :
    finView r.st = finView s := by
  unfold execSetDoc at h
  simp only [pure, Except.pure, throw, throwThe, MonadExceptOf.throw] at h
  repeat' split at h
  all_goals (cases h; try simp)

theorem execStaking_finView {s : St} {ht : Int} {tx : TxIn} {r : RunOut}
    (h : execStaking s false ht tx = .ok r) : finView r.st = finView s := by
  unfold execStaking at h
  simp only [bind, Except.bind, pure, Except.pure, throw, throwThe, MonadExceptOf.throw] at h
  repeat' split at h
  all_goals (cases h; try simp [finView, St.setAcct])

theorem execUnstaking_finView {s : St} {ht : Int} {tx : TxIn} {r : RunOut}
    (h : execUnstaking s false ht tx = .ok r) : finView r.st = finView s := by
  unfold execUnstaking at h
  simp only [bind, Except.bind, pure, Except.pure, throw, throwThe, MonadExceptOf.throw] at h
  split at h
  · cases h
  · split at h
    · split at h
      · cases h
      · split at h
        · cases h
        · split at h
          · cases h
          · cases h
            simp only [finView]
            split <;> split <;> simp
    · cases h

theorem execWithdraw_finView {s : St} {ht : Int} {tx : TxIn} {r : RunOut}
    (h : execWithdraw s false ht tx = .ok r) : finView r.st = finView s := by
  unfold execWithdraw at h
  simp only [bind, Except.bind, pure, Except.pure, throw, throwThe, MonadExceptOf.throw] at h
  split at h
  · split at h
    · cases h
    · split at h
      · cases h
      · split at h
        · rename_i s2 hs2
          have := reward_finView hs2
          cases h
          simpa [finView] using this
        · cases h
  · cases h

theorem execProposal_finView {s : St} {e : Bool} {tx : TxIn} {r : RunOut} (h : execProposal s e tx = .ok r) :
    finView r.st = finView s := by
  unfold execProposal at h
  simp only [pure, Except.pure, throw, throwThe, MonadExceptOf.throw] at h
  repeat' split at h
  all_goals (cases h; try rfl)

theorem execVoting_finView {s : St} {e : Bool} {tx : TxIn} {r : RunOut} (h : execVoting s e tx = .ok r) :
    finView r.st = finView s := by
  unfold execVoting at h
  simp only [bind, Except.bind, pure, Except.pure, throw, throwThe, MonadExceptOf.throw] at h
  repeat' split at h
  all_goals (cases h; try rfl)

theorem execEvm_finView {s : St} {tx : TxIn} {r : RunOut} (h : execEvm s false tx = .ok r) :
    finView r.st = finView s := by
  unfold execEvm at h
  simp only [bind, Except.bind, pure, Except.pure, Bool.not_false, if_true] at h
  cases h; rfl

theorem bind_ok {ε α β : Type} {x : Except ε α} {f : α → Except ε β} {b : β}
    (h : (x >>= f) = .ok b) : ∃ a, x = .ok a ∧ f a = .ok b := by
  cases x with
  | error e => cases h
  | ok a => exact ⟨a, rfl, h⟩

theorem runTrx_finView {s : St} {ht : Int} {tx : TxIn} {rc : Account} {r : St × Nat × Option String}
    (h : runTrx s false ht tx rc = .ok r) : finView r.1 = finView s := by
  unfold runTrx at h
  extract_lets viaEvm fee post at h
  have hpost : ∀ r0 : RunOut, post r0 = .ok r → finView r.1 = finView r0.st := by
    intro r0 hp
    simp only [post, pure, Except.pure, throw, throwThe, MonadExceptOf.throw] at hp
    repeat' split at hp
    all_goals (cases hp; try simp)
  repeat' split at h
  all_goals obtain ⟨r0, hr0, h⟩ := bind_ok h
  all_goals rw [hpost r0 h]
  all_goals first
    | exact execEvm_finView hr0
    | exact execProposal_finView hr0
    | exact execVoting_finView hr0
    | exact execTransfer_finView hr0
    | exact execSetDoc_finView hr0
    | exact execStaking_finView hr0
    | exact execUnstaking_finView hr0
    | exact execWithdraw_finView hr0
    | cases hr0

/-! ### the whole CheckTx handling of one transaction -/

theorem handleTxOld_check_finView (s : St) (h : Int) (tx : TxIn) :
    finView (handleTxOld s false h tx).1 = finView s := by
  unfold handleTxOld
  simp only [Bool.false_eq_true, if_false]
  split
  · rfl
  · split
    · rfl
    · split
      · simp
      · simp
      · rename_i s1 hv
        have h1 := validateTrx_finView hv
        simp only [finView_findOrNewAcct] at h1
        split
        · exact h1
        · exact h1
        · rename_i hr; have := runTrx_finView hr; simp only [] at this; rw [this, h1]
        · rename_i hr; have := runTrx_finView hr; simp only [] at this; rw [this, h1]

theorem handleTx_check_finView (s : St) (h : Int) (tx : TxIn) :
    finView (handleTx s false h tx).1 = finView s := by
  by_cases hl : byteLen tx.to = 20
  · rw [handleTx_goodlen hl]; exact handleTxOld_check_finView s h tx
  · rw [handleTx_badlen_fst hl]

/-- CheckTx (`exec = false`) leaves the consensus view of accounts, delegatees and unbonding stakes,
    their committed history, the block context, the active parameters and the ghost counters alone. -/
theorem handleTx_check_sameFin (s : St) (h : Int) (tx : TxIn) : SameFin s (handleTx s false h tx).1 :=
  (sameFin_iff _ _).2 (handleTx_check_finView s h tx)

end Rigo.C02
