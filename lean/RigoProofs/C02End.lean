/-
  C02 helper: EndBlock (proposal freezing/applying are value-neutral, fee hand-over, refunds of
  matured unbonding stakes, validator updates), Commit, restart, CheckTx.
-/
import RigoProofs.C02Deliver

namespace Rigo.C02

open Std Rigo.Delegatee

/-! ### folds over `Res` -/

theorem res_fold_inv {α : Type} (P : St → Prop) (F : Res St → α → Res St)
    (hpanic : ∀ e x, F (.panic e) x = .panic e)
    (hstep : ∀ s x s', P s → F (.ok s) x = .ok s' → P s') :
    ∀ (l : List α) (s s' : St), P s → l.foldl F (.ok s) = .ok s' → P s' := by
  have hp : ∀ (l : List α) e, l.foldl F (.panic e) = .panic e := by
    intro l; induction l with
    | nil => intro e; rfl
    | cons x l ih => intro e; rw [List.foldl_cons, hpanic, ih]
  intro l
  induction l with
  | nil => intro s s' hs h; simp only [List.foldl_nil] at h; injection h with h; subst h; exact hs
  | cons x l ih =>
    intro s s' hs h
    rw [List.foldl_cons] at h
    cases hx : F (.ok s) x with
    | panic e => rw [hx, hp] at h; cases h
    | ok s1 => rw [hx] at h; exact ih s1 s' (hstep s x s1 hs hx) h

theorem freezeProposals_valEq {s s' : St} {height : Int} (h : freezeProposals s height = .ok s') : ValEq s s' := by
  unfold freezeProposals at h
  refine res_fold_inv (ValEq s) _ ?_ ?_ _ s s' (ValEq.refl s) h
  · intro e x; rfl
  · rintro s1 ⟨k, p⟩ s2 hv hs
    simp only at hs
    split at hs
    · split at hs; · cases hs
      split at hs
      · cases hs
      · split at hs
        · injection hs with hs; subst hs; exact hv.trans ⟨rfl, rfl, rfl, rfl, rfl, rfl, rfl⟩
        · injection hs with hs; subst hs; exact hv.trans ⟨rfl, rfl, rfl, rfl, rfl, rfl, rfl⟩
    · injection hs with hs; subst hs; exact hv

theorem applyProposals_valEq {s s' : St} {height : Int} (h : applyProposals s height = .ok s') : ValEq s s' := by
  unfold applyProposals at h
  refine res_fold_inv (ValEq s) _ ?_ ?_ _ s s' (ValEq.refl s) h
  · intro e x; rfl
  · rintro s1 ⟨k, p⟩ s2 hv hs
    simp only at hs
    split at hs
    · split at hs; · cases hs
      split at hs
      · injection hs with hs; subst hs; exact hv.trans ⟨rfl, rfl, rfl, rfl, rfl, rfl, rfl⟩
      · split at hs
        · split at hs
          · cases hs
          · injection hs with hs; subst hs; exact hv.trans ⟨rfl, rfl, rfl, rfl, rfl, rfl, rfl⟩
        · injection hs with hs; subst hs; exact hv.trans ⟨rfl, rfl, rfl, rfl, rfl, rfl, rfl⟩
    · injection hs with hs; subst hs; exact hv

theorem updateValidators_valEq {s s' : St} {ups : List ValUpdate} (h : updateValidators s = .ok (s', ups)) :
    ValEq s s' := by
  unfold updateValidators at h
  split at h; · cases h
  injection h with h; injection h with h _; subst h
  exact ⟨rfl, rfl, rfl, rfl, rfl, rfl, rfl⟩

/-! ### fee hand-over -/

theorem feeHandover_ok {s s' : St} {b : BlockCtx} (h : feeHandover s b = .ok s') (hi : Inv0 s)
    (hb : holdings s + b.feeSum < (two255 : Int)) :
    Inv0 s' ∧ Frame { s with ghost := s'.ghost } s' ∧ s'.frozen = s.frozen ∧
    holdings s' + ((s'.ghost.feeBurn : Int) - s.ghost.feeBurn) = holdings s + b.feeSum ∧
    s'.ghost.withdrawn = s.ghost.withdrawn ∧ s.ghost.feeBurn ≤ s'.ghost.feeBurn := by
  unfold feeHandover at h
  split at h
  · dsimp only at h
    split at h; · cases h
    rename_i a' ha'
    injection h with h; subst h
    cases hf : s.findAcct true b.proposer with
    | some a =>
      rw [hf] at ha'; simp only [Option.getD_some] at ha'
      rw [findAcct_true] at hf
      have hab := bal_le_sumBal s.accts.fin hf
      have hsb := sumBal_le_holdings hi
      have h255 := two255_lt
      have hlt' : ((a.bal + b.feeSum : Nat) : Int) < (two256 : Int) := by push_cast; omega
      have e := addBalance_exact ha' (by exact_mod_cast hlt')
      subst e
      refine ⟨inv0_setAcct hi _, ⟨by simp, rfl, rfl, rfl, rfl, rfl⟩, rfl, ?_, rfl, Nat.le_refl _⟩
      rw [holdings_update hi hf (a' := { a with bal := a.bal + b.feeSum }) rfl]
      simp; omega
    | none =>
      rw [hf] at ha'; simp only [Option.getD_none] at ha'
      rw [findAcct_true] at hf
      have hh0 : 0 ≤ holdings s := by have := sumBal_le_holdings hi; have := sumBal_nonneg s.accts.fin; omega
      have h255 := two255_lt
      have hlt' : ((0 + b.feeSum : Nat) : Int) < (two256 : Int) := by push_cast; omega
      have e := addBalance_exact ha' (by exact_mod_cast hlt')
      subst e
      refine ⟨inv0_setAcct hi _, ⟨by simp, rfl, rfl, rfl, rfl, rfl⟩, rfl, ?_, rfl, Nat.le_refl _⟩
      rw [holdings_setAcct]
      simp only
      rw [fAt_none _ hf]; simp
  · injection h with h; subst h
    refine ⟨⟨hi.acctKey, hi.delegKey, hi.frozenKey⟩, ⟨rfl, rfl, rfl, rfl, rfl, rfl⟩, rfl, ?_, rfl, Nat.le_add_right _ _⟩
    show holdings s + _ = _
    simp; omega

/-! ### refunds of matured unbonding stakes -/

def unfreezeStep (height : Int) (acc : Res St) (kv : String × Stake) : Res St :=
  match acc with
  | .panic e => .panic e
  | .ok s =>
    if kv.2.refund ≤ height then
      match s.reward true kv.2.owner (powerToAmount kv.2.power) with
      | none => .panic "EndBlock: refund to a missing account"
      | some s1 =>
        .ok { s1 with frozen := s1.frozen.del true (ledgerKey kv.2.hash),
                      ghost := { s1.ghost with refunds := s1.ghost.refunds ++ [(kv.2.hash, kv.2.owner, kv.2.power, height)] } }
    else .ok s

theorem unfreeze_eq (s : St) (height : Int) :
    unfreeze s height = s.frozen.committed.toList.foldl (unfreezeStep height) (.ok s) := by
  unfold unfreeze; congr

/-- what `unfreeze` preserves -/
structure UnfOK (s s' : St) : Prop where
  inv0 : Inv0 s'
  hold : holdings s' = holdings s
  acctsHist : s'.accts.hist = s.accts.hist
  delegs : s'.delegs = s.delegs
  frozenHist : s'.frozen.hist = s.frozen.hist
  blk : s'.blk = s.blk
  active : s'.active = s.active
  feeBurn : s'.ghost.feeBurn = s.ghost.feeBurn
  withdrawn : s'.ghost.withdrawn = s.ghost.withdrawn

theorem reward_inv {s s1 : St} {to : Hex} {amt : Nat} (h : s.reward true to amt = some s1) :
    ∃ a a', s.findAcct true to = some a ∧ addBalance a amt = some a' ∧ s1 = s.setAcct true a' := by
  unfold St.reward at h
  split at h; · cases h
  rename_i a ha
  split at h; · cases h
  rename_i a' ha'
  injection h with h
  exact ⟨a, a', ha, ha', h.symm⟩

theorem unfreeze_step_ok {s s' : St} {height : Int} {k : String} {st : Stake}
    (h : unfreezeStep height (.ok s) (k, st) = .ok s') (hi : Inv0 s) (hb : holdings s < (two255 : Int))
    (hk : s.frozen.fin[k]? = some st) :
    UnfOK s s' ∧ (∀ (k' : String), k' ≠ k → s'.frozen.fin[k']? = s.frozen.fin[k']?) := by
  simp only [unfreezeStep] at h
  split at h
  · split at h; · cases h
    rename_i s1 hs1
    injection h with h; subst h
    obtain ⟨a, a', ha, ha', hs1⟩ := reward_inv hs1
    subst hs1
    rw [findAcct_true] at ha
    obtain ⟨hkey, hpow⟩ := hi.frozenKey k st hk
    have hamt := powerToAmount_exact hpow
    have hab := bal_le_sumBal s.accts.fin ha
    have hun : st.power ≤ unbonding s.frozen.fin := by
      have := fAt_le_msum (fun st : Stake => st.power) s.frozen.fin (fun k v h => (hi.frozenKey k v h).2.1) k
      rwa [fAt_some _ hk] at this
    have hbn := bonded_nonneg hi
    have h255 := two255_lt
    have hmul : (amountPerPower : Int) * st.power ≤ (amountPerPower : Int) * (bonded s.delegs.fin + unbonding s.frozen.fin) :=
      Int.mul_le_mul_of_nonneg_left (by omega) (Int.le_of_lt app_pos)
    have hholds : holdings s = sumBal s.accts.fin + (amountPerPower : Int) * (bonded s.delegs.fin + unbonding s.frozen.fin) := rfl
    have e := addBalance_exact ha' (by
      have : ((a.bal + powerToAmount st.power : Nat) : Int) < (two256 : Int) := by push_cast; omega
      exact_mod_cast this)
    subst e
    have hi1 := inv0_setAcct hi { a with bal := a.bal + powerToAmount st.power }
    refine ⟨⟨⟨hi1.acctKey, hi1.delegKey, ?_⟩, ?_, by simp, rfl, by simp [Led.del], rfl, rfl, rfl, rfl⟩, ?_⟩
    · intro k' x hx
      simp only [setAcct_frozen, Led.del, if_true] at hx
      rw [ExtTreeMap.getElem?_erase] at hx
      split at hx
      · cases hx
      · exact hi.frozenKey k' x hx
    · have hh := holdings_update hi ha (a' := { a with bal := a.bal + powerToAmount st.power }) rfl
      simp only [holdings] at hh ⊢
      simp only [setAcct_delegs, setAcct_frozen, Led.del, if_true] at hh ⊢
      rw [hkey]
      simp only [unbonding] at hh ⊢
      rw [msum_erase, fAt_some _ hk]
      have : (amountPerPower : Int) * (bonded s.delegs.fin + (msum (fun st : Stake => st.power) s.frozen.fin - st.power)) =
          (amountPerPower : Int) * (bonded s.delegs.fin + msum (fun st : Stake => st.power) s.frozen.fin) -
          (amountPerPower : Int) * st.power := by
        rw [← Int.mul_sub]; congr 1; omega
      rw [this]
      push_cast at hh ⊢
      omega
    · intro k' hne
      simp only [setAcct_frozen, Led.del, if_true]
      rw [hkey, ExtTreeMap.getElem?_erase]
      simp [Ne.symm hne]
  · injection h with h; subst h
    exact ⟨⟨hi, rfl, rfl, rfl, rfl, rfl, rfl, rfl, rfl⟩, fun _ _ => rfl⟩

theorem UnfOK.trans {a b c : St} (h1 : UnfOK a b) (h2 : UnfOK b c) : UnfOK a c :=
  ⟨h2.inv0, h2.hold.trans h1.hold, h2.acctsHist.trans h1.acctsHist, h2.delegs.trans h1.delegs,
   h2.frozenHist.trans h1.frozenHist, h2.blk.trans h1.blk, h2.active.trans h1.active,
   h2.feeBurn.trans h1.feeBurn, h2.withdrawn.trans h1.withdrawn⟩

theorem unfreeze_fold_ok (height : Int) : ∀ (l : List (String × Stake)) (s s' : St),
    Inv0 s → holdings s < (two255 : Int) → l.Pairwise (fun a b => a.1 ≠ b.1) →
    (∀ kv ∈ l, s.frozen.fin[kv.1]? = some kv.2) →
    l.foldl (unfreezeStep height) (.ok s) = .ok s' → UnfOK s s' := by
  have hp : ∀ (l : List (String × Stake)) e, l.foldl (unfreezeStep height) (.panic e) = .panic e := by
    intro l; induction l with
    | nil => intro e; rfl
    | cons x l ih => intro e; rw [List.foldl_cons]; exact ih e
  intro l
  induction l with
  | nil =>
    intro s s' hi _ _ _ h
    simp only [List.foldl_nil] at h; injection h with h; subst h
    exact ⟨hi, rfl, rfl, rfl, rfl, rfl, rfl, rfl, rfl⟩
  | cons x l ih =>
    intro s s' hi hb hpw hmem h
    rw [List.foldl_cons] at h
    obtain ⟨k, st⟩ := x
    cases hx : unfreezeStep height (.ok s) (k, st) with
    | panic e => rw [hx, hp] at h; cases h
    | ok s1 =>
      rw [hx] at h
      have hk := hmem (k, st) (by simp)
      obtain ⟨u1, hother⟩ := unfreeze_step_ok hx hi hb hk
      rw [List.pairwise_cons] at hpw
      refine u1.trans (ih s1 s' u1.inv0 (by rw [u1.hold]; exact hb) hpw.2 ?_ h)
      intro kv hkv
      rw [hother kv.1 (Ne.symm (hpw.1 kv hkv))]
      exact hmem kv (List.mem_cons_of_mem _ hkv)

theorem unfreeze_ok {s s' : St} {height : Int} (h : unfreeze s height = .ok s') (hi : Inv0 s)
    (hb : holdings s < (two255 : Int)) (hs : FrozenSync s) : UnfOK s s' := by
  rw [unfreeze_eq] at h
  refine unfreeze_fold_ok height _ s s' hi hb ?_ ?_ h
  · have := ExtTreeMap.distinct_keys_toList (t := s.frozen.committed)
    refine List.Pairwise.imp ?_ this
    intro a b hab heq
    exact hab (by rw [heq]; exact compare_eq_iff_eq.mpr rfl)
  · rintro ⟨k, st⟩ hkv
    exact hs k st (ExtTreeMap.mem_toList_iff_getElem?_eq_some.mp hkv)

/-! ### EndBlock -/

theorem endBlock_of_completes {s : St} {b : BlockCtx} {s1 s2 s3 s4 : St} {r : St × List ValUpdate}
    (hb : s.blk = some b) (h1 : freezeProposals s b.height = .ok s1) (h2 : applyProposals s1 b.height = .ok s2)
    (h3 : feeHandover s2 b = .ok s3) (h4 : unfreeze s3 b.height = .ok s4) (h5 : updateValidators s4 = .ok r) :
    (endBlock s).1 = r.1 := by
  unfold endBlock
  simp only [hb, h1, h2, h3, h4, h5]

theorem end_ok {s : St} (hinv : Inv .inBlock s) (hb : SupplyBound s) (hc : EndCompletes s) :
    Inv .ended (endBlock s).1 ∧
    holdings (endBlock s).1 + (((endBlock s).1.ghost.feeBurn : Int) - s.ghost.feeBurn) = total s ∧
    (endBlock s).1.ghost.withdrawn = s.ghost.withdrawn := by
  obtain ⟨hi, hblk, hsync, _⟩ := hinv
  have hsync := hsync (by decide)
  obtain ⟨b, s1, s2, s3, s4, ⟨s5, ups⟩, hbk, h1, h2, h3, h4, h5⟩ := hc
  rw [endBlock_of_completes hbk h1 h2 h3 h4 h5]
  simp only
  have hlt : ((two63 * amountPerPower : Nat) : Int) < (two255 : Int) := by decide
  have hbt : total s < ((two63 * amountPerPower : Nat) : Int) := hb
  have hfeeS : feeInFlight s = (b.feeSum : Int) := by unfold feeInFlight; rw [hbk]; simp
  unfold total at hbt ⊢
  have v1 := freezeProposals_valEq h1
  have v2 := v1.trans (applyProposals_valEq h2)
  have i2 := v2.inv0 hi
  have hh2 : holdings s2 = holdings s := v2.holdings
  obtain ⟨i3, f3, z3, hold3, w3, hfb0⟩ := feeHandover_ok h3 i2 (by rw [hh2]; omega)
  have sync3 : FrozenSync s3 := by unfold FrozenSync; rw [z3]; exact v2.sync hsync
  have hfb : (0 : Int) ≤ (s3.ghost.feeBurn : Int) - s2.ghost.feeBurn := by omega
  have hb3 : holdings s3 < (two255 : Int) := by omega
  have u4 := unfreeze_ok h4 i3 hb3 sync3
  have v5 := updateValidators_valEq h5
  have i5 := v5.inv0 u4.inv0
  refine ⟨⟨i5, ⟨(fun h => by cases h), (fun _ => ?_)⟩, (fun h => absurd rfl h), (fun h => by cases h)⟩, ?_, ?_⟩
  · rw [v5.blk, u4.blk, f3.blk]; simp only; rw [v2.blk, hbk]; simp
  · rw [v5.holdings, u4.hold, v5.ghost, u4.feeBurn]
    rw [v2.ghost] at hold3
    omega
  · rw [v5.ghost, u4.withdrawn, w3, v2.ghost]

/-- the fee-burn counter never decreases in EndBlock -/
theorem end_feeBurn_le {s : St} (hinv : Inv .inBlock s) (hb : SupplyBound s) (hc : EndCompletes s) :
    s.ghost.feeBurn ≤ (endBlock s).1.ghost.feeBurn := by
  obtain ⟨hi, hblk, hsync, _⟩ := hinv
  have hsync := hsync (by decide)
  obtain ⟨b, s1, s2, s3, s4, ⟨s5, ups⟩, hbk, h1, h2, h3, h4, h5⟩ := hc
  rw [endBlock_of_completes hbk h1 h2 h3 h4 h5]
  simp only
  have hlt : ((two63 * amountPerPower : Nat) : Int) < (two255 : Int) := by decide
  have hbt : total s < ((two63 * amountPerPower : Nat) : Int) := hb
  have hfeeS : feeInFlight s = (b.feeSum : Int) := by unfold feeInFlight; rw [hbk]; simp
  unfold total at hbt
  have v2 := (freezeProposals_valEq h1).trans (applyProposals_valEq h2)
  have i2 := v2.inv0 hi
  have hh2 : holdings s2 = holdings s := v2.holdings
  obtain ⟨i3, f3, z3, hold3, w3, hfb0⟩ := feeHandover_ok h3 i2 (by rw [hh2]; omega)
  have sync3 : FrozenSync s3 := by unfold FrozenSync; rw [z3]; exact v2.sync hsync
  have hb3 : holdings s3 < (two255 : Int) := by omega
  have u4 := unfreeze_ok h4 i3 hb3 sync3
  have v5 := updateValidators_valEq h5
  rw [v5.ghost, u4.feeBurn]
  rw [v2.ghost] at hfb0; exact hfb0

end Rigo.C02
