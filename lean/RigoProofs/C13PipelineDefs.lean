/-
  C13 / pipeline (1): an explicit small model of how Tendermint feeds an ABCI application with
  `LastCommitInfo`, and the list lemmas about it.

    * the validator updates returned by EndBlock(h) take effect for block h+2
      (blocks 1 and 2 are run by the genesis set)                                  — `tmValset`
    * `LastCommitInfo` of BeginBlock(H) lists exactly the validators of block H−1 with the voting
      power they have in THAT set, signed flags arbitrary; block 1 has no votes    — `TMFaithful`

  Everything here is about the application's OUTPUTS (`endUpdates`) and the headers of the run; the
  application state is not inspected.
-/
import RigoProofs.C10Ledger

open Std

namespace Rigo.C13P
open Rigo Rigo.TM

/-! ### the trusted definitions -/

def isEnd : Op → Bool
  | .end_ => true
  | _ => false

/-- the validator updates answered by the EndBlock calls of a run, one list per call, in order
    (entry `i` is the answer of the `i+1`-th EndBlock, i.e. of block `i+1`) -/
def endUpdates (s : St) : List Op → List (List ValUpdate)
  | [] => []
  | op :: ops => (if isEnd op then [(step s op).2.valUpdates] else []) ++ endUpdates (step s op).1 ops

/-- Tendermint's "+2" rule: the validator set in force for block `H` is the genesis set changed, in order,
    by the updates answered by EndBlock(1) … EndBlock(H−2) (so blocks 1 and 2 are run by the genesis set) -/
def tmValset (g : Genesis) (ops : List Op) (H : Int) : ValSet :=
  applyUpdates (genesisSet g) ((endUpdates (initChain g) ops).take (H - 2).toNat).flatten

/-- a `LastCommitInfo` listing exactly the members of the set `vs`, each with the power it has there; the
    `signed` flags are arbitrary.  `f` is the public key of an address (Tendermint derives the address from
    the key; the engine's set is keyed by public key, the votes carry addresses). -/
def VotesOf (f : Hex → Hex) (vs : ValSet) (votes : List VoteIn) : Prop :=
  ∀ (pub : Hex) (p : Int), vs[pub]? = some p ↔ ∃ v ∈ votes, f v.addr = pub ∧ v.power = p

/-- **TM-faithful run**: every BeginBlock of the run carries, as votes, the validator set that was in force
    for the previous block according to the +2 rule applied to the run's own EndBlock answers so far;
    block 1 carries no votes. -/
def TMFaithful (f : Hex → Hex) (g : Genesis) (ops : List Op) : Prop :=
  ∀ pre hdr post, ops = pre ++ .begin_ hdr :: post →
    if hdr.height ≤ 1 then hdr.votes = [] else VotesOf f (tmValset g pre (hdr.height - 1)) hdr.votes

/-- no call of the run answered with a panic (a panic halts the node: the run would end there) -/
def NoPanic (g : Genesis) (ops : List Op) : Prop := ∀ o ∈ (run (initChain g) ops).2, o.panic = ""

instance (g : Genesis) (ops : List Op) : Decidable (NoPanic g ops) := by unfold NoPanic; infer_instance

/-- every genesis validator key is named by the updates of the first two blocks (in practice: block 2 announces
    the genesis delegatees).  Excludes the C10 finding "a genesis validator that disappears in block 1 is never
    reported as removed": then the engine's set and the application's list differ forever. -/
def GenesisCovered (g : Genesis) (ops : List Op) : Prop :=
  ∀ v ∈ g.vals, ∃ u ∈ ((endUpdates (initChain g) ops).take 2).flatten, u.1 = v.1

/-! ### list lemmas -/

theorem endUpdates_append (s : St) (a b : List Op) :
    endUpdates s (a ++ b) = endUpdates s a ++ endUpdates (exec s a) b := by
  induction a generalizing s with
  | nil => rfl
  | cons op a ih => simp only [List.cons_append, endUpdates, ih, exec_cons, List.append_assoc]

theorem endUpdates_end (s : St) : endUpdates s [.end_] = [(endBlock s).2.valUpdates] := rfl

theorem step_noUpdates (s : St) (op : Op) (h : isEnd op = false) : (step s op).2.valUpdates = [] := by
  cases op with
  | init g => rfl
  | begin_ hd => exact beginBlock_noUpdates s hd
  | deliver tx => exact deliverTx_noUpdates s tx
  | check tx => rfl
  | end_ => cases h
  | commit => exact commit_noUpdates s
  | restart => rfl

/-- all updates of a run = the EndBlock answers, concatenated -/
theorem updatesOf_run (s : St) (ops : List Op) : updatesOf (run s ops).2 = (endUpdates s ops).flatten := by
  induction ops generalizing s with
  | nil => rfl
  | cons op ops ih =>
    have := ih (step s op).1
    simp only [updatesOf, run, List.map_cons, List.flatten_cons, endUpdates, List.flatten_append] at this ⊢
    rw [this]
    cases h : isEnd op
    · simp [step_noUpdates s op h]
    · simp

def endCount (ops : List Op) : Nat := (ops.filter isEnd).length

theorem endUpdates_length (s : St) (ops : List Op) : (endUpdates s ops).length = endCount ops := by
  induction ops generalizing s with
  | nil => rfl
  | cons op ops ih =>
    simp only [endUpdates, List.length_append, ih, endCount, List.filter_cons]
    cases isEnd op <;> simp <;> omega

theorem endCount_append (a b : List Op) : endCount (a ++ b) = endCount a + endCount b := by
  simp [endCount]

theorem endCount_cons_end (ops : List Op) : endCount (.end_ :: ops) = endCount ops + 1 := by
  unfold endCount; rw [List.filter_cons_of_pos (by rfl)]; rfl

theorem endCount_cons_other (op : Op) (ops : List Op) (h : isEnd op = false) : endCount (op :: ops) = endCount ops := by
  unfold endCount; rw [List.filter_cons_of_neg (by simp [h])]

/-- the `n`-th EndBlock of a run splits it -/
theorem split_at_end (ops : List Op) (n : Nat) (h1 : 1 ≤ n) (h2 : n ≤ endCount ops) :
    ∃ p1 p2, ops = p1 ++ .end_ :: p2 ∧ endCount p1 = n - 1 := by
  induction ops generalizing n with
  | nil => simp [endCount] at h2; omega
  | cons op ops ih =>
    cases hop : isEnd op with
    | true =>
      have : op = .end_ := by cases op <;> simp_all [isEnd]
      subst this
      by_cases hn : n = 1
      · exact ⟨[], ops, rfl, by simp [endCount, hn]⟩
      · have hc := endCount_cons_end ops
        obtain ⟨p1, p2, e, hc'⟩ := ih (n - 1) (by omega) (by omega)
        exact ⟨.end_ :: p1, p2, by rw [e]; rfl, by rw [endCount_cons_end]; omega⟩
    | false =>
      have hc := endCount_cons_other op ops hop
      obtain ⟨p1, p2, e, hc'⟩ := ih n h1 (by omega)
      exact ⟨op :: p1, p2, by rw [e]; rfl, by rw [endCount_cons_other _ _ hop]; omega⟩

/-- the first `n` EndBlock answers of a run are all the answers of the run cut after its `n`-th EndBlock -/
theorem take_endUpdates (s : St) (p1 p2 : List Op) (n : Nat) (hc : endCount p1 = n - 1) (h1 : 1 ≤ n) :
    (endUpdates s (p1 ++ .end_ :: p2)).take n = endUpdates s (p1 ++ [.end_]) := by
  have e : p1 ++ Op.end_ :: p2 = (p1 ++ [.end_]) ++ p2 := by simp
  rw [e, endUpdates_append s (p1 ++ [Op.end_]) p2]
  have hl : (endUpdates s (p1 ++ [Op.end_])).length = n := by
    rw [endUpdates_length, endCount_append, hc, endCount_cons_end]; simp [endCount]; omega
  rw [List.take_append_of_le_length (by omega), List.take_of_length_le (by omega)]

/-! ### the engine's set: starting from ∅ or from a set whose keys are all named -/

theorem getElem?_applyUpdates_not_named (A : ValSet) (us : List ValUpdate) (k : Hex) (h : ∀ u ∈ us, u.1 ≠ k) :
    (applyUpdates A us)[k]? = A[k]? := by
  induction us generalizing A with
  | nil => rfl
  | cons u us ih =>
    rw [applyUpdates_cons, ih _ (fun x hx => h x (List.mem_cons_of_mem _ hx)), getElem?_applyUpdate]
    simp [h u (by simp)]

theorem getElem?_applyUpdates_named (A B : ValSet) (us : List ValUpdate) (k : Hex) (h : ∃ u ∈ us, u.1 = k) :
    (applyUpdates A us)[k]? = (applyUpdates B us)[k]? := by
  induction us generalizing A B with
  | nil => obtain ⟨u, hu, _⟩ := h; cases hu
  | cons u us ih =>
    rw [applyUpdates_cons, applyUpdates_cons]
    by_cases hr : ∃ x ∈ us, x.1 = k
    · exact ih _ _ hr
    · have hn : ∀ x ∈ us, x.1 ≠ k := fun x hx e => hr ⟨x, hx, e⟩
      have hu : u.1 = k := by
        obtain ⟨x, hx, e⟩ := h
        rcases List.mem_cons.mp hx with rfl | hx
        · exact e
        · exact absurd e (hn x hx)
      rw [getElem?_applyUpdates_not_named _ _ _ hn, getElem?_applyUpdates_not_named _ _ _ hn,
        getElem?_applyUpdate, getElem?_applyUpdate]
      simp [hu]

/-- when every key of `G` is named by `us`, folding `us` over `G` or over ∅ gives the same set -/
theorem applyUpdates_covered (G : ValSet) (us : List ValUpdate)
    (h : ∀ k, G[k]? ≠ none → ∃ u ∈ us, u.1 = k) : applyUpdates G us = applyUpdates ∅ us := by
  apply ExtTreeMap.ext_getElem?
  intro k
  by_cases hk : ∃ u ∈ us, u.1 = k
  · exact getElem?_applyUpdates_named _ _ _ _ hk
  · have hn : ∀ u ∈ us, u.1 ≠ k := fun u hu e => hk ⟨u, hu, e⟩
    rw [getElem?_applyUpdates_not_named _ _ _ hn, getElem?_applyUpdates_not_named _ _ _ hn]
    have : G[k]? = none := by
      apply Classical.byContradiction; intro hne; exact hk (h k hne)
    rw [this]; rfl

theorem genesisSet_keys (g : Genesis) (k : Hex) (h : (genesisSet g)[k]? ≠ none) : ∃ v ∈ g.vals, v.1 = k := by
  apply Classical.byContradiction
  intro hn
  apply h
  unfold genesisSet
  apply getElem?_asSet_of_not_mem
  intro d hd e
  obtain ⟨v, hv, rfl⟩ := List.mem_map.mp hd
  exact hn ⟨v, hv, e⟩

end Rigo.C13P
