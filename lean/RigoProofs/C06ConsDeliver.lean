/-
  C06 (part 4): `runTrx`, `handleTx` and `deliverTx` on the consensus path commute with `eraseChk`.
-/
import RigoProofs.C06ConsTx

namespace Rigo
namespace C06

theorem findOrNewAcct_E (s : St) (a : Hex) :
    (E s).findOrNewAcct true a = (E (s.findOrNewAcct true a).1, (s.findOrNewAcct true a).2) := by
  unfold St.findOrNewAcct
  dsimp only [E_findAcct]
  split <;> rfl

theorem foldl_E {α : Type} (f : St → α → St) (hf : ∀ s a, f (E s) a = E (f s a)) (l : List α) (s : St) :
    l.foldl f (E s) = E (l.foldl f s) := by
  induction l generalizing s with
  | nil => rfl
  | cons a l ih => simp only [List.foldl_cons, hf, ih]

theorem setAcct_E (s : St) (a : Account) : (E s).setAcct true a = E (s.setAcct true a) := rfl

theorem execEvm_E (s : St) (tx : TxIn) :
    execEvm (E s) true tx = (execEvm s true tx).map RE := by
  unfold execEvm
  have h1 : ∀ (l : List Hex) (s : St), l.foldl (fun acc a => (acc.findOrNewAcct true a).1) (E s)
      = E (l.foldl (fun acc a => (acc.findOrNewAcct true a).1) s) :=
    fun l s => foldl_E _ (fun s a => by rw [findOrNewAcct_E]) l s
  have h2 : ∀ (l : List (Hex × Nat × Nat)) (s : St), l.foldl (fun acc (x : Hex × Nat × Nat) =>
        match x with
        | (a, bal, nonce) =>
          match acc.findOrNewAcct true a with
          | (acc', ac) => acc'.setAcct true { ac with bal := bal, nonce := nonce }) (E s)
      = E (l.foldl (fun acc (x : Hex × Nat × Nat) =>
        match x with
        | (a, bal, nonce) =>
          match acc.findOrNewAcct true a with
          | (acc', ac) => acc'.setAcct true { ac with bal := bal, nonce := nonce }) s) :=
    fun l s => foldl_E _ (fun s a => by obtain ⟨a, bal, nonce⟩ := a; simp only [findOrNewAcct_E]; rfl) l s
  simp only [h1, h2, E_findAcct, setAcct_E]
  unstepg
  ex_close


/-- erase the mempool views in the state component of a `runTrx` result -/
def TE (x : St × Nat × Option String) : St × Nat × Option String := (E x.1, x.2.1, x.2.2)

theorem runTrx_E (s : St) (ht : Int) (tx : TxIn) (rcv : Account) :
    runTrx (E s) true ht tx rcv = (runTrx s true ht tx rcv).map TE := by
  unfold runTrx
  extract_lets viaEvm fee jp
  have hjp : ∀ r, jp (RE r) = (jp r).map TE := by
    intro r
    simp only [jp, RE, E_findAcct, setAcct_E]
    unstepg
    repeat' split
    all_goals first | rfl | (simp_all [Except.map, TE]; done)
  clear_value jp
  rw [execEvm_E, execProposal_E, execVoting_E, execTransfer_E, execSetDoc_E, execStaking_E, execUnstaking_E,
    execWithdraw_E]
  repeat' split
  all_goals first
    | rfl
    | (cases execEvm s true tx <;> simp [Except.map, bind, Except.bind, hjp]; done)
    | (cases execProposal s true tx <;> simp [Except.map, bind, Except.bind, hjp]; done)
    | (cases execVoting s true tx <;> simp [Except.map, bind, Except.bind, hjp]; done)
    | (cases execTransfer s true tx <;> simp [Except.map, bind, Except.bind, hjp]; done)
    | (cases execSetDoc s true tx <;> simp [Except.map, bind, Except.bind, hjp]; done)
    | (cases execStaking s true ht tx <;> simp [Except.map, bind, Except.bind, hjp]; done)
    | (cases execUnstaking s true ht tx <;> simp [Except.map, bind, Except.bind, hjp]; done)
    | (cases execWithdraw s true ht tx <;> simp [Except.map, bind, Except.bind, hjp]; done)


theorem handleTx_E (s : St) (ht : Int) (tx : TxIn) :
    handleTx (E s) true ht tx = (E (handleTx s true ht tx).1, (handleTx s true ht tx).2) := by
  by_cases hl : byteLen tx.to = 20
  case neg =>
    unfold handleTx
    simp only [hl, if_false, validateTrx_badlen hl, E_findAcct]
    split
    · rfl
    · split <;> rfl
  rw [handleTx_goodlen hl, handleTx_goodlen hl]
  unfold handleTxOld
  simp only [E_findAcct, findOrNewAcct_E, validateTrx_E]
  split
  · rfl
  · split
    · rfl
    · cases hv : validateTrx (s.findOrNewAcct true tx.to).1 true ht tx _ (s.findOrNewAcct true tx.to).2 with
      | error e => cases e <;> rfl
      | ok s1 =>
        simp only [Except.map, runTrx_E]
        cases hr : runTrx s1 true ht tx (s.findOrNewAcct true tx.to).2 with
        | error e => cases e <;> rfl
        | ok x =>
          obtain ⟨s2, g, k⟩ := x
          cases k <;> rfl

theorem deliverTx_E (s : St) (tx : TxIn) :
    deliverTx (E s) tx = (E (deliverTx s tx).1, (deliverTx s tx).2) := by
  unfold deliverTx
  show (match s.blk with | none => _ | some b => _) = _
  cases s.blk with
  | none => rfl
  | some b =>
    simp only [handleTx_E]
    repeat' split
    all_goals rfl

end C06
end Rigo
