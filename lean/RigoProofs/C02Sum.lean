/-
  C02 helper: sums over the values of a ledger view (`KMap`) and how they change under
  `insert` / `erase`.  Reusable by every property that needs an aggregate over a ledger.
-/
import Rigo.Types

namespace Rigo.C02

open Std

variable {α : Type}

/-- sum of `f` over all values stored in the map -/
def msum (f : α → Int) (m : KMap α) : Int := (m.toList.map fun kv => f kv.2).sum

theorem nodup_toList (m : KMap α) : m.toList.Nodup := by
  have h := ExtTreeMap.distinct_keys_toList (t := m)
  refine List.Pairwise.imp ?_ h
  intro a b hab heq
  apply hab
  rw [heq]
  exact compare_eq_iff_eq.mpr rfl

theorem int_sum_perm {l₁ l₂ : List Int} (h : l₁.Perm l₂) : l₁.sum = l₂.sum := by
  induction h with
  | nil => rfl
  | cons x _ ih => simp [ih]
  | swap x y l => simp; omega
  | trans _ _ ih₁ ih₂ => exact ih₁.trans ih₂

/-- a present key can be split off the sum -/
theorem toList_perm_erase {m : KMap α} {k : String} {v : α} (h : m[k]? = some v) :
    m.toList.Perm ((k, v) :: (m.erase k).toList) := by
  apply (List.perm_ext_iff_of_nodup (nodup_toList m) ?_).mpr
  · rintro ⟨k', v'⟩
    simp only [ExtTreeMap.mem_toList_iff_getElem?_eq_some, List.mem_cons, Prod.mk.injEq]
    by_cases hk : k' = k
    · subst hk; simp [h]; exact eq_comm
    · simp [ExtTreeMap.getElem?_erase, hk]
      intro h'; simp [Ne.symm hk]
  · refine List.nodup_cons.mpr ⟨?_, nodup_toList _⟩
    simp [ExtTreeMap.mem_toList_iff_getElem?_eq_some]

theorem msum_split (f : α → Int) {m : KMap α} {k : String} {v : α} (h : m[k]? = some v) :
    msum f m = f v + msum f (m.erase k) := by
  unfold msum
  rw [int_sum_perm ((toList_perm_erase h).map _)]
  simp

theorem erase_of_none {m : KMap α} {k : String} (h : m[k]? = none) : m.erase k = m := by
  apply ExtTreeMap.ext_getElem?
  intro k'
  by_cases hk : k = k'
  · subst hk; simp [h]
  · simp [ExtTreeMap.getElem?_erase, hk]

theorem erase_insert (m : KMap α) (k : String) (v : α) : (m.insert k v).erase k = m.erase k := by
  apply ExtTreeMap.ext_getElem?
  intro k'
  by_cases hk : k = k'
  · subst hk; simp
  · simp [ExtTreeMap.getElem?_erase, ExtTreeMap.getElem?_insert, hk]

/-- value of `f` at a key, 0 when absent -/
def fAt (f : α → Int) (m : KMap α) (k : String) : Int := (m[k]?.map f).getD 0

@[simp] theorem fAt_some (f : α → Int) {m : KMap α} {k : String} {v : α} (h : m[k]? = some v) :
    fAt f m k = f v := by simp [fAt, h]

@[simp] theorem fAt_none (f : α → Int) {m : KMap α} {k : String} (h : m[k]? = none) :
    fAt f m k = 0 := by simp [fAt, h]

/-- THE sum lemma: erasing a key removes its contribution -/
theorem msum_erase (f : α → Int) (m : KMap α) (k : String) :
    msum f (m.erase k) = msum f m - fAt f m k := by
  cases h : m[k]? with
  | none => rw [erase_of_none h, fAt_none f h]; omega
  | some v => rw [msum_split f h, fAt_some f h]; omega

/-- THE sum lemma: inserting replaces the old contribution (0 when absent) by the new one -/
theorem msum_insert (f : α → Int) (m : KMap α) (k : String) (v : α) :
    msum f (m.insert k v) = msum f m - fAt f m k + f v := by
  have h : (m.insert k v)[k]? = some v := by simp
  rw [msum_split f h, erase_insert, msum_erase]; omega

@[simp] theorem msum_empty (f : α → Int) : msum f (∅ : KMap α) = 0 := by
  have : (∅ : KMap α).toList = [] := ExtTreeMap.toList_eq_nil_iff.mpr rfl
  simp [msum, this]

theorem msum_nonneg (f : α → Int) (m : KMap α) (hf : ∀ (k : String) (v : α), m[k]? = some v → 0 ≤ f v) :
    0 ≤ msum f m := by
  unfold msum
  have : ∀ l : List (String × α), (∀ kv ∈ l, 0 ≤ f kv.2) → 0 ≤ (l.map fun kv => f kv.2).sum := by
    intro l; induction l with
    | nil => simp
    | cons a l ih =>
      intro h; simp only [List.map_cons, List.sum_cons]
      have h1 := h a (by simp)
      have h2 := ih (fun kv hkv => h kv (List.mem_cons_of_mem _ hkv))
      omega
  apply this
  rintro ⟨k, v⟩ hkv
  exact hf k v (ExtTreeMap.mem_toList_iff_getElem?_eq_some.mp hkv)

/-- one entry is bounded by the sum (non-negative summands) -/
theorem fAt_le_msum (f : α → Int) (m : KMap α) (hf : ∀ (k : String) (v : α), m[k]? = some v → 0 ≤ f v) (k : String) :
    fAt f m k ≤ msum f m := by
  have h1 := msum_erase f m k
  have h2 : 0 ≤ msum f (m.erase k) := by
    apply msum_nonneg
    intro k' v hv
    by_cases hk : k = k'
    · subst hk; simp at hv
    · rw [ExtTreeMap.getElem?_erase] at hv; simp [hk] at hv; exact hf k' v hv
  omega

/-- two entries at distinct keys are together bounded by the sum -/
theorem fAt_add_le_msum (f : α → Int) (m : KMap α) (hf : ∀ (k : String) (v : α), m[k]? = some v → 0 ≤ f v)
    {k₁ k₂ : String} (hne : k₁ ≠ k₂) : fAt f m k₁ + fAt f m k₂ ≤ msum f m := by
  have h1 := msum_erase f m k₁
  have h2 : fAt f (m.erase k₁) k₂ ≤ msum f (m.erase k₁) := by
    apply fAt_le_msum
    intro k' v hv
    by_cases hk : k₁ = k'
    · subst hk; simp at hv
    · rw [ExtTreeMap.getElem?_erase] at hv; simp [hk] at hv; exact hf k' v hv
  have h3 : fAt f (m.erase k₁) k₂ = fAt f m k₂ := by
    unfold fAt; rw [ExtTreeMap.getElem?_erase]; simp [hne]
  omega

end Rigo.C02
