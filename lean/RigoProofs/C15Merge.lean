/-
  C15: `MergeGovParams` — fields the option leaves unset (zero / nil) keep their previous value.
-/
import Rigo.App

namespace Rigo.C15

/-- merge rule of an `int64` / `int32` field -/
def KeepI (old opt merged : Int) : Prop := (opt = 0 → merged = old) ∧ (opt ≠ 0 → merged = opt)
/-- merge rule of a `uint64` field -/
def KeepU (old opt merged : Nat) : Prop := (opt = 0 → merged = old) ∧ (opt ≠ 0 → merged = opt)
/-- merge rule of a `*uint256.Int` field (nil or zero = unset) -/
def KeepB (old : Nat) (opt : Option Nat) (merged : Nat) : Prop :=
  (opt = none ∨ opt = some 0 → merged = old) ∧ (∀ v, opt = some v → v ≠ 0 → merged = v)

theorem keepI_merge (o x : Int) : KeepI o x (if x = 0 then o else x) := by
  unfold KeepI; constructor <;> intro h <;> simp [h]

theorem keepU_merge (o x : Nat) : KeepU o x (if x = 0 then o else x) := by
  unfold KeepU; constructor <;> intro h <;> simp [h]

theorem keepB_merge (o : Nat) (x : Option Nat) :
    KeepB o x (match x with | some v => if v = 0 then o else v | none => o) := by
  unfold KeepB
  constructor
  · rintro (h | h) <;> simp [h]
  · intro v h hv; simp [h, hv]

/-- all 19 fields of `mergeParams` follow the "unset keeps" rule -/
theorem mergeParams_fields (old : Params) (n : POpt) :
    KeepI old.maxValidatorCnt n.maxValidatorCnt (mergeParams old n).maxValidatorCnt ∧
    KeepB old.minValidatorStake n.minValidatorStake (mergeParams old n).minValidatorStake ∧
    KeepB old.minDelegatorStake n.minDelegatorStake (mergeParams old n).minDelegatorStake ∧
    KeepB old.rewardPerPower n.rewardPerPower (mergeParams old n).rewardPerPower ∧
    KeepI old.lazyRewardBlocks n.lazyRewardBlocks (mergeParams old n).lazyRewardBlocks ∧
    KeepI old.lazyApplyingBlocks n.lazyApplyingBlocks (mergeParams old n).lazyApplyingBlocks ∧
    KeepB old.gasPrice n.gasPrice (mergeParams old n).gasPrice ∧
    KeepU old.minTrxGas n.minTrxGas (mergeParams old n).minTrxGas ∧
    KeepU old.maxTrxGas n.maxTrxGas (mergeParams old n).maxTrxGas ∧
    KeepU old.maxBlockGas n.maxBlockGas (mergeParams old n).maxBlockGas ∧
    KeepI old.minVotingPeriodBlocks n.minVotingPeriodBlocks (mergeParams old n).minVotingPeriodBlocks ∧
    KeepI old.maxVotingPeriodBlocks n.maxVotingPeriodBlocks (mergeParams old n).maxVotingPeriodBlocks ∧
    KeepI old.minSelfStakeRatio n.minSelfStakeRatio (mergeParams old n).minSelfStakeRatio ∧
    KeepI old.maxUpdatableStakeRatio n.maxUpdatableStakeRatio (mergeParams old n).maxUpdatableStakeRatio ∧
    KeepI old.maxIndividualStakeRatio n.maxIndividualStakeRatio (mergeParams old n).maxIndividualStakeRatio ∧
    KeepI old.slashRatio n.slashRatio (mergeParams old n).slashRatio ∧
    KeepI old.signedBlocksWindow n.signedBlocksWindow (mergeParams old n).signedBlocksWindow ∧
    KeepI old.minSignedBlocks n.minSignedBlocks (mergeParams old n).minSignedBlocks ∧
    KeepI old.version n.version (mergeParams old n).version := by
  unfold mergeParams
  refine ⟨keepI_merge _ _, keepB_merge _ _, keepB_merge _ _, keepB_merge _ _, keepI_merge _ _, keepI_merge _ _,
    keepB_merge _ _, keepU_merge _ _, keepU_merge _ _, keepU_merge _ _, keepI_merge _ _, keepI_merge _ _,
    keepI_merge _ _, keepI_merge _ _, keepI_merge _ _, keepI_merge _ _, keepI_merge _ _, keepI_merge _ _,
    keepI_merge _ _⟩

/-- an option that sets nothing changes nothing -/
def POpt.unset : POpt :=
  { maxValidatorCnt := 0, minValidatorStake := none, minDelegatorStake := none, rewardPerPower := none,
    lazyRewardBlocks := 0, lazyApplyingBlocks := 0, gasPrice := none, minTrxGas := 0, maxTrxGas := 0,
    maxBlockGas := 0, minVotingPeriodBlocks := 0, maxVotingPeriodBlocks := 0, minSelfStakeRatio := 0,
    maxUpdatableStakeRatio := 0, maxIndividualStakeRatio := 0, slashRatio := 0, signedBlocksWindow := 0,
    minSignedBlocks := 0, version := 0 }

theorem mergeParams_unset (old : Params) : mergeParams old POpt.unset = old := by
  cases old; simp [mergeParams, POpt.unset]

end Rigo.C15
