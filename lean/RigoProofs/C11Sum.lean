/-
  C11 helpers (1): the per-delegatee bookkeeping predicate `DelegOK` and its preservation by the
  pure delegatee operations of `Rigo/StakeLogic.lean` (`addStake`, `delStake`, `delAllStakes`,
  `doSlash`).  Also `ledgerKey` injectivity on 20-byte addresses and the `freezeFin` fold.
-/
import Rigo.Reach

namespace Rigo
open Delegatee

/-! ### sums of stake powers -/

theorem sumPower_nil : sumPower [] = 0 := rfl

theorem sumPower_cons (a : Stake) (l : List Stake) : sumPower (a :: l) = a.power + sumPower l := by
  simp [sumPower]

theorem sumPower_append (a b : List Stake) : sumPower (a ++ b) = sumPower a + sumPower b := by
  simp [sumPower]

theorem sumPowerOf_nil (o : Hex) : sumPowerOf [] o = 0 := rfl

theorem sumPowerOf_cons (a : Stake) (l : List Stake) (o : Hex) :
    sumPowerOf (a :: l) o = (if a.owner == o then a.power else 0) + sumPowerOf l o := by
  unfold sumPowerOf
  by_cases h : (a.owner == o) = true
  · simp [h, sumPower_cons]
  · simp [h]

theorem sumPowerOf_append (a b : List Stake) (o : Hex) :
    sumPowerOf (a ++ b) o = sumPowerOf a o + sumPowerOf b o := by
  simp [sumPowerOf, sumPower_append]

theorem sumPower_eraseP (p : Stake → Bool) (l : List Stake) (s : Stake) (h : l.find? p = some s) :
    sumPower (l.eraseP p) = sumPower l - s.power := by
  induction l with
  | nil => simp at h
  | cons a l ih =>
    by_cases hp : p a = true
    · simp [hp] at h
      subst h
      simp [hp, sumPower_cons]
      omega
    · simp [hp] at h
      simp [hp, sumPower_cons, ih h]
      omega

theorem sumPowerOf_eraseP (p : Stake → Bool) (l : List Stake) (s : Stake) (o : Hex)
    (h : l.find? p = some s) :
    sumPowerOf (l.eraseP p) o = sumPowerOf l o - (if s.owner == o then s.power else 0) := by
  induction l with
  | nil => simp at h
  | cons a l ih =>
    by_cases hp : p a = true
    · simp [hp] at h
      subst h
      simp [hp, sumPowerOf_cons]
      omega
    · simp [hp] at h
      have := ih h
      simp [hp, sumPowerOf_cons] at this ⊢
      omega

/-! ### the bookkeeping predicate -/

/-- total power = sum of the bonded stakes, self power = sum of the owner's own stakes, and every
    bonded stake points at this delegatee -/
def DelegOK (d : Delegatee) : Prop :=
  d.total = sumPower d.stakes ∧ d.self = sumPowerOf d.stakes d.addr ∧ ∀ st ∈ d.stakes, st.to = d.addr

theorem DelegOK.empty (a p : Hex) : DelegOK { addr := a, pub := p } := by
  simp [DelegOK, sumPower, sumPowerOf]

theorem DelegOK.addStake {d : Delegatee} {st : Stake} (h : DelegOK d) (hto : st.to = d.addr) :
    DelegOK (d.addStake st) := by
  obtain ⟨h1, h2, h3⟩ := h
  refine ⟨?_, ?_, ?_⟩
  · simp [Delegatee.addStake, sumPower_append, h1, sumPower_cons, sumPower_nil]
  · simp only [Delegatee.addStake, sumPowerOf_append, sumPowerOf_cons, sumPowerOf_nil, isSelf, hto]
    by_cases ho : (st.owner == d.addr) = true
    · simp [ho, h2]
    · simp [ho, h2]
  · intro x hx
    simp only [Delegatee.addStake, List.mem_append, List.mem_singleton] at hx
    rcases hx with hx | hx
    · exact h3 x hx
    · subst hx; exact hto

theorem addStake_addr (d : Delegatee) (st : Stake) : (d.addStake st).addr = d.addr := rfl

theorem delStake_addr (d : Delegatee) (hash : Hex) : (d.delStake hash).addr = d.addr := by
  unfold Delegatee.delStake; split <;> rfl

theorem delStake_stakes_sublist (d : Delegatee) (hash : Hex) :
    (d.delStake hash).stakes.Sublist d.stakes := by
  unfold Delegatee.delStake; split
  · exact List.Sublist.refl _
  · exact List.eraseP_sublist

theorem findStake_mem {d : Delegatee} {hash : Hex} {st : Stake} (h : d.findStake hash = some st) :
    st ∈ d.stakes ∧ st.hash = hash := by
  unfold Delegatee.findStake at h
  have h1 := List.mem_of_find?_eq_some h
  have h2 := List.find?_some h
  exact ⟨h1, by simpa using h2⟩

theorem DelegOK.delStake {d : Delegatee} (hash : Hex) (h : DelegOK d) : DelegOK (d.delStake hash) := by
  obtain ⟨h1, h2, h3⟩ := h
  unfold Delegatee.delStake
  split
  · exact ⟨h1, h2, h3⟩
  · rename_i st hf
    unfold Delegatee.findStake at hf
    have hto : st.to = d.addr := h3 st (List.mem_of_find?_eq_some hf)
    refine ⟨?_, ?_, ?_⟩
    · simp [sumPower_eraseP _ _ _ hf, h1]
    · simp only [sumPowerOf_eraseP _ _ _ _ hf, isSelf, hto, h2]
      by_cases ho : (st.owner == d.addr) = true
      · simp [ho]
      · simp [ho]
    · intro x hx
      exact h3 x (List.mem_of_mem_eraseP hx)

theorem delAllStakes_fst (d : Delegatee) :
    d.delAllStakes.1 = { d with stakes := [], total := d.total - sumPower d.stakes } := rfl

theorem delAllStakes_snd (d : Delegatee) : d.delAllStakes.2 = d.stakes := rfl

/-- `delAllStakes` leaves `self` alone: the result is consistent exactly because the total drops to
    the sum of nothing; when (as in `execUnstaking`) it is called with `self = 0`, the whole
    predicate survives -/
theorem DelegOK.delAllStakes {d : Delegatee} (h : DelegOK d) :
    d.delAllStakes.1.total = 0 ∧ d.delAllStakes.1.stakes = [] ∧ d.delAllStakes.1.self = d.self ∧
    d.delAllStakes.1.addr = d.addr ∧ (d.self = 0 → DelegOK d.delAllStakes.1) := by
  obtain ⟨h1, h2, h3⟩ := h
  refine ⟨by simp [delAllStakes_fst, h1], rfl, rfl, rfl, ?_⟩
  intro h0
  simp [DelegOK, delAllStakes_fst, h1, sumPower, sumPowerOf, h0]

/-- what `delAllStakes` does to a delegatee that is *not* consistent on `self` (jailing path):
    the remainder has no stakes and total 0 -/
theorem delAllStakes_total (d : Delegatee) (h : d.total = sumPower d.stakes) :
    d.delAllStakes.1.total = 0 := by simp [delAllStakes_fst, h]

theorem mem_foldl_eraseP {α β : Type} (f : β → α → Bool) (rs : List β) (l : List α) :
    (rs.foldl (fun acc r => acc.eraseP (f r)) l).Sublist l := by
  induction rs generalizing l with
  | nil => exact List.Sublist.refl _
  | cons r rs ih => exact (ih _).trans List.eraseP_sublist

theorem doSlash_stakes_sublist (d : Delegatee) (ratio : Int) :
    (d.doSlash ratio).1.stakes.Sublist
      (d.stakes.map fun s => let sl := Int.tdiv (s.power * ratio) 100
                             if sl < 1 then s else { s with power := s.power - sl }) := by
  unfold Delegatee.doSlash
  exact mem_foldl_eraseP (fun (r : Stake) (x : Stake) => x.hash == r.hash) _ _

theorem doSlash_addr (d : Delegatee) (ratio : Int) : (d.doSlash ratio).1.addr = d.addr := rfl

/-- every stake after slashing descends from a stake before it with the same identity -/
theorem doSlash_mem {d : Delegatee} {ratio : Int} {st' : Stake} (h : st' ∈ (d.doSlash ratio).1.stakes) :
    ∃ st ∈ d.stakes, st'.owner = st.owner ∧ st'.to = st.to ∧ st'.hash = st.hash ∧ st'.start = st.start ∧
      st'.refund = st.refund ∧ st'.power ≤ st.power ∧ (st'.power = st.power ∨ 1 ≤ Int.tdiv (st.power * ratio) 100) := by
  have h1 := (doSlash_stakes_sublist d ratio).subset h
  simp only [List.mem_map] at h1
  obtain ⟨st, hst, rfl⟩ := h1
  refine ⟨st, hst, ?_⟩
  by_cases hs : Int.tdiv (st.power * ratio) 100 < 1
  · simp [hs]
  · simp [hs]; omega

theorem DelegOK.doSlash {d : Delegatee} (ratio : Int) (h : ∀ st ∈ d.stakes, st.to = d.addr) :
    DelegOK (d.doSlash ratio).1 := by
  refine ⟨rfl, rfl, ?_⟩
  intro st' hst'
  obtain ⟨st, hst, _, hto, _⟩ := doSlash_mem hst'
  rw [hto, doSlash_addr]; exact h st hst

/-! ### ledger keys of 20-byte addresses -/

theorem ledgerKey_inj40 {a b : Hex} (ha : a.length = 40) (hb : b.length = 40)
    (h : ledgerKey a = ledgerKey b) : a = b := by
  unfold ledgerKey at h
  have ha' : a.toList.length = 40 := by rw [String.length_toList]; exact ha
  have hb' : b.toList.length = 40 := by rw [String.length_toList]; exact hb
  have h1 := String.ofList_injective h
  rw [List.take_of_length_le (by omega), List.take_of_length_le (by omega)] at h1
  simp only [ha', hb'] at h1
  have h2 := List.append_cancel_right h1
  exact String.toList_injective h2

/-! ### the unbonding fold -/

/-- `freezeAll` on the consensus view as a fold over the plain map -/
def freezeFin (m : KMap Stake) (ss : List Stake) (refund : Int) : KMap Stake :=
  ss.foldl (fun acc st => acc.insert (ledgerKey st.hash) { st with refund := refund }) m

theorem freezeAll_true (fr : Led Stake) (ss : List Stake) (refund : Int) :
    freezeAll fr true ss refund = { fr with fin := freezeFin fr.fin ss refund } := by
  unfold freezeAll freezeFin
  induction ss generalizing fr with
  | nil => rfl
  | cons a ss ih => simp only [List.foldl_cons]; rw [ih]; simp [Led.set]

theorem freezeAll_false (fr : Led Stake) (ss : List Stake) (refund : Int) :
    (freezeAll fr false ss refund).fin = fr.fin ∧ (freezeAll fr false ss refund).hist = fr.hist := by
  unfold freezeAll
  induction ss generalizing fr with
  | nil => exact ⟨rfl, rfl⟩
  | cons a ss ih => simp only [List.foldl_cons]; have := ih (fr.set false (ledgerKey a.hash) { a with refund := refund }); simpa [Led.set] using this

/-- lookup in the map after `freezeFin`: an old entry, or one of the frozen stakes under its own key -/
theorem freezeFin_get {m : KMap Stake} {ss : List Stake} {refund : Int} {k : String} {v : Stake}
    (h : (freezeFin m ss refund)[k]? = some v) :
    m[k]? = some v ∨ ∃ st ∈ ss, ledgerKey st.hash = k ∧ v = { st with refund := refund } := by
  unfold freezeFin at h
  induction ss generalizing m with
  | nil => exact Or.inl h
  | cons a ss ih =>
    simp only [List.foldl_cons] at h
    rcases ih h with h1 | ⟨st, hst, hk, hv⟩
    · by_cases hk : ledgerKey a.hash = k
      · right; refine ⟨a, by simp, hk, ?_⟩
        rw [Std.ExtTreeMap.getElem?_insert] at h1
        simp [hk] at h1; exact h1.symm
      · left
        rw [Std.ExtTreeMap.getElem?_insert] at h1
        simpa [hk] using h1
    · exact Or.inr ⟨st, by simp [hst], hk, hv⟩

/-- keys after `freezeFin` -/
theorem freezeFin_isSome {m : KMap Stake} {ss : List Stake} {refund : Int} {k : String} :
    (freezeFin m ss refund)[k]? ≠ none ↔ (m[k]? ≠ none ∨ ∃ st ∈ ss, ledgerKey st.hash = k) := by
  unfold freezeFin
  induction ss generalizing m with
  | nil => simp
  | cons a ss ih =>
    simp only [List.foldl_cons]
    rw [ih, Std.ExtTreeMap.getElem?_insert]
    by_cases hk : ledgerKey a.hash = k
    · simp [hk]
    · simp [hk]

/-- a key that none of the frozen stakes carries is untouched -/
theorem freezeFin_get_other {m : KMap Stake} {ss : List Stake} {refund : Int} {k : String}
    (h : ∀ st ∈ ss, ledgerKey st.hash ≠ k) : (freezeFin m ss refund)[k]? = m[k]? := by
  unfold freezeFin
  induction ss generalizing m with
  | nil => rfl
  | cons a ss ih =>
    simp only [List.foldl_cons]
    rw [ih (fun st hst => h st (by simp [hst])), Std.ExtTreeMap.getElem?_insert]
    simp [h a (by simp)]

end Rigo
