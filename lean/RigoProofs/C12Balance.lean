/-
  C12 helpers: closed formula for the balances after an EndBlock that does not panic: proposer fee plus
  the refunds of the unbonding stakes that are due (mod 2^256; exact under a no-wrap bound).
-/
import RigoProofs.C12Trace2

namespace Rigo
open Delegatee

/-- every account record sits under the ledger key of its own address -/
def AcctKeysOK (m : KMap Account) : Prop := ∀ (k : String) (a : Account), m[k]? = some a → ledgerKey a.addr = k

/-- balance of the account stored under key `K` (0 if there is none) -/
def balAt (m : KMap Account) (K : String) : Nat := (m[K]?.map (·.bal)).getD 0

/-- sum of the amounts `power x 10^18` of the listed stakes whose owner's account key is `K` -/
def refundsTo (K : String) (l : List Stake) : Nat :=
  ((l.filter (fun st => ledgerKey st.owner == K)).map (fun st => powerToAmount st.power)).sum

theorem refundsTo_cons (K : String) (st : Stake) (l : List Stake) :
    refundsTo K (st :: l) = (if ledgerKey st.owner = K then powerToAmount st.power else 0) + refundsTo K l := by
  unfold refundsTo
  by_cases h : ledgerKey st.owner = K
  · simp [h]
  · simp [h]

theorem reward_bal {s s1 : St} {o : Hex} {amt : Nat} (hk : AcctKeysOK s.accts.fin) (h : s.reward true o amt = some s1) :
    AcctKeysOK s1.accts.fin ∧ s.accts.fin[ledgerKey o]? ≠ none ∧
    (∀ K : String, (s1.accts.fin[K]? = none ↔ s.accts.fin[K]? = none) ∧
      balAt s1.accts.fin K = if ledgerKey o = K then (balAt s.accts.fin K + amt) % two256 else balAt s.accts.fin K) := by
  unfold St.reward St.findAcct at h
  split at h
  · cases h
  · rename_i a ha
    have ha' : s.accts.fin[ledgerKey o]? = some a := by simpa [Led.get] using ha
    have hkey := hk _ _ ha'
    cases hab : addBalance a amt with
    | none => rw [hab] at h; cases h
    | some a' =>
      rw [hab] at h
      cases h
      have ea : a' = { a with bal := wadd a.bal amt } := by
        unfold addBalance at hab
        split at hab
        · cases hab
        · cases hab; rfl
      subst ea
      have hfin : (s.setAcct true { a with bal := wadd a.bal amt }).accts.fin =
          s.accts.fin.insert (ledgerKey o) { a with bal := wadd a.bal amt } := by
        simp [St.setAcct, Led.set, hkey]
      rw [hfin]
      refine ⟨?_, by rw [ha']; simp, ?_⟩
      · intro k b hb
        rw [Std.ExtTreeMap.getElem?_insert] at hb
        by_cases e : ledgerKey o = k
        · simp [e] at hb; subst hb; subst e; exact hkey
        · simp [e] at hb; exact hk k b hb
      · intro K
        by_cases e : ledgerKey o = K
        · subst e
          simp [balAt, ha', wadd]
        · have : (s.accts.fin.insert (ledgerKey o) { a with bal := wadd a.bal amt })[K]? = s.accts.fin[K]? := by
            rw [Std.ExtTreeMap.getElem?_insert]; simp [e]
          simp [balAt, e, this]

theorem creditAll_balance (l : List Stake) : ∀ (s s'' : St), AcctKeysOK s.accts.fin → creditAll s l = some s'' →
    AcctKeysOK s''.accts.fin ∧ ∀ K : String, (s''.accts.fin[K]? = none ↔ s.accts.fin[K]? = none) ∧
      (balAt s.accts.fin K + refundsTo K l < two256 → balAt s''.accts.fin K = balAt s.accts.fin K + refundsTo K l) ∧
      (s.accts.fin[K]? = none → refundsTo K l = 0) := by
  induction l with
  | nil =>
    intro s s'' hk h
    simp only [creditAll, Option.some.injEq] at h
    subst h
    exact ⟨hk, fun K => ⟨Iff.rfl, fun _ => by simp [refundsTo], fun _ => rfl⟩⟩
  | cons st l ih =>
    intro s s'' hk h
    simp only [creditAll] at h
    split at h
    · cases h
    · rename_i s1 hr
      obtain ⟨hk1, hpres, hb1⟩ := reward_bal hk hr
      obtain ⟨hk2, hb2⟩ := ih s1 s'' hk1 h
      refine ⟨hk2, fun K => ?_⟩
      obtain ⟨p1, q1⟩ := hb1 K
      obtain ⟨p2, q2, r2⟩ := hb2 K
      refine ⟨p2.trans p1, ?_, ?_⟩
      · intro hlt
        rw [refundsTo_cons] at hlt ⊢
        by_cases e : ledgerKey st.owner = K
        · simp only [e, if_true] at hlt q1 ⊢
          have : (balAt s.accts.fin K + powerToAmount st.power) % two256 = balAt s.accts.fin K + powerToAmount st.power :=
            Nat.mod_eq_of_lt (by omega)
          rw [this] at q1
          rw [q2 (by rw [q1]; omega), q1]; omega
        · simp only [e, if_false, Nat.zero_add] at hlt q1 ⊢
          rw [q2 (by rw [q1]; exact hlt), q1]
      · intro hn
        rw [refundsTo_cons, r2 (p1.mpr hn)]
        by_cases e : ledgerKey st.owner = K
        · subst e; exact absurd hn hpres
        · simp [e]

/-! ### the other steps of EndBlock and the account ledger -/

theorem foldl_res_accts {α : Type} (F : Res St → α → Res St)
    (hF : ∀ acc a s', F acc a = .ok s' → ∃ s0, acc = .ok s0 ∧ s'.accts = s0.accts)
    (l : List α) (acc : Res St) (s' : St) (h : l.foldl F acc = .ok s') :
    ∃ s0, acc = .ok s0 ∧ s'.accts = s0.accts := by
  induction l generalizing acc with
  | nil => exact ⟨s', h, rfl⟩
  | cons a l ih =>
    simp only [List.foldl_cons] at h
    obtain ⟨s1, h1, hc⟩ := ih _ h
    obtain ⟨s0, h0, hc0⟩ := hF _ _ _ h1
    exact ⟨s0, h0, hc.trans hc0⟩

theorem freezeProposals_acctsC {s s' : St} {ht : Int} (h : freezeProposals s ht = .ok s') : s'.accts = s.accts := by
  unfold freezeProposals at h
  obtain ⟨s0, h0, hc⟩ := foldl_res_accts _ (by
    intro acc a s' hh
    cases acc with
    | panic e => cases hh
    | ok s0 =>
      refine ⟨s0, rfl, ?_⟩
      dsimp only at hh
      repeat' split at hh
      all_goals (cases hh; try rfl)) _ _ _ h
  cases h0; exact hc

theorem applyProposals_acctsC {s s' : St} {ht : Int} (h : applyProposals s ht = .ok s') : s'.accts = s.accts := by
  unfold applyProposals at h
  obtain ⟨s0, h0, hc⟩ := foldl_res_accts _ (by
    intro acc a s' hh
    cases acc with
    | panic e => cases hh
    | ok s0 =>
      refine ⟨s0, rfl, ?_⟩
      dsimp only at hh
      repeat' split at hh
      all_goals (cases hh; try rfl)) _ _ _ h
  cases h0; exact hc

/-- the fee the proposer's account (key `K`) receives at the end of the block -/
def feeTo (b : BlockCtx) (K : String) : Nat :=
  if b.proposer ≠ "" ∧ b.feeSum > 0 ∧ (!isNeg256 b.feeSum) = true ∧ ledgerKey b.proposer = K then b.feeSum else 0

theorem feeHandover_bal {s s' : St} {b : BlockCtx} (hk : AcctKeysOK s.accts.fin) (h : feeHandover s b = .ok s') :
    AcctKeysOK s'.accts.fin ∧ ∀ K : String,
      (balAt s.accts.fin K + feeTo b K < two256 → balAt s'.accts.fin K = balAt s.accts.fin K + feeTo b K) := by
  unfold feeHandover at h
  split at h
  · rename_i hc
    dsimp only at h
    cases hab : addBalance ((s.findAcct true b.proposer).getD { addr := b.proposer }) b.feeSum with
    | none => rw [hab] at h; cases h
    | some a' =>
      rw [hab] at h
      cases h
      have ea : a' = { (s.findAcct true b.proposer).getD { addr := b.proposer } with
          bal := wadd ((s.findAcct true b.proposer).getD { addr := b.proposer }).bal b.feeSum } := by
        unfold addBalance at hab
        split at hab
        · cases hab
        · cases hab; rfl
      have hkey : ledgerKey a'.addr = ledgerKey b.proposer := by
        rw [ea]
        cases hf : s.findAcct true b.proposer with
        | none => rfl
        | some a =>
          have : s.accts.fin[ledgerKey b.proposer]? = some a := by simpa [St.findAcct, Led.get] using hf
          exact hk _ a this
      have hfin : (s.setAcct true a').accts.fin = s.accts.fin.insert (ledgerKey b.proposer) a' := by
        simp [St.setAcct, Led.set, hkey]
      rw [hfin]
      refine ⟨?_, ?_⟩
      · intro k x hx
        rw [Std.ExtTreeMap.getElem?_insert] at hx
        by_cases e : ledgerKey b.proposer = k
        · simp [e] at hx; subst hx; subst e; exact hkey
        · simp [e] at hx; exact hk k x hx
      · intro K hlt
        by_cases e : ledgerKey b.proposer = K
        · subst e
          have hfee : feeTo b (ledgerKey b.proposer) = b.feeSum := by
            unfold feeTo; rw [if_pos ⟨hc.1, hc.2.1, hc.2.2, rfl⟩]
          rw [hfee] at hlt ⊢
          have hbal : balAt s.accts.fin (ledgerKey b.proposer) = ((s.findAcct true b.proposer).getD { addr := b.proposer }).bal := by
            unfold balAt St.findAcct Led.get
            simp only [if_true]
            cases s.accts.fin[ledgerKey b.proposer]? <;> rfl
          simp only [balAt, Std.ExtTreeMap.getElem?_insert_self, Option.map_some, Option.getD_some]
          rw [ea]
          show wadd _ _ = _
          unfold wadd
          rw [← hbal, Nat.mod_eq_of_lt hlt]
          rfl
        · have hfee : feeTo b K = 0 := by
            unfold feeTo; rw [if_neg (fun hh => e hh.2.2.2)]
          have : (s.accts.fin.insert (ledgerKey b.proposer) a')[K]? = s.accts.fin[K]? := by
            rw [Std.ExtTreeMap.getElem?_insert]; simp [e]
          simp [balAt, this, hfee]
  · rename_i hc
    cases h
    refine ⟨hk, fun K _ => ?_⟩
    have hfee : feeTo b K = 0 := by
      unfold feeTo; rw [if_neg (fun hh => hc ⟨hh.1, hh.2.1, hh.2.2.1⟩)]
    simp [hfee]

/-- balances after an EndBlock that does not panic -/
theorem endBlock_balance {s : St} {b : BlockCtx} (hb : s.blk = some b) (hp : (endBlock s).2.panic = "")
    (hk : AcctKeysOK s.accts.fin) (K : String)
    (hlt : balAt s.accts.fin K + feeTo b K +
      refundsTo K ((s.frozen.committed.toList.filter (due b.height)).map (·.2)) < two256) :
    balAt (endBlock s).1.accts.fin K = balAt s.accts.fin K + feeTo b K +
      refundsTo K ((s.frozen.committed.toList.filter (due b.height)).map (·.2)) := by
  unfold endBlock at hp ⊢
  rw [hb] at hp ⊢
  dsimp only at hp ⊢
  cases h1 : freezeProposals s b.height with
  | panic e => rw [h1] at hp; exact absurd hp (freezeProposals_panic h1)
  | ok s1 =>
    rw [h1] at hp
    dsimp only at hp ⊢
    cases h2 : applyProposals s1 b.height with
    | panic e => rw [h2] at hp; exact absurd hp (applyProposals_panic h2)
    | ok s2 =>
      rw [h2] at hp
      dsimp only at hp ⊢
      cases h3 : feeHandover s2 b with
      | panic e => rw [h3] at hp; exact absurd hp (feeHandover_panic h3)
      | ok s3 =>
        rw [h3] at hp
        dsimp only at hp ⊢
        have hacc2 : s2.accts = s.accts := (applyProposals_acctsC h2).trans (freezeProposals_acctsC h1)
        have c3 : s3.core = s.core := by
          rw [feeHandover_core h3, applyProposals_core h2, freezeProposals_core h1]
        cases h4 : unfreeze s3 b.height with
        | panic e => rw [h4] at hp; exact absurd hp (unfreeze_panic h4)
        | ok s4 =>
          rw [h4] at hp
          dsimp only at hp ⊢
          cases h5 : updateValidators s4 with
          | panic e => rw [h5] at hp; exact absurd hp (updateValidators_panic h5)
          | ok r =>
            obtain ⟨s5, u⟩ := r
            dsimp only
            have hacc5 : s5.accts = s4.accts := by
              unfold updateValidators at h5
              split at h5
              · cases h5
              · cases h5; rfl
            obtain ⟨s'', c1, c2, _⟩ := unfreeze_credit h4
            have hcm : s3.frozen.committed = s.frozen.committed := by
              have : s3.core.fhist = s.core.fhist := by rw [c3]
              unfold Led.committed
              show s3.core.fhist.getLast?.getD {} = s.core.fhist.getLast?.getD {}
              rw [this]
            rw [hcm] at c1
            have hk2 : AcctKeysOK s2.accts.fin := by rw [hacc2]; exact hk
            obtain ⟨hk3, hfee⟩ := feeHandover_bal hk2 h3
            have hfeeK := hfee K (by rw [hacc2]; omega)
            rw [hacc2] at hfeeK
            obtain ⟨_, hcr⟩ := creditAll_balance _ s3 s'' hk3 c1
            have := (hcr K).2.1 (by rw [hfeeK]; exact hlt)
            rw [hacc5, c2, this, hfeeK]

end Rigo
