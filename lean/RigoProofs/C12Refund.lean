/-
  C12 helpers: the refund pass of EndBlock seen from one unbonding stake (when it is refunded, that it
  stays untouched before), the log grows only there, and the credit to the owner's account.
-/
import RigoProofs.C12Unbond

namespace Rigo
open Delegatee

/-! ### one committed unbonding stake across the refund pass -/

/-- the entries the refund pass at height `ht` appends to the log -/
def refundBatch (c : Core) (ht : Int) : List (Hex × Hex × Int × Int) :=
  (c.fcommitted.toList.filter (due ht)).map (fun x => refundEntry x.2 ht)

theorem unfreezeCore_refunds (c : Core) (ht : Int) : (unfreezeCore c ht).refunds = c.refunds ++ refundBatch c ht :=
  unfreezeFold_refunds _ _ _

theorem mem_refundBatch {c : Core} {ht : Int} {e : Hex × Hex × Int × Int} (hf : FrozenOK c) (he : e ∈ refundBatch c ht) :
    ∃ st, c.fcommitted[skey st]? = some st ∧ st.refund ≤ ht ∧ e = refundEntry st ht := by
  obtain ⟨_, hkeys, hget⟩ := toList_facts (fcommitted_ok hf)
  simp only [refundBatch, List.mem_map, List.mem_filter] at he
  obtain ⟨x, ⟨hx, hd⟩, rfl⟩ := he
  refine ⟨x.2, ?_, by simpa [due] using hd, rfl⟩
  rw [← hkeys x hx]; exact hget x hx

theorem list_eq_singleton {α : Type} {l : List α} {e : α} (h1 : l.length ≤ 1) (h2 : e ∈ l) : l = [e] := by
  match l, h1, h2 with
  | [x], _, h2 => simp at h2; rw [h2]
  | _ :: _ :: _, h1, _ => simp at h1

/-- a committed unbonding stake with a non-zero key at the refund pass of block `ht`:
    due -> removed from the unbonding view and logged exactly once, with its own owner and power;
    not due -> untouched and not logged -/
theorem unfreezeCore_stake {U : List String} {c : Core} (h : Life U .inBlock c) (hf : FrozenOK c) (ht : Int)
    {k : String} {st : Stake} (hk : k ≠ zeroKey) (hc : c.fcommitted[k]? = some st) :
    (st.refund ≤ ht → (unfreezeCore c ht).ffin[k]? = none ∧
        (refundBatch c ht).filter (fun e => ledgerKey e.1 == k) = [refundEntry st ht]) ∧
    (¬ st.refund ≤ ht → (unfreezeCore c ht).ffin[k]? = some st ∧
        (refundBatch c ht).filter (fun e => ledgerKey e.1 == k) = []) := by
  obtain ⟨hpw, hkeys, hget⟩ := toList_facts (fcommitted_ok hf)
  have hfk : k = skey st := fcommitted_ok hf k st hc
  have hin : c.ffin[k]? = some st := h.inblock rfl k st hk hc
  have hmem : (k, st) ∈ c.fcommitted.toList := Std.ExtTreeMap.mem_toList_iff_getElem?_eq_some.mpr hc
  -- any committed entry with this key is this entry
  have uniq : ∀ x ∈ c.fcommitted.toList, skey x.2 = k → x.2 = st := by
    intro x hx hxk
    have := hget x hx
    rw [hkeys x hx, hxk, hc] at this
    cases this; rfl
  obtain ⟨c1, c2⟩ := count_key_le_one c.fcommitted.toList ht k hpw hkeys
  constructor
  · intro hdue
    have hex : ∃ x ∈ c.fcommitted.toList, due ht x = true ∧ skey x.2 = k :=
      ⟨(k, st), hmem, by simp [due, hdue], hfk.symm⟩
    refine ⟨by unfold unfreezeCore; rw [unfreezeFold_ffin, if_pos hex], ?_⟩
    have hm : refundEntry st ht ∈ (refundBatch c ht).filter (fun e => ledgerKey e.1 == k) := by
      simp only [refundBatch, List.mem_filter, List.mem_map]
      exact ⟨⟨(k, st), ⟨hmem, by simp [due, hdue]⟩, rfl⟩, by simp [refundEntry, hfk, skey]⟩
    exact list_eq_singleton c1 hm
  · intro hnd
    have hnex : ¬ ∃ x ∈ c.fcommitted.toList, due ht x = true ∧ skey x.2 = k := by
      rintro ⟨x, hx, hd, hxk⟩
      have := uniq x hx hxk
      simp only [due, decide_eq_true_eq] at hd
      rw [this] at hd; exact hnd hd
    refine ⟨by unfold unfreezeCore; rw [unfreezeFold_ffin, if_neg hnex]; exact hin, ?_⟩
    unfold refundBatch
    rw [← List.length_eq_zero_iff]
    apply Classical.byContradiction
    intro hne
    exact hnex (c2 hne)

/-! ### an unbonding stake is untouched by every other operation -/

theorem BeginAtom.ffin_stable {U : List String} {p : Phase} {h : Header} {c c' : Core} (ha : BeginAtom h c c')
    (hl : Life U p c) {k : String} {st : Stake} (hk : k ≠ zeroKey) (hin : c.ffin[k]? = some st) :
    c'.ffin[k]? = some st := by
  have other : ∀ (K : String) (d : Delegatee), c.dfin[K]? = some d → ∀ x ∈ d.stakes, ledgerKey x.hash ≠ k := by
    intro K d hd x hx he
    have := hl.excl K d x hd hx (by rw [show skey x = k from he]; exact hk)
    rw [show skey x = k from he, hin] at this; cases this
  cases ha with
  | slash => exact hin
  | mark => exact hin
  | jail k0 d ns hd0 =>
    show (freezeFin c.ffin d.stakes _)[k]? = some st
    rw [freezeFin_get_other (other k0 d hd0)]; exact hin

theorem OpCore.ffin_stable {U : List String} {nk : List Hex} {op : Op} {p p' : Phase} {c c' : Core}
    (hop : OpCore nk op c c') (hl : Life U p c) (hd : DelegsOK c) (hf : FrozenOK c)
    (hph : phaseStep p op = some p') {k : String} {st : Stake} (hk : k ≠ zeroKey) (hin : c.ffin[k]? = some st) :
    c'.ffin[k]? = some st ∨
    (op = .end_ ∧ ∃ ht, c.height = some ht ∧ st.refund ≤ ht ∧ c'.ffin[k]? = none ∧
      c'.refunds = c.refunds ++ refundBatch c ht ∧
      (refundBatch c ht).filter (fun e => ledgerKey e.1 == k) = [refundEntry st ht]) := by
  have other : ∀ (K : String) (d : Delegatee), c.dfin[K]? = some d → ∀ x ∈ d.stakes, ledgerKey x.hash ≠ k := by
    intro K d hd x hx he
    have := hl.excl K d x hd hx (by rw [show skey x = k from he]; exact hk)
    rw [show skey x = k from he, hin] at this; cases this
  cases hop with
  | same => exact Or.inl hin
  | begin_ h _ _ hht hs =>
    left
    have hp : p = .idle := by cases p <;> simp [phaseStep] at hph <;> rfl
    subst hp
    have h0 : Life U .inBlock { c with height := some h.height } :=
      { used := hl.used, nodup := hl.nodup, across := hl.across, excl := hl.excl, once := hl.once, gone := hl.gone,
        boundary := fun hn => (by cases hn), idle := fun hp => (by cases hp),
        inblock := fun _ k st _ hk => (by
          show c.ffin[k]? = some st
          rw [(hl.boundary (hl.idle rfl)).1]; exact hk) }
    have := Steps.inv (P := fun c => (Life U .inBlock c ∧ c.height ≠ none ∧ DelegsOK c) ∧ c.ffin[k]? = some st)
      (fun a b hab ⟨⟨h1, h2, h3⟩, h4⟩ => ⟨⟨(hab.life h1 h2 h3).1, (hab.life h1 h2 h3).2, hab.delegsOK h3⟩,
        hab.ffin_stable h1 hk h4⟩) hs ⟨⟨h0, by simp, hd⟩, hin⟩
    exact this.2
  | stake => exact Or.inl hin
  | unstake tx _ ht d hash st0 hh hty hsig hpay hdK hst hown =>
    left
    rw [unstakeCore_ffin, freezeFin_get_other]
    · exact hin
    · intro x hx
      refine other _ d hdK x ?_
      simp only [List.mem_cons] at hx
      rcases hx with rfl | hx
      · exact (findStake_mem hst).1
      · split at hx
        · exact (delStake_stakes_sublist d hash).subset hx
        · cases hx
  | end_ _ ht hh =>
    have hp : p = .inBlock := by cases p <;> simp [phaseStep] at hph <;> rfl
    subst hp
    by_cases hex : ∃ x ∈ c.fcommitted.toList, due ht x = true ∧ skey x.2 = k
    · right
      obtain ⟨x, hx, hdue, hxk⟩ := hex
      obtain ⟨_, hkeys, hget⟩ := toList_facts (fcommitted_ok hf)
      have hc : c.fcommitted[k]? = some x.2 := by rw [← hxk, ← hkeys x hx]; exact hget x hx
      have hin' := hl.inblock rfl k x.2 hk hc
      rw [hin] at hin'; cases hin'
      have hd' : x.2.refund ≤ ht := by simpa [due] using hdue
      obtain ⟨h1, h2⟩ := (unfreezeCore_stake hl hf ht hk hc).1 hd'
      exact ⟨rfl, ht, hh, hd', h1, unfreezeCore_refunds c ht, h2⟩
    · left
      unfold unfreezeCore; rw [unfreezeFold_ffin, if_neg hex]; exact hin
  | commit => exact Or.inl hin
  | restart _ act =>
    left
    have hp : p = .idle := by cases p <;> simp [phaseStep] at hph <;> rfl
    subst hp
    show c.fcommitted[k]? = some st
    rw [← (hl.boundary (hl.idle rfl)).1]; exact hin

/-! ### the log grows only in the refund pass -/

theorem BeginAtom.refunds {h : Header} {c c' : Core} (ha : BeginAtom h c c') : c'.refunds = c.refunds := by
  cases ha <;> rfl

theorem OpCore.refunds {nk : List Hex} {op : Op} {c c' : Core} (hop : OpCore nk op c c') :
    c'.refunds = c.refunds ∨ (op = .end_ ∧ ∃ ht, c.height = some ht ∧ c'.refunds = c.refunds ++ refundBatch c ht) := by
  cases hop with
  | same => exact Or.inl rfl
  | begin_ h _ _ _ hs =>
    left
    exact Steps.inv (P := fun x => x.refunds = c.refunds) (fun a b hab ha => by rw [hab.refunds, ha]) hs rfl
  | stake => exact Or.inl rfl
  | unstake => exact Or.inl rfl
  | end_ _ ht hh => exact Or.inr ⟨rfl, ht, hh, unfreezeCore_refunds c ht⟩
  | commit => exact Or.inl rfl
  | restart => exact Or.inl rfl

/-! ### the credit -/

/-- the account ledger after crediting the listed stakes to their owners, one `AcctCtrler.Reward`
    call (`balance += power x 10^18`) per stake, in order -/
def creditAll (s : St) : List Stake → Option St
  | [] => some s
  | st :: l => match s.reward true st.owner (powerToAmount st.power) with
    | none => none
    | some s1 => creditAll s1 l

/-- one iteration of the refund pass -/
def unfreezeStep (ht : Int) (acc : Res St) (x : String × Stake) : Res St :=
  match acc with
  | .panic e => .panic e
  | .ok s =>
    if x.2.refund ≤ ht then
      match s.reward true x.2.owner (powerToAmount x.2.power) with
      | none => .panic "EndBlock: refund to a missing account"
      | some s1 =>
        .ok { s1 with frozen := s1.frozen.del true (ledgerKey x.2.hash),
                      ghost := { s1.ghost with refunds := s1.ghost.refunds ++ [(x.2.hash, x.2.owner, x.2.power, ht)] } }
    else .ok s

theorem unfreeze_eq (s : St) (ht : Int) :
    unfreeze s ht = s.frozen.committed.toList.foldl (unfreezeStep ht) (.ok s) := rfl

theorem unfreezeStep_panic (ht : Int) (l : List (String × Stake)) (e : String) :
    l.foldl (unfreezeStep ht) (.panic e) = .panic e := by
  induction l with
  | nil => rfl
  | cons y l ih => simp only [List.foldl_cons]; exact ih

theorem reward_accts {s t a : St} {o : Hex} {amt : Nat} (hst : s.accts = t.accts) (hr : s.reward true o amt = some a) :
    ∃ b, t.reward true o amt = some b ∧ a.accts = b.accts := by
  unfold St.reward St.findAcct St.setAcct at hr ⊢
  rw [← hst]
  split at hr
  · cases hr
  · rename_i ac hac
    split at hr
    · cases hr
    · rename_i a' ha'
      cases hr
      exact ⟨_, rfl, rfl⟩

theorem unfreeze_fold_credit (ht : Int) (l : List (String × Stake)) :
    ∀ (s t s' : St), s.accts = t.accts → l.foldl (unfreezeStep ht) (.ok s) = .ok s' →
      ∃ s'', creditAll t ((l.filter (due ht)).map (·.2)) = some s'' ∧ s'.accts = s''.accts := by
  induction l with
  | nil => intro s t s' hst h; cases h; exact ⟨t, rfl, hst⟩
  | cons x l ih =>
    intro s t s' hst h
    simp only [List.foldl_cons] at h
    by_cases hd : x.2.refund ≤ ht
    · cases hr : s.reward true x.2.owner (powerToAmount x.2.power) with
      | none =>
        have : unfreezeStep ht (.ok s) x = .panic "EndBlock: refund to a missing account" := by
          simp [unfreezeStep, hd, hr]
        rw [this, unfreezeStep_panic] at h; cases h
      | some a =>
        have hstep : unfreezeStep ht (.ok s) x = .ok
            { a with
              frozen := a.frozen.del true (ledgerKey x.2.hash)
              ghost := { a.ghost with refunds := a.ghost.refunds ++ [(x.2.hash, x.2.owner, x.2.power, ht)] } } := by
          simp [unfreezeStep, hd, hr]
        rw [hstep] at h
        obtain ⟨b, hb, hab⟩ := reward_accts hst hr
        obtain ⟨s'', h1, h2⟩ := ih _ b s' (by exact hab) h
        refine ⟨s'', ?_, h2⟩
        simp only [List.filter_cons, due, hd, decide_true, if_true, List.map_cons, creditAll, hb]
        exact h1
    · have hstep : unfreezeStep ht (.ok s) x = .ok s := by simp [unfreezeStep, hd]
      rw [hstep] at h
      obtain ⟨s'', h1, h2⟩ := ih s t s' hst h
      refine ⟨s'', ?_, h2⟩
      simp only [List.filter_cons, due, hd, decide_false]
      exact h1

/-- the refund pass credits exactly the logged stakes: one `Reward(owner, power x 10^18)` per log entry -/
theorem unfreeze_credit {s s' : St} {ht : Int} (h : unfreeze s ht = .ok s') :
    ∃ s'', creditAll s ((s.frozen.committed.toList.filter (due ht)).map (·.2)) = some s'' ∧ s'.accts = s''.accts ∧
      s'.ghost.refunds = s.ghost.refunds ++
        ((s.frozen.committed.toList.filter (due ht)).map (·.2)).map (fun st => refundEntry st ht) := by
  rw [unfreeze_eq] at h
  obtain ⟨s'', h1, h2⟩ := unfreeze_fold_credit ht _ s s s' rfl h
  rw [← unfreeze_eq] at h
  refine ⟨s'', h1, h2, ?_⟩
  have := unfreeze_core h
  have hr : s'.core.refunds = (unfreezeCore s.core ht).refunds := by rw [this]
  rw [unfreezeCore_refunds] at hr
  simp only [List.map_map]
  exact hr

end Rigo
