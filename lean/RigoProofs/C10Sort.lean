/-
  C10 — the two orderings used by `updateValidators`: `sortByAddr` and `sortByPower` return sorted
  permutations; `powerLess` is a strict total order on delegatees with distinct addresses.
-/
import RigoProofs.C10Merge
open Std

namespace Rigo.TM

/-- pairwise distinct addresses -/
def AddrDistinct (ds : List Delegatee) : Prop := ds.Pairwise (fun a b => a.addr ≠ b.addr)

theorem AddrDistinct.perm {l l' : List Delegatee} (h : AddrDistinct l) (p : l'.Perm l) : AddrDistinct l' :=
  (p.pairwise_iff (fun hab e => hab e.symm)).mpr h

theorem AddrDistinct.sublist {l l' : List Delegatee} (h : AddrDistinct l) (p : l'.Sublist l) : AddrDistinct l' :=
  List.Pairwise.sublist p h

theorem sortByAddr_perm (ds : List Delegatee) : (sortByAddr ds).Perm ds := List.mergeSort_perm _ _

theorem sortByAddr_le (ds : List Delegatee) : (sortByAddr ds).Pairwise (fun a b => a.addr ≤ b.addr) := by
  have := List.pairwise_mergeSort (le := fun (a b : Delegatee) => decide (a.addr ≤ b.addr))
    (fun a b c hab hbc => by simp only [decide_eq_true_eq] at *; exact String.le_trans hab hbc)
    (fun a b => by simp only [Bool.or_eq_true, decide_eq_true_eq]; exact String.le_total _ _) ds
  unfold sortByAddr
  exact this.imp (fun h => by simpa using h)

/-- `sortByAddr` of a list with distinct addresses is strictly address-sorted -/
theorem sortByAddr_sorted {ds : List Delegatee} (hd : AddrDistinct ds) : SortedByAddr (sortByAddr ds) := by
  have h1 := sortByAddr_le ds
  have h2 : AddrDistinct (sortByAddr ds) := hd.perm (sortByAddr_perm ds)
  unfold SortedByAddr
  exact (h1.and h2).imp (fun {a b} ⟨hle, hne⟩ => by
    apply String.not_le.mp
    intro hba; exact hne (String.le_antisymm hle hba))

/-! ### the power order -/

theorem powerLess_irrefl (a : Delegatee) : powerLess a a = false := by
  simp [powerLess]

theorem powerLess_asymm {a b : Delegatee} (h : powerLess a b = true) : powerLess b a = false := by
  unfold powerLess at *
  by_cases ht : a.total = b.total
  · by_cases hl : a.stakes.length = b.stakes.length
    · simp only [ht, hl, ne_eq, not_true_eq_false, if_false, decide_eq_true_eq, gt_iff_lt] at h
      simp only [ht, hl, ne_eq, not_true_eq_false, if_false, gt_iff_lt, decide_eq_false_iff_not]
      exact String.lt_asymm h
    · simp only [ht, hl, ne_eq, not_true_eq_false, not_false_eq_true, if_false, if_true, decide_eq_true_eq, gt_iff_lt] at h
      have hl' : ¬ b.stakes.length = a.stakes.length := fun e => hl e.symm
      simp only [ht, hl', ne_eq, not_true_eq_false, not_false_eq_true, if_false, if_true, gt_iff_lt, decide_eq_false_iff_not]
      omega
  · simp only [ht, ne_eq, not_false_eq_true, if_true, decide_eq_true_eq, gt_iff_lt] at h
    have ht' : ¬ b.total = a.total := fun e => ht e.symm
    simp only [ht', ne_eq, not_false_eq_true, if_true, gt_iff_lt, decide_eq_false_iff_not]
    omega

theorem powerLess_total {a b : Delegatee} (hne : a.addr ≠ b.addr) : powerLess a b = true ∨ powerLess b a = true := by
  unfold powerLess
  by_cases ht : a.total = b.total
  · by_cases hl : a.stakes.length = b.stakes.length
    · simp only [ht, hl, ne_eq, not_true_eq_false, if_false, decide_eq_true_eq, gt_iff_lt]
      rcases String.le_total a.addr b.addr with h | h
      · right; apply String.not_le.mp; intro h'; exact hne (String.le_antisymm h h')
      · left; apply String.not_le.mp; intro h'; exact hne (String.le_antisymm h' h)
    · have hl' : ¬ b.stakes.length = a.stakes.length := fun e => hl e.symm
      simp only [ht, hl, hl', ne_eq, not_true_eq_false, not_false_eq_true, if_false, if_true, decide_eq_true_eq, gt_iff_lt]
      omega
  · have ht' : ¬ b.total = a.total := fun e => ht e.symm
    simp only [ht, ht', ne_eq, not_false_eq_true, if_true, decide_eq_true_eq, gt_iff_lt]
    omega

theorem powerLess_trans {a b c : Delegatee} (hab : powerLess a b = true) (hbc : powerLess b c = true) :
    powerLess a c = true := by
  unfold powerLess at *
  by_cases h1 : a.total = b.total <;> by_cases h2 : b.total = c.total <;>
    by_cases h3 : a.stakes.length = b.stakes.length <;> by_cases h4 : b.stakes.length = c.stakes.length <;>
    simp_all <;> (try split) <;> (try split) <;> first | omega | (exact String.lt_trans hbc hab)

/-- the total preorder behind `powerLess`: compare (total, number of stakes, address), descending -/
def powerLe (a b : Delegatee) : Bool :=
  if a.total ≠ b.total then a.total > b.total
  else if a.stakes.length ≠ b.stakes.length then a.stakes.length > b.stakes.length
  else a.addr ≥ b.addr

theorem powerLe_total (a b : Delegatee) : (powerLe a b || powerLe b a) = true := by
  unfold powerLe
  by_cases ht : a.total = b.total
  · by_cases hl : a.stakes.length = b.stakes.length
    · simp only [ht, hl, ne_eq, not_true_eq_false, if_false, Bool.or_eq_true, decide_eq_true_eq, ge_iff_le]
      exact (String.le_total _ _).symm
    · have hl' : ¬ b.stakes.length = a.stakes.length := fun e => hl e.symm
      simp only [ht, hl, hl', ne_eq, not_true_eq_false, not_false_eq_true, if_false, if_true, Bool.or_eq_true, decide_eq_true_eq, gt_iff_lt]
      omega
  · have ht' : ¬ b.total = a.total := fun e => ht e.symm
    simp only [ht, ht', ne_eq, not_false_eq_true, if_true, Bool.or_eq_true, decide_eq_true_eq, gt_iff_lt]
    omega

theorem powerLe_trans (a b c : Delegatee) (hab : powerLe a b = true) (hbc : powerLe b c = true) :
    powerLe a c = true := by
  unfold powerLe at *
  by_cases h1 : a.total = b.total <;> by_cases h2 : b.total = c.total <;>
    by_cases h3 : a.stakes.length = b.stakes.length <;> by_cases h4 : b.stakes.length = c.stakes.length <;>
    simp_all <;> (try split) <;> (try split) <;> first | omega | (exact String.le_trans hbc hab)

/-- on delegatees that are equal or have different addresses the code's comparison is `powerLe` -/
theorem powerLess_or_eq_eq_powerLe {a b : Delegatee} (h : a = b ∨ a.addr ≠ b.addr) :
    (powerLess a b || a == b) = powerLe a b := by
  rcases h with rfl | h
  · simp [powerLess, powerLe]
  · have hab : (a == b) = false := by
      simp only [beq_eq_false_iff_ne, ne_eq]; intro e; exact h (by rw [e])
    rw [hab, Bool.or_false]
    unfold powerLess powerLe
    split
    · rfl
    · split
      · rfl
      · simp only [gt_iff_lt, ge_iff_le, decide_eq_decide]
        constructor
        · intro hlt; exact String.not_lt.mp (String.lt_asymm hlt)
        · intro hle; apply String.not_le.mp; intro h'; exact h (String.le_antisymm h' hle)

theorem powerLe_of_powerLess_or_eq {a b : Delegatee} : powerLe a b = true → a.addr ≠ b.addr → powerLess a b = true := by
  intro h hne
  rw [← powerLess_or_eq_eq_powerLe (Or.inr hne)] at h
  have hab : (a == b) = false := by
    simp only [beq_eq_false_iff_ne, ne_eq]; intro e; exact hne (by rw [e])
  simpa [hab] using h

theorem mem_or_of_distinct {ds : List Delegatee} (hd : AddrDistinct ds) :
    ∀ a ∈ ds, ∀ b ∈ ds, a = b ∨ a.addr ≠ b.addr := by
  intro a ha b hb
  by_cases e : a = b
  · exact Or.inl e
  · exact Or.inr (pairwise_of_mem_ne (fun _ _ h e => h e.symm) hd a ha b hb e)

theorem sortByPower_eq {ds : List Delegatee} (hd : AddrDistinct ds) : sortByPower ds = ds.mergeSort powerLe := by
  have := List.map_mergeSort (r := fun a b => powerLess a b || a == b) (s := powerLe) (f := id) (l := ds)
    (fun a ha b hb => powerLess_or_eq_eq_powerLe (mem_or_of_distinct hd a ha b hb))
  simpa [sortByPower] using this

theorem sortByPower_perm (ds : List Delegatee) : (sortByPower ds).Perm ds := List.mergeSort_perm _ _

/-- ranked by the code's power order -/
def SortedByPower (ds : List Delegatee) : Prop := ds.Pairwise (fun a b => powerLess a b = true)

/-- `sortByPower` of a list with distinct addresses is strictly sorted by `powerLess` -/
theorem sortByPower_sorted {ds : List Delegatee} (hd : AddrDistinct ds) : SortedByPower (sortByPower ds) := by
  have h2 : AddrDistinct (sortByPower ds) := hd.perm (sortByPower_perm ds)
  have h1 : (sortByPower ds).Pairwise (fun a b => powerLe a b = true) := by
    rw [sortByPower_eq hd]
    exact List.pairwise_mergeSort powerLe_trans powerLe_total ds
  exact (h1.and h2).imp (fun {a b} ⟨hle, hne⟩ => powerLe_of_powerLess_or_eq hle hne)

/-- ranking by `powerLess` is ranking by total bonded power (descending) -/
theorem SortedByPower.total_desc {ds : List Delegatee} (h : SortedByPower ds) :
    ds.Pairwise (fun a b => a.total ≥ b.total) :=
  h.imp (fun {a b} hab => by
    unfold powerLess at hab
    by_cases ht : a.total = b.total
    · omega
    · simp only [ht, ne_eq, not_false_eq_true, if_true, decide_eq_true_eq, gt_iff_lt] at hab; omega)

/-- a power-sorted list is the only power-sorted arrangement of its elements -/
theorem SortedByPower.unique {l l' : List Delegatee} (h : SortedByPower l) (h' : SortedByPower l') (p : l.Perm l') : l = l' :=
  p.eq_of_pairwise (fun a b _ _ hab hba => by rw [powerLess_asymm hab] at hba; cases hba) h h'

/-- sorting an already power-sorted list changes nothing -/
theorem sortByPower_of_sorted {ds : List Delegatee} (h : SortedByPower ds) : sortByPower ds = ds :=
  List.mergeSort_of_pairwise (h.imp (fun hab => by simp [hab]))

/-- **`powerLess` is a strict total order on delegatees with distinct addresses** -/
theorem powerOrder_strictTotal :
    (∀ a : Delegatee, powerLess a a = false) ∧
    (∀ a b : Delegatee, powerLess a b = true → powerLess b a = false) ∧
    (∀ a b c : Delegatee, powerLess a b = true → powerLess b c = true → powerLess a c = true) ∧
    (∀ a b : Delegatee, a.addr ≠ b.addr → powerLess a b = true ∨ powerLess b a = true) :=
  ⟨powerLess_irrefl, fun _ _ => powerLess_asymm, fun _ _ _ => powerLess_trans, fun _ _ => powerLess_total⟩

end Rigo.TM
