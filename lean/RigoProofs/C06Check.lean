/-
  C06 (part 2): the CheckTx path (`handleTx … (exec := false)`) writes mempool views only.
  Every validation step returns the state it was given (the limiter is evaluated, not recorded),
  every execution step changes `chk` maps only.
-/
import RigoProofs.C06View
import RigoProofs.TxRecv

namespace Rigo
namespace C06

macro "unstep" h:ident : tactic =>
  `(tactic| (simp only [bind, Except.bind, pure, Except.pure, throw, throwThe, MonadExceptOf.throw, ofRes] at $h:ident))

theorem validateStaking_false {s s' : St} {tx : TxIn} (h : validateStaking s false tx = .ok s') : s' = s := by
  unfold validateStaking at h
  unstep h
  repeat' split at h
  all_goals first | (cases h; rfl) | cases h | exact limit_false h | skip

theorem validateUnstaking_false {s s' : St} {tx : TxIn} (h : validateUnstaking s false tx = .ok s') : s' = s := by
  unfold validateUnstaking at h
  unstep h
  repeat' split at h
  all_goals first | (cases h; rfl) | cases h | exact limit_false h | skip

theorem validateWithdraw_ok {s s' : St} {e : Bool} {tx : TxIn} (h : validateWithdraw s e tx = .ok s') : s' = s := by
  unfold validateWithdraw at h
  unstep h
  repeat' split at h
  all_goals first | (cases h; rfl) | cases h | skip

theorem validateProposal_ok {s s' : St} {e : Bool} {ht : Int} {tx : TxIn} (h : validateProposal s e ht tx = .ok s') : s' = s := by
  unfold validateProposal at h
  unstep h
  repeat' split at h
  all_goals first | (cases h; rfl) | cases h | skip

theorem validateVoting_ok {s s' : St} {e : Bool} {ht : Int} {tx : TxIn} (h : validateVoting s e ht tx = .ok s') : s' = s := by
  unfold validateVoting at h
  unstep h
  repeat' split at h
  all_goals first | (cases h; rfl) | cases h | skip

theorem validateEvm_ok {s s' : St} {tx : TxIn} {r : Account} (h : validateEvm s tx r = .ok s') : s' = s := by
  unfold validateEvm at h
  unstep h
  repeat' split at h
  all_goals first | (cases h; rfl) | cases h | skip

theorem validateTrx_false {s s' : St} {ht : Int} {tx : TxIn} {a b : Account}
    (h : validateTrx s false ht tx a b = .ok s') : s' = s := by
  unfold validateTrx at h
  unstep h
  repeat' split at h
  all_goals first
    | (cases h; rfl)
    | cases h
    | exact validateProposal_ok h
    | exact validateVoting_ok h
    | exact validateStaking_false h
    | exact validateUnstaking_false h
    | exact validateWithdraw_ok h
    | exact validateEvm_ok h


theorem freezeAll_false (fr : Led Stake) (ss : List Stake) (r : Int) :
    (freezeAll fr false ss r).hist = fr.hist ∧ (freezeAll fr false ss r).fin = fr.fin := by
  unfold freezeAll
  induction ss generalizing fr with
  | nil => simp
  | cons a ss ih => simp only [List.foldl_cons]; rw [(ih _).1, (ih _).2]; simp [Led.set]

macro "close_false" h:ident : tactic =>
  `(tactic| (all_goals first
      | (cases $h:ident; done)
      | (cases $h:ident; simp [eraseChk, St.setAcct, Led.set, Led.del, freezeAll_false]; done)))

theorem execTransfer_false {s : St} {tx : TxIn} {r : RunOut} (h : execTransfer s false tx = .ok r) :
    eraseChk r.st = eraseChk s := by
  unfold execTransfer at h
  unstep h
  repeat' split at h
  close_false h

theorem execSetDoc_false {s : St} {tx : TxIn} {r : RunOut} (h : execSetDoc s false tx = .ok r) :
    eraseChk r.st = eraseChk s := by
  unfold execSetDoc at h
  unstep h
  repeat' split at h
  close_false h

theorem execStaking_false {s : St} {ht : Int} {tx : TxIn} {r : RunOut} (h : execStaking s false ht tx = .ok r) :
    eraseChk r.st = eraseChk s := by
  unfold execStaking at h
  unstep h
  repeat' split at h
  close_false h

theorem execUnstaking_false {s : St} {ht : Int} {tx : TxIn} {r : RunOut} (h : execUnstaking s false ht tx = .ok r) :
    eraseChk r.st = eraseChk s := by
  unfold execUnstaking at h
  unstep h
  repeat' split at h
  close_false h

theorem execProposal_false {s : St} {tx : TxIn} {r : RunOut} (h : execProposal s false tx = .ok r) :
    eraseChk r.st = eraseChk s := by
  unfold execProposal at h
  unstep h
  repeat' split at h
  close_false h

theorem execVoting_false {s : St} {tx : TxIn} {r : RunOut} (h : execVoting s false tx = .ok r) :
    eraseChk r.st = eraseChk s := by
  unfold execVoting at h
  unstep h
  repeat' split at h
  close_false h

theorem execEvm_false {s : St} {tx : TxIn} {r : RunOut} (h : execEvm s false tx = .ok r) :
    eraseChk r.st = eraseChk s := by
  simp [execEvm, pure, Except.pure] at h
  subst h; rfl


theorem bind_eq_ok {ε α β : Type} {x : Except ε α} {f : α → Except ε β} {b : β} :
    x.bind f = .ok b ↔ ∃ a, x = .ok a ∧ f a = .ok b := by
  cases x <;> simp [Except.bind]

theorem bind_eq_ok' {ε α β : Type} {x : Except ε α} {f : α → Except ε β} {b : β} :
    (x >>= f) = .ok b ↔ ∃ a, x = .ok a ∧ f a = .ok b := bind_eq_ok

theorem reward_false {s s' : St} {to : Hex} {amt : Nat} (h : s.reward false to amt = some s') :
    eraseChk s' = eraseChk s := by
  unfold St.reward at h
  repeat' split at h
  close_false h

theorem execWithdraw_false {s : St} {ht : Int} {tx : TxIn} {r : RunOut} (h : execWithdraw s false ht tx = .ok r) :
    eraseChk r.st = eraseChk s := by
  unfold execWithdraw at h
  unstep h
  repeat' split at h
  all_goals first
    | (cases h; done)
    | (cases ‹false = true›; done)
    | (have hr := ‹St.reward _ false _ _ = some _›; cases h; rw [reward_false hr]; simp [eraseChk, Led.set]; done)

theorem findOrNewAcct_false (s : St) (a : Hex) : eraseChk (s.findOrNewAcct false a).1 = eraseChk s := by
  unfold St.findOrNewAcct
  split <;> simp [eraseChk, St.setAcct, Led.set]

theorem runTrx_false {s s2 : St} {ht : Int} {tx : TxIn} {rcv : Account} {g : Nat} {k : Option String}
    (h : runTrx s false ht tx rcv = .ok (s2, g, k)) : eraseChk s2 = eraseChk s := by
  unfold runTrx at h
  extract_lets viaEvm fee jp at h
  have hjp : ∀ r, jp r = .ok (s2, g, k) → eraseChk s2 = eraseChk r.st := by
    intro r hj
    simp only [jp] at hj
    unstep hj
    repeat' split at hj
    all_goals first
      | (cases hj; done)
      | (cases hj; rfl)
      | (cases hj; simp [eraseChk, St.setAcct, Led.set]; done)
  clear_value jp
  repeat' split at h
  all_goals
    obtain ⟨r, hr, h⟩ := bind_eq_ok'.mp h
    rw [hjp r h]
    first
      | (cases hr; done)
      | exact execEvm_false hr
      | exact execProposal_false hr
      | exact execVoting_false hr
      | exact execTransfer_false hr
      | exact execSetDoc_false hr
      | exact execStaking_false hr
      | exact execUnstaking_false hr
      | exact execWithdraw_false hr
      | (split at hr
         · exact execEvm_false hr
         · exact execTransfer_false hr)

theorem handleTxOld_false (s : St) (ht : Int) (tx : TxIn) : eraseChk (handleTxOld s false ht tx).1 = eraseChk s := by
  unfold handleTxOld
  simp only []
  have h0 := findOrNewAcct_false s tx.to
  repeat' split
  all_goals first
    | rfl
    | exact h0
    | (have hv := ‹validateTrx _ false _ _ _ _ = Except.ok _›
       have hr := ‹runTrx _ false _ _ _ = Except.ok _›
       show eraseChk _ = _
       rw [runTrx_false hr, validateTrx_false hv]; exact h0)
    | (have hv := ‹validateTrx _ false _ _ _ _ = Except.ok _›
       show eraseChk _ = _
       rw [validateTrx_false hv]; exact h0)

theorem handleTx_false (s : St) (ht : Int) (tx : TxIn) : eraseChk (handleTx s false ht tx).1 = eraseChk s := by
  by_cases hl : byteLen tx.to = 20
  · rw [handleTx_goodlen hl]; exact handleTxOld_false s ht tx
  · rw [handleTx_badlen_fst hl]

/-- CheckTx leaves the consensus view alone (for EVERY state and transaction) -/
theorem checkTx_consEq (s : St) (tx : TxIn) : consEq (checkTx s tx).1 s := by
  unfold checkTx
  exact handleTx_false s (s.lastHeight + 1) tx

end C06
end Rigo
