/-
  Helper lemmas for C20 (validator signer).  Property theorems are in RigoProps/C20.lean.
-/
import Rigo.Signer

namespace Rigo.Signer

/-! ### lexicographic order on (height, round, step) -/

theorem HRS.lt_irrefl (a : HRS) : ¬ a.lt a := by
  cases a; simp only [HRS.lt]; omega

theorem HRS.lt_trans {a b c : HRS} (h1 : a.lt b) (h2 : b.lt c) : a.lt c := by
  cases a; cases b; cases c; simp only [HRS.lt] at *; omega

theorem HRS.lt_asymm {a b : HRS} (h1 : a.lt b) : ¬ b.lt a := by
  cases a; cases b; simp only [HRS.lt] at *; omega

theorem HRS.le_refl (a : HRS) : a.le a := Or.inr rfl

theorem HRS.lt_of_le_of_lt {a b c : HRS} (h1 : a.le b) (h2 : b.lt c) : a.lt c := by
  rcases h1 with h | h
  · exact HRS.lt_trans h h2
  · rw [h]; exact h2

theorem HRS.lt_of_lt_of_le {a b c : HRS} (h1 : a.lt b) (h2 : b.le c) : a.lt c := by
  rcases h2 with h | h
  · exact HRS.lt_trans h1 h
  · rw [← h]; exact h1

theorem HRS.le_trans {a b c : HRS} (h1 : a.le b) (h2 : b.le c) : a.le c := by
  rcases h2 with h | h
  · exact Or.inl (HRS.lt_of_le_of_lt h1 h)
  · rw [← h]; exact h1

theorem HRS.lt_ne {a b : HRS} (h : a.lt b) : a ≠ b := by
  intro e; rw [e] at h; exact HRS.lt_irrefl _ h

theorem HRS.le_antisymm {a b : HRS} (h1 : a.le b) (h2 : b.le a) : a = b := by
  rcases h1 with h | h
  · rcases h2 with g | g
    · exact absurd g (HRS.lt_asymm h)
    · exact g.symm
  · exact h

theorem HRS.lt_total (a b : HRS) : a.lt b ∨ a = b ∨ b.lt a := by
  cases a; cases b; simp only [HRS.lt, HRS.mk.injEq]; omega

/-! ### CheckHRS -/

theorem checkHRS_fresh {l : LSS} {h r s : Int} (e : checkHRS l h r s = .fresh) :
    l.hrs.lt ⟨h, r, s⟩ := by
  unfold checkHRS at e
  simp only [LSS.hrs, HRS.lt]
  repeat' split at e
  all_goals first | contradiction | omega

theorem checkHRS_fresh_iff (l : LSS) (h r s : Int) :
    checkHRS l h r s = .fresh ↔ l.hrs.lt ⟨h, r, s⟩ := by
  refine ⟨checkHRS_fresh, fun lt => ?_⟩
  unfold checkHRS
  simp only [LSS.hrs, HRS.lt] at lt
  repeat' split
  all_goals first | rfl | omega

theorem checkHRS_reuse {l : LSS} {h r s : Int} {last : SignBytes} {sig : Sig}
    (e : checkHRS l h r s = .reuse last sig) :
    l.hrs = ⟨h, r, s⟩ ∧ l.signBytes = some last ∧ l.signature = some sig := by
  unfold checkHRS at e
  repeat' split at e
  all_goals first | contradiction | skip
  all_goals simp_all [LSS.hrs]

theorem checkHRS_panic {l : LSS} {h r s : Int} (e : checkHRS l h r s = .panic) :
    l.hrs = ⟨h, r, s⟩ ∧ l.signBytes ≠ none ∧ l.signature = none := by
  unfold checkHRS at e
  repeat' split at e
  all_goals first | contradiction | skip
  all_goals simp_all [LSS.hrs]

/-- an error from CheckHRS is justified: the request is strictly below the last record, or at the
    same HRS as a record without sign bytes -/
theorem checkHRS_err {l : LSS} {h r s : Int} {e : Err} (c : checkHRS l h r s = .err e) :
    (e = .heightRegression ∧ h < l.height) ∨
    (e = .roundRegression ∧ h = l.height ∧ r < l.round) ∨
    (e = .stepRegression ∧ h = l.height ∧ r = l.round ∧ s < l.step) ∨
    (e = .noSignBytes ∧ l.hrs = ⟨h, r, s⟩ ∧ l.signBytes = none) := by
  unfold checkHRS at c
  repeat' split at c
  all_goals first | contradiction | skip
  all_goals injection c with c; subst c
  · left; exact ⟨rfl, by omega⟩
  · right; left; exact ⟨rfl, by omega, by omega⟩
  · right; right; left; exact ⟨rfl, by omega, by omega, by omega⟩
  · right; right; right
    rename_i hsb
    refine ⟨rfl, ?_, hsb⟩
    simp only [LSS.hrs, HRS.mk.injEq]; omega

/-! ### the signing computation -/

/-- the record `saveSigned` writes -/
def savedRecord (sb : SignBytes) : LSS := ⟨sb.height, sb.round, sb.step, some sb, some (sign sb)⟩

theorem savedRecord_hrs (sb : SignBytes) : (savedRecord sb).hrs = sb.hrs := rfl

theorem onlyDiffer_spec {a b : SignBytes} (h : onlyDifferByTimestamp a b = true) :
    a.height = b.height ∧ a.round = b.round ∧ a.step = b.step ∧ a.content = b.content := by
  cases a; cases b
  simp [onlyDifferByTimestamp] at h
  exact h

theorem onlyDiffer_of_content {a b : SignBytes} (h : a.hrs = b.hrs) (c : a.content = b.content) :
    onlyDifferByTimestamp a b = true := by
  cases a; cases b
  simp [SignBytes.hrs] at h
  simp at c
  simp [onlyDifferByTimestamp, h, c]

/-- every way `compute` can come out, with what is then known -/
inductive ComputeSpec (l : LSS) (rq : Req) : Res × Option LSS → Prop
  | fresh (sb : SignBytes) : rq.signBytes? = some sb → l.hrs.lt sb.hrs →
      ComputeSpec l rq (.fresh (sign sb), some (savedRecord sb))
  | same (sb : SignBytes) (sig : Sig) : rq.signBytes? = some sb → l.hrs = sb.hrs →
      l.signBytes = some sb → l.signature = some sig → ComputeSpec l rq (.same sig, none)
  | tsSame (sb last : SignBytes) (sig : Sig) : rq.signBytes? = some sb → l.hrs = sb.hrs →
      l.signBytes = some last → l.signature = some sig → sb ≠ last →
      onlyDifferByTimestamp last sb = true → ComputeSpec l rq (.tsSame sig last.ts, none)
  | conflict (sb last : SignBytes) : rq.signBytes? = some sb → l.hrs = sb.hrs →
      l.signBytes = some last → onlyDifferByTimestamp last sb = false →
      ComputeSpec l rq (.err .conflict, none)
  | regress (sb : SignBytes) (e : Err) : rq.signBytes? = some sb → sb.hrs.lt l.hrs →
      (e = .heightRegression ∨ e = .roundRegression ∨ e = .stepRegression) →
      ComputeSpec l rq (.err e, none)
  | noSignBytes (sb : SignBytes) : rq.signBytes? = some sb → l.hrs = sb.hrs → l.signBytes = none →
      ComputeSpec l rq (.err .noSignBytes, none)
  | sigNil (sb : SignBytes) : rq.signBytes? = some sb → l.hrs = sb.hrs → l.signBytes ≠ none →
      l.signature = none → ComputeSpec l rq (.panic .signatureNil, none)
  | unknownType : rq.signBytes? = none → ComputeSpec l rq (.panic .unknownVoteType, none)

theorem compute_spec (l : LSS) (rq : Req) : ComputeSpec l rq (compute l rq) := by
  unfold compute
  split
  · rename_i hn; exact .unknownType hn
  · rename_i sb hsb
    split
    · rename_i e he
      rcases checkHRS_err he with ⟨rfl, h1⟩ | ⟨rfl, h1⟩ | ⟨rfl, h1⟩ | ⟨rfl, h1, h2⟩
      · exact .regress sb _ hsb (by simp only [HRS.lt, SignBytes.hrs, LSS.hrs]; omega) (by simp)
      · exact .regress sb _ hsb (by simp only [HRS.lt, SignBytes.hrs, LSS.hrs]; omega) (by simp)
      · exact .regress sb _ hsb (by simp only [HRS.lt, SignBytes.hrs, LSS.hrs]; omega) (by simp)
      · exact .noSignBytes sb hsb h1 h2
    · rename_i hp
      have ⟨h1, h2, h3⟩ := checkHRS_panic hp
      exact .sigNil sb hsb h1 h2 h3
    · rename_i last sig hr
      have ⟨h1, h2, h3⟩ := checkHRS_reuse hr
      split
      · rename_i e; subst e; exact .same sb sig hsb h1 h2 h3
      · rename_i ne
        split
        · rename_i od; exact .tsSame sb last sig hsb h1 h2 h3 ne od
        · rename_i od; exact .conflict sb last hsb h1 h2 (by simpa using od)
    · rename_i hf
      exact .fresh sb hsb (checkHRS_fresh hf)

/-- a request strictly above the last record is always signed (the signer is not safe by refusing) -/
theorem compute_of_lt {l : LSS} {rq : Req} {sb : SignBytes} (h : rq.signBytes? = some sb)
    (lt : l.hrs.lt sb.hrs) : compute l rq = (.fresh (sign sb), some (savedRecord sb)) := by
  unfold compute
  rw [h]
  simp only
  rw [(checkHRS_fresh_iff l sb.height sb.round sb.step).mpr lt]
  rfl

/-- the step of every request is 1, 2 or 3 -/
theorem Req.step_pos {rq : Req} {sb : SignBytes} (h : rq.signBytes? = some sb) :
    sb.step = 1 ∨ sb.step = 2 ∨ sb.step = 3 := by
  cases rq with
  | vote h r t c ts => cases t <;> simp [Req.signBytes?] at h <;> subst h <;> simp
  | proposal h r c ts => simp [Req.signBytes?] at h; subst h; simp

/-! ### well-formed records and the history invariant -/

/-- a last-sign record as the signer itself writes it -/
structure WF (l : LSS) : Prop where
  some_sb : ∀ sb : SignBytes, l.signBytes = some sb → sb.hrs = l.hrs ∧ l.signature = some (sign sb)
  none_sb : l.signBytes = none → l.step = 0 ∧ l.signature = none

theorem WF_init : WF ({} : LSS) := ⟨by simp, by simp⟩

theorem WF_saved (sb : SignBytes) : WF (savedRecord sb) :=
  ⟨by intro sb' h; simp [savedRecord] at h; subst h; exact ⟨rfl, rfl⟩, by simp [savedRecord]⟩

theorem WF.sig {l : LSS} (w : WF l) {sig : Sig} (h : l.signature = some sig) :
    l.signBytes = some sig.signed ∧ sig.signed.hrs = l.hrs := by
  cases hsb : l.signBytes with
  | none => have := (w.none_sb hsb).2; rw [h] at this; contradiction
  | some sb =>
    have ⟨h1, h2⟩ := w.some_sb sb hsb
    rw [h] at h2
    injection h2 with h2
    subst h2
    exact ⟨rfl, h1⟩

/-- a released signature is remembered by record `l`: `l` is at or above it, and if at it, `l`
    still holds exactly that signature -/
def Bound (sig : Sig) (l : LSS) : Prop :=
  sig.signed.hrs.le l.hrs ∧ (sig.signed.hrs = l.hrs → l.signature = some sig)

theorem Bound_saved_of_lt {sig : Sig} {l : LSS} {sb : SignBytes} (b : Bound sig l)
    (lt : l.hrs.lt sb.hrs) : Bound sig (savedRecord sb) := by
  have : sig.signed.hrs.lt sb.hrs := HRS.lt_of_le_of_lt b.1 lt
  exact ⟨Or.inl this, fun e => absurd e (HRS.lt_ne this)⟩

theorem Bound_saved_self (sb : SignBytes) : Bound (sign sb) (savedRecord sb) :=
  ⟨Or.inr rfl, fun _ => rfl⟩

/-- what one step does, from a state whose memory equals its disk copy and is well-formed -/
inductive StepSpec (s : St) (op : Op) : St × Out → Prop
  /-- nothing durable changes, nothing fresh; whatever is released is the stored signature -/
  | keep (out : Out) : out.persistedFresh = none →
      (∀ sig, out.released = some sig → s.mem.signature = some sig ∧
        ∃ rq sb, op = .sign rq ∧ rq.signBytes? = some sb ∧ s.mem.hrs = sb.hrs ∧
          onlyDifferByTimestamp sig.signed sb = true ∧
          (out = .reply (.same sig) ∧ sig.signed = sb ∨
           out = .reply (.tsSame sig sig.signed.ts) ∧ sig.signed ≠ sb)) →
      StepSpec s op (s, out)
  /-- a fresh signature over `sb`, strictly above the old record, made durable -/
  | advance (rq : Req) (sb : SignBytes) (out : Out) : op.req? = some rq → rq.signBytes? = some sb →
      s.mem.hrs.lt sb.hrs → out.persistedFresh = some (sign sb) →
      (out = .reply (.fresh (sign sb)) ∧ op = .sign rq ∨
       out = .crashed .afterSave (.fresh (sign sb)) ∧ op = .crashAfterSave rq) →
      StepSpec s op (⟨savedRecord sb, savedRecord sb⟩, out)

theorem step_spec (s : St) (md : s.mem = s.disk) (w : WF s.mem) (op : Op) :
    StepSpec s op (step s op) := by
  have hs : (⟨s.disk, s.disk⟩ : St) = s := by cases s; simp at md; simp [md]
  cases op with
  | reload =>
    simp only [step]; rw [hs]
    exact .keep _ rfl (by intro sig h; simp [Out.released] at h)
  | crashBeforeSave rq =>
    simp only [step]; rw [hs]
    exact .keep _ rfl (by intro sig h; simp [Out.released] at h)
  | crashAfterSave rq =>
    simp only [step]
    have h := compute_spec s.mem rq
    generalize compute s.mem rq = c at h
    cases h with
    | fresh sb h1 h2 =>
      exact .advance rq sb _ rfl h1 h2 rfl (Or.inr ⟨rfl, rfl⟩)
    | _ =>
      simp only; rw [hs]
      exact .keep _ rfl (by intro sig h; simp [Out.released] at h)
  | sign rq =>
    simp only [step]
    have h := compute_spec s.mem rq
    generalize compute s.mem rq = c at h
    cases h with
    | fresh sb h1 h2 =>
      exact .advance rq sb _ rfl h1 h2 rfl (Or.inl ⟨rfl, rfl⟩)
    | same sb sig h1 h2 h3 h4 =>
      refine .keep _ rfl ?_
      intro sig' h
      simp [Out.released, Res.sig?] at h
      subst h
      have ⟨g1, g2⟩ := w.sig h4
      rw [h3] at g1; injection g1 with g1
      refine ⟨h4, rq, sb, rfl, h1, h2, ?_, Or.inl ⟨rfl, g1.symm⟩⟩
      rw [← g1]; exact onlyDiffer_of_content rfl rfl
    | tsSame sb last sig h1 h2 h3 h4 h5 h6 =>
      refine .keep _ rfl ?_
      intro sig' h
      simp [Out.released, Res.sig?] at h
      subst h
      have ⟨g1, g2⟩ := w.sig h4
      rw [h3] at g1; injection g1 with g1
      subst g1
      exact ⟨h4, rq, sb, rfl, h1, h2, h6, Or.inr ⟨rfl, fun e => h5 e.symm⟩⟩
    | _ =>
      exact .keep _ rfl (by intro sig h; simp [Out.released, Res.sig?] at h)

/-- the invariant carried along a history `log` ending in state `s` -/
structure Inv (log : List Entry) (s : St) : Prop where
  memdisk : s.mem = s.disk
  wf : WF s.mem
  /-- nothing released is forgotten -/
  bound : ∀ e ∈ log, ∀ sig : Sig, e.out.released = some sig → Bound sig s.mem
  /-- the stored signature was made (and saved) by an earlier request of this history -/
  origin : ∀ sig : Sig, s.mem.signature = some sig → ∃ e ∈ log, e.out.persistedFresh = some sig

theorem Inv_init : Inv [] St.init :=
  ⟨rfl, WF_init, by simp, by simp [St.init]⟩

/-- how a new entry relates to every earlier entry of the history -/
def Rel (a b : Entry) : Prop :=
  ∀ sa : Sig, a.out.released = some sa →
    Bound sa b.post.disk ∧
    ∀ sb : Sig, b.out.released = some sb →
      sa.signed.hrs.le sb.signed.hrs ∧
      (b.out.releasedFresh = some sb → sa.signed.hrs.lt sb.signed.hrs) ∧
      (sa.signed.hrs = sb.signed.hrs → sa = sb)

/-- facts about a single entry -/
structure EntryOK (e : Entry) : Prop where
  memdisk : e.post.mem = e.post.disk
  wf : WF e.post.disk
  /-- whatever is released is, at that moment, exactly the durable record -/
  persisted : ∀ sig : Sig, e.out.released = some sig →
    e.post.disk.hrs = sig.signed.hrs ∧ e.post.disk.signature = some sig ∧
    e.post.disk.signBytes = some sig.signed
  /-- and answers the request: same HRS and content; identical message unless only the
      timestamp differed, in which case the stored timestamp is handed back -/
  answers : ∀ sig : Sig, e.out.released = some sig → ∃ rq sb, e.op = .sign rq ∧
    rq.signBytes? = some sb ∧ onlyDifferByTimestamp sig.signed sb = true ∧
    (e.out = .reply (.fresh sig) ∧ sig.signed = sb ∨ e.out = .reply (.same sig) ∧ sig.signed = sb ∨
     e.out = .reply (.tsSame sig sig.signed.ts) ∧ sig.signed ≠ sb)

theorem released_of_fresh {o : Out} {s : Sig} (h : o.releasedFresh = some s) :
    o.released = some s ∧ o.persistedFresh = some s := by
  cases o with
  | reply r => cases r <;> simp_all [Out.releasedFresh, Out.released, Res.sig?, Out.persistedFresh]
  | crashed p r => simp [Out.releasedFresh] at h
  | reloaded => simp [Out.releasedFresh] at h

/-- the history line an operation produces from state `s` -/
def entryOf (s : St) (op : Op) : Entry := ⟨op, (step s op).2, (step s op).1⟩

theorem step_inv {log : List Entry} {s : St} (inv : Inv log s) (op : Op) :
    Inv (log ++ [entryOf s op]) (entryOf s op).post ∧ (∀ a ∈ log, Rel a (entryOf s op)) ∧
    EntryOK (entryOf s op) := by
  have sp := step_spec s inv.memdisk inv.wf op
  unfold entryOf
  generalize step s op = so at sp
  cases sp with
  | keep out hp hr =>
    refine ⟨⟨inv.memdisk, inv.wf, ?_, ?_⟩, ?_, ⟨inv.memdisk, inv.memdisk ▸ inv.wf, ?_, ?_⟩⟩
    · intro a ha sig hsig
      rcases List.mem_append.mp ha with ha | ha
      · exact inv.bound a ha sig hsig
      · simp at ha; subst ha
        have ⟨h1, rq, sb, _, _, _, _, _⟩ := hr sig hsig
        have ⟨_, g2⟩ := inv.wf.sig h1
        exact ⟨Or.inr g2, fun _ => h1⟩
    · intro sig hsig
      have ⟨a, ha, h⟩ := inv.origin sig hsig
      exact ⟨a, List.mem_append.mpr (Or.inl ha), h⟩
    · intro a ha sa hsa
      have b := inv.bound a ha sa hsa
      refine ⟨inv.memdisk ▸ b, ?_⟩
      intro sb hsb
      simp only at hsb
      have ⟨h1, _⟩ := hr sb hsb
      have ⟨_, g2⟩ := inv.wf.sig h1
      refine ⟨g2 ▸ b.1, ?_, ?_⟩
      · intro hf
        have := (released_of_fresh hf).2
        simp only at this
        rw [hp] at this; contradiction
      · intro e
        have := b.2 (e.trans g2)
        rw [h1] at this
        injection this with this
        exact this.symm
    · intro sig hsig
      have ⟨h1, _⟩ := hr sig hsig
      have ⟨g1, g2⟩ := inv.wf.sig h1
      simp only
      rw [← inv.memdisk]
      exact ⟨g2.symm, h1, g1⟩
    · intro sig hsig
      have ⟨_, rq, sb, h2, h3, _, h5, h6⟩ := hr sig hsig
      refine ⟨rq, sb, h2, h3, h5, ?_⟩
      rcases h6 with h6 | h6
      · exact Or.inr (Or.inl h6)
      · exact Or.inr (Or.inr h6)
  | advance rq sb out h1 h2 h3 h4 h5 =>
    have relOut : ∀ sig : Sig, out.released = some sig → sig = sign sb ∧ out = .reply (.fresh sig) ∧ op = .sign rq := by
      intro sig hsig
      rcases h5 with ⟨rfl, h5⟩ | ⟨rfl, _⟩
      · simp [Out.released, Res.sig?] at hsig
        subst hsig
        exact ⟨rfl, rfl, h5⟩
      · simp [Out.released] at hsig
    refine ⟨⟨rfl, WF_saved sb, ?_, ?_⟩, ?_, ⟨rfl, WF_saved sb, ?_, ?_⟩⟩
    · intro a ha sig hsig
      rcases List.mem_append.mp ha with ha | ha
      · exact Bound_saved_of_lt (inv.bound a ha sig hsig) h3
      · simp at ha; subst ha
        have ⟨g, _⟩ := relOut sig hsig
        subst g
        exact Bound_saved_self sb
    · intro sig hsig
      simp [savedRecord] at hsig
      subst hsig
      exact ⟨_, List.mem_append.mpr (Or.inr (List.mem_singleton.mpr rfl)), h4⟩
    · intro a ha sa hsa
      have b := inv.bound a ha sa hsa
      refine ⟨Bound_saved_of_lt b h3, ?_⟩
      intro sg hsg
      simp only at hsg
      have ⟨g, _⟩ := relOut sg hsg
      subst g
      have lt : sa.signed.hrs.lt sb.hrs := HRS.lt_of_le_of_lt b.1 h3
      exact ⟨Or.inl lt, fun _ => lt, fun e => absurd e (HRS.lt_ne lt)⟩
    · intro sig hsig
      have ⟨g, _⟩ := relOut sig hsig
      subst g
      exact ⟨rfl, rfl, rfl⟩
    · intro sig hsig
      have ⟨g, g2, g3⟩ := relOut sig hsig
      subst g
      exact ⟨rq, sb, g3, h2, onlyDiffer_of_content rfl rfl, Or.inl ⟨g2, rfl⟩⟩

/-! ### histories -/

theorem traceFrom_append (s : St) (a b : List Op) :
    traceFrom s (a ++ b) = traceFrom s a ++ traceFrom (runFrom s a) b := by
  induction a generalizing s with
  | nil => rfl
  | cons op a ih => simp [traceFrom, runFrom, ih]

theorem runFrom_append (s : St) (a b : List Op) :
    runFrom s (a ++ b) = runFrom (runFrom s a) b := by
  induction a generalizing s with
  | nil => rfl
  | cons op a ih => simp [runFrom, ih]

theorem traceFrom_length (s : St) (ops : List Op) : (traceFrom s ops).length = ops.length := by
  induction ops generalizing s with
  | nil => rfl
  | cons op a ih => simp [traceFrom, ih]

/-- the whole-history invariant: every prefix state satisfies `Inv`, later entries relate to earlier
    ones by `Rel`, every entry is `EntryOK` -/
theorem trace_inv (pre : List Entry) (s : St) (inv : Inv pre s) (hp : pre.Pairwise Rel)
    (hok : ∀ e ∈ pre, EntryOK e) (ops : List Op) :
    Inv (pre ++ traceFrom s ops) (runFrom s ops) ∧ (pre ++ traceFrom s ops).Pairwise Rel ∧
    ∀ e ∈ pre ++ traceFrom s ops, EntryOK e := by
  induction ops generalizing pre s with
  | nil => simpa [traceFrom, runFrom] using ⟨inv, hp, hok⟩
  | cons op ops ih =>
    have ⟨i1, i2, i3⟩ := step_inv inv op
    simp only [entryOf] at i1 i2 i3
    have := ih (pre ++ [⟨op, (step s op).2, (step s op).1⟩]) (step s op).1 i1
      (by
        rw [List.pairwise_append]
        refine ⟨hp, by simp, ?_⟩
        intro a ha b hb
        simp at hb; subst hb
        exact i2 a ha)
      (by
        intro e he
        rcases List.mem_append.mp he with he | he
        · exact hok e he
        · simp at he; subst he; exact i3)
    simpa [traceFrom, runFrom, List.append_assoc] using this

theorem trace_all (ops : List Op) :
    Inv (trace ops) (run ops) ∧ (trace ops).Pairwise Rel ∧ ∀ e ∈ trace ops, EntryOK e := by
  have := trace_inv [] St.init Inv_init List.Pairwise.nil (by simp) ops
  simpa [trace, run] using this

/-- the `j`-th entry of a history is the step taken from the state reached by the first `j` ops -/
theorem trace_getElem (ops : List Op) (j : Nat) (hj : j < (trace ops).length) :
    ∃ op, (trace ops)[j] = ⟨op, (step (run (ops.take j)) op).2, (step (run (ops.take j)) op).1⟩ ∧
      (trace ops).take j = trace (ops.take j) := by
  have hl : j < ops.length := by rw [trace, traceFrom_length] at hj; exact hj
  have split : ops = ops.take j ++ ops[j] :: ops.drop (j + 1) := by
    rw [List.getElem_cons_drop]; exact (List.take_append_drop j ops).symm
  have lt : (trace (ops.take j)).length = j := by
    rw [trace, traceFrom_length, List.length_take]; omega
  have e : trace ops = trace (ops.take j) ++
      (⟨ops[j], (step (run (ops.take j)) ops[j]).2, (step (run (ops.take j)) ops[j]).1⟩ ::
        traceFrom (step (run (ops.take j)) ops[j]).1 (ops.drop (j + 1))) := by
    have := traceFrom_append St.init (ops.take j) (ops[j] :: ops.drop (j + 1))
    rw [← split] at this
    show traceFrom St.init ops = _
    rw [this]; rfl
  refine ⟨ops[j], ?_, ?_⟩
  · simp only [e]
    rw [List.getElem_append_right (by omega)]
    simp [lt]
  · rw [e, List.take_append_of_le_length (by omega), List.take_of_length_le (by omega)]

/-- entry `j` is a step from a state that satisfies the invariant w.r.t. the first `j` entries -/
theorem trace_entry (ops : List Op) (j : Nat) (hj : j < (trace ops).length) :
    ∃ op, (trace ops)[j] = entryOf (run (ops.take j)) op ∧
      Inv ((trace ops).take j) (run (ops.take j)) := by
  have ⟨op, h1, h2⟩ := trace_getElem ops j hj
  exact ⟨op, h1, h2 ▸ (trace_all (ops.take j)).1⟩

theorem trace_rel (ops : List Op) (i j : Nat) (hi : i < (trace ops).length)
    (hj : j < (trace ops).length) (lt : i < j) : Rel (trace ops)[i] (trace ops)[j] :=
  (List.pairwise_iff_getElem.mp (trace_all ops).2.1) i j hi hj lt

theorem trace_ok (ops : List Op) (i : Nat) (hi : i < (trace ops).length) : EntryOK (trace ops)[i] :=
  (trace_all ops).2.2 _ (List.getElem_mem hi)

end Rigo.Signer
